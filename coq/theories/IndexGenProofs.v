(** IndexGenProofs.v -- C18: the pieces of IndexClassification that translator/gen_index.py reads off the C++ are the ones
    PV.Index / PV.IndexReprepare were written with, hence the [..._src] functions of PV.IndexGen are the model, hence the
    theorems of PV.IndexProofs hold of the [..._src] functions.

    Layer 1 (leaf agreements, [gen_..._is_model]): statements about the GENERATED constants only, closed by computation or a
    case analysis over the comparisons that occur.  They stop checking when the source text says something else: a changed
    bound, skip test, skip action, argument order, reset list, store operation, comparison chain.
    Layer 2 ([..._src_is_model]): structural inductions that use only layer 1.
    Layer 3: the theorems of props/Properties_C18_source.v, transported along layer 2. *)
Require Import Bool List Arith Lia Permutation.
Require Strings.String Strings.Ascii.
From PV Require Import Outcome Index IndexProofs IndexReprepare IndexReprepareProofs IndexShapes IndexGen.
From PVgen Require Import Gen_IndexInfoCtor Gen_IndexInfoLess Gen_IndexPrepare Gen_IndexGetIndex Gen_IndexGetIndex3
                          Gen_IndexGetInfo Gen_IndexCheckIndex.
Import ListNotations.

(** decide every comparison of naturals that occurs in the goal *)
Ltac split_cmp :=
  repeat match goal with
  | |- context [Nat.eqb ?a ?b] => destruct (Nat.eqb_spec a b)
  | |- context [Nat.ltb ?a ?b] => destruct (Nat.ltb_spec a b)
  | |- context [Nat.leb ?a ?b] => destruct (Nat.leb_spec a b)
  end.

(** * Layer 1: what the source text says *)

Lemma gen_info_ctor_is_model : forall (L : Type) (l : L) (o s : nat),
  gen_info_fields L l o s = (l, o, s) /\ gen_info_hash_of_label = true.
Proof. intros. split; reflexivity. Qed.

(** IndexInfo::operator< is the lexicographic order on (SiteLabelHash, Orbital, Spin) *)
Lemma gen_info_lt_is_model : forall h1 o1 s1 h2 o2 s2 : nat,
  gen_info_lt h1 o1 s1 h2 o2 s2 = true <->
  (h1 < h2 \/ (h1 = h2 /\ (o1 < o2 \/ (o1 = o2 /\ s1 < s2)))).
Proof.
  intros. unfold gen_info_lt. split_cmp; cbn [negb andb orb]; split; intro HH; try discriminate HH; try reflexivity; try lia.
Qed.

Lemma gen_prepare_reset_is_model : forall t0 : table,
  fold_left reset_member_src gen_prepare_reset t0 = mkTable 0 [] [].
Proof. intro t0. reflexivity. Qed.

Lemma gen_first_pass_is_model : forall n m o s : nat,
  gen_maxspin_init = 0 /\ gen_first_size n m o s = n + o * s /\ gen_first_maxspin n m o s = Nat.max m s.
Proof.
  intros. split; [reflexivity|]. split; [reflexivity|].
  unfold gen_first_maxspin. split_cmp; lia.
Qed.

Lemma gen_vector_is_model : forall n m : nat, gen_current_init = 0 /\ gen_resize n m = n.
Proof. intros. split; reflexivity. Qed.

Lemma gen_sm_skip_is_model : forall z o s : nat, gen_sm_skip z o s = (s <=? z).
Proof. intros. unfold gen_sm_skip. split_cmp; try reflexivity; lia. Qed.

Lemma gen_sm_nest_is_model : forall n m z o s i : nat,
  gen_order_spins_selects_count_outer = true /\
  gen_sm_outer n m = (0, m) /\
  gen_sm_skip z o s = (s <=? z) /\
  gen_sm_skip_action = SkipContinue /\
  gen_sm_inner z o s = (0, o) /\
  gen_sm_emit z i = (i, z).
Proof. intros. repeat split; try reflexivity; apply gen_sm_skip_is_model. Qed.

Lemma gen_st_nest_is_model : forall o s a b : nat,
  gen_st_outer o s = (0, o) /\ gen_st_inner a o s = (0, s) /\ gen_st_emit a b = (a, b).
Proof. intros. repeat split; reflexivity. Qed.

Lemma gen_build_is_model : forall n i : nat,
  gen_build_range n = (0, n) /\ gen_build_store = StoreAssign /\ gen_build_slot i = i /\ gen_build_value i = i.
Proof. intros. repeat split; reflexivity. Qed.

Lemma gen_getindex_is_model : forall (found : option nat) (n : nat),
  gen_getindex found n = match found with Some v => v | None => n end.
Proof. intros. reflexivity. Qed.

Lemma gen_getindex3_is_model : forall (L : Type) (l : L) (o s : nat), gen_getindex3_args L l o s = (l, o, s).
Proof. intros. reflexivity. Qed.

Lemma gen_getinfo_is_model : forall i n : nat, gen_getinfo_throws i n = (n <=? i) /\ gen_getinfo_slot i = i.
Proof. intros. split; [|reflexivity]. unfold gen_getinfo_throws. split_cmp; try reflexivity; lia. Qed.

Lemma gen_checkindex_is_model : forall i n : nat, gen_checkindex i n = (i <? n).
Proof. intros. unfold gen_checkindex. split_cmp; try reflexivity; lia. Qed.

(** * Layer 2: the functions rebuilt around the generated pieces are the model *)

Lemma for_range_ext {St : Type} (f g : nat -> St -> outcome St) :
  (forall i st, f i st = g i st) -> forall n lo st, for_range n lo f st = for_range n lo g st.
Proof.
  intros H n. induction n as [|n IH]; intros lo st; cbn [for_range]; [reflexivity|].
  rewrite H. destruct (g lo st); cbn [bind]; auto.
Qed.

Lemma for_pair_from_zero {St : Type} (n : nat) (body : nat -> St -> outcome St) (st : St) :
  for_pair (0, n) body st = for_range n 0 body st.
Proof. unfold for_pair. cbn [fst snd]. rewrite Nat.sub_0_r. reflexivity. Qed.

Lemma emit_src_is_model : forall (l : label) (a b : nat) (st : estate), emit_src l (a, b) st = emit l a b st.
Proof. intros. reflexivity. Qed.

Lemma site_major_src_is_model : forall (ss : list site) (st : estate), site_major_src ss st = site_major ss st.
Proof.
  induction ss as [|s rest IH]; intro st; cbn [site_major_src site_major]; [reflexivity|].
  destruct (gen_st_nest_is_model (s_orb s) (s_spin s) 0 0) as [Ho _]. rewrite Ho, for_pair_from_zero.
  rewrite (for_range_ext _ (fun i => for_range (s_spin s) 0 (fun z => emit (s_label s) i z))).
  - destruct (for_range (s_orb s) 0 _ st); cbn [bind]; auto.
  - intros a st'. destruct (gen_st_nest_is_model (s_orb s) (s_spin s) a 0) as [_ [Hi _]]. rewrite Hi, for_pair_from_zero.
    apply for_range_ext. intros b st''. destruct (gen_st_nest_is_model (s_orb s) (s_spin s) a b) as [_ [_ He]]. rewrite He.
    apply emit_src_is_model.
Qed.

Lemma spin_major_sites_src_is_model : forall (z : nat) (ss : list site) (st : estate),
  spin_major_sites_src z ss st = spin_major_sites true z ss st.
Proof.
  intros z ss. induction ss as [|s rest IH]; intro st; cbn [spin_major_sites_src spin_major_sites]; [reflexivity|].
  destruct (gen_sm_nest_is_model 0 0 z (s_orb s) (s_spin s) 0) as [_ [_ [Hs [Ha [Hi _]]]]].
  rewrite Hs, Ha, Hi. destruct (s_spin s <=? z); [apply IH|].
  rewrite for_pair_from_zero.
  rewrite (for_range_ext _ (fun i => emit (s_label s) i z)).
  - destruct (for_range (s_orb s) 0 _ st); cbn [bind]; auto.
  - intros i st'. destruct (gen_sm_nest_is_model 0 0 z (s_orb s) (s_spin s) i) as [_ [_ [_ [_ [_ He]]]]]. rewrite He.
    apply emit_src_is_model.
Qed.

Lemma spin_major_src_is_model : forall (size : nat) (ss : list site) (st : estate),
  spin_major_src size (max_spin ss) ss st = spin_major true ss st.
Proof.
  intros. unfold spin_major_src, spin_major.
  destruct (gen_sm_nest_is_model size (max_spin ss) 0 0 0 0) as [_ [Ho _]]. rewrite Ho, for_pair_from_zero.
  apply for_range_ext. intros z st'. apply spin_major_sites_src_is_model.
Qed.

Lemma first_pass_src_from : forall (ss : list site) (n m : nat),
  fold_left (fun acc s => (gen_first_size (fst acc) (snd acc) (s_orb s) (s_spin s),
                           gen_first_maxspin (fst acc) (snd acc) (s_orb s) (s_spin s))) ss (n, m)
  = (n + index_total ss, Nat.max m (max_spin ss)).
Proof.
  induction ss as [|s r IH]; intros n m; cbn [fold_left index_total max_spin fst snd].
  - f_equal; lia.
  - destruct (gen_first_pass_is_model n m (s_orb s) (s_spin s)) as [_ [H1 H2]]. rewrite H1, H2, IH. f_equal; lia.
Qed.

Lemma first_pass_src_is_model : forall (ss : list site) (n : nat),
  first_pass_src ss n = (n + index_total ss, max_spin ss).
Proof.
  intros. unfold first_pass_src. destruct (gen_first_pass_is_model 0 0 0 0) as [H0 _]. rewrite H0.
  rewrite first_pass_src_from. reflexivity.
Qed.

Section WithHash.
Variable hash : label -> nat.
Hypothesis hash_inj : forall a b : label, hash a = hash b -> a = b.

(** two IndexInfo objects are one key of the std::map iff they are the same (label, orbital, spin) *)
Lemma equiv_src_iff : forall a b : info, equiv_src hash a b = true <-> a = b.
Proof.
  intros [[la oa] sa] [[lb ob] sb]. unfold equiv_src, lt_src, info_label, info_orb, info_spin. cbn [fst snd].
  rewrite andb_true_iff, !negb_true_iff, <- !not_true_iff_false, !gen_info_lt_is_model.
  split.
  - intros [H1 H2]. assert (hash la = hash lb /\ oa = ob /\ sa = sb) as [Hh [Ho Hs]] by lia.
    apply hash_inj in Hh. subst. reflexivity.
  - intro E. injection E as -> -> ->. lia.
Qed.

Lemma equiv_src_is_model : forall a b : info, equiv_src hash a b = info_eqb a b.
Proof.
  intros a b. apply eq_true_iff_eq. rewrite equiv_src_iff.
  destruct (info_eqb_spec a b) as [E|N]; split; intro H; try assumption; try reflexivity; try discriminate H.
  contradiction.
Qed.

Lemma map_find_src_is_model : forall (k : info) (m : imap), map_find_src hash k m = map_find k m.
Proof.
  intros k m. induction m as [|[k' v] t IH]; cbn [map_find_src map_find]; [reflexivity|].
  rewrite equiv_src_is_model, IH. reflexivity.
Qed.

Lemma map_store_src_is_model : forall (k : info) (v : nat) (m : imap),
  map_store_src hash gen_build_store k v m = map_set k v m.
Proof.
  intros k v m. destruct (gen_build_is_model 0 0) as [_ [Hs _]]. rewrite Hs. cbn [map_store_src].
  induction m as [|[k' v'] t IH]; cbn [map_assign_src map_set]; [reflexivity|].
  rewrite equiv_src_is_model, IH. reflexivity.
Qed.

Lemma build_step_src_is_model : forall (v : vec) (i : nat) (m : imap), build_step_src hash v i m = build_step v i m.
Proof.
  intros v i m. unfold build_step_src, build_step.
  destruct (gen_build_is_model 0 i) as [_ [_ [H1 H2]]]. rewrite H1, H2.
  destruct (vec_deref v i); cbn [bind]; try reflexivity. rewrite map_store_src_is_model. reflexivity.
Qed.

(** prepare() on an object in any state *)
Theorem prepare_on_src_is_model : forall (m : bool) (ss : list site) (t0 : table),
  prepare_on_src hash m ss t0 = prepare_on true m ss t0.
Proof.
  intros m ss t0. unfold prepare_on_src, prepare_on, prepare_body, reset_src, reset.
  rewrite gen_prepare_reset_is_model. cbn [IndexSize IndicesToInfo InfoToIndices].
  rewrite first_pass_src_is_model. cbn [fst snd].
  destruct (gen_vector_is_model (0 + index_total ss) (max_spin ss)) as [Hc Hr]. rewrite Hc, Hr.
  destruct (gen_sm_nest_is_model 0 0 0 0 0 0) as [Hw _]. rewrite Hw.
  assert (Hfill : (if Bool.eqb m true
                   then spin_major_src (0 + index_total ss) (max_spin ss) ss (vec_resize [] (0 + index_total ss), 0)
                   else site_major_src ss (vec_resize [] (0 + index_total ss), 0))
                  = (if m then spin_major true ss (vec_resize [] (0 + index_total ss), 0)
                     else site_major ss (vec_resize [] (0 + index_total ss), 0))).
  { destruct m; cbn [Bool.eqb]; [apply spin_major_src_is_model | apply site_major_src_is_model]. }
  rewrite Hfill. clear Hfill.
  destruct (if m then _ else _) as [st| | | |]; cbn [bind]; try reflexivity.
  destruct (gen_build_is_model (0 + index_total ss) 0) as [Hb _]. rewrite Hb, for_pair_from_zero.
  rewrite (for_range_ext _ (build_step (fst st)) (build_step_src_is_model (fst st))).
  reflexivity.
Qed.

Theorem prepare_src_is_model : forall (m : bool) (ss : list site), prepare_src hash m ss = prepare true m ss.
Proof. intros. unfold prepare_src. rewrite prepare_on_src_is_model. apply prepare_on_is_prepare. Qed.

Theorem prepare_lattice_src_is_model : forall (m : bool) (calls : list site),
  prepare_lattice_src hash m calls = prepare_lattice true m calls.
Proof. intros. unfold prepare_lattice_src, prepare_lattice. apply prepare_src_is_model. Qed.

Theorem prepare_history_src_is_model : forall (ms : list bool) (ss : list site) (t0 : table),
  prepare_history_src hash ms ss t0 = prepare_history true ms ss t0.
Proof.
  intros ms ss. induction ms as [|m r IH]; intro t0; cbn [prepare_history_src prepare_history]; [reflexivity|].
  rewrite prepare_on_src_is_model. destruct (prepare_on true m ss t0); cbn [bind]; auto.
Qed.

Theorem getIndex_src_is_model : forall (t : table) (x : info), getIndex_src hash t x = getIndex t x.
Proof. intros. unfold getIndex_src, getIndex. rewrite gen_getindex_is_model, map_find_src_is_model. reflexivity. Qed.

Theorem getIndex3_src_is_model : forall (t : table) (l : label) (o s : nat), getIndex3_src hash t l o s = getIndex t (l, o, s).
Proof.
  intros. unfold getIndex3_src. rewrite gen_getindex3_is_model. cbn [fst snd]. rewrite getIndex_src_is_model.
  unfold mk_info_src. destruct (gen_info_ctor_is_model label l o s) as [H _]. rewrite H. reflexivity.
Qed.

Theorem getInfo_src_is_model : forall (t : table) (i : nat), getInfo_src t i = getInfo t i.
Proof. intros. unfold getInfo_src, getInfo. destruct (gen_getinfo_is_model i (IndexSize t)) as [H1 H2]. rewrite H1, H2. reflexivity. Qed.

Theorem checkIndex_src_is_model : forall (t : table) (i : nat), checkIndex_src t i = checkIndex t i.
Proof. intros. unfold checkIndex_src, checkIndex. apply gen_checkindex_is_model. Qed.

Theorem index_perm_src_is_model : forall (t1 t2 : table) (f : label -> label) (i : nat),
  index_perm_src hash t1 t2 f i = index_perm t1 t2 f i.
Proof.
  intros. unfold index_perm_src, index_perm. rewrite getInfo_src_is_model.
  destruct (getInfo t1 i); try reflexivity. apply getIndex_src_is_model.
Qed.

Theorem prepare_both_src_are_model : forall (m : bool) (ss : list site) (t0 : table),
  prepare_on_src hash m ss t0 = prepare_on true m ss t0 /\ prepare_src hash m ss = prepare true m ss.
Proof. intros. split; [apply prepare_on_src_is_model | apply prepare_src_is_model]. Qed.

Theorem lookups_src_are_model : forall (t : table) (l : label) (o s i : nat),
  getIndex_src hash t (l, o, s) = getIndex t (l, o, s) /\
  getIndex3_src hash t l o s = getIndex t (l, o, s) /\
  getInfo_src t i = getInfo t i /\
  checkIndex_src t i = checkIndex t i.
Proof.
  intros. split; [apply getIndex_src_is_model|]. split; [apply getIndex3_src_is_model|].
  split; [apply getInfo_src_is_model | apply checkIndex_src_is_model].
Qed.

(** * Layer 3: the theorems of C18 about the functions built from the source text *)

Lemma harmless_fixed : forall (m : bool) (ss : list site), harmless true m ss.
Proof. intros. left. reflexivity. Qed.

Theorem prepare_total_src : forall (m : bool) (ss : list site),
  NoDup (labels ss) -> exists t, prepare_src hash m ss = Done t.
Proof. intros m ss Hnd. rewrite prepare_src_is_model. apply prepare_total; [exact Hnd | apply harmless_fixed]. Qed.

Theorem index_count_src : forall (m : bool) (ss : list site) (t : table),
  NoDup (labels ss) -> prepare_src hash m ss = Done t ->
  IndexSize t = index_total ss /\ length (IndicesToInfo t) = IndexSize t.
Proof.
  intros m ss t Hnd E. rewrite prepare_src_is_model in E.
  apply (index_count true m ss t Hnd (harmless_fixed m ss) E).
Qed.

Theorem getIndex_getInfo_src : forall (m : bool) (ss : list site) (t : table),
  NoDup (labels ss) -> prepare_src hash m ss = Done t ->
  forall i, i < IndexSize t -> exists x, getInfo_src t i = Done x /\ valid ss x /\ getIndex_src hash t x = i.
Proof.
  intros m ss t Hnd E i Hi. rewrite prepare_src_is_model in E.
  destruct (getInfo_total true m ss t Hnd (harmless_fixed m ss) E i Hi) as [x [Ex Hv]].
  destruct (getIndex_getInfo true m ss t Hnd (harmless_fixed m ss) E i Hi) as [x' [Ex' Hx']].
  rewrite Ex in Ex'. injection Ex' as <-.
  exists x. rewrite getInfo_src_is_model, getIndex_src_is_model. auto.
Qed.

Theorem getInfo_getIndex_src : forall (m : bool) (ss : list site) (t : table),
  NoDup (labels ss) -> prepare_src hash m ss = Done t ->
  forall x, valid ss x -> getIndex_src hash t x < IndexSize t /\ getInfo_src t (getIndex_src hash t x) = Done x.
Proof.
  intros m ss t Hnd E x Hv. rewrite prepare_src_is_model in E.
  rewrite getInfo_src_is_model, getIndex_src_is_model.
  apply (getInfo_getIndex true m ss t Hnd (harmless_fixed m ss) E x Hv).
Qed.

Theorem getIndex3_getInfo_src : forall (m : bool) (ss : list site) (t : table),
  NoDup (labels ss) -> prepare_src hash m ss = Done t ->
  forall (l : label) (o s : nat), valid ss (l, o, s) ->
  getIndex3_src hash t l o s < IndexSize t /\ getInfo_src t (getIndex3_src hash t l o s) = Done (l, o, s).
Proof.
  intros m ss t Hnd E l o s Hv. rewrite prepare_src_is_model in E.
  rewrite getInfo_src_is_model, getIndex3_src_is_model.
  apply (getInfo_getIndex true m ss t Hnd (harmless_fixed m ss) E (l, o, s) Hv).
Qed.

Theorem getIndex_unknown_src : forall (m : bool) (ss : list site) (t : table),
  NoDup (labels ss) -> prepare_src hash m ss = Done t ->
  forall x, ~ valid ss x -> getIndex_src hash t x = IndexSize t.
Proof.
  intros m ss t Hnd E x Hv. rewrite prepare_src_is_model in E. rewrite getIndex_src_is_model.
  apply (getIndex_unknown true m ss t Hnd (harmless_fixed m ss) E x Hv).
Qed.

Theorem index_nodup_src : forall (m : bool) (ss : list site) (t : table),
  NoDup (labels ss) -> prepare_src hash m ss = Done t ->
  forall (i j : nat) (x : info), getInfo_src t i = Done x -> getInfo_src t j = Done x -> i = j.
Proof.
  intros m ss t Hnd E i j x. rewrite prepare_src_is_model in E. rewrite !getInfo_src_is_model.
  apply (index_nodup true m ss t Hnd (harmless_fixed m ss) E).
Qed.

Theorem getInfo_throws_src : forall (t : table) (i : nat), IndexSize t <= i -> getInfo_src t i = Throws exWrongIndex.
Proof. intros. rewrite getInfo_src_is_model. apply getInfo_throws. assumption. Qed.

Theorem checkIndex_spec_src : forall (t : table) (i : nat), checkIndex_src t i = true <-> i < IndexSize t.
Proof. intros. rewrite checkIndex_src_is_model. apply checkIndex_spec. Qed.

Theorem index_bijection_src : forall (m : bool) (calls : list site),
  NoDup (labels calls) ->
  exists t, prepare_lattice_src hash m calls = Done t /\
    IndexSize t = index_total calls /\
    (forall i, i < IndexSize t ->
               exists x, getInfo_src t i = Done x /\ valid calls x /\ getIndex_src hash t x = i) /\
    (forall x, valid calls x -> getIndex_src hash t x < IndexSize t /\ getInfo_src t (getIndex_src hash t x) = Done x) /\
    (forall x, ~ valid calls x -> getIndex_src hash t x = IndexSize t) /\
    (forall i, IndexSize t <= i -> getInfo_src t i = Throws exWrongIndex).
Proof.
  intros m calls Hnd. destruct (index_bijection_fixed m calls Hnd) as [t [E [H1 [H2 [H3 [H4 H5]]]]]].
  exists t. rewrite prepare_lattice_src_is_model. split; [exact E|]. split; [exact H1|].
  split. { intros i Hi. destruct (H2 i Hi) as [x Hx]. exists x. rewrite getInfo_src_is_model, getIndex_src_is_model. exact Hx. }
  split. { intros x Hv. rewrite getInfo_src_is_model, getIndex_src_is_model. apply H3. exact Hv. }
  split. { intros x Hv. rewrite getIndex_src_is_model. apply H4. exact Hv. }
  intros i Hi. rewrite getInfo_src_is_model. apply H5. exact Hi.
Qed.

Theorem prepare_history_is_last_src : forall (ms : list bool) (m : bool) (ss : list site) (t0 : table),
  NoDup (labels ss) -> prepare_history_src hash (ms ++ [m]) ss t0 = prepare_src hash m ss.
Proof.
  intros ms m ss t0 Hnd. rewrite prepare_history_src_is_model, prepare_src_is_model.
  apply prepare_history_is_last; [exact Hnd|].
  apply Forall_forall. intros m' _. apply harmless_fixed.
Qed.

Theorem rename_is_mode_permutation_src :
  forall (m1 m2 : bool) (calls1 calls2 : list site) (f g : label -> label) (t1 t2 : table),
  NoDup (labels calls1) ->
  (forall l, In l (labels calls1) -> g (f l) = l) ->
  Permutation (map (rename_site f) calls1) calls2 ->
  prepare_lattice_src hash m1 calls1 = Done t1 ->
  prepare_lattice_src hash m2 calls2 = Done t2 ->
  let N := IndexSize t1 in
  let pi := index_perm_src hash t1 t2 f in
  let pi' := index_perm_src hash t2 t1 g in
  IndexSize t2 = N /\
  (forall i, i < N -> pi i < N) /\
  (forall k, k < N -> pi' k < N) /\
  (forall i, i < N -> pi' (pi i) = i) /\
  (forall k, k < N -> pi (pi' k) = k) /\
  (forall i j, i < N -> j < N -> pi i = pi j -> i = j) /\
  (forall k, k < N -> exists i, i < N /\ pi i = k) /\
  (forall i, i < N -> exists x, getInfo_src t1 i = Done x /\ getInfo_src t2 (pi i) = Done (rename_info f x)).
Proof.
  intros m1 m2 calls1 calls2 f g t1 t2 Hnd Hgf Hp E1 E2. rewrite prepare_lattice_src_is_model in E1, E2.
  pose proof (rename_is_mode_permutation true m1 true m2 calls1 calls2 f g t1 t2 Hnd Hgf Hp
                (harmless_fixed _ _) (harmless_fixed _ _) E1 E2) as H.
  cbv zeta in H |- *.
  destruct H as [H0 [H1 [H2 [H3 [H4 [H5 [H6 H7]]]]]]].
  split; [exact H0|].
  split. { intros i Hi. rewrite index_perm_src_is_model. apply H1. exact Hi. }
  split. { intros k Hk. rewrite index_perm_src_is_model. apply H2. exact Hk. }
  split. { intros i Hi. rewrite !index_perm_src_is_model. apply H3. exact Hi. }
  split. { intros k Hk. rewrite !index_perm_src_is_model. apply H4. exact Hk. }
  split. { intros i j Hi Hj. rewrite !index_perm_src_is_model. apply H5; assumption. }
  split. { intros k Hk. destruct (H6 k Hk) as [i [Hi Ei]]. exists i. rewrite index_perm_src_is_model. auto. }
  intros i Hi. destruct (H7 i Hi) as [x [Ex Ey]]. exists x. rewrite index_perm_src_is_model, !getInfo_src_is_model. auto.
Qed.

End WithHash.

(** * The hypothesis on the hash is satisfiable: an injective function from byte strings to numbers *)
Fixpoint enc (s : String.string) : nat :=
  match s with
  | String.EmptyString => 0
  | String.String c r => S (Ascii.nat_of_ascii c + 256 * enc r)
  end.

Lemma enc_inj : forall a b : label, enc a = enc b -> a = b.
Proof.
  induction a as [|c r IH]; destruct b as [|c' r']; cbn [enc]; intro H; try discriminate H; try reflexivity.
  injection H as H.
  pose proof (Ascii.nat_ascii_bounded c) as B1. pose proof (Ascii.nat_ascii_bounded c') as B2.
  assert (Ascii.nat_of_ascii c = Ascii.nat_of_ascii c' /\ enc r = enc r') as [Hc Hr] by lia.
  f_equal.
  - rewrite <- (Ascii.ascii_nat_embedding c), <- (Ascii.ascii_nat_embedding c'), Hc. reflexivity.
  - apply IH. exact Hr.
Qed.

Module SrcExamples.
  Import Strings.String.
  Local Open Scope string_scope.

  Definition ex_calls : list site := [mkSite "b" 2 1; mkSite "a" 1 3; mkSite "ab" 3 2].

  Example ex_hypotheses : NoDup (labels ex_calls) /\ (forall a b : label, enc a = enc b -> a = b).
  Proof.
    split; [|exact enc_inj].
    repeat constructor; cbn; intuition discriminate.
  Qed.

  (** the spin-major table of the source-built prepare on this lattice: 11 indices, z = 0 first *)
  Example ex_prepare_src_runs :
    match prepare_lattice_src enc true ex_calls with
    | Done t => IndexSize t = 11 /\ getInfo_src t 4 = Done ("b", 0, 0) /\ getIndex3_src enc t "ab" 2 1 = 9
    | _ => False
    end.
  Proof. vm_compute. repeat split; reflexivity. Qed.

  (** re-preparing in the other order on the same object gives the other table, nothing stale *)
  Example ex_reprepare_src :
    prepare_history_src enc [true; false] (site_map ex_calls) constructed = prepare_src enc false (site_map ex_calls).
  Proof. vm_compute. reflexivity. Qed.
End SrcExamples.
