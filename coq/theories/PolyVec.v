(** PolyVec.v -- the vector form Operator::getMatrixElement(bra, ket, states) (src/pomerol/Operator.cpp) (C05).

    The function evaluates  sum_i sum_{(r, m) in actRight(states[i])}  conj(bra[j(r)]) * m * ket[i],  where j(r) is the position of
    the image state r in the list [states] found by a LINEAR search (std::find: the first position holding r), terms with
    |ket[i]| <= epsilon are skipped, and image states that are not in the list contribute 0.

    Model: [melem_vec], generic in the number type (a Section over its operations and the few laws used).  Theorem
    [melem_vec_unit]: for a list of pairwise different basis states IN ANY ORDER and the unit vectors e_j, e_i over it the result is the
    pair form getMatrixElement(states[j], states[i]) -- the entry of states[j] in actRight(states[i]), 0 when there is none.  This is
    the statement the run-time comparison GMEVEC of harness/h_c05.cpp samples (ascending, descending, scrambled lists, scrambled
    subsets); a search that presupposes an ordering of the list (a binary search) does not satisfy it.

    Tie: hand-written model; on every run h_c05 compares the implementation's vector form on unit vectors with the implementation's
    pair form, which in turn is compared with the extracted polynomial model (checks/C05.py).  No axioms. *)
Require Import List Arith Bool PeanoNat Lia.
Import ListNotations.

Section Vec.
  Variable K : Type.
  Variables (kzero kone : K) (kadd kmul : K -> K -> K) (kconj : K -> K).
  Variable nz : K -> bool.                      (* std::abs(x) > std::numeric_limits<RealType>::epsilon() *)
  Variable state : Type.
  Variable state_eqb : state -> state -> bool.
  Variable dflt : state.
  Variable act : state -> list (state * K).    (* Operator::actRight(ket): a std::map, i.e. pairwise different keys *)

  Hypothesis eqb_spec : forall a b, state_eqb a b = true <-> a = b.
  Hypothesis add_0_r : forall x, kadd x kzero = x.
  Hypothesis add_0_l : forall x, kadd kzero x = x.
  Hypothesis mul_0_l : forall x, kmul kzero x = kzero.
  Hypothesis mul_1_l : forall x, kmul kone x = x.
  Hypothesis mul_1_r : forall x, kmul x kone = x.
  Hypothesis conj_0 : kconj kzero = kzero.
  Hypothesis conj_1 : kconj kone = kone.
  Hypothesis nz_0 : nz kzero = false.
  Hypothesis nz_1 : nz kone = true.

  (** std::find(states.begin(), states.end(), r) as a position: the FIRST one holding r *)
  Fixpoint index_of (r : state) (l : list state) : option nat :=
    match l with
    | [] => None
    | s :: t => if state_eqb s r then Some 0 else option_map S (index_of r t)
    end.

  (** generic in the search, so that the variant with another search can be stated (see the end of the file) *)
  Definition contrib_by (search : state -> list state -> option nat) (bra : nat -> K) (states : list state) (kv : K) (acc : K) (e : state * K) : K :=
    kadd acc (kmul (kmul (match search (fst e) states with Some j => kconj (bra j) | None => kzero end) (snd e)) kv).

  Definition row_by search (bra ket : nat -> K) (states : list state) (acc : K) (i : nat) : K :=
    if nz (ket i) then fold_left (contrib_by search bra states (ket i)) (act (nth i states dflt)) acc else acc.

  Definition melem_vec_by search (bra ket : nat -> K) (states : list state) : K :=
    fold_left (row_by search bra ket states) (seq 0 (length states)) kzero.

  Definition contrib := contrib_by index_of.
  Definition row := row_by index_of.
  Definition melem_vec := melem_vec_by index_of.

  (** the pair form getMatrixElement(bra_state, ket_state): the entry of bra_state in actRight(ket_state), if any *)
  Definition melem_pair (bs ks : state) : K :=
    match find (fun e => state_eqb (fst e) bs) (act ks) with Some e => snd e | None => kzero end.

  Definition unit (i0 : nat) : nat -> K := fun i => if i =? i0 then kone else kzero.

  Lemma index_of_nth : forall l j, NoDup l -> j < length l -> index_of (nth j l dflt) l = Some j.
  Proof.
    induction l as [|s t IH]; intros j Hn Hj; [cbn in Hj; lia|].
    inversion Hn as [|? ? Hnot Hn']; subst. destruct j as [|j]; cbn [nth index_of].
    - replace (state_eqb s s) with true by (symmetry; apply eqb_spec; reflexivity). reflexivity.
    - cbn [length] in Hj. destruct (state_eqb s (nth j t dflt)) eqn:E.
      + apply eqb_spec in E. exfalso. apply Hnot. rewrite E. apply nth_In. lia.
      + rewrite IH by (assumption || lia). reflexivity.
  Qed.

  Lemma index_of_sound : forall r l j, index_of r l = Some j -> j < length l /\ nth j l dflt = r.
  Proof.
    intros r l. induction l as [|s t IH]; intros j H; [discriminate|]. cbn [index_of] in H.
    destruct (state_eqb s r) eqn:E.
    - injection H as <-. apply eqb_spec in E. cbn. split; [lia|exact E].
    - destruct (index_of r t) as [k|] eqn:F; [|discriminate]. cbn in H. injection H as <-.
      destruct (IH k eq_refl) as [H1 H2]. cbn [length nth]. split; [lia|exact H2].
  Qed.

  (** a row whose ket coefficient is 0 leaves the accumulator alone *)
  Lemma row_skip : forall bra states i0 acc i, i <> i0 -> row bra (unit i0) states acc i = acc.
  Proof.
    intros bra states i0 acc i Hi. unfold row, row_by, unit. replace (i =? i0) with false by (symmetry; apply Nat.eqb_neq; exact Hi).
    rewrite nz_0. reflexivity.
  Qed.

  Lemma fold_rows_unit : forall bra states i0 l acc, NoDup l ->
    fold_left (row bra (unit i0) states) l acc = if existsb (Nat.eqb i0) l then row bra (unit i0) states acc i0 else acc.
  Proof.
    intros bra states i0 l. induction l as [|i t IH]; intros acc Hn; [reflexivity|].
    inversion Hn as [|? ? Hnot Hn']; subst. cbn [fold_left existsb]. destruct (Nat.eqb_spec i0 i) as [E|E].
    - subst i. cbn [orb]. rewrite IH by assumption.
      replace (existsb (Nat.eqb i0) t) with false; [reflexivity|].
      symmetry. apply not_true_iff_false. intros H. apply existsb_exists in H. destruct H as [x [Hx Ex]].
      apply Nat.eqb_eq in Ex. subst x. contradiction.
    - cbn [orb]. rewrite row_skip by (intros F; apply E; symmetry; exact F). apply IH. assumption.
  Qed.

  (** one entry of actRight(states[i0]) against the unit bra e_j0 *)
  Lemma contrib_unit : forall states j0 acc e, NoDup states -> j0 < length states ->
    contrib (unit j0) states kone acc e = if state_eqb (fst e) (nth j0 states dflt) then kadd acc (snd e) else acc.
  Proof.
    intros states j0 acc e Hn Hj. unfold contrib, contrib_by. rewrite mul_1_r.
    destruct (index_of (fst e) states) as [j|] eqn:F.
    - destruct (index_of_sound _ _ _ F) as [Hjl Hnth]. unfold unit. destruct (Nat.eqb_spec j j0) as [E|E].
      + subst j. rewrite conj_1, mul_1_l.
        replace (state_eqb (fst e) (nth j0 states dflt)) with true by (symmetry; apply eqb_spec; symmetry; exact Hnth). reflexivity.
      + rewrite conj_0, mul_0_l, add_0_r.
        destruct (state_eqb (fst e) (nth j0 states dflt)) eqn:G; [|reflexivity].
        apply eqb_spec in G. exfalso. apply E. rewrite <- Hnth in G.
        pose proof (index_of_nth states j Hn Hjl) as A. pose proof (index_of_nth states j0 Hn Hj) as B.
        rewrite G in A. rewrite A in B. injection B as B. exact B.
    - rewrite mul_0_l, add_0_r. destruct (state_eqb (fst e) (nth j0 states dflt)) eqn:G; [|reflexivity].
      apply eqb_spec in G. rewrite G, index_of_nth in F by assumption. discriminate.
  Qed.

  Lemma fold_entries : forall (bs : state) entries acc, NoDup (map fst entries) ->
    fold_left (fun a e => if state_eqb (fst e) bs then kadd a (snd e) else a) entries acc =
    match find (fun e => state_eqb (fst e) bs) entries with Some e => kadd acc (snd e) | None => acc end.
  Proof.
    intros bs entries. induction entries as [|e t IH]; intros acc Hn; [reflexivity|].
    cbn [map] in Hn. inversion Hn as [|? ? Hnot Hn']; subst. cbn [fold_left find]. destruct (state_eqb (fst e) bs) eqn:E.
    - rewrite IH by assumption. destruct (find (fun e0 => state_eqb (fst e0) bs) t) as [e'|] eqn:F; [|reflexivity].
      exfalso. apply find_some in F. destruct F as [Hin He']. apply eqb_spec in E. apply eqb_spec in He'.
      apply Hnot. rewrite E, <- He'. apply in_map. exact Hin.
    - apply IH. assumption.
  Qed.

  Lemma fold_contrib_unit : forall states j0 entries acc, NoDup states -> j0 < length states ->
    fold_left (contrib (unit j0) states kone) entries acc =
    fold_left (fun a e => if state_eqb (fst e) (nth j0 states dflt) then kadd a (snd e) else a) entries acc.
  Proof.
    intros states j0 entries. induction entries as [|e t IH]; intros acc Hn Hj; [reflexivity|].
    cbn [fold_left]. rewrite contrib_unit by assumption. apply IH; assumption.
  Qed.

  Lemma unit_same : forall i, unit i i = kone.
  Proof. intros i. unfold unit. rewrite Nat.eqb_refl. reflexivity. Qed.

  (** ** the statement: unit vectors over pairwise different states in any order *)
  Theorem melem_vec_unit : forall states i0 j0,
    NoDup states -> i0 < length states -> j0 < length states ->
    NoDup (map fst (act (nth i0 states dflt))) ->
    melem_vec (unit j0) (unit i0) states = melem_pair (nth j0 states dflt) (nth i0 states dflt).
  Proof.
    intros states i0 j0 Hn Hi Hj Hkeys. unfold melem_vec, melem_vec_by. fold row. rewrite fold_rows_unit by apply seq_NoDup.
    replace (existsb (Nat.eqb i0) (seq 0 (length states))) with true.
    2:{ symmetry. apply existsb_exists. exists i0. split; [apply in_seq; lia|apply Nat.eqb_refl]. }
    unfold row, row_by. rewrite unit_same, nz_1. fold contrib.
    rewrite (fold_contrib_unit states j0 (act (nth i0 states dflt)) kzero Hn Hj).
    rewrite fold_entries by exact Hkeys. unfold melem_pair.
    destruct (find _ _); [apply add_0_l|reflexivity].
  Qed.
End Vec.

(** * Non-vacuity, and the variant that presupposes an ordered list

    Instance: integers, Fock states of two modes as numbers 0..3, the operator c^+_0 c_1 (it maps |10> = 2 to |01> = 1 with
    coefficient 1 and annihilates the other three states). *)
Require Import ZArith.

Definition ex_act (s : nat) : list (nat * Z) := if s =? 2 then [(1, 1%Z)] else [].
Definition ex_nz (x : Z) : bool := negb (Z.eqb x 0).
Definition ex_vec := melem_vec_by Z 0%Z Z.add Z.mul (fun x => x) ex_nz nat 0 ex_act.
Definition ex_unit := unit Z 0%Z 1%Z.

(** the hypotheses of [melem_vec_unit] hold for this instance and for the DESCENDING list 3 2 1 0; the theorem applies *)
Example melem_vec_unit_descending :
  ex_vec (index_of nat Nat.eqb) (ex_unit 2) (ex_unit 1) [3; 2; 1; 0] = 1%Z /\
  melem_pair Z 0%Z nat Nat.eqb ex_act 1 2 = 1%Z.
Proof. split; reflexivity. Qed.

Example melem_vec_unit_applies :
  ex_vec (index_of nat Nat.eqb) (ex_unit 2) (ex_unit 1) [3; 2; 1; 0] = melem_pair Z 0%Z nat Nat.eqb ex_act (nth 2 [3; 2; 1; 0] 0) (nth 1 [3; 2; 1; 0] 0).
Proof.
  apply (melem_vec_unit Z 0%Z 1%Z Z.add Z.mul (fun x => x) ex_nz nat Nat.eqb 0 ex_act).
  - intros a b. apply Nat.eqb_eq.
  - intros x. apply Z.add_0_r.
  - intros x. apply Z.add_0_l.
  - intros x. apply Z.mul_0_l.
  - intros x. apply Z.mul_1_l.
  - intros x. apply Z.mul_1_r.
  - reflexivity.
  - reflexivity.
  - reflexivity.
  - reflexivity.
  - repeat constructor; cbn; intuition discriminate.
  - cbn; lia.
  - cbn; lia.
  - cbn. repeat constructor. intros [].
Qed.

(** std::lower_bound(first, last, r) as the bisection the standard prescribes (count halves; the left half is dropped when its last
    element is < r), followed by the test "*it == r": on an ascending list the first position holding r; on any other list some
    position the bisection happens to end at *)
Fixpoint lower_bound_from (fuel first count r : nat) (l : list nat) : nat :=
  match fuel with
  | 0 => first
  | S f => if count =? 0 then first
           else let step := count / 2 in
                if nth (first + step) l 0 <? r then lower_bound_from f (first + step + 1) (count - step - 1) r l
                else lower_bound_from f first step r l
  end.
Definition search_lower_bound (r : nat) (l : list nat) : option nat :=
  let p := lower_bound_from (S (length l)) 0 (length l) r l in
  if (p <? length l) && (nth p l 0 =? r) then Some p else None.

(** on an ascending list the two searches agree ... *)
Example lower_bound_ascending : forall r, r < 4 -> search_lower_bound r [0; 1; 2; 3] = index_of nat Nat.eqb r [0; 1; 2; 3].
Proof. intros r Hr. destruct r as [|[|[|[|r]]]]; [reflexivity|reflexivity|reflexivity|reflexivity|lia]. Qed.

(** ... on the descending list the matrix element <01| c^+_0 c_1 |10> = 1 is lost: the vector form with a binary search returns 0 *)
Theorem melem_vec_lower_bound_refuted :
  ex_vec search_lower_bound (ex_unit 2) (ex_unit 1) [3; 2; 1; 0] <> melem_pair Z 0%Z nat Nat.eqb ex_act 1 2.
Proof. vm_compute. discriminate. Qed.
