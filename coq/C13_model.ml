
(** val negb : bool -> bool **)

let negb = function
| true -> false
| false -> true

(** val fst : ('a1 * 'a2) -> 'a1 **)

let fst = function
| (x, _) -> x

(** val snd : ('a1 * 'a2) -> 'a2 **)

let snd = function
| (_, y) -> y

(** val length : 'a1 list -> int **)

let rec length = function
| [] -> 0
| _ :: l' -> Stdlib.Int.succ (length l')

(** val app : 'a1 list -> 'a1 list -> 'a1 list **)

let rec app l m =
  match l with
  | [] -> m
  | a :: l1 -> a :: (app l1 m)

(** val sub : int -> int -> int **)

let rec sub = fun n m -> Stdlib.max 0 (n-m)

type positive =
| XI of positive
| XO of positive
| XH

type z =
| Z0
| Zpos of positive
| Zneg of positive

module Nat =
 struct
  (** val ltb : int -> int -> bool **)

  let ltb n m =
    (<=) (Stdlib.Int.succ n) m
 end

module Pos =
 struct
  (** val succ : positive -> positive **)

  let rec succ = function
  | XI p -> XO (succ p)
  | XO p -> XI p
  | XH -> XO XH

  (** val add : positive -> positive -> positive **)

  let rec add x y =
    match x with
    | XI p ->
      (match y with
       | XI q -> XO (add_carry p q)
       | XO q -> XI (add p q)
       | XH -> XO (succ p))
    | XO p ->
      (match y with
       | XI q -> XI (add p q)
       | XO q -> XO (add p q)
       | XH -> XI p)
    | XH -> (match y with
             | XI q -> XO (succ q)
             | XO q -> XI q
             | XH -> XO XH)

  (** val add_carry : positive -> positive -> positive **)

  and add_carry x y =
    match x with
    | XI p ->
      (match y with
       | XI q -> XI (add_carry p q)
       | XO q -> XO (add_carry p q)
       | XH -> XI (succ p))
    | XO p ->
      (match y with
       | XI q -> XO (add_carry p q)
       | XO q -> XI (add p q)
       | XH -> XO (succ p))
    | XH ->
      (match y with
       | XI q -> XI (succ q)
       | XO q -> XO (succ q)
       | XH -> XI XH)

  (** val pred_double : positive -> positive **)

  let rec pred_double = function
  | XI p -> XI (XO p)
  | XO p -> XI (pred_double p)
  | XH -> XH
 end

module Z =
 struct
  (** val double : z -> z **)

  let double = function
  | Z0 -> Z0
  | Zpos p -> Zpos (XO p)
  | Zneg p -> Zneg (XO p)

  (** val succ_double : z -> z **)

  let succ_double = function
  | Z0 -> Zpos XH
  | Zpos p -> Zpos (XI p)
  | Zneg p -> Zneg (Pos.pred_double p)

  (** val pred_double : z -> z **)

  let pred_double = function
  | Z0 -> Zneg XH
  | Zpos p -> Zpos (Pos.pred_double p)
  | Zneg p -> Zneg (XI p)

  (** val pos_sub : positive -> positive -> z **)

  let rec pos_sub x y =
    match x with
    | XI p ->
      (match y with
       | XI q -> double (pos_sub p q)
       | XO q -> succ_double (pos_sub p q)
       | XH -> Zpos (XO p))
    | XO p ->
      (match y with
       | XI q -> pred_double (pos_sub p q)
       | XO q -> double (pos_sub p q)
       | XH -> Zpos (Pos.pred_double p))
    | XH ->
      (match y with
       | XI q -> Zneg (XO q)
       | XO q -> Zneg (Pos.pred_double q)
       | XH -> Z0)

  (** val add : z -> z -> z **)

  let add x y =
    match x with
    | Z0 -> y
    | Zpos x' ->
      (match y with
       | Z0 -> x
       | Zpos y' -> Zpos (Pos.add x' y')
       | Zneg y' -> pos_sub x' y')
    | Zneg x' ->
      (match y with
       | Z0 -> x
       | Zpos y' -> pos_sub y' x'
       | Zneg y' -> Zneg (Pos.add x' y'))

  (** val opp : z -> z **)

  let opp = function
  | Z0 -> Z0
  | Zpos x0 -> Zneg x0
  | Zneg x0 -> Zpos x0

  (** val sub : z -> z -> z **)

  let sub m n =
    add m (opp n)
 end

(** val nth : int -> 'a1 list -> 'a1 -> 'a1 **)

let rec nth n l default =
  (fun fO fS n -> if n=0 then fO () else fS (n-1))
    (fun _ -> match l with
              | [] -> default
              | x :: _ -> x)
    (fun m -> match l with
              | [] -> default
              | _ :: t -> nth m t default)
    n

(** val nth_error : 'a1 list -> int -> 'a1 option **)

let rec nth_error l n =
  (fun fO fS n -> if n=0 then fO () else fS (n-1))
    (fun _ -> match l with
              | [] -> None
              | x :: _ -> Some x)
    (fun n0 -> match l with
               | [] -> None
               | _ :: l0 -> nth_error l0 n0)
    n

(** val map : ('a1 -> 'a2) -> 'a1 list -> 'a2 list **)

let rec map f = function
| [] -> []
| a :: t -> (f a) :: (map f t)

(** val flat_map : ('a1 -> 'a2 list) -> 'a1 list -> 'a2 list **)

let rec flat_map f = function
| [] -> []
| x :: t -> app (f x) (flat_map f t)

(** val fold_left : ('a1 -> 'a2 -> 'a1) -> 'a2 list -> 'a1 -> 'a1 **)

let rec fold_left f l a0 =
  match l with
  | [] -> a0
  | b :: t -> fold_left f t (f a0 b)

(** val forallb : ('a1 -> bool) -> 'a1 list -> bool **)

let rec forallb f = function
| [] -> true
| a :: l0 -> (&&) (f a) (forallb f l0)

(** val seq : int -> int -> int list **)

let rec seq start len =
  (fun fO fS n -> if n=0 then fO () else fS (n-1))
    (fun _ -> [])
    (fun len0 -> start :: (seq (Stdlib.Int.succ start) len0))
    len

(** val permutations4 : ((((int * int) * int) * int) * z) list **)

let permutations4 =
  ((((0, (Stdlib.Int.succ 0)), (Stdlib.Int.succ (Stdlib.Int.succ 0))),
    (Stdlib.Int.succ (Stdlib.Int.succ (Stdlib.Int.succ 0)))), (Zpos
    XH)) :: (((((0, (Stdlib.Int.succ 0)), (Stdlib.Int.succ (Stdlib.Int.succ
    (Stdlib.Int.succ 0)))), (Stdlib.Int.succ (Stdlib.Int.succ 0))), (Zneg
    XH)) :: (((((0, (Stdlib.Int.succ (Stdlib.Int.succ 0))), (Stdlib.Int.succ
    0)), (Stdlib.Int.succ (Stdlib.Int.succ (Stdlib.Int.succ 0)))), (Zneg
    XH)) :: (((((0, (Stdlib.Int.succ (Stdlib.Int.succ 0))), (Stdlib.Int.succ
    (Stdlib.Int.succ (Stdlib.Int.succ 0)))), (Stdlib.Int.succ 0)), (Zpos
    XH)) :: (((((0, (Stdlib.Int.succ (Stdlib.Int.succ (Stdlib.Int.succ 0)))),
    (Stdlib.Int.succ 0)), (Stdlib.Int.succ (Stdlib.Int.succ 0))), (Zpos
    XH)) :: (((((0, (Stdlib.Int.succ (Stdlib.Int.succ (Stdlib.Int.succ 0)))),
    (Stdlib.Int.succ (Stdlib.Int.succ 0))), (Stdlib.Int.succ 0)), (Zneg
    XH)) :: ((((((Stdlib.Int.succ 0), 0), (Stdlib.Int.succ (Stdlib.Int.succ
    0))), (Stdlib.Int.succ (Stdlib.Int.succ (Stdlib.Int.succ 0)))), (Zneg
    XH)) :: ((((((Stdlib.Int.succ 0), 0), (Stdlib.Int.succ (Stdlib.Int.succ
    (Stdlib.Int.succ 0)))), (Stdlib.Int.succ (Stdlib.Int.succ 0))), (Zpos
    XH)) :: ((((((Stdlib.Int.succ 0), (Stdlib.Int.succ (Stdlib.Int.succ 0))),
    0), (Stdlib.Int.succ (Stdlib.Int.succ (Stdlib.Int.succ 0)))), (Zpos
    XH)) :: ((((((Stdlib.Int.succ 0), (Stdlib.Int.succ (Stdlib.Int.succ 0))),
    (Stdlib.Int.succ (Stdlib.Int.succ (Stdlib.Int.succ 0)))), 0), (Zneg
    XH)) :: ((((((Stdlib.Int.succ 0), (Stdlib.Int.succ (Stdlib.Int.succ
    (Stdlib.Int.succ 0)))), 0), (Stdlib.Int.succ (Stdlib.Int.succ 0))), (Zneg
    XH)) :: ((((((Stdlib.Int.succ 0), (Stdlib.Int.succ (Stdlib.Int.succ
    (Stdlib.Int.succ 0)))), (Stdlib.Int.succ (Stdlib.Int.succ 0))), 0), (Zpos
    XH)) :: ((((((Stdlib.Int.succ (Stdlib.Int.succ 0)), 0), (Stdlib.Int.succ
    0)), (Stdlib.Int.succ (Stdlib.Int.succ (Stdlib.Int.succ 0)))), (Zpos
    XH)) :: ((((((Stdlib.Int.succ (Stdlib.Int.succ 0)), 0), (Stdlib.Int.succ
    (Stdlib.Int.succ (Stdlib.Int.succ 0)))), (Stdlib.Int.succ 0)), (Zneg
    XH)) :: ((((((Stdlib.Int.succ (Stdlib.Int.succ 0)), (Stdlib.Int.succ 0)),
    0), (Stdlib.Int.succ (Stdlib.Int.succ (Stdlib.Int.succ 0)))), (Zneg
    XH)) :: ((((((Stdlib.Int.succ (Stdlib.Int.succ 0)), (Stdlib.Int.succ 0)),
    (Stdlib.Int.succ (Stdlib.Int.succ (Stdlib.Int.succ 0)))), 0), (Zpos
    XH)) :: ((((((Stdlib.Int.succ (Stdlib.Int.succ 0)), (Stdlib.Int.succ
    (Stdlib.Int.succ (Stdlib.Int.succ 0)))), 0), (Stdlib.Int.succ 0)), (Zpos
    XH)) :: ((((((Stdlib.Int.succ (Stdlib.Int.succ 0)), (Stdlib.Int.succ
    (Stdlib.Int.succ (Stdlib.Int.succ 0)))), (Stdlib.Int.succ 0)), 0), (Zneg
    XH)) :: ((((((Stdlib.Int.succ (Stdlib.Int.succ (Stdlib.Int.succ 0))), 0),
    (Stdlib.Int.succ 0)), (Stdlib.Int.succ (Stdlib.Int.succ 0))), (Zneg
    XH)) :: ((((((Stdlib.Int.succ (Stdlib.Int.succ (Stdlib.Int.succ 0))), 0),
    (Stdlib.Int.succ (Stdlib.Int.succ 0))), (Stdlib.Int.succ 0)), (Zpos
    XH)) :: ((((((Stdlib.Int.succ (Stdlib.Int.succ (Stdlib.Int.succ 0))),
    (Stdlib.Int.succ 0)), 0), (Stdlib.Int.succ (Stdlib.Int.succ 0))), (Zpos
    XH)) :: ((((((Stdlib.Int.succ (Stdlib.Int.succ (Stdlib.Int.succ 0))),
    (Stdlib.Int.succ 0)), (Stdlib.Int.succ (Stdlib.Int.succ 0))), 0), (Zneg
    XH)) :: ((((((Stdlib.Int.succ (Stdlib.Int.succ (Stdlib.Int.succ 0))),
    (Stdlib.Int.succ (Stdlib.Int.succ 0))), 0), (Stdlib.Int.succ 0)), (Zneg
    XH)) :: ((((((Stdlib.Int.succ (Stdlib.Int.succ (Stdlib.Int.succ 0))),
    (Stdlib.Int.succ (Stdlib.Int.succ 0))), (Stdlib.Int.succ 0)), 0), (Zpos
    XH)) :: [])))))))))))))))))))))))

(** val set_owner_perm_index : int **)

let set_owner_perm_index =
  0

(** val set_inserts_nontrivial : bool **)

let set_inserts_nontrivial =
  true

(** val set_aliases :
    (((int * int) list * (((int * int) * int) * int)) * int) list **)

let set_aliases =
  ((((0, (Stdlib.Int.succ 0)) :: []), ((((Stdlib.Int.succ 0), 0),
    (Stdlib.Int.succ (Stdlib.Int.succ 0))), (Stdlib.Int.succ (Stdlib.Int.succ
    (Stdlib.Int.succ 0))))), (Stdlib.Int.succ (Stdlib.Int.succ
    (Stdlib.Int.succ (Stdlib.Int.succ (Stdlib.Int.succ (Stdlib.Int.succ
    0))))))) :: ((((((Stdlib.Int.succ (Stdlib.Int.succ 0)), (Stdlib.Int.succ
    (Stdlib.Int.succ (Stdlib.Int.succ 0)))) :: []), (((0, (Stdlib.Int.succ
    0)), (Stdlib.Int.succ (Stdlib.Int.succ (Stdlib.Int.succ 0)))),
    (Stdlib.Int.succ (Stdlib.Int.succ 0)))), (Stdlib.Int.succ 0)) :: (((((0,
    (Stdlib.Int.succ 0)) :: (((Stdlib.Int.succ (Stdlib.Int.succ 0)),
    (Stdlib.Int.succ (Stdlib.Int.succ (Stdlib.Int.succ 0)))) :: [])),
    ((((Stdlib.Int.succ 0), 0), (Stdlib.Int.succ (Stdlib.Int.succ
    (Stdlib.Int.succ 0)))), (Stdlib.Int.succ (Stdlib.Int.succ 0)))),
    (Stdlib.Int.succ (Stdlib.Int.succ (Stdlib.Int.succ (Stdlib.Int.succ
    (Stdlib.Int.succ (Stdlib.Int.succ (Stdlib.Int.succ 0)))))))) :: []))

(** val fill_clears_nontrivial : bool **)

let fill_clears_nontrivial =
  true

(** val freq_array : z -> z -> z -> z list **)

let freq_array n1 n2 n3 =
  n1 :: (n2 :: (n3 :: ((Z.sub (Z.add n1 n2) n3) :: [])))

(** val eval_arg_slots : int list **)

let eval_arg_slots =
  0 :: ((Stdlib.Int.succ 0) :: ((Stdlib.Int.succ (Stdlib.Int.succ 0)) :: []))

(** val eval_multiplies_sign : bool **)

let eval_multiplies_sign =
  true

type quad = ((int * int) * int) * int

type triple = (z * z) * z

(** val quad_eqb : quad -> quad -> bool **)

let quad_eqb a b =
  let (p, a4) = a in
  let (p0, a3) = p in
  let (a1, a2) = p0 in
  let (p1, b4) = b in
  let (p2, b3) = p1 in
  let (b1, b2) = p2 in
  (&&) ((&&) ((&&) ((=) a1 b1) ((=) a2 b2)) ((=) a3 b3)) ((=) a4 b4)

(** val quad_ltb : quad -> quad -> bool **)

let quad_ltb a b =
  let (p, a4) = a in
  let (p0, a3) = p in
  let (a1, a2) = p0 in
  let (p1, b4) = b in
  let (p2, b3) = p1 in
  let (b1, b2) = p2 in
  (||)
    ((||) ((||) (Nat.ltb a1 b1) ((&&) ((=) a1 b1) (Nat.ltb a2 b2)))
      ((&&) ((&&) ((=) a1 b1) ((=) a2 b2)) (Nat.ltb a3 b3)))
    ((&&) ((&&) ((&&) ((=) a1 b1) ((=) a2 b2)) ((=) a3 b3)) (Nat.ltb a4 b4))

type 'a qmap = (quad * 'a) list

(** val qfind : quad -> 'a1 qmap -> 'a1 option **)

let rec qfind k = function
| [] -> None
| p :: r -> let (k', v) = p in if quad_eqb k k' then Some v else qfind k r

(** val qins : quad -> 'a1 -> 'a1 qmap -> 'a1 qmap **)

let rec qins k v m = match m with
| [] -> (k, v) :: []
| p :: r ->
  let (k', v') = p in
  if quad_ltb k' k then (k', v') :: (qins k v r) else (k, v) :: m

(** val qinsert : quad -> 'a1 -> 'a1 qmap -> 'a1 qmap **)

let qinsert k v m =
  match qfind k m with
  | Some _ -> m
  | None -> qins k v m

(** val qkeys : 'a1 qmap -> quad list **)

let qkeys m =
  map fst m

(** val qset_of_list : quad list -> quad list **)

let qset_of_list l =
  qkeys (fold_left (fun acc q -> qinsert q () acc) l [])

type status =
| Constructed
| Prepared
| Computed

type perm4 = (((int * int) * int) * int) * z

type estore = (quad * status) list

(** val upd : int -> 'a1 -> 'a1 list -> 'a1 list **)

let rec upd i x = function
| [] -> []
| y :: r ->
  ((fun fO fS n -> if n=0 then fO () else fS (n-1))
     (fun _ -> x :: r)
     (fun j -> y :: (upd j x r))
     i)

type cstate = { emap : (int * perm4) qmap; nontriv : int qmap; elems : estore }

(** val init : cstate **)

let init =
  { emap = []; nontriv = []; elems = [] }

type exn =
| StatusMismatch
| UncomputedPart
| Dangling

type cout =
| OUnit
| OThrows of exn
| OVal of z * quad * triple
| OZero of z

type cop =
| Fill of quad list
| PrepareAll of quad list
| ComputeAll of bool
| Lookup of quad
| PrepareElem of quad
| ComputeElem of quad
| Eval of quad * triple

(** val bad_perm : perm4 **)

let bad_perm =
  ((((0, 0), 0), 0), Z0)

(** val perm_at : int -> perm4 **)

let perm_at k =
  nth k permutations4 bad_perm

(** val sel : quad -> int -> int **)

let sel q k =
  let (p, q4) = q in
  let (p0, q3) = p in
  let (q1, q2) = p0 in
  ((fun fO fS n -> if n=0 then fO () else fS (n-1))
     (fun _ -> q1)
     (fun n ->
     (fun fO fS n -> if n=0 then fO () else fS (n-1))
       (fun _ -> q2)
       (fun n0 ->
       (fun fO fS n -> if n=0 then fO () else fS (n-1))
         (fun _ -> q3)
         (fun _ -> q4)
         n0)
       n)
     k)

(** val pnth : perm4 -> int -> int **)

let pnth p k =
  sel (fst p) k

(** val alias_key : quad -> (((int * int) * int) * int) -> quad **)

let alias_key q = function
| (p, p4) ->
  let (p0, p3) = p in
  let (p1, p2) = p0 in ((((sel q p1), (sel q p2)), (sel q p3)), (sel q p4))

(** val alias_cond : quad -> (int * int) list -> bool **)

let alias_cond q req =
  forallb (fun ab -> negb ((=) (sel q (fst ab)) (sel q (snd ab)))) req

(** val perm_eval : perm4 -> triple -> z * triple **)

let perm_eval p = function
| (p0, n3) ->
  let (n1, n2) = p0 in
  let m = freq_array n1 n2 n3 in
  let arg = fun k -> nth (pnth p (nth k eval_arg_slots 0)) m Z0 in
  ((if eval_multiplies_sign then snd p else Zpos XH), (((arg 0),
  (arg (Stdlib.Int.succ 0))), (arg (Stdlib.Int.succ (Stdlib.Int.succ 0)))))

(** val isInContainer : cstate -> quad -> bool **)

let isInContainer st q =
  match qfind q st.emap with
  | Some _ -> true
  | None -> false

(** val add_alias :
    quad -> int -> (int * perm4) qmap -> (((int * int)
    list * (((int * int) * int) * int)) * int) -> (int * perm4) qmap **)

let add_alias q e em = function
| (p, k) ->
  let (req, pos) = p in
  if alias_cond q req
  then let q' = alias_key q pos in
       (match qfind q' em with
        | Some _ -> em
        | None -> qinsert q' (e, (perm_at k)) em)
  else em

(** val set_ : cstate -> quad -> cstate * (int * perm4) **)

let set_ st q =
  let e = length st.elems in
  let el = app st.elems ((q, Constructed) :: []) in
  let owner = (e, (perm_at set_owner_perm_index)) in
  let em0 = qinsert q owner st.emap in
  let ret = match qfind q em0 with
            | Some r -> r
            | None -> owner in
  let nt =
    if set_inserts_nontrivial then qinsert q e st.nontriv else st.nontriv
  in
  let em = fold_left (add_alias q e) set_aliases em0 in
  ({ emap = em; nontriv = nt; elems = el }, ret)

(** val lookup : cstate -> quad -> cstate * (int * perm4) **)

let lookup st q =
  match qfind q st.emap with
  | Some r -> (st, r)
  | None -> set_ st q

(** val enumerate : int -> quad list **)

let enumerate nidx =
  qset_of_list
    (flat_map (fun i1 ->
      flat_map (fun i2 ->
        flat_map (fun i3 ->
          map (fun i4 -> (((i1, i2), i3), i4)) (seq i3 (sub nidx i3)))
          (seq 0 nidx)) (seq i1 (sub nidx i1))) (seq 0 nidx))

(** val fill : bool -> int -> cstate -> quad list -> cstate **)

let fill fixed nidx st qs =
  let st0 = { emap = []; nontriv = (if fixed then [] else st.nontriv);
    elems = st.elems }
  in
  let iI = match qs with
           | [] -> enumerate nidx
           | _ :: _ -> qset_of_list qs in
  fold_left (fun st1 q ->
    if isInContainer st1 q then st1 else fst (set_ st1 q)) iI st0

(** val prepare_elem : int -> estore -> estore * cout **)

let prepare_elem e el =
  match nth_error el e with
  | Some p ->
    let (q, s) = p in
    (match s with
     | Constructed -> ((upd e (q, Prepared) el), OUnit)
     | _ -> (el, OUnit))
  | None -> (el, (OThrows Dangling))

(** val compute_elem : int -> estore -> estore * cout **)

let compute_elem e el =
  match nth_error el e with
  | Some p ->
    let (q, s) = p in
    (match s with
     | Constructed -> (el, (OThrows StatusMismatch))
     | Prepared -> ((upd e (q, Computed) el), OUnit)
     | Computed -> (el, OUnit))
  | None -> (el, (OThrows Dangling))

(** val run_seq :
    (int -> estore -> estore * cout) -> int list -> estore -> estore * cout **)

let rec run_seq f ids el =
  match ids with
  | [] -> (el, OUnit)
  | e :: r ->
    let (el', o) = f e el in
    (match o with
     | OUnit -> run_seq f r el'
     | _ -> (el', o))

(** val eval_elem :
    (quad -> bool) -> estore -> (int * perm4) -> triple -> cout **)

let eval_elem van el r n =
  let (e, p) = r in
  let (s, t) = perm_eval p n in
  (match nth_error el e with
   | Some p0 ->
     let (q0, s0) = p0 in
     (match s0 with
      | Constructed -> OZero s
      | Prepared -> if van q0 then OVal (s, q0, t) else OThrows UncomputedPart
      | Computed -> OVal (s, q0, t))
   | None -> OThrows Dangling)

(** val emap_ids : cstate -> int list **)

let emap_ids st =
  map (fun kv -> fst (snd kv)) st.emap

(** val nontriv_ids : cstate -> int list **)

let nontriv_ids st =
  map snd st.nontriv

(** val with_elems : cstate -> estore -> cstate **)

let with_elems st el =
  { emap = st.emap; nontriv = st.nontriv; elems = el }

(** val prepare_all : bool -> int -> cstate -> quad list -> cstate * cout **)

let prepare_all fixed nidx st qs =
  let st1 = fill fixed nidx st qs in
  let (el, o) = run_seq prepare_elem (emap_ids st1) st1.elems in
  ((with_elems st1 el), o)

(** val compute_all : cstate -> bool -> cstate * cout **)

let compute_all st split =
  let ids = if split then nontriv_ids st else emap_ids st in
  let (el, o) = run_seq compute_elem ids st.elems in ((with_elems st el), o)

(** val cstep :
    bool -> (quad -> bool) -> int -> cstate -> cop -> cstate * cout **)

let cstep fixed van nidx st = function
| Fill qs -> ((fill fixed nidx st qs), OUnit)
| PrepareAll qs -> prepare_all fixed nidx st qs
| ComputeAll split -> compute_all st split
| Lookup q -> ((fst (lookup st q)), OUnit)
| PrepareElem q ->
  let (st1, r) = lookup st q in
  let (el, o) = prepare_elem (fst r) st1.elems in ((with_elems st1 el), o)
| ComputeElem q ->
  let (st1, r) = lookup st q in
  let (el, o) = compute_elem (fst r) st1.elems in ((with_elems st1 el), o)
| Eval (q, n) ->
  let (st1, r) = lookup st q in (st1, (eval_elem van st1.elems r n))

(** val source_says_fixed : bool **)

let source_says_fixed =
  fill_clears_nontrivial

(** val status_leb : status -> status -> bool **)

let status_leb a b =
  match a with
  | Constructed -> true
  | Prepared -> (match b with
                 | Constructed -> false
                 | _ -> true)
  | Computed -> (match b with
                 | Computed -> true
                 | _ -> false)

(** val smax : status -> status -> status **)

let smax a b =
  if status_leb a b then b else a

type gmap = status qmap

(** val gsync : gmap -> cstate -> gmap **)

let gsync g st' =
  map (fun kv -> ((fst kv),
    (match qfind (fst kv) g with
     | Some s -> s
     | None -> Constructed))) st'.emap

(** val gall : status -> gmap -> gmap **)

let gall s g =
  map (fun kv -> ((fst kv), s)) g

(** val graise : quad -> status -> gmap -> gmap **)

let graise q s g =
  map (fun kv ->
    if quad_eqb (fst kv) q then ((fst kv), (smax s (snd kv))) else kv) g

(** val gstep : gmap -> cop -> cstate -> cout -> gmap **)

let gstep g op st' o =
  match op with
  | Fill _ -> gall Constructed (gsync [] st')
  | PrepareAll _ -> gall Prepared (gsync [] st')
  | ComputeAll _ ->
    (match o with
     | OUnit -> gall Computed (gsync g st')
     | _ -> gsync g st')
  | PrepareElem q -> graise q Prepared (gsync g st')
  | ComputeElem q ->
    (match o with
     | OUnit -> graise q Computed (gsync g st')
     | _ -> gsync g st')
  | _ -> gsync g st'
