
val negb : bool -> bool

val fst : ('a1 * 'a2) -> 'a1

val snd : ('a1 * 'a2) -> 'a2

val length : 'a1 list -> int

val app : 'a1 list -> 'a1 list -> 'a1 list

type comparison =
| Eq
| Lt
| Gt

val compOpp : comparison -> comparison

val add : int -> int -> int

type positive =
| XI of positive
| XO of positive
| XH

type z =
| Z0
| Zpos of positive
| Zneg of positive

val eqb : bool -> bool -> bool

module Nat :
 sig
  val ltb : int -> int -> bool
 end

module Pos :
 sig
  val succ : positive -> positive

  val add : positive -> positive -> positive

  val add_carry : positive -> positive -> positive

  val pred_double : positive -> positive

  val compare_cont : comparison -> positive -> positive -> comparison

  val compare : positive -> positive -> comparison

  val eqb : positive -> positive -> bool

  val iter_op : ('a1 -> 'a1 -> 'a1) -> positive -> 'a1 -> 'a1

  val to_nat : positive -> int

  val of_succ_nat : int -> positive
 end

module Z :
 sig
  val double : z -> z

  val succ_double : z -> z

  val pred_double : z -> z

  val pos_sub : positive -> positive -> z

  val add : z -> z -> z

  val compare : z -> z -> comparison

  val leb : z -> z -> bool

  val ltb : z -> z -> bool

  val eqb : z -> z -> bool

  val to_nat : z -> int

  val of_nat : int -> z
 end

val tl : 'a1 list -> 'a1 list

val nth : int -> 'a1 list -> 'a1 -> 'a1

val nth_error : 'a1 list -> int -> 'a1 option

val rev : 'a1 list -> 'a1 list

val concat : 'a1 list list -> 'a1 list

val map : ('a1 -> 'a2) -> 'a1 list -> 'a2 list

val flat_map : ('a1 -> 'a2 list) -> 'a1 list -> 'a2 list

val fold_left : ('a1 -> 'a2 -> 'a1) -> 'a2 list -> 'a1 -> 'a1

val fold_right : ('a2 -> 'a1 -> 'a1) -> 'a1 -> 'a2 list -> 'a1

val existsb : ('a1 -> bool) -> 'a1 list -> bool

val forallb : ('a1 -> bool) -> 'a1 list -> bool

val filter : ('a1 -> bool) -> 'a1 list -> 'a1 list

val find : ('a1 -> bool) -> 'a1 list -> 'a1 option

val seq : int -> int -> int list

val repeat : 'a1 -> int -> 'a1 list

type q = { qnum : z; qden : positive }

val sqrt : Float64.t -> Float64.t

val opp : Float64.t -> Float64.t

val ltb0 : Float64.t -> Float64.t -> bool

val mul : Float64.t -> Float64.t -> Float64.t

val add0 : Float64.t -> Float64.t -> Float64.t

val sub : Float64.t -> Float64.t -> Float64.t

val div : Float64.t -> Float64.t -> Float64.t

type 'a outcome =
| Done of 'a
| OOB
| Uninit
| Throws of int
| OutOfFuel

val bind : 'a1 outcome -> ('a1 -> 'a2 outcome) -> 'a2 outcome

type 'k numops = { n0 : 'k; n1 : 'k; nadd : ('k -> 'k -> 'k);
                   nsub : ('k -> 'k -> 'k); nmul : ('k -> 'k -> 'k);
                   ndiv : ('k -> 'k -> 'k); nopp : ('k -> 'k);
                   nconj : ('k -> 'k); nexp : ('k -> 'k);
                   nre_ltb : ('k -> 'k -> bool); nabs : ('k -> 'k);
                   nofZ : (z -> 'k); nI : 'k }

val phi :
  'a1 numops -> 'a1 -> 'a1 -> 'a1 -> 'a1 -> 'a1 -> 'a1 -> 'a1 -> 'a1 -> 'a1
  -> 'a1 -> 'a1 -> 'a1 -> 'a1 -> 'a1

type fc = Float64.t * Float64.t

val fadd : fc -> fc -> fc

val fsub : fc -> fc -> fc

val fmul : fc -> fc -> fc

val fdiv : fc -> fc -> fc

val fopp : fc -> fc

val fconj : fc -> fc

val fabs : fc -> fc

val pos_to_float : positive -> Float64.t

val fofZ : z -> fc

val fops : (Float64.t -> Float64.t) -> fc numops

val part_nonres_compare_tol : q

val part_nonres_negligible_tol : q

val part_res_compare_tol : q

val part_res_negligible_tol : q

val part_ReduceResonanceTolerance : q

val part_CoefficientTolerance : q

val gf_ReduceResonanceTolerance : q

val gf_CoefficientTolerance : q

val prepare_copies_tolerances : bool

val compute_sizes_table_before_vanishing_test : bool

val compute_guards_empty_reduce : bool

val add_term_retries : bool

val permutations3 : (((int * int) * int) * z) list

type 'k emission =
| EmitNonRes of 'k * 'k * 'k * 'k * bool
| EmitRes of 'k * 'k * 'k * 'k * 'k * bool

val addMultiterm :
  ('a1 -> 'a1 -> 'a1) -> ('a1 -> 'a1 -> 'a1) -> ('a1 -> 'a1 -> 'a1) -> ('a1
  -> 'a1 -> 'a1) -> ('a1 -> 'a1) -> ('a1 -> 'a1 -> bool) -> ('a1 -> 'a1 ->
  bool) -> ('a1 -> 'a1 -> bool) -> 'a1 -> 'a1 -> 'a1 -> 'a1 -> 'a1 -> 'a1 ->
  'a1 -> 'a1 -> 'a1 -> 'a1 -> 'a1 -> (bool * 'a1 emission) list

val compute_weight_guard :
  ('a1 -> 'a1 -> 'a1) -> ('a1 -> 'a1 -> 'a1) -> ('a1 -> 'a1 -> 'a1) -> ('a1
  -> 'a1 -> 'a1) -> ('a1 -> 'a1) -> ('a1 -> 'a1 -> bool) -> ('a1 -> 'a1 ->
  bool) -> ('a1 -> 'a1 -> bool) -> 'a1 -> 'a1 -> 'a1 -> 'a1 -> 'a1 -> bool

val compute_matrix_element :
  ('a1 -> 'a1 -> 'a1) -> ('a1 -> 'a1 -> 'a1) -> ('a1 -> 'a1 -> 'a1) -> ('a1
  -> 'a1 -> 'a1) -> ('a1 -> 'a1) -> ('a1 -> 'a1 -> bool) -> ('a1 -> 'a1 ->
  bool) -> ('a1 -> 'a1 -> bool) -> 'a1 -> 'a1 -> 'a1 -> 'a1 -> 'a1

val compute_apply_sign :
  ('a1 -> 'a1 -> 'a1) -> ('a1 -> 'a1 -> 'a1) -> ('a1 -> 'a1 -> 'a1) -> ('a1
  -> 'a1 -> 'a1) -> ('a1 -> 'a1) -> ('a1 -> 'a1 -> bool) -> ('a1 -> 'a1 ->
  bool) -> ('a1 -> 'a1 -> bool) -> 'a1 -> 'a1 -> 'a1

val compute_call :
  ('a1 -> 'a1 -> 'a1) -> ('a1 -> 'a1 -> 'a1) -> ('a1 -> 'a1 -> 'a1) -> ('a1
  -> 'a1 -> 'a1) -> ('a1 -> 'a1) -> ('a1 -> 'a1 -> bool) -> ('a1 -> 'a1 ->
  bool) -> ('a1 -> 'a1 -> bool) -> 'a1 -> 'a1 -> 'a1 -> 'a1 -> 'a1 -> 'a1 ->
  'a1 -> 'a1 -> 'a1 -> 'a1 -> 'a1 -> (bool * 'a1 emission) list

val nonres_eval :
  ('a1 -> 'a1 -> 'a1) -> ('a1 -> 'a1 -> 'a1) -> ('a1 -> 'a1 -> 'a1) -> ('a1
  -> 'a1 -> 'a1) -> ('a1 -> 'a1) -> ('a1 -> 'a1 -> bool) -> ('a1 -> 'a1 ->
  bool) -> ('a1 -> 'a1 -> bool) -> 'a1 -> 'a1 -> 'a1 -> 'a1 -> bool -> 'a1 ->
  'a1 -> 'a1 -> 'a1

val res_diff_z1z2 :
  ('a1 -> 'a1 -> 'a1) -> ('a1 -> 'a1 -> 'a1) -> ('a1 -> 'a1 -> 'a1) -> ('a1
  -> 'a1 -> 'a1) -> ('a1 -> 'a1) -> ('a1 -> 'a1 -> bool) -> ('a1 -> 'a1 ->
  bool) -> ('a1 -> 'a1 -> bool) -> 'a1 -> 'a1 -> 'a1 -> 'a1 -> 'a1 -> 'a1 ->
  'a1

val res_test_z1z2 :
  ('a1 -> 'a1 -> 'a1) -> ('a1 -> 'a1 -> 'a1) -> ('a1 -> 'a1 -> 'a1) -> ('a1
  -> 'a1 -> 'a1) -> ('a1 -> 'a1) -> ('a1 -> 'a1 -> bool) -> ('a1 -> 'a1 ->
  bool) -> ('a1 -> 'a1 -> bool) -> 'a1 -> 'a1 -> bool

val res_value_z1z2 :
  ('a1 -> 'a1 -> 'a1) -> ('a1 -> 'a1 -> 'a1) -> ('a1 -> 'a1 -> 'a1) -> ('a1
  -> 'a1 -> 'a1) -> ('a1 -> 'a1) -> ('a1 -> 'a1 -> bool) -> ('a1 -> 'a1 ->
  bool) -> ('a1 -> 'a1 -> bool) -> bool -> 'a1 -> 'a1 -> 'a1 -> 'a1 -> 'a1 ->
  'a1 -> 'a1 -> 'a1 -> 'a1 -> 'a1

val res_diff_z2z3 :
  ('a1 -> 'a1 -> 'a1) -> ('a1 -> 'a1 -> 'a1) -> ('a1 -> 'a1 -> 'a1) -> ('a1
  -> 'a1 -> 'a1) -> ('a1 -> 'a1) -> ('a1 -> 'a1 -> bool) -> ('a1 -> 'a1 ->
  bool) -> ('a1 -> 'a1 -> bool) -> 'a1 -> 'a1 -> 'a1 -> 'a1 -> 'a1 -> 'a1 ->
  'a1

val res_test_z2z3 :
  ('a1 -> 'a1 -> 'a1) -> ('a1 -> 'a1 -> 'a1) -> ('a1 -> 'a1 -> 'a1) -> ('a1
  -> 'a1 -> 'a1) -> ('a1 -> 'a1) -> ('a1 -> 'a1 -> bool) -> ('a1 -> 'a1 ->
  bool) -> ('a1 -> 'a1 -> bool) -> 'a1 -> 'a1 -> bool

val res_value_z2z3 :
  ('a1 -> 'a1 -> 'a1) -> ('a1 -> 'a1 -> 'a1) -> ('a1 -> 'a1 -> 'a1) -> ('a1
  -> 'a1 -> 'a1) -> ('a1 -> 'a1) -> ('a1 -> 'a1 -> bool) -> ('a1 -> 'a1 ->
  bool) -> ('a1 -> 'a1 -> bool) -> bool -> 'a1 -> 'a1 -> 'a1 -> 'a1 -> 'a1 ->
  'a1 -> 'a1 -> 'a1 -> 'a1 -> 'a1

val res_eval_with :
  ('a1 -> 'a1 -> 'a1) -> ('a1 -> 'a1 -> 'a1) -> ('a1 -> 'a1 -> 'a1) -> ('a1
  -> 'a1 -> 'a1) -> ('a1 -> 'a1) -> ('a1 -> 'a1 -> bool) -> ('a1 -> 'a1 ->
  bool) -> ('a1 -> 'a1 -> bool) -> bool -> 'a1 -> 'a1 -> 'a1 -> 'a1 -> 'a1 ->
  bool -> 'a1 -> 'a1 -> 'a1 -> 'a1

val res_is_resonant :
  ('a1 -> 'a1 -> 'a1) -> ('a1 -> 'a1 -> 'a1) -> ('a1 -> 'a1 -> 'a1) -> ('a1
  -> 'a1 -> 'a1) -> ('a1 -> 'a1) -> ('a1 -> 'a1 -> bool) -> ('a1 -> 'a1 ->
  bool) -> ('a1 -> 'a1 -> bool) -> 'a1 -> 'a1 -> 'a1 -> 'a1 -> bool -> 'a1 ->
  'a1 -> 'a1 -> bool

val res_eval :
  ('a1 -> 'a1 -> 'a1) -> ('a1 -> 'a1 -> 'a1) -> ('a1 -> 'a1 -> 'a1) -> ('a1
  -> 'a1 -> 'a1) -> ('a1 -> 'a1) -> ('a1 -> 'a1 -> bool) -> ('a1 -> 'a1 ->
  bool) -> ('a1 -> 'a1 -> bool) -> 'a1 -> 'a1 -> 'a1 -> 'a1 -> 'a1 -> 'a1 ->
  bool -> 'a1 -> 'a1 -> 'a1 -> 'a1

val part_frequencies :
  ('a1 -> 'a1 -> 'a1) -> ('a1 -> 'a1 -> 'a1) -> ('a1 -> 'a1 -> 'a1) -> ('a1
  -> 'a1 -> 'a1) -> ('a1 -> 'a1) -> ('a1 -> 'a1 -> bool) -> ('a1 -> 'a1 ->
  bool) -> ('a1 -> 'a1 -> bool) -> 'a1 -> 'a1 -> 'a1 -> 'a1 list

val part_perm_slots :
  ('a1 -> 'a1 -> 'a1) -> ('a1 -> 'a1 -> 'a1) -> ('a1 -> 'a1 -> 'a1) -> ('a1
  -> 'a1 -> 'a1) -> ('a1 -> 'a1) -> ('a1 -> 'a1 -> bool) -> ('a1 -> 'a1 ->
  bool) -> ('a1 -> 'a1 -> bool) -> int list

val part_value :
  ('a1 -> 'a1 -> 'a1) -> ('a1 -> 'a1 -> 'a1) -> ('a1 -> 'a1 -> 'a1) -> ('a1
  -> 'a1 -> 'a1) -> ('a1 -> 'a1) -> ('a1 -> 'a1 -> bool) -> ('a1 -> 'a1 ->
  bool) -> ('a1 -> 'a1 -> bool) -> ('a1 -> 'a1 -> 'a1 -> 'a1) -> ('a1 -> 'a1
  -> 'a1 -> 'a1 -> 'a1) -> 'a1 -> 'a1 -> 'a1 -> 'a1 -> 'a1

val split_lower :
  ('a1 -> 'a1 -> bool) -> 'a1 -> 'a1 list -> 'a1 list * 'a1 list

val split_upper :
  ('a1 -> 'a1 -> bool) -> 'a1 -> 'a1 list -> 'a1 list * 'a1 list

val set_find : ('a1 -> 'a1 -> bool) -> 'a1 -> 'a1 list -> 'a1 option

type 't ins_res =
| Inserted of 't list
| Blocked of 't list * 't * 't list

val set_insert_res : ('a1 -> 'a1 -> bool) -> 'a1 -> 'a1 list -> 'a1 ins_res

val set_insert : ('a1 -> 'a1 -> bool) -> 'a1 -> 'a1 list -> bool * 'a1 list

val set_erase : ('a1 -> 'a1 -> bool) -> 'a1 -> 'a1 list -> 'a1 list

val add_term_plain :
  ('a1 -> 'a1 -> bool) -> ('a1 -> 'a1 -> 'a1) -> ('a1 -> int -> bool) -> 'a1
  -> 'a1 list -> bool * 'a1 list

val add_term_loop :
  ('a1 -> 'a1 -> bool) -> ('a1 -> 'a1 -> 'a1) -> ('a1 -> int -> bool) -> int
  -> 'a1 -> 'a1 list -> bool * 'a1 list

val add_term_gen :
  ('a1 -> 'a1 -> bool) -> ('a1 -> 'a1 -> 'a1) -> ('a1 -> int -> bool) -> bool
  -> 'a1 -> 'a1 list -> bool * 'a1 list

val add_term :
  ('a1 -> 'a1 -> bool) -> ('a1 -> 'a1 -> 'a1) -> ('a1 -> int -> bool) -> 'a1
  -> 'a1 list -> bool * 'a1 list

val abs_gt : 'a1 numops -> 'a1 -> 'a1 -> bool

val abs_lt : 'a1 numops -> 'a1 -> 'a1 -> bool

val real_ge : 'a1 numops -> 'a1 -> 'a1 -> bool

val ofQ : 'a1 numops -> q -> 'a1

type 'k tols = { t_cmp_nr : 'k; t_neg_nr : 'k; t_cmp_r : 'k; t_neg_r : 
                 'k; t_reduce : 'k; t_coeff : 'k }

val tols_code : 'a1 numops -> 'a1 tols

type 'k nrterm = { nr_coeff : 'k; nr_p0 : 'k; nr_p1 : 'k; nr_p2 : 'k;
                   nr_isz4 : bool; nr_weight : z }

type 'k rterm = { r_res : 'k; r_nonres : 'k; r_p0 : 'k; r_p1 : 'k; r_p2 : 
                  'k; r_isz1z2 : bool; r_weight : z }

val mk_nr : 'a1 -> 'a1 -> 'a1 -> 'a1 -> bool -> 'a1 nrterm

val mk_r : 'a1 -> 'a1 -> 'a1 -> 'a1 -> 'a1 -> bool -> 'a1 rterm

val real_eq : 'a1 numops -> 'a1 -> 'a1 -> 'a1 -> bool

val cmp_poles :
  'a1 numops -> 'a1 -> 'a1 -> 'a1 -> 'a1 -> 'a1 -> 'a1 -> 'a1 -> bool

val nr_comp : 'a1 numops -> 'a1 -> 'a1 nrterm -> 'a1 nrterm -> bool

val r_comp : 'a1 numops -> 'a1 -> 'a1 rterm -> 'a1 rterm -> bool

val wmean : 'a1 numops -> z -> 'a1 -> z -> 'a1 -> 'a1

val nr_plus : 'a1 numops -> 'a1 nrterm -> 'a1 nrterm -> 'a1 nrterm

val r_plus : 'a1 numops -> 'a1 rterm -> 'a1 rterm -> 'a1 rterm

val nr_negl : 'a1 numops -> 'a1 -> 'a1 nrterm -> int -> bool

val r_negl : 'a1 numops -> 'a1 -> 'a1 rterm -> int -> bool

val nr_eval : 'a1 numops -> 'a1 nrterm -> 'a1 -> 'a1 -> 'a1 -> 'a1

val r_eval : 'a1 numops -> 'a1 -> 'a1 rterm -> 'a1 -> 'a1 -> 'a1 -> 'a1

val list_eval : 'a1 numops -> ('a2 -> 'a1) -> 'a2 list -> 'a1

type 'k slice = (int * 'k) list

type 'k smat = 'k slice list

val it_valid : 'a1 slice -> bool

val it_index : int -> 'a1 slice -> int

val it_value : 'a1 numops -> 'a1 slice -> 'a1

val outer : 'a1 smat -> int -> 'a1 slice

val coeff : 'a1 numops -> 'a1 smat -> int -> int -> 'a1

val advance : int -> int -> 'a1 slice -> 'a1 slice

val chase : int -> 'a1 slice -> 'a1 slice -> (bool * 'a1 slice) * 'a1 slice

val walk :
  'a1 numops -> int -> int -> 'a1 slice -> 'a1 slice -> ((int * 'a1) * 'a1)
  list -> ((int * 'a1) * 'a1) list outcome

val walk_fuel : 'a1 slice -> 'a1 slice -> int

type 'k part_in = { p_O1 : 'k smat; p_O2 : 'k smat; p_O3 : 'k smat;
                    p_CX4 : 'k smat; p_E1 : 'k list; p_E2 : 'k list;
                    p_E3 : 'k list; p_E4 : 'k list; p_W1 : 'k list;
                    p_W2 : 'k list; p_W3 : 'k list; p_W4 : 'k list;
                    p_beta : 'k; p_perm : ((int * int) * int); p_sign : 
                    z; p_blocks : (((z * z) * z) * z) }

type 'k visit = { v_i1 : int; v_i2 : int; v_i3 : int; v_i4 : int; v_O1 : 
                  'k; v_O2 : 'k }

val visits_13 :
  'a1 numops -> int -> 'a1 part_in -> int -> int -> 'a1 visit list outcome

val visits_loop3 :
  'a1 numops -> int -> 'a1 part_in -> int -> int list -> 'a1 visit list
  outcome

val visits_loop1 :
  'a1 numops -> int -> 'a1 part_in -> int list -> int list -> 'a1 visit list
  outcome

val part_visits : 'a1 numops -> int -> 'a1 part_in -> 'a1 visit list outcome

val signK : 'a1 numops -> z -> 'a1

val visit_emissions :
  'a1 numops -> 'a1 tols -> 'a1 part_in -> 'a1 visit -> (bool * 'a1 emission)
  list

type 'k part_st = { ps_nr : 'k nrterm list; ps_r : 'k rterm list;
                    ps_computed : bool; ps_refused : int }

val part_constructed : 'a1 part_st

val emit :
  'a1 numops -> 'a1 tols -> 'a1 part_st -> (bool * 'a1 emission) -> 'a1
  part_st

val part_emissions :
  'a1 numops -> int -> 'a1 tols -> 'a1 part_in -> 'a1 emission list outcome

val sep_pair : 'a1 numops -> 'a1 -> 'a1 -> 'a1 -> bool

val same_val : 'a1 numops -> 'a1 -> 'a1 -> bool

val dedup_vals : 'a1 numops -> 'a1 list -> 'a1 list

val separated_b : 'a1 numops -> 'a1 -> 'a1 list -> bool

val em_poles : 'a1 numops -> bool -> bool -> int -> 'a1 emission -> 'a1 list

val emissions_separated_b :
  'a1 numops -> 'a1 tols -> 'a1 emission list -> bool

val part_compute :
  'a1 numops -> int -> 'a1 tols -> 'a1 part_in -> 'a1 part_st outcome

val part_clear : 'a1 part_st -> 'a1 part_st

val perm_nth : ((int * int) * int) -> int -> int

val permuted :
  'a1 numops -> ((int * int) * int) -> 'a1 -> 'a1 -> 'a1 -> int -> 'a1

val part_eval :
  'a1 numops -> 'a1 tols -> 'a1 part_in -> 'a1 part_st -> 'a1 -> 'a1 -> 'a1
  -> 'a1 outcome

type 'k fieldop = { fo_map : (z * z) list;
                    fo_parts : (z * ('k smat * 'k smat)) list }

type 'k world = { w_E : 'k list list; w_W : 'k list list; w_ret : bool list;
                  w_beta : 'k; w_C1 : 'k fieldop; w_C2 : 'k fieldop;
                  w_CX3 : 'k fieldop; w_CX4 : 'k fieldop }

val eRROR_BLOCK : z

val is_correct : z -> bool

val right_of : 'a1 fieldop -> z -> z

val left_of : 'a1 fieldop -> z -> z

val part_of : 'a1 fieldop -> z -> ('a1 smat * 'a1 smat) outcome

val op_at : 'a1 world -> int -> int -> 'a1 fieldop option

val getLeftIndex : 'a1 world -> int -> int -> z -> z

val getRightIndex : 'a1 world -> int -> int -> z -> z

val blk : 'a1 list -> 'a1 -> z -> 'a1

val insert_by_right : (z * z) -> (z * z) list -> (z * z) list

val right_view : (z * z) list -> (z * z) list

val prepare_one : 'a1 world -> (z * z) -> int -> 'a1 part_in option outcome

val collect : 'a1 option outcome list -> 'a1 list outcome

val gf_prepare : 'a1 world -> 'a1 part_in list outcome

type gf_status =
| Constructed
| Prepared
| Computed

type 'k gf_st = { g_status : gf_status;
                  g_parts : ('k part_in * 'k part_st) list; g_vanishing : 
                  bool }

val gf_prepared : 'a1 part_in list -> 'a1 gf_st

val sum_parts :
  'a1 numops -> 'a1 tols -> ('a1 part_in * 'a1 part_st) list -> 'a1 -> 'a1 ->
  'a1 -> 'a1 -> 'a1 outcome

val gf_value :
  'a1 numops -> 'a1 tols -> 'a1 gf_st -> 'a1 -> 'a1 -> 'a1 -> 'a1 outcome

val accumulate :
  'a1 numops -> 'a1 tols -> 'a1 part_in -> 'a1 part_st -> (('a1 * 'a1) * 'a1)
  list -> 'a1 list -> 'a1 list outcome

val wrap_run :
  'a1 numops -> int -> 'a1 tols -> bool -> bool -> (('a1 * 'a1) * 'a1) list
  -> 'a1 part_in -> 'a1 list -> ('a1 part_st * 'a1 list) outcome

val run_parts :
  'a1 numops -> int -> 'a1 tols -> bool -> bool -> (('a1 * 'a1) * 'a1) list
  -> ('a1 part_in * 'a1 part_st) list -> 'a1 list -> (('a1 part_in * 'a1
  part_st) list * 'a1 list) outcome

val gf_compute_gen :
  'a1 numops -> bool -> bool -> int -> 'a1 tols -> bool ->
  (('a1 * 'a1) * 'a1) list -> 'a1 gf_st -> ('a1 list * 'a1 gf_st) outcome

val gf_compute :
  'a1 numops -> int -> 'a1 tols -> bool -> (('a1 * 'a1) * 'a1) list -> 'a1
  gf_st -> ('a1 list * 'a1 gf_st) outcome

val f_tols : (Float64.t -> Float64.t) -> fc tols

val f_gf_prepare : fc world -> fc part_in list outcome

val f_gf_prepared : fc part_in list -> fc gf_st

val f_part_compute :
  (Float64.t -> Float64.t) -> int -> fc tols -> fc part_in -> fc part_st
  outcome

val f_part_visits :
  (Float64.t -> Float64.t) -> int -> fc part_in -> fc visit list outcome

val f_part_emissions :
  (Float64.t -> Float64.t) -> int -> fc tols -> fc part_in -> fc emission
  list outcome

val f_emissions_separated_b :
  (Float64.t -> Float64.t) -> fc tols -> fc emission list -> bool

val f_part_eval :
  (Float64.t -> Float64.t) -> fc tols -> fc part_in -> fc part_st -> fc -> fc
  -> fc -> fc outcome

val f_gf_compute :
  (Float64.t -> Float64.t) -> int -> fc tols -> bool -> ((fc * fc) * fc) list
  -> fc gf_st -> (fc list * fc gf_st) outcome

val f_gf_compute_gen :
  (Float64.t -> Float64.t) -> bool -> bool -> int -> fc tols -> bool ->
  ((fc * fc) * fc) list -> fc gf_st -> (fc list * fc gf_st) outcome

val f_gf_value :
  (Float64.t -> Float64.t) -> fc tols -> fc gf_st -> fc -> fc -> fc -> fc
  outcome

val f_phi :
  (Float64.t -> Float64.t) -> fc -> fc -> fc -> fc -> fc -> fc -> fc -> fc ->
  fc -> fc -> fc -> fc -> fc -> fc

val f_multiterm_value :
  (Float64.t -> Float64.t) -> fc tols -> fc -> fc -> fc -> fc -> fc -> fc ->
  fc -> fc -> fc -> fc -> fc -> fc -> fc -> fc
