
type nat =
| O
| S of nat

(** val fst : ('a1 * 'a2) -> 'a1 **)

let fst = function
| (x, _) -> x

(** val snd : ('a1 * 'a2) -> 'a2 **)

let snd = function
| (_, y) -> y

type comparison =
| Eq
| Lt
| Gt

(** val compOpp : comparison -> comparison **)

let compOpp = function
| Eq -> Eq
| Lt -> Gt
| Gt -> Lt

module Coq__1 = struct
 (** val add : nat -> nat -> nat **)
 let rec add n m =
   match n with
   | O -> m
   | S p -> S (add p m)
end
include Coq__1

type positive =
| XI of positive
| XO of positive
| XH

type z =
| Z0
| Zpos of positive
| Zneg of positive

module Pos =
 struct
  (** val succ : positive -> positive **)

  let rec succ = function
  | XI p -> XO (succ p)
  | XO p -> XI p
  | XH -> XO XH

  (** val add : positive -> positive -> positive **)

  let rec add x y =
    match x with
    | XI p ->
      (match y with
       | XI q -> XO (add_carry p q)
       | XO q -> XI (add p q)
       | XH -> XO (succ p))
    | XO p ->
      (match y with
       | XI q -> XI (add p q)
       | XO q -> XO (add p q)
       | XH -> XI p)
    | XH -> (match y with
             | XI q -> XO (succ q)
             | XO q -> XI q
             | XH -> XO XH)

  (** val add_carry : positive -> positive -> positive **)

  and add_carry x y =
    match x with
    | XI p ->
      (match y with
       | XI q -> XI (add_carry p q)
       | XO q -> XO (add_carry p q)
       | XH -> XI (succ p))
    | XO p ->
      (match y with
       | XI q -> XO (add_carry p q)
       | XO q -> XI (add p q)
       | XH -> XO (succ p))
    | XH ->
      (match y with
       | XI q -> XI (succ q)
       | XO q -> XO (succ q)
       | XH -> XI XH)

  (** val pred_double : positive -> positive **)

  let rec pred_double = function
  | XI p -> XI (XO p)
  | XO p -> XI (pred_double p)
  | XH -> XH

  (** val mul : positive -> positive -> positive **)

  let rec mul x y =
    match x with
    | XI p -> add y (XO (mul p y))
    | XO p -> XO (mul p y)
    | XH -> y

  (** val compare_cont : comparison -> positive -> positive -> comparison **)

  let rec compare_cont r x y =
    match x with
    | XI p ->
      (match y with
       | XI q -> compare_cont r p q
       | XO q -> compare_cont Gt p q
       | XH -> Gt)
    | XO p ->
      (match y with
       | XI q -> compare_cont Lt p q
       | XO q -> compare_cont r p q
       | XH -> Gt)
    | XH -> (match y with
             | XH -> r
             | _ -> Lt)

  (** val compare : positive -> positive -> comparison **)

  let compare =
    compare_cont Eq

  (** val eqb : positive -> positive -> bool **)

  let rec eqb p q =
    match p with
    | XI p0 -> (match q with
                | XI q0 -> eqb p0 q0
                | _ -> false)
    | XO p0 -> (match q with
                | XO q0 -> eqb p0 q0
                | _ -> false)
    | XH -> (match q with
             | XH -> true
             | _ -> false)

  (** val iter_op : ('a1 -> 'a1 -> 'a1) -> positive -> 'a1 -> 'a1 **)

  let rec iter_op op p a =
    match p with
    | XI p0 -> op a (iter_op op p0 (op a a))
    | XO p0 -> iter_op op p0 (op a a)
    | XH -> a

  (** val to_nat : positive -> nat **)

  let to_nat x =
    iter_op Coq__1.add x (S O)

  (** val of_succ_nat : nat -> positive **)

  let rec of_succ_nat = function
  | O -> XH
  | S x -> succ (of_succ_nat x)
 end

module Z =
 struct
  (** val double : z -> z **)

  let double = function
  | Z0 -> Z0
  | Zpos p -> Zpos (XO p)
  | Zneg p -> Zneg (XO p)

  (** val succ_double : z -> z **)

  let succ_double = function
  | Z0 -> Zpos XH
  | Zpos p -> Zpos (XI p)
  | Zneg p -> Zneg (Pos.pred_double p)

  (** val pred_double : z -> z **)

  let pred_double = function
  | Z0 -> Zneg XH
  | Zpos p -> Zpos (Pos.pred_double p)
  | Zneg p -> Zneg (XI p)

  (** val pos_sub : positive -> positive -> z **)

  let rec pos_sub x y =
    match x with
    | XI p ->
      (match y with
       | XI q -> double (pos_sub p q)
       | XO q -> succ_double (pos_sub p q)
       | XH -> Zpos (XO p))
    | XO p ->
      (match y with
       | XI q -> pred_double (pos_sub p q)
       | XO q -> double (pos_sub p q)
       | XH -> Zpos (Pos.pred_double p))
    | XH ->
      (match y with
       | XI q -> Zneg (XO q)
       | XO q -> Zneg (Pos.pred_double q)
       | XH -> Z0)

  (** val add : z -> z -> z **)

  let add x y =
    match x with
    | Z0 -> y
    | Zpos x' ->
      (match y with
       | Z0 -> x
       | Zpos y' -> Zpos (Pos.add x' y')
       | Zneg y' -> pos_sub x' y')
    | Zneg x' ->
      (match y with
       | Z0 -> x
       | Zpos y' -> pos_sub y' x'
       | Zneg y' -> Zneg (Pos.add x' y'))

  (** val opp : z -> z **)

  let opp = function
  | Z0 -> Z0
  | Zpos x0 -> Zneg x0
  | Zneg x0 -> Zpos x0

  (** val sub : z -> z -> z **)

  let sub m n =
    add m (opp n)

  (** val mul : z -> z -> z **)

  let mul x y =
    match x with
    | Z0 -> Z0
    | Zpos x' ->
      (match y with
       | Z0 -> Z0
       | Zpos y' -> Zpos (Pos.mul x' y')
       | Zneg y' -> Zneg (Pos.mul x' y'))
    | Zneg x' ->
      (match y with
       | Z0 -> Z0
       | Zpos y' -> Zneg (Pos.mul x' y')
       | Zneg y' -> Zpos (Pos.mul x' y'))

  (** val compare : z -> z -> comparison **)

  let compare x y =
    match x with
    | Z0 -> (match y with
             | Z0 -> Eq
             | Zpos _ -> Lt
             | Zneg _ -> Gt)
    | Zpos x' -> (match y with
                  | Zpos y' -> Pos.compare x' y'
                  | _ -> Gt)
    | Zneg x' ->
      (match y with
       | Zneg y' -> compOpp (Pos.compare x' y')
       | _ -> Lt)

  (** val leb : z -> z -> bool **)

  let leb x y =
    match compare x y with
    | Gt -> false
    | _ -> true

  (** val ltb : z -> z -> bool **)

  let ltb x y =
    match compare x y with
    | Lt -> true
    | _ -> false

  (** val geb : z -> z -> bool **)

  let geb x y =
    match compare x y with
    | Lt -> false
    | _ -> true

  (** val eqb : z -> z -> bool **)

  let eqb x y =
    match x with
    | Z0 -> (match y with
             | Z0 -> true
             | _ -> false)
    | Zpos p -> (match y with
                 | Zpos q -> Pos.eqb p q
                 | _ -> false)
    | Zneg p -> (match y with
                 | Zneg q -> Pos.eqb p q
                 | _ -> false)

  (** val min : z -> z -> z **)

  let min n m =
    match compare n m with
    | Gt -> m
    | _ -> n

  (** val abs : z -> z **)

  let abs = function
  | Zneg p -> Zpos p
  | x -> x

  (** val to_nat : z -> nat **)

  let to_nat = function
  | Zpos p -> Pos.to_nat p
  | _ -> O

  (** val of_nat : nat -> z **)

  let of_nat = function
  | O -> Z0
  | S n0 -> Zpos (Pos.of_succ_nat n0)
 end

(** val last : 'a1 list -> 'a1 -> 'a1 **)

let rec last l d =
  match l with
  | [] -> d
  | a :: l0 -> (match l0 with
                | [] -> a
                | _ :: _ -> last l0 d)

(** val map : ('a1 -> 'a2) -> 'a1 list -> 'a2 list **)

let rec map f = function
| [] -> []
| a :: t -> (f a) :: (map f t)

(** val fold_left : ('a1 -> 'a2 -> 'a1) -> 'a2 list -> 'a1 -> 'a1 **)

let rec fold_left f l a0 =
  match l with
  | [] -> a0
  | b :: t -> fold_left f t (f a0 b)

(** val forallb : ('a1 -> bool) -> 'a1 list -> bool **)

let rec forallb f = function
| [] -> true
| a :: l0 -> (&&) (f a) (forallb f l0)

(** val seq : nat -> nat -> nat list **)

let rec seq start = function
| O -> []
| S len0 -> start :: (seq (S start) len0)

(** val mul0 : Float64.t -> Float64.t -> Float64.t **)

let mul0 = Float64.mul

(** val add0 : Float64.t -> Float64.t -> Float64.t **)

let add0 = Float64.add

(** val sub0 : Float64.t -> Float64.t -> Float64.t **)

let sub0 = Float64.sub

type 'a outcome =
| Done of 'a
| OOB
| Uninit
| Throws of nat
| OutOfFuel

(** val bind : 'a1 outcome -> ('a1 -> 'a2 outcome) -> 'a2 outcome **)

let bind x f =
  match x with
  | Done a -> f a
  | OOB -> OOB
  | Uninit -> Uninit
  | Throws c -> Throws c
  | OutOfFuel -> OutOfFuel

(** val inb : z -> z -> bool **)

let inb i n =
  (&&) (Z.leb Z0 i) (Z.ltb i n)

(** val loop_up :
    nat -> z -> (z -> bool) -> (z -> 'a1 -> 'a1 outcome) -> 'a1 -> 'a1 outcome **)

let rec loop_up fuel i cond body s =
  if cond i
  then (match fuel with
        | O -> OutOfFuel
        | S f ->
          (match body i s with
           | Done s' -> loop_up f (Z.add i (Zpos XH)) cond body s'
           | x -> x))
  else Done s

(** val fill_is_empty : z -> bool **)

let fill_is_empty n =
  Z.eqb n Z0

(** val fill_nvalues : z -> z **)

let fill_nvalues n =
  Z.sub (Z.mul (Zpos (XO (XO XH))) n) (Zpos XH)

(** val fill_noffsets : z -> z **)

let fill_noffsets n =
  Z.sub (Z.mul (Zpos (XO (XO XH))) n) (Zpos XH)

(** val fill_V_first : z -> z **)

let fill_V_first _ =
  Z0

(** val fill_V_cond : z -> z -> bool **)

let fill_V_cond n v =
  Z.leb v (Z.sub (Z.mul (Zpos (XO (XO XH))) n) (Zpos (XO XH)))

(** val fill_bosonic : z -> z -> z **)

let fill_bosonic n v =
  Z.sub v (Z.mul (Zpos (XO XH)) n)

(** val fill_size : z -> z -> z -> z **)

let fill_size n _ b =
  Z.sub (Z.mul (Zpos (XO XH)) n) (Z.abs (Z.add b (Zpos XH)))

(** val fill_offset : z -> z -> z -> z **)

let fill_offset n _ b =
  Z.sub (if Z.ltb b Z0 then Z0 else Z.add b (Zpos XH)) n

(** val fill_nu_first : z -> z -> z -> z -> z **)

let fill_nu_first _ _ _ _ =
  Z0

(** val fill_nu_cond : z -> z -> z -> z -> z -> bool **)

let fill_nu_cond _ _ _ s i =
  Z.ltb i s

(** val fill_nup_first : z -> z -> z -> z -> z **)

let fill_nup_first _ _ _ _ =
  Z0

(** val fill_nup_cond : z -> z -> z -> z -> z -> bool **)

let fill_nup_cond _ _ _ s i =
  Z.ltb i s

(** val fill_n1 : (z -> z) -> z -> z -> z -> z -> z -> z -> z **)

let fill_n1 off _ v _ _ nu _ =
  Z.add nu (off v)

(** val fill_n2 : (z -> z) -> z -> z -> z -> z -> z -> z -> z -> z **)

let fill_n2 _ _ _ b _ _ _ n1 =
  Z.sub b n1

(** val fill_n3 : (z -> z) -> z -> z -> z -> z -> z -> z -> z -> z -> z **)

let fill_n3 off _ v _ _ _ nup _ _ =
  Z.add nup (off v)

(** val fill_off_reads : z -> z -> z -> z -> z -> z -> z list **)

let fill_off_reads _ v _ _ _ _ =
  v :: (v :: [])

(** val fill_cell : z -> z -> z * z **)

let fill_cell nu nup =
  (nu, nup)

(** val fill_src_args : z -> z -> z -> (z * z) * z **)

let fill_src_args n1 n2 n3 =
  ((n1, n2), n3)

(** val lookup_V : z -> z -> z -> z -> z **)

let lookup_V n n1 n2 _ =
  Z.add (Z.add n2 n1) (Z.mul (Zpos (XO XH)) n)

(** val lookup_outer : z -> z -> bool **)

let lookup_outer n v =
  (&&) (Z.geb v Z0)
    (Z.leb v
      (Z.mul (Zpos (XO XH)) (Z.sub (Z.mul (Zpos (XO XH)) n) (Zpos XH))))

(** val lookup_nu : (z -> z) -> z -> z -> z -> z -> z -> z **)

let lookup_nu off _ v n1 _ _ =
  Z.sub n1 (off v)

(** val lookup_nup : (z -> z) -> z -> z -> z -> z -> z -> z **)

let lookup_nup off _ v _ _ n3 =
  Z.sub n3 (off v)

(** val lookup_off_reads : z -> z -> z -> z -> z -> z list **)

let lookup_off_reads _ v _ _ _ =
  v :: (v :: [])

(** val lookup_inner : z -> z -> z -> z -> bool **)

let lookup_inner nu nup rows cols =
  (&&) ((&&) ((&&) (Z.geb nu Z0) (Z.ltb nu rows)) (Z.geb nup Z0))
    (Z.ltb nup cols)

(** val lookup_cell : z -> z -> z * z **)

let lookup_cell nu nup =
  (nu, nup)

(** val lookup_src_args : z -> z -> z -> (z * z) * z **)

let lookup_src_args n1 n2 n3 =
  ((n1, n2), n3)

(** val vertex_value :
    ('a1 -> 'a1 -> 'a1) -> ('a1 -> 'a1 -> 'a1) -> ('a1 -> 'a1 -> 'a1) -> 'a1
    -> (z -> z -> z -> 'a1) -> (z -> 'a1) -> (z -> 'a1) -> (z -> 'a1) -> (z
    -> 'a1) -> z -> z -> z -> 'a1 **)

let vertex_value kadd ksub kmul beta chi4 g13 g24 g14 g23 n1 n2 n3 =
  let v =
    let v = chi4 n1 n2 n3 in
    if Z.eqb n1 n3 then kadd v (kmul (kmul beta (g13 n1)) (g24 n2)) else v
  in
  if Z.eqb n2 n3 then ksub v (kmul (kmul beta (g14 n1)) (g23 n2)) else v

type 't storage = { nvals : z; noffs : z; dims : (z -> z * z);
                    offs : (z -> z); cells : (z -> z -> z -> 't option) }

(** val empty_storage : z -> z -> 'a1 storage **)

let empty_storage nv no =
  { nvals = nv; noffs = no; dims = (fun _ -> (Z0, Z0)); offs = (fun _ -> Z0);
    cells = (fun _ _ _ -> None) }

(** val set_dims : 'a1 storage -> z -> z -> z -> 'a1 storage outcome **)

let set_dims st v r c =
  if (&&) ((&&) (inb v st.nvals) (Z.leb Z0 r)) (Z.leb Z0 c)
  then Done { nvals = st.nvals; noffs = st.noffs; dims = (fun v0 ->
         if Z.eqb v0 v then (r, c) else st.dims v0); offs = st.offs; cells =
         (fun v0 -> if Z.eqb v0 v then (fun _ _ -> None) else st.cells v0) }
  else OOB

(** val set_off : 'a1 storage -> z -> z -> 'a1 storage outcome **)

let set_off st v o =
  if inb v st.noffs
  then Done { nvals = st.nvals; noffs = st.noffs; dims = st.dims; offs =
         (fun v0 -> if Z.eqb v0 v then o else st.offs v0); cells = st.cells }
  else OOB

(** val set_cell :
    'a1 storage -> z -> z -> z -> 'a1 -> 'a1 storage outcome **)

let set_cell st v i j x =
  if inb v st.nvals
  then let (r, c) = st.dims v in
       if (&&) (inb i r) (inb j c)
       then Done { nvals = st.nvals; noffs = st.noffs; dims = st.dims; offs =
              st.offs; cells = (fun v0 a b ->
              if (&&) ((&&) (Z.eqb v0 v) (Z.eqb a i)) (Z.eqb b j)
              then Some x
              else st.cells v0 a b) }
       else OOB
  else OOB

(** val fuelN : z -> nat **)

let fuelN n =
  Z.to_nat (Z.add (Z.mul (Zpos (XO (XO (XO XH)))) n) (Zpos (XO (XO (XO XH)))))

(** val fill_body :
    (((z * z) * z) -> 'a1) -> z -> z -> 'a1 storage -> 'a1 storage outcome **)

let fill_body src n v st =
  let b = fill_bosonic n v in
  let s = fill_size n v b in
  bind (set_dims st v s s) (fun st1 ->
    bind (set_off st1 v (fill_offset n v b)) (fun st2 ->
      loop_up (fuelN n) (fill_nu_first n v b s) (fill_nu_cond n v b s)
        (fun nu st3 ->
        loop_up (fuelN n) (fill_nup_first n v b s) (fill_nup_cond n v b s)
          (fun nup st4 ->
          if forallb (fun i -> inb i st4.noffs)
               (fill_off_reads n v b s nu nup)
          then let n1 = fill_n1 st4.offs n v b s nu nup in
               let n2 = fill_n2 st4.offs n v b s nu nup n1 in
               let n3 = fill_n3 st4.offs n v b s nu nup n1 n2 in
               let (i, j) = fill_cell nu nup in
               set_cell st4 v i j (src (fill_src_args n1 n2 n3))
          else OOB) st3) st2))

(** val resize_storage : 'a1 storage -> z -> z -> 'a1 storage **)

let resize_storage st nv no =
  { nvals = nv; noffs = no; dims = (fun v ->
    if inb v (Z.min st.nvals nv) then st.dims v else (Z0, Z0)); offs =
    (fun v -> if inb v (Z.min st.noffs no) then st.offs v else Z0); cells =
    (fun v ->
    if inb v (Z.min st.nvals nv) then st.cells v else (fun _ _ -> None)) }

(** val fill_from :
    (((z * z) * z) -> 'a1) -> 'a1 storage -> z -> 'a1 storage outcome **)

let fill_from src st n =
  if fill_is_empty n
  then Done (resize_storage st Z0 Z0)
  else loop_up (fuelN n) (fill_V_first n) (fill_V_cond n) (fill_body src n)
         (resize_storage st (fill_nvalues n) (fill_noffsets n))

(** val fill : (((z * z) * z) -> 'a1) -> z -> 'a1 storage outcome **)

let fill src n =
  fill_from src (empty_storage Z0 Z0) n

(** val refill : (((z * z) * z) -> 'a1) -> z list -> 'a1 storage outcome **)

let refill src ns =
  fold_left (fun acc n -> bind acc (fun st -> fill_from src st n)) ns (Done
    (empty_storage Z0 Z0))

(** val lookup :
    (((z * z) * z) -> 'a1) -> 'a1 storage -> z -> z -> z -> z -> 'a1 outcome **)

let lookup src st n n1 n2 n3 =
  let v = lookup_V n n1 n2 n3 in
  if lookup_outer n v
  then if (&&)
            (forallb (fun i -> inb i st.noffs)
              (lookup_off_reads n v n1 n2 n3)) (inb v st.nvals)
       then let nu = lookup_nu st.offs n v n1 n2 n3 in
            let nup = lookup_nup st.offs n v n1 n2 n3 in
            let (r, c) = st.dims v in
            if lookup_inner nu nup r c
            then let (i, j) = lookup_cell nu nup in
                 if (&&) (inb i r) (inb j c)
                 then (match st.cells v i j with
                       | Some x -> Done x
                       | None -> Uninit)
                 else OOB
            else Done (src (lookup_src_args n1 n2 n3))
       else OOB
  else Done (src (lookup_src_args n1 n2 n3))

(** val fill_then_lookup :
    (((z * z) * z) -> 'a1) -> z -> z -> z -> z -> 'a1 outcome **)

let fill_then_lookup src n n1 n2 n3 =
  bind (fill src n) (fun st -> lookup src st n n1 n2 n3)

(** val probe : z -> z -> z -> z -> ((z * z) * z) outcome **)

let probe n n1 n2 n3 =
  fill_then_lookup (fun t -> t) n n1 n2 n3

(** val probe_seq : z list -> z -> z -> z -> ((z * z) * z) outcome **)

let probe_seq ns n1 n2 n3 =
  bind (refill (fun t -> t) ns) (fun st ->
    lookup (fun t -> t) st (last ns Z0) n1 n2 n3)

(** val window_cells : z -> z **)

let window_cells n =
  if fill_is_empty n
  then Z0
  else fold_left (fun acc v ->
         let s = fill_size n v (fill_bosonic n v) in Z.add acc (Z.mul s s))
         (map Z.of_nat (seq O (Z.to_nat (fill_nvalues n)))) Z0

type cplx = Float64.t * Float64.t

(** val cadd : cplx -> cplx -> cplx **)

let cadd a b =
  ((add0 (fst a) (fst b)), (add0 (snd a) (snd b)))

(** val csub : cplx -> cplx -> cplx **)

let csub a b =
  ((sub0 (fst a) (fst b)), (sub0 (snd a) (snd b)))

(** val cmul : cplx -> cplx -> cplx **)

let cmul a b =
  ((sub0 (mul0 (fst a) (fst b)) (mul0 (snd a) (snd b))),
    (add0 (mul0 (fst a) (snd b)) (mul0 (snd a) (fst b))))

(** val vertex_value_f :
    cplx -> cplx -> cplx -> cplx -> cplx -> cplx -> z -> z -> z -> cplx **)

let vertex_value_f beta chi g13 g24 g14 g23 n1 n2 n3 =
  vertex_value cadd csub cmul beta (fun _ _ _ -> chi) (fun _ -> g13)
    (fun _ -> g24) (fun _ -> g14) (fun _ -> g23) n1 n2 n3
