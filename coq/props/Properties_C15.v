(** C15 -- Vertex and its precomputed Matsubara storage are transparent.
    Statements only; proofs are in PV.Matsubara4Proofs. *)
Require Import ZArith Bool List Ring_theory.
From PV Require Import Outcome Matsubara4 Matsubara4Spec Matsubara4Proofs.
From PVgen Require Import Gen_Vertex4.
Local Open Scope Z_scope.

(** fill never writes or reads outside the allocated matrices, never runs out of
    fuel, for every window size N >= 0. *)
Theorem fill_in_bounds : forall (T : Type) (src : Z * Z * Z -> T) (N : Z),
  0 <= N -> exists st, fill T src N = Done st.
Proof. exact Matsubara4Proofs.fill_in_bounds. Qed.
Print Assumptions fill_in_bounds.

(** After fill, a lookup (with any fallback source src') returns the value the
    filling source gave for exactly that triple when the triple is inside the
    documented window, and calls the fallback source otherwise; it never reads
    out of bounds or an unwritten cell. *)
Theorem storage_window : forall (T : Type) (src src' : Z * Z * Z -> T) (N : Z) st (n1 n2 n3 : Z),
  0 <= N -> fill T src N = Done st ->
  lookup T src' st N n1 n2 n3 =
  Done (if in_window N n1 n2 n3 then src (n1, n2, n3) else src' (n1, n2, n3)).
Proof. exact Matsubara4Proofs.storage_window. Qed.
Print Assumptions storage_window.

(** The headline statement: for every window size and every triple in Z^3,
    reading through the storage gives exactly the direct value. *)
Theorem storage_transparent : forall (T : Type) (src : Z * Z * Z -> T) (N n1 n2 n3 : Z),
  0 <= N -> fill_then_lookup T src N n1 n2 n3 = Done (src (n1, n2, n3)).
Proof. exact Matsubara4Proofs.storage_transparent. Qed.
Print Assumptions storage_transparent.

(** Refill of an existing container: Vertex4::compute may be called again on the same
    object with a different window size.  [fill_from] starts from the previous storage st0
    (only the two std::vector resizes and the per-block matrix resizes discard anything).
    No well-formedness condition on st0 is needed: st0 is arbitrary, in particular it may
    have been filled for any other window size and from any other source. *)
Theorem fill_from_in_bounds : forall (T : Type) (src : Z * Z * Z -> T) (st0 : storage T) (N : Z),
  0 <= N -> exists st, fill_from T src st0 N = Done st.
Proof. exact Matsubara4Proofs.fill_from_in_bounds. Qed.
Print Assumptions fill_from_in_bounds.

Theorem refill_window :
  forall (T : Type) (src src' : Z * Z * Z -> T) (st0 : storage T) (N : Z) st (n1 n2 n3 : Z),
  0 <= N -> fill_from T src st0 N = Done st ->
  lookup T src' st N n1 n2 n3 =
  Done (if in_window N n1 n2 n3 then src (n1, n2, n3) else src' (n1, n2, n3)).
Proof. exact Matsubara4Proofs.refill_window. Qed.
Print Assumptions refill_window.

(** History form: any sequence of non-negative window sizes on one container (the empty
    sequence, i.e. a freshly constructed container read with window 0, included); reading
    with the last window size gives exactly the direct value, for every triple. *)
Theorem refill_transparent : forall (T : Type) (src : Z * Z * Z -> T) (Ns : list Z),
  Forall (fun N => 0 <= N) Ns ->
  exists st, refill T src Ns = Done st /\
    forall n1 n2 n3, lookup T src st (last Ns 0) n1 n2 n3 = Done (src (n1, n2, n3)).
Proof. exact Matsubara4Proofs.refill_transparent. Qed.
Print Assumptions refill_transparent.

(** Vertex4::value (generated from the source) is chi minus the documented chi^0,
    over any commutative ring of values. *)
Theorem vertex_is_chi_minus_chi0 :
  forall (K : Type) (k0 k1 : K) (kadd kmul ksub : K -> K -> K) (kopp : K -> K),
  ring_theory k0 k1 kadd kmul ksub kopp (@eq K) ->
  forall (beta : K) (Chi4 : Z -> Z -> Z -> K) (G13 G24 G14 G23 : Z -> K) (n1 n2 n3 : Z),
  vertex_value K kadd ksub kmul beta Chi4 G13 G24 G14 G23 n1 n2 n3 =
  ksub (Chi4 n1 n2 n3) (chi0 K k0 k1 kmul ksub beta G13 G24 G14 G23 n1 n2 n3).
Proof. exact Matsubara4Proofs.vertex_is_chi_minus_chi0. Qed.
Print Assumptions vertex_is_chi_minus_chi0.
