(** Properties_C14_statics.v -- Susceptibility, SusceptibilityPart, EnsembleAverage: every function of these files is free of static and namespace-scope variables.

    What Susceptibility::prepare / compute / subtractDisconnected / operator() / of_tau, SusceptibilityPart::compute and EnsembleAverage::prepare / compute report depends on the object and the arguments only, not on what the process computed
    before or on other objects it holds (a second Hamiltonian, lattice, density matrix of the same size ...).  Statement about the
    list translator/gen_statics.py reads off the source on every run (coq/gen/Gen_StaticsSusc.v).  Run side: several models / objects
    per process (C03 same-process stage, C07 / C08 histories, C14 and C20 call histories). *)
Require Import List String.
From PV Require Import StaticsProofsSusc.
From PVgen Require Import Gen_StaticsSusc.
Import ListNotations.
Local Open Scope string_scope.

Theorem source_susc_functions_hold_no_state : gen_statics_susc = [].
Proof. exact StaticsProofsSusc.gen_statics_susc_is_expected. Qed.
Print Assumptions source_susc_functions_hold_no_state.
