(** C13 about the SOURCE TEXT -- the container statements of Properties_C13.v once more, about the definitions of PV.Container4Gen, which
    are the functions of the hand-written model PV.Container4 rebuilt around what translator/gen_container.py reads off the C++ on every
    run, one generated file per C++ function, each function translated statement by statement into a Gallina function over abstract
    primitives (state, keys, map insertion / lookup, createElement, prepare / compute, communicator operations):
      coq/gen/Gen_C4Perms.v              src/pomerol/Misc.cpp: permutations4[24]
      coq/gen/Gen_C4Eval.v               ElementWithPermFreq::operator(): the four numbers, the perm[] slots, the sign factor
      coq/gen/Gen_C4IsIn.v               IndexContainer4::isInContainer
      coq/gen/Gen_C4Enumerate.v          IndexContainer4::enumerateInitialIndices
      coq/gen/Gen_C4Fill.v               IndexContainer4::fill: the clear() calls, the choice of the index set, the loop, set()
      coq/gen/Gen_C4Set.v                IndexContainer4::set: createElement, owner entry, NonTrivialElements, the three alias blocks
      coq/gen/Gen_C4Lookup.v             IndexContainer4::operator()(Indices): find, set() on a miss, the returned entry
      coq/gen/Gen_C4CreateElement.v      TwoParticleGFContainer::createElement: which four operators, from which indices, in which order
      coq/gen/Gen_C4PrepareAll.v         TwoParticleGFContainer::prepareAll
      coq/gen/Gen_C4ComputeAll.v         TwoParticleGFContainer::computeAll (dispatch on `split`)
      coq/gen/Gen_C4ComputeAllNosplit.v  TwoParticleGFContainer::computeAll_nosplit
      coq/gen/Gen_C4ComputeAllSplit.v    TwoParticleGFContainer::computeAll_split: the colour maps (their arithmetic is PVgen.Gen_SplitColors),
                                         the computation loop, the distribution loop
    Statements only; proofs in PV.Container4GenProofs.  [..._src]: PV.Container4Gen.  This file stops compiling when fill keeps
    NonTrivialElements, when the alias map's fourth frequency, a sign of the permutation table, a registered key / permutation /
    condition of set, the operators createElement takes, the map a bulk call runs over or the colour root of computeAll_split change --
    whether or not a run of the library happens to notice.
    (The exchange symmetries of the Lehmann chi itself do not depend on the container's source: Properties_C13.v.) *)
Require Import ZArith Bool List String Ring Field.
Import ListNotations.
From PVgen Require Import Gen_Container4 Gen_SplitColors.
From PVgen Require Import Gen_C4Perms Gen_C4Eval Gen_C4IsIn Gen_C4Enumerate Gen_C4Fill Gen_C4Set Gen_C4Lookup Gen_C4CreateElement
                          Gen_C4PrepareAll Gen_C4ComputeAll Gen_C4ComputeAllNosplit Gen_C4ComputeAllSplit.
From PV Require Import Container4 Container4Spec Container4Proofs Container4Gen Container4GenProofs.
From PV Require EDSpec ChiSymmetry.
Local Open Scope Z_scope.

(** ** What the source text says (leaf agreements) *)

(** permutations4 of this tree is the table the model uses: 24 distinct permutations with the sign of their parity *)
Theorem source_permutation_table :
  gen_permutations4 = permutations4 /\ gen_permutations4_declared_size = permutations4_declared_size.
Proof. exact Container4GenProofs.gen_perms_is_model. Qed.
Print Assumptions source_permutation_table.

Theorem perm_table_correct_src :
  List.length gen_permutations4 = 24%nat /\ gen_permutations4_declared_size = 24%nat /\
  NoDup (map fst gen_permutations4) /\ Forall perm_ok gen_permutations4.
Proof. exact Container4GenProofs.perm_table_correct_src. Qed.
Print Assumptions perm_table_correct_src.

(** ElementWithPermFreq::operator(): numbers {n1, n2, n3, n1+n2-n3} selected by perm[0], perm[1], perm[2]; result times the sign *)
Theorem source_frequency_permutation :
  forall (V : Type) (ev : Z -> Z -> Z -> V) (perm : nat -> nat) (sign : Z) (scale : Z -> V -> V) (n1 n2 n3 : Z),
  gen_eval V ev perm sign scale n1 n2 n3 =
  scale sign (ev (nth (perm 0%nat) [n1; n2; n3; n1 + n2 - n3] 0) (nth (perm 1%nat) [n1; n2; n3; n1 + n2 - n3] 0)
                 (nth (perm 2%nat) [n1; n2; n3; n1 + n2 - n3] 0)).
Proof. exact Container4GenProofs.gen_eval_is_model. Qed.
Print Assumptions source_frequency_permutation.

Theorem source_evaluation_is_model :
  (forall (p : perm4) (n : triple), perm_eval_src p n = perm_eval p n) /\
  (forall (van : quad -> bool) (el : estore) (r : entry) (n : triple), eval_elem_src van el r n = eval_elem van el r n).
Proof. exact (conj Container4GenProofs.perm_eval_src_is_model Container4GenProofs.eval_elem_src_is_model). Qed.
Print Assumptions source_evaluation_is_model.

Theorem source_is_in_container : forall (st : cstate) (q : quad), isInContainer_src st q = isInContainer st q.
Proof. exact Container4GenProofs.gen_isin_is_model. Qed.
Print Assumptions source_is_in_container.

(** createElement: C1, C2 = annihilation operators of Index1, Index2; CX3, CX4 = creation operators of Index3, Index4, in this order *)
Theorem source_create_element :
  forall (Key AnnOp CrOp Obj : Type) (Index : Key -> nat -> nat) (getA : nat -> AnnOp) (getC : nat -> CrOp)
         (new : AnnOp -> AnnOp -> CrOp -> CrOp -> Obj) (key : Key),
  gen_createElement Key AnnOp CrOp Obj Index getA getC new key =
  new (getA (Index key 0%nat)) (getA (Index key 1%nat)) (getC (Index key 2%nat)) (getC (Index key 3%nat)).
Proof. exact Container4GenProofs.gen_createElement_is_model. Qed.
Print Assumptions source_create_element.

Theorem source_created_element_is_requested : forall q : quad, created_quad_src q = q.
Proof. exact Container4GenProofs.gen_create_is_model. Qed.
Print Assumptions source_created_element_is_requested.

Theorem source_enumerate : forall nidx : nat, enumerate_src nidx = enumerate nidx.
Proof. exact Container4GenProofs.gen_enumerate_is_model. Qed.
Print Assumptions source_enumerate.

(** fill: ElementsMap.clear(); NonTrivialElements.clear(); all combinations when no indices are given; for every index of the set in
    order: if (!isInContainer(k)) set(k) -- no other statement *)
Theorem source_fill :
  forall (St Key Entry : Type) (clear_e clear_n : St -> St) (all : list Key) (isin : St -> Key -> bool)
         (set : St -> Key -> St * Entry) (ii : list Key) (st : St),
  gen_fill St Key Entry clear_e clear_n all isin set ii st =
  fold_left (fun st k => if negb (isin st k) then fst (set st k) else st)
            (if Nat.eqb (List.length ii) 0 then all else ii) (clear_n (clear_e st)).
Proof. exact Container4GenProofs.gen_fill_is_model. Qed.
Print Assumptions source_fill.

Theorem source_fill_is_repaired_model : forall (nidx : nat) (st : cstate) (qs : list quad), fill_src nidx st qs = fill true nidx st qs.
Proof. exact Container4GenProofs.fill_src_is_model. Qed.
Print Assumptions source_fill_is_repaired_model.

(** set: new element, owner entry with permutations4[0], NonTrivialElements, then exactly the three alias blocks
    (Index2,Index1,Index3,Index4) / permutations4[6] when Index1 <> Index2; (Index1,Index2,Index4,Index3) / permutations4[1] when
    Index3 <> Index4; (Index2,Index1,Index4,Index3) / permutations4[7] when both; each guarded by !isInContainer(alias key) *)
Theorem source_set : forall (st : cstate) (a b c d : nat),
  set_src st (a, b, c, d) =
  let e := List.length (elems st) in
  let r := emap_insert (fst (create_src st (a, b, c, d))) (a, b, c, d) (mkentry_src e 0) in
  (alias_block e (negb (a =? b)%nat && negb (c =? d)%nat) (b, a, d, c) 7
     (alias_block e (negb (c =? d)%nat) (a, b, d, c) 1
        (alias_block e (negb (a =? b)%nat) (b, a, c, d) 6 (nontriv_insert (fst r) (a, b, c, d) e))), snd r).
Proof. exact Container4GenProofs.gen_set_is_model. Qed.
Print Assumptions source_set.

Theorem source_set_is_model : forall (st : cstate) (q : quad), set_src st q = set_ st q.
Proof. exact Container4GenProofs.set_src_is_model. Qed.
Print Assumptions source_set_is_model.

(** operator()(Indices): the stored entry when the key is listed, set(Indices) otherwise *)
Theorem source_lookup :
  forall (St Key Entry Iter : Type) (find : St -> Key -> Iter) (is_end : Iter -> bool) (second : Iter -> Entry)
         (isin : St -> Key -> bool) (set : St -> Key -> St * Entry) (st : St) (k : Key),
  gen_lookup St Key Entry Iter find is_end second isin set st k = if is_end (find st k) then set st k else (st, second (find st k)).
Proof. exact Container4GenProofs.gen_lookup_is_model. Qed.
Print Assumptions source_lookup.

Theorem source_lookup_is_model : forall (st : cstate) (q : quad), lookup_src st q = lookup st q.
Proof. exact Container4GenProofs.lookup_src_is_model. Qed.
Print Assumptions source_lookup_is_model.

(** prepareAll: fill(InitialIndices); for EVERY entry of ElementsMap in key order: the three tolerances, prepare() *)
Theorem source_prepare_all :
  forall (St Key Elem Entry : Type) (fill : list Key -> St -> St) (ee : St -> list (Key * Entry)) (ne : St -> list (Key * Elem))
         (el : Entry -> Elem) (tol : string -> Elem -> St -> St) (prep : Elem -> St -> St) (ii : list Key) (st : St),
  gen_prepareAll St Key Elem Entry fill ee ne el tol prep ii st =
  fold_left (fun st kv => prep (el (snd kv))
               (tol "MultiTermCoefficientTolerance"%string (el (snd kv))
                  (tol "CoefficientTolerance"%string (el (snd kv)) (tol "ReduceResonanceTolerance"%string (el (snd kv)) st))))
            (ee (fill ii st)) (fill ii st).
Proof. exact Container4GenProofs.gen_prepareAll_is_model. Qed.
Print Assumptions source_prepare_all.

(** computeAll: the dispatch; computeAll_nosplit: compute(clearTerms, freqs, comm) through EVERY entry of ElementsMap in key order *)
Theorem source_compute_all_dispatch : forall (St R : Type) (f g : St -> R) (split : bool) (st : St),
  gen_computeAll St R f g split st = if split then f st else g st.
Proof. exact Container4GenProofs.gen_computeAll_is_model. Qed.
Print Assumptions source_compute_all_dispatch.

Theorem source_compute_all_nosplit :
  forall (St Key Elem Entry Comm Table : Type) (ee : St -> list (Key * Entry)) (ne : St -> list (Key * Elem))
         (el : Entry -> Elem) (compute : Comm -> Elem -> St -> St * Table) (ins : Key -> Table -> St -> St) (comm : Comm) (st : St),
  gen_computeAll_nosplit St Key Elem Entry Comm Table ee ne el compute ins comm st =
  fold_left (fun st kv => ins (fst kv) (snd (compute comm (el (snd kv)) st)) (fst (compute comm (el (snd kv)) st))) (ee st) st.
Proof. exact Container4GenProofs.gen_computeAll_nosplit_is_model. Qed.
Print Assumptions source_compute_all_nosplit.

Theorem source_bulk_calls_are_model :
  (forall (nidx : nat) (st : cstate) (qs : list quad), prepare_all_src nidx st qs = prepare_all true nidx st qs) /\
  (forall st : cstate, compute_all_nosplit_src st = compute_all st false) /\
  (forall (np : nat -> Z) (st : cstate), compute_all_split_src 1 0 np st = compute_all st true).
Proof.
  exact (conj Container4GenProofs.prepare_all_src_is_model
              (conj Container4GenProofs.compute_all_nosplit_src_is_model Container4GenProofs.compute_all_split_src_one_rank)).
Qed.
Print Assumptions source_bulk_calls_are_model.

(** computeAll_split, the colour maps: one loop over the ranks (proc_colors[p] = colour of p, color_roots[colour] = p unless the colour
    has a root: the FIRST rank of a colour is its root), one loop over the components (elem_colors[i]); arithmetic of Gen_SplitColors *)
Theorem source_split_colour_maps : forall P n : Z,
  gen_split_maps P n =
  fold_left (elem_body (gen_elem_color (gen_ncolors P n) n)) (gen_zrange 0 n)
            (fold_left (root_body (gen_proc_color_f P (gen_ncolors P n))) (gen_zrange 0 P) (nil, nil, nil)).
Proof. exact Container4GenProofs.gen_split_maps_is_model. Qed.
Print Assumptions source_split_colour_maps.

(** computeAll_split on rank [rank] of [P]: the components of NonTrivialElements whose colour is this rank's colour are computed (in
    key order); then every component is marked Computed, once per part, on the ranks other than its sender *)
Theorem source_compute_all_split : forall (P rank : Z) (np : nat -> Z) (st : cstate),
  compute_all_split_src P rank np st =
  let n := Z.of_nat (List.length (nontriv st)) in
  let x1 := fold_left (split_compute_body P rank n) (gen_zindexed (nontriv st)) (st, OUnit) in
  fold_left (split_distribute_body P rank n np) (gen_zindexed (xnontriv x1)) x1.
Proof. exact Container4GenProofs.gen_computeAll_split_is_model. Qed.
Print Assumptions source_compute_all_split.

(** every communicator size, every number of components: the rank a component is broadcast from is a rank of the communicator and
    has the component's colour -- it computed the component -- provided that colour has a rank (C06 every_colour_nonempty_float) *)
Theorem split_sender_has_colour : forall (P n comp : Z),
  (exists p, 0 <= p < P /\ split_proc_color P n p = split_elem_color P n comp) ->
  0 <= split_sender P n comp < P /\ split_proc_color P n (split_sender P n comp) = split_elem_color P n comp.
Proof. exact Container4GenProofs.split_sender_has_colour. Qed.
Print Assumptions split_sender_has_colour.

(** ... and without that hypothesis for up to 24 ranks and 24 components (complete check by evaluation, C++ doubles as primitive floats) *)
Theorem split_sender_has_colour_upto_24 : forall P n comp : Z, 1 <= P <= 24 -> 1 <= n <= 24 -> 0 <= comp < n ->
  0 <= split_sender P n comp < P /\ split_proc_color P n (split_sender P n comp) = split_elem_color P n comp.
Proof. exact Container4GenProofs.split_sender_has_colour_upto_24. Qed.
Print Assumptions split_sender_has_colour_upto_24.

(** Every rank of every communicator: when every component of NonTrivialElements has been prepared and every sender has its component's
    colour, computeAll_split returns normally on this rank, changes neither map, lowers no status, and leaves every component that has
    parts Computed -- computed by this rank (its colour) or marked in the distribution loop (the sender is then another rank) *)
Theorem split_every_rank_ready : forall (P rank : Z) (np : nat -> Z) (st : cstate),
  (forall e, In e (nontriv_ids st) -> exists q s, nth_error (elems st) e = Some (q, s) /\ status_leb Prepared s = true) ->
  (forall comp, 0 <= comp < Z.of_nat (List.length (nontriv st)) ->
     split_proc_color P (Z.of_nat (List.length (nontriv st))) (split_sender P (Z.of_nat (List.length (nontriv st))) comp) =
     split_elem_color P (Z.of_nat (List.length (nontriv st))) comp) ->
  exists el', compute_all_split_src P rank np st = (with_elems st el', OUnit) /\ store_le (elems st) el' /\
              forall k e, In (k, e) (nontriv st) -> 0 < np e -> computed_in el' e.
Proof. exact Container4GenProofs.split_every_rank_ready. Qed.
Print Assumptions split_every_rank_ready.

(** ... with the sender hypothesis discharged for up to 24 ranks and 24 components *)
Theorem split_every_rank_ready_upto_24 : forall (P rank : Z) (np : nat -> Z) (st : cstate),
  1 <= P <= 24 -> (List.length (nontriv st) <= 24)%nat ->
  (forall e, In e (nontriv_ids st) -> exists q s, nth_error (elems st) e = Some (q, s) /\ status_leb Prepared s = true) ->
  exists el', compute_all_split_src P rank np st = (with_elems st el', OUnit) /\ store_le (elems st) el' /\
              forall k e, In (k, e) (nontriv st) -> 0 < np e -> computed_in el' e.
Proof. exact Container4GenProofs.split_every_rank_ready_upto_24. Qed.
Print Assumptions split_every_rank_ready_upto_24.

(** every call and every history of calls: the container built from the source text IS the model with the repaired fill *)
Theorem source_container_is_model :
  (forall (van : quad -> bool) (nidx : nat) (np : nat -> Z) (st : cstate) (op : cop), cstep_src van nidx np st op = cstep true van nidx st op) /\
  (forall (van : quad -> bool) (nidx : nat) (np : nat -> Z) (ops : list cop), run_src van nidx np ops = run true van nidx ops).
Proof. exact (conj Container4GenProofs.cstep_src_is_model Container4GenProofs.run_src_is_model). Qed.
Print Assumptions source_container_is_model.

(** ** The theorems of C13 about the container built from the source text *)

(** every entry set enters for its new element -- the owner and each alias the source registers -- returns chi of the key it is stored
    under, evaluated by the generated operator() with the permutation table of this tree *)
Theorem set_entries_denote_src :
  forall (V : Type) (vneg : V -> V) (vscale : Z -> V -> V) (chi : quad -> triple -> V),
  swap12_law V vneg chi -> swap34_law V vneg chi -> neg_invol V vneg -> scale_law V vneg vscale ->
  forall (st : cstate) (q k : quad) (r : entry),
  qfind k (emap (fst (set_src st q))) = Some r -> qfind k (emap st) = None ->
  fst r = List.length (elems st) /\ entry_denotes_src V vscale chi (snd r) q k.
Proof. exact Container4GenProofs.set_entries_denote_src. Qed.
Print Assumptions set_entries_denote_src.

Theorem eval_sound_src :
  forall (V : Type) (vneg : V -> V) (vscale : Z -> V -> V) (chi : quad -> triple -> V),
  swap12_law V vneg chi -> swap34_law V vneg chi -> neg_invol V vneg -> scale_law V vneg vscale ->
  forall (van : quad -> bool) (nidx : nat) (np : nat -> Z) (ops : list cop) (q : quad) (n : triple) (sg : Z) (q0 : quad) (t : triple),
  eval_out_src van nidx np (fst (run_src van nidx np ops)) q n = OVal sg q0 t -> vscale sg (chi q0 t) = chi q n.
Proof. exact Container4GenProofs.eval_sound_src. Qed.
Print Assumptions eval_sound_src.

Theorem container_refines_spec_src :
  forall (V : Type) (vneg : V -> V) (vscale : Z -> V -> V) (chi : quad -> triple -> V),
  swap12_law V vneg chi -> swap34_law V vneg chi -> neg_invol V vneg -> scale_law V vneg vscale ->
  forall (van : quad -> bool) (nidx : nat) (np : nat -> Z) (ops : list cop) (q : quad) (n : triple),
  qfind q (snd (run_src van nidx np ops)) = Some Computed ->
  exists sg q0 t,
    cstep_src van nidx np (fst (run_src van nidx np ops)) (Eval q n) = (fst (run_src van nidx np ops), OVal sg q0 t) /\
    vscale sg (chi q0 t) = chi q n.
Proof. exact Container4GenProofs.container_refines_spec_src. Qed.
Print Assumptions container_refines_spec_src.

Theorem listed_elements_evaluable_src :
  forall (V : Type) (vneg : V -> V) (vscale : Z -> V -> V) (chi : quad -> triple -> V),
  swap12_law V vneg chi -> swap34_law V vneg chi -> neg_invol V vneg -> scale_law V vneg vscale ->
  forall (van : quad -> bool) (nidx : nat) (np : nat -> Z) (ops : list cop) (b : bool) (st' : cstate),
  cstep_src van nidx np (fst (run_src van nidx np ops)) (ComputeAll b) = (st', OUnit) ->
  forall q n, isInContainer_src st' q = true ->
  exists sg q0 t, cstep_src van nidx np st' (Eval q n) = (st', OVal sg q0 t) /\ vscale sg (chi q0 t) = chi q n.
Proof. exact Container4GenProofs.listed_elements_evaluable_src. Qed.
Print Assumptions listed_elements_evaluable_src.

Theorem requested_are_listed_src :
  forall (van : quad -> bool) (nidx : nat) (np : nat -> Z) (ops : list cop) (qs : list quad) (q : quad),
  In q qs -> isInContainer_src (fst (run_src van nidx np (ops ++ [PrepareAll qs]))) q = true.
Proof. exact Container4GenProofs.requested_are_listed_src. Qed.
Print Assumptions requested_are_listed_src.

Theorem bulk_compute_succeeds_src :
  forall (van : quad -> bool) (nidx : nat) (np : nat -> Z) (ops : list cop) (qs : list quad) (b : bool),
  snd (cstep_src van nidx np (fst (run_src van nidx np (ops ++ [PrepareAll qs]))) (ComputeAll b)) = OUnit.
Proof. exact Container4GenProofs.bulk_compute_succeeds_src. Qed.
Print Assumptions bulk_compute_succeeds_src.

Theorem bulk_compute_succeeds_general_src :
  forall (van : quad -> bool) (nidx : nat) (np : nat -> Z) (ops : list cop) (b : bool),
  (forall k s, qfind k (snd (run_src van nidx np ops)) = Some s -> status_leb Prepared s = true) ->
  snd (cstep_src van nidx np (fst (run_src van nidx np ops)) (ComputeAll b)) = OUnit.
Proof. exact Container4GenProofs.bulk_compute_succeeds_general_src. Qed.
Print Assumptions bulk_compute_succeeds_general_src.

Theorem ready_after_bulk_src :
  forall (van : quad -> bool) (nidx : nat) (np : nat -> Z) (ops : list cop) (qs : list quad) (b : bool) (q : quad),
  isInContainer_src (fst (run_src van nidx np (ops ++ [PrepareAll qs]))) q = true ->
  qfind q (snd (run_src van nidx np ((ops ++ [PrepareAll qs]) ++ [ComputeAll b]))) = Some Computed.
Proof. exact Container4GenProofs.ready_after_bulk_src. Qed.
Print Assumptions ready_after_bulk_src.

Theorem ready_after_on_demand_src :
  forall (van : quad -> bool) (nidx : nat) (np : nat -> Z) (ops : list cop) (q : quad),
  snd (cstep_src van nidx np (fst (run_src van nidx np (ops ++ [PrepareElem q]))) (ComputeElem q)) = OUnit /\
  qfind q (snd (run_src van nidx np ((ops ++ [PrepareElem q]) ++ [ComputeElem q]))) = Some Computed.
Proof. exact Container4GenProofs.ready_after_on_demand_src. Qed.
Print Assumptions ready_after_on_demand_src.

Theorem ready_stable_src :
  forall (van : quad -> bool) (nidx : nat) (np : nat -> Z) (ops : list cop) (op : cop) (q : quad),
  (forall qs, op <> Fill qs /\ op <> PrepareAll qs) ->
  qfind q (snd (run_src van nidx np ops)) = Some Computed ->
  qfind q (snd (run_src van nidx np (ops ++ [op]))) = Some Computed.
Proof. exact Container4GenProofs.ready_stable_src. Qed.
Print Assumptions ready_stable_src.

Theorem no_dangling_src :
  forall (van : quad -> bool) (nidx : nat) (np : nat -> Z) (ops : list cop) (op : cop),
  snd (cstep_src van nidx np (fst (run_src van nidx np ops)) op) <> OThrows Dangling.
Proof. exact Container4GenProofs.no_dangling_src. Qed.
Print Assumptions no_dangling_src.

(** the history that refutes the container with the unrepaired fill (prepareAll twice, split bulk computation, evaluation) evaluates *)
Theorem stale_history_evaluates_src :
  exists sg q0 t,
    eval_out_src (fun _ => false) 2 (fun _ => 1)
                 (fst (run_src (fun _ => false) 2 (fun _ => 1)
                               [PrepareAll [(0, 1, 0, 1)%nat]; PrepareAll [(0, 1, 0, 1)%nat]; ComputeAll true]))
                 (0, 1, 0, 1)%nat (0, 0, 0) = OVal sg q0 t.
Proof. exact Container4GenProofs.stale_history_evaluates_src. Qed.
Print Assumptions stale_history_evaluates_src.

(** with the Lehmann chi (PV.ChiSymmetry.chi_lehmann) and both exchange symmetries discharged for regular eigen-data *)
Theorem eval_sound_lehmann_src :
  forall (K : Type) (NO : EDSpec.numops K) (kinv : K -> K),
  field_theory (EDSpec.n0 K NO) (EDSpec.n1 K NO) (EDSpec.nadd K NO) (EDSpec.nmul K NO) (EDSpec.nsub K NO)
               (EDSpec.nopp K NO) (EDSpec.ndiv K NO) kinv (@eq K) ->
  (forall x, EDSpec.nabs K NO (EDSpec.nopp K NO x) = EDSpec.nabs K NO x) ->
  (forall x, EDSpec.nre_ltb K NO (EDSpec.n0 K NO) (EDSpec.nabs K NO x) = false -> x = EDSpec.n0 K NO) ->
  forall (n : nat) (D : ChiSymmetry.edata K), ChiSymmetry.edata_regular K NO n D ->
  forall (van : quad -> bool) (nidx : nat) (np : nat -> Z) (ops : list cop) (q : quad) (t : triple) (sg : Z) (q0 : quad) (t0 : triple),
  eval_out_src van nidx np (fst (run_src van nidx np ops)) q t = OVal sg q0 t0 ->
  ChiSymmetry.kscale K NO sg (ChiSymmetry.chi_lehmann K NO D q0 t0) = ChiSymmetry.chi_lehmann K NO D q t.
Proof. exact Container4GenProofs.eval_sound_lehmann_src. Qed.
Print Assumptions eval_sound_lehmann_src.
