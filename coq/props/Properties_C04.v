(** C04 -- Lattice terms and presets produce exactly the documented Hamiltonian.
    Statements only; the proofs are in PV.PresetsBasics, PV.PresetsPrepare, PV.PresetsProofs.

    Reading guide.
      - [Lattice.term L K]: a lattice term (operator sequence, site labels, orbitals, spins, value);
        [Lattice.state]: sites + term storage; the presets of PV.Lattice are the loops of LatticePresets.cpp, their
        term factories are translator output (PVgen.Gen_LatticePresets).
      - [IndexHam.prepare ... fixed st]: model of IndexHamiltonian::prepare; [fixed = false] is the loop as
        written ([if (tmp.isEmpty()) tmp = t1; else tmp *= t1;]), [fixed = true] the minimal repair.
      - [coef_poly h s u] = <u| h |s> on bit strings (PV.PolySem, C05); [PresetsSpec.mat] are matrices given
        by their entries, [meq] is equality on the M-mode Fock space; [PresetsSpec.spec_...] are the documented
        operators of include/pomerol/LatticePresets.h; [term_matrix t] = Value * product of the Jordan-Wigner
        matrices of the term's operators.
      - K is any commutative ring ([ring_ok], C05); [khalf] with khalf + khalf = 1 where 1/2 or 1/4 occur. *)
Require Import Bool List Arith ZArith Ring_theory.
From PV Require Import Lattice.
From PV Require Import Outcome Fock Poly PolySem PresetsSpec IndexHam PresetsBasics PresetsPrepare.
Import ListNotations.

Section Generic.
Variable K : Type.
Variables (k0 k1 : K) (kadd kmul ksub : K -> K -> K) (kopp : K -> K).
Variable kzero : K -> bool.
Hypothesis Hring : ring_ok K k0 k1 kadd kmul ksub kopp kzero.
Variable M : nat.                              (* number of modes *)
Variable L : Type.                             (* site labels *)
Variable idx : L -> nat -> nat -> nat.         (* (label, orbital, spin) -> ParticleIndex *)

(** * 1. IndexHamiltonian::prepare (repaired loop) builds the sum of the lattice's terms, any term length *)
Theorem prepare_sound : forall st : Lattice.state L K,
  storage_ok K M L idx st ->            (* every stored term is well formed and mentions only modes < M *)
  exists h, IndexHam.prepare L K k1 kadd kmul kopp kzero idx true st = Done h /\
    poly_in_range K M h /\
    forall s u, length s = M -> length u = M ->
      coef_poly K k0 k1 kadd kmul kopp h s u =
      PolySem.ksum K k0 kadd (IndexHam.terms_read L K st)
        (fun nt => term_matrix K k0 k1 kadd kmul kopp M L idx (snd nt) s u).
Proof. exact (PresetsPrepare.prepare_sound K k0 k1 kadd kmul ksub kopp kzero Hring M L idx). Qed.

(** the order in which the terms were inserted is irrelevant: a lattice holding the terms [ts] *)
Theorem prepare_of_terms : forall (m : site_map L) (ts : list (Lattice.term L K)),
  Forall (fun t => term_ok K M L idx (t_order t) t) ts ->
  exists h, IndexHam.prepare L K k1 kadd kmul kopp kzero idx true (lattice_of K L m ts) = Done h /\
    poly_in_range K M h /\
    forall s u, length s = M -> length u = M ->
      coef_poly K k0 k1 kadd kmul kopp h s u =
      PolySem.ksum K k0 kadd ts
        (fun t => if 1 <=? t_order t then x_term_matrix K k0 k1 kmul kopp L idx t s u else k0).
Proof. exact (PresetsPrepare.prepare_of_terms K k0 k1 kadd kmul ksub kopp kzero Hring M L idx). Qed.

(** an arbitrary user term of 2, 4, 6 (any N >= 1) operators *)
Theorem raw_term_sound : forall (m : site_map L) (t : Lattice.term L K),
  1 <= t_order t -> term_ok K M L idx (t_order t) t ->
  exists h, IndexHam.prepare L K k1 kadd kmul kopp kzero idx true (lattice_of K L m [t]) = Done h /\
    meq K M (coef_poly K k0 k1 kadd kmul kopp h) (term_matrix K k0 k1 kadd kmul kopp M L idx t).
Proof. exact (PresetsPrepare.raw_term_sound K k0 k1 kadd kmul ksub kopp kzero Hring M L idx). Qed.

End Generic.

(** * 2. The loop as written does NOT have the property (witness: 1 * c^+_0 c^+_0 c_1 c_2) *)
Theorem prepare_sound_refuted : ~ prepare_sound_stmt false.
Proof. exact PresetsPrepare.prepare_sound_refuted. Qed.

Print Assumptions prepare_sound.
Print Assumptions prepare_of_terms.
Print Assumptions raw_term_sound.
Print Assumptions prepare_sound_refuted.
