(** C04 -- Lattice terms and presets produce exactly the documented Hamiltonian.
    Statements only; the proofs are in PV.PresetsPrepare, PV.PresetsLeaves, PV.PresetsProofs, PV.PresetsTransport,
    PV.PresetsSU2 and PV.PresetsAgreement.

    THE THEOREMS ARE ABOUT THE CONFIGURATION THE SOURCE TEXT OF THIS TREE HAS.  Three constants are regenerated
    from /repo on every run by translator/gen_c04.py:
      PVgen.Gen_IndexHamiltonian.prepare_first_by_index    first-factor test of IndexHamiltonian::prepare ([i==0] => true)
      PVgen.Gen_MagnetizationCode.code_magnetization_half  addMagnetization passes Magnetization/2. to Level (=> true) or Magnetization
      PVgen.Gen_LatticeDocs.doc_magnetization_half         the doxygen formula of addMagnetization carries the factor 1/2 (=> true) or not
    and the statements below mention only
      [prepare_code]          = IndexHam.prepare with [fixed := prepare_first_by_index]               (PV.PresetsConfig)
      [addMagnetization_code] = the loop of addMagnetization, amplitude halved iff code_magnetization_half (PV.PresetsConfig)
      [spec_magnetization]    = the documented operator, factor 1/2 iff doc_magnetization_half        (PV.PresetsSpec)
    The lemmas they are closed with are proved for the repaired loop ([fixed = true]) and for code and documentation
    of the same variant; [exact] type-checks because the generated constants COMPUTE to those values
    (section 0 states the two agreement facts explicitly).  A change of IndexHamiltonian.cpp, LatticePresets.cpp or of the
    documentation in LatticePresets.h that breaks the agreement therefore breaks these proof obligations; section 7 keeps
    the refutations of the two disagreeing configurations that the check found in /repo (repaired by commits 698bb7e, 6442010).

    Reading guide.
      - [Lattice.term L K]: a lattice term (operator sequence, site labels, orbitals, spins, value); [Lattice.state]:
        sites + term storage; [Lattice.W] = (terms handed to TermStorage::addTerm, outcome) of one call; the presets of
        PV.Lattice are the loops of LatticePresets.cpp, their term factories are translator output (PVgen.Gen_LatticePresets).
      - [coef_poly h s u] = <u| h |s> on bit strings (PV.PolySem, C05); [PresetsSpec.mat] are matrices given by their
        entries, [meq] is equality on the M-mode Fock space; [PresetsSpec.spec_...] are the documented operators of
        include/pomerol/LatticePresets.h written with number operators and products of Jordan-Wigner matrices;
        [term_matrix t] = Value * product of the Jordan-Wigner matrices of the term's operators, as written.
      - K is any commutative ring ([ring_ok], C05) with an exact zero test; [khalf] with khalf + khalf = 1 where 1/2 or
        1/4 occur; [kconj] is complex conjugation (the identity in the real build); a parameter x is real when kconj x = x.
      - [idx l a z] is the ParticleIndex of (site label, orbital, spin) -- any map; [site_ok]: the modes of the site are
        < M; [site_inj] / [sites_apart] / [sites_ok]: different (label, orbital, spin) are different modes (what
        IndexClassification guarantees, C18).
      - [kvops ...] is the arithmetic the presets perform on their parameters (x/2., x/4., 2.0*x, -x, x-y, |x| != 0). *)
Require Import Bool List Arith ZArith Ring_theory Permutation.
From PV Require Import Lattice.
From PV Require Import Outcome Fock Poly PolySem PresetsSpec IndexHam PresetsConfig PresetsBasics PresetsPrepare
  PresetsLeaves PresetsProofs PresetsTransport PresetsSU2 PresetsAgreement.
From PVgen Require Import Gen_LatticeDocs Gen_MagnetizationCode Gen_IndexHamiltonian.
Import ListNotations.

(** * 0. The source text and the documentation of this tree *)
Theorem source_prepare_decides_first_factor_by_loop_index : prepare_first_by_index = true.
Proof. exact PresetsAgreement.prepare_decides_first_factor_by_loop_index. Qed.

Theorem source_magnetization_code_agrees_with_documentation : code_magnetization_half = doc_magnetization_half.
Proof. exact PresetsAgreement.magnetization_code_agrees_with_documentation. Qed.

Section Generic.
Variable K : Type.
Variables (k0 k1 : K) (kadd kmul ksub : K -> K -> K) (kopp : K -> K).
Variable kzero : K -> bool.
Hypothesis Hring : ring_ok K k0 k1 kadd kmul ksub kopp kzero.
Variable M : nat.                              (* number of modes *)
Variable L : Type.                             (* site labels *)
Variable idx : L -> nat -> nat -> nat.         (* (label, orbital, spin) -> ParticleIndex *)

Local Notation prepare_code := (PresetsConfig.prepare_code L K k1 kadd kmul kopp kzero idx).
Local Notation cp := (coef_poly K k0 k1 kadd kmul kopp).

(** * 1. IndexHamiltonian::prepare builds the sum of the lattice's terms, each read as a product of creation and
         annihilation operators in the library's index order -- terms of ANY length (2, 4, 6, ...), repeated operators included *)
Theorem prepare_sound : forall st : Lattice.state L K,
  storage_ok K M L idx st ->            (* every stored term is well formed and mentions only modes < M *)
  exists h, prepare_code st = Done h /\
    poly_in_range K M h /\
    forall s u, length s = M -> length u = M ->
      cp h s u = PolySem.ksum K k0 kadd (IndexHam.terms_read L K st)
                   (fun nt => term_matrix K k0 k1 kadd kmul kopp M L idx (snd nt) s u).
Proof. exact (PresetsPrepare.prepare_sound K k0 k1 kadd kmul ksub kopp kzero Hring M L idx). Qed.

(** the order in which the terms were inserted is irrelevant: a lattice holding the terms [ts] *)
Theorem prepare_of_terms : forall (m : site_map L) (ts : list (Lattice.term L K)),
  Forall (fun t => term_ok K M L idx (t_order t) t) ts ->
  exists h, prepare_code (lattice_of K L m ts) = Done h /\
    poly_in_range K M h /\
    forall s u, length s = M -> length u = M ->
      cp h s u = PolySem.ksum K k0 kadd ts
                   (fun t => if 1 <=? t_order t then x_term_matrix K k0 k1 kmul kopp L idx t s u else k0).
Proof. exact (PresetsPrepare.prepare_of_terms K k0 k1 kadd kmul ksub kopp kzero Hring M L idx). Qed.

(** an arbitrary user term of 2, 4, 6 (any N >= 1) operators *)
Theorem raw_term_sound : forall (m : site_map L) (t : Lattice.term L K),
  1 <= t_order t -> term_ok K M L idx (t_order t) t ->
  exists h, prepare_code (lattice_of K L m [t]) = Done h /\
    meq K M (cp h) (term_matrix K k0 k1 kadd kmul kopp M L idx t).
Proof. exact (PresetsPrepare.raw_term_sound K k0 k1 kadd kmul ksub kopp kzero Hring M L idx). Qed.

(** terms pushed into ANY lattice (well-formed storage, nothing stored above MaxTermOrder) add their operators to
    its Hamiltonian *)
Theorem prepare_after_push : forall (st : Lattice.state L K) (ts : list (Lattice.term L K)),
  storage_ok K M L idx st -> storage_bounded K L st ->
  Forall (fun t => term_ok K M L idx (t_order t) t) ts ->
  exists h h', prepare_code st = Done h /\ prepare_code (push_all L K ts st) = Done h' /\
    forall s u, length s = M -> length u = M ->
      cp h' s u = kadd (cp h s u)
                    (PolySem.ksum K k0 kadd ts
                       (fun t => if 1 <=? t_order t then x_term_matrix K k0 k1 kmul kopp L idx t s u else k0)).
Proof. exact (PresetsPrepare.prepare_after_push K k0 k1 kadd kmul ksub kopp kzero Hring M L idx). Qed.

(** * 2. Every preset adds exactly the operator written in its documentation *)
Variable khalf : K.
Hypothesis Hhalf : kadd khalf khalf = k1.
Variable kconj : K -> K.
Variable leqb : L -> L -> bool.                (* equality of labels *)
Hypothesis leqb_spec : forall a b, leqb a b = true <-> a = b.

Local Notation vo := (kvops K kadd kmul ksub kopp kzero khalf kconj).
Local Notation find_site := (Lattice.find_site L leqb).
Local Notation site_ok := (PresetsProofs.site_ok M L idx).
Local Notation madd := (PresetsSpec.m_add K kadd).

(** [adds m w A]: the call [w] returns normally; IndexHamiltonian::prepare turns the terms it pushed (lattice with the
    sites [m] holding only these terms) into a polynomial whose matrix is A; and pushed into ANY lattice, the terms
    make its Hamiltonian grow by exactly A. *)
Definition adds (m : site_map L) (w : Lattice.W L K) (A : mat K) : Prop :=
  snd w = Done tt /\
  (exists h, prepare_code (lattice_of K L m (fst w)) = Done h /\ meq K M (cp h) A) /\
  (forall st : Lattice.state L K, storage_ok K M L idx st -> storage_bounded K L st ->
     exists h h', prepare_code st = Done h /\ prepare_code (push_all L K (fst w) st) = Done h' /\
       meq K M (cp h') (madd (cp h) A)).

(** LatticePresets.h:128-133  sum_{alpha, sigma} eps n_{i alpha sigma}; any number of orbitals and spins *)
Theorem addLevel_denotes : forall m l norb nspin eps,
  find_site l m = Some (norb, nspin) -> site_ok l norb nspin ->
  adds m (Lattice.addLevel L leqb K vo m l eps) (spec_level K k0 k1 kadd kmul L idx l norb nspin eps).
Proof. exact (PresetsProofs.addLevel_denotes K k0 k1 kadd kmul ksub kopp kzero Hring khalf kconj M L leqb idx). Qed.

(** LatticePresets.h:99-105  sum_{alpha, sigma > sigma'} U n n + sum eps n; any number of orbitals and spins, U = 0 / eps = 0 included *)
Theorem addCoulombS_denotes : forall m l norb nspin U eps,
  find_site l m = Some (norb, nspin) -> site_ok l norb nspin ->
  adds m (Lattice.addCoulombS L leqb K vo m l U eps) (spec_coulombS K k0 k1 kadd kmul L idx l norb nspin U eps).
Proof. exact (PresetsProofs.addCoulombS_denotes K k0 k1 kadd kmul ksub kopp kzero Hring khalf kconj M L leqb idx). Qed.

(** LatticePresets.h:107-117  the Kanamori interaction with independent U, U', J; any number >= 2 of orbitals and of spins *)
Theorem addCoulombP_denotes : forall m l norb nspin U Up J eps,
  find_site l m = Some (norb, nspin) -> 2 <= norb -> 2 <= nspin -> site_ok l norb nspin ->
  adds m (Lattice.addCoulombP L leqb K vo m l U Up J eps)
       (spec_coulombP K k0 k1 kadd kmul ksub kopp khalf M L idx l norb nspin U Up J eps).
Proof. exact (PresetsProofs.addCoulombP_denotes K k0 k1 kadd kmul ksub kopp kzero Hring khalf kconj M L leqb idx). Qed.

(** LatticePresets.h:118-119  the shortcut: the same formula with U' = U - 2J *)
Theorem addCoulombP3_denotes : forall m l norb nspin U J eps,
  find_site l m = Some (norb, nspin) -> 2 <= norb -> 2 <= nspin -> site_ok l norb nspin ->
  adds m (Lattice.addCoulombP3 L leqb K vo m l U J eps)
       (spec_coulombP3 K k0 k1 kadd kmul ksub kopp khalf M L idx l norb nspin U J eps).
Proof. exact (PresetsProofs.addCoulombP3_denotes K k0 k1 kadd kmul ksub kopp kzero Hring khalf kconj M L leqb idx). Qed.

(** LatticePresets.h:121-126  the code of this tree adds the operator the header of this tree documents *)
Theorem addMagnetization_denotes : forall m l norb mH,
  find_site l m = Some (norb, 2) -> site_ok l norb 2 ->
  adds m (PresetsConfig.addMagnetization_code L leqb K vo m l mH)
       (spec_magnetization K k0 k1 kadd kmul ksub khalf L idx l norb mH).
Proof.
  exact (PresetsProofs.addMagnetization_with_denotes K k0 k1 kadd kmul ksub kopp kzero Hring khalf kconj M L leqb idx
           code_magnetization_half).
Qed.

(** LatticePresets.h:135-145  sum_alpha J Sz_{i alpha} Sz_{j alpha}; two sites of equal shape or one site twice *)
Theorem addSzSz_denotes : forall cfg m l1 l2 norb J,
  find_site l1 m = Some (norb, 2) -> find_site l2 m = Some (norb, 2) ->
  site_ok l1 norb 2 -> site_ok l2 norb 2 ->
  adds m (Lattice.addSzSz L leqb K vo cfg m l1 l2 J) (spec_szsz K k0 k1 kadd kmul ksub khalf M L idx l1 l2 norb J).
Proof. exact (PresetsProofs.addSzSz_denotes K k0 k1 kadd kmul ksub kopp kzero Hring khalf kconj M L leqb leqb_spec idx). Qed.

(** LatticePresets.h:147-154  sum_alpha J S_{i alpha} . S_{j alpha} = J (Sz Sz + 1/2 (S+ S- + S- S+)) *)
Theorem addSS_denotes : forall cfg m l1 l2 norb J,
  find_site l1 m = Some (norb, 2) -> find_site l2 m = Some (norb, 2) ->
  site_ok l1 norb 2 -> site_ok l2 norb 2 ->
  adds m (Lattice.addSS L leqb K vo cfg m l1 l2 J) (spec_ss K k0 k1 kadd kmul ksub kopp khalf M L idx l1 l2 norb J).
Proof. exact (PresetsProofs.addSS_denotes K k0 k1 kadd kmul ksub kopp kzero Hring khalf kconj M L leqb leqb_spec idx). Qed.

(** LatticePresets.h:156-172  t c^+_{i o1 s1} c_{j o2 s2} + conj(t) c^+_{j o2 s2} c_{i o1 s1}: the Hermitian conjugate is added;
    two sites or one site, t = 0 included *)
Theorem addHopping8_denotes : forall m l1 l2 t o1 o2 s1 s2 n1 p1 n2 p2,
  find_site l1 m = Some (n1, p1) -> find_site l2 m = Some (n2, p2) ->
  o1 < n1 -> s1 < p1 -> o2 < n2 -> s2 < p2 -> site_ok l1 n1 p1 -> site_ok l2 n2 p2 ->
  adds m (Lattice.addHopping8 L leqb K vo m l1 l2 t o1 o2 s1 s2)
       (spec_hopping8 K k0 k1 kadd kmul kopp kconj M L idx l1 l2 t o1 o2 s1 s2).
Proof. exact (PresetsProofs.addHopping8_denotes K k0 k1 kadd kmul ksub kopp kzero Hring khalf kconj M L leqb idx). Qed.

Theorem addHopping7_denotes : forall m l1 l2 t o1 o2 z n1 p1 n2 p2,
  find_site l1 m = Some (n1, p1) -> find_site l2 m = Some (n2, p2) ->
  o1 < n1 -> z < p1 -> o2 < n2 -> z < p2 -> site_ok l1 n1 p1 -> site_ok l2 n2 p2 ->
  adds m (Lattice.addHopping7 L leqb K vo m l1 l2 t o1 o2 z)
       (spec_hopping7 K k0 k1 kadd kmul kopp kconj M L idx l1 l2 t o1 o2 z).
Proof. exact (PresetsProofs.addHopping7_denotes K k0 k1 kadd kmul ksub kopp kzero Hring khalf kconj M L leqb idx). Qed.

(** sum over the spins (sites with the same number of spins) *)
Theorem addHopping6_denotes : forall cfg m l1 l2 t o1 o2 n1 n2 p,
  find_site l1 m = Some (n1, p) -> find_site l2 m = Some (n2, p) ->
  o1 < n1 -> o2 < n2 -> site_ok l1 n1 p -> site_ok l2 n2 p ->
  adds m (Lattice.addHopping6 L leqb K vo cfg m l1 l2 t o1 o2)
       (spec_hopping6 K k0 k1 kadd kmul kopp kconj M L idx l1 l2 p t o1 o2).
Proof. exact (PresetsProofs.addHopping6_denotes K k0 k1 kadd kmul ksub kopp kzero Hring khalf kconj M L leqb idx). Qed.

(** sum over spins and orbitals (sites of the same shape) *)
Theorem addHopping4_denotes : forall cfg m l1 l2 t n p,
  find_site l1 m = Some (n, p) -> find_site l2 m = Some (n, p) -> site_ok l1 n p -> site_ok l2 n p ->
  adds m (Lattice.addHopping4 L leqb K vo cfg m l1 l2 t) (spec_hopping4 K k0 k1 kadd kmul kopp kconj M L idx l1 l2 n p t).
Proof. exact (PresetsProofs.addHopping4_denotes K k0 k1 kadd kmul ksub kopp kzero Hring khalf kconj M L leqb idx). Qed.

(** * 3. The executable forms of the specification that the correspondence check evaluates (PresetsSpec.xspec_...:
         Jordan-Wigner action of operator strings instead of nested matrix products) equal the documented operators *)
Theorem xspec_coulombP_ok : forall l norb nspin U Up J eps,
  meq K M (spec_coulombP K k0 k1 kadd kmul ksub kopp khalf M L idx l norb nspin U Up J eps)
          (xspec_coulombP K k0 k1 kadd kmul ksub kopp khalf L idx l norb nspin U Up J eps).
Proof. exact (PresetsProofs.xspec_coulombP_ok K k0 k1 kadd kmul ksub kopp kzero Hring khalf M L idx). Qed.

Theorem xspec_szsz_ok : forall l1 l2 norb J,
  meq K M (spec_szsz K k0 k1 kadd kmul ksub khalf M L idx l1 l2 norb J) (xspec_szsz K k0 k1 kadd kmul ksub khalf L idx l1 l2 norb J).
Proof. exact (PresetsProofs.xspec_szsz_ok K k0 k1 kadd kmul ksub kopp kzero Hring khalf M L idx). Qed.

Theorem xspec_ss_ok : forall l1 l2 norb J,
  meq K M (spec_ss K k0 k1 kadd kmul ksub kopp khalf M L idx l1 l2 norb J) (xspec_ss K k0 k1 kadd kmul ksub kopp khalf L idx l1 l2 norb J).
Proof. exact (PresetsProofs.xspec_ss_ok K k0 k1 kadd kmul ksub kopp kzero Hring khalf M L idx). Qed.

Theorem xspec_hopping8_ok : forall l1 l2 t o1 o2 s1 s2,
  meq K M (spec_hopping8 K k0 k1 kadd kmul kopp kconj M L idx l1 l2 t o1 o2 s1 s2)
          (xspec_hopping8 K k0 k1 kadd kmul kopp kconj L idx l1 l2 t o1 o2 s1 s2).
Proof. exact (PresetsProofs.xspec_hopping8_ok K k0 k1 kadd kmul ksub kopp kzero Hring kconj M L idx). Qed.

Theorem xspec_hopping6_ok : forall l1 l2 p t o1 o2,
  meq K M (spec_hopping6 K k0 k1 kadd kmul kopp kconj M L idx l1 l2 p t o1 o2)
          (xspec_hopping6 K k0 k1 kadd kmul kopp kconj L idx l1 l2 p t o1 o2).
Proof. exact (PresetsProofs.xspec_hopping6_ok K k0 k1 kadd kmul ksub kopp kzero Hring kconj M L idx). Qed.

Theorem xspec_hopping4_ok : forall l1 l2 n p t,
  meq K M (spec_hopping4 K k0 k1 kadd kmul kopp kconj M L idx l1 l2 n p t)
          (xspec_hopping4 K k0 k1 kadd kmul kopp kconj L idx l1 l2 n p t).
Proof. exact (PresetsProofs.xspec_hopping4_ok K k0 k1 kadd kmul ksub kopp kzero Hring kconj M L idx). Qed.

(** * 4. The result is Hermitian.
         Hypotheses: [kconj] is a ring involution (the identity in the real build, complex conjugation in the complex build);
         the parameters of the interaction / level / magnetic / exchange presets are real (kconj x = x) -- hopping with ANY
         amplitude; for the Kanamori and the two-site exchange presets different (orbital, spin) are different modes. *)
Hypothesis conj0 : kconj k0 = k0.
Hypothesis conj1 : kconj k1 = k1.
Hypothesis conj_add : forall a b, kconj (kadd a b) = kadd (kconj a) (kconj b).
Hypothesis conj_mul : forall a b, kconj (kmul a b) = kmul (kconj a) (kconj b).
Hypothesis conj_opp : forall a, kconj (kopp a) = kopp (kconj a).
Hypothesis conj_invol : forall a, kconj (kconj a) = a.
Local Notation hermitian := (m_hermitian K kconj M).

Theorem addLevel_hermitian : forall m l norb nspin eps h,
  find_site l m = Some (norb, nspin) -> site_ok l norb nspin -> kconj eps = eps ->
  prepare_code (lattice_of K L m (fst (Lattice.addLevel L leqb K vo m l eps))) = Done h -> hermitian (cp h).
Proof.
  exact (PresetsProofs.addLevel_hermitian K k0 k1 kadd kmul ksub kopp kzero Hring khalf kconj M L leqb idx
           conj0 conj1 conj_add conj_mul).
Qed.

Theorem addCoulombS_hermitian : forall m l norb nspin U eps h,
  find_site l m = Some (norb, nspin) -> site_ok l norb nspin -> kconj U = U -> kconj eps = eps ->
  prepare_code (lattice_of K L m (fst (Lattice.addCoulombS L leqb K vo m l U eps))) = Done h -> hermitian (cp h).
Proof.
  exact (PresetsProofs.addCoulombS_hermitian K k0 k1 kadd kmul ksub kopp kzero Hring khalf kconj M L leqb idx
           conj0 conj1 conj_add conj_mul).
Qed.

Theorem addCoulombP_hermitian : forall m l norb nspin U Up J eps h,
  find_site l m = Some (norb, nspin) -> 2 <= norb -> 2 <= nspin -> site_ok l norb nspin -> site_inj L idx l norb nspin ->
  kconj U = U -> kconj Up = Up -> kconj J = J -> kconj eps = eps ->
  prepare_code (lattice_of K L m (fst (Lattice.addCoulombP L leqb K vo m l U Up J eps))) = Done h -> hermitian (cp h).
Proof.
  exact (PresetsProofs.addCoulombP_hermitian K k0 k1 kadd kmul ksub kopp kzero Hring khalf Hhalf kconj M L leqb idx
           conj0 conj1 conj_add conj_mul conj_opp).
Qed.

Theorem addMagnetization_hermitian : forall m l norb mH h,
  find_site l m = Some (norb, 2) -> site_ok l norb 2 -> kconj mH = mH ->
  prepare_code (lattice_of K L m (fst (PresetsConfig.addMagnetization_code L leqb K vo m l mH))) = Done h -> hermitian (cp h).
Proof.
  exact (PresetsProofs.addMagnetization_with_hermitian K k0 k1 kadd kmul ksub kopp kzero Hring khalf Hhalf kconj M L leqb idx
           conj0 conj1 conj_add conj_mul conj_opp code_magnetization_half).
Qed.

Theorem addSzSz_hermitian : forall cfg m l1 l2 norb J h,
  find_site l1 m = Some (norb, 2) -> find_site l2 m = Some (norb, 2) ->
  site_ok l1 norb 2 -> site_ok l2 norb 2 -> kconj J = J ->
  prepare_code (lattice_of K L m (fst (Lattice.addSzSz L leqb K vo cfg m l1 l2 J))) = Done h -> hermitian (cp h).
Proof.
  exact (PresetsProofs.addSzSz_hermitian K k0 k1 kadd kmul ksub kopp kzero Hring khalf Hhalf kconj M L leqb leqb_spec idx
           conj0 conj1 conj_add conj_mul conj_opp).
Qed.

Theorem addSS_hermitian : forall cfg m l1 l2 norb J h,
  find_site l1 m = Some (norb, 2) -> find_site l2 m = Some (norb, 2) ->
  site_ok l1 norb 2 -> site_ok l2 norb 2 -> (l1 = l2 \/ sites_apart L idx l1 l2 norb 2) -> kconj J = J ->
  prepare_code (lattice_of K L m (fst (Lattice.addSS L leqb K vo cfg m l1 l2 J))) = Done h -> hermitian (cp h).
Proof.
  exact (PresetsProofs.addSS_hermitian K k0 k1 kadd kmul ksub kopp kzero Hring khalf Hhalf kconj M L leqb leqb_spec idx
           conj0 conj1 conj_add conj_mul conj_opp conj_invol).
Qed.

(** hopping: any amplitude, real or complex; same-site and two-site *)
Theorem addHopping8_hermitian : forall m l1 l2 t o1 o2 s1 s2 n1 p1 n2 p2 h,
  find_site l1 m = Some (n1, p1) -> find_site l2 m = Some (n2, p2) ->
  o1 < n1 -> s1 < p1 -> o2 < n2 -> s2 < p2 -> site_ok l1 n1 p1 -> site_ok l2 n2 p2 ->
  prepare_code (lattice_of K L m (fst (Lattice.addHopping8 L leqb K vo m l1 l2 t o1 o2 s1 s2))) = Done h -> hermitian (cp h).
Proof.
  exact (PresetsProofs.addHopping8_hermitian K k0 k1 kadd kmul ksub kopp kzero Hring khalf kconj M L leqb idx
           conj0 conj1 conj_add conj_mul conj_opp conj_invol).
Qed.

Theorem addHopping6_hermitian : forall cfg m l1 l2 t o1 o2 n1 n2 p h,
  find_site l1 m = Some (n1, p) -> find_site l2 m = Some (n2, p) ->
  o1 < n1 -> o2 < n2 -> site_ok l1 n1 p -> site_ok l2 n2 p ->
  prepare_code (lattice_of K L m (fst (Lattice.addHopping6 L leqb K vo cfg m l1 l2 t o1 o2))) = Done h -> hermitian (cp h).
Proof.
  exact (PresetsProofs.addHopping6_hermitian K k0 k1 kadd kmul ksub kopp kzero Hring khalf kconj M L leqb idx
           conj0 conj1 conj_add conj_mul conj_opp conj_invol).
Qed.

Theorem addHopping4_hermitian : forall cfg m l1 l2 t n p h,
  find_site l1 m = Some (n, p) -> find_site l2 m = Some (n, p) -> site_ok l1 n p -> site_ok l2 n p ->
  prepare_code (lattice_of K L m (fst (Lattice.addHopping4 L leqb K vo cfg m l1 l2 t))) = Done h -> hermitian (cp h).
Proof.
  exact (PresetsProofs.addHopping4_hermitian K k0 k1 kadd kmul ksub kopp kzero Hring khalf kconj M L leqb idx
           conj0 conj1 conj_add conj_mul conj_opp conj_invol).
Qed.

(** raw terms: a list of terms closed under adjoints ([term_adj]: reversed operator sequence with creation and annihilation
    exchanged, conjugated value) sums to a Hermitian matrix; a user term together with its conjugate gives a Hermitian Hamiltonian *)
Theorem adjoint_closed_hermitian : forall ts : list (Lattice.term L K),
  Forall (fun t => term_ok K M L idx (t_order t) t) ts -> Permutation (map (term_adj K kconj L) ts) ts ->
  hermitian (fun s u => PolySem.ksum K k0 kadd ts (fun t => x_term_matrix K k0 k1 kmul kopp L idx t s u)).
Proof.
  exact (PresetsProofs.adjoint_closed_hermitian K k0 k1 kadd kmul ksub kopp kzero Hring kconj M L idx
           conj0 conj1 conj_add conj_mul conj_opp).
Qed.

Theorem raw_term_with_hc_hermitian : forall m (t : Lattice.term L K), 1 <= t_order t -> term_ok K M L idx (t_order t) t ->
  exists h, prepare_code (lattice_of K L m [t; term_adj K kconj L t]) = Done h /\ hermitian (cp h).
Proof.
  exact (PresetsProofs.raw_term_with_hc_hermitian K k0 k1 kadd kmul ksub kopp kzero Hring kconj M L idx
           conj0 conj1 conj_add conj_mul conj_opp conj_invol).
Qed.

(** * 5. SU(2): the Kanamori interaction with U' = U - 2J and the spin-spin exchange commute with the total-spin raising and
         lowering operators S^+_tot = sum c^+_{up} c_{down}, S^-_tot = its adjoint, summed over ANY collection [sites] of
         two-spin sites (label, number of orbitals) that contains the sites acted on; every number of orbitals; every
         placement of the modes in the index space. *)
Local Notation Splus := (m_Splus_tot K k0 k1 kadd kmul kopp M L idx).
Local Notation Sminus := (m_Sminus_tot K k0 k1 kadd kmul kopp M L idx).
Local Notation comm := (m_comm K k0 kadd kmul ksub M).
Local Notation zero := (m_zero K k0).

(** the documented operators *)
Theorem kanamori_su2 : forall sites l norb U J eps, sites_ok M L idx sites -> In (l, norb) sites ->
  meq K M (comm (spec_coulombP3 K k0 k1 kadd kmul ksub kopp khalf M L idx l norb 2 U J eps) (Splus sites)) zero /\
  meq K M (comm (spec_coulombP3 K k0 k1 kadd kmul ksub kopp khalf M L idx l norb 2 U J eps) (Sminus sites)) zero.
Proof. exact (PresetsSU2.kanamori_su2_sites K k0 k1 kadd kmul ksub kopp kzero Hring khalf Hhalf M L idx). Qed.

Theorem ss_su2 : forall sites l1 l2 norb J, sites_ok M L idx sites -> In (l1, norb) sites -> In (l2, norb) sites ->
  meq K M (comm (spec_ss K k0 k1 kadd kmul ksub kopp khalf M L idx l1 l2 norb J) (Splus sites)) zero /\
  meq K M (comm (spec_ss K k0 k1 kadd kmul ksub kopp khalf M L idx l1 l2 norb J) (Sminus sites)) zero.
Proof. exact (PresetsSU2.ss_su2_sites K k0 k1 kadd kmul ksub kopp kzero Hring khalf Hhalf M L idx leqb leqb_spec). Qed.

(** the Hamiltonians the presets produce *)
Theorem addCoulombP3_su2 : forall sites m l norb U J eps h,
  sites_ok M L idx sites -> In (l, norb) sites -> find_site l m = Some (norb, 2) -> 2 <= norb ->
  prepare_code (lattice_of K L m (fst (Lattice.addCoulombP3 L leqb K vo m l U J eps))) = Done h ->
  meq K M (comm (cp h) (Splus sites)) zero /\ meq K M (comm (cp h) (Sminus sites)) zero.
Proof. exact (PresetsSU2.addCoulombP3_su2 K k0 k1 kadd kmul ksub kopp kzero Hring khalf Hhalf M L idx leqb kconj). Qed.

Theorem addSS_su2 : forall cfg sites m l1 l2 norb J h,
  sites_ok M L idx sites -> In (l1, norb) sites -> In (l2, norb) sites ->
  find_site l1 m = Some (norb, 2) -> find_site l2 m = Some (norb, 2) ->
  prepare_code (lattice_of K L m (fst (Lattice.addSS L leqb K vo cfg m l1 l2 J))) = Done h ->
  meq K M (comm (cp h) (Splus sites)) zero /\ meq K M (comm (cp h) (Sminus sites)) zero.
Proof. exact (PresetsSU2.addSS_su2 K k0 k1 kadd kmul ksub kopp kzero Hring khalf Hhalf M L idx leqb leqb_spec kconj). Qed.

(** more than the property asks: the Kanamori operator as documented (density-density + spin-flip + pair-hopping with the
    coefficients U, U', (U'-J)/2, -J) commutes with S^+-_tot for EVERY U' *)
Theorem addCoulombP_su2_every_Uprime : forall sites m l norb U Up J eps h,
  sites_ok M L idx sites -> In (l, norb) sites -> find_site l m = Some (norb, 2) -> 2 <= norb ->
  prepare_code (lattice_of K L m (fst (Lattice.addCoulombP L leqb K vo m l U Up J eps))) = Done h ->
  meq K M (comm (cp h) (Splus sites)) zero /\ meq K M (comm (cp h) (Sminus sites)) zero.
Proof. exact (PresetsSU2.addCoulombP_su2 K k0 k1 kadd kmul ksub kopp kzero Hring khalf Hhalf M L idx leqb kconj). Qed.

(** * 6. Code and documentation of addMagnetization must be of the same variant: each variant of the code adds the operator
         of the same variant of the documentation, and (section 7) not that of the other *)
Theorem addMagnetization_same_variant : forall b : bool,
  addMagnetization_denotes_stmt K k0 k1 kadd kmul ksub kopp kzero khalf kconj b b.
Proof. exact (PresetsProofs.addMagnetization_denotes_same_variant K k0 k1 kadd kmul ksub kopp kzero Hring khalf kconj). Qed.

(** * 7. The two defects the check found in /repo, kept as refutations of the statements one would like to have *)
Hypothesis Hnontrivial : k1 <> k0.

(** code passing the amplitude as given against the documented factor 1/2 (before commit 6442010), and vice versa *)
Theorem addMagnetization_denotes_refuted : ~ addMagnetization_denotes_stmt K k0 k1 kadd kmul ksub kopp kzero khalf kconj false true.
Proof. exact (PresetsProofs.addMagnetization_denotes_refuted K k0 k1 kadd kmul ksub kopp kzero Hring khalf Hhalf kconj Hnontrivial). Qed.

Theorem addMagnetization_mixed_variants_refuted : forall b : bool,
  ~ addMagnetization_denotes_stmt K k0 k1 kadd kmul ksub kopp kzero khalf kconj b (negb b).
Proof. exact (PresetsProofs.addMagnetization_denotes_mixed_refuted K k0 k1 kadd kmul ksub kopp kzero Hring khalf Hhalf kconj Hnontrivial). Qed.

End Generic.

(** IndexHamiltonian::prepare with the first-factor test [tmp.isEmpty()] (before commit 698bb7e) does NOT have property 1
    (witness: 1 * c^+_0 c^+_0 c_1 c_2 contributes c_1 c_2) *)
Theorem prepare_sound_refuted : ~ prepare_sound_stmt false.
Proof. exact PresetsPrepare.prepare_sound_refuted. Qed.

Print Assumptions source_prepare_decides_first_factor_by_loop_index.
Print Assumptions source_magnetization_code_agrees_with_documentation.
Print Assumptions prepare_sound.
Print Assumptions prepare_of_terms.
Print Assumptions raw_term_sound.
Print Assumptions prepare_after_push.
Print Assumptions addLevel_denotes.
Print Assumptions addCoulombS_denotes.
Print Assumptions addCoulombP_denotes.
Print Assumptions addCoulombP3_denotes.
Print Assumptions addMagnetization_denotes.
Print Assumptions addSzSz_denotes.
Print Assumptions addSS_denotes.
Print Assumptions addHopping8_denotes.
Print Assumptions addHopping7_denotes.
Print Assumptions addHopping6_denotes.
Print Assumptions addHopping4_denotes.
Print Assumptions xspec_coulombP_ok.
Print Assumptions xspec_szsz_ok.
Print Assumptions xspec_ss_ok.
Print Assumptions xspec_hopping8_ok.
Print Assumptions xspec_hopping6_ok.
Print Assumptions xspec_hopping4_ok.
Print Assumptions addLevel_hermitian.
Print Assumptions addCoulombS_hermitian.
Print Assumptions addCoulombP_hermitian.
Print Assumptions addMagnetization_hermitian.
Print Assumptions addSzSz_hermitian.
Print Assumptions addSS_hermitian.
Print Assumptions addHopping8_hermitian.
Print Assumptions addHopping6_hermitian.
Print Assumptions addHopping4_hermitian.
Print Assumptions adjoint_closed_hermitian.
Print Assumptions raw_term_with_hc_hermitian.
Print Assumptions kanamori_su2.
Print Assumptions ss_su2.
Print Assumptions addCoulombP3_su2.
Print Assumptions addSS_su2.
Print Assumptions addCoulombP_su2_every_Uprime.
Print Assumptions addMagnetization_same_variant.
Print Assumptions addMagnetization_denotes_refuted.
Print Assumptions addMagnetization_mixed_variants_refuted.
Print Assumptions prepare_sound_refuted.
