(** C11 -- Green's function obeys fermionic symmetry, sum rules and tau/frequency duality.
    Statements only; proofs are in PV.GFIdentitiesProofs, definitions in PV.GFIdentities.
    Quantifier discharged: ALL finite Lehmann data (any dimension, energies, weights, matrix elements),
    all index pairs, all complex z, all tau, all beta > 0, all Matsubara numbers.

    Two forms of the Lehmann sum are used:
      plain       [lehmann l z], [lehmann_tau l beta tau] over a list l of terms (Residue : C, Pole : R),
                  built from the per-term formulas GENERATED from GreensFunctionPart::Term::operator()
                  (PVgen.Gen_GFTau; re-translated on every run) -- this is what the library stores;
      structured  [G D i j z], [Gtau D beta i j tau] over eigenbasis data D (energies, weights, matrix
                  elements <n|c_i|m>) with c^+_j = (c_j)^dagger -- this IS PV.EDSpec.gf / gf_tau (the
                  executable specification the oracle runs) instantiated at Coquelicot's C
                  ([gf_is_specification], [gtau_is_specification]).

    Hypotheses on the data are named: [car_diag] ({c_i,c^+_j} = delta_ij in the eigenbasis; C10),
    [weights_normalised], [weights_nonneg], [boltzmann] (w_m = w_n e^{-beta(E_m-E_n)}; C09).
    Examples showing they are satisfiable: GFIdentitiesProofs.one_mode_*.

    Expected in Print Assumptions: the classical real axioms of Coq's standard library
    (ClassicalDedekindReals.sig_forall_dec, sig_not_dec, FunctionalExtensionality.functional_extensionality_dep)
    and, for the integral statements, Classical_Prop.classic (through Coquelicot).  Nothing else.

    NOT proved (trusted): the inverse direction of [tau_is_transform] (G(tau) on (0,beta) is determined by
    its Matsubara coefficients) is uniqueness of Fourier series. *)
Require Import Reals List ZArith.
From Coquelicot Require Import Coquelicot.
From PV Require Import EDSpec GFIdentities GFIdentitiesProofs.
From PVgen Require Import Gen_GFTau.
Local Open Scope R_scope.

(** The structured Lehmann sum is the executable specification (numops at C), with CX_j[m][n] = conj(C_j[n][m]). *)
Theorem gf_is_specification : forall D i j z,
  gf C CNum (tabR (dim D) (En D)) (tabR (dim D) (wn D))
     (matC (dim D) (cop D i)) (matC (dim D) (fun m n => Cconj (cop D j n m))) z
  = G D i j z.
Proof. exact GFIdentitiesProofs.G_is_EDSpec_gf. Qed.
Print Assumptions gf_is_specification.

(** conj(G_ij(z)) = G_ji(conj z) for every z (on and off the imaginary axis). *)
Theorem gf_conj_symmetry : forall D i j z, Cconj (G D i j z) = G D j i (Cconj z).
Proof. exact GFIdentitiesProofs.gf_conj_symmetry. Qed.
Print Assumptions gf_conj_symmetry.

(** plain form: conjugate residues, conjugate argument *)
Theorem lehmann_conj : forall l z, Cconj (lehmann l z) = lehmann (conj_terms l) (Cconj z).
Proof. exact GFIdentitiesProofs.lehmann_conj. Qed.
Print Assumptions lehmann_conj.

(** Tail, plain form: for |z| > Pmax >= |P_k|:  |z G(z) - sum_k R_k| <= sum_k |R_k P_k| / (|z| - Pmax). *)
Theorem lehmann_tail : forall (l : list term) (z : C) (Pmax : R),
  (forall t, In t l -> Rabs (snd t) <= Pmax) -> Pmax < Cmod z ->
  Cmod (z * lehmann l z - residue_sum l)%C <=
  rsum (map (fun t => Cmod (fst t * RtoC (snd t))%C) l) / (Cmod z - Pmax).
Proof. exact GFIdentitiesProofs.lehmann_tail. Qed.
Print Assumptions lehmann_tail.

(** Sum rule: the residues add up to delta_ij (CAR in the eigenbasis, normalised weights). *)
Theorem residue_sum_is_delta : forall D i j,
  car_diag D i j -> weights_normalised D -> residue_sum (gterms D i j) = delta i j.
Proof. exact GFIdentitiesProofs.residue_sum_is_delta. Qed.
Print Assumptions residue_sum_is_delta.

(** gf_tail: |z G_ij(z) - delta_ij| <= sum |R P| / (|z| - max|P|). *)
Theorem gf_tail : forall D i j (z : C) (Pmax : R),
  car_diag D i j -> weights_normalised D ->
  (forall n m, (n < dim D)%nat -> (m < dim D)%nat -> Rabs (pole D n m) <= Pmax) -> Pmax < Cmod z ->
  Cmod (z * G D i j z - delta i j)%C <=
  rsum (map (fun t => Cmod (fst t * RtoC (snd t))%C) (gterms D i j)) / (Cmod z - Pmax).
Proof. exact GFIdentitiesProofs.gf_tail. Qed.
Print Assumptions gf_tail.

(** ... hence z G_ij(z) tends to delta_ij for large |z|. *)
Theorem gf_tail_limit : forall D i j, car_diag D i j -> weights_normalised D ->
  forall eps, 0 < eps -> exists Rad, forall z : C, Rad < Cmod z -> Cmod (z * G D i j z - delta i j)%C < eps.
Proof. exact GFIdentitiesProofs.gf_tail_limit. Qed.
Print Assumptions gf_tail_limit.

(** Im G_ii(i om) < 0 for om > 0; plain form for non-negative real residues, one of them positive. *)
Theorem lehmann_im_negative : forall (l : list term) (om : R),
  nonneg_residues l -> (exists t, In t l /\ 0 < Re (fst t)) -> 0 < om -> Im (lehmann l (0, om)) < 0.
Proof. exact GFIdentitiesProofs.lehmann_im_negative. Qed.
Print Assumptions lehmann_im_negative.

Theorem gf_im_negative : forall D i (om : R),
  weights_nonneg D ->
  (exists n m, (n < dim D)%nat /\ (m < dim D)%nat /\ cop D i n m <> RtoC 0 /\ 0 < wn D n + wn D m) ->
  0 < om -> Im (G D i i (0, om)) < 0.
Proof. exact GFIdentitiesProofs.gf_im_negative. Qed.
Print Assumptions gf_im_negative.

(** in fact Im G_ii(i om) = - om sum_k R_k / (om^2 + P_k^2) *)
Theorem gf_im_formula : forall D i (om : R), 0 < om ->
  Im (G D i i (0, om)) = - om * rsum (map (fun t => Re (fst t) / (om ^ 2 + (snd t) ^ 2)) (gterms D i i)).
Proof. exact GFIdentitiesProofs.gf_im_formula. Qed.
Print Assumptions gf_im_formula.

(** The two overflow-avoiding branches of the GENERATED Term::operator()(tau,beta) are the same function. *)
Theorem tau_branches_agree : forall r P tau beta,
  term_tau_then R ROps r P tau beta = term_tau_else R ROps r P tau beta.
Proof. exact GFIdentitiesProofs.tau_branches_agree. Qed.
Print Assumptions tau_branches_agree.

(** ... and both are - R e^{-tau P} / (1 + e^{-beta P}), whatever branch the code takes. *)
Theorem term_tau_closed_form : forall r P beta tau,
  term_tR r P beta tau = - r * exp (- tau * P) / (1 + exp (- beta * P)).
Proof. exact GFIdentitiesProofs.term_tR_closed. Qed.
Print Assumptions term_tau_closed_form.

(** tau/frequency duality, per term and for a term list: the generated frequency formula at
    i omega_n, omega_n = (2n+1) pi / beta, is the Fourier transform over (0,beta) of the generated tau formula
    (real and imaginary parts; cis x = (cos x, sin x) = e^{ix}). *)
Theorem tau_is_transform : forall (t : term) (beta : R) (n : Z), 0 < beta ->
  let om := matsubara beta n in
  is_RInt (fun tau => Re (term_t t beta tau * cis (om * tau))%C) 0 beta (Re (term_z t (0, om))) /\
  is_RInt (fun tau => Im (term_t t beta tau * cis (om * tau))%C) 0 beta (Im (term_z t (0, om))).
Proof. exact GFIdentitiesProofs.tau_is_transform. Qed.
Print Assumptions tau_is_transform.

Theorem lehmann_tau_is_transform : forall (l : list term) (beta : R) (n : Z), 0 < beta ->
  let om := matsubara beta n in
  is_RInt (fun tau => Re (lehmann_tau l beta tau * cis (om * tau))%C) 0 beta (Re (lehmann l (0, om))) /\
  is_RInt (fun tau => Im (lehmann_tau l beta tau * cis (om * tau))%C) 0 beta (Im (lehmann l (0, om))).
Proof. exact GFIdentitiesProofs.lehmann_tau_is_transform. Qed.
Print Assumptions lehmann_tau_is_transform.

(** G_ii(tau) is real and <= 0 (every tau, in particular on [0,beta]). *)
Theorem lehmann_tau_nonpositive : forall (l : list term) (beta tau : R),
  nonneg_residues l -> Im (lehmann_tau l beta tau) = 0 /\ Re (lehmann_tau l beta tau) <= 0.
Proof. exact GFIdentitiesProofs.lehmann_tau_nonpositive. Qed.
Print Assumptions lehmann_tau_nonpositive.

Theorem gtau_nonpositive : forall D i (beta tau : R), weights_nonneg D ->
  Im (Gtau D beta i i tau) = 0 /\ Re (Gtau D beta i i tau) <= 0.
Proof. exact GFIdentitiesProofs.gtau_nonpositive. Qed.
Print Assumptions gtau_nonpositive.

(** G_ij(0+) + G_ij(beta-) = - sum of residues = - delta_ij. *)
Theorem lehmann_tau_jump : forall (l : list term) (beta : R),
  (lehmann_tau l beta 0 + lehmann_tau l beta beta)%C = (- residue_sum l)%C.
Proof. exact GFIdentitiesProofs.lehmann_tau_jump. Qed.
Print Assumptions lehmann_tau_jump.

Theorem gtau_jump : forall D i j (beta : R), car_diag D i j -> weights_normalised D ->
  (Gtau D beta i j 0 + Gtau D beta i j beta)%C = (- delta i j)%C.
Proof. exact GFIdentitiesProofs.gtau_jump. Qed.
Print Assumptions gtau_jump.

(** G_ii(beta-) = - <n_i>, the occupation given by the density matrix. *)
Theorem gtau_beta_is_minus_n : forall D i (beta : R), boltzmann D beta ->
  Gtau D beta i i beta = RtoC (- occupation D i).
Proof. exact GFIdentitiesProofs.gtau_beta_is_minus_n. Qed.
Print Assumptions gtau_beta_is_minus_n.

Theorem occupation_is_trace_rho : forall D i,
  trace_rho C CNum (tabR (dim D) (wn D)) (matC (dim D) (ndens D i)) = RtoC (occupation D i).
Proof. exact GFIdentitiesProofs.occupation_is_trace_rho. Qed.
Print Assumptions occupation_is_trace_rho.

(** The specification's G(tau) (what the oracle evaluates: - sum c c^+ w_n e^{-tau P}) is the code's per-term
    formula summed, under the Boltzmann relation. *)
Theorem gtau_is_specification : forall D i j (beta tau : R), boltzmann D beta ->
  gf_tau C CNum (tabR (dim D) (En D)) (tabR (dim D) (wn D))
     (matC (dim D) (cop D i)) (matC (dim D) (fun m n => Cconj (cop D j n m))) (RtoC tau)
  = Gtau D beta i j tau.
Proof. exact GFIdentitiesProofs.Gtau_is_EDSpec_gf_tau. Qed.
Print Assumptions gtau_is_specification.
