(** C17 (loops) -- the index-chasing loops of GreensFunctionPart::compute, SusceptibilityPart::compute and
    chaseIndices (TwoParticleGFPart.cpp) never read outside the inner vector they iterate over.
    Statements only; proofs are in PV.SparseProofs (model: PV.Sparse).  Built by checks/C01.py alongside its own file;
    checks/C17.py builds props/Properties_C17.v, which re-states these theorems and adds the UNCONDITIONAL ones about the
    source as it is now (PVgen.Gen_C17, PV.BoundsProofs).

    History: the statement was REFUTED for the loops as first read ([fixed] = false: index() was read before the iterator
    was tested; witnesses below, replayed on the library under AddressSanitizer: heap-buffer-overflow in
    GreensFunctionPart::compute).  The loops were repaired in /repo (1a81890, 903e761, fc891e9); the translator now reads
    [*_guarded = true] off the source.  The repair cannot change any result ([gf_fixed_agrees]). *)
Require Import Bool List Arith.
From PV Require Import Sparse SparseProofs GFPart SuscPart GFPartProofs SuscPartProofs EDSpec.
Require PVgen.Gen_C01.
Import ListNotations.

(** ** the loops as written leave the arrays: a well-formed pair of matrices on which the chase reads innerIndexPtr[nnz] *)
Theorem gf_chase_in_bounds_refuted :
  exists (a b : cs nat) (o : nat), cs_wf a /\ cs_wf b /\ o < cs_outer a /\ o < cs_outer b /\
    walk_outer false false a b o = WOOB SideB 1.
Proof. exact SparseProofs.gf_chase_in_bounds_refuted. Qed.
Print Assumptions gf_chase_in_bounds_refuted.

(** ... or, when it is not the last inner vector, read an entry of the NEXT row/column (strict model: PastEnd);
    the hardware continues with that value (lenient model) and the result is still what the repaired loop returns *)
Theorem gf_chase_past_end_refuted :
  exists (a b : cs nat) (o : nat), cs_wf a /\ cs_wf b /\ o < cs_outer a /\ o < cs_outer b /\
    walk_outer false false a b o = WPastEnd SideB 1 /\
    walk_outer false true a b o = WDone [] /\ walk_outer true false a b o = WDone [].
Proof. exact SparseProofs.gf_chase_past_end_refuted. Qed.
Print Assumptions gf_chase_past_end_refuted.

Theorem chaseIndices_refuted :
  exists (a b : cs nat) (p q : nat), cs_wf a /\ cs_wf b /\
    ptr_at a 0 <= p < ptr_at a 1 /\ ptr_at b 0 <= q < ptr_at b 1 /\
    chaseIndices false false a (ptr_at a 1) b (ptr_at b 1) p q = WOOB SideB 1.
Proof. exact SparseProofs.chaseIndices_refuted. Qed.
Print Assumptions chaseIndices_refuted.

(** ** the repaired loops: for ALL well-formed matrices and every outer index the walk returns normally -- no read past
    the end of an inner vector, none outside the arrays, no fuel exhaustion -- and returns the specified list *)
Theorem gf_chase_in_bounds :
  forall (VA VB : Type) (a : cs VA) (b : cs VB), cs_wf a -> cs_wf b ->
  forall (lenient : bool) (o : nat), o < cs_outer a -> o < cs_outer b ->
  walk_outer true lenient a b o = WDone (matches_outer a b o).
Proof. exact @SparseProofs.gf_chase_in_bounds. Qed.
Print Assumptions gf_chase_in_bounds.

(** the whole compute() loop nest of a part (all outer indices) *)
Theorem gf_part_walk_in_bounds :
  forall (VA VB : Type) (a : cs VA) (b : cs VB), cs_wf a -> cs_wf b -> cs_outer a <= cs_outer b ->
  forall lenient : bool, part_walk true lenient a b = WDone (matches_part a b).
Proof. exact @SparseProofs.part_walk_in_bounds. Qed.
Print Assumptions gf_part_walk_in_bounds.

(** SusceptibilityPart::compute has the same loop nest (the model calls the same function); stated on its own model:
    on well-formed input the repaired compute() returns normally *)
Theorem susc_chase_in_bounds :
  forall (K : Type) (NO : numops K) (lenient : bool) (T : tols K) (inp : part_in K), part_wf K inp ->
  exists o, susc_part_compute K NO true lenient T inp = WDone o.
Proof. exact SuscPartProofs.susc_part_compute_fixed. Qed.
Print Assumptions susc_chase_in_bounds.

Theorem gf_compute_in_bounds :
  forall (K : Type) (NO : numops K) (lenient : bool) (T : tols K) (inp : part_in K), part_wf K inp ->
  exists o, gf_part_compute K NO true lenient T inp = WDone o.
Proof. exact GFPartProofs.gf_part_compute_fixed. Qed.
Print Assumptions gf_compute_in_bounds.

(** chaseIndices, called as TwoParticleGFPart::compute calls it (both iterators valid), and the loop around it *)
Theorem chaseIndices_in_bounds :
  forall (VA VB : Type) (a : cs VA) (b : cs VB), cs_wf a -> cs_wf b ->
  forall (lenient : bool) (oa ob p q : nat), oa < cs_outer a -> ob < cs_outer b ->
  ptr_at a oa <= p < ptr_at a (S oa) -> ptr_at b ob <= q < ptr_at b (S ob) ->
  exists r, chaseIndices true lenient a (ptr_at a (S oa)) b (ptr_at b (S ob)) p q = WDone r.
Proof. exact @SparseProofs.chaseIndices_in_bounds. Qed.
Print Assumptions chaseIndices_in_bounds.

Theorem chase_walk2_in_bounds :
  forall (VA VB : Type) (a : cs VA) (b : cs VB), cs_wf a -> cs_wf b ->
  forall (lenient : bool) (oa ob : nat), oa < cs_outer a -> ob < cs_outer b ->
  walk2_outer true lenient a oa b ob = WDone (matches_outer2 a b oa ob).
Proof. exact @SparseProofs.walk2_in_bounds. Qed.
Print Assumptions chase_walk2_in_bounds.

(** ** the defect is a memory-safety defect, not a wrong-answer defect: whenever the loops as written return
    (strict: no bad read happened; lenient: past-end reads inside the arrays continue with what is in memory),
    the repaired loops return the same list *)
Theorem gf_fixed_agrees :
  forall (VA VB : Type) (a : cs VA) (b : cs VB), cs_wf a -> cs_wf b ->
  forall (lenient lenient' : bool) (o : nat) (l : list (nat * nat)), o < cs_outer a -> o < cs_outer b ->
  walk_outer false lenient a b o = WDone l -> walk_outer true lenient' a b o = WDone l.
Proof. exact @SparseProofs.gf_fixed_agrees. Qed.
Print Assumptions gf_fixed_agrees.

(** a past-end read inside the arrays never changes the result: the run of the loops as written either leaves the
    arrays altogether or returns exactly the specified list *)
Theorem gf_pastend_harmless :
  forall (VA VB : Type) (a : cs VA) (b : cs VB), cs_wf a -> cs_wf b ->
  forall o : nat, o < cs_outer a -> o < cs_outer b ->
  walk_outer false true a b o = WDone (matches_outer a b o) \/ exists s p, walk_outer false true a b o = WOOB s p.
Proof. exact @SparseProofs.gf_pastend_harmless. Qed.
Print Assumptions gf_pastend_harmless.

(** independent of well-formedness: a strict run of the loops as written that returns is a run of the repaired loops *)
Theorem gf_strict_done_is_fixed :
  forall (VA VB : Type) (lenient' : bool) (a : cs VA) (b : cs VB) (o : nat) (l : list (nat * nat)),
  walk_outer false false a b o = WDone l -> walk_outer true lenient' a b o = WDone l.
Proof. exact @SparseProofs.walk_outer_strict_done_fixed. Qed.
Print Assumptions gf_strict_done_is_fixed.

(** ** the source as it is now: PVgen.Gen_C01.gf_chase_guarded / susc_chase_guarded / chaseIndices_guarded say whether the loops
    of the C++ test the iterator before reading index() (read off the source by the translator on every run).  When they do,
    the in-bounds theorems apply to the source. *)
Theorem source_gf_walk_in_bounds_if_guarded :
  PVgen.Gen_C01.gf_chase_guarded = true ->
  forall (VA VB : Type) (a : cs VA) (b : cs VB), cs_wf a -> cs_wf b -> cs_outer a <= cs_outer b ->
  forall lenient : bool, part_walk PVgen.Gen_C01.gf_chase_guarded lenient a b = WDone (matches_part a b).
Proof. exact (fun H VA VB a b Wa Wb Ho lenient => eq_ind_r (fun f => part_walk f lenient a b = WDone (matches_part a b))
                (SparseProofs.part_walk_in_bounds a b Wa Wb Ho lenient) H). Qed.
Print Assumptions source_gf_walk_in_bounds_if_guarded.

Theorem source_susc_walk_in_bounds_if_guarded :
  PVgen.Gen_C01.susc_chase_guarded = true ->
  forall (VA VB : Type) (a : cs VA) (b : cs VB), cs_wf a -> cs_wf b -> cs_outer a <= cs_outer b ->
  forall lenient : bool, part_walk PVgen.Gen_C01.susc_chase_guarded lenient a b = WDone (matches_part a b).
Proof. exact (fun H VA VB a b Wa Wb Ho lenient => eq_ind_r (fun f => part_walk f lenient a b = WDone (matches_part a b))
                (SparseProofs.part_walk_in_bounds a b Wa Wb Ho lenient) H). Qed.
Print Assumptions source_susc_walk_in_bounds_if_guarded.

Theorem source_chaseIndices_in_bounds_if_guarded :
  PVgen.Gen_C01.chaseIndices_guarded = true ->
  forall (VA VB : Type) (a : cs VA) (b : cs VB), cs_wf a -> cs_wf b ->
  forall (lenient : bool) (oa ob : nat), oa < cs_outer a -> ob < cs_outer b ->
  walk2_outer PVgen.Gen_C01.chaseIndices_guarded lenient a oa b ob = WDone (matches_outer2 a b oa ob).
Proof. exact (fun H VA VB a b Wa Wb lenient oa ob Ha Hb => eq_ind_r (fun f => walk2_outer f lenient a oa b ob = WDone (matches_outer2 a b oa ob))
                (SparseProofs.walk2_in_bounds a b Wa Wb lenient oa ob Ha Hb) H). Qed.
Print Assumptions source_chaseIndices_in_bounds_if_guarded.
