(** C16 -- Job dispatcher runs every job exactly once and always terminates.
    Statements only; the model is PV.Dispatch (a transition system following src/mpi_dispatcher/mpi_dispatcher.cpp
    and the loop of include/mpi_dispatcher/mpi_skel.hpp), the proofs are in PV.DispatchProofs.

    [reachable c s]: s is reached from the initial state of a first round (any duplicate-free job order) by ANY
    finite sequence of events -- any interleaving of master and worker actions and message deliveries, any
    outcome of request::test(), any number of rounds (ENewRound is an event).  All statements are for an
    arbitrary communicator size, either include_boss setting, any number of jobs; nothing is bounded. *)
Require Import List Arith Bool Permutation.
From PV Require Import Dispatch DispatchProofs.
Import ListNotations.

(** Each job of the round is in exactly one of: on the JobStack, in flight to / running on exactly one worker
    ([in_flight] sums over the pool), executed exactly once; jobs not of the round are nowhere. *)
Theorem job_conservation : forall c s, reachable c s -> forall j,
  (In j (alljobs s) -> on_stack j s + in_flight c j s + executed j s = 1) /\
  (~ In j (alljobs s) -> on_stack j s = 0 /\ in_flight c j s = 0 /\ executed j s = 0).
Proof. exact DispatchProofs.job_conservation. Qed.
Print Assumptions job_conservation.

(** Every worker of the pool is either on the WorkerStack exactly once or has exactly one outstanding order;
    the link to it is in one of the six protocol shapes; only pool members are on the stack. *)
Theorem worker_conservation : forall c s, reachable c s ->
  (forall w, In w (pool c) -> cnt w (wstack s) + b2n (outst s w) = 1 /\ link_ok s w) /\
  (forall w, In w (wstack s) -> In w (pool c)).
Proof. exact DispatchProofs.worker_conservation. Qed.
Print Assumptions worker_conservation.

(** Finish is sent to all workers or to none, and only when the JobStack is empty, nothing is in flight or
    running and every job has been executed. *)
Theorem finish_only_when_done : forall c s, reachable c s -> forall w, In w (pool c) -> wfin s w = true ->
  (forall x, In x (pool c) -> wfin s x = true) /\ jobstack s = [] /\
  forall j, in_flight c j s = 0 /\ executed j s = cnt j (alljobs s).
Proof. exact DispatchProofs.finish_only_when_done. Qed.
Print Assumptions finish_only_when_done.

(** On no rank -- in particular not on rank 0, where the master's receive and the worker's wildcard receive
    are posted for the same source -- does the worker's receive swallow a completion report. *)
Theorem root_matching : forall c s, reachable c s -> forall w, step c s (ERecv w MPend) = None.
Proof. exact DispatchProofs.root_matching. Qed.
Print Assumptions root_matching.

(** At most one message is in flight on any master-worker link, and none while the worker runs a job (the
    re-posted receive shares the buffer current_job_ with the running job; it is never overwritten). *)
Theorem link_capacity : forall c s w, reachable c s -> In w (pool c) ->
  length (chan s w) <= 1 /\ (forall j, wst s w = Work j -> chan s w = []).
Proof. exact DispatchProofs.link_capacity. Qed.
Print Assumptions link_capacity.

(** The code never does what the model's MPI state cannot represent (overwriting an active request,
    abandoning an active receive at the end of a round). *)
Theorem model_envelope : forall c s, reachable c s -> err s = false.
Proof. exact DispatchProofs.no_err. Qed.
Print Assumptions model_envelope.

(** While some rank is inside the dispatch loop, a non-stuttering event of the current round is enabled. *)
Theorem no_deadlock : forall c s, valid_cfg c = true -> reachable c s -> finalb c s = false ->
  exists e, stutter e = false /\ is_newround e = false /\ enabled c s e = true.
Proof. exact DispatchProofs.no_deadlock. Qed.
Print Assumptions no_deadlock.

(** Every non-stuttering step of a round strictly decreases the natural-number measure [mu]
    (stuttering steps leave the state unchanged: [stutter_same]). *)
Theorem progress_measure : forall c s e s', reachable c s -> step c s e = Some s' ->
  stutter e = false -> is_newround e = false -> mu c s' < mu c s.
Proof. exact DispatchProofs.progress_measure. Qed.
Print Assumptions progress_measure.

Theorem stutter_same : forall c s e s', step c s e = Some s' -> stutter e = true -> s' = s.
Proof. exact DispatchProofs.stutter_same. Qed.
Print Assumptions stutter_same.

(** Hence a round contains at most 4 J + 3 Nprocs + P non-stuttering steps under any interleaving; with
    no_deadlock, every weakly fair run of a round ends with every rank out of the loop. *)
Theorem bounded_work : forall c js t s', NoDup js -> run c (init c js) t = Some s' -> newrounds t = [] ->
  work t <= 4 * length js + 3 * nprocs c + np c.
Proof. exact DispatchProofs.bounded_work. Qed.
Print Assumptions bounded_work.

(** From every reachable state the round can be completed (no trap states; the model is not vacuous). *)
Theorem can_finish : forall c s, valid_cfg c = true -> reachable c s ->
  exists t s', run c s t = Some s' /\ finalb c s' = true /\ newrounds t = [].
Proof. exact DispatchProofs.can_finish. Qed.
Print Assumptions can_finish.

(** When every rank has left the loop: every job was executed exactly once, DispatchMap is defined exactly on
    the round's jobs and names the executing rank, all links are empty, nothing is outstanding. *)
Theorem final_state : forall c s, valid_cfg c = true -> reachable c s -> finalb c s = true ->
  (forall j, In j (alljobs s) -> executed j s = 1) /\
  (forall j, ~ In j (alljobs s) -> executed j s = 0) /\
  NoDup (map fst (log s)) /\ Permutation (map fst (log s)) (alljobs s) /\
  (forall j w, In (j, w) (log s) -> dmap s j = Some w /\ In w (pool c)) /\
  (forall j, In j (alljobs s) -> exists w, In (j, w) (log s) /\ dmap s j = Some w) /\
  (forall j w, dmap s j = Some w -> In j (alljobs s)) /\
  (forall w, chan s w = []) /\ (forall w, In w (pool c) -> outst s w = false) /\
  jobstack s = [] /\ err s = false.
Proof. exact DispatchProofs.final_state. Qed.
Print Assumptions final_state.

(** at any time, a job has been run by at most one rank *)
Theorem one_rank_per_job : forall c s, reachable c s -> forall j w w',
  In (j, w) (log s) -> In (j, w') (log s) -> w = w'.
Proof. exact DispatchProofs.final_one_rank. Qed.
Print Assumptions one_rank_per_job.

(** the executable end-of-round predicate evaluated by the replay driver follows from the theorems *)
Theorem final_check : forall c s, valid_cfg c = true -> reachable c s -> finalb c s = true -> final_okb c s = true.
Proof. exact DispatchProofs.final_check. Qed.
Print Assumptions final_check.

(** The next round on the same communicator starts in a valid initial state (new master and workers, MPI
    layer as the previous round left it: empty), and its states are again reachable, so all of the above holds
    in every round, for any number of rounds. *)
Theorem rounds : forall c s js, reachable c s -> finalb c s = true -> NoDup js ->
  step c s (ENewRound js) = Some (restart c s js) /\ is_init c js (restart c s js) /\
  reachable c (restart c s js).
Proof. exact DispatchProofs.rounds. Qed.
Print Assumptions rounds.

(** any number of further rounds, each with its own job list, can be run to completion *)
Theorem rounds_exist : forall c, valid_cfg c = true -> forall jss s, reachable c s ->
  (forall js, In js jss -> NoDup js) ->
  exists t s', run c s t = Some s' /\ finalb c s' = true /\ final_okb c s' = true /\ newrounds t = jss.
Proof. exact DispatchProofs.rounds_exist. Qed.
Print Assumptions rounds_exist.

(** Every enabled non-stuttering event is produced by [candidates], the enumeration with which the check
    explores the extracted model exhaustively for small configurations: that exploration covers all
    interleavings. *)
Theorem candidates_complete : forall c s e s', step c s e = Some s' -> stutter e = false -> is_newround e = false ->
  In e (candidates c s).
Proof. exact DispatchProofs.candidates_complete. Qed.
Print Assumptions candidates_complete.
