(** C03 about the SOURCE TEXT -- the structural statements of Properties_C03.v once more, about the definitions of PV.HPartGen, which are
    the functions of the hand-written model PV.HPart rebuilt around the control structure that translator/gen_ham.py reads off the
    C++ on every run (one generated file per function):
      coq/gen/Gen_HamGround.v        Hamiltonian::computeGroundEnergy     loop range over the blocks, the reduction
      coq/gen/Gen_HamEigenValue.v    Hamiltonian::getEigenValue           which part, which cell
      coq/gen/Gen_HamEigenValues.v   Hamiltonian::getEigenValues          loop range, std::copy, running offset
      coq/gen/Gen_HPartCompute.v     HamiltonianPart::compute             the if / else chain as (condition, action) list
      coq/gen/Gen_HPartPrepare.v     HamiltonianPart::prepare             loop over the block's states, the cell written, no entry skipped
      coq/gen/Gen_HamPrepareBcast.v, Gen_HamComputeBcast.v   Hamiltonian::prepare(comm) / compute(comm)   the broadcasts after the dispatch
    Statements only; proofs in PV.HPartGenProofs: each generated piece is shown equal to what HPart.v was written with by a closed
    computation, then the theorem of PV.HPartProofs is transported.  This file stops compiling when computeGroundEnergy loops over
    fewer blocks, HamiltonianPart::compute gains a branch (a "fast path"), a broadcast of compute(comm) becomes conditional, prepare
    writes the transposed cell or drops matrix elements below a threshold, ... -- whether or not a numeric run happens to notice.  (The solver itself stays certified per run:
    Properties_C03.v, checks/C03.py.)

    [..._src] : PV.HPartGen.  [gen_...] : PVgen.Gen_*. *)
Require Import Bool List Arith ZArith.
From PV Require Import Outcome Fock Poly PolySem EDSpec HPart HPartSpec HPartProofs HamShapes HPartGen HPartGenProofs.
From PVgen Require Import Gen_HamGround Gen_HamEigenValue Gen_HamEigenValues Gen_HPartCompute Gen_HPartPrepare
                          Gen_HamPrepareBcast Gen_HamComputeBcast.
Import ListNotations.

(** * what the source text says (leaf agreements) *)

(** computeGroundEnergy: minCoeff of the vector of the minima of ALL parts 0 .. parts.size()-1; the vector has S.NumberOfBlocks() cells *)
Theorem source_ground_energy_loop :
  forall (A : Type) (part_min : nat -> A) (min_coeff : list A -> A) (min2 : A -> A -> A) (nblocks nparts : nat),
  gen_ground_energy A part_min min_coeff min2 nblocks nparts = min_coeff (map part_min (seq 0 nparts)) /\
  gen_ground_vector_size nblocks nparts = nblocks.
Proof. exact HPartGenProofs.gen_ground_is_model. Qed.
Print Assumptions source_ground_energy_loop.

(** getEigenValue(state): parts[block of the state], Eigenvalues(position of the state in its block) *)
Theorem source_eigenvalue_lookup_indices : forall block inner : nat,
  gen_eigenvalue_part block inner = block /\ gen_eigenvalue_index block inner = inner.
Proof. exact HPartGenProofs.gen_eigenvalue_is_model. Qed.
Print Assumptions source_eigenvalue_lookup_indices.

(** getEigenValues: every block in order, the whole of its eigenvalues copied at the running offset *)
Theorem source_eigenvalues_loop : forall nstates nblocks nparts b i len : nat,
  gen_eigenvalues_size nstates nblocks nparts = nstates /\
  gen_eigenvalues_blocks nblocks nparts = seq 0 nblocks /\
  gen_eigenvalues_part b = b /\
  gen_eigenvalues_offset0 = 0 /\
  gen_eigenvalues_copy i len = (0, len, i) /\
  gen_eigenvalues_next i len = i + len.
Proof. exact HPartGenProofs.gen_eigenvalues_is_model. Qed.
Print Assumptions source_eigenvalues_loop.

(** HamiltonianPart::compute has exactly two cases: H.rows() == 1 handled in place, everything else through the solver *)
Theorem source_hpart_compute_cases :
  gen_hp_compute_cases = [(CondRowsEq 1, ActOneByOne)] /\ gen_hp_compute_otherwise = ActSolverWholeBlock.
Proof. exact HPartGenProofs.gen_hp_compute_is_model. Qed.
Print Assumptions source_hpart_compute_cases.

(** HamiltonianPart::prepare: a zeroed blocksize x blocksize matrix, every state of the block acted upon,
    H(position of the result state, position of the source state) = matrix element *)
Theorem source_hpart_prepare_loop : forall blocksize : nat,
  gen_hprep_shape blocksize = (blocksize, blocksize) /\ gen_hprep_zeroed = true /\
  gen_hprep_sources blocksize = seq 0 blocksize /\ gen_hprep_cell = (PosOfResultState, PosOfSourceState).
Proof. exact HPartGenProofs.gen_hprep_is_model. Qed.
Print Assumptions source_hpart_prepare_loop.

(** ... and the body of the inner loop stores EVERY entry (bra, melem) of F.actRight(ket): the translator accounts for every
    statement of that body; a test in front of the store (`if (std::abs(melem) < 1e-8) continue;`, a "sparsity clean-up") is
    translated into [gen_hprep_skip] and this statement stops checking -- the block would no longer be the Hamiltonian restricted
    to the block, whatever the magnitude of the amplitudes the numeric runs happen to use *)
Theorem source_hpart_prepare_stores_every_entry :
  gen_hprep_skip_read = true /\
  forall (A : Type) (ltb : A -> A -> bool) (kabs : A -> A) (lit : Z -> Z -> A) (eps melem : A),
    gen_hprep_skip A ltb kabs lit eps melem = false.
Proof. exact HPartGenProofs.gen_hprep_stores_every_entry. Qed.
Print Assumptions source_hpart_prepare_stores_every_entry.

(** compute(comm): every part is a job; for EVERY part the eigenvector matrix (all rows*cols cells) and the eigenvalues are broadcast
    from the rank that ran it, unconditionally; computeGroundEnergy() follows *)
Theorem source_compute_broadcasts : forall nblocks nparts rows cols size : nat,
  gen_ham_compute_jobs nblocks nparts = seq 0 nparts /\
  gen_ham_compute_bcast_range nblocks nparts = seq 0 nparts /\
  gen_ham_compute_owner = [mkBcast BufMatrix (fun r c _ => r * c) RootThisRank (fun _ _ _ => true);
                           mkBcast BufEigenvalues (fun r _ _ => r) RootThisRank (fun _ _ _ => true)] /\
  gen_ham_compute_others = [mkBcast BufMatrix (fun r c _ => r * c) RootOwner (fun _ _ _ => true);
                            mkBcast BufEigenvalues (fun r _ _ => r) RootOwner (fun _ _ _ => true)] /\
  gen_ham_compute_others_resize_eigenvalues rows cols size = rows /\
  gen_ham_compute_then_ground_energy = true.
Proof. exact HPartGenProofs.gen_ham_compute_bcast_is_model. Qed.
Print Assumptions source_compute_broadcasts.

(** prepare(comm): one part per block, every part a job, every part's matrix broadcast from the rank that filled it *)
Theorem source_prepare_broadcasts : forall nblocks nparts rows cols size : nat,
  gen_ham_prepare_nparts nblocks = nblocks /\
  gen_ham_prepare_constructed nblocks nparts = seq 0 nblocks /\
  gen_ham_prepare_jobs nblocks nparts = seq 0 nparts /\
  gen_ham_prepare_bcast_range nblocks nparts = seq 0 nparts /\
  gen_ham_prepare_owner = [mkBcast BufMatrix (fun r c _ => r * c) RootThisRank (fun _ _ _ => true)] /\
  gen_ham_prepare_others = [mkBcast BufMatrix (fun _ _ s => s * s) RootOwner (fun _ _ _ => true)] /\
  gen_ham_prepare_others_resize_matrix rows cols size = (size, size).
Proof. exact HPartGenProofs.gen_ham_prepare_bcast_is_model. Qed.
Print Assumptions source_prepare_broadcasts.

(** * the functions built from the source are the model's *)
Theorem source_diagonalisation_is_model :
  forall (fb : bool) (K : Type) (NO : numops K) (eps : K) (kre : K -> K) (S : classification) (parts : list (hpart K)),
  (forall nblocks, computeGroundEnergy_src K NO nblocks parts = computeGroundEnergy K NO parts) /\
  (forall q, getEigenValue_src fb K S parts q = getEigenValue fb K S parts q) /\
  (length parts = length (sc_states S) -> getEigenValues_src K S parts = getEigenValues K S parts) /\
  (forall H solver, hpart_compute_src K NO kre H solver = Some (hpart_compute K NO kre H solver)) /\
  (forall p b, hpart_prepare_src fb K NO eps S p b = hpart_prepare fb K NO eps S p b).
Proof. exact HPartGenProofs.source_diagonalisation_is_model. Qed.
Print Assumptions source_diagonalisation_is_model.

(** * C03 about the source *)

(** the ground energy is an eigenvalue of some block and <= every eigenvalue of EVERY block *)
Theorem ground_energy_is_min_src :
  forall (K : Type) (NO : numops K),
  (forall a b, nre_ltb K NO a b = true -> nre_ltb K NO b a = false) ->
  (forall a b c, nre_ltb K NO b a = false -> nre_ltb K NO c b = false -> nre_ltb K NO c a = false) ->
  forall (nblocks : nat) (parts : list (hpart K)) (g : K),
  computeGroundEnergy_src K NO nblocks parts = Done g ->
  (exists p, In p parts /\ In g (fst p)) /\
  (forall p e, In p parts -> In e (fst p) -> nre_ltb K NO e g = false).
Proof. exact HPartGenProofs.ground_energy_is_min_src. Qed.
Print Assumptions ground_energy_is_min_src.

Theorem ground_energy_total_src : forall (K : Type) (NO : numops K) (nblocks : nat) (parts : list (hpart K)),
  parts <> [] -> (forall p, In p parts -> fst p <> []) -> exists g, computeGroundEnergy_src K NO nblocks parts = Done g.
Proof. exact HPartGenProofs.ground_energy_total_src. Qed.
Print Assumptions ground_energy_total_src.

Theorem eigenvalue_lookup_src :
  forall (K : Type) (fb : bool) (S : classification) (parts : list (hpart K)) b states k s part e,
  wf_class S ->
  nth_error (sc_states S) b = Some states -> nth_error states k = Some s ->
  nth_error parts b = Some part -> nth_error (fst part) k = Some e ->
  getEigenValue_src fb K S parts s = Done e.
Proof. exact HPartGenProofs.eigenvalue_lookup_src. Qed.
Print Assumptions eigenvalue_lookup_src.

Theorem state_label_checked_src :
  forall (K : Type) (S : classification) (parts : list (hpart K)) q,
  state_size S <= q -> getEigenValue_src true K S parts q = Throws ex_wrong_state.
Proof. exact HPartGenProofs.state_label_checked_src. Qed.
Print Assumptions state_label_checked_src.

Theorem getEigenValues_is_concat_src :
  forall (K : Type) (S : classification) (parts : list (hpart K)),
  length parts = length (sc_states S) ->
  length (concat (map fst parts)) = state_size S ->
  getEigenValues_src K S parts = Done (concat (map fst parts)).
Proof. exact HPartGenProofs.getEigenValues_is_concat_src. Qed.
Print Assumptions getEigenValues_is_concat_src.

Theorem one_by_one_block_src :
  forall (K : Type) (NO : numops K) (kre : K -> K) (h : K) (solver : list K * mat K),
  hpart_compute_src K NO kre [[h]] solver = Some ([kre h], [[n1 K NO]]).
Proof. exact HPartGenProofs.one_by_one_block_src. Qed.
Print Assumptions one_by_one_block_src.

(** every block of another size is handed to the self-adjoint solver as a whole: the source has no other branch *)
Theorem larger_block_is_solver_output_src :
  forall (K : Type) (NO : numops K) (kre : K -> K) (H : mat K) (solver : list K * mat K),
  length H <> 1 -> hpart_compute_src K NO kre H solver = Some solver.
Proof. exact HPartGenProofs.larger_block_is_solver_output_src. Qed.
Print Assumptions larger_block_is_solver_output_src.

Theorem hpart_prepare_is_restriction_src :
  forall (K : Type) (NO : numops K) (fb : bool) (eps : K),
  (forall x, nadd K NO (n0 K NO) x = x) ->
  (forall x, nadd K NO x (n0 K NO) = x) ->
  (forall x, is_zero K NO eps x = true <-> x = n0 K NO) ->
  forall (S : classification) (p : poly K) (b : nat) (states : list nat),
  wf_class S -> poly_in_range K (sc_M S) p -> nth_error (sc_states S) b = Some states ->
  respects K NO (sc_M S) p states ->
  hpart_prepare_src fb K NO eps S p b = Done (restrict K NO (poly_matrix K NO (sc_M S) p) states states).
Proof. exact HPartGenProofs.hpart_prepare_is_restriction_src. Qed.
Print Assumptions hpart_prepare_is_restriction_src.

(** compute(comm): a rank that did not run a part ends up with the owner's eigenvalues AND eigenvector matrix -- for a block of any
    size, 1x1 included *)
Theorem distributed_part_complete_src :
  forall (K : Type) (NO : numops K) (size : nat) (owner mine : hpart K),
  dims K mine = dims K owner -> length (fst owner) = fst (dims K owner) ->
  ham_compute_receive K NO size owner mine = Done owner.
Proof. exact HPartGenProofs.ham_compute_receive_complete. Qed.
Print Assumptions distributed_part_complete_src.

(** ... and after the loop this holds for EVERY part *)
Theorem distributed_compute_complete_src :
  forall (K : Type) (NO : numops K) (nblocks : nat) (sizes : nat -> nat) (owners mine : list (hpart K)),
  length owners = length mine ->
  (forall p o m, nth_error owners p = Some o -> nth_error mine p = Some m ->
     dims K m = dims K o /\ length (fst o) = fst (dims K o)) ->
  ham_compute_distribute K NO nblocks sizes owners mine = Done owners.
Proof. exact HPartGenProofs.ham_compute_distribute_complete. Qed.
Print Assumptions distributed_compute_complete_src.

(** prepare(comm): every rank ends up with every part's matrix as its owner filled it *)
Theorem distributed_prepare_complete_src :
  forall (K : Type) (NO : numops K) (nblocks : nat) (sizes : nat -> nat) (owners mine : list (hpart K)),
  length owners = length mine ->
  (forall p o, nth_error owners p = Some o -> dims K o = (sizes p, sizes p)) ->
  ham_prepare_distribute K NO nblocks sizes owners mine = Done (combine (map fst mine) (map snd owners)).
Proof. exact HPartGenProofs.ham_prepare_distribute_complete. Qed.
Print Assumptions distributed_prepare_complete_src.

(** not vacuous: with the matrix broadcast under `if (rows > 1)` a rank that did not run a 1x1 part keeps the matrix element it had
    after prepare where the eigenvector 1 should be *)
Theorem guarded_matrix_broadcast_loses_1x1 :
  let guarded_owner := [mkBcast BufMatrix (fun r c _ => r * c) RootThisRank (fun r _ _ => 1 <? r);
                        mkBcast BufEigenvalues (fun r _ _ => r) RootThisRank (fun _ _ _ => true)] in
  let guarded_others := [mkBcast BufMatrix (fun r c _ => r * c) RootOwner (fun r _ _ => 1 <? r);
                         mkBcast BufEigenvalues (fun r _ _ => r) RootOwner (fun _ _ _ => true)] in
  run_bcasts BinNums.Z 1 guarded_owner guarded_others ([5%Z], [[1%Z]]) ([0%Z], [[5%Z]]) = Done ([5%Z], [[5%Z]]) /\
  ham_compute_receive BinNums.Z Zops 1 ([5%Z], [[1%Z]]) ([], [[5%Z]]) = Done ([5%Z], [[1%Z]]).
Proof. exact HPartGenProofs.guarded_matrix_broadcast_loses_1x1. Qed.
Print Assumptions guarded_matrix_broadcast_loses_1x1.
