(** C06 -- which variant of the code /repo currently is, as far as the translator can read it
    (PVgen.Gen_SplitColors: gen_skel_barrier_on_comm, gen_root_is_first, gen_parts_marked_computed).

    This file compiles exactly when all three repairs are present in the source text:
      include/mpi_dispatcher/mpi_skel.hpp      the barrier after the dispatch loop is on `comm`
      src/pomerol/TwoParticleGFContainer.cpp   color_roots keeps the FIRST rank of every colour
      src/pomerol/TwoParticleGFContainer.cpp   ranks other than the sender mark received parts Computed
    On the original code [code_is_repaired] fails (reflexivity: code_fixes is not all_fixed); the counter-examples
    for that variant are Properties_C06.collectives_match_refuted / split_deadlock_refuted / reduce_root_refuted /
    status_refuted.  Properties_C06.vo itself builds for either variant. *)
Require Import List Arith Bool Permutation.
From PVgen Require Import Gen_SplitColors.
From PV Require Import SplitComm SplitCommProofs.
Import ListNotations.

Theorem code_is_repaired : code_fixes = all_fixed.
Proof. reflexivity. Qed.
Print Assumptions code_is_repaired.

(** the summary statement of Properties_C06 for the code that is there: all P >= 1, exact colours *)
Theorem current_code_split_exact : forall P, 1 <= P -> split_correct_for code_fixes exact_colouring P.
Proof. exact (SplitCommProofs.split_correct_of_code_exact code_is_repaired). Qed.
Print Assumptions current_code_split_exact.

(** ... and 1 <= P <= 64 with the colours the C++ computes *)
Theorem current_code_split_float64 : forall P, 1 <= P <= 64 -> split_correct_for code_fixes float_colouring P.
Proof. exact (SplitCommProofs.split_correct_of_code_float64 code_is_repaired). Qed.
Print Assumptions current_code_split_float64.
