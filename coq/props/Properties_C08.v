(** C08 -- Observables are invariant under the choice of symmetry partition.

    FULL STATEMENT (not proved as a whole; claimed `partial`):
      for all models and temperatures, for any two accepted sets of integrals of motion (none, N only,
      S_z only, N and S_z, per-site / per-orbital charges, non-linear diagonal operators), the spectrum,
      the density-matrix averages, all components of G, of the two-particle Green's function and of the
      susceptibilities computed by pomerol with the two partitions agree.

    PROVED PART (below): everything that concerns the partition itself.
      - every prepare() produces a partial bijection between blocks, whatever the partition
        (C08_prepare_bimap_wf), so the stripe-selection theorem of C01 (gf_stripes_complete: the merge walk
        of GreensFunction::prepare and Susceptibility::prepare) applies to every pair of prepared
        operators (C08_gf_stripes_select);
      - for a partition of the symmetry analysis whose accepted operators shift uniformly (C07: default
        candidates, linear forms; with the repaired acceptance test: every accepted operator) the selected
        stripes are exactly the block pairs that can contribute (C08_gf_stripes_exact), and
        EnsembleAverage::prepare selects exactly the contributing diagonal blocks
        (C08_avg_stripes_complete);
      - regrouping: block-wise / stripe-wise sums of anything that vanishes outside the selected blocks /
        stripes equal the partition-free sums over all Fock states / pairs of Fock states
        (C08_blocks_sum_eq_full, C08_selected_blocks_sum_eq_full, C08_stripes_sum_eq_full).
    MISSING: (a) the block-wise sums of pomerol are over eigenstates of each block; that the full-space
    Lehmann sums (PV.EDSpec.gf, susc, chi, trace_rho) do not depend on the eigenbasis chosen inside
    degenerate subspaces is standard linear algebra and is not formalised here; (b) the closed 4-chains of
    TwoParticleGF::prepare.  Both are decided numerically by the differential runs of checks/C08.py
    (default / ignored / custom partitions, compared with each other and with the full-space oracle).
    For partitions whose accepted operators do NOT shift uniformly the statement is false for the code as
    it is (Properties_C07.C07_single_target_refuted: G_00 of the Hubbard atom with candidate n_0 n_1). *)
Require Import Bool List Arith.
From PV Require Import Outcome Fock Poly PolySem AlgebraBasics Symm SymmProofs GFPart GFPartProofs PartitionInvariance.
Import ListNotations.

Theorem C08_prepare_bimap_wf : forall (K : Type) (kadd : K -> K -> K) (kopp : K -> K) (kzero : K -> bool)
  N (c : qclass K) (O : poly K) f,
  prepare K kadd kopp kzero N c O = Done f -> bimap_wf (fo_bimap f).
Proof. exact prepare_bimap_wf. Qed.

Theorem C08_gf_stripes_select : forall bmC bmCX, bimap_wf bmC -> bimap_wf bmCX ->
  let cl := left_view bmC in let cxr := map swap (right_view bmCX) in
  exists sel, stripes (stripes_fuel cl cxr) cl cxr = Some sel /\
    forall L R, In (L, R) sel <-> In (L, R) bmC /\ In (R, L) bmCX.
Proof. exact gf_stripes_select. Qed.

Section C08.
Variable K : Type.
Variables (k0 k1 : K) (kadd kmul ksub : K -> K -> K) (kopp : K -> K).
Variable kzero : K -> bool.
Local Notation RING := (ring_ok K k0 k1 kadd kmul ksub kopp kzero).
Local Notation in_range := (poly_in_range K).
Local Notation uniform_shift := (uniform_shift K k0 k1 kadd kmul kopp).
Local Notation sc_compute := (sc_compute K k0 kadd ksub kopp kzero).
Local Notation prepare := (prepare K kadd kopp kzero).
Local Notation ksum := (@ksum K k0 kadd _).

Theorem C08_gf_stripes_exact : RING -> k1 <> k0 -> forall N ops (c : qclass K),
  Forall (in_range N) ops -> Forall (uniform_shift N) ops -> sc_compute N ops = Done c ->
  forall i j, i < N -> j < N ->
  exists fC fCX sel,
    prepare N c (fop_poly K k1 (FC i)) = Done fC /\ prepare N c (fop_poly K k1 (FCdag j)) = Done fCX /\
    (let cl := left_view (fo_bimap fC) in let cxr := map swap (right_view (fo_bimap fCX)) in
     stripes (stripes_fuel cl cxr) cl cxr = Some sel) /\
    forall L R, In (L, R) sel <-> connects K N c (FC i) L R /\ connects K N c (FCdag j) R L.
Proof. exact (gf_stripes_exact K k0 k1 kadd kmul ksub kopp kzero). Qed.

Theorem C08_avg_stripes_complete : RING -> k1 <> k0 -> forall N ops (c : qclass K),
  Forall (in_range N) ops -> Forall (uniform_shift N) ops -> sc_compute N ops = Done c ->
  forall retained i j, i < N -> j < N ->
  exists fA, prepare N c (fop_poly K k1 (FQuad i j)) = Done fA /\
    forall L R, In (L, R) (avg_select retained (fo_bimap fA)) <->
                (L = R /\ retained L = true /\ connects K N c (FQuad i j) L L).
Proof. exact (avg_stripes_complete K k0 k1 kadd kmul ksub kopp kzero). Qed.

Theorem C08_blocks_sum_eq_full : RING -> forall N ops (c : qclass K),
  Forall (in_range N) ops -> sc_compute N ops = Done c ->
  forall g : nat -> K,
  ksum (seq 0 (Nat.pow 2 N)) g = ksum (seq 0 (numberOfBlocks c)) (fun b => ksum (nth b (sc_blocks c) []) g).
Proof. exact (blocks_sum_eq_full K k0 k1 kadd kmul ksub kopp kzero). Qed.

Theorem C08_selected_blocks_sum_eq_full : RING -> forall N ops (c : qclass K),
  Forall (in_range N) ops -> sc_compute N ops = Done c ->
  forall (g : nat -> K) (sel : list nat),
  NoDup sel -> (forall b, In b sel -> b < numberOfBlocks c) ->
  (forall s, s < Nat.pow 2 N -> ~ In (blk K c s) sel -> g s = k0) ->
  ksum (seq 0 (Nat.pow 2 N)) g = ksum sel (fun b => ksum (nth b (sc_blocks c) []) g).
Proof. exact (selected_blocks_sum_eq_full K k0 k1 kadd kmul ksub kopp kzero). Qed.

Theorem C08_stripes_sum_eq_full : RING -> forall N ops (c : qclass K),
  Forall (in_range N) ops -> sc_compute N ops = Done c ->
  forall (f : nat -> nat -> K) (sel : list (nat * nat)),
  NoDup sel -> (forall L R, In (L, R) sel -> L < numberOfBlocks c /\ R < numberOfBlocks c) ->
  (forall t s, t < Nat.pow 2 N -> s < Nat.pow 2 N -> ~ In (blk K c t, blk K c s) sel -> f t s = k0) ->
  ksum (seq 0 (Nat.pow 2 N)) (fun t => ksum (seq 0 (Nat.pow 2 N)) (fun s => f t s)) =
  ksum sel (fun LR => ksum (nth (fst LR) (sc_blocks c) []) (fun t => ksum (nth (snd LR) (sc_blocks c) []) (fun s => f t s))).
Proof. exact (stripes_sum_eq_full K k0 k1 kadd kmul ksub kopp kzero). Qed.
End C08.

Print Assumptions C08_prepare_bimap_wf.
Print Assumptions C08_gf_stripes_select.
Print Assumptions C08_gf_stripes_exact.
Print Assumptions C08_avg_stripes_complete.
Print Assumptions C08_blocks_sum_eq_full.
Print Assumptions C08_selected_blocks_sum_eq_full.
Print Assumptions C08_stripes_sum_eq_full.
