(** C17 -- memory safety of the modelled index logic. This file collects (re-states) the in-bounds theorems proved
    for the individual models; it grows as those land. Statements only. *)
Require Import ZArith.
From PV Require Import Outcome Matsubara4 Matsubara4Proofs.
Local Open Scope Z_scope.

(** precomputed vertex storage: fill and lookup never leave the allocated matrices (C15 model) *)
Theorem storage_fill_in_bounds : forall (T : Type) (src : Z * Z * Z -> T) (N : Z),
  0 <= N -> exists st, fill T src N = Done st.
Proof. exact Matsubara4Proofs.fill_in_bounds. Qed.
Print Assumptions storage_fill_in_bounds.
