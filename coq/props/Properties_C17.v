(** C17 -- No out-of-bounds access or undefined behaviour: the PROOF part.

    Statements only, each closed by [exact]; the proofs live in the PV files named in the [exact] terms.  Every routine
    of the library that computes an index and then reads or writes through it, and that has an executable model in PV,
    is modelled with bounds-checked accesses: a read or write outside the object is the outcome [OOB] ([WOOB]/[WPastEnd]
    for the sparse iterators), a read of a cell never written is [Uninit], exhausted loop fuel is [OutOfFuel].  The
    theorems say that for EVERY well-formed input the routine returns [Done]/[WDone] (or a C++ exception, [Throws]) --
    i.e. none of the failure outcomes.

    Three kinds of statements:
    - [source_*]: about the model instantiated with the switches that translator/gen_c17.py reads off the C++ on every
      run (PVgen.Gen_C17).  No hypothesis about the switches: the proofs only typecheck while the generated values are
      [true].  Dropping a guard from the C++ turns the generated value into [false], this file stops compiling, and
      checks/C17.py searches for a concrete failing input with the sanitizer runs.
    - model-level theorems ([fixed = true] / any [fb]) and the [*_refuted] / [*_oob] witnesses for the UNguarded variants:
      they show that each guard is necessary (the bad outcome is reachable without it).
    - re-statements of in-bounds theorems proved for other properties (C02, C03, C05, C10, C13, C15, C18, C20), collected
      here so that the evidence of C17 lists everything the memory-safety claim rests on.

    What no theorem here covers: Eigen, Boost and MPI internals, object lifetimes (use after free, double delete),
    uninitialised reads outside the modelled tables, the complex-number arithmetic, data races.  That part is TESTING
    (ASan + UBSan + Valgrind runs of checks/C17.py) and is labelled so in the evidence. *)
Require Import Bool List Arith ZArith.
From PV Require Import Outcome EDSpec Sparse SparseProofs HPart HPartProofs Poly PolySem Bounds BoundsProofs.
Require PV.GFPart PV.GFPartProofs PV.SuscPart PV.SuscPartProofs PV.Chi PV.ChiProofs PV.Index PV.IndexProofs
        PV.Matsubara4 PV.Matsubara4Proofs PV.Container4 PV.Container4Spec PV.Container4Proofs PV.Lattice PV.LatticeProofs
        PV.NormalizeProofs PV.AlgebraBasics PV.AlgebraProofs PVgen.Gen_Container4 PVgen.Gen_C17.
Import ListNotations.

(** * A. Index-chasing loops over sparse inner iterators *)

(** GreensFunctionPart::compute (GreensFunctionPart.cpp:51-80), the loop nest over all outer indices, AS THE SOURCE HAS IT:
    for all well-formed compressed matrices no read past the end of an inner vector, none outside the arrays, no fuel
    exhaustion, and the visited pairs are exactly the specified ones.  ([lenient] chooses strict/hardware reading of a
    past-end read; the statement holds for both.) *)
Theorem source_gf_walk_in_bounds :
  forall (VA VB : Type) (a : cs VA) (b : cs VB), cs_wf a -> cs_wf b -> cs_outer a <= cs_outer b ->
  forall lenient : bool, gf_part_walk_source lenient a b = WDone (matches_part a b).
Proof. exact BoundsProofs.source_gf_walk_in_bounds. Qed.
Print Assumptions source_gf_walk_in_bounds.

(** GreensFunctionPart::compute including the reads of weights and eigenvalues at the visited indices *)
Theorem source_gf_compute_in_bounds :
  forall (K : Type) (NO : numops K) (lenient : bool) (T : GFPart.tols K) (inp : GFPart.part_in K), GFPartProofs.part_wf K inp ->
  exists o, gf_part_compute_source K NO lenient T inp = WDone o.
Proof. exact BoundsProofs.source_gf_compute_in_bounds. Qed.
Print Assumptions source_gf_compute_in_bounds.

(** SusceptibilityPart::compute (SusceptibilityPart.cpp:53-88) as the source has it *)
Theorem source_susc_walk_in_bounds :
  forall (VA VB : Type) (a : cs VA) (b : cs VB), cs_wf a -> cs_wf b -> cs_outer a <= cs_outer b ->
  forall lenient : bool, susc_part_walk_source lenient a b = WDone (matches_part a b).
Proof. exact BoundsProofs.source_susc_walk_in_bounds. Qed.
Print Assumptions source_susc_walk_in_bounds.

Theorem source_susc_compute_in_bounds :
  forall (K : Type) (NO : numops K) (lenient : bool) (T : GFPart.tols K) (inp : GFPart.part_in K), GFPartProofs.part_wf K inp ->
  exists o, susc_part_compute_source K NO lenient T inp = WDone o.
Proof. exact BoundsProofs.source_susc_compute_in_bounds. Qed.
Print Assumptions source_susc_compute_in_bounds.

(** chaseIndices (TwoParticleGFPart.cpp:6-20) as the source has it, called as TwoParticleGFPart::compute calls it
    (both iterators valid) ... *)
Theorem source_chaseIndices_in_bounds :
  forall (VA VB : Type) (a : cs VA) (b : cs VB), cs_wf a -> cs_wf b ->
  forall (lenient : bool) (oa ob p q : nat), oa < cs_outer a -> ob < cs_outer b ->
  ptr_at a oa <= p < ptr_at a (S oa) -> ptr_at b ob <= q < ptr_at b (S ob) ->
  exists r, chaseIndices_source lenient a (ptr_at a (S oa)) b (ptr_at b (S ob)) p q = WDone r.
Proof. exact BoundsProofs.source_chaseIndices_in_bounds. Qed.
Print Assumptions source_chaseIndices_in_bounds.

(** ... and the Index4List loop of TwoParticleGFPart::compute around it (TwoParticleGFPart.cpp:119-125) *)
Theorem source_chase_walk2_in_bounds :
  forall (VA VB : Type) (a : cs VA) (b : cs VB), cs_wf a -> cs_wf b ->
  forall (lenient : bool) (oa ob : nat), oa < cs_outer a -> ob < cs_outer b ->
  chase_walk2_source lenient a oa b ob = WDone (matches_outer2 a b oa ob).
Proof. exact BoundsProofs.source_chase_walk2_in_bounds. Qed.
Print Assumptions source_chase_walk2_in_bounds.

(** model level: the guarded loops ([fixed = true]) are in bounds for every outer index ... *)
Theorem gf_chase_in_bounds :
  forall (VA VB : Type) (a : cs VA) (b : cs VB), cs_wf a -> cs_wf b ->
  forall (lenient : bool) (o : nat), o < cs_outer a -> o < cs_outer b ->
  walk_outer true lenient a b o = WDone (matches_outer a b o).
Proof. exact @SparseProofs.gf_chase_in_bounds. Qed.
Print Assumptions gf_chase_in_bounds.

Theorem chaseIndices_in_bounds :
  forall (VA VB : Type) (a : cs VA) (b : cs VB), cs_wf a -> cs_wf b ->
  forall (lenient : bool) (oa ob p q : nat), oa < cs_outer a -> ob < cs_outer b ->
  ptr_at a oa <= p < ptr_at a (S oa) -> ptr_at b ob <= q < ptr_at b (S ob) ->
  exists r, chaseIndices true lenient a (ptr_at a (S oa)) b (ptr_at b (S ob)) p q = WDone r.
Proof. exact @SparseProofs.chaseIndices_in_bounds. Qed.
Print Assumptions chaseIndices_in_bounds.

(** ... and the guard is necessary: WITHOUT the iterator test ([fixed = false]) there are well-formed matrices on which the
    chase reads innerIndexPtr[nnz] (outside the array), or an entry of the next row/column.  checks/C17.py replays the
    corresponding library input (off-diagonal components in a single block) under AddressSanitizer when a guard is gone. *)
Theorem gf_chase_unguarded_oob :
  exists (a b : cs nat) (o : nat), cs_wf a /\ cs_wf b /\ o < cs_outer a /\ o < cs_outer b /\
    walk_outer false false a b o = WOOB SideB 1.
Proof. exact SparseProofs.gf_chase_in_bounds_refuted. Qed.
Print Assumptions gf_chase_unguarded_oob.

Theorem gf_chase_unguarded_past_end :
  exists (a b : cs nat) (o : nat), cs_wf a /\ cs_wf b /\ o < cs_outer a /\ o < cs_outer b /\
    walk_outer false false a b o = WPastEnd SideB 1 /\
    walk_outer false true a b o = WDone [] /\ walk_outer true false a b o = WDone [].
Proof. exact SparseProofs.gf_chase_past_end_refuted. Qed.
Print Assumptions gf_chase_unguarded_past_end.

Theorem chaseIndices_unguarded_oob :
  exists (a b : cs nat) (p q : nat), cs_wf a /\ cs_wf b /\
    ptr_at a 0 <= p < ptr_at a 1 /\ ptr_at b 0 <= q < ptr_at b 1 /\
    chaseIndices false false a (ptr_at a 1) b (ptr_at b 1) p q = WOOB SideB 1.
Proof. exact SparseProofs.chaseIndices_refuted. Qed.
Print Assumptions chaseIndices_unguarded_oob.

(** the unguarded loops are a memory-safety defect only: a run that returns, returns what the guarded loops return *)
Theorem gf_unguarded_agrees_when_it_returns :
  forall (VA VB : Type) (a : cs VA) (b : cs VB), cs_wf a -> cs_wf b ->
  forall (lenient lenient' : bool) (o : nat) (l : list (nat * nat)), o < cs_outer a -> o < cs_outer b ->
  walk_outer false lenient a b o = WDone l -> walk_outer true lenient' a b o = WDone l.
Proof. exact @SparseProofs.gf_fixed_agrees. Qed.
Print Assumptions gf_unguarded_agrees_when_it_returns.

Theorem gf_pastend_harmless :
  forall (VA VB : Type) (a : cs VA) (b : cs VB), cs_wf a -> cs_wf b ->
  forall o : nat, o < cs_outer a -> o < cs_outer b ->
  walk_outer false true a b o = WDone (matches_outer a b o) \/ exists s p, walk_outer false true a b o = WOOB s p.
Proof. exact @SparseProofs.gf_pastend_harmless. Qed.
Print Assumptions gf_pastend_harmless.

(** TwoParticleGFPart::compute (C02's model, four nested sparse walks): total for ANY value [g] read by index() on an
    exhausted iterator *)
Theorem tpgf_part_compute_total :
  forall (K : Type) (NO : numops K) (g : nat) (tl : Chi.tols K) (p : Chi.part_in K),
  exists st, Chi.part_compute K NO g tl p = Done st /\ Chi.ps_computed K st = true.
Proof. exact ChiProofs.part_compute_total. Qed.
Print Assumptions tpgf_part_compute_total.

(** * B. TwoParticleGF::compute: the table handed to the MPI reduction (TwoParticleGF.cpp:153-189) *)

(** as the source has it: for every frequency list, INCLUDING THE EMPTY ONE, and every part list, compute() returns
    normally with one table entry per frequency (m_data[i] for i < freqs.size() exists; &m_data[0] is not formed for an
    empty table) *)
Theorem source_tpgf_compute_in_bounds :
  forall (K : Type) (NO : numops K) (g : nat) (tl : Chi.tols K) (clear : bool) (ps : list (Chi.part_in K)) (freqs : list (K * K * K)),
  exists table s', tpgf_compute_source K NO g tl clear freqs (Chi.gf_prepared K ps) = Done (table, s') /\ length table = length freqs.
Proof. exact BoundsProofs.source_tpgf_compute_in_bounds. Qed.
Print Assumptions source_tpgf_compute_in_bounds.

(** compute() before prepare() is reported by exStatusMismatch, a second compute() returns an empty table: no storage touched *)
Theorem tpgf_compute_status_checked :
  forall (K : Type) (NO : numops K) (sf gr : bool) (g : nat) (tl : Chi.tols K) (clear : bool) (freqs : list (K * K * K)) (s : Chi.gf_st K),
  (Chi.g_status K s = Chi.Constructed -> Chi.gf_compute_gen K NO sf gr g tl clear freqs s = Throws 2) /\
  (Chi.g_status K s = Chi.Computed -> Chi.gf_compute_gen K NO sf gr g tl clear freqs s = Done ([], s)).
Proof. exact BoundsProofs.tpgf_compute_status_checked. Qed.
Print Assumptions tpgf_compute_status_checked.

(** the guard is necessary: without it an empty frequency list reaches &m_data[0] of an empty vector *)
Theorem tpgf_empty_freqs_unguarded_undefined :
  exists (ps : list (Chi.part_in Z)) (clear : bool),
    ps <> [] /\ Chi.gf_compute_gen Z ChiProofs.Zops false false 0 ChiProofs.Ztols clear [] (Chi.gf_prepared Z ps) = OOB.
Proof. exact ChiProofs.table_empty_freqs_undefined. Qed.
Print Assumptions tpgf_empty_freqs_unguarded_undefined.

(** * C. Bounds checks on state labels (StatesClassification.cpp:64-96, Hamiltonian.cpp:125-129, DensityMatrix.cpp:43-50) *)

(** as the source has it: every label >= 2^N (in particular 2^N itself) is rejected by exWrongState before any table is read *)
Theorem source_state_label_checked :
  forall (K : Type) (S : classification) (parts : list (hpart K)) (weights : list (list K)) (q : nat),
  state_size S <= q ->
  getBlockNumber_source S q = Throws ex_wrong_state /\
  getInnerState_source S q = Throws ex_wrong_state /\
  getEigenValue_source K S parts q = Throws ex_wrong_state /\
  dm_getWeight_source K S weights q = Throws ex_wrong_state.
Proof. exact BoundsProofs.source_state_label_checked. Qed.
Print Assumptions source_state_label_checked.

(** ... and for EVERY label Hamiltonian::getEigenValue and DensityMatrix::getWeight return a stored value or throw *)
Theorem source_label_lookups_never_oob :
  forall (K : Type) (S : classification) (parts : list (hpart K)) (weights : list (list K)) (q : nat),
  wf_class S -> covers S -> shaped (sc_states S) (map fst parts) -> shaped (sc_states S) weights ->
  ((exists e, getEigenValue_source K S parts q = Done e) \/ getEigenValue_source K S parts q = Throws ex_wrong_state) /\
  ((exists w, dm_getWeight_source K S weights q = Done w) \/ dm_getWeight_source K S weights q = Throws ex_wrong_state).
Proof. exact BoundsProofs.source_label_lookups_never_oob. Qed.
Print Assumptions source_label_lookups_never_oob.

(** model level, either form of the test: labels below 2^N are looked up inside the tables *)
Theorem hamiltonian_getEigenValue_in_bounds :
  forall (K : Type) (fb : bool) (S : classification) (parts : list (hpart K)) (q : nat),
  wf_class S -> covers S -> shaped (sc_states S) (map fst parts) -> q < state_size S ->
  exists e, getEigenValue fb K S parts q = Done e.
Proof. exact BoundsProofs.getEigenValue_in_bounds. Qed.
Print Assumptions hamiltonian_getEigenValue_in_bounds.

Theorem densitymatrix_getWeight_in_bounds :
  forall (K : Type) (fb : bool) (S : classification) (weights : list (list K)) (q : nat),
  wf_class S -> covers S -> shaped (sc_states S) weights -> q < state_size S ->
  exists w, dm_getWeight fb K S weights q = Done w.
Proof. exact BoundsProofs.dm_getWeight_in_bounds. Qed.
Print Assumptions densitymatrix_getWeight_in_bounds.

(** the `>=` is necessary: with `> StateSize` the label 2^N reads StateBlockIndex[2^N] *)
Theorem state_label_gt_test_oob :
  exists (S : classification) (parts : list (hpart BinNums.Z)) (q : nat),
    wf_class S /\ state_size S <= q /\
    getBlockNumber false S q = OOB /\ getEigenValue false BinNums.Z S parts q = OOB.
Proof. exact HPartProofs.label_bound_refuted. Qed.
Print Assumptions state_label_gt_test_oob.

(** Hamiltonian::getEigenValues (Hamiltonian.cpp:131-141): the copy loop fills exactly the StateSize cells *)
Theorem hamiltonian_getEigenValues_in_bounds :
  forall (K : Type) (S : classification) (parts : list (hpart K)),
  length (concat (map fst parts)) = state_size S ->
  getEigenValues K S parts = Done (concat (map fst parts)).
Proof. exact HPartProofs.getEigenValues_is_concat. Qed.
Print Assumptions hamiltonian_getEigenValues_in_bounds.

(** * D. Operator algebra (Operator.h / Operator.cpp) *)

(** operator==(Operator, Operator) as the source has it never reads past the end of an operand or of a monomial *)
Theorem source_operator_eq_total :
  forall (K : Type) (ksub : K -> K -> K) (kzero : K -> bool) (a b : poly K),
  exists r, operator_eq_source K ksub kzero a b = Done r.
Proof. exact BoundsProofs.source_operator_eq_total. Qed.
Print Assumptions source_operator_eq_total.

(** both size comparisons are necessary *)
Theorem operator_eq_prefix_oob :
  exists a b : poly Z, poly_eq Z Z.sub (fun c => Z.eqb c 0) false a b = OOB.
Proof. exact AlgebraBasics.eq_prefix_oob. Qed.
Print Assumptions operator_eq_prefix_oob.

Theorem operator_eq_unsized_maps_oob :
  exists a b : poly nat, operator_eq nat Nat.sub (fun c => Nat.eqb c 0) false true a b = OOB.
Proof. exact BoundsProofs.operator_eq_unsized_maps_oob. Qed.
Print Assumptions operator_eq_unsized_maps_oob.

(** Operator::normalize_and_insert (bubble sort with recursive contraction) terminates inside its monomial for any input *)
Theorem operator_normalize_total :
  forall (K : Type) (kadd : K -> K -> K) (kopp : K -> K) (kzero : K -> bool) (m : monomial) (c : K) (tgt : poly K),
  exists tgt', normalize K kadd kopp kzero m c tgt = Done tgt'.
Proof. exact NormalizeProofs.normalize_total. Qed.
Print Assumptions operator_normalize_total.

(** Operator::operator* *)
Theorem operator_product_total :
  forall (K : Type) (kadd kmul : K -> K -> K) (kopp : K -> K) (kzero : K -> bool) (a b : poly K),
  exists ab, pmul K kadd kmul kopp kzero a b = Done ab.
Proof. exact AlgebraProofs.pmul_total. Qed.
Print Assumptions operator_product_total.

(** * E. IndexClassification::prepare / getInfo (IndexClassification.cpp:35-73, 111-116) *)

(** as the source has it, BOTH ordering modes, any number of sites/orbitals/spins (zero and mixed spin counts included), labels
    distinct: every write IndicesToInfo[currentIndex] is inside the resized vector, every pointer dereferenced by the second
    loop was written (no null IndexInfo pointer), getInfo returns an entry for i < IndexSize and throws for i >= IndexSize *)
Theorem source_index_prepare_in_bounds :
  forall (order_spins : bool) (ss : list Index.site), NoDup (Index.labels ss) ->
  exists t, index_prepare_source order_spins ss = Done t /\
    (forall i, i < Index.IndexSize t -> exists x, Index.getInfo t i = Done x /\ Index.valid ss x) /\
    (forall i, Index.IndexSize t <= i -> Index.getInfo t i = Throws Index.exWrongIndex).
Proof. exact BoundsProofs.source_index_prepare_in_bounds. Qed.
Print Assumptions source_index_prepare_in_bounds.

(** model level: either variant of the spin-major loop, under the condition that makes the `break` variant harmless *)
Theorem index_prepare_total :
  forall (fixed order_spins : bool) (ss : list Index.site),
  NoDup (Index.labels ss) -> Index.harmless fixed order_spins ss ->
  exists t, Index.prepare fixed order_spins ss = Done t.
Proof. exact IndexProofs.prepare_total. Qed.
Print Assumptions index_prepare_total.

(** * F. Precomputed vertex storage, MatsubaraContainer4::fill / operator() (MatsubaraContainers.h; arithmetic regenerated
    from the C++ into PVgen.Gen_Matsubara4 on every run) *)
Theorem storage_fill_in_bounds : forall (T : Type) (src : Z * Z * Z -> T) (N : Z),
  (0 <= N)%Z -> exists st, Matsubara4.fill T src N = Done st.
Proof. exact Matsubara4Proofs.fill_in_bounds. Qed.
Print Assumptions storage_fill_in_bounds.

(** a second fill of the same object (any previous contents) *)
Theorem storage_refill_in_bounds : forall (T : Type) (src : Z * Z * Z -> T) (st0 : Matsubara4.storage T) (N : Z),
  (0 <= N)%Z -> exists st, Matsubara4.fill_from T src st0 N = Done st.
Proof. exact Matsubara4Proofs.fill_from_in_bounds. Qed.
Print Assumptions storage_refill_in_bounds.

(** lookup at ANY three Matsubara numbers: inside the stored matrices when in the window, the fallback otherwise *)
Theorem storage_lookup_in_bounds : forall (T : Type) (src src' : Z * Z * Z -> T) (N : Z) st (n1 n2 n3 : Z),
  (0 <= N)%Z -> Matsubara4.fill T src N = Done st ->
  Matsubara4.lookup T src' st N n1 n2 n3 =
  Done (if Matsubara4Spec.in_window N n1 n2 n3 then src (n1, n2, n3) else src' (n1, n2, n3)).
Proof. exact Matsubara4Proofs.storage_window. Qed.
Print Assumptions storage_lookup_in_bounds.

Theorem storage_refill_lookup_in_bounds :
  forall (T : Type) (src src' : Z * Z * Z -> T) (st0 : Matsubara4.storage T) (N : Z) st (n1 n2 n3 : Z),
  (0 <= N)%Z -> Matsubara4.fill_from T src st0 N = Done st ->
  Matsubara4.lookup T src' st N n1 n2 n3 =
  Done (if Matsubara4Spec.in_window N n1 n2 n3 then src (n1, n2, n3) else src' (n1, n2, n3)).
Proof. exact Matsubara4Proofs.refill_window. Qed.
Print Assumptions storage_refill_lookup_in_bounds.

(** * G. TwoParticleGFContainer / IndexContainer4 (permutation and frequency tables regenerated into PVgen.Gen_Container4) *)
Theorem container4_table_reads_in_bounds :
  (Gen_Container4.set_owner_perm_index < length Gen_Container4.permutations4)%nat /\
  Forall (fun a => (snd a < length Gen_Container4.permutations4)%nat) Gen_Container4.set_aliases /\
  (forall n1 n2 n3, length (Gen_Container4.freq_array n1 n2 n3) = 4%nat) /\
  Forall (fun k => (k < 4)%nat) Gen_Container4.eval_arg_slots /\ length Gen_Container4.eval_arg_slots = 3%nat.
Proof. exact Container4Proofs.table_reads_in_bounds. Qed.
Print Assumptions container4_table_reads_in_bounds.

(** no history of container calls makes an element wrapper refer to a component that was never created *)
Theorem container4_no_dangling :
  forall (fixed : bool) (van : Container4.quad -> bool) (nidx : nat) (ops : list Container4.cop) (op : Container4.cop),
  snd (Container4.cstep fixed van nidx (fst (Container4Spec.run fixed van nidx ops)) op) <> Container4.OThrows Container4.Dangling.
Proof. exact Container4Proofs.no_dangling. Qed.
Print Assumptions container4_no_dangling.

(** * H. Lattice (Lattice.cpp, LatticePresets.cpp) *)
(** any operation of the lattice interface with well-formed arguments, getSite as the source has it: never OOB
    (in particular getSite of an unknown label throws instead of dereferencing end()) *)
Theorem source_lattice_no_oob :
  forall (L : Type) (leqb : L -> L -> bool) (V : Type) (vo : Lattice.vops V) (o : Lattice.op L V) (st : Lattice.state L V),
  LatticeProofs.op_wf L V o -> snd (Lattice.step L leqb V vo (lattice_cfg_source true) o st) <> OOB.
Proof. exact BoundsProofs.source_lattice_no_oob. Qed.
Print Assumptions source_lattice_no_oob.

(** * I. HamiltonianPart::prepare and FieldOperatorPart::compute (given a sound partition, C07) *)
Theorem hamiltonianpart_prepare_in_bounds :
  forall (fb : bool) (K : Type) (NO : numops K) (eps : K),
  (forall x, nadd K NO (n0 K NO) x = x) -> (forall x, nadd K NO x (n0 K NO) = x) ->
  (forall x, is_zero K NO eps x = true <-> x = n0 K NO) ->
  forall (S : classification) (p : poly K) (b : nat) (states : list nat),
  wf_class S -> poly_in_range K (sc_M S) p -> nth_error (sc_states S) b = Some states ->
  respects K NO (sc_M S) p states ->
  exists m, hpart_prepare fb K NO eps S p b = Done m.
Proof. exact BoundsProofs.hamiltonianpart_prepare_in_bounds. Qed.
Print Assumptions hamiltonianpart_prepare_in_bounds.

Theorem fieldoperatorpart_compute_in_bounds :
  forall (fb : bool) (K : Type) (NO : numops K) (eps : K),
  nre_ltb K NO (nabs K NO (n1 K NO)) eps = false ->
  nre_ltb K NO (nabs K NO (nopp K NO (n1 K NO))) eps = false ->
  nre_ltb K NO eps (nabs K NO (n1 K NO)) = true ->
  nre_ltb K NO eps (nabs K NO (nopp K NO (n1 K NO))) = true ->
  forall (S : classification) (o : fop) (from to : nat) (fromStates toStates : list nat) (Hfrom Hto : mat K),
  wf_class S -> mono_in_range (sc_M S) (fop_mono o) ->
  nth_error (sc_states S) from = Some fromStates -> nth_error (sc_states S) to = Some toStates ->
  square K (length fromStates) Hfrom -> square K (length toStates) Hto ->
  (forall Kst L sg, In Kst fromStates -> tgt_of K NO (sc_M S) o Kst = Some (L, sg) -> In L toStates) ->
  exists Lc Rr, fop_fill fb K NO eps S o Hfrom Hto (length toStates) (length fromStates) fromStates = Done (Lc, Rr).
Proof. exact BoundsProofs.fieldoperatorpart_compute_in_bounds. Qed.
Print Assumptions fieldoperatorpart_compute_in_bounds.
