(** Properties_C01_copy.v -- a copy of a GreensFunction is the GreensFunction it was copied from (C01, C11).

    The statements are about the copy constructor of THIS tree: translator/gen_copy.py reads its member initialisers and its body
    off src/pomerol/GreensFunction.cpp on every run (coq/gen/Gen_CopyGF.v); PV.CopyShapes says what such a constructor does to the state of the
    new object.  Every clause of the property is about "the GreensFunction", whichever object of the program holds it: a copy that
    lost its Status would run prepare() again on top of the copied parts (seeded C01-8 / C11-8), one that lost a member would
    evaluate differently (seeded C14-7, C09-7).  The run side compares copies with their originals on every scenario
    (harness/h_ed.cpp: GCOPY, GCOPYRUN, GCOPY0).  A constructor that leaves the recognised shape (a delegating constructor, assignments in
    the body) is untranslatable: the snapshot is used and only the runs judge it. *)
Require Import List String.
From PV Require Import CopyShapes CopyGenProofsGF.
From PVgen Require Import Gen_CopyGF.
Import ListNotations.
Local Open Scope string_scope.

(** every field an evaluation reads has, in the copy, the value it has in the source -- for any type of values and whatever a
    freshly constructed object holds *)
Theorem source_gf_copy_preserves_state :
  forall (V : Type) (fresh : string -> V) (src : string -> V) (f : string),
  In f ["beta"; "Status"; "S"; "H"; "C"; "CX"; "DM"; "Vanishing"] ->
  copy_field V fresh src gen_copy_gf_inits f = src f.
Proof. exact CopyGenProofsGF.gen_copy_gf_preserves. Qed.
Print Assumptions source_gf_copy_preserves_state.

(** the parts of the copy are copies of the parts of the source, one for one and in the same order *)
Theorem source_gf_copy_deep_copies_parts : forall (P : Type) (l : list P), parts_after_copy gen_copy_gf_body l = Some l.
Proof. exact CopyGenProofsGF.gen_copy_gf_parts. Qed.
Print Assumptions source_gf_copy_deep_copies_parts.

(** what the statement excludes (non-vacuity of the notion): default-constructing the ComputableObject base loses the Status,
    forgetting a member loses it *)
Theorem copy_default_base_loses_status :
  ~ preserves nat (fun _ => 0)
      [InitBaseFromField "Thermal" "beta"; InitDefault "ComputableObject"; InitMember "S" "S"] ["beta"; "Status"; "S"].
Proof. exact CopyShapes.default_base_loses_status. Qed.
Print Assumptions copy_default_base_loses_status.

Theorem copy_dropped_member_is_lost :
  ~ preserves nat (fun _ => 0) [InitBaseFromWhole "ComputableObject"; InitMember "A" "A"] ["Status"; "A"; "result"].
Proof. exact CopyShapes.dropped_member_is_lost. Qed.
Print Assumptions copy_dropped_member_is_lost.
