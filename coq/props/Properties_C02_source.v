(** C02 about the SOURCE TEXT -- statements of Properties_C02.v once more, about the definitions of PV.LehmannGenChi, which are
    interpreters (PV.LehmannInterp, and the slice-walk interpreter of PV.LehmannGenChi) run on the descriptions that
    translator/gen_lehmann.py reads off the C++ on every run:

      PVgen.Gen_LehChaseIndices      chaseIndices, statement by statement
      PVgen.Gen_LehTPGFPartCompute   TwoParticleGFPart::compute: the double loop over index1 / index3, the two while loops with
                                     chaseIndices, the index list, the guard on its emptiness, the loop over it; the innermost
                                     body: which eigenvalue / weight / matrix element is read at which index, the weight guard,
                                     the sign, the argument order of addMultiterm
      PVgen.Gen_LehAddMultiterm      addMultiterm: which term is created under which guard, with which arguments and flag
      PVgen.Gen_LehTPGFTermPlus      NonResonantTerm::operator+=, ResonantTerm::operator+= (integer vs real arithmetic kept apart)
      PVgen.Gen_LehAddTerm / Gen_LehTermListEval    TermList::add_term, TermList::operator()
      PVgen.Gen_LehTPGFPartEval      TwoParticleGFPart::operator()(z1,z2,z3): the frequency permutation, the Status test, the
                                     arguments handed to NonResonantTerms / ResonantTerms (the tolerance!)
      PVgen.Gen_LehTPGFEval          TwoParticleGF::operator(): Vanishing test, sum over parts, odd Matsubara frequencies
      PVgen.Gen_LehTPGFCompute       TwoParticleGF::compute + ComputeAndClearWrap::run: status tests, table sizing, fill loop,
                                     guarded reduction, broadcasts of the terms from the rank that computed the part, marks

    Statements only; proofs in PV.LehmannInterpProofs and PV.LehmannGenProofsChi.  This file stops compiling when chaseIndices
    steps over the common state, when the tolerance argument of ResonantTerms is dropped, when operator+= divides integers, when
    a broadcast root, a guard, a loop bound or the order of the statements changes -- whether or not a numeric run notices.

    [..._src] : PV.LehmannGenChi. *)
Require Import Bool List Arith ZArith QArith.
From PV Require Import Outcome EDSpec Chi ChiProofs LehmannShapes LehmannInterp LehmannInterpProofs LehmannGenChi LehmannGenProofsChi.
From PVgen Require Import Gen_C01 Gen_Multiterm Gen_LehAddTerm Gen_LehTermListEval Gen_LehChaseIndices Gen_LehTPGFPartCompute
     Gen_LehAddMultiterm Gen_LehTPGFTermPlus Gen_LehTPGFPartEval Gen_LehTPGFEval Gen_LehTPGFCompute.
Import ListNotations.
Local Open Scope nat_scope.

(** * 1. the descriptions generated from this tree are the ones PV.Chi follows *)
(** TermList::add_term is the retry loop, and PVgen.Gen_Multiterm's shape flag says so too *)
Theorem source_add_term_is_model : gen_add_term = model_add_term /\ add_term_retries = true.
Proof. exact LehmannGenProofsChi.gen_add_term_is_retry. Qed.
Print Assumptions source_add_term_is_model.

(** chaseIndices: read both indices; equal: return true; else advance the lagging iterator while it is valid and its index is
    smaller (the order of the two tests as PVgen.Gen_C01.chaseIndices_guarded reads it); return false *)
Theorem source_chase_indices_is_model : gen_chase_indices = model_chase_indices chaseIndices_guarded.
Proof. exact LehmannGenProofsChi.gen_chase_indices_is_model. Qed.
Print Assumptions source_chase_indices_is_model.

(** TwoParticleGFPart::compute: the loop nest and the innermost body *)
Theorem source_tp_compute_is_model :
  gen_tp_nest = model_tp_nest /\ forall (K : Type) (NO : numops K), gen_tp_inner K NO = model_tp_inner K NO.
Proof. exact (conj LehmannGenProofsChi.gen_tp_nest_is_model LehmannGenProofsChi.gen_tp_inner_is_model). Qed.
Print Assumptions source_tp_compute_is_model.

(** addMultiterm read as a statement list hands over exactly the entries of PVgen.Gen_Multiterm.addMultiterm whose guard holds *)
Theorem source_addmultiterm_is_model :
  forall (K : Type) (NO : numops K) (tol Coeff beta Ei Ej Ek El Wi Wj Wk Wl : K),
  map (temit_emission K) (addmultiterm_by K (n0 K NO) (gen_addmultiterm K NO) tol [Coeff; beta; Ei; Ej; Ek; El; Wi; Wj; Wk; Wl]) =
  map snd (filter fst (addMultiterm K (nadd K NO) (nsub K NO) (nmul K NO) (ndiv K NO) (nopp K NO) (abs_gt K NO) (abs_lt K NO) (real_ge K NO)
                                    tol Coeff beta Ei Ej Ek El Wi Wj Wk Wl)).
Proof. exact LehmannGenProofsChi.gen_addmultiterm_is_model. Qed.
Print Assumptions source_addmultiterm_is_model.

(** operator+= of both term types: weighted mean of the poles in real arithmetic, weights and coefficients add *)
Theorem source_term_plus_is_model :
  forall (K : Type) (NO : numops K),
  nr_plus_src K NO = nr_plus K NO /\ r_plus_src K NO = r_plus K NO /\
  gen_nr_plus_range = (0, CmpLt, 3) /\ gen_r_plus_range = (0, CmpLt, 3).
Proof. exact LehmannGenProofsChi.gen_term_plus_is_model. Qed.
Print Assumptions source_term_plus_is_model.

(** the call operators.  The statement list of TwoParticleGF::operator()(z1,z2,z3) is tied up to [LehmannGenEquiv.vequiv] (same
    value returned by the interpreter value_by for every state of the object; until this statement asked for the very same list --
    [source_gf_value_is_model] below uses the list only through value_by and is unchanged) *)
Theorem source_tp_eval_is_model :
  forall (K : Type) (NO : numops K),
  gen_tp_eval K NO =
  mk_tp_eval (fun z1 z2 z3 => part_frequencies K (nadd K NO) (nsub K NO) (nmul K NO) (ndiv K NO) (nopp K NO) (abs_gt K NO) (abs_lt K NO) (real_ge K NO) z1 z2 z3)
             (part_perm_slots K (nadd K NO) (nsub K NO) (nmul K NO) (ndiv K NO) (nopp K NO) (abs_gt K NO) (abs_lt K NO) (real_ge K NO)) true
             [PaArg 0; PaArg 1; PaArg 2] [PaArg 0; PaArg 1; PaArg 2; PaReduceResonanceTolerance] AccPlus /\
  LehmannGenEquiv.vequiv (gen_tpgf_value K NO) [VsIf VcVanishing [VsReturnZero] [VsInit; VsForParts AccPlus; VsReturnValue]] /\
  (forall n1 n2 n3 : Z, gen_tpgf_matsubara n1 n2 n3 = (2 * n1 + 1, 2 * n2 + 1, 2 * n3 + 1)%Z) /\
  gen_termlist_eval = mk_tl_eval true true AccPlus true.
Proof.
  exact (fun K NO => conj (LehmannGenProofsChi.gen_tp_eval_is_model K NO)
                    (conj (proj1 (LehmannGenProofsChi.gen_tpgf_value_is_model K NO))
                    (conj (proj2 (LehmannGenProofsChi.gen_tpgf_value_is_model K NO)) eq_refl))).
Qed.
Print Assumptions source_tp_eval_is_model.

(** TwoParticleGF::compute / ComputeAndClearWrap::run *)
Theorem source_tpgf_compute_is_model :
  gen_tpgf_compute = mk_tpgf_compute true true compute_sizes_table_before_vanishing_test true compute_guards_empty_reduce 0 true
                                     [RootOwner; RootOwner] true /\
  gen_wrap_run = mk_wrap_run true true 0 CmpLt AccPlus [0; 1; 2] true.
Proof. exact LehmannGenProofsChi.gen_tpgf_compute_is_model. Qed.
Print Assumptions source_tpgf_compute_is_model.

(** * 2. the interpreted source functions are the functions of PV.Chi *)
Theorem add_term_src_is_model :
  forall (T : Type) (comp : T -> T -> bool) (plus : T -> T -> T) (negl : T -> nat -> bool) (t : T) (l : list T),
  add_term_by T comp plus negl gen_add_term t l = Chi.add_term T comp plus negl t l.
Proof. exact LehmannGenProofsChi.add_term_src_is_chi. Qed.
Print Assumptions add_term_src_is_model.

Theorem chase_src_is_model :
  forall (K : Type) (NO : numops K) (g : nat) (a b : slice K),
  chase_src K NO g a b = Some (snd (fst (chase K g a b)), snd (chase K g a b), fst (fst (chase K g a b))).
Proof. exact LehmannGenProofsChi.chase_src_is_chase. Qed.
Print Assumptions chase_src_is_model.

Theorem part_visits_src_is_model :
  forall (K : Type) (NO : numops K) (g : nat) (p : part_in K),
  omap (map (visit_of3 K)) (part_visits_src K NO g p) = part_visits K NO g p.
Proof. exact LehmannGenProofsChi.part_visits_src_is_model. Qed.
Print Assumptions part_visits_src_is_model.

Theorem part_compute_src_is_model :
  forall (K : Type) (NO : numops K) (g : nat) (tl : tols K) (p : part_in K),
  part_compute_src K NO g tl p = part_compute K NO g tl p.
Proof. exact LehmannGenProofsChi.part_compute_src_is_model. Qed.
Print Assumptions part_compute_src_is_model.

Theorem part_eval_src_is_model :
  forall (K : Type) (NO : numops K) (tl : tols K) (p : part_in K) (st : part_st K) (z1 z2 z3 : K),
  part_eval_src K NO tl p st z1 z2 z3 = part_eval K NO tl p st z1 z2 z3.
Proof. exact LehmannGenProofsChi.part_eval_src_is_model. Qed.
Print Assumptions part_eval_src_is_model.

Theorem gf_value_src_is_model :
  forall (K : Type) (NO : numops K) (tl : tols K) (s : gf_st K) (z1 z2 z3 : K),
  LehmannGenChi.gf_value_src K NO tl s z1 z2 z3 = Chi.gf_value K NO tl s z1 z2 z3.
Proof. exact LehmannGenProofsChi.gf_value_src_is_model. Qed.
Print Assumptions gf_value_src_is_model.

(** * 3. the theorems of Properties_C02.v about the source *)
(** the loop nest of the source visits every quadruple (index1,index2,index3,index4) with four stored matrix elements exactly once *)
Theorem chi_walk_complete_src :
  forall (K : Type) (NO : numops K) (g : nat) (p : part_in K), part_sorted K p ->
  exists vs, part_visits_src K NO g p = Done vs /\
    NoDup (map (quad K) (map (visit_of3 K) vs)) /\
    forall i1 i2 i3 i4,
      In (i1, i2, i3, i4) (map (quad K) (map (visit_of3 K) vs)) <->
      stored K (p_O1 K p) i1 i2 /\ stored K (p_O2 K p) i3 i2 /\ stored K (p_O3 K p) i3 i4 /\ stored K (p_CX4 K p) i1 i4.
Proof. exact LehmannGenProofsChi.chi_walk_complete_src. Qed.
Print Assumptions chi_walk_complete_src.

Theorem part_compute_total_src :
  forall (K : Type) (NO : numops K) (g : nat) (tl : tols K) (p : part_in K),
  exists st, part_compute_src K NO g tl p = Done st /\ ps_computed K st = true.
Proof. exact LehmannGenProofsChi.part_compute_total_src. Qed.
Print Assumptions part_compute_total_src.

(** table path = on-demand path: compute of the source returns one entry per frequency, entry w being what operator() of the source
    returns for freqs[w] on the non-purged object; for every list of parts (empty = vanishing), with and without purge *)
Theorem table_eq_on_demand_src :
  forall (K : Type) (NO : numops K) (g : nat) (tl : tols K) (clear : bool) (ps : list (part_in K)) (freqs : list (K * K * K)),
  exists table s' sx,
    gf_compute_src K NO g tl clear freqs (gf_prepared K ps) = Done (table, s') /\
    gf_compute_src K NO g tl false [] (gf_prepared K ps) = Done ([], sx) /\
    length table = length freqs /\
    forall w f, nth_error freqs w = Some f ->
      LehmannGenChi.gf_value_src K NO tl sx (fst (fst f)) (snd (fst f)) (snd f) = Done (nth w table (n0 K NO)).
Proof. exact LehmannGenProofsChi.table_eq_on_demand_src. Qed.
Print Assumptions table_eq_on_demand_src.
