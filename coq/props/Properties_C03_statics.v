(** Properties_C03_statics.v -- Hamiltonian, HamiltonianPart: every function of these files is free of static and namespace-scope variables.

    What Hamiltonian::prepare / compute / getEigenValue / getEigenValues / getGroundEnergy and HamiltonianPart::prepare / compute / the getters report depends on the object and the arguments only, not on what the process computed
    before or on other objects it holds (a second Hamiltonian, lattice, density matrix of the same size ...).  Statement about the
    list translator/gen_statics.py reads off the source on every run (coq/gen/Gen_StaticsHam.v).  Run side: several models / objects
    per process (C03 same-process stage, C07 / C08 histories, C14 and C20 call histories). *)
Require Import List String.
From PV Require Import StaticsProofsHam.
From PVgen Require Import Gen_StaticsHam.
Import ListNotations.
Local Open Scope string_scope.

Theorem source_ham_functions_hold_no_state : gen_statics_ham = [].
Proof. exact StaticsProofsHam.gen_statics_ham_is_expected. Qed.
Print Assumptions source_ham_functions_hold_no_state.
