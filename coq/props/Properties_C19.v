(** C19 -- Block truncation removes only contributions below the requested tolerance.
    Statements only; proofs are in PV.ThermalProofs (model: PV.Thermal; hypotheses shown satisfiable in
    PV.ThermalExamples).

    Proved here at full strength: the retain flag, the retained tests of all four prepare functions, eps = 0,
    and the linear-in-eps bounds for the single-particle Green's function (2 eps dim / |Im z|), for ensemble
    averages (eps dim max|A_nn|) and for the dynamical susceptibility on the imaginary axis (beta eps dim).
    Second half of this file (proofs in PV.TruncBoundsProofs, definitions in PV.TruncBounds): the bound for the
    two-particle Green's function at fermionic Matsubara triples, 6 F^2 beta^3 (4/pi^3 + 2/pi^2) eps with F the squared
    Frobenius norm of the operators (= dim^2 beta^3 eps/2 for F = dim/2), and the susceptibility bound once more at the
    level of the full-space specification EDSpec.susc (every imaginary z, resonant term included). *)
Require Import Reals List Arith Bool.
From Coquelicot Require Import Complex.
From PV Require Import Outcome Thermal ThermalSpec ThermalProofs ThermalExamples ThermalHot.
Import ListNotations.
Local Open Scope R_scope.

(** DensityMatrixPart::truncate: a block is discarded iff none of its states has weight above eps (and retained
    iff some state has); weights and partial sums are untouched. *)
Theorem truncate_flag : forall (eps : R) (dp : Rdmpart),
  (dp_retained R (Rtruncate eps dp) = false <-> forall w, In w (dp_weights R dp) -> w <= eps) /\
  (dp_retained R (Rtruncate eps dp) = true <-> exists w, In w (dp_weights R dp) /\ eps < w).
Proof. exact ThermalProofs.truncate_flag. Qed.
Print Assumptions truncate_flag.

Theorem truncate_weights : forall (eps : R) (dp : Rdmpart),
  dp_weights R (Rtruncate eps dp) = dp_weights R dp /\ dp_zpart R (Rtruncate eps dp) = dp_zpart R dp.
Proof. exact ThermalProofs.truncate_weights. Qed.
Print Assumptions truncate_weights.

(** The weight test cannot be replaced by a cut on excitation energies that lacks the factor beta: two levels 0 and 16 at beta = 1/8,
    eps = 1/100 -- the gap exceeds -ln eps, beta * gap does not, and the excited block is RETAINED by truncate (its weight is
    exp(-2)/(1+exp(-2)) > eps). *)
Theorem energy_cut_without_beta_refuted :
  hot_gap > - ln hot_eps /\
  hot_beta * hot_gap < - ln hot_eps /\
  dp_retained R (Rtruncate hot_eps (mk_dmpart R [hot_w1] hot_w1 true)) = true.
Proof. exact ThermalHot.energy_cut_without_beta_refuted. Qed.
Print Assumptions energy_cut_without_beta_refuted.

(** eps = 0 keeps every block with a positive weight ... *)
Theorem truncate_zero_keeps_positive : forall dp : Rdmpart,
  (exists w, In w (dp_weights R dp) /\ 0 < w) -> dp_retained R (Rtruncate 0 dp) = true.
Proof. exact ThermalProofs.truncate_zero_keeps_positive. Qed.
Print Assumptions truncate_zero_keeps_positive.

(** ... and a block discarded at eps = 0 has all weights exactly 0 and contributes exactly 0. *)
Theorem discarded_at_zero_contributes_nothing : forall dp : Rdmpart,
  (forall w, In w (dp_weights R dp) -> 0 <= w) -> dp_retained R (Rtruncate 0 dp) = false ->
  (forall w, In w (dp_weights R dp) -> w = 0) /\ (forall p, Rea_compute p dp = 0).
Proof. exact ThermalProofs.discarded_at_zero_contributes_nothing. Qed.
Print Assumptions discarded_at_zero_contributes_nothing.

(** With eps = 0 nothing changes: after DensityMatrix::compute all weights are positive, so truncateBlocks(0)
    returns the identical object (same flags), and every prepare function below creates the same parts. *)
Theorem eps_zero_identity : forall (beta : R) (H : list Rhpart) (D : list Rdmpart),
  Rdm_compute beta H = Done D -> Rdm_truncate 0 D = D.
Proof. exact ThermalProofs.eps_zero_identity. Qed.
Print Assumptions eps_zero_identity.

(** parts_skipped_only_if_all_discarded, for each of the four prepare functions.
    GreensFunction::prepare (merge walk over the two bimaps; [ret] = DM.isRetained): it terminates within its
    fuel, and the parts created are exactly the untruncated parts having a retained block at either end. *)
Theorem gf_parts_skipped_only_if_all_discarded : forall (ret : nat -> bool) (cl cxr : list (nat * nat)),
  exists all, gf_prepare (fun _ => true) cl cxr = Done all /\
              gf_prepare ret cl cxr = Done (filter (gf_part_kept ret) all).
Proof. exact ThermalProofs.gf_parts_skipped_only_if_all_discarded. Qed.
Print Assumptions gf_parts_skipped_only_if_all_discarded.

(** Susceptibility::prepare (the same walk over A and B) *)
Theorem susc_parts_skipped_only_if_all_discarded : forall (ret : nat -> bool) (al br : list (nat * nat)),
  exists all, susc_prepare (fun _ => true) al br = Done all /\
              susc_prepare ret al br = Done (filter (gf_part_kept ret) all).
Proof. exact ThermalProofs.susc_parts_skipped_only_if_all_discarded. Qed.
Print Assumptions susc_parts_skipped_only_if_all_discarded.

(** TwoParticleGF::prepare: a part is skipped only if all four blocks of its stripe are discarded *)
Theorem tpgf_parts_skipped_only_if_all_discarded : forall (ret : nat -> bool) (ops : list bimap) (cx4r : list (nat * nat)),
  tpgf_prepare ret ops cx4r = filter (tpgf_part_kept ret) (tpgf_prepare (fun _ => true) ops cx4r).
Proof. exact ThermalProofs.tpgf_parts_skipped_only_if_all_discarded. Qed.
Print Assumptions tpgf_parts_skipped_only_if_all_discarded.

(** EnsembleAverage::prepare: the result is the sum over the diagonal parts whose block is retained *)
Theorem ea_parts_skipped_only_if_discarded : forall (A : fieldop R) (D : list Rdmpart),
  NoDup (map (op_left R) A) ->
  (forall p, In p A -> op_left R p = op_right R p -> (op_left R p < length D)%nat) ->
  Rea_prepare A D =
  Done (lsum (fun p => if Nat.eqb (op_left R p) (op_right R p) && Ris_retained D (op_left R p)
                       then Rea_compute p (nth (op_left R p) D dummy_dp) else 0) A).
Proof. exact ThermalProofs.ea_parts_skipped_only_if_discarded. Qed.
Print Assumptions ea_parts_skipped_only_if_discarded.

(** |G_trunc(z) - G(z)| <= 2 eps dim / |Im z| for z off the real axis.  G is a sum over parts (pairs of blocks) of
    Lehmann terms c cx (w_n + w_m) / (z - pole), grouped by the outer state n; the truncated G keeps the parts with a
    retained block ([gf_parts_skipped_only_if_all_discarded]).  Named hypotheses: dropped_weights_small,
    row_norm_c, row_norm_cx (Sum_m |c_nm|^2 <= 1 and Sum_m |cx_mn|^2 <= 1 for each outer state), outer_sizes. *)
Theorem gf_truncation_bound : forall (parts : list gfpart) (ret : nat -> bool) (eps dim : R) (z : C),
  0 <= eps -> snd z <> 0 ->
  (forall p row t, In p parts -> gfpart_kept ret p = false -> In row (gp_rows p) -> In t row ->
     0 <= lt_wn t <= eps /\ 0 <= lt_wm t <= eps) ->
  (forall p row, In p parts -> In row (gp_rows p) -> lsum (fun t => Cmod (lt_c t) * Cmod (lt_c t)) row <= 1) ->
  (forall p row, In p parts -> In row (gp_rows p) -> lsum (fun t => Cmod (lt_cx t) * Cmod (lt_cx t)) row <= 1) ->
  lsum (fun p => INR (length (gp_rows p))) parts <= dim ->
  Cmod (Cminus (gf_val z (filter (gfpart_kept ret) parts)) (gf_val z parts)) <= 2 * eps * dim / Rabs (snd z).
Proof. exact ThermalProofs.gf_truncation_bound. Qed.
Print Assumptions gf_truncation_bound.

(** The same with the weight hypothesis discharged from the density-matrix model. *)
Theorem gf_truncation_bound_dm : forall (beta : R) (H : list Rhpart) (D : list Rdmpart)
    (parts : list gfpart) (eps dim : R) (z : C),
  Rdm_compute beta H = Done D -> 0 <= eps -> snd z <> 0 ->
  (forall p row t, In p parts -> In row (gp_rows p) -> In t row ->
     (gp_outer p < length D)%nat /\ (gp_inner p < length D)%nat /\
     In (lt_wn t) (dp_weights R (nth (gp_outer p) D dummy_dp)) /\
     In (lt_wm t) (dp_weights R (nth (gp_inner p) D dummy_dp))) ->
  (forall p row, In p parts -> In row (gp_rows p) -> lsum (fun t => Cmod (lt_c t) * Cmod (lt_c t)) row <= 1) ->
  (forall p row, In p parts -> In row (gp_rows p) -> lsum (fun t => Cmod (lt_cx t) * Cmod (lt_cx t)) row <= 1) ->
  lsum (fun p => INR (length (gp_rows p))) parts <= dim ->
  Cmod (Cminus (gf_val z (filter (gfpart_kept (Ris_retained (Rdm_truncate eps D))) parts)) (gf_val z parts))
    <= 2 * eps * dim / Rabs (snd z).
Proof. exact ThermalProofs.gf_truncation_bound_dm. Qed.
Print Assumptions gf_truncation_bound_dm.

(** |<A>_trunc - <A>| <= eps * dim * max|A_nn| *)
Theorem ea_truncation_bound : forall (A : fieldop R) (D : list Rdmpart) (eps maxA dim : R),
  NoDup (map (op_left R) A) ->
  (forall p, In p A -> op_left R p = op_right R p -> (op_left R p < length D)%nat) ->
  0 <= eps -> 0 <= maxA ->
  (forall dp w, In dp D -> In w (dp_weights R dp) -> 0 <= w) ->
  (forall b, (b < length D)%nat -> Ris_retained D b = true) ->
  (forall p i, In p A -> op_left R p = op_right R p -> (i < length (op_mat R p))%nat ->
     Rabs (coeff R 0 (op_mat R p) i i) <= maxA) ->
  lsum (fun p => if Nat.eqb (op_left R p) (op_right R p) then INR (length (op_mat R p)) else 0) A <= dim ->
  exists v vt, Rea_prepare A D = Done v /\ Rea_prepare A (Rdm_truncate eps D) = Done vt /\
               Rabs (vt - v) <= eps * dim * maxA.
Proof. exact ThermalProofs.ea_truncation_bound. Qed.
Print Assumptions ea_truncation_bound.

(** |chi_trunc(z) - chi(z)| <= beta eps dim for z on the imaginary axis (every bosonic Matsubara frequency, zero included).
    chi is a sum over parts of terms: a pole below the resonance tolerance contributes beta a b w_n at zero frequency only,
    any other pole -a b (w_n - w_m)/(z - pole) (or nothing when the residue is under the library's threshold).
    Named hypotheses: dropped_terms_gibbs (weights in [0, eps] and in the Gibbs ratio, which weights_ratio provides),
    row_norm_a, row_norm_b, outer_sizes.  The key step is |w_n - w_m| <= beta |P| max(w_n, w_m). *)
Theorem susc_truncation_bound : forall (parts : list suscpart) (ret : nat -> bool) (beta tol eps dim : R) (zf : bool) (z : C),
  0 <= beta -> 0 < tol -> 0 <= eps -> fst z = 0 ->
  (forall p row t, In p parts -> suscpart_kept ret p = false -> In row (sp_rows p) -> In t row ->
     0 <= st_wn t <= eps /\ 0 <= st_wm t <= eps /\ st_wm t = st_wn t * exp (- beta * st_pole t)) ->
  (forall p row, In p parts -> In row (sp_rows p) -> lsum (fun t => Cmod (st_a t) * Cmod (st_a t)) row <= 1) ->
  (forall p row, In p parts -> In row (sp_rows p) -> lsum (fun t => Cmod (st_b t) * Cmod (st_b t)) row <= 1) ->
  lsum (fun p => INR (length (sp_rows p))) parts <= dim ->
  Cmod (Cminus (susc_val beta tol zf z (filter (suscpart_kept ret) parts)) (susc_val beta tol zf z parts)) <= beta * eps * dim.
Proof. exact ThermalProofs.susc_truncation_bound. Qed.
Print Assumptions susc_truncation_bound.

(** * Two-particle Green's function and susceptibility at the level of the full-space specification

    The derivation that used to stand here as a comment is now the theorems below.  Setting (PV.TruncBounds):
    [chi_mask] / [susc_mask] are EDSpec.chi / EDSpec.susc (number type: Coquelicot's C, GFIdentities.CNum) with a Boolean
    mask on the Lehmann chains; the mask "true" gives EDSpec.chi / EDSpec.susc themselves ([chi_mask_is_spec]).
    Truncation does not change a weight; it omits exactly the parts all of whose blocks are discarded
    (tpgf_parts_skipped_only_if_all_discarded, susc_parts_skipped_only_if_all_discarded above), i.e. the chains
    (i,j,k,l) whose four states are all dropped: [trunc_keep4 drop pres] on top of the chains [pres] present in both
    runs ([truncation_mask_is_part_test] ties the mask to the part-level test).
    [sq n O]: O is a list of n rows of length n; [frob2 O]: sum of |entry|^2. *)
From PV Require Import EDSpec GFIdentities TermIntegrals TruncBounds TruncBoundsProofs.

Theorem chi_mask_is_spec : forall beta tol E w C1 C2 CX3 CX4 z1 z2 z3,
  chi_mask C CNum (fun _ _ _ _ _ => true) beta tol E w C1 C2 CX3 CX4 z1 z2 z3 =
  EDSpec.chi C CNum beta tol E w C1 C2 CX3 CX4 z1 z2 z3.
Proof. exact (TruncBoundsProofs.chi_mask_all C CNum). Qed.
Print Assumptions chi_mask_is_spec.

Theorem susc_mask_is_spec : forall beta tol E w A B z zf,
  susc_mask C CNum (fun _ _ => true) beta tol E w A B z zf = EDSpec.susc C CNum beta tol E w A B z zf.
Proof. exact (TruncBoundsProofs.susc_mask_all C CNum). Qed.
Print Assumptions susc_mask_is_spec.

(** a chain is omitted by truncation iff the part (stripe) of its four blocks fails the test of TwoParticleGF::prepare *)
Theorem truncation_mask_is_part_test : forall (ret : nat -> bool) (blk : nat -> nat) (pn i j k l : nat),
  negb (all_dropped4 (state_dropped ret blk) i j k l) = tpgf_part_kept ret (pn, (blk i, blk j, blk k, blk l)).
Proof. exact TruncBoundsProofs.all_dropped4_is_part_skipped. Qed.
Print Assumptions truncation_mask_is_part_test.

(** phi_term_bound: one term of the kernel phi of doc/gamma4.tex (EDSpec.phi; the two triple fractions, the two
    "bosonic" quotients and their resonant limits beta w).  Frequencies purely imaginary with |Im z_k| >= m and
    |Im (z1+z2+z3)| >= m; weights in [0, W]; w_k/w_i and w_l/w_j in the Gibbs ratio; any resonance tolerance. *)
Theorem phi_term_bound : forall (beta m W : R) (tol z1 z2 z3 : C) (Ei Ej Ek El wi wj wk wl : R),
  0 <= beta -> 0 < m ->
  fst z1 = 0 -> fst z2 = 0 -> fst z3 = 0 ->
  m <= Rabs (snd z1) -> m <= Rabs (snd z2) -> m <= Rabs (snd z3) -> m <= Rabs (snd z1 + snd z2 + snd z3) ->
  0 <= wi <= W -> 0 <= wj <= W -> 0 <= wk <= W -> 0 <= wl <= W ->
  wk = wi * exp (- beta * (Ek - Ei)) -> wl = wj * exp (- beta * (El - Ej)) ->
  Cmod (EDSpec.phi C CNum (RtoC beta) tol (RtoC Ei) (RtoC Ej) (RtoC Ek) (RtoC El)
          (RtoC wi) (RtoC wj) (RtoC wk) (RtoC wl) z1 z2 z3)
    <= W * (4 / (m * m * m) + 2 * beta / (m * m)).
Proof. exact TruncBoundsProofs.phi_term_bound. Qed.
Print Assumptions phi_term_bound.

(** at fermionic Matsubara frequencies i pi (2 n_k + 1)/beta: m = pi/beta *)
Theorem phi_term_bound_matsubara : forall (beta W : R) (tol : C) (n1 n2 n3 : Z) (Ei Ej Ek El wi wj wk wl : R),
  0 < beta ->
  0 <= wi <= W -> 0 <= wj <= W -> 0 <= wk <= W -> 0 <= wl <= W ->
  wk = wi * exp (- beta * (Ek - Ei)) -> wl = wj * exp (- beta * (El - Ej)) ->
  Cmod (EDSpec.phi C CNum (RtoC beta) tol (RtoC Ei) (RtoC Ej) (RtoC Ek) (RtoC El)
          (RtoC wi) (RtoC wj) (RtoC wk) (RtoC wl)
          (0, fermi_freq beta n1) (0, fermi_freq beta n2) (0, fermi_freq beta n3))
    <= W * (beta * beta * beta * (4 / (PI * PI * PI) + 2 / (PI * PI))).
Proof. exact TruncBoundsProofs.phi_term_bound_matsubara. Qed.
Print Assumptions phi_term_bound_matsubara.

(** counting: the sum over ALL n^4 Lehmann chains of |A_ij| |B_jk| |C_kl| |D_li| is at most
    (|A|_F^2 |C|_F^2 + |B|_F^2 |D|_F^2)/2 *)
Theorem chain_count : forall (n : nat) (a b c d : nat -> nat -> R),
  S4 n (fun i j k l => a i j * b j k * c k l * d l i)
  <= (S2 n (fun i j => a i j * a i j) * S2 n (fun i j => c i j * c i j) +
      S2 n (fun i j => b i j * b i j) * S2 n (fun i j => d i j * d i j)) / 2.
Proof. exact TruncBoundsProofs.chain_count. Qed.
Print Assumptions chain_count.

(** tpgf_truncation_bound.  n eigenstates with energies Er and weights wr; C1 C2 CX3 CX4: n x n matrices of
    c_1, c_2, c^+_3, c^+_4 in the eigenbasis; [drop s]: state s lies in a discarded block.
    Named hypotheses: weights_nonneg, dropped_weights_small, weights_gibbs (all three follow from the density-matrix
    model: tpgf_truncation_bound_dm below), frobenius (squared Frobenius norms <= F; F = dim/2 for c_a, c^+_a in an
    orthonormal basis of Fock space since Tr c^+ c = dim/2 -- checked numerically on the dumped matrices by the check).
    At every triple of fermionic Matsubara frequencies and for every resonance tolerance:
      |chi4_trunc - chi4| <= 6 F^2 beta^3 (4/pi^3 + 2/pi^2) eps     (6 operator orderings; 4/pi^3 + 2/pi^2 = 0.3316...) *)
Theorem tpgf_truncation_bound : forall (n : nat) (beta eps F : R) (tol : C) (Er wr : list R)
    (C1 C2 CX3 CX4 : list (list C)) (drop : nat -> bool) (pres : list nat -> nat -> nat -> nat -> nat -> bool) (n1 n2 n3 : Z),
  0 < beta -> 0 <= eps ->
  sq n C1 -> sq n C2 -> sq n CX3 -> sq n CX4 ->
  (forall s, (s < n)%nat -> 0 <= nth s wr 0) ->
  (forall s, (s < n)%nat -> drop s = true -> nth s wr 0 <= eps) ->
  (forall s t, (s < n)%nat -> (t < n)%nat -> nth t wr 0 = nth s wr 0 * exp (- beta * (nth t Er 0 - nth s Er 0))) ->
  frob2 C1 <= F -> frob2 C2 <= F -> frob2 CX3 <= F -> frob2 CX4 <= F ->
  Cmod (Cminus
    (chi_mask C CNum (trunc_keep4 drop pres) (RtoC beta) tol (map RtoC Er) (map RtoC wr) C1 C2 CX3 CX4
       (0, fermi_freq beta n1) (0, fermi_freq beta n2) (0, fermi_freq beta n3))
    (chi_mask C CNum pres (RtoC beta) tol (map RtoC Er) (map RtoC wr) C1 C2 CX3 CX4
       (0, fermi_freq beta n1) (0, fermi_freq beta n2) (0, fermi_freq beta n3)))
  <= 6 * F * F * (beta * beta * beta * (4 / (PI * PI * PI) + 2 / (PI * PI))) * eps.
Proof. exact TruncBoundsProofs.tpgf_truncation_bound. Qed.
Print Assumptions tpgf_truncation_bound.

(** against the untruncated specification EDSpec.chi itself *)
Theorem tpgf_truncation_bound_spec : forall (n : nat) (beta eps F : R) (tol : C) (Er wr : list R)
    (C1 C2 CX3 CX4 : list (list C)) (drop : nat -> bool) (n1 n2 n3 : Z),
  0 < beta -> 0 <= eps ->
  sq n C1 -> sq n C2 -> sq n CX3 -> sq n CX4 ->
  (forall s, (s < n)%nat -> 0 <= nth s wr 0) ->
  (forall s, (s < n)%nat -> drop s = true -> nth s wr 0 <= eps) ->
  (forall s t, (s < n)%nat -> (t < n)%nat -> nth t wr 0 = nth s wr 0 * exp (- beta * (nth t Er 0 - nth s Er 0))) ->
  frob2 C1 <= F -> frob2 C2 <= F -> frob2 CX3 <= F -> frob2 CX4 <= F ->
  Cmod (Cminus
    (chi_mask C CNum (trunc_keep4 drop (fun _ _ _ _ _ => true)) (RtoC beta) tol (map RtoC Er) (map RtoC wr) C1 C2 CX3 CX4
       (0, fermi_freq beta n1) (0, fermi_freq beta n2) (0, fermi_freq beta n3))
    (EDSpec.chi C CNum (RtoC beta) tol (map RtoC Er) (map RtoC wr) C1 C2 CX3 CX4
       (0, fermi_freq beta n1) (0, fermi_freq beta n2) (0, fermi_freq beta n3)))
  <= 6 * F * F * (beta * beta * beta * (4 / (PI * PI * PI) + 2 / (PI * PI))) * eps.
Proof. exact TruncBoundsProofs.tpgf_truncation_bound_spec. Qed.
Print Assumptions tpgf_truncation_bound_spec.

(** with F = dim/2: the bound applied by checks/C19.py, dim^2 beta^3 eps/2  (needs 4/pi^3 + 2/pi^2 <= 1/3, from pi > 3.14) *)
Theorem tpgf_truncation_bound_half_dim : forall (n : nat) (beta eps : R) (tol : C) (Er wr : list R)
    (C1 C2 CX3 CX4 : list (list C)) (drop : nat -> bool) (pres : list nat -> nat -> nat -> nat -> nat -> bool) (n1 n2 n3 : Z),
  0 < beta -> 0 <= eps ->
  sq n C1 -> sq n C2 -> sq n CX3 -> sq n CX4 ->
  (forall s, (s < n)%nat -> 0 <= nth s wr 0) ->
  (forall s, (s < n)%nat -> drop s = true -> nth s wr 0 <= eps) ->
  (forall s t, (s < n)%nat -> (t < n)%nat -> nth t wr 0 = nth s wr 0 * exp (- beta * (nth t Er 0 - nth s Er 0))) ->
  frob2 C1 <= INR n / 2 -> frob2 C2 <= INR n / 2 -> frob2 CX3 <= INR n / 2 -> frob2 CX4 <= INR n / 2 ->
  Cmod (Cminus
    (chi_mask C CNum (trunc_keep4 drop pres) (RtoC beta) tol (map RtoC Er) (map RtoC wr) C1 C2 CX3 CX4
       (0, fermi_freq beta n1) (0, fermi_freq beta n2) (0, fermi_freq beta n3))
    (chi_mask C CNum pres (RtoC beta) tol (map RtoC Er) (map RtoC wr) C1 C2 CX3 CX4
       (0, fermi_freq beta n1) (0, fermi_freq beta n2) (0, fermi_freq beta n3)))
  <= / 2 * (INR n * INR n) * (beta * beta * beta) * eps.
Proof. exact TruncBoundsProofs.tpgf_truncation_bound_half_dim. Qed.
Print Assumptions tpgf_truncation_bound_half_dim.

(** the three weight hypotheses discharged from the density-matrix model: D = DensityMatrix::compute(beta, H), state s is
    eigenstate [pos s] of block [blk s], [drop] is DensityMatrix::isRetained after truncateBlocks(eps) *)
Theorem tpgf_truncation_bound_dm : forall (beta eps F : R) (H : list Rhpart) (D : list Rdmpart) (blk pos : nat -> nat) (n : nat)
    (tol : C) (C1 C2 CX3 CX4 : list (list C)) (pres : list nat -> nat -> nat -> nat -> nat -> bool) (n1 n2 n3 : Z),
  Rdm_compute beta H = Done D ->
  (forall s, (s < n)%nat -> valid_state H (blk s) (pos s)) ->
  0 < beta -> 0 <= eps ->
  sq n C1 -> sq n C2 -> sq n CX3 -> sq n CX4 ->
  frob2 C1 <= F -> frob2 C2 <= F -> frob2 CX3 <= F -> frob2 CX4 <= F ->
  let Er := map (fun s => energy_at H (blk s) (pos s)) (seq 0 n) in
  let wr := map (fun s => weight_at D (blk s) (pos s)) (seq 0 n) in
  let drop := state_dropped (Ris_retained (Rdm_truncate eps D)) blk in
  Cmod (Cminus
    (chi_mask C CNum (trunc_keep4 drop pres) (RtoC beta) tol (map RtoC Er) (map RtoC wr) C1 C2 CX3 CX4
       (0, fermi_freq beta n1) (0, fermi_freq beta n2) (0, fermi_freq beta n3))
    (chi_mask C CNum pres (RtoC beta) tol (map RtoC Er) (map RtoC wr) C1 C2 CX3 CX4
       (0, fermi_freq beta n1) (0, fermi_freq beta n2) (0, fermi_freq beta n3)))
  <= 6 * F * F * (beta * beta * beta * (4 / (PI * PI * PI) + 2 / (PI * PI))) * eps.
Proof. exact TruncBoundsProofs.tpgf_truncation_bound_dm. Qed.
Print Assumptions tpgf_truncation_bound_dm.

(** Susceptibility at the level of EDSpec.susc: every z on the imaginary axis (all bosonic Matsubara frequencies; at
    W_0 = 0 the degenerate pairs contribute the resonant term beta A_nm B_mn w_n, [zf] = the specification's zero-frequency
    flag, arbitrary here), every resonance tolerance:  |chi_trunc(z) - chi(z)| <= beta eps (|A|_F^2 + |B|_F^2)/2.
    (The part-structured form with the constant beta eps dim is susc_truncation_bound above.) *)
Theorem susc_spec_truncation_bound : forall (n : nat) (beta eps : R) (tol z : C) (zf : bool) (Er wr : list R)
    (A B : list (list C)) (drop : nat -> bool) (pres : nat -> nat -> bool),
  0 <= beta -> 0 <= eps -> fst z = 0 ->
  sq n A -> sq n B ->
  (forall s, (s < n)%nat -> 0 <= nth s wr 0) ->
  (forall s, (s < n)%nat -> drop s = true -> nth s wr 0 <= eps) ->
  (forall s t, (s < n)%nat -> (t < n)%nat -> nth t wr 0 = nth s wr 0 * exp (- beta * (nth t Er 0 - nth s Er 0))) ->
  Cmod (Cminus
    (susc_mask C CNum (trunc_keep2 drop pres) (RtoC beta) tol (map RtoC Er) (map RtoC wr) A B z zf)
    (susc_mask C CNum pres (RtoC beta) tol (map RtoC Er) (map RtoC wr) A B z zf))
  <= beta * eps * ((frob2 A + frob2 B) / 2).
Proof. exact TruncBoundsProofs.susc_spec_truncation_bound. Qed.
Print Assumptions susc_spec_truncation_bound.

(** at the bosonic Matsubara frequencies 2 pi i k/beta with the zero-frequency flag as the library sets it (k = 0),
    against EDSpec.susc itself, squared Frobenius norms <= F:  beta eps F  (F = dim for operators of norm <= 1:
    the bound beta eps dim of the check) *)
Theorem susc_spec_truncation_bound_matsubara : forall (n : nat) (beta eps F : R) (tol : C) (k : Z) (Er wr : list R)
    (A B : list (list C)) (drop : nat -> bool),
  0 <= beta -> 0 <= eps ->
  sq n A -> sq n B ->
  (forall s, (s < n)%nat -> 0 <= nth s wr 0) ->
  (forall s, (s < n)%nat -> drop s = true -> nth s wr 0 <= eps) ->
  (forall s t, (s < n)%nat -> (t < n)%nat -> nth t wr 0 = nth s wr 0 * exp (- beta * (nth t Er 0 - nth s Er 0))) ->
  frob2 A <= F -> frob2 B <= F ->
  Cmod (Cminus
    (susc_mask C CNum (trunc_keep2 drop (fun _ _ => true)) (RtoC beta) tol (map RtoC Er) (map RtoC wr) A B
       (0, bose_freq beta k) (Z.eqb k 0))
    (EDSpec.susc C CNum (RtoC beta) tol (map RtoC Er) (map RtoC wr) A B (0, bose_freq beta k) (Z.eqb k 0)))
  <= beta * eps * F.
Proof. exact TruncBoundsProofs.susc_spec_truncation_bound_matsubara. Qed.
Print Assumptions susc_spec_truncation_bound_matsubara.

Theorem susc_spec_truncation_bound_dm : forall (beta eps : R) (H : list Rhpart) (D : list Rdmpart) (blk pos : nat -> nat) (n : nat)
    (tol z : C) (zf : bool) (A B : list (list C)) (pres : nat -> nat -> bool),
  Rdm_compute beta H = Done D ->
  (forall s, (s < n)%nat -> valid_state H (blk s) (pos s)) ->
  0 <= beta -> 0 <= eps -> fst z = 0 ->
  sq n A -> sq n B ->
  let Er := map (fun s => energy_at H (blk s) (pos s)) (seq 0 n) in
  let wr := map (fun s => weight_at D (blk s) (pos s)) (seq 0 n) in
  let drop := state_dropped (Ris_retained (Rdm_truncate eps D)) blk in
  Cmod (Cminus
    (susc_mask C CNum (trunc_keep2 drop pres) (RtoC beta) tol (map RtoC Er) (map RtoC wr) A B z zf)
    (susc_mask C CNum pres (RtoC beta) tol (map RtoC Er) (map RtoC wr) A B z zf))
  <= beta * eps * ((frob2 A + frob2 B) / 2).
Proof. exact TruncBoundsProofs.susc_spec_truncation_bound_dm. Qed.
Print Assumptions susc_spec_truncation_bound_dm.

(** Hypotheses satisfiable (PV.TruncBoundsProofs, section 7): the Hubbard atom in a field (U = 1, mu = 1, h = -1) at
    beta = 2, eps = 1/10 -- the blocks of |0> and |up> are discarded, the chain 0 -> 1 -> 0 -> 1 of chi_{up up up up} is
    really omitted (hub_chain_dropped); hub_tpgf_bound instantiates tpgf_truncation_bound_half_dim (bound 6.4),
    hub_susc_bound instantiates susc_spec_truncation_bound for <n_up; n_up> (bound 0.4). *)
