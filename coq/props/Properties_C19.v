(** C19 -- Block truncation removes only contributions below the requested tolerance.
    Statements only; proofs are in PV.ThermalProofs (model: PV.Thermal; hypotheses shown satisfiable in
    PV.ThermalExamples).

    Proved here at full strength: the retain flag, the retained tests of all four prepare functions, eps = 0,
    and the linear-in-eps bounds for the single-particle Green's function (2 eps dim / |Im z|), for ensemble
    averages (eps dim max|A_nn|) and for the dynamical susceptibility on the imaginary axis (beta eps dim).
    NOT proved in Coq: a bound for the two-particle Green's function (the property asks for "a bound proportional
    to eps"); see the comment at the end of this file for the statement that the check uses numerically. *)
Require Import Reals List Arith Bool.
From Coquelicot Require Import Complex.
From PV Require Import Outcome Thermal ThermalSpec ThermalProofs ThermalExamples.
Import ListNotations.
Local Open Scope R_scope.

(** DensityMatrixPart::truncate: a block is discarded iff none of its states has weight above eps (and retained
    iff some state has); weights and partial sums are untouched. *)
Theorem truncate_flag : forall (eps : R) (dp : Rdmpart),
  (dp_retained R (Rtruncate eps dp) = false <-> forall w, In w (dp_weights R dp) -> w <= eps) /\
  (dp_retained R (Rtruncate eps dp) = true <-> exists w, In w (dp_weights R dp) /\ eps < w).
Proof. exact ThermalProofs.truncate_flag. Qed.
Print Assumptions truncate_flag.

Theorem truncate_weights : forall (eps : R) (dp : Rdmpart),
  dp_weights R (Rtruncate eps dp) = dp_weights R dp /\ dp_zpart R (Rtruncate eps dp) = dp_zpart R dp.
Proof. exact ThermalProofs.truncate_weights. Qed.
Print Assumptions truncate_weights.

(** eps = 0 keeps every block with a positive weight ... *)
Theorem truncate_zero_keeps_positive : forall dp : Rdmpart,
  (exists w, In w (dp_weights R dp) /\ 0 < w) -> dp_retained R (Rtruncate 0 dp) = true.
Proof. exact ThermalProofs.truncate_zero_keeps_positive. Qed.
Print Assumptions truncate_zero_keeps_positive.

(** ... and a block discarded at eps = 0 has all weights exactly 0 and contributes exactly 0. *)
Theorem discarded_at_zero_contributes_nothing : forall dp : Rdmpart,
  (forall w, In w (dp_weights R dp) -> 0 <= w) -> dp_retained R (Rtruncate 0 dp) = false ->
  (forall w, In w (dp_weights R dp) -> w = 0) /\ (forall p, Rea_compute p dp = 0).
Proof. exact ThermalProofs.discarded_at_zero_contributes_nothing. Qed.
Print Assumptions discarded_at_zero_contributes_nothing.

(** With eps = 0 nothing changes: after DensityMatrix::compute all weights are positive, so truncateBlocks(0)
    returns the identical object (same flags), and every prepare function below creates the same parts. *)
Theorem eps_zero_identity : forall (beta : R) (H : list Rhpart) (D : list Rdmpart),
  Rdm_compute beta H = Done D -> Rdm_truncate 0 D = D.
Proof. exact ThermalProofs.eps_zero_identity. Qed.
Print Assumptions eps_zero_identity.

(** parts_skipped_only_if_all_discarded, for each of the four prepare functions.
    GreensFunction::prepare (merge walk over the two bimaps; [ret] = DM.isRetained): it terminates within its
    fuel, and the parts created are exactly the untruncated parts having a retained block at either end. *)
Theorem gf_parts_skipped_only_if_all_discarded : forall (ret : nat -> bool) (cl cxr : list (nat * nat)),
  exists all, gf_prepare (fun _ => true) cl cxr = Done all /\
              gf_prepare ret cl cxr = Done (filter (gf_part_kept ret) all).
Proof. exact ThermalProofs.gf_parts_skipped_only_if_all_discarded. Qed.
Print Assumptions gf_parts_skipped_only_if_all_discarded.

(** Susceptibility::prepare (the same walk over A and B) *)
Theorem susc_parts_skipped_only_if_all_discarded : forall (ret : nat -> bool) (al br : list (nat * nat)),
  exists all, susc_prepare (fun _ => true) al br = Done all /\
              susc_prepare ret al br = Done (filter (gf_part_kept ret) all).
Proof. exact ThermalProofs.susc_parts_skipped_only_if_all_discarded. Qed.
Print Assumptions susc_parts_skipped_only_if_all_discarded.

(** TwoParticleGF::prepare: a part is skipped only if all four blocks of its stripe are discarded *)
Theorem tpgf_parts_skipped_only_if_all_discarded : forall (ret : nat -> bool) (ops : list bimap) (cx4r : list (nat * nat)),
  tpgf_prepare ret ops cx4r = filter (tpgf_part_kept ret) (tpgf_prepare (fun _ => true) ops cx4r).
Proof. exact ThermalProofs.tpgf_parts_skipped_only_if_all_discarded. Qed.
Print Assumptions tpgf_parts_skipped_only_if_all_discarded.

(** EnsembleAverage::prepare: the result is the sum over the diagonal parts whose block is retained *)
Theorem ea_parts_skipped_only_if_discarded : forall (A : fieldop R) (D : list Rdmpart),
  NoDup (map (op_left R) A) ->
  (forall p, In p A -> op_left R p = op_right R p -> (op_left R p < length D)%nat) ->
  Rea_prepare A D =
  Done (lsum (fun p => if Nat.eqb (op_left R p) (op_right R p) && Ris_retained D (op_left R p)
                       then Rea_compute p (nth (op_left R p) D dummy_dp) else 0) A).
Proof. exact ThermalProofs.ea_parts_skipped_only_if_discarded. Qed.
Print Assumptions ea_parts_skipped_only_if_discarded.

(** |G_trunc(z) - G(z)| <= 2 eps dim / |Im z| for z off the real axis.  G is a sum over parts (pairs of blocks) of
    Lehmann terms c cx (w_n + w_m) / (z - pole), grouped by the outer state n; the truncated G keeps the parts with a
    retained block ([gf_parts_skipped_only_if_all_discarded]).  Named hypotheses: dropped_weights_small,
    row_norm_c, row_norm_cx (Sum_m |c_nm|^2 <= 1 and Sum_m |cx_mn|^2 <= 1 for each outer state), outer_sizes. *)
Theorem gf_truncation_bound : forall (parts : list gfpart) (ret : nat -> bool) (eps dim : R) (z : C),
  0 <= eps -> snd z <> 0 ->
  (forall p row t, In p parts -> gfpart_kept ret p = false -> In row (gp_rows p) -> In t row ->
     0 <= lt_wn t <= eps /\ 0 <= lt_wm t <= eps) ->
  (forall p row, In p parts -> In row (gp_rows p) -> lsum (fun t => Cmod (lt_c t) * Cmod (lt_c t)) row <= 1) ->
  (forall p row, In p parts -> In row (gp_rows p) -> lsum (fun t => Cmod (lt_cx t) * Cmod (lt_cx t)) row <= 1) ->
  lsum (fun p => INR (length (gp_rows p))) parts <= dim ->
  Cmod (Cminus (gf_val z (filter (gfpart_kept ret) parts)) (gf_val z parts)) <= 2 * eps * dim / Rabs (snd z).
Proof. exact ThermalProofs.gf_truncation_bound. Qed.
Print Assumptions gf_truncation_bound.

(** The same with the weight hypothesis discharged from the density-matrix model. *)
Theorem gf_truncation_bound_dm : forall (beta : R) (H : list Rhpart) (D : list Rdmpart)
    (parts : list gfpart) (eps dim : R) (z : C),
  Rdm_compute beta H = Done D -> 0 <= eps -> snd z <> 0 ->
  (forall p row t, In p parts -> In row (gp_rows p) -> In t row ->
     (gp_outer p < length D)%nat /\ (gp_inner p < length D)%nat /\
     In (lt_wn t) (dp_weights R (nth (gp_outer p) D dummy_dp)) /\
     In (lt_wm t) (dp_weights R (nth (gp_inner p) D dummy_dp))) ->
  (forall p row, In p parts -> In row (gp_rows p) -> lsum (fun t => Cmod (lt_c t) * Cmod (lt_c t)) row <= 1) ->
  (forall p row, In p parts -> In row (gp_rows p) -> lsum (fun t => Cmod (lt_cx t) * Cmod (lt_cx t)) row <= 1) ->
  lsum (fun p => INR (length (gp_rows p))) parts <= dim ->
  Cmod (Cminus (gf_val z (filter (gfpart_kept (Ris_retained (Rdm_truncate eps D))) parts)) (gf_val z parts))
    <= 2 * eps * dim / Rabs (snd z).
Proof. exact ThermalProofs.gf_truncation_bound_dm. Qed.
Print Assumptions gf_truncation_bound_dm.

(** |<A>_trunc - <A>| <= eps * dim * max|A_nn| *)
Theorem ea_truncation_bound : forall (A : fieldop R) (D : list Rdmpart) (eps maxA dim : R),
  NoDup (map (op_left R) A) ->
  (forall p, In p A -> op_left R p = op_right R p -> (op_left R p < length D)%nat) ->
  0 <= eps -> 0 <= maxA ->
  (forall dp w, In dp D -> In w (dp_weights R dp) -> 0 <= w) ->
  (forall b, (b < length D)%nat -> Ris_retained D b = true) ->
  (forall p i, In p A -> op_left R p = op_right R p -> (i < length (op_mat R p))%nat ->
     Rabs (coeff R 0 (op_mat R p) i i) <= maxA) ->
  lsum (fun p => if Nat.eqb (op_left R p) (op_right R p) then INR (length (op_mat R p)) else 0) A <= dim ->
  exists v vt, Rea_prepare A D = Done v /\ Rea_prepare A (Rdm_truncate eps D) = Done vt /\
               Rabs (vt - v) <= eps * dim * maxA.
Proof. exact ThermalProofs.ea_truncation_bound. Qed.
Print Assumptions ea_truncation_bound.

(** |chi_trunc(z) - chi(z)| <= beta eps dim for z on the imaginary axis (every bosonic Matsubara frequency, zero included).
    chi is a sum over parts of terms: a pole below the resonance tolerance contributes beta a b w_n at zero frequency only,
    any other pole -a b (w_n - w_m)/(z - pole) (or nothing when the residue is under the library's threshold).
    Named hypotheses: dropped_terms_gibbs (weights in [0, eps] and in the Gibbs ratio, which weights_ratio provides),
    row_norm_a, row_norm_b, outer_sizes.  The key step is |w_n - w_m| <= beta |P| max(w_n, w_m). *)
Theorem susc_truncation_bound : forall (parts : list suscpart) (ret : nat -> bool) (beta tol eps dim : R) (zf : bool) (z : C),
  0 <= beta -> 0 < tol -> 0 <= eps -> fst z = 0 ->
  (forall p row t, In p parts -> suscpart_kept ret p = false -> In row (sp_rows p) -> In t row ->
     0 <= st_wn t <= eps /\ 0 <= st_wm t <= eps /\ st_wm t = st_wn t * exp (- beta * st_pole t)) ->
  (forall p row, In p parts -> In row (sp_rows p) -> lsum (fun t => Cmod (st_a t) * Cmod (st_a t)) row <= 1) ->
  (forall p row, In p parts -> In row (sp_rows p) -> lsum (fun t => Cmod (st_b t) * Cmod (st_b t)) row <= 1) ->
  lsum (fun p => INR (length (sp_rows p))) parts <= dim ->
  Cmod (Cminus (susc_val beta tol zf z (filter (suscpart_kept ret) parts)) (susc_val beta tol zf z parts)) <= beta * eps * dim.
Proof. exact ThermalProofs.susc_truncation_bound. Qed.
Print Assumptions susc_truncation_bound.

(** Not machine-checked (used numerically by checks/C19.py, with this derivation):

    tpgf_truncation_bound (full statement, unproved):
      for fermionic Matsubara frequencies z_k = i pi (2 n_k + 1)/beta,
      |chi4_trunc(z1,z2,z3) - chi4(z1,z2,z3)| <= 6 * (dim^2/4) * (4/pi^3 + 2/pi^2) * beta^3 * eps  <  0.5 dim^2 beta^3 eps.
    Derivation: a dropped part has all four blocks discarded, so the four weights of each of its terms are in [0, eps].
    In the kernel phi of doc/gamma4.tex every denominator factor z + (energy difference) has modulus >= pi/beta for a
    fermionic combination of frequencies; a bosonic factor appears only in (w_k - w_i)/(z1+z2+E_i-E_k) (and its beta w_i
    limit), which is bounded by beta max(w) exactly as in susc_truncation_bound.  Hence |phi| <= eps beta^3 (4/pi^3 + 2/pi^2).
    The sum over the four state indices of |<i|O1|j><j|O2|k><k|O3|l><l|O4|i>| is at most
    ||O1||_F ||O2||_F ||O3||_F ||O4||_F = (dim/2)^2 (each c, c^+ has squared Frobenius norm Tr c^+ c = dim/2);
    there are 6 operator orderings.  What is missing for a proof: a model of TwoParticleGFPart's term lists (C02) with
    the Frobenius-norm estimate for four-fold products. *)
