(** C10 about the SOURCE TEXT -- the statements of Properties_C10.v that concern the loops of FieldOperatorPart::compute and the
    container once more, about the definitions of PV.FieldOpGen, which are the functions of the hand-written models PV.HPart /
    PV.ContainerHistory rebuilt around the control structure that translator/gen_ham.py reads off the C++ on every run:
      coq/gen/Gen_FieldOpPartCompute.v   FieldOperatorPart::compute: shapes, the loop over the states of the `from` block, the guard,
                                         ranges / cells / value expressions of the two inner loops (which eigenvector matrix, which
                                         indices, the conjugate), which dense matrix reaches sparseView under which condition, the
                                         sparseView / prune steps and the tolerance literal
      coq/gen/Gen_FieldOpCompute.v       FieldOperator::compute(comm): the loop over the parts
      coq/gen/Gen_FocPrepareAll.v        FieldOperatorContainer::prepareAll
      coq/gen/Gen_FocComputeAll.v        FieldOperatorContainer::computeAll: statements in front of the loop, the loop, the call of
                                         cdag.compute(), the copy into the annihilation operator
    Statements only; proofs in PV.FieldOpGenProofs / PV.FieldOpGenRotate.  This file stops compiling when FieldOperatorPart::compute
    treats to == from specially, reads U with exchanged indices or drops the conjugate, when computeAll returns early or guards
    cdag.compute(), when prepareAll stops preparing what it stores -- whether or not a numeric run happens to notice.
    (The algebra -- rotate_back, annihilation_is_adjoint, car_eigenbasis_partial -- does not depend on the source: Properties_C10.v.) *)
From mathcomp Require Import all_ssreflect all_algebra.
From PV Require Import Outcome Fock Poly PolySem EDSpec HPart HPartSpec HPartProofs Rotate RotateBridge HamShapes HPartGen.
From PV Require Import FieldOpGen FieldOpGenProofs FieldOpGenRotate.
From PV Require ContainerHistory ContainerHistoryProofs.
From PVgen Require Import Gen_FieldOpPartCompute Gen_FieldOpCompute Gen_FocPrepareAll Gen_FocComputeAll.
Import GRing.Theory.
Local Open Scope ring_scope.

(** the dense matrix computed by the generated two-loop structure is the rotated Jordan-Wigner block *)
Theorem rotation_formula_model_src :
  forall (F : fieldType) (conj : {rmorphism F -> F}) (fb : bool) (S : classification) (o : fop) (from to : nat)
         (fromStates toStates : list nat) (Hfrom Hto : mat F),
  wf_class S -> mono_in_range (sc_M S) (fop_mono o) ->
  List.nth_error (sc_states S) from = Some fromStates -> List.nth_error (sc_states S) to = Some toStates ->
  square F (length fromStates) Hfrom -> square F (length toStates) Hto ->
  (forall Kst L sg, List.In Kst fromStates -> tgt_of F (Fops conj) (sc_M S) o Kst = Some (L, sg) -> List.In L toStates) ->
  exists D : mat F,
    fop_dense_src fb F (Fops conj) 0 S o from to Hfrom Hto = Done D /\
    (\matrix_(n < length toStates, m < length fromStates) mget F (Fops conj) D n m) =
    adj conj (Uto conj toStates Hto) *m JWblock conj S o fromStates toStates *m Ufrom conj fromStates Hfrom.
Proof. exact: FieldOpGenRotate.rotation_formula_model_src. Qed.
Print Assumptions rotation_formula_model_src.

Local Close Scope ring_scope.

(** * what the source text says (leaf agreements) *)

(** shapes, zero fill, EVERY state of the `from` block, LeftMat(n,k) for all n < toStates.size(), RightMat(k,m) for all m < fromStates.size() *)
Theorem source_fop_loop_structure : forall nto nfrom : nat,
  gen_fop_left_shape nto nfrom = (nto, nfrom) /\ gen_fop_right_shape nto nfrom = (nfrom, nfrom) /\ gen_fop_zeroed = true /\
  gen_fop_outer nto nfrom = List.seq 0 nfrom /\
  gen_fop_left_range nto nfrom = List.seq 0 nto /\ gen_fop_left_cell = (IdxLoop, IdxSource) /\
  gen_fop_right_range nto nfrom = List.seq 0 nfrom /\ gen_fop_right_cell = (IdxSource, IdxLoop).
Proof. exact FieldOpGenProofs.gen_fop_structure_is_model. Qed.
Print Assumptions source_fop_loop_structure.

(** the guard |sign| > epsilon; LeftMat(n,k) = conj(U_to(l,n)) (no conjugate in the real build); RightMat(k,m) = sign * U_from(k,m) *)
Theorem source_fop_loop_values :
  forall (A : Type) (kadd ksub kmul : A -> A -> A) (conj : A -> A) (ltb : A -> A -> bool) (kabs : A -> A)
         (HTo HFrom : nat -> nat -> A) (eps sign : A) (l_is_error : bool) (l k i : nat),
  gen_fop_guard A ltb kabs eps sign l_is_error = andb (negb l_is_error) (ltb eps (kabs sign)) /\
  gen_fop_left_value A kadd ksub kmul conj HTo HFrom sign l k i = conj (HTo l i) /\
  gen_fop_left_value_real A kadd ksub kmul conj HTo HFrom sign l k i = HTo l i /\
  gen_fop_right_value A kadd ksub kmul conj HTo HFrom sign l k i = kmul sign (HFrom k i) /\
  gen_fop_right_value_real A kadd ksub kmul conj HTo HFrom sign l k i = kmul sign (HFrom k i).
Proof. exact FieldOpGenProofs.gen_fop_values_are_model. Qed.
Print Assumptions source_fop_loop_values.

(** LeftMat * RightMat is what is stored for EVERY pair of blocks (no case on to == from), after sparseView (+ prune in the real
    build) with the reference MatrixElementTolerance = 1e-8 *)
Theorem source_fop_product_and_pruning :
  gen_fop_dense_cases = cons (FCondAlways, DenseLeftTimesRight) nil /\
  gen_fop_sparsify = cons (StepSparseView RefTolerance) nil /\
  gen_fop_sparsify_real = cons (StepSparseView RefTolerance) (cons (StepPrune RefTolerance) nil) /\
  gen_fop_tolerance_mantissa = BinNums.Zpos BinNums.xH /\ gen_fop_tolerance_exponent = BinInt.Z.opp (BinInt.Z.of_nat 8).
Proof. exact FieldOpGenProofs.gen_fop_product_is_model. Qed.
Print Assumptions source_fop_product_and_pruning.

Theorem source_field_operator_compute_loop : forall nparts i : nat,
  gen_fo_compute_visits nparts = List.seq 0 nparts /\ gen_fo_compute_part i = i.
Proof. exact FieldOpGenProofs.gen_fo_compute_is_model. Qed.
Print Assumptions source_field_operator_compute_loop.

Theorem source_prepare_all : forall n : nat,
  gen_foc_prepare_default n = List.seq 0 n /\ gen_foc_prepare_visits n = List.seq 0 n /\
  gen_foc_prepare_creator = SlotNewPrepared /\ gen_foc_prepare_annihilator = SlotNewPrepared.
Proof. exact FieldOpGenProofs.gen_foc_prepare_all_is_model. Qed.
Print Assumptions source_prepare_all.

(** computeAll: nothing in front of the loop, ALL stored creation operators, compute() called unconditionally, the annihilation operator
    of the same index filled from the creator's parts with the adjoint and marked Computed *)
Theorem source_compute_all : forall nops : nat,
  gen_foc_compute_all_pre = nil /\ gen_foc_compute_all_visits nops = List.seq 0 nops /\ gen_foc_compute_call = CallUnconditional /\
  gen_foc_annihilator_same_index = true /\ gen_foc_marks_computed = true /\
  gen_foc_copy_target = SideLeft /\ gen_foc_copy_source = SideRight /\ gen_foc_copy_op = CopyAdjoint.
Proof. exact FieldOpGenProofs.gen_foc_compute_all_is_model. Qed.
Print Assumptions source_compute_all.

(** * the functions built from the source are the model's *)
Theorem source_field_operators_are_model :
  forall (fb : bool) (K : Type) (NO : numops K) (eps : K) (S : classification) (o : fop) (from to : nat) (Hfrom Hto : mat K),
  (forall nt fromStates, fop_fill_src fb K NO eps S o Hfrom Hto nt (length fromStates) fromStates =
                         fop_fill fb K NO eps S o Hfrom Hto nt (length fromStates) fromStates) /\
  fop_dense_src fb K NO eps S o from to Hfrom Hto = fop_dense fb K NO eps S o from to Hfrom Hto /\
  (forall ofdec prec, fop_compute_src fb K NO eps true ofdec S o from to Hfrom Hto prec =
                      fop_compute fb K NO eps S o from to Hfrom Hto (ofdec (BinNums.Zpos BinNums.xH) (BinInt.Z.opp (BinInt.Z.of_nat 8))) prec) /\
  (forall ofdec prec, fop_compute_src fb K NO eps false ofdec S o from to Hfrom Hto prec =
                      bind (fop_compute fb K NO eps S o from to Hfrom Hto (ofdec (BinNums.Zpos BinNums.xH) (BinInt.Z.opp (BinInt.Z.of_nat 8))) prec)
                           (fun m => Done (prune K NO (ofdec (BinNums.Zpos BinNums.xH) (BinInt.Z.opp (BinInt.Z.of_nat 8))) prec m))) /\
  (forall ncols cdag_bimap cdag_parts c_parts,
     container_copy_src K NO ncols cdag_bimap cdag_parts c_parts = container_copy K NO ncols cdag_bimap cdag_parts c_parts).
Proof. exact FieldOpGenProofs.source_field_operators_are_model. Qed.
Print Assumptions source_field_operators_are_model.

Theorem source_container_is_model :
  forall (V : Type) (single_cx : nat -> V) (adjoint transpose : V -> V) (n : nat) (h : list ContainerHistory.step),
  run_src V single_cx adjoint transpose n h = Some (ContainerHistory.run V single_cx adjoint n h).
Proof. exact FieldOpGenProofs.source_container_is_model. Qed.
Print Assumptions source_container_is_model.

(** * C10 about the source *)

(** the two generated loops never leave their arrays on a pair of blocks the operator respects; column k of LeftMat / row k of RightMat
    are the entries Rotate.LeftMat / Rotate.RightMat are defined by *)
Theorem rotation_two_loops_src :
  forall (fb : bool) (K : Type) (NO : numops K) (eps : K),
  nre_ltb K NO (nabs K NO (n1 K NO)) eps = false ->
  nre_ltb K NO (nabs K NO (nopp K NO (n1 K NO))) eps = false ->
  nre_ltb K NO eps (nabs K NO (n1 K NO)) = true ->
  nre_ltb K NO eps (nabs K NO (nopp K NO (n1 K NO))) = true ->
  forall (S : classification) (o : fop) (from to : nat) (fromStates toStates : list nat) (Hfrom Hto : mat K),
  wf_class S -> mono_in_range (sc_M S) (fop_mono o) ->
  List.nth_error (sc_states S) from = Some fromStates -> List.nth_error (sc_states S) to = Some toStates ->
  square K (length fromStates) Hfrom -> square K (length toStates) Hto ->
  (forall Kst L sg, List.In Kst fromStates -> tgt_of K NO (sc_M S) o Kst = Some (L, sg) -> List.In L toStates) ->
  exists Lc Rr,
    fop_fill_src fb K NO eps S o Hfrom Hto (length toStates) (length fromStates) fromStates = Done (Lc, Rr) /\
    length Lc = length fromStates /\ length Rr = length fromStates /\
    forall k Kst, List.nth_error fromStates k = Some Kst ->
      match tgt_of K NO (sc_M S) o Kst with
      | Some (L, sg) => exists l, List.nth_error toStates l = Some L /\
                          List.nth k Lc nil = left_column K NO Hto (length toStates) l /\
                          List.nth k Rr nil = right_row K NO Hfrom (length fromStates) k sg
      | None => List.nth k Lc nil = List.repeat (n0 K NO) (length toStates) /\
                List.nth k Rr nil = List.repeat (n0 K NO) (length fromStates)
      end.
Proof. exact FieldOpGenProofs.rotation_two_loops_src. Qed.
Print Assumptions rotation_two_loops_src.

(** whatever sequence of sparseView / prune steps the source has, a cell of the stored matrix is the computed value, or 0 and then the
    computed value was not larger than the reference *)
Theorem pruning_bound_src :
  forall (K : Type) (NO : numops K),
  (forall a b c, nre_ltb K NO b a = false -> nre_ltb K NO c b = false -> nre_ltb K NO c a = false) ->
  forall (steps : list fop_sparsify) (tol prec : K) (m r : mat K) i j,
  nre_ltb K NO (nabs K NO tol) (nmul K NO (nabs K NO tol) prec) = false ->
  run_sparsify K NO steps tol prec m = Done r ->
  mget K NO r i j = mget K NO m i j \/
  (mget K NO r i j = n0 K NO /\ nre_ltb K NO (nabs K NO tol) (nabs K NO (mget K NO m i j)) = false).
Proof. exact FieldOpGenProofs.pruning_bound_src. Qed.
Print Assumptions pruning_bound_src.

(** ... and the stored matrix of either build IS the dense product after the generated steps with the tolerance 1e-8 *)
Theorem stored_matrix_is_pruned_product_src :
  forall (fb : bool) (K : Type) (NO : numops K) (eps : K) (cb : bool) (ofdec : BinNums.Z -> BinNums.Z -> K)
         (S : classification) (o : fop) (from to : nat) (Hfrom Hto : mat K) (prec : K) (d : mat K),
  fop_dense_src fb K NO eps S o from to Hfrom Hto = Done d ->
  exists r, fop_compute_src fb K NO eps cb ofdec S o from to Hfrom Hto prec = Done r /\
            run_sparsify K NO (if cb then gen_fop_sparsify else gen_fop_sparsify_real)
                         (ofdec (BinNums.Zpos BinNums.xH) (BinInt.Z.opp (BinInt.Z.of_nat 8))) prec d = Done r.
Proof. exact FieldOpGenProofs.fop_compute_src_steps. Qed.
Print Assumptions stored_matrix_is_pruned_product_src.

Theorem container_copy_is_adjoint_src :
  forall (K : Type) (NO : numops K) (ncols : nat -> nat) (l r : nat) (m : mat K),
  container_copy_src K NO ncols (cons (l, r) nil) (cons ((l, r), m) nil) (cons (r, l) nil)
  = Done (cons ((r, l), Some (adjoint K NO (ncols r) m)) nil).
Proof. exact FieldOpGenProofs.container_copy_is_adjoint_src. Qed.
Print Assumptions container_copy_is_adjoint_src.

Theorem field_operator_computes_every_part : forall nparts p : nat, Peano.lt p nparts -> List.In p (fo_computed_parts_src nparts).
Proof. exact FieldOpGenProofs.field_operator_computes_every_part. Qed.
Print Assumptions field_operator_computes_every_part.

(** the container filled in several steps, with prepareAll / computeAll AS THE SOURCE HAS THEM: after any history that ends with
    computeAll every operator some prepareAll asked for is Computed, the creation operator is the one computed one by one and the
    annihilation operator is its adjoint; nothing else is in the container *)
Theorem container_history_complete_src :
  forall (V : Type) (single_cx : nat -> V) (adjoint transpose : V -> V) (n : nat) (h : list ContainerHistory.step) (i : nat),
  ContainerHistory.requested n h i ->
  exists c, run_src V single_cx adjoint transpose n (List.app h (cons ContainerHistory.ComputeAll nil)) = Some c /\
            ContainerHistory.get V i c = Some (ContainerHistory.mkEntry (Some (single_cx i)) (Some (adjoint (single_cx i)))).
Proof. exact FieldOpGenProofs.container_history_complete_src. Qed.
Print Assumptions container_history_complete_src.

Theorem container_history_nothing_else_src :
  forall (V : Type) (single_cx : nat -> V) (adjoint transpose : V -> V) (n : nat) (h : list ContainerHistory.step) (i : nat),
  ~ ContainerHistory.requested n h i ->
  exists c, run_src V single_cx adjoint transpose n h = Some c /\ ContainerHistory.get V i c = None.
Proof. exact FieldOpGenProofs.container_history_nothing_else_src. Qed.
Print Assumptions container_history_nothing_else_src.

(** not vacuous: the interpreter run on the description "return if the first annihilation operator is Computed" leaves the operators of
    a second prepareAll uncomputed *)
Theorem early_return_description_breaks :
  let c2 := ContainerHistory.prepare_all nat 4 (cons 2 (cons 3 nil))
              (ContainerHistory.compute_all nat (fun i => Nat.add 10 i) (fun v => Nat.add 100 v)
                 (ContainerHistory.prepare_all nat 4 (cons 0 (cons 1 nil)) nil)) in
  run_pre nat (cons PreReturnIfFirstAnnihilatorComputed nil) c2
          (ContainerHistory.compute_all nat (fun i => Nat.add 10 i) (fun v => Nat.add 100 v)) = Some c2 /\
  ContainerHistory.get nat 2 c2 = Some (ContainerHistory.mkEntry None None).
Proof. exact FieldOpGenProofs.early_return_description_breaks. Qed.
Print Assumptions early_return_description_breaks.
