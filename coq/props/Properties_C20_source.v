(** C20 about the SOURCE TEXT -- the statements of Properties_C20.v once more, about the state machine of PV.LatticeGen, which is
    the hand-written model PV.Lattice rebuilt from the statement-by-statement translations that translator/gen_lattice.py makes of
    src/pomerol/Lattice.cpp and src/pomerol/LatticePresets.cpp on every run (one generated file per function):
      coq/gen/Gen_LatticeInit.v              TermStorage::TermStorage, Lattice::Lattice()
      coq/gen/Gen_LatticeAddSite.v, ..3.v    Lattice::addSite (both overloads), Site::Site
      coq/gen/Gen_LatticeAddTerm.v           Lattice::addTerm: the validation loop, its three tests and their order, the zero test
      coq/gen/Gen_LatticeStorageAddTerm.v    TermStorage::addTerm: the list the term goes to, MaxTermOrder afterwards
      coq/gen/Gen_LatticeGetTerms.v, Gen_LatticeGetMaxTermOrder.v, Gen_LatticeGetSite.v, Gen_LatticeCopy.v
      coq/gen/Gen_LatticeAddCoulombS.v ... Gen_LatticeAddHopping4.v     the eleven LatticePresets functions, whole: look-ups and which
                                             sizes are compared, exception classes, loop ranges, zero tests, which factory is called with
                                             which arguments, which calls go through the validated Lattice::addTerm
    (the arrays of the Lattice::Term::Presets factories themselves are coq/gen/Gen_LatticePresets.v, translator/gen_c20.py, as before).
    Statements only; proofs in PV.LatticeGenProofs: each translation is shown to be the function PV.Lattice has (reflexivity or a
    case analysis on the site look-ups; an induction for the loop of Lattice::addTerm), then the theorem of PV.LatticeProofs is
    transported.  This file stops compiling when a preset drops or weakens a shape comparison, changes a loop bound, guards a
    term by the wrong amplitude, calls another overload, when MaxTermOrder is no longer a maximum, when addTerm validates against
    another site or getSite tests the other way round -- whether or not a run of the library happens to notice.

    [repaired] : the configuration of PV.Lattice with both repairs of /repo (getSite, shape comparison); the source text is shown to
    BE that configuration, so no hypothesis on a configuration remains.  [..._src] : PV.LatticeGen.  [gen_...] : PVgen.Gen_Lattice*. *)
Require Import List Bool Arith QArith.
From PV Require Import Outcome Lattice LatticeProofs LatticeShapes LatticeGen LatticeGenProofs.
From PVgen Require Import Gen_LatticePresets Gen_LatticeInit Gen_LatticeAddSite Gen_LatticeAddSite3 Gen_LatticeAddTerm
                          Gen_LatticeStorageAddTerm Gen_LatticeGetTerms Gen_LatticeGetMaxTermOrder Gen_LatticeGetSite Gen_LatticeCopy
                          Gen_LatticeAddCoulombS Gen_LatticeAddCoulombP6 Gen_LatticeAddCoulombP5 Gen_LatticeAddLevel
                          Gen_LatticeAddMagnetization Gen_LatticeAddSzSz Gen_LatticeAddSS Gen_LatticeAddHopping8
                          Gen_LatticeAddHopping7 Gen_LatticeAddHopping6 Gen_LatticeAddHopping4.
Import ListNotations.
Local Open Scope nat_scope.
Local Open Scope bool_scope.

Definition leqb_ok {L : Type} (leqb : L -> L -> bool) : Prop := forall a b, leqb a b = true <-> a = b.

(** * what the source text says (leaf agreements, one per generated file) *)

Theorem source_init : gen_init_maxorder = 0.
Proof. exact LatticeGenProofs.gen_init_is_model. Qed.
Print Assumptions source_init.

(** addSite stores the site under its own label, overwriting *)
Theorem source_addSite : forall (L S : Type) (l : L) (s : S),
  gen_addSite_entry L S l s = (l, s) /\ gen_addSite_overwrites = true.
Proof. exact LatticeGenProofs.gen_addSite_is_model. Qed.
Print Assumptions source_addSite.

Theorem source_addSite3 : forall (L : Type) (l : L) (a b : nat), gen_addSite3 L l a b = (l, (a, b)).
Proof. exact LatticeGenProofs.gen_addSite3_is_model. Qed.
Print Assumptions source_addSite3.

(** Lattice::addTerm: for every position of the term, in order: unknown label, orbital out of range, spin out of range -- each
    exWrongLabel --, then the term goes to the storage iff its amplitude is non-zero *)
Theorem source_addTerm : forall (L : Type) (leqb : L -> L -> bool) (V : Type) (vo : vops V) (m : site_map L) (t : term L V),
  gen_addTerm L leqb V vo m t = w_addTerm L leqb V vo m t.
Proof. exact LatticeGenProofs.gen_addTerm_is_model. Qed.
Print Assumptions source_addTerm.

(** TermStorage::addTerm: the list of the term's own order; MaxTermOrder becomes the maximum of its old value and that order,
    whether or not a list of that order existed *)
Theorem source_storage_addTerm : forall (mo N : nat) (fresh : bool),
  gen_ts_key N = N /\ gen_ts_maxorder mo N fresh = Nat.max mo N /\ gen_ts_stores_copy = true.
Proof. exact LatticeGenProofs.gen_ts_is_model. Qed.
Print Assumptions source_storage_addTerm.

Theorem source_getTerms : forall (T : Type) (found : option (list T)),
  gen_getTerms T found = match found with Some l => l | None => [] end.
Proof. exact LatticeGenProofs.gen_getTerms_is_model. Qed.
Print Assumptions source_getTerms.

Theorem source_getMaxTermOrder : forall n : nat, gen_getMaxTermOrder n = n.
Proof. exact LatticeGenProofs.gen_getMaxTermOrder_is_model. Qed.
Print Assumptions source_getMaxTermOrder.

(** getSite returns the site found and throws exWrongLabel when there is none (the repaired test) *)
Theorem source_getSite : forall found : option shape,
  gen_getSite found = match found with Some s => Done s | None => Throws exWrongLabel end.
Proof. exact LatticeGenProofs.gen_getSite_is_model. Qed.
Print Assumptions source_getSite.

Theorem source_copy : forall (S T : Type) (s : S) (t : T) (n : nat), gen_copy S T s t n = (s, t, n).
Proof. exact LatticeGenProofs.gen_copy_is_model. Qed.
Print Assumptions source_copy.

(** the presets, whole functions.  [P]: the table the translation reads its callees from. *)
Theorem source_addCoulombS : forall (L : Type) (leqb : L -> L -> bool) (V : Type) (vo : vops V)
  (P : preset_table L V) (m : site_map L) (l : L) (U lev : V),
  gen_addCoulombS4 L leqb V vo P m l U lev = addCoulombS L leqb V vo m l U lev.
Proof. exact LatticeGenProofs.gen_addCoulombS4_is_model. Qed.
Print Assumptions source_addCoulombS.

Theorem source_addCoulombP : forall (L : Type) (leqb : L -> L -> bool) (V : Type) (vo : vops V)
  (P : preset_table L V) (m : site_map L) (l : L) (U Up J lev : V),
  gen_addCoulombP6 L leqb V vo P m l U Up J lev = addCoulombP L leqb V vo m l U Up J lev.
Proof. exact LatticeGenProofs.gen_addCoulombP6_is_model. Qed.
Print Assumptions source_addCoulombP.

Theorem source_addCoulombP_shortcut : forall (L : Type) (leqb : L -> L -> bool) (V : Type) (vo : vops V) (P : preset_table L V),
  (forall m l U Up J lev, p_addCoulombP6 L V P m l U Up J lev = addCoulombP L leqb V vo m l U Up J lev) ->
  forall (m : site_map L) (l : L) (U J lev : V),
  gen_addCoulombP5 L leqb V vo P m l U J lev = addCoulombP3 L leqb V vo m l U J lev.
Proof. exact LatticeGenProofs.gen_addCoulombP5_is_model. Qed.
Print Assumptions source_addCoulombP_shortcut.

Theorem source_addLevel : forall (L : Type) (leqb : L -> L -> bool) (V : Type) (vo : vops V)
  (P : preset_table L V) (m : site_map L) (l : L) (lev : V),
  gen_addLevel3 L leqb V vo P m l lev = addLevel L leqb V vo m l lev.
Proof. exact LatticeGenProofs.gen_addLevel3_is_model. Qed.
Print Assumptions source_addLevel.

Theorem source_addMagnetization : forall (L : Type) (leqb : L -> L -> bool) (V : Type) (vo : vops V)
  (P : preset_table L V) (m : site_map L) (l : L) (mag : V),
  gen_addMagnetization3 L leqb V vo P m l mag = addMagnetization L leqb V vo m l mag.
Proof. exact LatticeGenProofs.gen_addMagnetization3_is_model. Qed.
Print Assumptions source_addMagnetization.

Theorem source_addSzSz : forall (L : Type) (leqb : L -> L -> bool) (V : Type) (vo : vops V)
  (P : preset_table L V) (m : site_map L) (l1 l2 : L) (J : V),
  gen_addSzSz4 L leqb V vo P m l1 l2 J = addSzSz L leqb V vo repaired m l1 l2 J.
Proof. exact LatticeGenProofs.gen_addSzSz4_is_model. Qed.
Print Assumptions source_addSzSz.

Theorem source_addSS : forall (L : Type) (leqb : L -> L -> bool) (V : Type) (vo : vops V) (P : preset_table L V),
  (forall m l1 l2 J, p_addSzSz4 L V P m l1 l2 J = addSzSz L leqb V vo repaired m l1 l2 J) ->
  forall (m : site_map L) (l1 l2 : L) (J : V),
  gen_addSS4 L leqb V vo P m l1 l2 J = addSS L leqb V vo repaired m l1 l2 J.
Proof. exact LatticeGenProofs.gen_addSS4_is_model. Qed.
Print Assumptions source_addSS.

Theorem source_addHopping8 : forall (L : Type) (leqb : L -> L -> bool) (V : Type) (vo : vops V) (P : preset_table L V),
  (forall m t, p_addTerm L V P m t = w_addTerm L leqb V vo m t) ->
  forall (m : site_map L) (l1 l2 : L) (t : V) (o1 o2 s1 s2 : nat),
  gen_addHopping8 L leqb V vo P m l1 l2 t o1 o2 s1 s2 = addHopping8 L leqb V vo m l1 l2 t o1 o2 s1 s2.
Proof. exact LatticeGenProofs.gen_addHopping8_is_model. Qed.
Print Assumptions source_addHopping8.

Theorem source_addHopping7 : forall (L : Type) (leqb : L -> L -> bool) (V : Type) (vo : vops V) (P : preset_table L V),
  (forall m l1 l2 t o1 o2 s1 s2, p_addHopping8 L V P m l1 l2 t o1 o2 s1 s2 = addHopping8 L leqb V vo m l1 l2 t o1 o2 s1 s2) ->
  forall (m : site_map L) (l1 l2 : L) (t : V) (o1 o2 s : nat),
  gen_addHopping7 L leqb V vo P m l1 l2 t o1 o2 s = addHopping7 L leqb V vo m l1 l2 t o1 o2 s.
Proof. exact LatticeGenProofs.gen_addHopping7_is_model. Qed.
Print Assumptions source_addHopping7.

Theorem source_addHopping6 : forall (L : Type) (leqb : L -> L -> bool) (V : Type) (vo : vops V) (P : preset_table L V),
  (forall m l1 l2 t o1 o2 s1 s2, p_addHopping8 L V P m l1 l2 t o1 o2 s1 s2 = addHopping8 L leqb V vo m l1 l2 t o1 o2 s1 s2) ->
  forall (m : site_map L) (l1 l2 : L) (t : V) (o1 o2 : nat),
  gen_addHopping6 L leqb V vo P m l1 l2 t o1 o2 = addHopping6 L leqb V vo repaired m l1 l2 t o1 o2.
Proof. exact LatticeGenProofs.gen_addHopping6_is_model. Qed.
Print Assumptions source_addHopping6.

Theorem source_addHopping4 : forall (L : Type) (leqb : L -> L -> bool) (V : Type) (vo : vops V) (P : preset_table L V),
  (forall m l1 l2 t o1 o2 s1 s2, p_addHopping8 L V P m l1 l2 t o1 o2 s1 s2 = addHopping8 L leqb V vo m l1 l2 t o1 o2 s1 s2) ->
  forall (m : site_map L) (l1 l2 : L) (t : V),
  gen_addHopping4 L leqb V vo P m l1 l2 t = addHopping4 L leqb V vo repaired m l1 l2 t.
Proof. exact LatticeGenProofs.gen_addHopping4_is_model. Qed.
Print Assumptions source_addHopping4.

(** * the state machine built from the translations is the model in its repaired configuration *)

Theorem source_presets_are_model : forall (L : Type) (leqb : L -> L -> bool) (V : Type) (vo : vops V) (m : site_map L) (p : pcall L V),
  preset_src L leqb V vo m p = preset L leqb V vo repaired m p.
Proof. exact LatticeGenProofs.presets_src_is_model. Qed.
Print Assumptions source_presets_are_model.

Theorem source_step_is_model : forall (L : Type) (leqb : L -> L -> bool) (V : Type) (vo : vops V) (o : op L V) (st : state L V),
  step_src L leqb V vo o st = step L leqb V vo repaired o st.
Proof. exact LatticeGenProofs.step_src_is_model. Qed.
Print Assumptions source_step_is_model.

Theorem source_run_is_model : forall (L : Type) (leqb : L -> L -> bool) (V : Type) (vo : vops V) (h : list (op L V)) (st : state L V),
  run_src L leqb V vo h st = run L leqb V vo repaired h st.
Proof. exact LatticeGenProofs.run_src_is_model. Qed.
Print Assumptions source_run_is_model.

(** * C20 about the source-built state machine *)

(** "A term that refers to an unknown site or to an orbital or spin outside the site's range is rejected with an exception and
    leaves the lattice unchanged" *)
Theorem addTerm_rejects_invalid_src :
  forall (L : Type) (leqb : L -> L -> bool) (V : Type) (vo : vops V) (st : state L V) (t : term L V),
  term_wfb L V t = true -> term_valid L leqb V (sites st) t = false ->
  step_src L leqb V vo (AddTerm t) st = (st, Throws exWrongLabel).
Proof. exact LatticeGenProofs.addTerm_rejects_invalid_src. Qed.
Print Assumptions addTerm_rejects_invalid_src.

Theorem factoryTerm_rejects_src :
  forall (L : Type) (leqb : L -> L -> bool) (V : Type) (vo : vops V) (st : state L V) (f : fcall L V),
  (factory_defined L V f = false -> step_src L leqb V vo (AddFactoryTerm f) st = (st, Throws exWrongIndices)) /\
  (forall t, factory L leqb V f = Done t -> term_valid L leqb V (sites st) t = false ->
             step_src L leqb V vo (AddFactoryTerm f) st = (st, Throws exWrongLabel)).
Proof. exact LatticeGenProofs.factoryTerm_rejects_src. Qed.
Print Assumptions factoryTerm_rejects_src.

(** "zero-amplitude terms are ignored" *)
Theorem addTerm_zero_ignored_src :
  forall (L : Type) (leqb : L -> L -> bool) (V : Type) (vo : vops V) (st : state L V) (t : term L V),
  term_wfb L V t = true -> vnz vo (t_val t) = false ->
  step_src L leqb V vo (AddTerm t) st =
  (st, if term_valid L leqb V (sites st) t then Done ONone else Throws exWrongLabel).
Proof. exact LatticeGenProofs.addTerm_zero_ignored_src. Qed.
Print Assumptions addTerm_zero_ignored_src.

(** valid non-zero terms are stored, at the end of the list of their order *)
Theorem addTerm_accepts_valid_src :
  forall (L : Type) (leqb : L -> L -> bool) (V : Type) (vo : vops V) (st : state L V) (t : term L V),
  term_wfb L V t = true -> term_valid L leqb V (sites st) t = true -> vnz vo (t_val t) = true ->
  step_src L leqb V vo (AddTerm t) st = (ts_add_src L V t st, Done ONone) /\
  sites (ts_add_src L V t st) = sites st /\
  forall n, getTerms_src L V (ts_add_src L V t st) n =
            if t_order t =? n then getTerms_src L V st n ++ [t] else getTerms_src L V st n.
Proof. exact LatticeGenProofs.addTerm_accepts_valid_src. Qed.
Print Assumptions addTerm_accepts_valid_src.

(** "presets reject index combinations for which they are undefined" -- and leave the lattice unchanged *)
Theorem presets_reject_undefined_src :
  forall (L : Type) (leqb : L -> L -> bool) (V : Type) (vo : vops V) (st : state L V) (p : pcall L V),
  preset_defined L leqb V (sites st) p = false ->
  exists c, step_src L leqb V vo (Preset p) st = (st, Throws c).
Proof. exact LatticeGenProofs.presets_reject_undefined_src. Qed.
Print Assumptions presets_reject_undefined_src.

Theorem presets_accept_defined_src :
  forall (L : Type) (leqb : L -> L -> bool) (V : Type) (vo : vops V) (st : state L V) (p : pcall L V),
  preset_defined L leqb V (sites st) p = true ->
  exists ps, step_src L leqb V vo (Preset p) st = (push_all_src L V ps st, Done ONone) /\
             Forall (fun t => term_valid L leqb V (sites st) t = true) ps.
Proof. exact LatticeGenProofs.presets_accept_defined_src. Qed.
Print Assumptions presets_accept_defined_src.

(** whenever ANY call ends with an exception the lattice is what it was *)
Theorem exception_leaves_lattice_unchanged_src :
  forall (L : Type) (leqb : L -> L -> bool) (V : Type) (vo : vops V) (o : op L V) (st st' : state L V) (c : nat),
  op_wf L V o -> step_src L leqb V vo o st = (st', Throws c) -> st' = st.
Proof. exact LatticeGenProofs.exception_leaves_lattice_unchanged_src. Qed.
Print Assumptions exception_leaves_lattice_unchanged_src.

(** what a call stores is valid for the sites of that moment ... *)
Theorem pushes_valid_when_stored_src :
  forall (L : Type) (leqb : L -> L -> bool) (V : Type) (vo : vops V) (o : op L V) (st : state L V),
  op_wf L V o ->
  Forall (fun t => term_valid L leqb V (sites st) t = true) (fst (effect_src L leqb V vo (sites st) o)).
Proof. exact LatticeGenProofs.pushes_valid_when_stored_src. Qed.
Print Assumptions pushes_valid_when_stored_src.

(** ... and after every history that does not shrink a site, every stored term refers to existing sites and in-range indices
    ([history_ok]: the side condition of Properties_C20.stored_terms_valid, stated on the model's run, which [source_run_is_model]
    identifies with the source-built run) *)
Theorem stored_terms_valid_src :
  forall (L : Type) (leqb : L -> L -> bool) (V : Type) (vo : vops V), leqb_ok leqb ->
  forall (h : list (op L V)),
  history_ok L leqb V vo repaired h (init L V) ->
  forall n t, In t (getTerms_src L V (run_src L leqb V vo h (init_src L V)) n) ->
              term_valid L leqb V (sites (run_src L leqb V vo h (init_src L V))) t = true.
Proof. exact LatticeGenProofs.stored_terms_valid_src. Qed.
Print Assumptions stored_terms_valid_src.

(** "Looking up a site by label returns the site that was added under that label and fails for unknown labels" *)
Theorem getSite_spec_src :
  forall (L : Type) (leqb : L -> L -> bool) (V : Type) (vo : vops V), leqb_ok leqb ->
  forall (h : list (op L V)) (l : L),
  step_src L leqb V vo (GetSite l) (run_src L leqb V vo h (init_src L V)) =
  (run_src L leqb V vo h (init_src L V),
   match last_added L leqb V l h None with Some s => Done (OSite s) | None => Throws exWrongLabel end).
Proof. exact LatticeGenProofs.getSite_spec_src. Qed.
Print Assumptions getSite_spec_src.

Theorem getSite_after_addSite_src :
  forall (L : Type) (leqb : L -> L -> bool) (V : Type) (vo : vops V), leqb_ok leqb ->
  forall (h1 h2 : list (op L V)) (l : L) (a b : nat),
  not_readded L V l h2 ->
  snd (step_src L leqb V vo (GetSite l) (run_src L leqb V vo (h1 ++ AddSite l a b :: h2) (init_src L V)))
  = Done (OSite (a, b)).
Proof. exact LatticeGenProofs.getSite_after_addSite_src. Qed.
Print Assumptions getSite_after_addSite_src.

Theorem getSite_unknown_fails_src :
  forall (L : Type) (leqb : L -> L -> bool) (V : Type) (vo : vops V), leqb_ok leqb ->
  forall (h : list (op L V)) (l : L),
  not_readded L V l h ->
  step_src L leqb V vo (GetSite l) (run_src L leqb V vo h (init_src L V)) =
  (run_src L leqb V vo h (init_src L V), Throws exWrongLabel).
Proof. exact LatticeGenProofs.getSite_unknown_fails_src. Qed.
Print Assumptions getSite_unknown_fails_src.

(** "terms are retrievable by order": getTerms n = the accepted terms of order n, in the order of acceptance;
    MaxTermOrder = the largest accepted order, whatever the order of the calls *)
Theorem getTerms_by_order_src :
  forall (L : Type) (leqb : L -> L -> bool) (V : Type) (vo : vops V) (h : list (op L V)) (n : nat),
  step_src L leqb V vo (GetTerms n) (run_src L leqb V vo h (init_src L V)) =
  (run_src L leqb V vo h (init_src L V),
   Done (OTerms (filter (fun t => t_order t =? n) (accepted_src L leqb V vo h (init_src L V))))).
Proof. exact LatticeGenProofs.getTerms_by_order_src. Qed.
Print Assumptions getTerms_by_order_src.

Theorem maxOrder_spec_src :
  forall (L : Type) (leqb : L -> L -> bool) (V : Type) (vo : vops V) (h : list (op L V)),
  step_src L leqb V vo MaxOrder (run_src L leqb V vo h (init_src L V)) =
  (run_src L leqb V vo h (init_src L V),
   Done (ONat (fold_left Nat.max (map t_order (accepted_src L leqb V vo h (init_src L V))) 0))).
Proof. exact LatticeGenProofs.maxOrder_spec_src. Qed.
Print Assumptions maxOrder_spec_src.

(** "a copied lattice defines the same model" *)
Theorem copy_same_model_src :
  forall (L V : Type) (st : state L V),
  copy_src L V st = st /\ sites (copy_src L V st) = sites st /\
  (forall n, getTerms_src L V (copy_src L V st) n = getTerms_src L V st n) /\
  maxorder_src L V (copy_src L V st) = maxorder_src L V st.
Proof. exact LatticeGenProofs.copy_same_model_src. Qed.
Print Assumptions copy_same_model_src.

Theorem copy_behaves_the_same_src :
  forall (L : Type) (leqb : L -> L -> bool) (V : Type) (vo : vops V) (o : op L V) (st : state L V),
  step_src L leqb V vo o (fst (step_src L leqb V vo Copy st)) = step_src L leqb V vo o st.
Proof. exact LatticeGenProofs.copy_behaves_the_same_src. Qed.
Print Assumptions copy_behaves_the_same_src.

(** no undefined behaviour *)
Theorem no_undefined_behaviour_src :
  forall (L : Type) (leqb : L -> L -> bool) (V : Type) (vo : vops V) (o : op L V) (st : state L V),
  op_wf L V o -> snd (step_src L leqb V vo o st) <> OOB.
Proof. exact LatticeGenProofs.no_undefined_behaviour_src. Qed.
Print Assumptions no_undefined_behaviour_src.

(** the judgement the check applies to every observed call accepts everything the source-built machine does *)
Theorem judge_sound_src :
  forall (L : Type) (leqb : L -> L -> bool) (V : Type) (vo : vops V), leqb_ok leqb ->
  forall (o : op L V) (st : state L V),
  (forall v, veqb vo v v = true) -> op_wf L V o ->
  judge L leqb V vo (sites st) o (is_exn (snd (step_src L leqb V vo o st)))
        (fst (effect_src L leqb V vo (sites st) o)) = [].
Proof. exact LatticeGenProofs.judge_sound_src. Qed.
Print Assumptions judge_sound_src.
