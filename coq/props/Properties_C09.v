(** C09 -- Density matrix is the normalised Gibbs state; averages are its traces.
    Statements only; proofs are in PV.ThermalProofs (model: PV.Thermal, instance at R and full-space
    specification: PV.ThermalSpec; satisfiability of the hypotheses: PV.ThermalExamples).

    Reading guide.  [Rdm_compute beta H = Done D] says: DensityMatrix::prepare + compute on the diagonalised blocks
    H (eigenvalues, eigenvectors, Fock states per block) returned the parts D.  [weight_at D a s] is the weight of
    eigenstate s of block a, [energy_at H a s] its eigenvalue, [valid_state H a s] says (a, s) names an eigenstate.
    Both builds are covered: the weight statements involve real numbers only (RealType in either build); the
    trace statements are stated over R for the default build and, as ..._complex, over C for
    POMEROL_COMPLEX_MATRIX_ELEMENTS (PV.ThermalTraces proves them once over any commutative ring with an
    involution, using of the modulus only |v*v| = v conj(v); PV.ThermalComplex instantiates at Coquelicot's C). *)
Require Import Reals List Arith.
From Coquelicot Require Import Complex.
From PV Require Import Outcome Thermal ThermalSpec ThermalProofs ThermalExamples ThermalTraces ThermalComplex.
Import ListNotations.
Local Open Scope R_scope.

(** Hamiltonian::computeGroundEnergy returns the smallest eigenvalue of all blocks, and it is attained. *)
Theorem ground_energy_is_min : forall H : list Rhpart,
  H <> [] -> (forall hp, In hp H -> hp_eig R hp <> []) ->
  exists g, Rground_energy H = Done g /\
            (exists hp, In hp H /\ In g (hp_eig R hp)) /\
            (forall hp e, In hp H -> In e (hp_eig R hp) -> g <= e).
Proof. exact ThermalProofs.ground_energy_is_min. Qed.
Print Assumptions ground_energy_is_min.

(** w(a,s) = exp(-beta (E(a,s) - E_ground)) / Z with Z > 0 the sum of all unnormalised weights. *)
Theorem weights_closed_form : forall (beta : R) (H : list Rhpart) (D : list Rdmpart),
  Rdm_compute beta H = Done D ->
  exists g Z, Rground_energy H = Done g /\ 0 < Z /\ Z = Zsum beta g H /\ length D = length H /\
    forall a s, valid_state H a s -> weight_at D a s = exp (- beta * (energy_at H a s - g)) / Z.
Proof. exact ThermalProofs.weights_closed_form. Qed.
Print Assumptions weights_closed_form.

(** Statistical weights are positive, hence non-negative: every model, every beta (of either sign). *)
Theorem weights_nonneg : forall (beta : R) (H : list Rhpart) (D : list Rdmpart),
  Rdm_compute beta H = Done D -> forall a s, valid_state H a s -> 0 < weight_at D a s.
Proof. exact ThermalProofs.weights_nonneg. Qed.
Print Assumptions weights_nonneg.

(** They sum to one. *)
Theorem weights_sum_one : forall (beta : R) (H : list Rhpart) (D : list Rdmpart),
  Rdm_compute beta H = Done D -> total_weight D = 1.
Proof. exact ThermalProofs.weights_sum_one. Qed.
Print Assumptions weights_sum_one.

(** getPartialZ of a block is the sum of the block's weights; the partial sums add up to one. *)
Theorem partial_Z_is_block_sum : forall (beta : R) (H : list Rhpart) (D : list Rdmpart),
  Rdm_compute beta H = Done D ->
  (forall dp, In dp D -> dp_zpart R dp = lsum (fun w => w) (dp_weights R dp)) /\ lsum (dp_zpart R) D = 1.
Proof. exact ThermalProofs.partial_Z_is_block_sum. Qed.
Print Assumptions partial_Z_is_block_sum.

(** Any two weights, in any blocks, are in the ratio exp(-beta (E_a - E_b)). *)
Theorem weights_ratio : forall (beta : R) (H : list Rhpart) (D : list Rdmpart),
  Rdm_compute beta H = Done D ->
  forall a s b t, valid_state H a s -> valid_state H b t ->
    weight_at D a s / weight_at D b t = exp (- beta * (energy_at H a s - energy_at H b t)).
Proof. exact ThermalProofs.weights_ratio. Qed.
Print Assumptions weights_ratio.

(** "They stay finite and normalised however large beta times the bandwidth or the offset is":
    for beta >= 0 every unnormalised weight exp(-beta (E - E_ground)) lies in (0, 1] -- the exponent is never
    positive because the ground energy is the minimum, so exp cannot overflow ... *)
Theorem unnormalised_in_unit_interval : forall (beta : R) (H : list Rhpart) (g : R),
  0 <= beta -> Rground_energy H = Done g ->
  forall hp e, In hp H -> In e (hp_eig R hp) -> 0 < Runnormalized_weight beta g e <= 1.
Proof. exact ThermalProofs.unnormalised_in_unit_interval. Qed.
Print Assumptions unnormalised_in_unit_interval.

(** ... the partition function they are divided by is between 1 and the number of states ... *)
Theorem Z_ge_one : forall (beta : R) (H : list Rhpart) (g : R),
  0 <= beta -> Rground_energy H = Done g ->
  1 <= Rdm_Z (Rdm_unnormalized beta g H) <= INR (total_states H).
Proof. exact ThermalProofs.Z_ge_one. Qed.
Print Assumptions Z_ge_one.

(** ... every normalised weight is at most 1 ... *)
Theorem weights_le_one : forall (beta : R) (H : list Rhpart) (D : list Rdmpart),
  Rdm_compute beta H = Done D -> forall dp w, In dp D -> In w (dp_weights R dp) -> w <= 1.
Proof. exact ThermalProofs.weights_le_one. Qed.
Print Assumptions weights_le_one.

(** ... and adding one constant to every eigenvalue (an overall energy offset) leaves the whole density-matrix
    object unchanged: weights, partial sums, flags. *)
Theorem weights_offset_invariant : forall (beta c : R) (H : list Rhpart) (D : list Rdmpart),
  Rdm_compute beta H = Done D -> Rdm_compute beta (map (shift_hpart c) H) = Done D.
Proof. exact ThermalProofs.weights_offset_invariant. Qed.
Print Assumptions weights_offset_invariant.

(** * Averages = traces with rho on the FULL Fock space.
    [fock] lists all Fock states once; every block's states are distinct members of it; vectors of a block have
    the block's size ([wf_hpart]).  rho f g = Sum_n w_n <f|n><n|g> with |n> the block eigenvectors padded with
    zeros ([comp]); trace_rho_op O = Sum_{f,g} rho f g * O g f. *)

(** The Fock-basis trace equals Sum_n w_n <n|O|n>, the form the float oracle (EDSpec.trace_rho) evaluates. *)
Theorem trace_eigen_form : forall (fock : list nat) (H : list Rhpart) (D : list Rdmpart) (O : nat -> nat -> R),
  trace_rho_op fock H D O = sum_states H D (expect fock O).
Proof. exact ThermalProofs.trace_eigen_form. Qed.
Print Assumptions trace_eigen_form.

(** Tr rho = total weight (= 1), given normalised eigenvectors. *)
Theorem trace_rho_is_total_weight : forall (fock : list nat) (H : list Rhpart) (D : list Rdmpart),
  NoDup fock -> (forall hp, In hp H -> wf_hpart hp) -> (forall hp, In hp H -> incl (hp_states R hp) fock) ->
  length D = length H ->
  (forall hd, In hd (combine H D) -> length (dp_weights R (snd hd)) = hp_size R (fst hd)) ->
  (forall hp s, In hp H -> (s < hp_size R hp)%nat -> lsum (fun f => comp hp s f * comp hp s f) fock = 1) ->
  trace_rho_op fock H D (diag_op (fun _ => 1)) = total_weight D.
Proof. exact ThermalProofs.trace_rho_is_total_weight. Qed.
Print Assumptions trace_rho_is_total_weight.

(** Average energy = Tr(rho Hm) for any matrix Hm on the Fock space of which the assembled eigenvectors are
    normalised eigenvectors with the stored eigenvalues (what the per-run certificate CERT establishes). *)
Theorem avg_energy_is_trace : forall (fock : list nat) (H : list Rhpart) (D : list Rdmpart) (Hm : nat -> nat -> R),
  (* eigen_equation *)
  (forall hp s f, In hp H -> (s < hp_size R hp)%nat -> In f fock ->
     lsum (fun g => Hm f g * comp hp s g) fock = nth s (hp_eig R hp) 0 * comp hp s f) ->
  (* eigenvectors_normalised *)
  (forall hp s, In hp H -> (s < hp_size R hp)%nat -> lsum (fun f => comp hp s f * comp hp s f) fock = 1) ->
  (* weights_sized *)
  (forall hd, In hd (combine H D) -> length (dp_weights R (snd hd)) = hp_size R (fst hd)) ->
  Rdm_average_energy H D = trace_rho_op fock H D Hm.
Proof. exact ThermalProofs.avg_energy_is_trace. Qed.
Print Assumptions avg_energy_is_trace.

(** Per-index occupancy (|v_fi|^2 times test(i) of the Fock state, weighted) = Tr(rho n_i); an index beyond the
    number of modes is an out-of-bounds read of the bit string. *)
Theorem occupancy_is_trace : forall (fock : list nat) (H : list Rhpart) (D : list Rdmpart),
  NoDup fock -> (forall hp, In hp H -> wf_hpart hp) -> (forall hp, In hp H -> incl (hp_states R hp) fock) ->
  forall M i : nat, (i < M)%nat ->
  Rdm_average_occupancy_i M i H D = Done (trace_rho_op fock H D (op_n i)).
Proof. exact ThermalProofs.occupancy_is_trace. Qed.
Print Assumptions occupancy_is_trace.

(** Total occupancy = Tr(rho N). *)
Theorem total_occupancy_is_trace : forall (fock : list nat) (H : list Rhpart) (D : list Rdmpart),
  NoDup fock -> (forall hp, In hp H -> wf_hpart hp) -> (forall hp, In hp H -> incl (hp_states R hp) fock) ->
  forall M : nat, Rdm_average_occupancy M H D = trace_rho_op fock H D (op_N M).
Proof. exact ThermalProofs.total_occupancy_is_trace. Qed.
Print Assumptions total_occupancy_is_trace.

(** Double occupancy = Tr(rho n_i n_j). *)
Theorem double_occ_is_trace : forall (fock : list nat) (H : list Rhpart) (D : list Rdmpart),
  NoDup fock -> (forall hp, In hp H -> wf_hpart hp) -> (forall hp, In hp H -> incl (hp_states R hp) fock) ->
  forall M i j : nat, (i < M)%nat -> (j < M)%nat ->
  Rdm_average_double_occupancy M i j H D = Done (trace_rho_op fock H D (op_nn i j)).
Proof. exact ThermalProofs.double_occ_is_trace. Qed.
Print Assumptions double_occ_is_trace.

(** Ensemble average of an operator O stored block-wise in the eigenbasis (EnsembleAverage on a
    QuadraticOperator c^+_i c_j) = Tr(rho O); only diagonal blocks contribute.  Hypotheses on the operator data:
    [rotated] the stored diagonal elements are <b,n|O|b,n> (C10), [bimap_complete] blocks without a diagonal part
    have vanishing diagonal elements of O (C07/C10), left indices distinct and in range, nothing truncated. *)
Theorem ensemble_average_is_trace : forall (fock : list nat) (H : list Rhpart) (D : list Rdmpart),
  length D = length H ->
  (forall hd, In hd (combine H D) -> length (dp_weights R (snd hd)) = hp_size R (fst hd)) ->
  forall (A : fieldop R) (O : nat -> nat -> R),
  NoDup (map (op_left R) A) ->
  (forall p, In p A -> (op_left R p < length H)%nat) ->
  (forall p, In p A -> op_left R p = op_right R p ->
     length (op_mat R p) = hp_size R (nth (op_left R p) H dummy_hp) /\
     forall n, (n < hp_size R (nth (op_left R p) H dummy_hp))%nat ->
       coeff R 0 (op_mat R p) n n = expect fock O (nth (op_left R p) H dummy_hp) n) ->
  (forall b, (b < length H)%nat -> (forall p, In p A -> op_left R p = op_right R p -> op_left R p <> b) ->
     forall s, (s < hp_size R (nth b H dummy_hp))%nat -> expect fock O (nth b H dummy_hp) s = 0) ->
  (forall b, (b < length D)%nat -> Ris_retained D b = true) ->
  Rea_prepare A D = Done (trace_rho_op fock H D O).
Proof. exact ThermalProofs.ensemble_average_is_trace. Qed.
Print Assumptions ensemble_average_is_trace.

(** * The same statements for the complex build (eigenvectors and operator matrices over C).
    Ccomp, Ctrace_rho_op, Cexpect are the full-space specification at C:
    rho f g = Sum_n w_n <f|n> conj(<g|n>), Tr(rho O) = Sum_{f,g} rho f g O g f, <n|O|n> = Sum conj(<f|n>) O f g <g|n>. *)

Theorem trace_eigen_form_complex : forall (fock : list nat) (H : list Chpart) (D : list Cdmpart) (O : nat -> nat -> C),
  Ctrace_rho_op fock H D O = sum_statesK C C0 Cplus Cmult H D (Cexpect fock O).
Proof. exact ThermalComplex.trace_eigen_form_complex. Qed.
Print Assumptions trace_eigen_form_complex.

Theorem avg_energy_is_trace_complex : forall (fock : list nat) (H : list Chpart) (D : list Cdmpart) (Hm : nat -> nat -> C),
  (forall hp s f, In hp H -> (s < hp_size C hp)%nat -> In f fock ->
     Csum (fun g => Cmult (Hm f g) (Ccomp hp s g)) fock = Cmult (nth s (hp_eig C hp) C0) (Ccomp hp s f)) ->
  (forall hp s, In hp H -> (s < hp_size C hp)%nat -> Csum (fun f => Cmult (Cconj (Ccomp hp s f)) (Ccomp hp s f)) fock = C1) ->
  (forall hd, In hd (combine H D) -> length (dp_weights C (snd hd)) = hp_size C (fst hd)) ->
  Cdm_average_energy H D = Ctrace_rho_op fock H D Hm.
Proof. exact ThermalComplex.avg_energy_is_trace_complex. Qed.
Print Assumptions avg_energy_is_trace_complex.

Theorem occupancy_is_trace_complex : forall (fock : list nat) (H : list Chpart) (D : list Cdmpart),
  NoDup fock -> (forall hp, In hp H -> wf_hpartK C hp) -> (forall hp, In hp H -> incl (hp_states C hp) fock) ->
  forall M i : nat, (i < M)%nat ->
  Cdm_average_occupancy_i M i H D = Done (Ctrace_rho_op fock H D (Cdiag_op (fun f => Cb2 (Nat.testbit f i)))).
Proof. exact ThermalComplex.occupancy_is_trace_complex. Qed.
Print Assumptions occupancy_is_trace_complex.

Theorem total_occupancy_is_trace_complex : forall (fock : list nat) (H : list Chpart) (D : list Cdmpart),
  NoDup fock -> (forall hp, In hp H -> wf_hpartK C hp) -> (forall hp, In hp H -> incl (hp_states C hp) fock) ->
  forall M : nat,
  Cdm_average_occupancy M H D = Ctrace_rho_op fock H D (Cdiag_op (fun f => CofNat (popcount M f))).
Proof. exact ThermalComplex.total_occupancy_is_trace_complex. Qed.
Print Assumptions total_occupancy_is_trace_complex.

Theorem double_occ_is_trace_complex : forall (fock : list nat) (H : list Chpart) (D : list Cdmpart),
  NoDup fock -> (forall hp, In hp H -> wf_hpartK C hp) -> (forall hp, In hp H -> incl (hp_states C hp) fock) ->
  forall M i j : nat, (i < M)%nat -> (j < M)%nat ->
  Cdm_average_double_occupancy M i j H D =
  Done (Ctrace_rho_op fock H D (Cdiag_op (fun f => Cmult (Cb2 (Nat.testbit f i)) (Cb2 (Nat.testbit f j))))).
Proof. exact ThermalComplex.double_occ_is_trace_complex. Qed.
Print Assumptions double_occ_is_trace_complex.

Theorem ensemble_average_is_trace_complex : forall (fock : list nat) (H : list Chpart) (D : list Cdmpart),
  length D = length H ->
  (forall hd, In hd (combine H D) -> length (dp_weights C (snd hd)) = hp_size C (fst hd)) ->
  forall (A : fieldop C) (O : nat -> nat -> C),
  NoDup (map (op_left C) A) ->
  (forall p, In p A -> (op_left C p < length H)%nat) ->
  (forall p, In p A -> op_left C p = op_right C p ->
     length (op_mat C p) = hp_size C (nth (op_left C p) H (dummy_hpK C)) /\
     forall n, (n < hp_size C (nth (op_left C p) H (dummy_hpK C)))%nat ->
       coeff C C0 (op_mat C p) n n = Cexpect fock O (nth (op_left C p) H (dummy_hpK C)) n) ->
  (forall b, (b < length H)%nat -> (forall p, In p A -> op_left C p = op_right C p -> op_left C p <> b) ->
     forall s, (s < hp_size C (nth b H (dummy_hpK C)))%nat -> Cexpect fock O (nth b H (dummy_hpK C)) s = C0) ->
  (forall b, (b < length D)%nat -> is_retained C D b = true) ->
  Cea_prepare A D = Done (Ctrace_rho_op fock H D O).
Proof. exact ThermalComplex.ensemble_average_is_trace_complex. Qed.
Print Assumptions ensemble_average_is_trace_complex.
