(** C05 -- the symbolic operator algebra (Pomerol::Operator) faithfully represents the
    fermionic algebra.  Statements only; the proofs are in PV.CAR, PV.NormalizeProofs,
    PV.AlgebraBasics and PV.AlgebraProofs.

    Reading guide.  [Fock.act_mono m s] is the model of Operator::actRight(monomial, ket):
    OOB, zero ([Done None]) or a sign and a basis state.  [coef_mono m s t] = <t|m|s> and
    [coef_poly p s t] = <t|P|s> (PV.PolySem) are the matrix elements on the Fock space of bit
    strings; [all_states M] enumerates the 2^M basis states.  The coefficient ring K is
    arbitrary: [ring_ok] asks for the commutative-ring laws and for [kzero] (the model of the
    C++ test |c| < 100 eps) to be the exact zero test. *)
Require Import Bool List Arith ZArith Ring_theory.
From PV Require Import Outcome Fock Poly PolySem CAR NormalizeProofs AlgebraBasics AlgebraProofs PolyVec.
Import ListNotations.

(** * 1. The canonical anticommutation relations for the action on Fock states *)

(** operators on different modes anticommute: a b |s> = - b a |s> *)
Theorem anticommute_distinct : forall (a b : op) (s : state),
  op_idx a <> op_idx b -> op_idx a < length s -> op_idx b < length s ->
  exists r : option (bool * state),
    act_mono [a; b] s = Done r /\
    act_mono [b; a] s = Done (match r with Some (sg, u) => Some (negb sg, u) | None => None end).
Proof. exact CAR.anticommute_distinct. Qed.
Print Assumptions anticommute_distinct.

(** Pauli principle: c_i c_i = 0 and c^+_i c^+_i = 0 *)
Theorem same_op_twice : forall (o : op) (s : state),
  op_idx o < length s -> act_mono [o; o] s = Done None.
Proof. exact CAR.same_op_twice. Qed.
Print Assumptions same_op_twice.

(** c_i c^+_i + c^+_i c_i = 1: exactly one of the two products is non-zero and gives |s> back *)
Theorem car_same_index : forall (i : nat) (s : state), i < length s ->
  (act_mono [cann i; cdag i] s = Done (Some (false, s)) /\ act_mono [cdag i; cann i] s = Done None) \/
  (act_mono [cann i; cdag i] s = Done None /\ act_mono [cdag i; cann i] s = Done (Some (false, s))).
Proof. exact CAR.car_same_index. Qed.
Print Assumptions car_same_index.

(** * 2. normalize_and_insert (the normal-ordering bubble sort with contractions) *)

(** it adds exactly c * (matrix of the raw monomial) to the target *)
Theorem normalize_sound :
  forall (K : Type) (k0 k1 : K) (kadd kmul ksub : K -> K -> K) (kopp : K -> K) (kzero : K -> bool),
  ring_ok K k0 k1 kadd kmul ksub kopp kzero ->
  forall (M : nat) (m : monomial) (c : K) (tgt tgt' : poly K) (s t : state),
  mono_in_range M m -> length s = M ->
  normalize K kadd kopp kzero m c tgt = Done tgt' ->
  coef_poly K k0 k1 kadd kmul kopp tgt' s t =
  kadd (coef_poly K k0 k1 kadd kmul kopp tgt s t) (kmul c (coef_mono K k0 k1 kopp m s t)).
Proof. exact NormalizeProofs.normalize_sound. Qed.
Print Assumptions normalize_sound.

(** it terminates within the model's fuel and never fails *)
Theorem normalize_total :
  forall (K : Type) (kadd : K -> K -> K) (kopp : K -> K) (kzero : K -> bool)
         (m : monomial) (c : K) (tgt : poly K),
  exists tgt', normalize K kadd kopp kzero m c tgt = Done tgt'.
Proof. exact NormalizeProofs.normalize_total. Qed.
Print Assumptions normalize_total.

(** it keeps the map sorted and only inserts normal-ordered keys *)
Theorem normalize_wf :
  forall (K : Type) (kadd : K -> K -> K) (kopp : K -> K) (kzero : K -> bool)
         (m : monomial) (c : K) (tgt tgt' : poly K),
  poly_sorted K tgt -> poly_normal K tgt -> normalize K kadd kopp kzero m c tgt = Done tgt' ->
  poly_sorted K tgt' /\ poly_normal K tgt'.
Proof. exact NormalizeProofs.normalize_wf. Qed.
Print Assumptions normalize_wf.

(** * 3. Linear operations *)

Theorem padd_sound :
  forall (K : Type) (k0 k1 : K) (kadd kmul ksub : K -> K -> K) (kopp : K -> K) (kzero : K -> bool),
  ring_ok K k0 k1 kadd kmul ksub kopp kzero ->
  forall (a b : poly K) (s t : state),
  coef_poly K k0 k1 kadd kmul kopp (padd K kadd kzero a b) s t =
  kadd (coef_poly K k0 k1 kadd kmul kopp a s t) (coef_poly K k0 k1 kadd kmul kopp b s t).
Proof. exact AlgebraBasics.padd_sound. Qed.
Print Assumptions padd_sound.

Theorem psub_sound :
  forall (K : Type) (k0 k1 : K) (kadd kmul ksub : K -> K -> K) (kopp : K -> K) (kzero : K -> bool),
  ring_ok K k0 k1 kadd kmul ksub kopp kzero ->
  forall (a b : poly K) (s t : state),
  coef_poly K k0 k1 kadd kmul kopp (psub K ksub kopp kzero a b) s t =
  ksub (coef_poly K k0 k1 kadd kmul kopp a s t) (coef_poly K k0 k1 kadd kmul kopp b s t).
Proof. exact AlgebraBasics.psub_sound. Qed.
Print Assumptions psub_sound.

Theorem pneg_sound :
  forall (K : Type) (k0 k1 : K) (kadd kmul ksub : K -> K -> K) (kopp : K -> K) (kzero : K -> bool),
  ring_ok K k0 k1 kadd kmul ksub kopp kzero ->
  forall (a : poly K) (s t : state),
  coef_poly K k0 k1 kadd kmul kopp (pneg K kopp a) s t = kopp (coef_poly K k0 k1 kadd kmul kopp a s t).
Proof. exact AlgebraBasics.pneg_sound. Qed.
Print Assumptions pneg_sound.

(** operator*=(MelemType), including the branch that clears the map when |alpha| is "zero" *)
Theorem pscale_sound :
  forall (K : Type) (k0 k1 : K) (kadd kmul ksub : K -> K -> K) (kopp : K -> K) (kzero : K -> bool),
  ring_ok K k0 k1 kadd kmul ksub kopp kzero ->
  forall (alpha : K) (a : poly K) (s t : state),
  coef_poly K k0 k1 kadd kmul kopp (pscale K kmul kzero alpha a) s t =
  kmul alpha (coef_poly K k0 k1 kadd kmul kopp a s t).
Proof. exact AlgebraBasics.pscale_sound. Qed.
Print Assumptions pscale_sound.

(** * 4. Products *)

(** operator*= never fails ... *)
Theorem pmul_total :
  forall (K : Type) (kadd kmul : K -> K -> K) (kopp : K -> K) (kzero : K -> bool) (a b : poly K),
  exists ab, pmul K kadd kmul kopp kzero a b = Done ab.
Proof. exact AlgebraProofs.pmul_total. Qed.
Print Assumptions pmul_total.

(** ... and the matrix of A*B is the product of the matrices on the M-mode Fock space *)
Theorem pmul_sound :
  forall (K : Type) (k0 k1 : K) (kadd kmul ksub : K -> K -> K) (kopp : K -> K) (kzero : K -> bool),
  ring_ok K k0 k1 kadd kmul ksub kopp kzero ->
  forall (M : nat) (a b ab : poly K) (s t : state),
  poly_in_range K M a -> poly_in_range K M b -> length s = M -> length t = M ->
  pmul K kadd kmul kopp kzero a b = Done ab ->
  coef_poly K k0 k1 kadd kmul kopp ab s t =
  ksum K k0 kadd (all_states M)
       (fun u => kmul (coef_poly K k0 k1 kadd kmul kopp a u t) (coef_poly K k0 k1 kadd kmul kopp b s u)).
Proof. exact AlgebraProofs.pmul_sound. Qed.
Print Assumptions pmul_sound.

Theorem commutator_sound :
  forall (K : Type) (k0 k1 : K) (kadd kmul ksub : K -> K -> K) (kopp : K -> K) (kzero : K -> bool),
  ring_ok K k0 k1 kadd kmul ksub kopp kzero ->
  forall (M : nat) (a b r : poly K) (s t : state),
  poly_in_range K M a -> poly_in_range K M b -> length s = M -> length t = M ->
  commutator K kadd kmul ksub kopp kzero a b = Done r ->
  coef_poly K k0 k1 kadd kmul kopp r s t =
  ksub (ksum K k0 kadd (all_states M)
          (fun u => kmul (coef_poly K k0 k1 kadd kmul kopp a u t) (coef_poly K k0 k1 kadd kmul kopp b s u)))
       (ksum K k0 kadd (all_states M)
          (fun u => kmul (coef_poly K k0 k1 kadd kmul kopp b u t) (coef_poly K k0 k1 kadd kmul kopp a s u))).
Proof. exact AlgebraProofs.commutator_sound. Qed.
Print Assumptions commutator_sound.

Theorem anticommutator_sound :
  forall (K : Type) (k0 k1 : K) (kadd kmul ksub : K -> K -> K) (kopp : K -> K) (kzero : K -> bool),
  ring_ok K k0 k1 kadd kmul ksub kopp kzero ->
  forall (M : nat) (a b r : poly K) (s t : state),
  poly_in_range K M a -> poly_in_range K M b -> length s = M -> length t = M ->
  anticommutator K kadd kmul kopp kzero a b = Done r ->
  coef_poly K k0 k1 kadd kmul kopp r s t =
  kadd (ksum K k0 kadd (all_states M)
          (fun u => kmul (coef_poly K k0 k1 kadd kmul kopp a u t) (coef_poly K k0 k1 kadd kmul kopp b s u)))
       (ksum K k0 kadd (all_states M)
          (fun u => kmul (coef_poly K k0 k1 kadd kmul kopp b u t) (coef_poly K k0 k1 kadd kmul kopp a s u))).
Proof. exact AlgebraProofs.anticommutator_sound. Qed.
Print Assumptions anticommutator_sound.

(** a product only mentions modes that its factors mention ... *)
Theorem pmul_range :
  forall (K : Type) (kadd kmul : K -> K -> K) (kopp : K -> K) (kzero : K -> bool)
         (M : nat) (a b ab : poly K),
  poly_in_range K M a -> poly_in_range K M b ->
  pmul K kadd kmul kopp kzero a b = Done ab -> poly_in_range K M ab.
Proof. exact AlgebraProofs.pmul_range. Qed.
Print Assumptions pmul_range.

(** ... and (A*B)*C and A*(B*C), both as computed by operator*=, have the same matrix *)
Theorem mul_assoc_sem :
  forall (K : Type) (k0 k1 : K) (kadd kmul ksub : K -> K -> K) (kopp : K -> K) (kzero : K -> bool),
  ring_ok K k0 k1 kadd kmul ksub kopp kzero ->
  forall (M : nat) (a b c ab bc abc abc' : poly K),
  poly_in_range K M a -> poly_in_range K M b -> poly_in_range K M c ->
  pmul K kadd kmul kopp kzero a b = Done ab -> pmul K kadd kmul kopp kzero ab c = Done abc ->
  pmul K kadd kmul kopp kzero b c = Done bc -> pmul K kadd kmul kopp kzero a bc = Done abc' ->
  forall s t, length s = M -> length t = M ->
  coef_poly K k0 k1 kadd kmul kopp abc s t = coef_poly K k0 k1 kadd kmul kopp abc' s t.
Proof. exact AlgebraProofs.mul_assoc_sem. Qed.
Print Assumptions mul_assoc_sem.

(** the algorithm's own output: {c_i, c^+_j} = delta_ij, {c_i, c_j} = 0, {c^+_i, c^+_j} = 0, as maps *)
Theorem car_poly :
  forall (K : Type) (k0 k1 : K) (kadd kmul ksub : K -> K -> K) (kopp : K -> K) (kzero : K -> bool),
  ring_ok K k0 k1 kadd kmul ksub kopp kzero -> k1 <> k0 ->
  forall i j : nat,
  anticommutator K kadd kmul kopp kzero (p_c K k1 i) (p_cdag K k1 j) =
    Done (if Nat.eqb i j then [([], k1)] else []) /\
  anticommutator K kadd kmul kopp kzero (p_c K k1 i) (p_c K k1 j) = Done [] /\
  anticommutator K kadd kmul kopp kzero (p_cdag K k1 i) (p_cdag K k1 j) = Done [].
Proof. exact AlgebraProofs.car_poly. Qed.
Print Assumptions car_poly.

(** * 5. The equality and commutation tests *)

(** the repaired comparison (monomial lengths compared first) never reads out of bounds *)
Theorem poly_eq_total :
  forall (K : Type) (ksub : K -> K -> K) (kzero : K -> bool) (a b : poly K),
  exists r, poly_eq K ksub kzero true a b = Done r.
Proof. exact AlgebraBasics.poly_eq_total. Qed.
Print Assumptions poly_eq_total.

(** ... and "equal" implies equal matrices *)
Theorem poly_eq_sound :
  forall (K : Type) (k0 k1 : K) (kadd kmul ksub : K -> K -> K) (kopp : K -> K) (kzero : K -> bool),
  ring_ok K k0 k1 kadd kmul ksub kopp kzero ->
  forall (a b : poly K), poly_eq K ksub kzero true a b = Done true ->
  forall s t, coef_poly K k0 k1 kadd kmul kopp a s t = coef_poly K k0 k1 kadd kmul kopp b s t.
Proof. exact AlgebraBasics.poly_eq_sound. Qed.
Print Assumptions poly_eq_sound.

(** Operator::commutes answering true implies that the matrices commute *)
Theorem commutes_sound :
  forall (K : Type) (k0 k1 : K) (kadd kmul ksub : K -> K -> K) (kopp : K -> K) (kzero : K -> bool),
  ring_ok K k0 k1 kadd kmul ksub kopp kzero ->
  forall (M : nat) (a b : poly K), poly_in_range K M a -> poly_in_range K M b ->
  commutes K kadd kmul ksub kopp kzero true a b = Done true ->
  forall s t, length s = M -> length t = M ->
  ksum K k0 kadd (all_states M)
       (fun u => kmul (coef_poly K k0 k1 kadd kmul kopp a u t) (coef_poly K k0 k1 kadd kmul kopp b s u)) =
  ksum K k0 kadd (all_states M)
       (fun u => kmul (coef_poly K k0 k1 kadd kmul kopp b u t) (coef_poly K k0 k1 kadd kmul kopp a s u)).
Proof. exact AlgebraProofs.commutes_sound. Qed.
Print Assumptions commutes_sound.

(** completeness of the equality test: two sorted maps with normal-ordered keys and non-zero
    coefficients that have the same matrix on a Fock space containing all their modes are the
    same map (normal-ordered monomials are linearly independent), so the test answers true *)
Theorem poly_eq_complete :
  forall (K : Type) (k0 k1 : K) (kadd kmul ksub : K -> K -> K) (kopp : K -> K) (kzero : K -> bool),
  ring_ok K k0 k1 kadd kmul ksub kopp kzero -> k1 <> k0 ->
  forall (M : nat) (a b : poly K),
  poly_sorted K a -> poly_sorted K b -> poly_normal K a -> poly_normal K b ->
  poly_nonzero K k0 a -> poly_nonzero K k0 b ->
  poly_in_range K M a -> poly_in_range K M b ->
  (forall s t, length s = M -> length t = M ->
     coef_poly K k0 k1 kadd kmul kopp a s t = coef_poly K k0 k1 kadd kmul kopp b s t) ->
  poly_eq K ksub kzero true a b = Done true.
Proof. exact AlgebraProofs.poly_eq_complete. Qed.
Print Assumptions poly_eq_complete.

(** the comparison as it was before "fix: compare monomial lengths in Operator equality"
    (prefix comparison of monomials) is unsound: it answers true for c^+_0 and c^+_0 c^+_1 c_2 ... *)
Theorem eq_prefix_refuted :
  exists a b : poly Z,
    poly_eq Z Z.sub (fun c => Z.eqb c 0) false a b = Done true /\
    exists s t, coef_poly Z 0%Z 1%Z Z.add Z.mul Z.opp a s t <> coef_poly Z 0%Z 1%Z Z.add Z.mul Z.opp b s t.
Proof. exact AlgebraBasics.eq_prefix_refuted. Qed.
Print Assumptions eq_prefix_refuted.

(** ... and it reads past the end of a shorter right-hand monomial *)
Theorem eq_prefix_oob :
  exists a b : poly Z, poly_eq Z Z.sub (fun c => Z.eqb c 0) false a b = OOB.
Proof. exact AlgebraBasics.eq_prefix_oob. Qed.
Print Assumptions eq_prefix_oob.

(** * 6. Presets against their specialised matrix elements *)

(** N::getMatrixElement(ket) = ket.count(), off-diagonal elements 0, agrees with the generic
    operator sum_i n_i built by the constructor ([of_nat n] = 1 + ... + 1, n times, in K) *)
Theorem N_shortcut_sound :
  forall (K : Type) (k0 k1 : K) (kadd kmul ksub : K -> K -> K) (kopp : K -> K) (kzero : K -> bool),
  ring_ok K k0 k1 kadd kmul ksub kopp kzero ->
  forall (M : nat) (s : state), length s = M ->
  coef_poly K k0 k1 kadd kmul kopp (p_N K k1 kadd kzero M) s s = of_nat K k0 k1 kadd (N_shortcut s) /\
  forall t, t <> s -> coef_poly K k0 k1 kadd kmul kopp (p_N K k1 kadd kzero M) s t = k0.
Proof. exact AlgebraBasics.N_shortcut_sound. Qed.
Print Assumptions N_shortcut_sound.

(** Sz::getMatrixElement(ket) = 0.5 * (#up occupied - #down occupied), off-diagonal elements 0,
    agrees with the generic operator built by Sz(Nmodes, SpinUpIndices), for any up list with
    indices below Nmodes (duplicates allowed) and any value of the constant written 0.5 *)
Theorem Sz_shortcut_sound :
  forall (K : Type) (k0 k1 : K) (kadd kmul ksub : K -> K -> K) (kopp : K -> K) (kzero : K -> bool),
  ring_ok K k0 k1 kadd kmul ksub kopp kzero ->
  forall (khalf : K) (M : nat) (ups : list nat) (s : state) (P : poly K),
  length s = M -> Forall (fun i => i < M) ups ->
  p_Sz K k1 kadd kmul ksub kopp kzero khalf M ups = Done P ->
  coef_poly K k0 k1 kadd kmul kopp P s s =
    ksub (kmul khalf (of_nat K k0 k1 kadd (fst (Sz_shortcut ups (sz_down M ups) s))))
         (kmul khalf (of_nat K k0 k1 kadd (snd (Sz_shortcut ups (sz_down M ups) s)))) /\
  forall t, t <> s -> coef_poly K k0 k1 kadd kmul kopp P s t = k0.
Proof. exact AlgebraBasics.Sz_shortcut_sound. Qed.
Print Assumptions Sz_shortcut_sound.

(** * the vector form getMatrixElement(bra, ket, states) (hand-written model PV.PolyVec; tied on every run by the GMEVEC comparison
    of harness/h_c05.cpp): with the unit vectors e_j, e_i over a list of pairwise different basis states IN ANY ORDER it returns the
    pair form getMatrixElement(states[j], states[i]).  The number type and its operations are arbitrary; the laws used are the
    hypotheses listed (they hold for real and complex numbers with |x| > epsilon as the non-zero test). *)
Theorem vector_form_unit_vectors :
  forall (K : Type) (kzero kone : K) (kadd kmul : K -> K -> K) (kconj : K -> K) (nz : K -> bool)
         (state : Type) (state_eqb : state -> state -> bool) (dflt : state) (act : state -> list (state * K)),
  (forall a b, state_eqb a b = true <-> a = b) ->
  (forall x, kadd x kzero = x) -> (forall x, kadd kzero x = x) -> (forall x, kmul kzero x = kzero) ->
  (forall x, kmul kone x = x) -> (forall x, kmul x kone = x) -> kconj kzero = kzero -> kconj kone = kone ->
  nz kzero = false -> nz kone = true ->
  forall states i0 j0, NoDup states -> i0 < length states -> j0 < length states ->
  NoDup (map fst (act (nth i0 states dflt))) ->
  melem_vec K kzero kadd kmul kconj nz state state_eqb dflt act (unit K kzero kone j0) (unit K kzero kone i0) states =
  melem_pair K kzero state state_eqb act (nth j0 states dflt) (nth i0 states dflt).
Proof. exact PolyVec.melem_vec_unit. Qed.
Print Assumptions vector_form_unit_vectors.

(** the hypotheses are satisfiable: integers, c^+_0 c_1 on two modes, the DESCENDING list of all four states *)
Theorem vector_form_example :
  ex_vec (index_of nat Nat.eqb) (ex_unit 2) (ex_unit 1) [3; 2; 1; 0] =
  melem_pair Z 0%Z nat Nat.eqb ex_act (nth 2 [3; 2; 1; 0] 0) (nth 1 [3; 2; 1; 0] 0).
Proof. exact PolyVec.melem_vec_unit_applies. Qed.
Print Assumptions vector_form_example.

(** a search that presupposes an ascending list (std::lower_bound + equality test) does NOT satisfy the statement: on the descending
    list the element <01| c^+_0 c_1 |10> = 1 comes out as 0 *)
Theorem vector_form_binary_search_refuted :
  ex_vec search_lower_bound (ex_unit 2) (ex_unit 1) [3; 2; 1; 0] <> melem_pair Z 0%Z nat Nat.eqb ex_act 1 2.
Proof. exact PolyVec.melem_vec_lower_bound_refuted. Qed.
Print Assumptions vector_form_binary_search_refuted.
