(** C05 -- placeholder until PolyProofs lands: statements are added with their proofs. *)
From PV Require Import Outcome Fock Poly.
