(** C14 about the SOURCE TEXT -- the statements of Properties_C14.v once more, about the definitions of PV.LehmannGen, which are
    interpreters (PV.LehmannInterp) run on the descriptions that translator/gen_lehmann.py reads off the C++ on every run:

      PVgen.Gen_LehSuscPartCompute   SusceptibilityPart::compute: the loop over index1, the two inner iterators, the match / chase
                                     branches, and at a match the zero-pole branch (ZeroPoleWeight += ...) versus the term branch
      PVgen.Gen_LehAddTerm / Gen_LehTermListEval      TermList::add_term, TermList::operator()
      PVgen.Gen_LehSuscTermTau       Term::operator()(tau, beta)
      PVgen.Gen_LehSuscPartEval      SusceptibilityPart::operator()(z), of_tau, operator()(long)
      PVgen.Gen_LehSuscEval          Susceptibility::operator()(z), of_tau, operator()(long): the sum over the parts, which of the
                                     two subtracts what under which test
      PVgen.Gen_LehEACompute         EnsembleAverage::compute
      PVgen.Gen_RetainSusc           (translator/gen_thermal.py) the loop body of Susceptibility::prepare

    Statements only; proofs in PV.LehmannInterpProofs, PV.LehmannGenProofs (TermList, shared with C01 and C02) and
    PV.LehmannGenProofsSusc.  This file stops compiling when the zero-pole test gets another condition, when a chase loop steps
    over the matching entry, when the stripe test or the advance statements of prepare() change, when of_tau becomes a
    single-branch formula, when the subtraction moves -- whether or not a numeric run happens to notice.

    [..._src] : PV.LehmannGen.  A part's result is (its term list (Pole, Residue), ZeroPoleWeight). *)
Require Import Bool List Arith ZArith Reals Ring_theory Field_theory.
From Coquelicot Require Import Coquelicot.
From PV Require Import Outcome EDSpec NumLit BigSum Sparse SparseProofs TermList TermListProofs GFPart SuscPart GFPartProofs SuscPartProofs
     TermIntegrals Thermal ThermalGen LehmannShapes LehmannInterp LehmannInterpProofs LehmannGen LehmannGenProofs LehmannGenProofsSusc.
From PVgen Require Import Gen_C01 Gen_LehSuscPartCompute Gen_LehAddTerm Gen_LehTermListEval Gen_LehSuscTermTau Gen_LehSuscPartEval
     Gen_LehSuscEval Gen_LehEACompute Gen_RetainSusc.
Import ListNotations.
Local Open Scope nat_scope.

(** * 1. the descriptions generated from this tree are the ones the models follow *)
Theorem source_susc_compute_is_model :
  gen_susc_nest = model_merge_nest susc_chase_guarded /\
  forall (K : Type) (NO : numops K),
    gen_susc_blocks K NO =
    [model_susc_body K (susc_residue K NO) (susc_pole K NO) (susc_relevant K NO) (susc_is_zero_pole K NO) (susc_zero_weight K NO)].
Proof. exact (conj LehmannGenProofsSusc.gen_susc_nest_is_model LehmannGenProofsSusc.gen_susc_blocks_is_model). Qed.
Print Assumptions source_susc_compute_is_model.

Theorem source_termlist_is_model :
  gen_add_term = model_add_term /\ gen_termlist_eval = mk_tl_eval true true AccPlus true /\ gen_termlist_arities = [1; 2; 3; 4].
Proof. exact (conj LehmannGenProofs.gen_add_term_is_model LehmannGenProofs.gen_termlist_eval_is_model). Qed.
Print Assumptions source_termlist_is_model.

(** the statement lists of Susceptibility::operator()(z) / of_tau are tied up to [LehmannGenEquiv.vequiv] (same value returned by the
    interpreter value_by for every state of the object), not as the very same list: the source may e.g. invert an if / else or merge
    the nested tests.  (Until this statement read [gen_susc_value_z K NO = model_susc_value_z K NO]; the theorems below use the
    lists only through value_by.) *)
Theorem source_susc_eval_is_model :
  forall (K : Type) (NO : numops K),
    (forall R P tau beta, gen_susc_term_tau K NO R P tau beta = susc_term_tau K NO R P tau beta) /\
    (gen_suscpart_z_args = [PaArg 0] /\ gen_suscpart_tau_args = [PaArg 0; PaBeta] /\
     (forall t zw beta a, gen_suscpart_z K NO t zw beta a = susc_part_eval K NO t zw beta a) /\
     (forall t zw beta a, gen_suscpart_tau K NO t zw beta a = susc_part_tau K NO t zw) /\
     (forall n, gen_suscpart_matsubara n = susc_matsubara_mult n)) /\
    (LehmannGenEquiv.vequiv (gen_susc_value_z K NO) (model_susc_value_z K NO) /\ LehmannGenEquiv.vequiv (gen_susc_value_tau K NO) (model_susc_value_tau K NO) /\
     (forall n, gen_susc_matsubara n = susc_total_matsubara_mult n)) /\
    (gen_ea_first = 0 /\ gen_ea_cmp = CmpLt /\ gen_ea_op = AccPlus /\
     forall coeff w i, gen_ea_summand K NO coeff w i = nmul K NO (coeff i i) (w i)).
Proof.
  exact (fun K NO => conj (LehmannGenProofsSusc.gen_susc_term_tau_is_model K NO)
                    (conj (LehmannGenProofsSusc.gen_suscpart_eval_is_model K NO)
                    (conj (LehmannGenProofsSusc.gen_susc_value_is_model K NO) (LehmannGenProofsSusc.gen_ea_compute_is_model K NO)))).
Qed.
Print Assumptions source_susc_eval_is_model.

(** one iteration of the loop of Susceptibility::prepare: a part for a retained stripe (Aleft == Bright && Aright == Bleft),
    both advance tests, no exit, no state carried over *)
Theorem source_susc_prepare_step_is_model :
  gen_susc_flags_init = [] /\
  forall (ret : nat -> bool) (flags : list bool) (Aleft Aright Bleft Bright : nat),
    gen_susc_step ret flags Aleft Aright Bleft Bright = model_walk_step ret Aleft Aright Bleft Bright.
Proof. exact LehmannGenProofsSusc.gen_susc_step_is_model. Qed.
Print Assumptions source_susc_prepare_step_is_model.

(** * 2. the merge walk of SusceptibilityPart::compute *)
Theorem susc_walk_src_complete :
  forall (VA VB : Type) (a : cs VA) (b : cs VB) (lenient : bool) (l : list (nat * (nat * (nat * nat)))),
  cs_wf a -> cs_wf b -> cs_outer a <= cs_outer b ->
  part_walk_src lenient gen_susc_nest a b = WDone l -> l = tag0o (matches_part a b).
Proof. exact LehmannGenProofsSusc.susc_walk_src_complete. Qed.
Print Assumptions susc_walk_src_complete.

Theorem susc_walk_src_in_bounds :
  forall (VA VB : Type) (a : cs VA) (b : cs VB) (lenient : bool),
  cs_wf a -> cs_wf b -> cs_outer a <= cs_outer b ->
  part_walk_src lenient gen_susc_nest a b = WDone (tag0o (matches_part a b)).
Proof. exact LehmannGenProofsSusc.susc_walk_src_in_bounds. Qed.
Print Assumptions susc_walk_src_in_bounds.

(** * 3. SusceptibilityPart::compute of the source: the model's walk and branches, followed by the source's add_term *)
Theorem susc_part_compute_src_is_model :
  forall (K : Type) (NO : numops K) (lenient : bool) (T : tols K) (blk : nat * nat) (inp : part_in K),
  susc_part_compute_src K NO lenient T blk inp =
  wmap (fun o => (susc_terms_src K NO T (s_kept K (so_raw K o)), s_zero K NO (so_raw K o)))
       (susc_part_compute K NO susc_chase_guarded lenient T inp).
Proof. exact LehmannGenProofsSusc.susc_part_compute_src_is_model. Qed.
Print Assumptions susc_part_compute_src_is_model.

(** the add_term of the source is the add_term of the model (add_term_src_agrees_with_model in Properties_C01_source.v, no
    hypothesis): the source computes the model's part, whatever the tolerances *)
Theorem susc_part_compute_src_tolerance :
  forall (K : Type) (NO : numops K) (lenient : bool) (T : tols K) (blk : nat * nat) (inp : part_in K),
  forall o, susc_part_compute K NO susc_chase_guarded lenient T inp = WDone o ->
  susc_part_compute_src K NO lenient T blk inp = WDone (spart_result K o).
Proof. exact LehmannGenProofsSusc.susc_part_compute_src_agrees. Qed.
Print Assumptions susc_part_compute_src_tolerance.

(** exact form: value(z) = sum_{n,m} A[n,m] B[m,n] * ( resonant(E_m - E_n) ? [|z| < 1e-15] beta w_n : (w_m - w_n)/(z - (E_m - E_n)) ) *)
Theorem susc_part_exact_src :
  forall (K : Type) (NO : numops K) (kinv : K -> K),
  field_theory (n0 K NO) (n1 K NO) (nadd K NO) (nmul K NO) (nsub K NO) (nopp K NO) (ndiv K NO) kinv (@eq K) ->
  forall T : tols K,
  (forall R, susc_relevant K NO (t_matrix_element K T) R = false -> R = n0 K NO) ->
  (forall a b, susc_compare K NO (t_compare K T) a b = false -> susc_compare K NO (t_compare K T) b a = true) ->
  forall (lenient : bool) (blk : nat * nat) (inp : part_in K), part_wf K inp ->
  forall (res : list (gterm K) * K) (beta z : K),
  susc_part_compute_src K NO lenient T blk inp = WDone res ->
  susc_part_value_src K NO res beta z = susc_part_spec K NO kinv T inp beta z.
Proof. exact LehmannGenProofsSusc.susc_part_exact_src. Qed.
Print Assumptions susc_part_exact_src.

(** * 4. evaluation and the subtraction of the disconnected part *)
Theorem susc_value_src_is_model :
  forall (K : Type) (NO : numops K) (parts : list ((nat * nat) * spart_out K)) (sub : option (K * K)) (beta z tau : K),
  susc_value_src K NO (results_of_parts K parts) sub beta z = Some (susc_value K NO parts sub beta z) /\
  susc_value_tau_src K NO (results_of_parts K parts) sub tau beta = Some (susc_value_tau K NO parts sub tau beta) /\
  (forall o, susc_part_value_src K NO (spart_result K o) beta z = susc_part_value K NO o beta z) /\
  (forall o, susc_part_value_tau_src K NO (spart_result K o) tau beta = susc_part_value_tau K NO o tau beta).
Proof.
  exact (fun K NO parts sub beta z tau =>
           conj (LehmannGenProofsSusc.susc_value_src_is_model K NO parts sub beta z)
          (conj (LehmannGenProofsSusc.susc_value_tau_src_is_model K NO parts sub tau beta)
          (conj (fun o => LehmannGenProofsSusc.susc_part_value_src_is_model K NO o beta z)
                (fun o => LehmannGenProofsSusc.susc_part_value_tau_src_is_model K NO o tau beta)))).
Qed.
Print Assumptions susc_value_src_is_model.

(** the subtracted object differs from the unsubtracted one by beta <A><B> where the zero-frequency test fires and by nothing elsewhere *)
Theorem subtract_only_at_zero_src :
  forall (K : Type) (NO : numops K) (parts : list ((nat * nat) * spart_out K)) (aveA aveB beta z : K),
  susc_value_src K NO (results_of_parts K parts) (Some (aveA, aveB)) beta z =
  if z_is_zero K NO z
  then option_map (fun v => nsub K NO v (nmul K NO (nmul K NO aveA aveB) beta)) (susc_value_src K NO (results_of_parts K parts) None beta z)
  else susc_value_src K NO (results_of_parts K parts) None beta z.
Proof. exact LehmannGenProofsSusc.subtract_only_at_zero_src. Qed.
Print Assumptions subtract_only_at_zero_src.

(** in imaginary time it differs by <A><B> at every tau *)
Theorem subtract_tau_src :
  forall (K : Type) (NO : numops K) (parts : list ((nat * nat) * spart_out K)) (aveA aveB tau beta : K),
  susc_value_tau_src K NO (results_of_parts K parts) (Some (aveA, aveB)) tau beta =
  option_map (fun v => nsub K NO v (nmul K NO aveA aveB)) (susc_value_tau_src K NO (results_of_parts K parts) None tau beta).
Proof. exact LehmannGenProofsSusc.subtract_tau_src. Qed.
Print Assumptions subtract_tau_src.

(** operator()(long n) of the part and of the object evaluate at 2n * i*pi/beta *)
Theorem susc_matsubara_point_src :
  forall (K : Type) (NO : numops K) (kpi beta : K) (n : Z),
  susc_matsubara_src K NO kpi beta n = nmul K NO (ndiv K NO (nmul K NO (nI K NO) kpi) beta) (nofZ K NO (2 * n)%Z) /\
  suscpart_matsubara_src K NO kpi beta n = nmul K NO (ndiv K NO (nmul K NO (nI K NO) kpi) beta) (nofZ K NO (2 * n)%Z).
Proof. exact (fun K NO kpi beta n => conj eq_refl eq_refl). Qed.
Print Assumptions susc_matsubara_point_src.

(** EnsembleAverage::compute of the source is the model's sum_{index1} A(index1, index1) w(index1) *)
Theorem ea_part_src_is_model :
  forall (K : Type) (NO : numops K) (a : cs K) (w : list K), ea_part_src K NO a w = ea_part K NO a w.
Proof. exact LehmannGenProofsSusc.ea_part_src_is_model. Qed.
Print Assumptions ea_part_src_is_model.

(** * 5. Susceptibility::prepare of the source selects exactly the block pairs (L, R) with A: L <- R and B: R <- L that have a
    retained block *)
Theorem susc_prepare_src_selects_stripes :
  forall (ret : nat -> bool) (al br : list (nat * nat)), ksorted al -> ksorted br ->
  susc_prepare_src ret al br = Done (filter (fun lr => ret (fst lr) || ret (snd lr)) (stripes_spec al br)).
Proof. exact LehmannGenProofsSusc.susc_prepare_src_selects_stripes. Qed.
Print Assumptions susc_prepare_src_selects_stripes.

(** the whole object: prepare() (PV.GFPart.gf_prepare), compute() of every part of the source (no hypothesis on the comparator) *)
Theorem susc_compute_src_is_model :
  forall (K : Type) (NO : numops K) (lenient : bool) (T : tols K) (g : gf_in K),
  susc_compute_src K NO lenient T g = wmap (results_of_parts K) (susc_compute K NO susc_chase_guarded lenient T g).
Proof. exact LehmannGenProofsSusc.susc_compute_src_eq. Qed.
Print Assumptions susc_compute_src_is_model.

(** * 6. imaginary time: Term::operator()(tau, beta) of the source transforms to Term::operator()(i W) (classical reals) *)
Theorem susc_tau_consistent_src :
  forall (c wn P beta : R) (n : Z), (0 < beta)%R -> P <> 0%R ->
  let W := bose_freq beta n in
  let Res := (c * (wn - wn * exp (- beta * P)))%R in
  let d := (P * P + W * W)%R in
  is_RInt (fun tau => (gen_susc_term_tau R Rops Res P tau beta * cos (W * tau))%R) 0 beta (- (- P * Res / d))%R /\
  is_RInt (fun tau => (gen_susc_term_tau R Rops Res P tau beta * sin (W * tau))%R) 0 beta (- (- W * Res / d))%R.
Proof. exact LehmannGenProofsSusc.susc_tau_consistent_src. Qed.
Print Assumptions susc_tau_consistent_src.
