(** Properties_C15_refs.v -- "the irreducible vertex equals chi minus the documented disconnected combination of single-particle
    Green's functions": of THE objects it was given, as they are when it is asked.

    translator/gen_vertexrefs.py reads how class Vertex4 holds its five sources off include/pomerol/Vertex4.h on every run
    (coq/gen/Gen_Vertex4Refs.v).  Run side: every second vertex of checks/C15.py is constructed BEFORE chi and the Green's functions
    are prepared and computed, and value() is compared with chi - chi0 built from those objects' values (seeded C15-8). *)
Require Import List String.
From PV Require Import Vertex4Refs.
From PVgen Require Import Gen_Vertex4Refs.
Import ListNotations.
Local Open Scope string_scope.

Theorem vertex_members_are_references :
  gen_vertex4_member_kinds = [("Chi4", ByReference); ("G13", ByReference); ("G24", ByReference); ("G14", ByReference); ("G23", ByReference)].
Proof. exact Vertex4Refs.gen_vertex4_members_are_references. Qed.
Print Assumptions vertex_members_are_references.

(** whatever state a source was in when the vertex was constructed, an evaluation sees its current state *)
Theorem vertex_sees_current_sources : forall (S : Type) (name : string) (k : member_kind) (at_construction now : S),
  In (name, k) gen_vertex4_member_kinds -> seen k at_construction now = now.
Proof. exact Vertex4Refs.sources_at_evaluation. Qed.
Print Assumptions vertex_sees_current_sources.

(** what the statement excludes: a by-value member keeps the state at construction *)
Theorem vertex_by_value_member_is_stale : seen ByValue 0 1 = 0 /\ seen ByReference 0 1 = 1.
Proof. exact Vertex4Refs.by_value_member_is_stale. Qed.
Print Assumptions vertex_by_value_member_is_stale.
