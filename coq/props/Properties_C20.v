(** C20 -- Lattice input is validated and looked up faithfully.
    Statements only; proofs are in PV.LatticeProofs, the model is PV.Lattice (+ PVgen.Gen_LatticePresets,
    regenerated from src/pomerol/LatticePresets.cpp on every run).

    Reading guide.
    * [L] is any type of site labels with a boolean equality [leqb]; where a statement needs [leqb] to decide
      equality this is the hypothesis [leqb_ok].  [V] is any type of amplitudes with operations [vo].
    * [cfg : config] selects the variant of the code: [fix_getsite] / [fix_shapecheck] off = the code as it
      stands ([as_is]), on = the minimal repair.  Statements without a hypothesis on [cfg] hold for every
      variant.  Which variant the library is, is decided by the correspondence check (checks/C20.py).
    * "for every state [st]" includes every state reached by a history of calls; statements that depend on the
      history are about [run cfg h init] for every history [h] (lists of AddSite / AddTerm / AddFactoryTerm /
      Preset / GetSite / GetTerms / MaxOrder / Copy calls with arbitrary, valid or invalid, arguments).
    * [op_wf]: a raw term's label/orbital/spin vectors are as long as its operator sequence (true of every
      term built by Term's constructors; the model reports a shorter vector as out-of-bounds read).
    * Statements named [..._refuted] say that the corresponding full statement FAILS for [as_is]; their
      witnesses are replayed on the real library by the check. *)
Require Import List Bool Arith QArith.
From PV Require Import Outcome Lattice LatticeProofs.
Import ListNotations.
Local Open Scope nat_scope.
Local Open Scope bool_scope.

Definition leqb_ok {L : Type} (leqb : L -> L -> bool) : Prop := forall a b, leqb a b = true <-> a = b.

(** ** "A term that refers to an unknown site or to an orbital or spin outside the site's range is rejected
       with an exception and leaves the lattice unchanged"   (every variant) *)
Theorem addTerm_rejects_invalid :
  forall (L : Type) (leqb : L -> L -> bool) (V : Type) (vo : vops V) (cfg : config) (st : state L V) (t : term L V),
  term_wfb L V t = true -> term_valid L leqb V (sites st) t = false ->
  step L leqb V vo cfg (AddTerm t) st = (st, Throws exWrongLabel).
Proof. exact LatticeProofs.addTerm_rejects_invalid. Qed.
Print Assumptions addTerm_rejects_invalid.

(** the same through the term factories: arguments a factory is undefined for (equal orbitals or equal spins
    for Spinflip / PairHopping) and invalid factory terms are rejected, lattice unchanged   (every variant) *)
Theorem factoryTerm_rejects :
  forall (L : Type) (leqb : L -> L -> bool) (V : Type) (vo : vops V) (cfg : config) (st : state L V) (f : fcall L V),
  (factory_defined L V f = false -> step L leqb V vo cfg (AddFactoryTerm f) st = (st, Throws exWrongIndices)) /\
  (forall t, factory L leqb V f = Done t -> term_valid L leqb V (sites st) t = false ->
             step L leqb V vo cfg (AddFactoryTerm f) st = (st, Throws exWrongLabel)).
Proof. exact LatticeProofs.factoryTerm_rejects. Qed.
Print Assumptions factoryTerm_rejects.

(** the generated factories throw exactly on the documented undefined combinations and otherwise return a
    well-formed term *)
Theorem factory_total :
  forall (L : Type) (leqb : L -> L -> bool) (V : Type) (f : fcall L V),
  if factory_defined L V f
  then exists t, factory L leqb V f = Done t /\ term_wfb L V t = true
  else factory L leqb V f = Throws exWrongIndices.
Proof. exact LatticeProofs.factory_total. Qed.
Print Assumptions factory_total.

(** ** "zero-amplitude terms are ignored"   (every variant) *)
Theorem addTerm_zero_ignored :
  forall (L : Type) (leqb : L -> L -> bool) (V : Type) (vo : vops V) (cfg : config) (st : state L V) (t : term L V),
  term_wfb L V t = true -> vnz vo (t_val t) = false ->
  step L leqb V vo cfg (AddTerm t) st =
  (st, if term_valid L leqb V (sites st) t then Done ONone else Throws exWrongLabel).
Proof. exact LatticeProofs.addTerm_zero_ignored. Qed.
Print Assumptions addTerm_zero_ignored.

(** ... and valid non-zero terms are stored, at the end of the list of their order   (every variant) *)
Theorem addTerm_accepts_valid :
  forall (L : Type) (leqb : L -> L -> bool) (V : Type) (vo : vops V) (cfg : config) (st : state L V) (t : term L V),
  term_wfb L V t = true -> term_valid L leqb V (sites st) t = true -> vnz vo (t_val t) = true ->
  step L leqb V vo cfg (AddTerm t) st = (ts_add L V t st, Done ONone) /\
  sites (ts_add L V t st) = sites st /\
  forall n, getTerms L V (ts_add L V t st) n =
            if t_order t =? n then getTerms L V st n ++ [t] else getTerms L V st n.
Proof. exact LatticeProofs.addTerm_accepts_valid. Qed.
Print Assumptions addTerm_accepts_valid.

(** ** "presets reject index combinations for which they are undefined"   (needs the shape-check repair) *)
Theorem presets_reject_undefined :
  forall (L : Type) (leqb : L -> L -> bool) (V : Type) (vo : vops V) (cfg : config) (st : state L V) (p : pcall L V),
  fix_shapecheck cfg = true -> preset_defined L leqb V (sites st) p = false ->
  exists c, step L leqb V vo cfg (Preset p) st = (st, Throws c).
Proof. exact LatticeProofs.presets_reject_undefined. Qed.
Print Assumptions presets_reject_undefined.

Theorem presets_accept_defined :
  forall (L : Type) (leqb : L -> L -> bool) (V : Type) (vo : vops V) (cfg : config) (st : state L V) (p : pcall L V),
  fix_shapecheck cfg = true -> preset_defined L leqb V (sites st) p = true ->
  exists ps, step L leqb V vo cfg (Preset p) st = (push_all L V ps st, Done ONone) /\
             Forall (fun t => term_valid L leqb V (sites st) t = true) ps.
Proof. exact LatticeProofs.presets_accept_defined. Qed.
Print Assumptions presets_accept_defined.

Theorem presets_reject_undefined_refuted :
  exists (st : qstate) (p : pcall nat Q),
    preset_defined nat Nat.eqb Q (sites st) p = false /\
    snd (step nat Nat.eqb Q q_ops as_is (Preset p) st) = Done ONone.
Proof. exact LatticeProofs.presets_reject_undefined_refuted. Qed.
Print Assumptions presets_reject_undefined_refuted.

(** whenever ANY call ends with an exception the lattice is what it was   (needs the shape-check repair) *)
Theorem exception_leaves_lattice_unchanged :
  forall (L : Type) (leqb : L -> L -> bool) (V : Type) (vo : vops V) (cfg : config) (o : op L V)
         (st st' : state L V) (c : nat),
  fix_shapecheck cfg = true -> op_wf L V o ->
  step L leqb V vo cfg o st = (st', Throws c) -> st' = st.
Proof. exact LatticeProofs.exception_leaves_lattice_unchanged. Qed.
Print Assumptions exception_leaves_lattice_unchanged.

Theorem exception_leaves_lattice_unchanged_refuted :
  exists (o : qop) (st st' : qstate) (c : nat),
    step nat Nat.eqb Q q_ops as_is o st = (st', Throws c) /\ maxorder st' <> maxorder st.
Proof. exact LatticeProofs.exception_leaves_lattice_unchanged_refuted. Qed.
Print Assumptions exception_leaves_lattice_unchanged_refuted.

(** ** the invariant: after every history every stored term refers to existing sites and in-range orbitals
       and spins.  [history_ok]: raw terms are well-formed and no addSite re-adds a label with a smaller
       shape (addSite overwrites; see stored_terms_valid_needs_growing_sites).   (needs the shape-check repair) *)
Theorem stored_terms_valid :
  forall (L : Type) (leqb : L -> L -> bool), leqb_ok leqb ->
  forall (V : Type) (vo : vops V) (cfg : config) (h : list (op L V)),
  fix_shapecheck cfg = true -> history_ok L leqb V vo cfg h (init L V) ->
  forall n t, In t (getTerms L V (run L leqb V vo cfg h (init L V)) n) ->
              term_valid L leqb V (sites (run L leqb V vo cfg h (init L V))) t = true.
Proof. exact LatticeProofs.stored_terms_valid. Qed.
Print Assumptions stored_terms_valid.

(** without any condition on the history: what a call stores is valid for the sites of that moment *)
Theorem pushes_valid_when_stored :
  forall (L : Type) (leqb : L -> L -> bool) (V : Type) (vo : vops V) (cfg : config) (o : op L V) (st : state L V),
  fix_shapecheck cfg = true -> op_wf L V o ->
  Forall (fun t => term_valid L leqb V (sites st) t = true) (fst (effect L leqb V vo cfg (sites st) o)).
Proof. exact LatticeProofs.pushes_valid_when_stored. Qed.
Print Assumptions pushes_valid_when_stored.

Theorem stored_terms_valid_refuted :
  exists (h : list qop),
    history_ok nat Nat.eqb Q q_ops as_is h (init nat Q) /\
    exists n t, In t (getTerms nat Q (run nat Nat.eqb Q q_ops as_is h (init nat Q)) n) /\
                term_valid nat Nat.eqb Q (sites (run nat Nat.eqb Q q_ops as_is h (init nat Q))) t = false.
Proof. exact LatticeProofs.stored_terms_valid_refuted. Qed.
Print Assumptions stored_terms_valid_refuted.

(** why [history_ok] is there (every variant; not a finding: no property says addSite may not overwrite) *)
Theorem stored_terms_valid_needs_growing_sites :
  exists (h : list qop) n t,
    In t (getTerms nat Q (run nat Nat.eqb Q q_ops repaired h (init nat Q)) n) /\
    term_valid nat Nat.eqb Q (sites (run nat Nat.eqb Q q_ops repaired h (init nat Q))) t = false.
Proof. exact LatticeProofs.stored_terms_valid_needs_growing_sites. Qed.
Print Assumptions stored_terms_valid_needs_growing_sites.

(** ** "Looking up a site by label returns the site that was added under that label and fails for unknown
       labels"   (needs the getSite repair) *)
Theorem getSite_spec :
  forall (L : Type) (leqb : L -> L -> bool), leqb_ok leqb ->
  forall (V : Type) (vo : vops V) (cfg : config) (h : list (op L V)) (l : L),
  fix_getsite cfg = true ->
  step L leqb V vo cfg (GetSite l) (run L leqb V vo cfg h (init L V)) =
  (run L leqb V vo cfg h (init L V),
   match last_added L leqb V l h None with Some s => Done (OSite s) | None => Throws exWrongLabel end).
Proof. exact LatticeProofs.getSite_spec. Qed.
Print Assumptions getSite_spec.

Theorem getSite_after_addSite :
  forall (L : Type) (leqb : L -> L -> bool), leqb_ok leqb ->
  forall (V : Type) (vo : vops V) (cfg : config) (h1 h2 : list (op L V)) (l : L) (a b : nat),
  fix_getsite cfg = true -> not_readded L V l h2 ->
  snd (step L leqb V vo cfg (GetSite l) (run L leqb V vo cfg (h1 ++ AddSite l a b :: h2) (init L V)))
  = Done (OSite (a, b)).
Proof. exact LatticeProofs.getSite_after_addSite. Qed.
Print Assumptions getSite_after_addSite.

Theorem getSite_unknown_fails :
  forall (L : Type) (leqb : L -> L -> bool), leqb_ok leqb ->
  forall (V : Type) (vo : vops V) (cfg : config) (h : list (op L V)) (l : L),
  fix_getsite cfg = true -> not_readded L V l h ->
  step L leqb V vo cfg (GetSite l) (run L leqb V vo cfg h (init L V)) =
  (run L leqb V vo cfg h (init L V), Throws exWrongLabel).
Proof. exact LatticeProofs.getSite_unknown_fails. Qed.
Print Assumptions getSite_unknown_fails.

(** the code as it stands: throws for every known label, undefined behaviour for every unknown one *)
Theorem getSite_inverted :
  forall (L : Type) (leqb : L -> L -> bool) (V : Type) (vo : vops V) (cfg : config) (st : state L V) (l : L),
  fix_getsite cfg = false ->
  step L leqb V vo cfg (GetSite l) st =
  (st, match find_site L leqb l (sites st) with Some _ => Throws exWrongLabel | None => OOB end).
Proof. exact LatticeProofs.getSite_inverted. Qed.
Print Assumptions getSite_inverted.

Theorem getSite_after_addSite_refuted :
  exists (h : list qop) (l a b : nat),
    last_added nat Nat.eqb Q l h None = Some (a, b) /\
    snd (step nat Nat.eqb Q q_ops as_is (GetSite l) (run nat Nat.eqb Q q_ops as_is h (init nat Q)))
    = Throws exWrongLabel.
Proof. exact LatticeProofs.getSite_after_addSite_refuted. Qed.
Print Assumptions getSite_after_addSite_refuted.

Theorem getSite_unknown_fails_refuted :
  exists (h : list qop) (l : nat),
    not_readded nat Q l h /\
    snd (step nat Nat.eqb Q q_ops as_is (GetSite l) (run nat Nat.eqb Q q_ops as_is h (init nat Q))) = OOB.
Proof. exact LatticeProofs.getSite_unknown_fails_refuted. Qed.
Print Assumptions getSite_unknown_fails_refuted.

(** ** "terms are retrievable by order": getTerms n = the accepted terms of order n, in the order of
       acceptance; MaxTermOrder = the largest accepted order   (every variant) *)
Theorem getTerms_by_order :
  forall (L : Type) (leqb : L -> L -> bool) (V : Type) (vo : vops V) (cfg : config) (h : list (op L V)) (n : nat),
  step L leqb V vo cfg (GetTerms n) (run L leqb V vo cfg h (init L V)) =
  (run L leqb V vo cfg h (init L V),
   Done (OTerms (filter (fun t => t_order t =? n) (accepted L leqb V vo cfg h (init L V))))).
Proof. exact LatticeProofs.getTerms_by_order. Qed.
Print Assumptions getTerms_by_order.

Theorem maxOrder_spec :
  forall (L : Type) (leqb : L -> L -> bool) (V : Type) (vo : vops V) (cfg : config) (h : list (op L V)),
  step L leqb V vo cfg MaxOrder (run L leqb V vo cfg h (init L V)) =
  (run L leqb V vo cfg h (init L V),
   Done (ONat (fold_left Nat.max (map t_order (accepted L leqb V vo cfg h (init L V))) 0))).
Proof. exact LatticeProofs.maxOrder_spec. Qed.
Print Assumptions maxOrder_spec.

(** what a raw addTerm contributes to [accepted] *)
Theorem accepted_addTerm :
  forall (L : Type) (leqb : L -> L -> bool) (V : Type) (vo : vops V) (cfg : config) (m : site_map L) (t : term L V),
  term_wfb L V t = true ->
  fst (effect L leqb V vo cfg m (AddTerm t)) = if term_valid L leqb V m t && vnz vo (t_val t) then [t] else [].
Proof. exact LatticeProofs.effect_addTerm. Qed.
Print Assumptions accepted_addTerm.

(** ** "a copied lattice defines the same model"   (every variant) *)
Theorem copy_same_model :
  forall (L V : Type) (st : state L V),
  copy L V st = st /\ sites (copy L V st) = sites st /\
  (forall n, getTerms L V (copy L V st) n = getTerms L V st n) /\ maxorder (copy L V st) = maxorder st.
Proof. exact LatticeProofs.copy_same_model. Qed.
Print Assumptions copy_same_model.

Theorem copy_behaves_the_same :
  forall (L : Type) (leqb : L -> L -> bool) (V : Type) (vo : vops V) (cfg : config) (o : op L V) (st : state L V),
  step L leqb V vo cfg o (fst (step L leqb V vo cfg Copy st)) = step L leqb V vo cfg o st.
Proof. exact LatticeProofs.copy_behaves_the_same. Qed.
Print Assumptions copy_behaves_the_same.

(** ** no undefined behaviour in the repaired variant *)
Theorem no_undefined_behaviour :
  forall (L : Type) (leqb : L -> L -> bool) (V : Type) (vo : vops V) (cfg : config) (o : op L V) (st : state L V),
  fix_getsite cfg = true -> fix_shapecheck cfg = true -> op_wf L V o ->
  snd (step L leqb V vo cfg o st) <> OOB.
Proof. exact LatticeProofs.no_undefined_behaviour. Qed.
Print Assumptions no_undefined_behaviour.

(** ** the judgement the check applies to every observed call of the implementation (PV.Lattice.judge,
       extracted) accepts everything the repaired model does, and flags the code as it stands *)
Theorem judge_sound :
  forall (L : Type) (leqb : L -> L -> bool), leqb_ok leqb ->
  forall (V : Type) (vo : vops V) (cfg : config) (o : op L V) (st : state L V),
  (forall v, veqb vo v v = true) -> fix_shapecheck cfg = true -> op_wf L V o ->
  judge L leqb V vo (sites st) o (is_exn (snd (step L leqb V vo cfg o st)))
        (fst (effect L leqb V vo cfg (sites st) o)) = [].
Proof. exact LatticeProofs.judge_sound. Qed.
Print Assumptions judge_sound.

Theorem judge_flags_as_is :
  exists (o : qop) (st : qstate),
    q_judge (sites st) o (is_exn (snd (step nat Nat.eqb Q q_ops as_is o st))) (q_effect as_is st o) <> [].
Proof. exact LatticeProofs.judge_flags_as_is. Qed.
Print Assumptions judge_flags_as_is.
