(** C16 about the SOURCE TEXT -- the statements of Properties_C16.v once more, about the step function of PV.DispatchGen, which is
    the step function of the hand-written model PV.Dispatch rebuilt around the control structure that translator/gen_dispatch.py
    reads off the C++ on every run (one generated file per function, vocabulary PV.DispatchShapes):
      coq/gen/Gen_DispOrderWorker.v       MPIMaster::order_worker      send / DispatchMap / irecv, in order
      coq/gen/Gen_DispOrder.v             MPIMaster::order             loop kind, condition, body
      coq/gen/Gen_DispCheckWorkers.v      MPIMaster::check_workers     poll loop; Finish block: condition, range, guard, send, mark
      coq/gen/Gen_DispAutorange.v         _autorange_workers           the worker pool
      coq/gen/Gen_DispFillStack.v         MPIMaster::fill_stack_       what is pushed in which order
      coq/gen/Gen_DispMasterCtor.v, Gen_DispMasterSwap.v               the constructors, swap
      coq/gen/Gen_DispMasterIsFinished.v  MPIMaster::is_finished
      coq/gen/Gen_DispWorkerCtor.v, Gen_DispWorkerIsFinished.v, Gen_DispWorkerIsWorking.v, Gen_DispReceiveOrder.v, Gen_DispReportDone.v   MPIWorker
      coq/gen/Gen_DispSkelRun.v           mpi_skel<WrapType>::run      barriers, master on the root, dispatch loop, map exchange
      coq/gen/Gen_SplitColors.v           (translator/gen_c06.py)      ROOT and the barrier / broadcast counts of the same function
    Statements only; proofs in PV.DispatchGenProofs: each generated piece is shown equal to what Dispatch.v was written with by a
    closed computation, from these [step_src = step], then the theorem of PV.DispatchProofs is transported.  This file stops
    compiling when check_workers returns early or sends Finish under another condition, the dispatch loop is put under a condition
    or loses its barriers, the pool is cut, the job map is broadcast from differently ordered vectors, ... -- whether or not a run
    happens to show it.

    [..._src], [..._by] : PV.DispatchGen.  [gen_...] : PVgen.Gen_Disp*.  [reachable_src c s]: s is reached from the state the
    generated constructors build for a first round (any duplicate-free job order) by ANY finite sequence of events of [step_src]. *)
Require Import List Arith Bool Permutation Sorted.
From PV Require Import Dispatch DispatchProofs DispatchShapes DispatchGen DispatchGenProofs DispatchGenBoss.
From PVgen Require Import Gen_DispOrderWorker Gen_DispOrder Gen_DispCheckWorkers Gen_DispAutorange Gen_DispFillStack
                          Gen_DispMasterCtor Gen_DispMasterSwap Gen_DispMasterIsFinished Gen_DispWorkerCtor
                          Gen_DispWorkerIsFinished Gen_DispWorkerIsWorking Gen_DispReceiveOrder Gen_DispReportDone
                          Gen_DispSkelRun Gen_SplitColors.
Import ListNotations.

(** * what the source text says (leaf agreements) *)

(** order_worker(worker, job): send(worker, Work, job); DispatchMap[job] = worker; wait_statuses[..] = irecv(worker, Pending) *)
Theorem source_order_worker :
  gen_order_worker = [OwSend PeerWorkerArg TagWork PayJobArg; OwRecordDispatch; OwPostCompletionRecv PeerWorkerArg TagPending].
Proof. exact DispatchGenProofs.gen_order_worker_is_model. Qed.
Print Assumptions source_order_worker.

(** order(): while both stacks are non-empty: order_worker(top worker, top job); pop both *)
Theorem source_order :
  gen_order_loop = OrdWhile /\
  gen_order_cond = (fun worker_stack_empty job_stack_empty => negb worker_stack_empty && negb job_stack_empty) /\
  gen_order_body = [OrdOrderWorker ArgTopWorker ArgTopJob; OrdPopWorker; OrdPopJob].
Proof. exact DispatchGenProofs.gen_order_is_model. Qed.
Print Assumptions source_order.

(** check_workers(): every worker of the pool is polled, a reported one is pushed; then -- and only if the job stack is empty AND
    all Nprocs workers are idle -- Finish goes to every worker of the pool not yet told; no other statement, no early return *)
Theorem source_check_workers : gen_cw = cw_model.
Proof. exact DispatchGenProofs.gen_check_workers_is_model. Qed.
Print Assumptions source_check_workers.

(** the worker pool: every rank of the communicator, except the root when include_boss is false; none is an error *)
Theorem source_autorange_workers :
  gen_autorange_nprocs = (fun size include_boss => size - (if negb include_boss then 1 else 0)) /\
  gen_autorange_throws = (fun nprocs => nprocs =? 0) /\
  gen_autorange_positions = (fun size => seq 0 size) /\
  gen_autorange_keep = (fun include_boss rank p => include_boss || negb (rank =? p)) /\
  gen_autorange_item = ArLoopVariable.
Proof. exact DispatchGenProofs.gen_autorange_is_model. Qed.
Print Assumptions source_autorange_workers.

(** fill_stack_(): all tasks and all workers of the pool, pushed last to first *)
Theorem source_fill_stack :
  gen_fill_job_positions = (fun ntasks nprocs => rev (seq 0 ntasks)) /\
  gen_fill_job_body = [FsPushJob FsTaskNumbersAt] /\
  gen_fill_worker_positions = (fun ntasks nprocs => rev (seq 0 nprocs)) /\
  gen_fill_worker_body = [FsRecordIndex; FsPushWorker FsWorkerPoolAt].
Proof. exact DispatchGenProofs.gen_fill_stack_is_model. Qed.
Print Assumptions source_fill_stack.

(** the constructors hand the untouched pool and the given tasks to the base constructor, which initialises every member and fills
    the stacks; swap moves every data member *)
Theorem source_master_ctor :
  gen_ctor_by_tasks = [CtBuild PoolAutorange TasksArgument; CtSwap] /\
  gen_ctor_by_count = [CtBuild PoolAutorange TasksAutorange; CtSwap] /\
  gen_ctor_base_body = [CtFillStack] /\
  base_inits_ok gen_ctor_base_inits = true /\
  gen_autorange_tasks = (fun ntasks => seq 0 ntasks).
Proof. exact DispatchGenProofs.gen_master_ctor_is_model. Qed.
Print Assumptions source_master_ctor.

Theorem source_master_swap : swap_complete gen_swap_members gen_master_members = true.
Proof. exact DispatchGenProofs.gen_master_swap_is_model. Qed.
Print Assumptions source_master_swap.

Theorem source_master_is_finished :
  gen_master_finished_count = MfSumOfWorkersFinish /\ gen_master_finished = (fun nfinished nprocs => nfinished =? nprocs).
Proof. exact DispatchGenProofs.gen_master_is_finished_is_model. Qed.
Print Assumptions source_master_is_finished.

(** MPIWorker: Pending with the wildcard receive posted from construction; finished = Finish; working = Work *)
Theorem source_worker_ctor :
  gen_worker_ctor_status = TagPending /\ gen_worker_ctor_recv = Some (PeerBoss, TagAny, PayCurrentJob).
Proof. exact DispatchGenProofs.gen_worker_ctor_is_model. Qed.
Print Assumptions source_worker_ctor.

Theorem source_worker_status : gen_worker_is_finished = StatusIs TagFinish /\ gen_worker_is_working = StatusIs TagWork.
Proof. exact DispatchGenProofs.gen_worker_status_is_model. Qed.
Print Assumptions source_worker_status.

(** receive_order(): returns unless Pending; test(); on completion Status = tag, the wildcard receive is re-posted, and cancelled
    only if the new Status is Finish *)
Theorem source_receive_order :
  gen_receive_order = [RoReturnIf (StatusIsNot TagPending); RoTestThen] /\
  gen_receive_order_completed = [RaStatusFromTag; RaRepost PeerBoss TagAny PayCurrentJob; RaCancelIfFinished].
Proof. exact DispatchGenProofs.gen_receive_order_is_model. Qed.
Print Assumptions source_receive_order.

Theorem source_report_job_done : gen_report_done = [RdSend PeerBoss TagPending PayNone; RdSetStatus TagPending].
Proof. exact DispatchGenProofs.gen_report_done_is_model. Qed.
Print Assumptions source_report_job_done.

(** mpi_skel::run: barrier; master built on the root; barrier; the dispatch loop, unconditionally; barrier; barrier; map exchange *)
Theorem source_skel_run :
  gen_skel_run = [SkBarrier BarComm; SkBuildMasterOnRoot; SkBarrier BarComm; SkDispatchLoop; SkBarrier BarComm; SkBarrier BarComm;
                  SkMapExchange; SkReturnMap].
Proof. exact DispatchGenProofs.gen_skel_run_is_model. Qed.
Print Assumptions source_skel_run.

Theorem source_skel_master :
  gen_skel_job_ids = (fun njobs => seq 0 njobs) /\ gen_skel_job_before = (fun cl cr => cr <? cl) /\ gen_skel_jobs_sorted = true /\
  gen_skel_master = SmTaskList true.
Proof. exact DispatchGenProofs.gen_skel_master_is_model. Qed.
Print Assumptions source_skel_master.

(** one iteration, on every rank, until its own worker is finished: [root: order()] receive_order() [working: run, report]
    [root: check_workers()] *)
Theorem source_skel_loop :
  gen_skel_loop_body = skel_loop_model /\ gen_skel_loop_cond = LcUntilWorkerFinished /\ gen_skel_worker_boss = RkRoot.
Proof. exact DispatchGenProofs.gen_skel_loop_is_model. Qed.
Print Assumptions source_skel_loop.

(** the map: keys and values of DispatchMap in the same order, jobs then workers on both sides, rebuilt pairwise *)
Theorem source_skel_map_exchange : gen_skel_map_root = map_root_model /\ gen_skel_map_other = map_other_model.
Proof. exact DispatchGenProofs.gen_skel_map_is_model. Qed.
Print Assumptions source_skel_map_exchange.

(** the counts translator/gen_c06.py takes from the same function (used by C06) agree with the statement list read here *)
Theorem source_skel_counts_agree :
  gen_skel_root = root_src /\
  barriers_before gen_skel_run = gen_skel_barriers_before_loop /\
  gen_skel_barrier_on_comm = true /\
  barriers_after gen_skel_run = 1 + gen_skel_barriers_after /\
  length (filter (fun st => match st with MsBcast _ RkRoot => true | _ => false end) gen_skel_map_root) = gen_skel_bcasts_root_branch /\
  length (filter (fun st => match st with MsBcast _ RkRoot => true | _ => false end) gen_skel_map_other) = gen_skel_bcasts_other_branch.
Proof. exact DispatchGenProofs.gen_skel_counts_agree. Qed.
Print Assumptions source_skel_counts_agree.

(** * the interpreters of these descriptions are the model *)

Theorem source_step_is_model : forall c s e, step_src c s e = step c s e.
Proof. exact DispatchGenProofs.step_src_is_step. Qed.
Print Assumptions source_step_is_model.

Theorem source_reachable_is_model : forall c s, reachable_src c s <-> reachable c s.
Proof. exact DispatchGenProofs.reachable_src_iff. Qed.
Print Assumptions source_reachable_is_model.

Theorem source_constructors_are_model : forall c js,
  init_src c js = Some (init c js) /\ pool_src c = pool c /\ valid_cfg_src c = valid_cfg c /\
  forall s, restart_src c s js = Some (restart c s js).
Proof. exact DispatchGenProofs.constructors_src_are_model. Qed.
Print Assumptions source_constructors_are_model.

(** mpi_skel::run on P ranks: all P ranks are workers (the root included), jobs 0 .. n-1 each once, heaviest first *)
Theorem source_skel_round : forall P cx, exists c s0,
  skel_cfg_src P = Some c /\ init_src c (job_order_src cx) = Some s0 /\ reachable_src c s0 /\
  pool_src c = seq 0 P /\ alljobs s0 = job_order_src cx.
Proof. exact DispatchGenProofs.skel_round_reachable_src. Qed.
Print Assumptions source_skel_round.

Theorem job_order_valid_source : forall cx, Permutation (job_order_src cx) (seq 0 (length cx)) /\ NoDup (job_order_src cx).
Proof. exact DispatchGenProofs.job_order_src_valid. Qed.
Print Assumptions job_order_valid_source.

Theorem jobs_sorted_by_complexity_source : forall cx, Sorted (fun a b => nth b cx 0 <= nth a cx 0) (job_order_src cx).
Proof. exact DispatchGenProofs.jobs_sorted_by_complexity_src. Qed.
Print Assumptions jobs_sorted_by_complexity_source.

(** * C16 about the step function built from the source *)

Theorem job_conservation_source : forall c s, reachable_src c s -> forall j,
  (In j (alljobs s) -> on_stack j s + in_flight c j s + executed j s = 1) /\
  (~ In j (alljobs s) -> on_stack j s = 0 /\ in_flight c j s = 0 /\ executed j s = 0).
Proof. exact DispatchGenProofs.job_conservation_src. Qed.
Print Assumptions job_conservation_source.

Theorem worker_conservation_source : forall c s, reachable_src c s ->
  (forall w, In w (pool_src c) -> cnt w (wstack s) + b2n (outst s w) = 1 /\ link_ok s w) /\
  (forall w, In w (wstack s) -> In w (pool_src c)).
Proof. exact DispatchGenProofs.worker_conservation_src. Qed.
Print Assumptions worker_conservation_source.

Theorem finish_only_when_done_source : forall c s, reachable_src c s -> forall w, In w (pool_src c) -> wfin s w = true ->
  (forall x, In x (pool_src c) -> wfin s x = true) /\ jobstack s = [] /\
  forall j, in_flight c j s = 0 /\ executed j s = cnt j (alljobs s).
Proof. exact DispatchGenProofs.finish_only_when_done_src. Qed.
Print Assumptions finish_only_when_done_source.

Theorem root_matching_source : forall c s, reachable_src c s -> forall w, step_src c s (ERecv w MPend) = None.
Proof. exact DispatchGenProofs.root_matching_src. Qed.
Print Assumptions root_matching_source.

Theorem link_capacity_source : forall c s w, reachable_src c s -> In w (pool_src c) ->
  length (chan s w) <= 1 /\ (forall j, wst s w = Work j -> chan s w = []).
Proof. exact DispatchGenProofs.link_capacity_src. Qed.
Print Assumptions link_capacity_source.

Theorem model_envelope_source : forall c s, reachable_src c s -> err s = false.
Proof. exact DispatchGenProofs.model_envelope_src. Qed.
Print Assumptions model_envelope_source.

Theorem no_deadlock_source : forall c s, valid_cfg_src c = true -> reachable_src c s -> finalb c s = false ->
  exists e, stutter e = false /\ is_newround e = false /\ enabled_src c s e = true.
Proof. exact DispatchGenProofs.no_deadlock_src. Qed.
Print Assumptions no_deadlock_source.

Theorem progress_measure_source : forall c s e s', reachable_src c s -> step_src c s e = Some s' ->
  stutter e = false -> is_newround e = false -> mu c s' < mu c s.
Proof. exact DispatchGenProofs.progress_measure_src. Qed.
Print Assumptions progress_measure_source.

Theorem stutter_same_source : forall c s e s', step_src c s e = Some s' -> stutter e = true -> s' = s.
Proof. exact DispatchGenProofs.stutter_same_src. Qed.
Print Assumptions stutter_same_source.

Theorem bounded_work_source : forall c js t s0 s', NoDup js -> init_src c js = Some s0 -> run_src c s0 t = Some s' -> newrounds t = [] ->
  work t <= 4 * length js + 3 * nprocs_src c + np c.
Proof. exact DispatchGenProofs.bounded_work_src. Qed.
Print Assumptions bounded_work_source.

Theorem can_finish_source : forall c s, valid_cfg_src c = true -> reachable_src c s ->
  exists t s', run_src c s t = Some s' /\ finalb c s' = true /\ newrounds t = [].
Proof. exact DispatchGenProofs.can_finish_src. Qed.
Print Assumptions can_finish_source.

Theorem final_state_source : forall c s, valid_cfg_src c = true -> reachable_src c s -> finalb c s = true ->
  (forall j, In j (alljobs s) -> executed j s = 1) /\
  (forall j, ~ In j (alljobs s) -> executed j s = 0) /\
  NoDup (map fst (log s)) /\ Permutation (map fst (log s)) (alljobs s) /\
  (forall j w, In (j, w) (log s) -> dmap s j = Some w /\ In w (pool_src c)) /\
  (forall j, In j (alljobs s) -> exists w, In (j, w) (log s) /\ dmap s j = Some w) /\
  (forall j w, dmap s j = Some w -> In j (alljobs s)) /\
  (forall w, chan s w = []) /\ (forall w, In w (pool_src c) -> outst s w = false) /\
  jobstack s = [] /\ err s = false.
Proof. exact DispatchGenProofs.final_state_src. Qed.
Print Assumptions final_state_source.

Theorem one_rank_per_job_source : forall c s, reachable_src c s -> forall j w w',
  In (j, w) (log s) -> In (j, w') (log s) -> w = w'.
Proof. exact DispatchGenProofs.one_rank_per_job_src. Qed.
Print Assumptions one_rank_per_job_source.

Theorem final_check_source : forall c s, valid_cfg_src c = true -> reachable_src c s -> finalb c s = true -> final_okb c s = true.
Proof. exact DispatchGenProofs.final_check_src. Qed.
Print Assumptions final_check_source.

(** the barriers of mpi_skel::run separate the rounds ([rounds_separated_src] is part of the ENewRound step); the next round's
    master and workers, as the generated constructors build them, start in an initial state *)
Theorem rounds_source : forall c s js, reachable_src c s -> finalb c s = true -> NoDup js ->
  exists s', restart_src c s js = Some s' /\ step_src c s (ENewRound js) = Some s' /\ is_init c js s' /\ reachable_src c s'.
Proof. exact DispatchGenProofs.rounds_src. Qed.
Print Assumptions rounds_source.

Theorem rounds_exist_source : forall c, valid_cfg_src c = true -> forall jss s, reachable_src c s ->
  (forall js, In js jss -> NoDup js) ->
  exists t s', run_src c s t = Some s' /\ finalb c s' = true /\ final_okb c s' = true /\ newrounds t = jss.
Proof. exact DispatchGenProofs.rounds_exist_src. Qed.
Print Assumptions rounds_exist_source.

Theorem candidates_complete_source : forall c s e s', step_src c s e = Some s' -> stutter e = false -> is_newround e = false ->
  In e (candidates c s).
Proof. exact DispatchGenProofs.candidates_complete_src. Qed.
Print Assumptions candidates_complete_source.

(** * the map every rank returns (not in Properties_C16.v: the exchange after the loop was tied by runs only)
    [keys]: the keys of DispatchMap in the order the root iterates over it -- ANY enumeration of the round's jobs. *)
Theorem map_broadcast_identical_source : forall c s, valid_cfg_src c = true -> reachable_src c s -> finalb c s = true ->
  forall keys, (forall j, In j keys <-> In j (alljobs s)) ->
  exists m, map_exchange_src keys (alljobs s) (dmap s) = Some m /\
            (forall j, m j = dmap s j) /\
            (forall j w, In (j, w) (log s) -> m j = Some w) /\
            (forall j, ~ In j (alljobs s) -> m j = None).
Proof. exact DispatchGenProofs.map_broadcast_identical_src. Qed.
Print Assumptions map_broadcast_identical_source.

(** * the worker pool for a boss on ANY rank (PV.Dispatch has the boss on rank 0, the documented usage; the interface takes any rank):
    the pool the process of rank r builds from the generated description of _autorange_workers *)
Theorem pool_any_boss_source : forall r c, r < np c ->
  NoDup (pool_at_src r c) /\
  (forall p, In p (pool_at_src r c) <-> p < np c /\ (ib c = true \/ p <> r)) /\
  length (pool_at_src r c) = gen_autorange_nprocs (np c) (ib c) /\
  (gen_autorange_throws (gen_autorange_nprocs (np c) (ib c)) = true <-> pool_at_src r c = nil).
Proof. exact DispatchGenBoss.pool_any_boss. Qed.
Print Assumptions pool_any_boss_source.

Theorem pool_root_boss_source : forall c, pool_at_src 0 c = pool_src c /\ pool_src c = pool c.
Proof. exact DispatchGenBoss.pool_root_boss. Qed.
Print Assumptions pool_root_boss_source.

(** non-vacuity: a dedicated boss on the last and on a middle rank of four; a working boss on the last rank of three *)
Example pool_any_boss_examples :
  pool_at_src 3 (mkcfg 4 false) = 0 :: 1 :: 2 :: nil /\ pool_at_src 1 (mkcfg 4 false) = 0 :: 2 :: 3 :: nil /\
  pool_at_src 2 (mkcfg 3 true) = 0 :: 1 :: 2 :: nil.
Proof. exact DispatchGenBoss.pool_last_rank_boss. Qed.
