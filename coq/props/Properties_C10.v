(** C10 -- Eigenbasis field operators are the rotated operators and obey the CAR.
    Statements only; proofs are in theories/Rotate.v (mathcomp), theories/FockAdjoint.v and theories/HPartProofs.v.

    The matrix theorems hold over any field with an involution [conj] (identity: real build; complex conjugation:
    complex build).  [car_eigenbasis_partial] takes the anticommutation relations of the Jordan-Wigner matrices in the
    Fock basis as hypotheses (they are C05's theorems on basis states: CAR.anticommute_distinct, CAR.same_op_twice,
    CAR.car_same_index); unitarity of the assembled eigenvector matrix is C03 (certified per run).
    The correspondence between the list-level model of FieldOperatorPart::compute (HPart.fop_fill / fop_dense) and the
    matrices LeftMat / RightMat below is established per run by checks/C10.py (model vs. dump vs. specification). *)
From mathcomp Require Import all_ssreflect all_algebra.
From PV Require Import Outcome Fock Poly PolySem EDSpec HPart HPartSpec HPartProofs FockAdjoint Rotate.
Import GRing.Theory.
Local Open Scope ring_scope.

(** the two-loop construction of FieldOperatorPart::compute is U_to^+ O U_from *)
Theorem rotation_formula :
  forall (F : fieldType) (conj : {rmorphism F -> F}) (nt nf : nat)
         (Uto : 'M[F]_nt) (Ufrom : 'M[F]_nf) (O : 'M[F]_(nt, nf)) (tgt : 'I_nf -> option 'I_nt),
  (forall k l, tgt k != Some l -> O l k = 0) ->
  LeftMat conj Uto tgt *m RightMat Ufrom O tgt = adj conj Uto *m O *m Ufrom.
Proof. move=> F conj nt nf Uto Ufrom O tgt; exact: rotation_formula. Qed.
Print Assumptions rotation_formula.

Theorem rotate_back :
  forall (F : fieldType) (conj : {rmorphism F -> F}) (nt nf : nat)
         (Uto : 'M[F]_nt) (Ufrom : 'M[F]_nf) (O : 'M[F]_(nt, nf)),
  unitary conj Uto -> unitary conj Ufrom ->
  Uto *m (adj conj Uto *m O *m Ufrom) *m adj conj Ufrom = O.
Proof. move=> F conj nt nf Uto Ufrom O; exact: rotate_back. Qed.
Print Assumptions rotate_back.

(** the adjoint of the stored block of c^+ is the rotated block of (c^+)^+ ... *)
Theorem annihilation_is_adjoint :
  forall (F : fieldType) (conj : {rmorphism F -> F}), involutive conj ->
  forall (nt nf : nat) (Uto : 'M[F]_nt) (Ufrom : 'M[F]_nf) (O : 'M[F]_(nt, nf)),
  adj conj (adj conj Uto *m O *m Ufrom) = adj conj Ufrom *m adj conj O *m Uto.
Proof. move=> F conj conjK nt nf Uto Ufrom O; exact: annihilation_is_adjoint. Qed.
Print Assumptions annihilation_is_adjoint.

(** every entry of the operator assembled over all blocks is an entry of a block-wise rotation *)
Theorem assembled_entry :
  forall (F : fieldType) (conj : {rmorphism F -> F}) (B : finType) (n : nat) (blk eblk : 'I_n -> B) (U A : 'M[F]_n),
  (forall s g, blk s != eblk g -> U s g = 0) ->
  forall g g', (adj conj U *m A *m U) g g' =
    \sum_(s | blk s == eblk g) \sum_(t | blk t == eblk g') conj (U s g) * A s t * U t g'.
Proof. move=> F conj B n blk eblk U A hU g g'; exact: assembled_entry. Qed.
Print Assumptions assembled_entry.

(** FULL STATEMENT: for the Jordan-Wigner matrices C_i, C^+_j of every model, assembled over all blocks,
      {C'_i, C'^+_j} = delta_ij and {C'_i, C'_j} = 0 with C' = U^+ C U.
    PROVED: this, given the same relations in the Fock basis and U^+ U = 1. *)
Theorem car_eigenbasis_partial :
  forall (F : fieldType) (conj : {rmorphism F -> F}) (n : nat) (U : 'M[F]_n) (I : eqType) (C CX : I -> 'M[F]_n),
  unitary conj U ->
  (forall i j, C i *m CX j + CX j *m C i = ((i == j)%:R)%:M) ->
  (forall i j, C i *m C j + C j *m C i = 0) ->
  forall i j,
  rot conj U (C i) *m rot conj U (CX j) + rot conj U (CX j) *m rot conj U (C i) = ((i == j)%:R)%:M
  /\ rot conj U (C i) *m rot conj U (C j) + rot conj U (C j) *m rot conj U (C i) = 0.
Proof. move=> F conj n U I C CX; exact: car_eigenbasis. Qed.
Print Assumptions car_eigenbasis_partial.

Local Close Scope ring_scope.

(** ... and (c^+_i)^+ = c_i at the level of the action on Fock states: c_i |t> = sg |s>  <->  c^+_i |s> = sg |t> *)
Theorem annihilate_create_adjoint :
  forall i t sg s, act_op (cann i) t = Done (Some (sg, s)) <-> act_op (cdag i) s = Done (Some (sg, t)).
Proof. exact FockAdjoint.annihilate_create_adjoint. Qed.
Print Assumptions annihilate_create_adjoint.

(** for every monomial (so also (c^+_i c_j)^+ = c^+_j c_i) *)
Theorem act_mono_adjoint :
  forall m s sg t, act_mono m s = Done (Some (sg, t)) <-> act_mono (mono_adjoint m) t = Done (Some (sg, s)).
Proof. exact FockAdjoint.act_mono_adjoint. Qed.
Print Assumptions act_mono_adjoint.

(** as matrices on the full Fock space: the Jordan-Wigner matrix of m^+ is the transpose of that of m *)
Theorem jw_matrix_adjoint :
  forall (K : Type) (NO : numops K) M (m : monomial) s t, Peano.lt s (Nat.pow 2 M) -> Peano.lt t (Nat.pow 2 M) ->
  mget K NO (poly_matrix K NO M (cons (mono_adjoint m, n1 K NO) nil)) s t =
  mget K NO (poly_matrix K NO M (cons (m, n1 K NO) nil)) t s.
Proof. exact HPartProofs.jw_matrix_adjoint. Qed.
Print Assumptions jw_matrix_adjoint.

(** FieldOperatorContainer::computeAll: c := adjoint(c^+) for a block pair *)
Theorem container_copy_is_adjoint :
  forall (K : Type) (NO : numops K) (ncols : nat -> nat) (l r : nat) (m : mat K),
  container_copy K NO ncols (cons (l, r) nil) (cons ((l, r), m) nil) (cons (r, l) nil)
  = Done (cons ((r, l), Some (adjoint K NO (ncols r) m)) nil).
Proof. exact HPartProofs.container_copy_is_adjoint. Qed.
Print Assumptions container_copy_is_adjoint.

(** the sparse view / prune step only removes entries not larger than |reference| * precision <= |reference| = 1e-8 *)
Theorem pruning_bound :
  forall (K : Type) (NO : numops K),
  (forall a b c, nre_ltb K NO b a = false -> nre_ltb K NO c b = false -> nre_ltb K NO c a = false) ->
  forall (reference prec : K) (m : mat K) i j,
  nre_ltb K NO (nabs K NO reference) (nmul K NO (nabs K NO reference) prec) = false ->
  mget K NO (prune K NO reference prec m) i j = mget K NO m i j \/
  (mget K NO (prune K NO reference prec m) i j = n0 K NO /\
   nre_ltb K NO (nmul K NO (nabs K NO reference) prec) (nabs K NO (mget K NO m i j)) = false /\
   nre_ltb K NO (nabs K NO reference) (nabs K NO (mget K NO m i j)) = false).
Proof. exact HPartProofs.pruning_bound. Qed.
Print Assumptions pruning_bound.
