(** C10 -- Eigenbasis field operators are the rotated operators and obey the CAR.
    Statements only; proofs are in theories/Rotate.v (mathcomp), theories/FockAdjoint.v and theories/HPartProofs.v.

    The matrix theorems hold over any field with an involution [conj] (identity: real build; complex conjugation:
    complex build).  [car_eigenbasis_partial] takes the anticommutation relations of the Jordan-Wigner matrices in the
    Fock basis as hypotheses (they are C05's theorems on basis states: CAR.anticommute_distinct, CAR.same_op_twice,
    CAR.car_same_index); unitarity of the assembled eigenvector matrix is C03 (certified per run).
    [rotation_formula_model] is the end-to-end statement for the executable model: HPart.fop_dense (the list-level model of
    FieldOperatorPart::compute that the correspondence check runs against the code), instantiated at any field with exact zero
    tests, never leaves its arrays and returns U_to^+ (Jordan-Wigner block) U_from, on every pair of blocks the operator
    respects (single-target condition: C07). *)
From mathcomp Require Import all_ssreflect all_algebra.
From PV Require Import Outcome Fock Poly PolySem EDSpec HPart HPartSpec HPartProofs FockAdjoint Rotate RotateBridge.
From PV Require ContainerHistory ContainerHistoryProofs.
Import GRing.Theory.
Local Open Scope ring_scope.

(** the model of FieldOperatorPart::compute returns the rotated Jordan-Wigner block *)
Theorem rotation_formula_model :
  forall (F : fieldType) (conj : {rmorphism F -> F}) (fb : bool) (S : classification) (o : fop) (from to : nat)
         (fromStates toStates : list nat) (Hfrom Hto : mat F),
  wf_class S -> mono_in_range (sc_M S) (fop_mono o) ->
  List.nth_error (sc_states S) from = Some fromStates -> List.nth_error (sc_states S) to = Some toStates ->
  square F (length fromStates) Hfrom -> square F (length toStates) Hto ->
  (forall Kst L sg, List.In Kst fromStates -> tgt_of F (Fops conj) (sc_M S) o Kst = Some (L, sg) -> List.In L toStates) ->
  exists D : mat F,
    fop_dense fb F (Fops conj) 0 S o from to Hfrom Hto = Done D /\
    (\matrix_(n < length toStates, m < length fromStates) mget F (Fops conj) D n m) =
    adj conj (Uto conj toStates Hto) *m JWblock conj S o fromStates toStates *m Ufrom conj fromStates Hfrom.
Proof. move=> F conj fb S o from to fromStates toStates Hfrom Hto; exact: fop_dense_is_rotated_jw. Qed.
Print Assumptions rotation_formula_model.

(** the two-loop construction of FieldOperatorPart::compute is U_to^+ O U_from *)
Theorem rotation_formula :
  forall (F : fieldType) (conj : {rmorphism F -> F}) (nt nf : nat)
         (Uto : 'M[F]_nt) (Ufrom : 'M[F]_nf) (O : 'M[F]_(nt, nf)) (tgt : 'I_nf -> option 'I_nt),
  (forall k l, tgt k != Some l -> O l k = 0) ->
  LeftMat conj Uto tgt *m RightMat Ufrom O tgt = adj conj Uto *m O *m Ufrom.
Proof. move=> F conj nt nf Uto Ufrom O tgt; exact: rotation_formula. Qed.
Print Assumptions rotation_formula.

Theorem rotate_back :
  forall (F : fieldType) (conj : {rmorphism F -> F}) (nt nf : nat)
         (Uto : 'M[F]_nt) (Ufrom : 'M[F]_nf) (O : 'M[F]_(nt, nf)),
  unitary conj Uto -> unitary conj Ufrom ->
  Uto *m (adj conj Uto *m O *m Ufrom) *m adj conj Ufrom = O.
Proof. move=> F conj nt nf Uto Ufrom O; exact: rotate_back. Qed.
Print Assumptions rotate_back.

(** the adjoint of the stored block of c^+ is the rotated block of (c^+)^+ ... *)
Theorem annihilation_is_adjoint :
  forall (F : fieldType) (conj : {rmorphism F -> F}), involutive conj ->
  forall (nt nf : nat) (Uto : 'M[F]_nt) (Ufrom : 'M[F]_nf) (O : 'M[F]_(nt, nf)),
  adj conj (adj conj Uto *m O *m Ufrom) = adj conj Ufrom *m adj conj O *m Uto.
Proof. move=> F conj conjK nt nf Uto Ufrom O; exact: annihilation_is_adjoint. Qed.
Print Assumptions annihilation_is_adjoint.

(** every entry of the operator assembled over all blocks is an entry of a block-wise rotation *)
Theorem assembled_entry :
  forall (F : fieldType) (conj : {rmorphism F -> F}) (B : finType) (n : nat) (blk eblk : 'I_n -> B) (U A : 'M[F]_n),
  (forall s g, blk s != eblk g -> U s g = 0) ->
  forall g g', (adj conj U *m A *m U) g g' =
    \sum_(s | blk s == eblk g) \sum_(t | blk t == eblk g') conj (U s g) * A s t * U t g'.
Proof. move=> F conj B n blk eblk U A hU g g'; exact: assembled_entry. Qed.
Print Assumptions assembled_entry.

(** FULL STATEMENT: for the Jordan-Wigner matrices C_i, C^+_j of every model, assembled over all blocks,
      {C'_i, C'^+_j} = delta_ij and {C'_i, C'_j} = 0 with C' = U^+ C U.
    PROVED: this, given the same relations in the Fock basis and U^+ U = 1. *)
Theorem car_eigenbasis_partial :
  forall (F : fieldType) (conj : {rmorphism F -> F}) (n : nat) (U : 'M[F]_n) (I : eqType) (C CX : I -> 'M[F]_n),
  unitary conj U ->
  (forall i j, C i *m CX j + CX j *m C i = ((i == j)%:R)%:M) ->
  (forall i j, C i *m C j + C j *m C i = 0) ->
  forall i j,
  rot conj U (C i) *m rot conj U (CX j) + rot conj U (CX j) *m rot conj U (C i) = ((i == j)%:R)%:M
  /\ rot conj U (C i) *m rot conj U (C j) + rot conj U (C j) *m rot conj U (C i) = 0.
Proof. move=> F conj n U I C CX; exact: car_eigenbasis. Qed.
Print Assumptions car_eigenbasis_partial.

Local Close Scope ring_scope.

(** ... and (c^+_i)^+ = c_i at the level of the action on Fock states: c_i |t> = sg |s>  <->  c^+_i |s> = sg |t> *)
Theorem annihilate_create_adjoint :
  forall i t sg s, act_op (cann i) t = Done (Some (sg, s)) <-> act_op (cdag i) s = Done (Some (sg, t)).
Proof. exact FockAdjoint.annihilate_create_adjoint. Qed.
Print Assumptions annihilate_create_adjoint.

(** for every monomial (so also (c^+_i c_j)^+ = c^+_j c_i) *)
Theorem act_mono_adjoint :
  forall m s sg t, act_mono m s = Done (Some (sg, t)) <-> act_mono (mono_adjoint m) t = Done (Some (sg, s)).
Proof. exact FockAdjoint.act_mono_adjoint. Qed.
Print Assumptions act_mono_adjoint.

(** as matrices on the full Fock space: the Jordan-Wigner matrix of m^+ is the transpose of that of m *)
Theorem jw_matrix_adjoint :
  forall (K : Type) (NO : numops K) M (m : monomial) s t, Peano.lt s (Nat.pow 2 M) -> Peano.lt t (Nat.pow 2 M) ->
  mget K NO (poly_matrix K NO M (cons (mono_adjoint m, n1 K NO) nil)) s t =
  mget K NO (poly_matrix K NO M (cons (m, n1 K NO) nil)) t s.
Proof. exact HPartProofs.jw_matrix_adjoint. Qed.
Print Assumptions jw_matrix_adjoint.

(** FieldOperatorContainer::computeAll: c := adjoint(c^+) for a block pair *)
Theorem container_copy_is_adjoint :
  forall (K : Type) (NO : numops K) (ncols : nat -> nat) (l r : nat) (m : mat K),
  container_copy K NO ncols (cons (l, r) nil) (cons ((l, r), m) nil) (cons (r, l) nil)
  = Done (cons ((r, l), Some (adjoint K NO (ncols r) m)) nil).
Proof. exact HPartProofs.container_copy_is_adjoint. Qed.
Print Assumptions container_copy_is_adjoint.

(** the sparse view / prune step only removes entries not larger than |reference| * precision <= |reference| = 1e-8 *)
Theorem pruning_bound :
  forall (K : Type) (NO : numops K),
  (forall a b c, nre_ltb K NO b a = false -> nre_ltb K NO c b = false -> nre_ltb K NO c a = false) ->
  forall (reference prec : K) (m : mat K) i j,
  nre_ltb K NO (nabs K NO reference) (nmul K NO (nabs K NO reference) prec) = false ->
  mget K NO (prune K NO reference prec m) i j = mget K NO m i j \/
  (mget K NO (prune K NO reference prec m) i j = n0 K NO /\
   nre_ltb K NO (nmul K NO (nabs K NO reference) prec) (nabs K NO (mget K NO m i j)) = false /\
   nre_ltb K NO (nabs K NO reference) (nabs K NO (mget K NO m i j)) = false).
Proof. exact HPartProofs.pruning_bound. Qed.
Print Assumptions pruning_bound.

(** the two loops of FieldOperatorPart::compute, list-level model: on a pair of blocks the operator respects they never
    leave their arrays, and column k of LeftMat / row k of RightMat are exactly the entries that Rotate.LeftMat /
    Rotate.RightMat are defined by (conj(U_to(l_k, n)) and sign_k * U_from(k, m); zero where O annihilates the k-th state) *)
Theorem rotation_two_loops :
  forall (fb : bool) (K : Type) (NO : numops K) (eps : K),
  nre_ltb K NO (nabs K NO (n1 K NO)) eps = false ->
  nre_ltb K NO (nabs K NO (nopp K NO (n1 K NO))) eps = false ->
  nre_ltb K NO eps (nabs K NO (n1 K NO)) = true ->
  nre_ltb K NO eps (nabs K NO (nopp K NO (n1 K NO))) = true ->
  forall (S : classification) (o : fop) (from to : nat) (fromStates toStates : list nat) (Hfrom Hto : mat K),
  wf_class S -> mono_in_range (sc_M S) (fop_mono o) ->
  List.nth_error (sc_states S) from = Some fromStates -> List.nth_error (sc_states S) to = Some toStates ->
  square K (length fromStates) Hfrom -> square K (length toStates) Hto ->
  (forall Kst L sg, List.In Kst fromStates -> tgt_of K NO (sc_M S) o Kst = Some (L, sg) -> List.In L toStates) ->
  exists Lc Rr,
    fop_fill fb K NO eps S o Hfrom Hto (length toStates) (length fromStates) fromStates = Done (Lc, Rr) /\
    length Lc = length fromStates /\ length Rr = length fromStates /\
    forall k Kst, List.nth_error fromStates k = Some Kst ->
      match tgt_of K NO (sc_M S) o Kst with
      | Some (L, sg) => exists l, List.nth_error toStates l = Some L /\
                          List.nth k Lc nil = left_column K NO Hto (length toStates) l /\
                          List.nth k Rr nil = right_row K NO Hfrom (length fromStates) k sg
      | None => List.nth k Lc nil = List.repeat (n0 K NO) (length toStates) /\
                List.nth k Rr nil = List.repeat (n0 K NO) (length fromStates)
      end.
Proof. exact HPartProofs.fop_fill_char. Qed.
Print Assumptions rotation_two_loops.

(** FieldOperatorContainer filled in several steps (model: theories/ContainerHistory.v -- prepareAll replaces / adds operators in state
    Prepared, computeAll computes every creation operator that is not Computed and fills the annihilation operator from it):
    after ANY history of prepareAll / computeAll calls that ends with computeAll, every operator some prepareAll asked for is Computed,
    the creation operator is the one computed one by one ([single_cx i], for which rotation_formula_model holds) and the annihilation
    operator is its adjoint (container_copy_is_adjoint, annihilation_is_adjoint); nothing else is in the container. *)
Theorem container_history_complete :
  forall (V : Type) (single_cx : nat -> V) (adjoint : V -> V) (n : nat) (h : list ContainerHistory.step) (i : nat),
  ContainerHistory.requested n h i ->
  ContainerHistory.get V i (ContainerHistory.run V single_cx adjoint n (List.app h (cons ContainerHistory.ComputeAll nil)))
  = Some (ContainerHistory.mkEntry (Some (single_cx i)) (Some (adjoint (single_cx i)))).
Proof. exact ContainerHistoryProofs.history_complete. Qed.
Print Assumptions container_history_complete.

Theorem container_history_nothing_else :
  forall (V : Type) (single_cx : nat -> V) (adjoint : V -> V) (n : nat) (h : list ContainerHistory.step) (i : nat),
  ~ ContainerHistory.requested n h i -> ContainerHistory.get V i (ContainerHistory.run V single_cx adjoint n h) = None.
Proof. exact ContainerHistoryProofs.history_nothing_else. Qed.
Print Assumptions container_history_nothing_else.
