(** C14 -- the dynamical susceptibility equals its definition, including the static limit.
    Statements only; proofs are in PV.SparseProofs, PV.SuscPartProofs, PV.GFPartProofs, PV.TermIntegrals.
    Models: PV.Sparse (the merge walk is the same function as for the Green's function), PV.TermList, PV.SuscPart;
    leaf expressions from PVgen.Gen_C01 (regenerated from the C++ on every run). *)
Require Import Bool List Arith ZArith Reals Ring_theory Field_theory.
From Coquelicot Require Import Coquelicot.
From PV Require Import EDSpec NumLit BigSum Sparse SparseProofs TermList TermListProofs GFPart SuscPart GFPartProofs SuscPartProofs
     TermIntegrals.
From PVgen Require Import Gen_C01.
Import ListNotations.
Local Open Scope nat_scope.

(** * 1. the merge walk of SusceptibilityPart::compute (all outer indices): whenever it returns, it returns exactly the
    positions with equal inner index *)
Theorem susc_walk_complete :
  forall (VA VB : Type) (a : cs VA) (b : cs VB), cs_wf a -> cs_wf b -> cs_outer a <= cs_outer b ->
  forall (fixed lenient : bool) (l : list (nat * (nat * nat))),
  part_walk fixed lenient a b = WDone l -> l = matches_part a b.
Proof. exact @SparseProofs.part_walk_complete. Qed.
Print Assumptions susc_walk_complete.

(** * 2. a part, exact form (MatrixElementTolerance 0, total comparator; the resonance test stays a parameter):
      value(z) = sum_{n,m} A[n,m] B[m,n] * ( resonant(E_m - E_n) ? [|z| < 1e-15] beta w_n : (w_m - w_n)/(z - (E_m - E_n)) )
    i.e. the zero-pole weight beta sum_{resonant} A_nm B_mn w_n at zero frequency and nothing from those pairs elsewhere *)
Theorem susc_part_exact :
  forall (K : Type) (NO : numops K) (kinv : K -> K),
  field_theory (n0 K NO) (n1 K NO) (nadd K NO) (nmul K NO) (nsub K NO) (nopp K NO) (ndiv K NO) kinv (@eq K) ->
  forall T : tols K,
  (forall R, susc_relevant K NO (t_matrix_element K T) R = false -> R = n0 K NO) ->
  (forall a b, susc_compare K NO (t_compare K T) a b = false -> susc_compare K NO (t_compare K T) b a = true) ->
  forall (fixed lenient : bool) (inp : part_in K), part_wf K inp ->
  forall (o : spart_out K) (beta z : K),
  susc_part_compute K NO fixed lenient T inp = WDone o ->
  susc_part_value K NO o beta z = susc_part_spec K NO kinv T inp beta z.
Proof. exact (fun K NO kinv Kf => SuscPartProofs.susc_part_exact K NO kinv (F_R Kf) (Fdiv_def Kf)). Qed.
Print Assumptions susc_part_exact.

(** the kernel of a resonant pair: beta w_n at zero frequency, nothing elsewhere *)
Theorem susc_zero_pole_weight :
  forall (K : Type) (NO : numops K) (kinv : K -> K) (T : tols K) (inp : part_in K) (beta z : K) (o m : nat),
  susc_is_zero_pole K NO (t_resonance K T) (nsub K NO (nth m (p_eI K inp) (n0 K NO)) (nth o (p_eO K inp) (n0 K NO))) = true ->
  skern K NO kinv T inp beta z o m = if z_is_zero K NO z then nmul K NO beta (nth o (p_wO K inp) (n0 K NO)) else n0 K NO.
Proof. exact SuscPartProofs.skern_resonant. Qed.
Print Assumptions susc_zero_pole_weight.

(** * 3. the definition, term by term (classical reals):
      int_0^beta w_n e^{-P tau} e^{i W tau} dtau = (w_m - w_n)/(i W - P)   unless P = 0 = W *)
Theorem bose_term_integral :
  forall (beta P wn : R) (n : Z), (0 < beta)%R -> (P <> 0%R \/ n <> 0%Z) ->
  let W := bose_freq beta n in
  let wm := (wn * exp (- beta * P))%R in
  let d := (P * P + W * W)%R in
  is_RInt (fun tau => (wn * (exp (- P * tau) * cos (W * tau)))%R) 0 beta (- P * (wm - wn) / d)%R /\
  is_RInt (fun tau => (wn * (exp (- P * tau) * sin (W * tau)))%R) 0 beta (- W * (wm - wn) / d)%R.
Proof. exact TermIntegrals.bose_term_integral. Qed.
Print Assumptions bose_term_integral.

(** the static limit: degenerate states at W = 0 contribute beta * w_n *)
Theorem bose_term_integral_zero :
  forall beta wn : R,
  let W := bose_freq beta 0 in
  is_RInt (fun tau => (wn * (exp (- 0 * tau) * cos (W * tau)))%R) 0 beta (beta * wn)%R /\
  is_RInt (fun tau => (wn * (exp (- 0 * tau) * sin (W * tau)))%R) 0 beta 0%R.
Proof. exact TermIntegrals.bose_term_integral_zero. Qed.
Print Assumptions bose_term_integral_zero.

(** imaginary-time values are consistent with the frequency values: both branches of Term::operator()(tau, beta)
    are one function and its transform at a bosonic Matsubara frequency is Term::operator()(i W) = -Res/(i W - P) *)
Theorem susc_tau_consistent :
  forall (c wn P beta : R) (n : Z), (0 < beta)%R -> P <> 0%R ->
  let W := bose_freq beta n in
  let Res := (c * (wn - wn * exp (- beta * P)))%R in
  let d := (P * P + W * W)%R in
  is_RInt (fun tau => (susc_term_tau R Rops Res P tau beta * cos (W * tau))%R) 0 beta (- (- P * Res / d))%R /\
  is_RInt (fun tau => (susc_term_tau R Rops Res P tau beta * sin (W * tau))%R) 0 beta (- (- W * Res / d))%R.
Proof. exact TermIntegrals.susc_tau_consistent. Qed.
Print Assumptions susc_tau_consistent.

(** * 4. subtraction of the disconnected part *)
(** the subtracted object differs from the unsubtracted one by beta <A><B> where the zero-frequency test fires and by
    nothing elsewhere *)
Theorem subtract_only_at_zero :
  forall (K : Type) (NO : numops K) (parts : list ((nat * nat) * spart_out K)) (aveA aveB beta z : K),
  susc_value K NO parts (Some (aveA, aveB)) beta z =
  if z_is_zero K NO z then nsub K NO (susc_value K NO parts None beta z) (nmul K NO (nmul K NO aveA aveB) beta)
  else susc_value K NO parts None beta z.
Proof. exact SuscPartProofs.subtract_only_at_zero. Qed.
Print Assumptions subtract_only_at_zero.

(** on the bosonic Matsubara axis the test |z| < 1e-15 fires exactly at n = 0 (for beta <= 1e15) *)
Theorem zero_test_only_n0 :
  forall (beta : R) (n : Z), (0 < beta)%R -> (beta <= 1e15)%R -> ((Rabs (bose_freq beta n) < 1e-15)%R <-> n = 0%Z).
Proof. exact TermIntegrals.zero_test_only_n0. Qed.
Print Assumptions zero_test_only_n0.

(** in imaginary time the subtracted object differs by <A><B> at every tau *)
Theorem subtract_tau :
  forall (K : Type) (NO : numops K) (parts : list ((nat * nat) * spart_out K)) (aveA aveB tau beta : K),
  susc_value_tau K NO parts (Some (aveA, aveB)) tau beta =
  nsub K NO (susc_value_tau K NO parts None tau beta) (nmul K NO aveA aveB).
Proof. exact SuscPartProofs.subtract_tau. Qed.
Print Assumptions subtract_tau.

(** the three ways of supplying <A>, <B> coincide (the caller's EnsembleAverage objects may be fresh or already prepared) *)
Theorem supply_coincide :
  forall (K : Type) (NO : numops K) (gA gB : gf_in K) (sa sb : ea_state K),
  ea_fresh_or_prepared K NO gA sa -> ea_fresh_or_prepared K NO gB sb ->
  supplied K NO gA gB (SupplyObjects K sa sb) = supplied K NO gA gB (SupplyInternal K) /\
  supplied K NO gA gB (SupplyNumbers K (ensemble_average K NO gA) (ensemble_average K NO gB)) = supplied K NO gA gB (SupplyInternal K).
Proof. exact SuscPartProofs.supply_coincide. Qed.
Print Assumptions supply_coincide.

(** * 5. stripe selection of Susceptibility::prepare (the same two-iterator walk as GreensFunction::prepare) *)
Theorem susc_stripes_complete :
  forall (fuel : nat) (cl cxr : list (nat * nat)), ksorted cl -> ksorted cxr -> length cl + length cxr <= fuel ->
  stripes fuel cl cxr = Some (stripes_spec cl cxr).
Proof. exact GFPartProofs.gf_stripes_complete. Qed.
Print Assumptions susc_stripes_complete.

(** bosonic Matsubara argument: operator()(long n) evaluates at 2n * i*pi/beta *)
Theorem susc_matsubara_point :
  forall (K : Type) (NO : numops K) (kpi beta : K) (n : Z),
  susc_matsubara K NO kpi beta n = nmul K NO (ndiv K NO (nmul K NO (nI K NO) kpi) beta) (nofZ K NO (2 * n)%Z).
Proof. exact (fun K NO kpi beta n => eq_refl). Qed.
Print Assumptions susc_matsubara_point.
