(** C01 about the SOURCE TEXT -- the statements of Properties_C01.v once more, about the definitions of PV.LehmannGen, which are
    interpreters (PV.LehmannInterp) run on the descriptions that translator/gen_lehmann.py reads off the C++ on every run:

      PVgen.Gen_LehGFPartCompute   GreensFunctionPart::compute: the loop over index1, the two inner iterators, the match / chase
                                   branches with their conditions and advance statements, and what is done at a match
      PVgen.Gen_LehAddTerm         TermList::add_term, statement by statement
      PVgen.Gen_LehTermListEval    TermList::operator()
      PVgen.Gen_LehGFTermTau       Term::operator()(tau, beta)
      PVgen.Gen_LehGFPartEval      GreensFunctionPart::operator()(z), of_tau, operator()(long)
      PVgen.Gen_LehGFEval          GreensFunction::operator()(z), of_tau, operator()(long)

    Statements only; proofs in PV.LehmannInterpProofs (the interpreters on the model descriptions are the model functions, proved
    once), PV.LehmannGenProofs (TermList::add_term, shared with C14 and C02) and PV.LehmannGenProofsGF (the generated descriptions
    are the model descriptions -- closed computations -- and the transport).  This file stops compiling when a chase loop steps over
    the matching entry (`<=`), when add_term tests negligibility before erase, when a branch, a bound or the order of the
    statements changes -- whether or not a numeric run happens to notice.

    PV.TermList.add_term (the model of Properties_C01.v) is the retry loop the source has: the agreement of section 3 needs no
    hypothesis (it needed `at most one stored term like the added one` while the model still had the former find / erase / insert
    form; that form is kept as PV.TermList.add_term_findform, see add_term_forms_differ).

    [..._src] : PV.LehmannGen.  A part's result is its term list (Pole, Residue); [blk] = (block of HpartOuter, of HpartInner). *)
Require Import Bool List Arith ZArith Reals Ring_theory Field_theory.
From Coquelicot Require Import Coquelicot.
From PV Require Import EDSpec NumLit BigSum Sparse SparseProofs TermList TermListProofs GFPart GFPartProofs GFFullProofs TermIntegrals
     LehmannShapes LehmannInterp LehmannInterpProofs LehmannGen LehmannGenProofs LehmannGenProofsGF.
From PVgen Require Import Gen_C01 Gen_LehGFPartCompute Gen_LehAddTerm Gen_LehTermListEval Gen_LehGFTermTau Gen_LehGFPartEval Gen_LehGFEval.
Import ListNotations.
Local Open Scope nat_scope.

(** * 1. the descriptions generated from this tree are the ones the models follow *)
(** GreensFunctionPart::compute: the loop nest is PV.Sparse.part_walk's (with the guard flag PVgen.Gen_C01 reads off the chase
    loops), the match branch computes the residue, tests relevance, computes the pole and adds the term *)
Theorem source_gf_compute_is_model :
  gen_gf_nest = model_merge_nest gf_chase_guarded /\
  forall (K : Type) (NO : numops K),
    gen_gf_blocks K NO = [model_gf_body K (gf_residue K NO) (gf_pole K NO) (gf_relevant K NO)].
Proof. exact (conj LehmannGenProofsGF.gen_gf_nest_is_model LehmannGenProofsGF.gen_gf_blocks_is_model). Qed.
Print Assumptions source_gf_compute_is_model.

(** TermList::add_term is the retry loop; TermList::operator() is the forward sum starting at 0 *)
Theorem source_termlist_is_model :
  gen_add_term = model_add_term /\ gen_termlist_eval = mk_tl_eval true true AccPlus true /\ gen_termlist_arities = [1; 2; 3; 4].
Proof. exact (conj LehmannGenProofs.gen_add_term_is_model LehmannGenProofs.gen_termlist_eval_is_model). Qed.
Print Assumptions source_termlist_is_model.

(** the evaluation functions: which term list is called with which arguments, the Vanishing test, the sum over the parts,
    the Matsubara argument 2n+1.
    The statement lists of GreensFunction::operator()(z) / of_tau are tied up to [LehmannGenEquiv.vequiv] (the interpreter
    value_by returns the same for every zero / addition / subtraction, both values of Vanishing and SubtractDisconnected, every list
    of part values, every argument): the source may e.g. read `Value = 0; if(!Vanishing) for(parts) Value += ..; return Value;`.
    Until this statement read [gen_gf_value_z K NO = model_gf_value K] (the same list); every theorem below uses the lists only
    through value_by, so nothing that was proved from the equality is lost ([source_gf_value_is_model] is unchanged). *)
Theorem source_gf_eval_is_model :
  forall (K : Type) (NO : numops K),
    (forall R P tau beta, gen_gf_term_tau K NO R P tau beta = gf_term_tau K NO R P tau beta) /\
    (gen_gfpart_z_args = [PaArg 0] /\ gen_gfpart_tau_args = [PaArg 0; PaBeta] /\
     (forall t zw beta a, gen_gfpart_z K NO t zw beta a = gf_part_eval K t) /\
     (forall t zw beta a, gen_gfpart_tau K NO t zw beta a = gf_part_tau K t) /\
     (forall n, gen_gfpart_matsubara n = gf_matsubara_mult n)) /\
    (LehmannGenEquiv.vequiv (gen_gf_value_z K NO) (model_gf_value K) /\ LehmannGenEquiv.vequiv (gen_gf_value_tau K NO) (model_gf_value K) /\
     (forall n, gen_gf_matsubara n = gf_total_matsubara_mult n)).
Proof.
  exact (fun K NO => conj (LehmannGenProofsGF.gen_gf_term_tau_is_model K NO)
                          (conj (LehmannGenProofsGF.gen_gfpart_eval_is_model K NO) (LehmannGenProofsGF.gen_gf_value_is_model K NO))).
Qed.
Print Assumptions source_gf_eval_is_model.

(** * 2. the merge walk of the source *)
(** whenever it returns it returns exactly the positions with equal inner index (every one tagged as the body block 0) ... *)
Theorem gf_walk_src_complete :
  forall (VA VB : Type) (a : cs VA) (b : cs VB) (lenient : bool) (l : list (nat * (nat * (nat * nat)))),
  cs_wf a -> cs_wf b -> cs_outer a <= cs_outer b ->
  part_walk_src lenient gen_gf_nest a b = WDone l -> l = tag0o (matches_part a b).
Proof. exact LehmannGenProofsGF.gf_walk_src_complete. Qed.
Print Assumptions gf_walk_src_complete.

(** ... and it does return: no read of index() on an exhausted iterator *)
Theorem gf_walk_src_in_bounds :
  forall (VA VB : Type) (a : cs VA) (b : cs VB) (lenient : bool),
  cs_wf a -> cs_wf b -> cs_outer a <= cs_outer b ->
  part_walk_src lenient gen_gf_nest a b = WDone (tag0o (matches_part a b)).
Proof. exact LehmannGenProofsGF.gf_walk_src_in_bounds. Qed.
Print Assumptions gf_walk_src_in_bounds.

(** * 3. TermList::add_term of the source *)
(** it is the loop `insert; while blocked: reduce with the blocking term, erase it, drop if negligible, retry` *)
Theorem add_term_src_is_retry_loop :
  forall (T : Type) (comp : T -> T -> bool) (plus : T -> T -> T) (negl : T -> nat -> bool) (term : T) (l : list T),
  add_term_by T comp plus negl gen_add_term term l = add_term_ref T comp plus negl (length l) term l.
Proof.
  exact (fun T comp plus negl term l =>
           eq_trans (f_equal (fun d => add_term_by T comp plus negl d term l) LehmannGenProofs.gen_add_term_is_model)
                    (LehmannInterpProofs.add_term_by_model T comp plus negl term l)).
Qed.
Print Assumptions add_term_src_is_retry_loop.

(** PV.TermList.add_term -- the model the theorems of Properties_C01.v are about -- is that loop, with ghost events: the
    source's add_term returns the model's sequence for EVERY comparator, stored sequence and added term, and is never cut short *)
Theorem add_term_src_agrees_with_model :
  forall (P C : Type) (comp : P -> P -> bool) (negl : C -> nat -> bool) (cadd : C -> C -> C)
         (t : term P C) (l : list (term P C)),
  add_term_ref (term P C) (tcomp P C comp) (tplus P C cadd) (tnegl P C negl) (length l) t l =
  (true, fst (add_term P C comp negl cadd t l)).
Proof. exact LehmannGenProofs.add_term_ref_is_termlist. Qed.
Print Assumptions add_term_src_agrees_with_model.

(** ... step for step, for every bound of the loop ... *)
Theorem add_term_src_agrees_with_model_loop :
  forall (P C : Type) (comp : P -> P -> bool) (negl : C -> nat -> bool) (cadd : C -> C -> C)
         (n : nat) (t : term P C) (l : list (term P C)),
  add_term_ref (term P C) (tcomp P C comp) (tplus P C cadd) (tnegl P C negl) n t l =
  (fin_ok (snd (snd (add_term_loop P C comp negl cadd n t l))), fst (add_term_loop P C comp negl cadd n t l)).
Proof. exact LehmannGenProofs.add_term_ref_is_loop. Qed.
Print Assumptions add_term_src_agrees_with_model_loop.

(** ... and so do sequences of calls *)
Theorem add_terms_src_agrees_with_model :
  forall (P C : Type) (comp : P -> P -> bool) (negl : C -> nat -> bool) (cadd : C -> C -> C) (ts l : list (term P C)),
  add_terms_ref P C comp negl cadd ts l = fst (add_terms P C comp negl cadd ts l).
Proof. exact LehmannGenProofs.add_terms_ref_is_termlist. Qed.
Print Assumptions add_terms_src_agrees_with_model.

(** A documented fact about the FORMER form of add_term (find / erase(key) / insert, PV.TermList.add_term_findform; the model
    before it followed the repair b3c7635): on a set satisfying the invariant it agrees with the present form when at most one
    stored term is like the new one ... *)
Theorem add_term_findform_agrees :
  forall (P C : Type) (comp : P -> P -> bool) (negl : C -> nat -> bool) (cadd : C -> C -> C),
  (forall a, comp a a = false) -> (forall a b c, comp a b = true -> comp b c = true -> comp a c = true) ->
  forall (t : term P C) (l : list (term P C)), sorted_sep P C comp l -> unambiguous1 P C comp t l = true ->
  fst (add_term P C comp negl cadd t l) = add_term_findform P C comp negl cadd t l.
Proof. exact LehmannGenProofs.add_term_findform_agrees. Qed.
Print Assumptions add_term_findform_agrees.

(** ... for a total comparator (the exact form) always ... *)
Theorem add_term_findform_agrees_total :
  forall (P C : Type) (comp : P -> P -> bool) (negl : C -> nat -> bool) (cadd : C -> C -> C),
  (forall a b, comp a b = false -> comp b a = true) ->
  forall (t : term P C) (l : list (term P C)),
  fst (add_term P C comp negl cadd t l) = add_term_findform P C comp negl cadd t l.
Proof. exact LehmannGenProofs.add_term_findform_agrees_total. Qed.
Print Assumptions add_term_findform_agrees_total.

(** ... and they are different functions otherwise: a new pole closer than the tolerance to two stored poles was merged into the
    lower neighbour by the former form and is merged into the upper one by the source and the model (poles 0, 15 stored,
    tolerance 10, new pole 8) *)
Theorem add_term_forms_differ :
  let l := [(0, 1); (15, 1)] in
  let t := (8, 1) in
  sorted_sep nat nat ncomp l /\
  add_term_findform nat nat ncomp (fun _ _ => false) Nat.add t l = [(0, 2); (15, 1)] /\
  add_term_ref (nat * nat) (tcomp nat nat ncomp) (tplus nat nat Nat.add) (tnegl nat nat (fun _ _ => false)) (length l) t l
    = (true, [(0, 1); (15, 2)]) /\
  add_term nat nat ncomp (fun _ _ => false) Nat.add t l = ([(0, 1); (15, 2)], EvChain [((15, 1), (15, 2))] FinInserted) /\
  unambiguous1 nat nat ncomp t l = false.
Proof. exact LehmannGenProofs.add_term_forms_differ. Qed.
Print Assumptions add_term_forms_differ.

(** * 4. GreensFunctionPart::compute of the source: the model's walk and candidates, followed by the source's add_term *)
Theorem gf_part_compute_src_is_model :
  forall (K : Type) (NO : numops K) (lenient : bool) (T : tols K) (blk : nat * nat) (inp : part_in K),
  gf_part_compute_src K NO lenient T blk inp =
  wmap (fun o => gf_terms_src K NO T (kept K (o_raw K o))) (gf_part_compute K NO gf_chase_guarded lenient T inp).
Proof. exact LehmannGenProofsGF.gf_part_compute_src_is_model. Qed.
Print Assumptions gf_part_compute_src_is_model.

(** exact form (tolerances 0): the value is the Lehmann double sum over the block pair *)
Theorem gf_part_exact_src :
  forall (K : Type) (NO : numops K) (kinv : K -> K),
  field_theory (n0 K NO) (n1 K NO) (nadd K NO) (nmul K NO) (nsub K NO) (nopp K NO) (ndiv K NO) kinv (@eq K) ->
  forall T : tols K,
  (forall R, gf_relevant K NO (t_matrix_element K T) R = false -> R = n0 K NO) ->
  (forall a b, gf_compare K NO (t_compare K T) a b = false -> gf_compare K NO (t_compare K T) b a = true) ->
  forall (lenient : bool) (blk : nat * nat) (inp : part_in K), part_wf K inp ->
  forall (terms : list (gterm K)) (beta z : K),
  gf_part_compute_src K NO lenient T blk inp = WDone terms ->
  gf_part_value_src K NO terms beta z = gf_part_spec K NO inp z.
Proof. exact LehmannGenProofsGF.gf_part_exact_src. Qed.
Print Assumptions gf_part_exact_src.

(** the source's compute returns the model's term list, whatever the tolerances *)
Theorem gf_part_compute_src_agrees :
  forall (K : Type) (NO : numops K) (lenient : bool) (T : tols K) (blk : nat * nat) (inp : part_in K) (o : part_out K),
  gf_part_compute K NO gf_chase_guarded lenient T inp = WDone o ->
  gf_part_compute_src K NO lenient T blk inp = WDone (o_terms K o).
Proof. exact LehmannGenProofsGF.gf_part_compute_src_agrees. Qed.
Print Assumptions gf_part_compute_src_agrees.

(** tolerance form: the source computes the model's term list, and the value it returns obeys the bound
    |value - Lehmann sum| <= sum_{dropped} |R/(z-P)| + sum_{events} |error of the event|    (no hypothesis on the added terms) *)
Theorem gf_part_tolerance_src :
  forall (K : Type) (NO : numops K) (kinv : K -> K),
  field_theory (n0 K NO) (n1 K NO) (nadd K NO) (nmul K NO) (nsub K NO) (nopp K NO) (ndiv K NO) kinv (@eq K) ->
  forall norm : K -> R,
  (forall a b, (norm (nadd K NO a b) <= norm a + norm b)%R) -> (forall a, norm (nopp K NO a) = norm a) -> norm (n0 K NO) = 0%R ->
  forall (T : tols K) (lenient : bool) (blk : nat * nat) (inp : part_in K), part_wf K inp ->
  forall (o : part_out K) (beta z : K),
  gf_part_compute K NO gf_chase_guarded lenient T inp = WDone o ->
  gf_part_compute_src K NO lenient T blk inp = WDone (o_terms K o) /\
  (norm (nsub K NO (gf_part_value_src K NO (o_terms K o) beta z) (gf_part_spec K NO inp z)) <=
   rsum (dropped K (o_raw K o)) (fun t => norm (fz K NO z t)) +
   rsum2 (o_events K o) (kept K (o_raw K o))
         (fun e t => norm (ev_err K K K (n0 K NO) (nadd K NO) (nsub K NO) (fz K NO z) e t)))%R.
Proof. exact LehmannGenProofsGF.gf_part_tolerance_src. Qed.
Print Assumptions gf_part_tolerance_src.

(** * 5. evaluation: the part's and the object's call operators of the source return what the model returns *)
Theorem gf_value_src_is_model :
  forall (K : Type) (NO : numops K) (parts : list ((nat * nat) * part_out K)) (beta z tau : K),
  gf_value_src K NO (terms_of_parts K parts) beta z = Some (gf_value K NO parts z) /\
  gf_value_tau_src K NO (terms_of_parts K parts) tau beta = Some (gf_value_tau K NO parts tau beta) /\
  (forall o, gf_part_value_src K NO (o_terms K o) beta z = gf_part_value K NO o z) /\
  (forall o, gf_part_value_tau_src K NO (o_terms K o) tau beta = gf_part_value_tau K NO o tau beta).
Proof.
  exact (fun K NO parts beta z tau =>
           conj (LehmannGenProofsGF.gf_value_src_is_model K NO parts beta z)
          (conj (LehmannGenProofsGF.gf_value_tau_src_is_model K NO parts tau beta)
          (conj (fun o => LehmannGenProofsGF.gf_part_value_src_is_model K NO o beta z)
                (fun o => LehmannGenProofsGF.gf_part_value_tau_src_is_model K NO o tau beta)))).
Qed.
Print Assumptions gf_value_src_is_model.

(** operator()(long n) of the part and of the object evaluate at (2n+1) * i*pi/beta *)
Theorem matsubara_point_src :
  forall (K : Type) (NO : numops K) (kpi beta : K) (n : Z),
  gf_matsubara_src K NO kpi beta n = nmul K NO (ndiv K NO (nmul K NO (nI K NO) kpi) beta) (nofZ K NO (2 * n + 1)%Z) /\
  gfpart_matsubara_src K NO kpi beta n = nmul K NO (ndiv K NO (nmul K NO (nI K NO) kpi) beta) (nofZ K NO (2 * n + 1)%Z).
Proof. exact (fun K NO kpi beta n => conj eq_refl eq_refl). Qed.
Print Assumptions matsubara_point_src.

(** * 6. from the blocks to the full Fock space: prepare() (PV.GFPart.gf_prepare, tied by PVgen.Gen_RetainGF in Properties_C19_source.v),
    compute() of every part and operator()(z) of the source give the full-space Lehmann sum EDSpec.gf *)
Theorem gf_blocks_eq_full_src :
  forall (K : Type) (NO : numops K) (kinv : K -> K),
  field_theory (n0 K NO) (n1 K NO) (nadd K NO) (nmul K NO) (nsub K NO) (nopp K NO) (ndiv K NO) kinv (@eq K) ->
  forall T : tols K,
  (forall R, gf_relevant K NO (t_matrix_element K T) R = false -> R = n0 K NO) ->
  (forall a b, gf_compare K NO (t_compare K T) a b = false -> gf_compare K NO (t_compare K T) b a = true) ->
  forall (nb : nat) (dim : nat -> nat) (g : gf_in K) (Cf CXf : nat -> nat -> nat -> nat -> K),
  blocks_sound K NO nb dim g Cf CXf ->
  forall (E w : list K) (Ci CXj : list (list K)), assembled K NO nb dim g Cf CXf E w Ci CXj ->
  forall (lenient : bool) (beta z : K) (parts : list (list (gterm K))),
  gf_compute_src K NO lenient T g = WDone parts ->
  gf_value_src K NO parts beta z = Some (gf K NO E w Ci CXj z).
Proof. exact LehmannGenProofsGF.gf_blocks_eq_full_src. Qed.
Print Assumptions gf_blocks_eq_full_src.

(** * 7. imaginary time: Term::operator()(tau, beta) of the source transforms to Term::operator()(i w) (classical reals) *)
Theorem gf_tau_freq_consistent_src :
  forall (c wn P beta : R) (n : Z), (0 < beta)%R ->
  let w := fermi_freq beta n in
  let Res := (c * (wn + wn * exp (- beta * P)))%R in
  let d := (P * P + w * w)%R in
  is_RInt (fun tau => (gen_gf_term_tau R Rops Res P tau beta * cos (w * tau))%R) 0 beta (- P * Res / d)%R /\
  is_RInt (fun tau => (gen_gf_term_tau R Rops Res P tau beta * sin (w * tau))%R) 0 beta (- w * Res / d)%R.
Proof. exact LehmannGenProofsGF.gf_tau_freq_consistent_src. Qed.
Print Assumptions gf_tau_freq_consistent_src.
