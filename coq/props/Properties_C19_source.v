(** C19 about the SOURCE TEXT -- the statements of Properties_C19.v that involve DensityMatrixPart::truncate or the retention
    test of one of the four prepare() functions, once more, about the definitions of PV.ThermalGen: the functions of the
    hand-written model PV.Thermal rebuilt around what translator/gen_thermal.py reads off the C++ on every run
    (coq/gen/Gen_ThermalTruncate.v: the test `weights(s) > Tolerance` and the value of `retained` on return as a function of its
    value on entry; Gen_RetainGF.v, Gen_RetainSusc.v: stripe test, retention test and the two advance tests of the merge walk, and
    the WHOLE body of the loop executed symbolically as one step (part created and from which blocks, iterators advanced, loop
    left early, bool locals carried along); Gen_RetainEA.v likewise; Gen_RetainTPGF.v: range and test of the loop over
    LeftIndices[k], the rest of that function matched statement by statement).
    Statements only; proofs in PV.ThermalGenProofs (leaf agreements by closed computation, then transport of the theorems of
    PV.ThermalProofs / PV.TruncBoundsProofs).  This file stops compiling when `truncate` returns early on a discarded part,
    a prepare() tests another block, combines the tests with &&, the stripe loop covers fewer than four blocks, or the stripe
    loop of GreensFunction / Susceptibility / EnsembleAverage::prepare gains a break / continue / return, a flag, another
    constructor argument or another advance rule.

    [..._src] : PV.ThermalGen. *)
Require Import Reals List Arith Bool ZArith.
From Coquelicot Require Import Complex.
From PV Require Import Outcome Thermal ThermalSpec ThermalProofs ThermalExamples ThermalShapes ThermalGen ThermalGenProofs.
From PV Require Import EDSpec GFIdentities TermIntegrals TruncBounds TruncBoundsProofs.
From PVgen Require Import Gen_ThermalTruncate Gen_RetainGF Gen_RetainSusc Gen_RetainEA Gen_RetainTPGF.
Import ListNotations.
Local Open Scope R_scope.

(** the leaf agreements of C19 in one statement *)
Theorem source_truncation_leaves_are_model :
  (forall tol w : R, truncate_test_src R 0 Rplus Rminus Rmult Rdiv Ropp exp Rabs Rltb INR tol w = Rltb tol w) /\
  (forall old found : bool, gen_truncate_flag old found = found) /\
  (forall (ret : nat -> bool) (Cleft Cright CXleft CXright : nat),
     gen_gf_retention ret Cleft Cright CXleft CXright = ret Cleft || ret Cright) /\
  (forall (ret : nat -> bool) (Aleft Aright Bleft Bright : nat),
     gen_susc_retention ret Aleft Aright Bleft Bright = ret Aleft || ret Aright) /\
  (forall (ret : nat -> bool) (Aleft Aright : nat), gen_ea_retention ret Aleft Aright = ret Aleft) /\
  (forall (ret : nat -> bool) (L : nat -> nat),
     gen_tpgf_blocks = 4%nat /\
     gen_tpgf_retention ret L = ret (L 0%nat) || ret (L 1%nat) || ret (L 2%nat) || ret (L 3%nat)).
Proof. exact ThermalGenProofs.source_truncation_leaves_are_model. Qed.
Print Assumptions source_truncation_leaves_are_model.

Theorem source_prepare_functions_are_model :
  (forall ret cl cxr, gf_prepare_src ret cl cxr = gf_prepare ret cl cxr) /\
  (forall ret al br, susc_prepare_src ret al br = susc_prepare ret al br) /\
  (forall ret ops cx4r, tpgf_prepare_src ret ops cx4r = tpgf_prepare ret ops cx4r) /\
  (forall (A : fieldop R) (D : list Rdmpart), Rea_prepare_src A D = Rea_prepare A D) /\
  (forall (eps : R) (D : list Rdmpart), Rdm_truncate_src eps D = Rdm_truncate eps D).
Proof. exact ThermalGenProofs.source_prepare_functions_are_model. Qed.
Print Assumptions source_prepare_functions_are_model.

(** one iteration of each stripe loop as the source has it -- every statement of the loop body, executed symbolically by the
    translator -- is exactly the model's step (PV.ThermalGen.model_walk_step / model_ea_step): a part for a retained stripe, built
    from the model's blocks in the constructor's order; the two advance tests; no exit from the loop; no state between iterations *)
Theorem source_stripe_loops_are_model_step :
  (gen_gf_flags_init = [] /\
   forall (ret : nat -> bool) (flags : list bool) (Cleft Cright CXleft CXright : nat),
     gen_gf_step ret flags Cleft Cright CXleft CXright = model_walk_step ret Cleft Cright CXleft CXright) /\
  (gen_susc_flags_init = [] /\
   forall (ret : nat -> bool) (flags : list bool) (Aleft Aright Bleft Bright : nat),
     gen_susc_step ret flags Aleft Aright Bleft Bright = model_walk_step ret Aleft Aright Bleft Bright) /\
  (gen_ea_flags_init = [] /\
   forall (ret : nat -> bool) (flags : list bool) (Aleft Aright : nat),
     gen_ea_step ret flags Aleft Aright = model_ea_step ret Aleft Aright).
Proof. exact ThermalGenProofs.source_stripe_loops_are_model_step. Qed.
Print Assumptions source_stripe_loops_are_model_step.

(** in particular the scan over the stripes is never left before an iterator reaches the end *)
Theorem source_stripe_loops_never_exit_early : forall (ret : nat -> bool) (flags : list bool) (a b c d : nat),
  ws_exit (gen_gf_step ret flags a b c d) = false /\ ws_exit (gen_susc_step ret flags a b c d) = false /\
  ws_exit (gen_ea_step ret flags a b) = false.
Proof. exact ThermalGenProofs.source_stripe_loops_never_exit_early. Qed.
Print Assumptions source_stripe_loops_never_exit_early.

Theorem truncate_flag_src : forall (eps : R) (dp : Rdmpart),
  (dp_retained R (Rtruncate_src eps dp) = false <-> forall w, In w (dp_weights R dp) -> w <= eps) /\
  (dp_retained R (Rtruncate_src eps dp) = true <-> exists w, In w (dp_weights R dp) /\ eps < w).
Proof. exact ThermalGenProofs.truncate_flag_src. Qed.
Print Assumptions truncate_flag_src.

Theorem truncate_weights_src : forall (eps : R) (dp : Rdmpart),
  dp_weights R (Rtruncate_src eps dp) = dp_weights R dp /\ dp_zpart R (Rtruncate_src eps dp) = dp_zpart R dp.
Proof. exact ThermalGenProofs.truncate_weights_src. Qed.
Print Assumptions truncate_weights_src.

(** the flag after truncate(eps2) is the same whatever truncation was applied before: a discarded block whose weights
    exceed a later, smaller tolerance is retained again *)
Theorem truncate_forgets_history_src : forall (eps1 eps2 : R) (dp : Rdmpart),
  Rtruncate_src eps2 (Rtruncate_src eps1 dp) = Rtruncate_src eps2 dp.
Proof. exact ThermalGenProofs.truncate_forgets_history_src. Qed.
Print Assumptions truncate_forgets_history_src.

Theorem truncate_blocks_forgets_history_src : forall (eps1 eps2 : R) (D : list Rdmpart),
  Rdm_truncate_src eps2 (Rdm_truncate_src eps1 D) = Rdm_truncate_src eps2 D.
Proof. exact ThermalGenProofs.truncate_blocks_forgets_history_src. Qed.
Print Assumptions truncate_blocks_forgets_history_src.

Theorem truncate_zero_keeps_positive_src : forall dp : Rdmpart,
  (exists w, In w (dp_weights R dp) /\ 0 < w) -> dp_retained R (Rtruncate_src 0 dp) = true.
Proof. exact ThermalGenProofs.truncate_zero_keeps_positive_src. Qed.
Print Assumptions truncate_zero_keeps_positive_src.

Theorem discarded_at_zero_contributes_nothing_src : forall dp : Rdmpart,
  (forall w, In w (dp_weights R dp) -> 0 <= w) -> dp_retained R (Rtruncate_src 0 dp) = false ->
  (forall w, In w (dp_weights R dp) -> w = 0) /\ (forall p, Rea_compute p dp = 0).
Proof. exact ThermalGenProofs.discarded_at_zero_contributes_nothing_src. Qed.
Print Assumptions discarded_at_zero_contributes_nothing_src.

Theorem eps_zero_identity_src : forall (beta : R) (H : list Rhpart) (D : list Rdmpart),
  Rdm_compute_src beta H = Done D -> Rdm_truncate_src 0 D = D.
Proof. exact ThermalGenProofs.eps_zero_identity_src. Qed.
Print Assumptions eps_zero_identity_src.

Theorem gf_parts_skipped_only_if_all_discarded_src : forall (ret : nat -> bool) (cl cxr : list (nat * nat)),
  exists all, gf_prepare_src (fun _ => true) cl cxr = Done all /\
              gf_prepare_src ret cl cxr = Done (filter (gf_part_kept ret) all).
Proof. exact ThermalGenProofs.gf_parts_skipped_only_if_all_discarded_src. Qed.
Print Assumptions gf_parts_skipped_only_if_all_discarded_src.

Theorem susc_parts_skipped_only_if_all_discarded_src : forall (ret : nat -> bool) (al br : list (nat * nat)),
  exists all, susc_prepare_src (fun _ => true) al br = Done all /\
              susc_prepare_src ret al br = Done (filter (gf_part_kept ret) all).
Proof. exact ThermalGenProofs.susc_parts_skipped_only_if_all_discarded_src. Qed.
Print Assumptions susc_parts_skipped_only_if_all_discarded_src.

Theorem tpgf_parts_skipped_only_if_all_discarded_src : forall (ret : nat -> bool) (ops : list bimap) (cx4r : list (nat * nat)),
  tpgf_prepare_src ret ops cx4r = filter (tpgf_part_kept ret) (tpgf_prepare_src (fun _ => true) ops cx4r).
Proof. exact ThermalGenProofs.tpgf_parts_skipped_only_if_all_discarded_src. Qed.
Print Assumptions tpgf_parts_skipped_only_if_all_discarded_src.

Theorem ea_parts_skipped_only_if_discarded_src : forall (A : fieldop R) (D : list Rdmpart),
  NoDup (map (op_left R) A) ->
  (forall p, In p A -> op_left R p = op_right R p -> (op_left R p < length D)%nat) ->
  Rea_prepare_src A D =
  Done (lsum (fun p => if Nat.eqb (op_left R p) (op_right R p) && Ris_retained D (op_left R p)
                       then Rea_compute p (nth (op_left R p) D dummy_dp) else 0) A).
Proof. exact ThermalGenProofs.ea_parts_skipped_only_if_discarded_src. Qed.
Print Assumptions ea_parts_skipped_only_if_discarded_src.

(** the chain mask of the truncation bounds is the retention loop of TwoParticleGF::prepare as the source has it *)
Theorem truncation_mask_is_source_test : forall (ret : nat -> bool) (blk : nat -> nat) (i j k l : nat),
  negb (all_dropped4 (state_dropped ret blk) i j k l) =
  gen_tpgf_retention ret (fun n => nth n [blk i; blk j; blk k; blk l] 0%nat).
Proof. exact ThermalGenProofs.truncation_mask_is_source_test. Qed.
Print Assumptions truncation_mask_is_source_test.

Theorem gf_truncation_bound_dm_src : forall (beta : R) (H : list Rhpart) (D : list Rdmpart)
    (parts : list gfpart) (eps dim : R) (z : C),
  Rdm_compute_src beta H = Done D -> 0 <= eps -> snd z <> 0 ->
  (forall p row t, In p parts -> In row (gp_rows p) -> In t row ->
     (gp_outer p < length D)%nat /\ (gp_inner p < length D)%nat /\
     In (lt_wn t) (dp_weights R (nth (gp_outer p) D dummy_dp)) /\
     In (lt_wm t) (dp_weights R (nth (gp_inner p) D dummy_dp))) ->
  (forall p row, In p parts -> In row (gp_rows p) -> lsum (fun t => Cmod (lt_c t) * Cmod (lt_c t)) row <= 1) ->
  (forall p row, In p parts -> In row (gp_rows p) -> lsum (fun t => Cmod (lt_cx t) * Cmod (lt_cx t)) row <= 1) ->
  lsum (fun p => INR (length (gp_rows p))) parts <= dim ->
  Cmod (Cminus (gf_val z (filter (gfpart_kept (Ris_retained (Rdm_truncate_src eps D))) parts)) (gf_val z parts))
    <= 2 * eps * dim / Rabs (snd z).
Proof. exact ThermalGenProofs.gf_truncation_bound_dm_src. Qed.
Print Assumptions gf_truncation_bound_dm_src.

Theorem ea_truncation_bound_src : forall (A : fieldop R) (D : list Rdmpart) (eps maxA dim : R),
  NoDup (map (op_left R) A) ->
  (forall p, In p A -> op_left R p = op_right R p -> (op_left R p < length D)%nat) ->
  0 <= eps -> 0 <= maxA ->
  (forall dp w, In dp D -> In w (dp_weights R dp) -> 0 <= w) ->
  (forall b, (b < length D)%nat -> Ris_retained D b = true) ->
  (forall p i, In p A -> op_left R p = op_right R p -> (i < length (op_mat R p))%nat ->
     Rabs (coeff R 0 (op_mat R p) i i) <= maxA) ->
  lsum (fun p => if Nat.eqb (op_left R p) (op_right R p) then INR (length (op_mat R p)) else 0) A <= dim ->
  exists v vt, Rea_prepare_src A D = Done v /\ Rea_prepare_src A (Rdm_truncate_src eps D) = Done vt /\
               Rabs (vt - v) <= eps * dim * maxA.
Proof. exact ThermalGenProofs.ea_truncation_bound_src. Qed.
Print Assumptions ea_truncation_bound_src.

Theorem tpgf_truncation_bound_dm_src : forall (beta eps F : R) (H : list Rhpart) (D : list Rdmpart) (blk pos : nat -> nat) (n : nat)
    (tol : C) (C1 C2 CX3 CX4 : list (list C)) (pres : list nat -> nat -> nat -> nat -> nat -> bool) (n1 n2 n3 : Z),
  Rdm_compute_src beta H = Done D ->
  (forall s, (s < n)%nat -> valid_state H (blk s) (pos s)) ->
  0 < beta -> 0 <= eps ->
  sq n C1 -> sq n C2 -> sq n CX3 -> sq n CX4 ->
  frob2 C1 <= F -> frob2 C2 <= F -> frob2 CX3 <= F -> frob2 CX4 <= F ->
  let Er := map (fun s => energy_at H (blk s) (pos s)) (seq 0 n) in
  let wr := map (fun s => weight_at D (blk s) (pos s)) (seq 0 n) in
  let drop := state_dropped (Ris_retained (Rdm_truncate_src eps D)) blk in
  Cmod (Cminus
    (chi_mask C CNum (trunc_keep4 drop pres) (RtoC beta) tol (map RtoC Er) (map RtoC wr) C1 C2 CX3 CX4
       (0, fermi_freq beta n1) (0, fermi_freq beta n2) (0, fermi_freq beta n3))
    (chi_mask C CNum pres (RtoC beta) tol (map RtoC Er) (map RtoC wr) C1 C2 CX3 CX4
       (0, fermi_freq beta n1) (0, fermi_freq beta n2) (0, fermi_freq beta n3)))
  <= 6 * F * F * (beta * beta * beta * (4 / (PI * PI * PI) + 2 / (PI * PI))) * eps.
Proof. exact ThermalGenProofs.tpgf_truncation_bound_dm_src. Qed.
Print Assumptions tpgf_truncation_bound_dm_src.

Theorem susc_spec_truncation_bound_dm_src : forall (beta eps : R) (H : list Rhpart) (D : list Rdmpart) (blk pos : nat -> nat) (n : nat)
    (tol z : C) (zf : bool) (A B : list (list C)) (pres : nat -> nat -> bool),
  Rdm_compute_src beta H = Done D ->
  (forall s, (s < n)%nat -> valid_state H (blk s) (pos s)) ->
  0 <= beta -> 0 <= eps -> fst z = 0 ->
  sq n A -> sq n B ->
  let Er := map (fun s => energy_at H (blk s) (pos s)) (seq 0 n) in
  let wr := map (fun s => weight_at D (blk s) (pos s)) (seq 0 n) in
  let drop := state_dropped (Ris_retained (Rdm_truncate_src eps D)) blk in
  Cmod (Cminus
    (susc_mask C CNum (trunc_keep2 drop pres) (RtoC beta) tol (map RtoC Er) (map RtoC wr) A B z zf)
    (susc_mask C CNum pres (RtoC beta) tol (map RtoC Er) (map RtoC wr) A B z zf))
  <= beta * eps * ((frob2 A + frob2 B) / 2).
Proof. exact ThermalGenProofs.susc_spec_truncation_bound_dm_src. Qed.
Print Assumptions susc_spec_truncation_bound_dm_src.
