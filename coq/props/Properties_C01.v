(** C01 -- the single-particle Matsubara Green's function equals its definition.
    Statements only; proofs are in PV.SparseProofs, PV.TermListProofs, PV.GFPartProofs, PV.GFFullProofs,
    PV.TermIntegrals, PV.Container2Proofs.  Models: PV.Sparse, PV.TermList, PV.GFPart, PV.Container2; the leaf
    expressions (residue, pole, relevance test, comparator, term evaluation in z and tau, tolerance constants,
    Matsubara argument) are PVgen.Gen_C01, regenerated from the C++ on every run.

    Chain:  definition  --fermi_term_integral-->  Lehmann double sum on the full space (EDSpec.gf)
            --gf_blocks_eq_full-->  sum over the parts prepare() makes (gf_stripes_complete)
            --gf_part_exact / gf_part_tolerance-->  the evaluated term list of each part
            (gf_walk_complete: the merge walk visits exactly the common inner indices;
             termlist_eval_preserved, termlist_invariant, gf_termlist_separated: the term container, whose add_term is the
             retry loop of TermList.h -- insert; while refused: reduce with the blocking term, erase it, drop if negligible, retry)
            container2_returns_requested: reading through GFContainer gives the object made from (c_i, c^+_j). *)
Require Import Bool List Arith ZArith Reals Ring_theory Field_theory.
From Coquelicot Require Import Coquelicot.
From PV Require Import EDSpec NumLit BigSum Sparse SparseProofs TermList TermListProofs GFPart GFPartProofs GFFullProofs
     TermIntegrals Container2 Container2Proofs.
From PVgen Require Import Gen_C01.
Import ListNotations.
Local Open Scope nat_scope.

(** * 1. the merge walk *)
(** For well-formed CSR/CSC inputs, whenever the walk returns (loops as written or repaired, strict or lenient), it
    returns exactly the list of positions (p, q) with equal inner index, in increasing order, each once. *)
Theorem gf_walk_complete :
  forall (VA VB : Type) (a : cs VA) (b : cs VB), cs_wf a -> cs_wf b ->
  forall (fixed lenient : bool) (o : nat) (l : list (nat * nat)), o < cs_outer a -> o < cs_outer b ->
  walk_outer fixed lenient a b o = WDone l -> l = matches_outer a b o.
Proof. exact @SparseProofs.gf_walk_complete. Qed.
Print Assumptions gf_walk_complete.

(** what the specified list is *)
Theorem gf_walk_spec_membership :
  forall (ia ib : nat -> nat) (p n q k x y : nat),
  In (x, y) (matches ia ib p n q k) <-> (p <= x < p + n /\ q <= y < q + k /\ ia x = ib y).
Proof. exact SparseProofs.in_matches. Qed.
Print Assumptions gf_walk_spec_membership.

(** * 2. a part, exact form (tolerances 0): the value is the Lehmann double sum over the block pair *)
Theorem gf_part_exact :
  forall (K : Type) (NO : numops K) (kinv : K -> K),
  field_theory (n0 K NO) (n1 K NO) (nadd K NO) (nmul K NO) (nsub K NO) (nopp K NO) (ndiv K NO) kinv (@eq K) ->
  forall T : tols K,
  (forall R, gf_relevant K NO (t_matrix_element K T) R = false -> R = n0 K NO) ->
  (forall a b, gf_compare K NO (t_compare K T) a b = false -> gf_compare K NO (t_compare K T) b a = true) ->
  forall (fixed lenient : bool) (inp : part_in K), part_wf K inp ->
  forall (o : part_out K) (z : K),
  gf_part_compute K NO fixed lenient T inp = WDone o ->
  gf_part_value K NO o z = gf_part_spec K NO inp z.
Proof. exact (fun K NO kinv Kf => GFPartProofs.gf_part_exact K NO kinv (F_R Kf) (Fdiv_def Kf)). Qed.
Print Assumptions gf_part_exact.

(** * 3. the term container *)
(** merging like terms with equal pole positions preserves the evaluated sum *)
Theorem termlist_eval_preserved :
  forall (P C : Type) (comp : P -> P -> bool) (negl : C -> nat -> bool) (cadd : C -> C -> C),
  (forall a, comp a a = false) -> (forall a b c, comp a b = true -> comp b c = true -> comp a c = true) ->
  forall (K : Type) (k0 k1 : K) (kadd kmul ksub : K -> K -> K) (kopp : K -> K),
  ring_theory k0 k1 kadd kmul ksub kopp (@eq K) ->
  forall f : term P C -> K, (forall p r1 r2, f (p, cadd r1 r2) = kadd (f (p, r1)) (f (p, r2))) ->
  forall (t : term P C) (l : list (term P C)), sorted_sep P C comp l ->
  (forall x, set_find P C comp (pole P C t) l = Some x ->
             pole P C x = pole P C t /\ negl (cadd (residue P C x) (residue P C t)) (length l) = false) ->
  eval P C K k0 kadd f (fst (add_term P C comp negl cadd t l)) = kadd (eval P C K k0 kadd f l) (f t).
Proof. exact TermListProofs.termlist_eval_preserved. Qed.
Print Assumptions termlist_eval_preserved.

(** the invariant that justifies modelling std::set by a sorted list: stored poles stay >= Tolerance apart; the retry loop of
    add_term is never cut short (no term is lost other than by the negligibility test) and goes through at most ONE merge: the
    reduced term keeps the pole of the erased one and fits where that one was (any strict partial order as comparator) *)
Theorem termlist_invariant :
  forall (P C : Type) (comp : P -> P -> bool) (negl : C -> nat -> bool) (cadd : C -> C -> C),
  (forall a, comp a a = false) -> (forall a b c, comp a b = true -> comp b c = true -> comp a c = true) ->
  forall (t : term P C) (l : list (term P C)), sorted_sep P C comp l ->
  sorted_sep P C comp (fst (add_term P C comp negl cadd t l)) /\
  match snd (add_term P C comp negl cadd t l) with
  | EvChain steps fin => fin <> FinFuel /\ length steps <= 1
  end.
Proof.
  exact (fun P C comp negl cadd Hi Ht t l Hs =>
           conj (TermListProofs.add_term_sorted P C comp negl cadd Hi Ht t l Hs)
                (TermListProofs.add_term_never_refused P C comp negl cadd Hi Ht t l Hs)).
Qed.
Print Assumptions termlist_invariant.

(** for ANY comparator and ANY stored sequence: the bound of the model's for(;;) (the number of stored terms: every retry erases
    one) is never exhausted, and every step of the recorded chain is  blocker += running sum *)
Theorem termlist_loop_terminates :
  forall (P C : Type) (comp : P -> P -> bool) (negl : C -> nat -> bool) (cadd : C -> C -> C)
         (t : term P C) (l : list (term P C)),
  match snd (add_term P C comp negl cadd t l) with
  | EvChain steps fin => fin <> FinFuel /\ chain_ok P C cadd t steps
  end.
Proof.
  exact (fun P C comp negl cadd t l =>
           match snd (add_term P C comp negl cadd t l) as e
                 return (match e with EvChain _ fin => fin <> FinFuel end) ->
                        (match e with EvChain steps _ => chain_ok P C cadd t steps end) ->
                        match e with EvChain steps fin => fin <> FinFuel /\ chain_ok P C cadd t steps end
           with EvChain steps fin => fun a b => conj a b end
             (TermListProofs.add_term_fuel_suffices P C comp negl cadd t l)
             (TermListProofs.add_term_chain_ok P C comp negl cadd t l)).
Qed.
Print Assumptions termlist_loop_terminates.

(** over the reals with the library's comparator p2 - p1 >= tol, tol > 0 *)
Theorem gf_termlist_separated :
  forall (C : Type) (negl : C -> nat -> bool) (cadd : C -> C -> C) (tol : R), (0 < tol)%R ->
  forall ts l, sorted_sep R C (compR tol) l -> sorted_sep R C (compR tol) (fst (add_terms R C (compR tol) negl cadd ts l)).
Proof. exact TermListProofs.gf_termlist_separated. Qed.
Print Assumptions gf_termlist_separated.

(** a red-black tree descent by libstdc++'s predicate ends where the list scan ends, whatever the shape of the tree *)
Theorem tree_find_is_list_find :
  forall (P C : Type) (comp : P -> P -> bool),
  (forall a b c, comp a b = true -> comp b c = true -> comp a c = true) ->
  forall (k : P) (t : tree P C), sorted_sep P C comp (inorder P C t) ->
  match descend P C (fun x => negb (comp (pole P C x) k)) t None with
  | Some j => if comp k (pole P C j) then None else Some j
  | None => None
  end = set_find P C comp k (inorder P C t).
Proof. exact TermListProofs.tree_find_is_list_find. Qed.
Print Assumptions tree_find_is_list_find.

(** the same for insert(): the descent of _M_get_insert_unique_pos gives the verdict of the model's set_insert_res, and a refused
    insertion points to the same blocking element (the one add_term reduces with and erases) *)
Theorem tree_insert_is_list_insert :
  forall (P C : Type) (comp : P -> P -> bool),
  (forall a b c, comp a b = true -> comp b c = true -> comp a c = true) ->
  forall (t0 : term P C) (t : tree P C), sorted_sep P C comp (inorder P C t) ->
  match descend_last P C (fun x => comp (pole P C t0) (pole P C x)) t None with
  | Some j => if comp (pole P C j) (pole P C t0) then None else Some j
  | None => None
  end = match set_insert_res P C comp t0 (inorder P C t) with Inserted _ => None | Blocked _ j _ => Some j end.
Proof. exact TermListProofs.tree_insert_is_list_insert. Qed.
Print Assumptions tree_insert_is_list_insert.

(** * 4. a part, tolerance form *)
(** exact error identity: value = Lehmann sum - (dropped candidates) + (errors of the term-list events) *)
Theorem gf_part_error_identity :
  forall (K : Type) (NO : numops K) (kinv : K -> K),
  field_theory (n0 K NO) (n1 K NO) (nadd K NO) (nmul K NO) (nsub K NO) (nopp K NO) (ndiv K NO) kinv (@eq K) ->
  forall (fixed lenient : bool) (T : tols K) (inp : part_in K), part_wf K inp ->
  forall (o : part_out K) (z : K),
  gf_part_compute K NO fixed lenient T inp = WDone o ->
  gf_part_value K NO o z =
  nadd K NO (nsub K NO (gf_part_spec K NO inp z) (bigsum K (n0 K NO) (nadd K NO) (dropped K (o_raw K o)) (fz K NO z)))
            (errs K NO T z (kept K (o_raw K o)) (o_events K o)).
Proof. exact (fun K NO kinv Kf => GFPartProofs.gf_part_error_identity K NO kinv (F_R Kf) (Fdiv_def Kf)). Qed.
Print Assumptions gf_part_error_identity.

(** the bound, for any seminorm on the values (the complex modulus):
    |model - Lehmann sum| <= sum_{dropped} |R/(z-P)| + sum_{events} |error of the event| *)
Theorem gf_part_tolerance :
  forall (K : Type) (NO : numops K) (kinv : K -> K),
  field_theory (n0 K NO) (n1 K NO) (nadd K NO) (nmul K NO) (nsub K NO) (nopp K NO) (ndiv K NO) kinv (@eq K) ->
  forall norm : K -> R,
  (forall a b, (norm (nadd K NO a b) <= norm a + norm b)%R) -> (forall a, norm (nopp K NO a) = norm a) -> norm (n0 K NO) = 0%R ->
  forall (fixed lenient : bool) (T : tols K) (inp : part_in K), part_wf K inp ->
  forall (o : part_out K) (z : K),
  gf_part_compute K NO fixed lenient T inp = WDone o ->
  (norm (nsub K NO (gf_part_value K NO o z) (gf_part_spec K NO inp z)) <=
   rsum (dropped K (o_raw K o)) (fun t => norm (fz K NO z t)) +
   rsum2 (o_events K o) (kept K (o_raw K o))
         (fun e t => norm (ev_err K K K (n0 K NO) (nadd K NO) (nsub K NO) (fz K NO z) e t)))%R.
Proof. exact (fun K NO kinv Kf => GFPartProofs.gf_part_tolerance K NO kinv (F_R Kf) (Fdiv_def Kf)). Qed.
Print Assumptions gf_part_tolerance.

(** the error of a merge event in closed form: R_t (P_x - P_t) / ((z - P_x)(z - P_t)), |P_x - P_t| < Tolerance *)
Theorem merged_err_closed_form :
  forall (K : Type) (NO : numops K) (kinv : K -> K),
  field_theory (n0 K NO) (n1 K NO) (nadd K NO) (nmul K NO) (nsub K NO) (nopp K NO) (ndiv K NO) kinv (@eq K) ->
  forall z px rx pt rt : K, nsub K NO z px <> n0 K NO -> nsub K NO z pt <> n0 K NO ->
  ev_err K K K (n0 K NO) (nadd K NO) (nsub K NO) (fz K NO z)
         (EvChain [((px, rx), (px, gf_term_add K NO rx rt))] FinInserted) (pt, rt) =
  ndiv K NO (nmul K NO rt (nsub K NO px pt)) (nmul K NO (nsub K NO z px) (nsub K NO z pt)).
Proof. exact GFPartProofs.merged_err_closed_form. Qed.
Print Assumptions merged_err_closed_form.

(** ... of a chain of merges of any length: that expression for the first step plus the error of the rest of the chain, which
    starts from the reduced term ... *)
Theorem chain_err_closed_form :
  forall (K : Type) (NO : numops K) (kinv : K -> K),
  field_theory (n0 K NO) (n1 K NO) (nadd K NO) (nmul K NO) (nsub K NO) (nopp K NO) (ndiv K NO) kinv (@eq K) ->
  forall (z px rx pt rt : K) (rest : list (prod (gterm K) (gterm K))) (fin : final),
  nsub K NO z px <> n0 K NO -> nsub K NO z pt <> n0 K NO ->
  ev_err K K K (n0 K NO) (nadd K NO) (nsub K NO) (fz K NO z)
         (EvChain (((px, rx), (px, gf_term_add K NO rx rt)) :: rest) fin) (pt, rt) =
  nadd K NO (ndiv K NO (nmul K NO rt (nsub K NO px pt)) (nmul K NO (nsub K NO z px) (nsub K NO z pt)))
            (ev_err K K K (n0 K NO) (nadd K NO) (nsub K NO) (fz K NO z) (EvChain rest fin) (px, gf_term_add K NO rx rt)).
Proof. exact GFPartProofs.chain_err_closed_form. Qed.
Print Assumptions chain_err_closed_form.

(** ... and with the library's comparator (a strict partial order) the events of a part are single merges at most, no added
    term is lost other than by the negligibility test, and the stored poles are separated *)
Theorem gf_part_events_short :
  forall (K : Type) (NO : numops K) (fixed lenient : bool) (T : tols K) (inp : part_in K) (o : part_out K),
  (forall a, gf_compare K NO (t_compare K T) a a = false) ->
  (forall a b c, gf_compare K NO (t_compare K T) a b = true -> gf_compare K NO (t_compare K T) b c = true ->
                 gf_compare K NO (t_compare K T) a c = true) ->
  gf_part_compute K NO fixed lenient T inp = WDone o ->
  sorted_sep K K (gf_compare K NO (t_compare K T)) (o_terms K o) /\
  List.Forall (fun e => match e with EvChain steps fin => fin <> FinFuel /\ length steps <= 1 end) (o_events K o).
Proof. exact GFPartProofs.gf_part_events_short. Qed.
Print Assumptions gf_part_events_short.

(** * 5. stripe selection of GreensFunction::prepare: exactly the block pairs (L, R) with C: L <- R and CX: R <- L *)
Theorem gf_stripes_complete :
  forall (fuel : nat) (cl cxr : list (nat * nat)), ksorted cl -> ksorted cxr -> length cl + length cxr <= fuel ->
  stripes fuel cl cxr = Some (stripes_spec cl cxr).
Proof. exact GFPartProofs.gf_stripes_complete. Qed.
Print Assumptions gf_stripes_complete.

Theorem gf_stripes_membership :
  forall (cl cxr : list (nat * nat)) (L R : nat), In (L, R) (stripes_spec cl cxr) <-> In (L, R) cl /\ In (L, R) cxr.
Proof. exact GFPartProofs.in_stripes_spec. Qed.
Print Assumptions gf_stripes_membership.

(** * 6. from the blocks to the full Fock space: for a sound block structure (every part is the restriction of its operator
    to its block pair, the operator vanishes on every other pair, all blocks retained) and the assembled global
    eigenvalues / weights / eigenbasis matrices, the value is the full-space Lehmann sum EDSpec.gf *)
Theorem gf_blocks_eq_full :
  forall (K : Type) (NO : numops K) (kinv : K -> K),
  field_theory (n0 K NO) (n1 K NO) (nadd K NO) (nmul K NO) (nsub K NO) (nopp K NO) (ndiv K NO) kinv (@eq K) ->
  forall T : tols K,
  (forall R, gf_relevant K NO (t_matrix_element K T) R = false -> R = n0 K NO) ->
  (forall a b, gf_compare K NO (t_compare K T) a b = false -> gf_compare K NO (t_compare K T) b a = true) ->
  forall (nb : nat) (dim : nat -> nat) (g : gf_in K) (Cf CXf : nat -> nat -> nat -> nat -> K),
  blocks_sound K NO nb dim g Cf CXf ->
  forall (E w : list K) (Ci CXj : list (list K)), assembled K NO nb dim g Cf CXf E w Ci CXj ->
  forall (fixed lenient : bool) (z : K) (parts : list ((nat * nat) * part_out K)),
  gf_compute K NO fixed lenient T g = WDone parts ->
  gf_value K NO parts z = gf K NO E w Ci CXj z.
Proof. exact (fun K NO kinv Kf => GFFullProofs.gf_blocks_eq_full K NO kinv (F_R Kf) (Fdiv_def Kf)). Qed.
Print Assumptions gf_blocks_eq_full.

(** * 7. the definition: - int_0^beta <T c_i(tau) c^+_j(0)> e^{i w_n tau} dtau, term by term (classical reals) *)
Theorem fermi_term_integral :
  forall (beta P wn : R) (n : Z), (0 < beta)%R ->
  let w := fermi_freq beta n in
  let wm := (wn * exp (- beta * P))%R in
  let d := (P * P + w * w)%R in
  is_RInt (fun tau => (- (wn * (exp (- P * tau) * cos (w * tau))))%R) 0 beta (- P * (wn + wm) / d)%R /\
  is_RInt (fun tau => (- (wn * (exp (- P * tau) * sin (w * tau))))%R) 0 beta (- w * (wn + wm) / d)%R.
Proof. exact TermIntegrals.fermi_term_integral. Qed.
Print Assumptions fermi_term_integral.

(** the same with the right-hand side written as the complex number (w_n + w_m)/(i w - P) *)
Theorem fermi_term_integral_C :
  forall (beta P wn : R) (n : Z), (0 < beta)%R ->
  let w := fermi_freq beta n in
  let wm := (wn * exp (- beta * P))%R in
  exists re im, is_RInt (fun tau => (- (wn * (exp (- P * tau) * cos (w * tau))))%R) 0 beta re /\
                is_RInt (fun tau => (- (wn * (exp (- P * tau) * sin (w * tau))))%R) 0 beta im /\
                (re, im) = Cdiv (RtoC (wn + wm)) (Cminus (Cmult Ci (RtoC w)) (RtoC P)).
Proof. exact TermIntegrals.fermi_term_integral_C. Qed.
Print Assumptions fermi_term_integral_C.

(** both overflow-avoiding branches of Term::operator()(tau, beta) are one function, and its Fourier transform at a
    fermionic Matsubara frequency is Term::operator()(i w): imaginary-time and frequency values are consistent *)
Theorem gf_tau_freq_consistent :
  forall (c wn P beta : R) (n : Z), (0 < beta)%R ->
  let w := fermi_freq beta n in
  let Res := (c * (wn + wn * exp (- beta * P)))%R in
  let d := (P * P + w * w)%R in
  is_RInt (fun tau => (gf_term_tau R Rops Res P tau beta * cos (w * tau))%R) 0 beta (- P * Res / d)%R /\
  is_RInt (fun tau => (gf_term_tau R Rops Res P tau beta * sin (w * tau))%R) 0 beta (- w * Res / d)%R.
Proof. exact TermIntegrals.gf_tau_freq_consistent. Qed.
Print Assumptions gf_tau_freq_consistent.

(** operator()(long n) evaluates at (2n+1) * i*pi/beta *)
Theorem matsubara_point :
  forall (K : Type) (NO : numops K) (kpi beta : K) (n : Z),
  gf_matsubara K NO kpi beta n =
  nmul K NO (ndiv K NO (nmul K NO (nI K NO) kpi) beta) (nofZ K NO (2 * n + 1)%Z).
Proof. exact (fun K NO kpi beta n => eq_refl). Qed.
Print Assumptions matsubara_point.

(** * 8. the container: after ANY history of calls, operator()(i, j) (hit or cache miss) and set(i, j) return an element
    created from (c_i, c^+_j) *)
Theorem container2_returns_requested :
  forall (N : nat) (ops : list cop) (k : key) (st' : cstate) (e : elem),
  (cstep N (crun N cinit ops) (Lookup k) = (st', OElem e) \/ cstep N (crun N cinit ops) (SetK k) = (st', OElem e)) ->
  el_c e = fst k /\ el_cx e = snd k.
Proof. exact Container2Proofs.container2_returns_requested. Qed.
Print Assumptions container2_returns_requested.
