(** C18 about the SOURCE TEXT -- the index-bookkeeping statements of Properties_C18.v once more, about the definitions of
    PV.IndexGen, which are the functions of the hand-written model PV.Index / PV.IndexReprepare rebuilt around the control
    structure that translator/gen_index.py reads off src/pomerol/IndexClassification.cpp on every run (one generated file per
    function):
      coq/gen/Gen_IndexInfoCtor.v    IndexInfo::IndexInfo            which member is set from which argument; what is hashed
      coq/gen/Gen_IndexInfoLess.v    IndexInfo::operator<            the comparison chain over (SiteLabelHash, Orbital, Spin)
      coq/gen/Gen_IndexPrepare.v     IndexClassification::prepare    the reset list, the first pass, resize, both loop nests (ranges, the
                                                                     skip test and whether it continues or breaks, the argument order of
                                                                     new IndexInfo), the last loop (range, slot, value, [] vs insert)
      coq/gen/Gen_IndexGetIndex.v    getIndex(const IndexInfo&)      found / not found
      coq/gen/Gen_IndexGetIndex3.v   getIndex(Site, Orbital, Spin)   the IndexInfo that is looked up
      coq/gen/Gen_IndexGetInfo.v     getInfo                         the throw condition, the slot read
      coq/gen/Gen_IndexCheckIndex.v  checkIndex                      the comparison
    Statements only; proofs in PV.IndexGenProofs: each generated piece is shown to be what Index.v was written with (closed
    computation or a case analysis over the comparisons), then the theorem of PV.IndexProofs is transported.  This file stops
    compiling when prepare() no longer clears one of its members, stores by insert instead of operator[], skips sites by another
    test or with `break`, swaps the arguments of new IndexInfo, changes a loop bound, when operator< compares something else than
    (hash, orbital, spin) lexicographically, when getInfo / checkIndex / getIndex test something else -- whether or not a run of
    the library happens to notice.

    [hash] stands for boost::hash<std::string>; the std::map InfoToIndices is keyed by IndexInfo::operator< over
    (hash of the label, orbital, spin) as read from the source.  The hypothesis [hash_injective] is the assumption Index.v makes
    silently (and checks/C18.py checks on the labels of every run); [PV.IndexGenProofs.enc] shows it is satisfiable.
    [..._src] : PV.IndexGen.  [gen_...] : PVgen.Gen_Index*. *)
Require Import Bool List Arith Permutation.
From PV Require Import Outcome Index IndexProofs IndexReprepare IndexShapes IndexGen IndexGenProofs.
From PVgen Require Import Gen_IndexInfoCtor Gen_IndexInfoLess Gen_IndexPrepare Gen_IndexGetIndex Gen_IndexGetIndex3
                          Gen_IndexGetInfo Gen_IndexCheckIndex.
Import ListNotations.

Definition hash_injective (hash : label -> nat) : Prop := forall a b : label, hash a = hash b -> a = b.

(** * what the source text says (leaf agreements) *)

(** new IndexInfo(l, o, s) has the members (l, o, s); its hash member is the hash of l *)
Theorem source_info_constructor : forall (L : Type) (l : L) (o s : nat),
  gen_info_fields L l o s = (l, o, s) /\ gen_info_hash_of_label = true.
Proof. exact IndexGenProofs.gen_info_ctor_is_model. Qed.
Print Assumptions source_info_constructor.

(** IndexInfo::operator< is the lexicographic order on (SiteLabelHash, Orbital, Spin) *)
Theorem source_info_order_is_lexicographic : forall h1 o1 s1 h2 o2 s2 : nat,
  gen_info_lt h1 o1 s1 h2 o2 s2 = true <->
  (h1 < h2 \/ (h1 = h2 /\ (o1 < o2 \/ (o1 = o2 /\ s1 < s2)))).
Proof. exact IndexGenProofs.gen_info_lt_is_model. Qed.
Print Assumptions source_info_order_is_lexicographic.

(** ... hence two IndexInfo objects are one key of InfoToIndices iff they name the same (label, orbital, spin) *)
Theorem source_map_key_equivalence : forall hash : label -> nat, hash_injective hash ->
  forall a b : info, equiv_src hash a b = true <-> a = b.
Proof. exact IndexGenProofs.equiv_src_iff. Qed.
Print Assumptions source_map_key_equivalence.

(** prepare() starts from scratch: whatever the object held, after the statements in front of the first loop
    IndexSize = 0 and both containers are empty *)
Theorem source_prepare_resets_all_members : forall t0 : table, reset_src t0 = mkTable 0 [] [].
Proof. exact IndexGenProofs.gen_prepare_reset_is_model. Qed.
Print Assumptions source_prepare_resets_all_members.

(** the first pass adds orbitals * spins per site and keeps the largest spin count *)
Theorem source_prepare_first_pass : forall n m o s : nat,
  gen_maxspin_init = 0 /\ gen_first_size n m o s = n + o * s /\ gen_first_maxspin n m o s = Nat.max m s.
Proof. exact IndexGenProofs.gen_first_pass_is_model. Qed.
Print Assumptions source_prepare_first_pass.

(** currentIndex = 0; IndicesToInfo.resize(IndexSize) *)
Theorem source_prepare_vector : forall n m : nat, gen_current_init = 0 /\ gen_resize n m = n.
Proof. exact IndexGenProofs.gen_vector_is_model. Qed.
Print Assumptions source_prepare_vector.

(** order_spins = true:  for (z < MaxSpinSize) for (site) { if (z >= SpinSize) continue; for (i < OrbitalSize) (site, i, z) } *)
Theorem source_prepare_spin_major_nest : forall n m z o s i : nat,
  gen_order_spins_selects_count_outer = true /\
  gen_sm_outer n m = (0, m) /\
  gen_sm_skip z o s = (s <=? z) /\
  gen_sm_skip_action = SkipContinue /\
  gen_sm_inner z o s = (0, o) /\
  gen_sm_emit z i = (i, z).
Proof. exact IndexGenProofs.gen_sm_nest_is_model. Qed.
Print Assumptions source_prepare_spin_major_nest.

(** order_spins = false:  for (site) for (i < OrbitalSize) for (z < SpinSize) (site, i, z) *)
Theorem source_prepare_site_major_nest : forall o s a b : nat,
  gen_st_outer o s = (0, o) /\ gen_st_inner a o s = (0, s) /\ gen_st_emit a b = (a, b).
Proof. exact IndexGenProofs.gen_st_nest_is_model. Qed.
Print Assumptions source_prepare_site_major_nest.

(** for (i < IndexSize) InfoToIndices[*(IndicesToInfo[i])] = i;  -- by operator[], so an equivalent key is overwritten *)
Theorem source_prepare_build_loop : forall n i : nat,
  gen_build_range n = (0, n) /\ gen_build_store = StoreAssign /\ gen_build_slot i = i /\ gen_build_value i = i.
Proof. exact IndexGenProofs.gen_build_is_model. Qed.
Print Assumptions source_prepare_build_loop.

(** the look-ups *)
Theorem source_getIndex : forall (found : option nat) (n : nat),
  gen_getindex found n = match found with Some v => v | None => n end.
Proof. exact IndexGenProofs.gen_getindex_is_model. Qed.
Print Assumptions source_getIndex.

Theorem source_getIndex3 : forall (L : Type) (l : L) (o s : nat), gen_getindex3_args L l o s = (l, o, s).
Proof. exact IndexGenProofs.gen_getindex3_is_model. Qed.
Print Assumptions source_getIndex3.

Theorem source_getInfo : forall i n : nat, gen_getinfo_throws i n = (n <=? i) /\ gen_getinfo_slot i = i.
Proof. exact IndexGenProofs.gen_getinfo_is_model. Qed.
Print Assumptions source_getInfo.

Theorem source_checkIndex : forall i n : nat, gen_checkindex i n = (i <? n).
Proof. exact IndexGenProofs.gen_checkindex_is_model. Qed.
Print Assumptions source_checkIndex.

(** * the functions rebuilt around these pieces are the model (repaired variant, [fixed = true]) *)

Theorem source_prepare_is_model : forall hash : label -> nat, hash_injective hash ->
  forall (m : bool) (ss : list site) (t0 : table),
  prepare_on_src hash m ss t0 = prepare_on true m ss t0 /\ prepare_src hash m ss = prepare true m ss.
Proof. exact IndexGenProofs.prepare_both_src_are_model. Qed.
Print Assumptions source_prepare_is_model.

Theorem source_lookups_are_model : forall hash : label -> nat, hash_injective hash ->
  forall (t : table) (l : label) (o s i : nat),
  getIndex_src hash t (l, o, s) = getIndex t (l, o, s) /\
  getIndex3_src hash t l o s = getIndex t (l, o, s) /\
  getInfo_src t i = getInfo t i /\
  checkIndex_src t i = checkIndex t i.
Proof. exact IndexGenProofs.lookups_src_are_model. Qed.
Print Assumptions source_lookups_are_model.

(** * C18 about the source-built functions *)

(** prepare() returns normally on every lattice with distinct labels, both modes *)
Theorem prepare_total_src : forall hash : label -> nat, hash_injective hash ->
  forall (m : bool) (ss : list site), NoDup (labels ss) -> exists t, prepare_src hash m ss = Done t.
Proof. exact IndexGenProofs.prepare_total_src. Qed.
Print Assumptions prepare_total_src.

Theorem index_count_src : forall hash : label -> nat, hash_injective hash ->
  forall (m : bool) (ss : list site) (t : table),
  NoDup (labels ss) -> prepare_src hash m ss = Done t ->
  IndexSize t = index_total ss /\ length (IndicesToInfo t) = IndexSize t.
Proof. exact IndexGenProofs.index_count_src. Qed.
Print Assumptions index_count_src.

(** getIndex o getInfo = id on 0..IndexSize-1, and every entry names a mode of the lattice *)
Theorem getIndex_getInfo_src : forall hash : label -> nat, hash_injective hash ->
  forall (m : bool) (ss : list site) (t : table),
  NoDup (labels ss) -> prepare_src hash m ss = Done t ->
  forall i, i < IndexSize t -> exists x, getInfo_src t i = Done x /\ valid ss x /\ getIndex_src hash t x = i.
Proof. exact IndexGenProofs.getIndex_getInfo_src. Qed.
Print Assumptions getIndex_getInfo_src.

(** getInfo o getIndex = id on the modes of the lattice *)
Theorem getInfo_getIndex_src : forall hash : label -> nat, hash_injective hash ->
  forall (m : bool) (ss : list site) (t : table),
  NoDup (labels ss) -> prepare_src hash m ss = Done t ->
  forall x, valid ss x -> getIndex_src hash t x < IndexSize t /\ getInfo_src t (getIndex_src hash t x) = Done x.
Proof. exact IndexGenProofs.getInfo_getIndex_src. Qed.
Print Assumptions getInfo_getIndex_src.

(** the same through the three-argument overload *)
Theorem getIndex3_getInfo_src : forall hash : label -> nat, hash_injective hash ->
  forall (m : bool) (ss : list site) (t : table),
  NoDup (labels ss) -> prepare_src hash m ss = Done t ->
  forall (l : label) (o s : nat), valid ss (l, o, s) ->
  getIndex3_src hash t l o s < IndexSize t /\ getInfo_src t (getIndex3_src hash t l o s) = Done (l, o, s).
Proof. exact IndexGenProofs.getIndex3_getInfo_src. Qed.
Print Assumptions getIndex3_getInfo_src.

Theorem getIndex_unknown_src : forall hash : label -> nat, hash_injective hash ->
  forall (m : bool) (ss : list site) (t : table),
  NoDup (labels ss) -> prepare_src hash m ss = Done t ->
  forall x, ~ valid ss x -> getIndex_src hash t x = IndexSize t.
Proof. exact IndexGenProofs.getIndex_unknown_src. Qed.
Print Assumptions getIndex_unknown_src.

Theorem index_nodup_src : forall hash : label -> nat, hash_injective hash ->
  forall (m : bool) (ss : list site) (t : table),
  NoDup (labels ss) -> prepare_src hash m ss = Done t ->
  forall (i j : nat) (x : info), getInfo_src t i = Done x -> getInfo_src t j = Done x -> i = j.
Proof. exact IndexGenProofs.index_nodup_src. Qed.
Print Assumptions index_nodup_src.

Theorem getInfo_throws_src : forall (t : table) (i : nat), IndexSize t <= i -> getInfo_src t i = Throws exWrongIndex.
Proof. exact IndexGenProofs.getInfo_throws_src. Qed.
Print Assumptions getInfo_throws_src.

Theorem checkIndex_spec_src : forall (t : table) (i : nat), checkIndex_src t i = true <-> i < IndexSize t.
Proof. exact IndexGenProofs.checkIndex_spec_src. Qed.
Print Assumptions checkIndex_spec_src.

(** the bijection for ALL lattices, both modes, in one statement *)
Theorem index_bijection_src : forall hash : label -> nat, hash_injective hash ->
  forall (m : bool) (calls : list site),
  NoDup (labels calls) ->
  exists t, prepare_lattice_src hash m calls = Done t /\
    IndexSize t = index_total calls /\
    (forall i, i < IndexSize t ->
               exists x, getInfo_src t i = Done x /\ valid calls x /\ getIndex_src hash t x = i) /\
    (forall x, valid calls x -> getIndex_src hash t x < IndexSize t /\ getInfo_src t (getIndex_src hash t x) = Done x) /\
    (forall x, ~ valid calls x -> getIndex_src hash t x = IndexSize t) /\
    (forall i, IndexSize t <= i -> getInfo_src t i = Throws exWrongIndex).
Proof. exact IndexGenProofs.index_bijection_src. Qed.
Print Assumptions index_bijection_src.

(** prepare(m1); ...; prepare(m) on ONE object, whatever it held before, leaves the table of a single prepare(m) *)
Theorem prepare_history_is_last_src : forall hash : label -> nat, hash_injective hash ->
  forall (ms : list bool) (m : bool) (ss : list site) (t0 : table),
  NoDup (labels ss) -> prepare_history_src hash (ms ++ [m]) ss t0 = prepare_src hash m ss.
Proof. exact IndexGenProofs.prepare_history_is_last_src. Qed.
Print Assumptions prepare_history_is_last_src.

(** relabelling, re-ordering the addSite calls, switching the ordering mode induce a permutation of 0..N-1 *)
Theorem rename_is_mode_permutation_src : forall hash : label -> nat, hash_injective hash ->
  forall (m1 m2 : bool) (calls1 calls2 : list site) (f g : label -> label) (t1 t2 : table),
  NoDup (labels calls1) ->
  (forall l, In l (labels calls1) -> g (f l) = l) ->
  Permutation (map (rename_site f) calls1) calls2 ->
  prepare_lattice_src hash m1 calls1 = Done t1 ->
  prepare_lattice_src hash m2 calls2 = Done t2 ->
  let N := IndexSize t1 in
  let pi := index_perm_src hash t1 t2 f in
  let pi' := index_perm_src hash t2 t1 g in
  IndexSize t2 = N /\
  (forall i, i < N -> pi i < N) /\
  (forall k, k < N -> pi' k < N) /\
  (forall i, i < N -> pi' (pi i) = i) /\
  (forall k, k < N -> pi (pi' k) = k) /\
  (forall i j, i < N -> j < N -> pi i = pi j -> i = j) /\
  (forall k, k < N -> exists i, i < N /\ pi i = k) /\
  (forall i, i < N -> exists x, getInfo_src t1 i = Done x /\ getInfo_src t2 (pi i) = Done (rename_info f x)).
Proof. exact IndexGenProofs.rename_is_mode_permutation_src. Qed.
Print Assumptions rename_is_mode_permutation_src.

(** the hypothesis on the hash is satisfiable *)
Theorem hash_injective_satisfiable : exists hash : label -> nat, hash_injective hash.
Proof. exact (ex_intro _ IndexGenProofs.enc IndexGenProofs.enc_inj). Qed.
Print Assumptions hash_injective_satisfiable.
