(** C02 -- Two-particle Green's function equals its definition on both evaluation paths.
    Statements only; proofs are in PV.ChiProofs (model: PV.Chi; generated leaf arithmetic: PVgen.Gen_Multiterm). *)
Require Import Bool List Arith ZArith Field_theory Reals.
From Coquelicot Require Import Coquelicot.
From PV Require Import Outcome EDSpec Chi ChiProofs ChiLimits ChiTermListR.
From PVgen Require Import Gen_Multiterm.
Import ListNotations.

(** The (up to four) terms that TwoParticleGFPart::addMultiterm hands to the term lists, evaluated by the two term
    evaluators of TwoParticleGFPart.h at (z1,z2,z3), sum to Coeff * phi(E_i..E_l; w_i..w_l; z1,z2,z3), phi the kernel
    documented in doc/gamma4.tex -- over ANY field, for all energies, weights, frequencies with non-vanishing
    denominators, in all four combinations of the two resonance flags (exact form: coefficient guards off).
    The expressions on the left are regenerated from the C++ on every run. *)
Theorem multiterm_eq_doc_phi :
  forall (K : Type) (k0 k1 : K) (kadd kmul ksub : K -> K -> K) (kopp : K -> K) (kdiv : K -> K -> K) (kinv : K -> K),
  field_theory k0 k1 kadd kmul ksub kopp kdiv kinv (@eq K) ->
  forall (abs_gt abs_lt real_ge : K -> K -> bool)
         (res12 res23 : bool) (tol Coeff beta Ei Ej Ek El wi wj wk wl z1 z2 z3 : K),
  ksub (kadd z1 Ei) Ej <> k0 -> ksub (kadd z2 Ej) Ek <> k0 -> ksub (kadd z3 Ek) El <> k0 ->
  ksub (kadd (kadd (kadd z1 z2) z3) Ei) El <> k0 ->
  (res12 = false -> ksub (kadd (kadd z1 z2) Ei) Ek <> k0) ->
  (res23 = false -> ksub (kadd (kadd z2 z3) Ej) El <> k0) ->
  multiterm_sum K k0 kadd kmul ksub kopp kdiv abs_gt abs_lt real_ge res12 res23 tol Coeff beta Ei Ej Ek El wi wj wk wl z1 z2 z3
  = kmul Coeff (phi_doc K kadd kmul ksub kdiv res12 res23 beta Ei Ej Ek El wi wj wk wl z1 z2 z3).
Proof. exact ChiProofs.multiterm_eq_doc_phi. Qed.
Print Assumptions multiterm_eq_doc_phi.

(** TwoParticleGFPart::compute visits every quadruple (index1,index2,index3,index4) with four stored matrix elements
    exactly once, for any sparsity patterns (inner indices strictly increasing, as in Eigen's compressed storage),
    whatever value [g] is read by index() on an exhausted iterator; no fuel exhaustion. *)
Theorem chi_walk_complete :
  forall (K : Type) (NO : numops K) (g : nat) (p : part_in K), part_sorted K p ->
  exists vs, part_visits K NO g p = Done vs /\
    NoDup (map (quad K) vs) /\
    forall i1 i2 i3 i4,
      In (i1, i2, i3, i4) (map (quad K) vs) <->
      stored K (p_O1 K p) i1 i2 /\ stored K (p_O2 K p) i3 i2 /\ stored K (p_O3 K p) i3 i4 /\ stored K (p_CX4 K p) i1 i4.
Proof. exact ChiProofs.chi_walk_complete. Qed.
Print Assumptions chi_walk_complete.

(** compute() of a part terminates normally for any matrices (sorted or not). *)
Theorem part_compute_total :
  forall (K : Type) (NO : numops K) (g : nat) (tl : tols K) (p : part_in K),
  exists st, part_compute K NO g tl p = Done st /\ ps_computed K st = true.
Proof. exact ChiProofs.part_compute_total. Qed.
Print Assumptions part_compute_total.

(** Table vs on-demand, REPAIRED compute (fixed = true; proposed/fix-chi-vanishing-table.diff): for every list of parts
    (empty = vanishing component), every frequency list (empty or not), with and without purge, compute returns
    normally, the table has one entry per frequency and entry w is what on-demand evaluation of the non-purged
    object returns for freqs[w]. *)
Theorem table_eq_on_demand :
  forall (K : Type) (NO : numops K) (g : nat) (tl : tols K) (clear : bool) (ps : list (part_in K)) (freqs : list (K * K * K)),
  exists table s' sx,
    gf_compute_gen K NO true true g tl clear freqs (gf_prepared K ps) = Done (table, s') /\
    gf_compute_gen K NO true true g tl false [] (gf_prepared K ps) = Done ([], sx) /\
    length table = length freqs /\
    forall w f, nth_error freqs w = Some f ->
      gf_value K NO tl sx (fst (fst f)) (snd (fst f)) (snd f) = Done (nth w table (n0 K NO)).
Proof. exact ChiProofs.table_eq_on_demand. Qed.
Print Assumptions table_eq_on_demand.

(** The same statement is FALSE of the code as it is (fixed = false): for a vanishing component the returned table is
    empty although on-demand evaluation returns 0 for the requested triple ... *)
Theorem table_eq_on_demand_refuted :
  exists (ps : list (part_in Z)) (freqs : list (Z * Z * Z)) (clear : bool) table s',
    gf_compute_gen Z Zops false false 0 Ztols clear freqs (gf_prepared Z ps) = Done (table, s') /\
    length table <> length freqs /\
    (forall f, In f freqs -> gf_value Z Zops Ztols s' (fst (fst f)) (snd (fst f)) (snd f) = Done 0%Z).
Proof. exact ChiProofs.table_eq_on_demand_refuted. Qed.
Print Assumptions table_eq_on_demand_refuted.

(** ... and for a non-vanishing component with an empty frequency list (the default call compute()) `&m_data[0]` is
    taken on an empty vector: undefined behaviour (OOB in the model). *)
Theorem table_empty_freqs_undefined :
  exists (ps : list (part_in Z)) (clear : bool),
    ps <> [] /\ gf_compute_gen Z Zops false false 0 Ztols clear [] (gf_prepared Z ps) = OOB.
Proof. exact ChiProofs.table_empty_freqs_undefined. Qed.
Print Assumptions table_empty_freqs_undefined.

(** The resonant coefficients are the limits of the non-resonant expressions (generated code at R; Gibbs weights
    w_k = w_i e^{-beta (E_k - E_i)}): for z1 + z2 = 0,  CoeffZ1Z2NonRes / (z1 + z2 - P1 - P2) -> CoeffZ1Z2Res  as E_k -> E_i ... *)
Theorem resonant_is_limit_12 :
  forall (abs_gt abs_lt real_ge : R -> R -> bool) (tol C beta Ei Ej El wi wj wl z1 z3 : R), beta <> 0%R ->
  is_lim (fun x =>
            (mt_CoeffZ1Z2NonRes R Rplus Rminus Rmult Rdiv Ropp abs_gt abs_lt real_ge tol C beta Ei Ej (Ei + x) El wi wj (wi * exp (- (beta * x))) wl /
             res_diff_z1z2 R Rplus Rminus Rmult Rdiv Ropp abs_gt abs_lt real_ge
               (mt_P1 R Rplus Rminus Rmult Rdiv Ropp abs_gt abs_lt real_ge tol C beta Ei Ej (Ei + x) El wi wj (wi * exp (- (beta * x))) wl)
               (mt_P2 R Rplus Rminus Rmult Rdiv Ropp abs_gt abs_lt real_ge tol C beta Ei Ej (Ei + x) El wi wj (wi * exp (- (beta * x))) wl)
               (mt_P3 R Rplus Rminus Rmult Rdiv Ropp abs_gt abs_lt real_ge tol C beta Ei Ej (Ei + x) El wi wj (wi * exp (- (beta * x))) wl)
               z1 (- z1) z3)%R)
         0%R
         (mt_CoeffZ1Z2Res R Rplus Rminus Rmult Rdiv Ropp abs_gt abs_lt real_ge tol C beta Ei Ej Ei El wi wj wi wl).
Proof. exact ChiLimits.resonant_is_limit_12. Qed.
Print Assumptions resonant_is_limit_12.

(** ... and for z2 + z3 = 0,  CoeffZ2Z3NonRes / (z2 + z3 - P2 - P3) -> CoeffZ2Z3Res  as E_l -> E_j. *)
Theorem resonant_is_limit_23 :
  forall (abs_gt abs_lt real_ge : R -> R -> bool) (tol C beta Ei Ej Ek wi wj wk z1 z2 : R), beta <> 0%R ->
  is_lim (fun x =>
            (mt_CoeffZ2Z3NonRes R Rplus Rminus Rmult Rdiv Ropp abs_gt abs_lt real_ge tol C beta Ei Ej Ek (Ej + x) wi wj wk (wj * exp (- (beta * x))) /
             res_diff_z2z3 R Rplus Rminus Rmult Rdiv Ropp abs_gt abs_lt real_ge
               (mt_P1 R Rplus Rminus Rmult Rdiv Ropp abs_gt abs_lt real_ge tol C beta Ei Ej Ek (Ej + x) wi wj wk (wj * exp (- (beta * x))))
               (mt_P2 R Rplus Rminus Rmult Rdiv Ropp abs_gt abs_lt real_ge tol C beta Ei Ej Ek (Ej + x) wi wj wk (wj * exp (- (beta * x))))
               (mt_P3 R Rplus Rminus Rmult Rdiv Ropp abs_gt abs_lt real_ge tol C beta Ei Ej Ek (Ej + x) wi wj wk (wj * exp (- (beta * x))))
               z1 z2 (- z2))%R)
         0%R
         (mt_CoeffZ2Z3Res R Rplus Rminus Rmult Rdiv Ropp abs_gt abs_lt real_ge tol C beta Ei Ej Ek Ej wi wj wk wj).
Proof. exact ChiLimits.resonant_is_limit_23. Qed.
Print Assumptions resonant_is_limit_23.

(** Term lists as they are in the repository (add_term without retry): if, per term list, value of the flag and pole
    position, any two pole values are at most tol/4 or at least 2 tol apart, no std::set insertion is ever refused, i.e.
    no term weight is lost -- whatever the order of the terms and the weighted means produced by operator+=. *)
Theorem chi_termlist_no_loss :
  forall (tol tneg : R) (V0 V1 V2 : bool -> list R) (ts : list (nrterm R)),
  (0 < tol)%R ->
  (forall f, separated tol (V0 f)) -> (forall f, separated tol (V1 f)) -> (forall f, separated tol (V2 f)) ->
  (forall t, In t ts -> (0 < nr_weight R t)%Z /\ In (nr_p0 R t) (V0 (nr_isz4 R t)) /\ In (nr_p1 R t) (V1 (nr_isz4 R t)) /\
                        In (nr_p2 R t) (V2 (nr_isz4 R t))) ->
  fst (add_terms_gen (nrterm R) (nr_comp R Rops tol) (nr_plus R Rops) (nr_negl R Rops tneg) false ts (O, [])) = O.
Proof. exact ChiTermListR.chi_termlist_no_loss_nonresonant. Qed.
Print Assumptions chi_termlist_no_loss.

Theorem chi_termlist_no_loss_resonant :
  forall (tol tneg : R) (V0 V1 V2 : bool -> list R) (ts : list (rterm R)),
  (0 < tol)%R ->
  (forall f, separated tol (V0 f)) -> (forall f, separated tol (V1 f)) -> (forall f, separated tol (V2 f)) ->
  (forall t, In t ts -> (0 < r_weight R t)%Z /\ In (r_p0 R t) (V0 (r_isz1z2 R t)) /\ In (r_p1 R t) (V1 (r_isz1z2 R t)) /\
                        In (r_p2 R t) (V2 (r_isz1z2 R t))) ->
  fst (add_terms_gen (rterm R) (r_comp R Rops tol) (r_plus R Rops) (r_negl R Rops tneg) false ts (O, [])) = O.
Proof. exact ChiTermListR.chi_termlist_no_loss_resonant. Qed.
Print Assumptions chi_termlist_no_loss_resonant.

(** Without the separation hypothesis weight IS lost by the unrepaired add_term (integer poles 0, 12, 6; tolerance 10):
    one insertion refused, coefficient sum 1 instead of 3 ... *)
Theorem chi_termlist_loss_witness :
  let r := add_terms_gen (nrterm Z) (nr_comp Z Zops 10%Z) (nr_plus Z Zops) (nr_negl Z Zops 0%Z) false loss_terms (O, []) in
  fst r = 1%nat /\ coeff_total (snd r) = 1%Z /\ coeff_total loss_terms = 3%Z.
Proof. exact ChiProofs.chi_termlist_loss_witness. Qed.
Print Assumptions chi_termlist_loss_witness.

(** ... while the repaired add_term (proposed/fix-termlist-refused-insert.diff: insert, and while an equivalent term
    blocks the insertion reduce with it and retry) conserves the coefficient sum for ANY comparator tolerance and any
    sequence of terms (no term dropped as negligible). *)
Theorem chi_termlist_retry_no_loss :
  forall (K : Type) (NO : numops K),
  (forall a b c, nadd K NO a (nadd K NO b c) = nadd K NO (nadd K NO a b) c) ->
  (forall a b, nadd K NO a b = nadd K NO b a) ->
  (forall a, nadd K NO (n0 K NO) a = a) ->
  forall (tol : K) (ts : list (nrterm K)) (n : nat) (l : list (nrterm K)),
  exists l', add_terms_gen (nrterm K) (nr_comp K NO tol) (nr_plus K NO) (fun _ _ => false) true ts (n, l) = (n, l') /\
    total (nrterm K) K (nadd K NO) (n0 K NO) (nr_coeff K) l' =
    nadd K NO (total (nrterm K) K (nadd K NO) (n0 K NO) (nr_coeff K) l) (total (nrterm K) K (nadd K NO) (n0 K NO) (nr_coeff K) ts).
Proof. exact ChiProofs.chi_termlist_retry_no_loss. Qed.
Print Assumptions chi_termlist_retry_no_loss.
