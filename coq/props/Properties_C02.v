(** C02 -- Two-particle Green's function equals its definition on both evaluation paths.
    Statements only; proofs are in PV.ChiProofs (model: PV.Chi; generated leaf arithmetic: PVgen.Gen_Multiterm). *)
Require Import Bool List Arith ZArith Field_theory.
From PV Require Import Outcome EDSpec Chi ChiProofs.
From PVgen Require Import Gen_Multiterm.
Import ListNotations.

(** The (up to four) terms that TwoParticleGFPart::addMultiterm hands to the term lists, evaluated by the two term
    evaluators of TwoParticleGFPart.h at (z1,z2,z3), sum to Coeff * phi(E_i..E_l; w_i..w_l; z1,z2,z3), phi the kernel
    documented in doc/gamma4.tex -- over ANY field, for all energies, weights, frequencies with non-vanishing
    denominators, in all four combinations of the two resonance flags (exact form: coefficient guards off).
    The expressions on the left are regenerated from the C++ on every run. *)
Theorem multiterm_eq_doc_phi :
  forall (K : Type) (k0 k1 : K) (kadd kmul ksub : K -> K -> K) (kopp : K -> K) (kdiv : K -> K -> K) (kinv : K -> K),
  field_theory k0 k1 kadd kmul ksub kopp kdiv kinv (@eq K) ->
  forall (abs_gt abs_lt real_ge : K -> K -> bool)
         (res12 res23 : bool) (tol Coeff beta Ei Ej Ek El wi wj wk wl z1 z2 z3 : K),
  ksub (kadd z1 Ei) Ej <> k0 -> ksub (kadd z2 Ej) Ek <> k0 -> ksub (kadd z3 Ek) El <> k0 ->
  ksub (kadd (kadd (kadd z1 z2) z3) Ei) El <> k0 ->
  (res12 = false -> ksub (kadd (kadd z1 z2) Ei) Ek <> k0) ->
  (res23 = false -> ksub (kadd (kadd z2 z3) Ej) El <> k0) ->
  multiterm_sum K k0 kadd kmul ksub kopp kdiv abs_gt abs_lt real_ge res12 res23 tol Coeff beta Ei Ej Ek El wi wj wk wl z1 z2 z3
  = kmul Coeff (phi_doc K kadd kmul ksub kdiv res12 res23 beta Ei Ej Ek El wi wj wk wl z1 z2 z3).
Proof. exact ChiProofs.multiterm_eq_doc_phi. Qed.
Print Assumptions multiterm_eq_doc_phi.

(** TwoParticleGFPart::compute visits every quadruple (index1,index2,index3,index4) with four stored matrix elements
    exactly once, for any sparsity patterns (inner indices strictly increasing, as in Eigen's compressed storage),
    whatever value [g] is read by index() on an exhausted iterator; no fuel exhaustion. *)
Theorem chi_walk_complete :
  forall (K : Type) (NO : numops K) (g : nat) (p : part_in K), part_sorted K p ->
  exists vs, part_visits K NO g p = Done vs /\
    NoDup (map (quad K) vs) /\
    forall i1 i2 i3 i4,
      In (i1, i2, i3, i4) (map (quad K) vs) <->
      stored K (p_O1 K p) i1 i2 /\ stored K (p_O2 K p) i3 i2 /\ stored K (p_O3 K p) i3 i4 /\ stored K (p_CX4 K p) i1 i4.
Proof. exact ChiProofs.chi_walk_complete. Qed.
Print Assumptions chi_walk_complete.

(** compute() of a part terminates normally for any matrices (sorted or not). *)
Theorem part_compute_total :
  forall (K : Type) (NO : numops K) (g : nat) (tl : tols K) (p : part_in K),
  exists st, part_compute K NO g tl p = Done st /\ ps_computed K st = true.
Proof. exact ChiProofs.part_compute_total. Qed.
Print Assumptions part_compute_total.

(** Table vs on-demand, REPAIRED compute (fixed = true; proposed/fix-chi-vanishing-table.diff): for every list of parts
    (empty = vanishing component), every frequency list (empty or not), with and without purge, compute returns
    normally, the table has one entry per frequency and entry w is what on-demand evaluation of the non-purged
    object returns for freqs[w]. *)
Theorem table_eq_on_demand :
  forall (K : Type) (NO : numops K) (g : nat) (tl : tols K) (clear : bool) (ps : list (part_in K)) (freqs : list (K * K * K)),
  exists table s' sx,
    gf_compute_gen K NO true true g tl clear freqs (gf_prepared K ps) = Done (table, s') /\
    gf_compute_gen K NO true true g tl false [] (gf_prepared K ps) = Done ([], sx) /\
    length table = length freqs /\
    forall w f, nth_error freqs w = Some f ->
      gf_value K NO tl sx (fst (fst f)) (snd (fst f)) (snd f) = Done (nth w table (n0 K NO)).
Proof. exact ChiProofs.table_eq_on_demand. Qed.
Print Assumptions table_eq_on_demand.

(** The same statement is FALSE of the code as it is (fixed = false): for a vanishing component the returned table is
    empty although on-demand evaluation returns 0 for the requested triple ... *)
Theorem table_eq_on_demand_refuted :
  exists (ps : list (part_in Z)) (freqs : list (Z * Z * Z)) (clear : bool) table s',
    gf_compute_gen Z Zops false false 0 Ztols clear freqs (gf_prepared Z ps) = Done (table, s') /\
    length table <> length freqs /\
    (forall f, In f freqs -> gf_value Z Zops Ztols s' (fst (fst f)) (snd (fst f)) (snd f) = Done 0%Z).
Proof. exact ChiProofs.table_eq_on_demand_refuted. Qed.
Print Assumptions table_eq_on_demand_refuted.

(** ... and for a non-vanishing component with an empty frequency list (the default call compute()) `&m_data[0]` is
    taken on an empty vector: undefined behaviour (OOB in the model). *)
Theorem table_empty_freqs_undefined :
  exists (ps : list (part_in Z)) (clear : bool),
    ps <> [] /\ gf_compute_gen Z Zops false false 0 Ztols clear [] (gf_prepared Z ps) = OOB.
Proof. exact ChiProofs.table_empty_freqs_undefined. Qed.
Print Assumptions table_empty_freqs_undefined.
