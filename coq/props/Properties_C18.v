(** C18 -- Index bookkeeping is a bijection; physics invariant under relabelling.
    Statements only; proofs are in PV.IndexProofs, the model in PV.Index.

    Reading of the statements
    - [ss] is the sequence of sites in the iteration order of the std::map (label order);
      [calls] is a sequence of Lattice::addSite calls, [site_map calls] the resulting iteration
      order, [prepare_lattice fixed order_spins calls = prepare fixed order_spins (site_map calls)].
    - [order_spins] is the argument of IndexClassification::prepare.
    - [fixed = false] is the spin-major loop as written (`break`, IndexClassification.cpp:53),
      [fixed = true] the minimally repaired loop (`continue`).  [harmless fixed order_spins ss]
      is: fixed = true, or order_spins = false, or the spin counts do not increase along [ss].
      Which variant the library is, is established by the correspondence check (checks/C18.py).
    - No bound on the number of sites, orbitals or spins; zero counts are allowed except where
      stated.  Labels are arbitrary byte strings; they only have to be distinct.
    - Assumed, checked per run by the harness: boost::hash<std::string> is injective on the labels
      that occur (the real map is keyed by the hash of the label).

    "Every result changes only by the induced permutation": for operators this is proved for every
    permutation (second part of this file: [sem_permute_monomial], [sem_permute_poly],
    [hamiltonian_matrix_relabel]); for observables it is proved relative to a transported
    eigen-system ([observables_relabel_partial]); what remains open -- independence of the
    observables from the choice of the eigen-decomposition -- is stated there and is covered by
    differential runs of the whole ED chain (harness/h_c18_phys.cpp, checks/C18.py). *)
Require Import Bool List Arith Permutation Ring_theory.
From PV Require Import Outcome Index IndexProofs Fock Poly PolySem IndexSem.
From PV Require IndexReprepare IndexReprepareProofs.

(** prepare() returns normally: no null dereference at cpp:72, no write past the vector. *)
Theorem prepare_total : forall (fixed order_spins : bool) (ss : list site),
  NoDup (labels ss) -> harmless fixed order_spins ss ->
  exists t, prepare fixed order_spins ss = Done t.
Proof. exact IndexProofs.prepare_total. Qed.
Print Assumptions prepare_total.

(** IndexSize = sum over the sites of orbitals * spins = length of IndicesToInfo. *)
Theorem index_count : forall (fixed order_spins : bool) (ss : list site) (t : table),
  NoDup (labels ss) -> harmless fixed order_spins ss -> prepare fixed order_spins ss = Done t ->
  IndexSize t = index_total ss /\ length (IndicesToInfo t) = IndexSize t.
Proof. exact IndexProofs.index_count. Qed.
Print Assumptions index_count.

(** every index below IndexSize has a (non-null) entry, which names a mode of the lattice *)
Theorem getInfo_total : forall (fixed order_spins : bool) (ss : list site) (t : table),
  NoDup (labels ss) -> harmless fixed order_spins ss -> prepare fixed order_spins ss = Done t ->
  forall i, i < IndexSize t -> exists x, getInfo t i = Done x /\ valid ss x.
Proof. exact IndexProofs.getInfo_total. Qed.
Print Assumptions getInfo_total.

(** no (label, orbital, spin) is listed under two indices *)
Theorem index_nodup : forall (fixed order_spins : bool) (ss : list site) (t : table),
  NoDup (labels ss) -> harmless fixed order_spins ss -> prepare fixed order_spins ss = Done t ->
  forall (i j : nat) (x : info), getInfo t i = Done x -> getInfo t j = Done x -> i = j.
Proof. exact IndexProofs.index_nodup. Qed.
Print Assumptions index_nodup.

(** the image of 0..IndexSize-1 is exactly the set of valid (label, orbital, spin) triples *)
Theorem index_covers : forall (fixed order_spins : bool) (ss : list site) (t : table),
  NoDup (labels ss) -> harmless fixed order_spins ss -> prepare fixed order_spins ss = Done t ->
  forall x, valid ss x <-> (exists i, i < IndexSize t /\ getInfo t i = Done x).
Proof. exact IndexProofs.index_covers. Qed.
Print Assumptions index_covers.

(** getIndex o getInfo = id on 0..IndexSize-1 *)
Theorem getIndex_getInfo : forall (fixed order_spins : bool) (ss : list site) (t : table),
  NoDup (labels ss) -> harmless fixed order_spins ss -> prepare fixed order_spins ss = Done t ->
  forall i, i < IndexSize t -> exists x, getInfo t i = Done x /\ getIndex t x = i.
Proof. exact IndexProofs.getIndex_getInfo. Qed.
Print Assumptions getIndex_getInfo.

(** getInfo o getIndex = id on the valid triples, and getIndex lands below IndexSize there *)
Theorem getInfo_getIndex : forall (fixed order_spins : bool) (ss : list site) (t : table),
  NoDup (labels ss) -> harmless fixed order_spins ss -> prepare fixed order_spins ss = Done t ->
  forall x, valid ss x -> getIndex t x < IndexSize t /\ getInfo t (getIndex t x) = Done x.
Proof. exact IndexProofs.getInfo_getIndex. Qed.
Print Assumptions getInfo_getIndex.

(** getIndex of anything that is not a valid triple is IndexSize *)
Theorem getIndex_unknown : forall (fixed order_spins : bool) (ss : list site) (t : table),
  NoDup (labels ss) -> harmless fixed order_spins ss -> prepare fixed order_spins ss = Done t ->
  forall x, ~ valid ss x -> getIndex t x = IndexSize t.
Proof. exact IndexProofs.getIndex_unknown. Qed.
Print Assumptions getIndex_unknown.

(** getInfo throws exWrongIndex from IndexSize on; checkIndex is "below IndexSize" *)
Theorem getInfo_throws : forall (t : table) (i : nat),
  IndexSize t <= i -> getInfo t i = Throws exWrongIndex.
Proof. exact IndexProofs.getInfo_throws. Qed.
Print Assumptions getInfo_throws.

Theorem checkIndex_spec : forall (t : table) (i : nat), checkIndex t i = true <-> i < IndexSize t.
Proof. exact IndexProofs.checkIndex_spec. Qed.
Print Assumptions checkIndex_spec.

(** with distinct labels the site map holds exactly the sites that were added *)
Theorem site_map_perm : forall calls : list site,
  NoDup (labels calls) -> Permutation calls (site_map calls).
Proof. exact IndexProofs.site_map_perm. Qed.
Print Assumptions site_map_perm.

(** The bijection for ALL lattices, both modes -- about the repaired loop. *)
Theorem index_bijection_fixed : forall (order_spins : bool) (calls : list site),
  NoDup (labels calls) ->
  exists t, prepare_lattice true order_spins calls = Done t /\
    IndexSize t = index_total calls /\
    (forall i, i < IndexSize t ->
               exists x, getInfo t i = Done x /\ valid calls x /\ getIndex t x = i) /\
    (forall x, valid calls x -> getIndex t x < IndexSize t /\ getInfo t (getIndex t x) = Done x) /\
    (forall x, ~ valid calls x -> getIndex t x = IndexSize t) /\
    (forall i, IndexSize t <= i -> getInfo t i = Throws exWrongIndex).
Proof. exact IndexProofs.index_bijection_fixed. Qed.
Print Assumptions index_bijection_fixed.

(** The same about the loops as written: all lattices in site-major order; in spin-major order
    the lattices whose spin counts do not increase along the label order of the sites. *)
Theorem index_bijection_as_written : forall (order_spins : bool) (calls : list site),
  NoDup (labels calls) ->
  order_spins = false \/ spins_nonincreasing (site_map calls) ->
  exists t, prepare_lattice false order_spins calls = Done t /\
    IndexSize t = index_total calls /\
    (forall i, i < IndexSize t ->
               exists x, getInfo t i = Done x /\ valid calls x /\ getIndex t x = i) /\
    (forall x, valid calls x -> getIndex t x < IndexSize t /\ getInfo t (getIndex t x) = Done x) /\
    (forall x, ~ valid calls x -> getIndex t x = IndexSize t) /\
    (forall i, IndexSize t <= i -> getInfo t i = Throws exWrongIndex).
Proof. exact IndexProofs.index_bijection_as_written. Qed.
Print Assumptions index_bijection_as_written.

(** The condition is exact: with at least one orbital on every site, the spin-major prepare() as
    written returns normally iff the spin counts never increase along the site order, and
    otherwise dereferences a null pointer (cpp:72). *)
Theorem spin_major_break_exact : forall ss : list site,
  NoDup (labels ss) -> (forall s, In s ss -> 1 <= s_orb s) ->
  ((exists t, prepare false true ss = Done t) <-> spins_nonincreasing ss) /\
  (~ spins_nonincreasing ss -> prepare false true ss = Uninit).
Proof. exact IndexProofs.spin_major_break_exact. Qed.
Print Assumptions spin_major_break_exact.

(** REFUTED for the loop as written: [index_covers] (and [prepare_total]) without the
    hypothesis [harmless].  Witness: sites A (1 orbital, 1 spin), B (1 orbital, 2 spins),
    order_spins = true: prepare() dereferences the null entry 2, and the vector left by the
    enumeration loops does not contain the valid triple (B, 0, 1).  (vm_compute) *)
Theorem index_covers_spin_major_refuted :
  exists ss, NoDup (labels ss) /\ (forall s, In s ss -> 1 <= s_orb s /\ 1 <= s_spin s) /\
             site_map ss = ss /\
             prepare false true ss = Uninit /\
             exists v cur x, fill_vector false true ss = Done (v, cur) /\
                             cur < index_total ss /\ nth_error v cur = Some None /\
                             valid ss x /\ ~ In (Some x) v.
Proof. exact IndexProofs.index_covers_spin_major_refuted. Qed.
Print Assumptions index_covers_spin_major_refuted.

(** Relabelling, re-ordering the addSite calls, switching the ordering mode: both index spaces
    have the same size N and  pi = getIndex_2 o rename_f o getInfo_1  is a permutation of 0..N-1
    (inverse: the same construction backwards with g), carrying entry i of the first table to the
    renamed entry pi(i) of the second. *)
Theorem rename_is_mode_permutation :
  forall (fx1 m1 fx2 m2 : bool) (calls1 calls2 : list site) (f g : label -> label) (t1 t2 : table),
  NoDup (labels calls1) ->
  (forall l, In l (labels calls1) -> g (f l) = l) ->
  Permutation (map (rename_site f) calls1) calls2 ->
  harmless fx1 m1 (site_map calls1) -> harmless fx2 m2 (site_map calls2) ->
  prepare_lattice fx1 m1 calls1 = Done t1 ->
  prepare_lattice fx2 m2 calls2 = Done t2 ->
  let N := IndexSize t1 in
  let pi := index_perm t1 t2 f in
  let pi' := index_perm t2 t1 g in
  IndexSize t2 = N /\
  (forall i, i < N -> pi i < N) /\
  (forall k, k < N -> pi' k < N) /\
  (forall i, i < N -> pi' (pi i) = i) /\
  (forall k, k < N -> pi (pi' k) = k) /\
  (forall i j, i < N -> j < N -> pi i = pi j -> i = j) /\
  (forall k, k < N -> exists i, i < N /\ pi i = k) /\
  (forall i, i < N -> exists x, getInfo t1 i = Done x /\ getInfo t2 (pi i) = Done (rename_info f x)).
Proof. exact IndexProofs.rename_is_mode_permutation. Qed.
Print Assumptions rename_is_mode_permutation.

(** PARTIAL: the operator-level part of C18.
    Full statement (not proved):  [sem_permute] -- for H a polynomial in c_i, c^+_i over N modes
      and pi ANY permutation of 0..N-1, the polynomial with every index i replaced by pi(i) is
      conjugate to H by the signed permutation U_pi of Fock states induced by pi; consequently the
      eigenvalues are equal, <n_pi(i)>' = <n_i> and G'_{pi(i) pi(j)}(z) = G_ij(z).
    Proved here, for pi given as a product of adjacent transpositions [ks] (positions k with k+1 < N):
      - [sem_permute_monomial_partial]: a monomial acting on a basis state (PV.Fock.act_mono, the
        model of Operator::actRight):  U_pi m U_pi^{-1} = pi(m)  with
        U_pi |s> = (-1)^(sign_of ks s) |state_perm ks s>; Pauli zeros and out-of-range indices are preserved;
      - [sem_permute_poly_partial]: every matrix element of a polynomial (PV.PolySem.coef_poly, any
        commutative ring of coefficients, polynomial normal-ordered or not):
        <U_pi t| pi(P) |U_pi s> = <t| P |s>,  i.e.  pi(P) = U_pi P U_pi^{-1}.
    (Both items below are addressed in the second part of this file, after these two theorems.)
    Missing: "every permutation is a product of adjacent transpositions" (so that the pi of
      [rename_is_mode_permutation] is of this form), and the linear algebra from conjugate
      Hamiltonians / field operators to equal spectra and permuted observables.  Those steps are
      covered only by the differential runs of the real ED chain (harness/h_c18_phys.cpp,
      checks/C18.py): relabelled / re-ordered / mode-switched copies of random small models,
      eigenvalues, occupancies, <c+_i c_j> and G_ij(i w_n) compared after applying the pi of
      [rename_is_mode_permutation]. *)
Theorem sem_permute_monomial_partial : forall (ks : list nat) (m : list Fock.op) (s : Fock.state),
  (forall k, In k ks -> S k < length s) ->
  Fock.act_mono (map (IndexSem.perm_op ks) m) (IndexSem.state_perm ks s) =
  match Fock.act_mono m s with
  | Done (Some (sg, s')) =>
    Done (Some (xorb sg (xorb (IndexSem.sign_of ks s) (IndexSem.sign_of ks s')), IndexSem.state_perm ks s'))
  | r => r
  end.
Proof. exact IndexSem.sem_permute_monomial_partial. Qed.
Print Assumptions sem_permute_monomial_partial.

Theorem sem_permute_poly_partial :
  forall (K : Type) (k0 k1 : K) (kadd kmul ksub : K -> K -> K) (kopp : K -> K),
  ring_theory k0 k1 kadd kmul ksub kopp (@eq K) ->
  forall (ks : list nat) (p : Poly.poly K) (s t : Fock.state),
  (forall k, In k ks -> S k < length s) ->
  PolySem.coef_poly K k0 k1 kadd kmul kopp (IndexSem.poly_rename K ks p)
                    (IndexSem.state_perm ks s) (IndexSem.state_perm ks t) =
  IndexSem.sgn K kopp (xorb (IndexSem.sign_of ks s) (IndexSem.sign_of ks t))
               (PolySem.coef_poly K k0 k1 kadd kmul kopp p s t).
Proof. exact IndexSem.sem_permute_poly_partial. Qed.
Print Assumptions sem_permute_poly_partial.

(** * The operator-level part of C18 for EVERY permutation, and the observables

    Added after the block above (whose statements are kept unchanged).  The two gaps named there are closed as follows.
    (1) "every permutation is a product of adjacent transpositions":
        [perm_is_product_of_adjacent_transpositions]; [index_perm_perm_on] shows that the pi of
        [rename_is_mode_permutation] (relabelling, re-ordering the addSite calls, switching the ordering
        mode) is such a permutation, so [sem_permute_monomial], [sem_permute_poly] (any [perm_on N pi]) and
        [sem_permute_poly_relabel] (that pi) hold without a hypothesis on the shape of pi.
        U_pi |s> = (-1)^(fock_sign N pi s) |fock_perm N pi s>  does not depend on the word chosen:
        [fock_perm_nth], [fock_sign_inversions].
    (2) "conjugate Hamiltonians give permuted observables", on the executable specification PV.EDSpec, over any
        number type whose operations form a commutative ring and whose conjugation commutes with negation:
        [poly_matrix_permuted], [hamiltonian_matrix_relabel]: poly_matrix of the renamed polynomial = P H P^T
        with P the orthogonal signed permutation matrix of U_pi; [rotate_permuted]: (PU)^+ (P O P^T) (PU) = U^+ O U;
        [eigen_system_permuted], [residual_HU_zero]: exact eigen-systems go to exact eigen-systems (same E);
        [observables_relabel_partial]: G_ij(z), G_ij(tau), <c^+_i c_j>, susceptibilities and the two-particle
        Green's function computed from (E, P U) and the NEW indices pi(i) equal those from (E, U) and the OLD ones.
    STILL PARTIAL (hence the name of the last theorem).  Full statement, not proved:
        for H Hermitian and ANY two eigen-decompositions (E1, U1), (E2, U2) of H with U1, U2 unitary, the
        observables of EDSpec built from them are equal (so that the library's own, independent diagonalisation
        of the relabelled Hamiltonian may be used instead of (E, P U)), and E1, E2 are equal as multisets.
      This is uniqueness of the spectral decomposition (observables depend on U only through the spectral
      projectors); it needs the spectral theorem and is not formalised.  PV.Rotate.similar_same_charpoly (C03)
      gives the multiset statement for mathcomp matrices but is not bridged to these list matrices here.
      Also outside: floating-point rounding, and the library's thresholds.  These steps remain covered by the
      differential runs of the whole ED chain (harness/h_c18_phys.cpp, checks/C18.py).
    Non-vacuity: PV.IndexPermExamples (a 3-cycle on 3 modes with a non-invariant Hamiltonian, all statements
    evaluated by vm_compute; the 11-mode pi of the relabelling example). *)
Require Import Lia.
From PV Require Import EDSpec IndexPerm IndexPermProofs IndexObs IndexObsProofs.
From PV Require IndexPermExamples.

Theorem perm_is_product_of_adjacent_transpositions : forall (N : nat) (pi : nat -> nat),
  (forall i, i < N -> pi i < N) ->
  (forall i j, i < N -> j < N -> pi i = pi j -> i = j) ->
  exists ks, (forall k, In k ks -> S k < N) /\ (forall i, i < N -> IndexSem.perm_of ks i = pi i).
Proof. exact IndexPermProofs.perm_is_product_of_adjacent_transpositions. Qed.
Print Assumptions perm_is_product_of_adjacent_transpositions.

(** the pi of [rename_is_mode_permutation] is a permutation of 0..N-1 in the sense used below
    ([perm_on N pi]: maps 0..N-1 into itself, injective there, indices >= N stay >= N) *)
Theorem index_perm_perm_on :
  forall (fx1 m1 fx2 m2 : bool) (calls1 calls2 : list site) (f g : label -> label) (t1 t2 : table),
  NoDup (labels calls1) ->
  (forall l, In l (labels calls1) -> g (f l) = l) ->
  Permutation (map (rename_site f) calls1) calls2 ->
  harmless fx1 m1 (site_map calls1) -> harmless fx2 m2 (site_map calls2) ->
  prepare_lattice fx1 m1 calls1 = Done t1 ->
  prepare_lattice fx2 m2 calls2 = Done t2 ->
  perm_on (IndexSize t1) (index_perm t1 t2 f) /\ IndexSize t2 = IndexSize t1.
Proof. exact IndexPermProofs.index_perm_perm_on. Qed.
Print Assumptions index_perm_perm_on.

(** U_pi m U_pi^{-1} = pi(m) on basis states, for every permutation pi of 0..N-1; Pauli zeros and
    out-of-range indices are preserved *)
Theorem sem_permute_monomial : forall (N : nat) (pi : nat -> nat) (m : list Fock.op) (s : Fock.state),
  perm_on N pi -> length s = N ->
  Fock.act_mono (map (ren_op pi) m) (fock_perm N pi s) =
  match Fock.act_mono m s with
  | Done (Some (sg, s')) =>
    Done (Some (xorb sg (xorb (fock_sign N pi s) (fock_sign N pi s')), fock_perm N pi s'))
  | r => r
  end.
Proof. exact IndexPermProofs.sem_permute_monomial. Qed.
Print Assumptions sem_permute_monomial.

(** <U_pi t| pi(P) |U_pi s> = <t| P |s>, i.e. pi(P) = U_pi P U_pi^{-1}, for every permutation pi *)
Theorem sem_permute_poly :
  forall (K : Type) (k0 k1 : K) (kadd kmul ksub : K -> K -> K) (kopp : K -> K),
  ring_theory k0 k1 kadd kmul ksub kopp (@eq K) ->
  forall (N : nat) (pi : nat -> nat) (p : Poly.poly K) (s t : Fock.state),
  perm_on N pi -> length s = N ->
  PolySem.coef_poly K k0 k1 kadd kmul kopp (poly_ren K pi p) (fock_perm N pi s) (fock_perm N pi t) =
  IndexSem.sgn K kopp (xorb (fock_sign N pi s) (fock_sign N pi t))
               (PolySem.coef_poly K k0 k1 kadd kmul kopp p s t).
Proof. exact IndexPermProofs.sem_permute_poly. Qed.
Print Assumptions sem_permute_poly.

(** ... read for the tables: relabelling sites, re-ordering the addSite calls or switching the ordering mode
    conjugates the matrix of every polynomial by the signed permutation of Fock states induced by
    pi = index_perm t1 t2 f *)
Theorem sem_permute_poly_relabel :
  forall (K : Type) (k0 k1 : K) (kadd kmul ksub : K -> K -> K) (kopp : K -> K),
  ring_theory k0 k1 kadd kmul ksub kopp (@eq K) ->
  forall (fx1 m1 fx2 m2 : bool) (calls1 calls2 : list site) (f g : label -> label) (t1 t2 : table),
  NoDup (labels calls1) ->
  (forall l, In l (labels calls1) -> g (f l) = l) ->
  Permutation (map (rename_site f) calls1) calls2 ->
  harmless fx1 m1 (site_map calls1) -> harmless fx2 m2 (site_map calls2) ->
  prepare_lattice fx1 m1 calls1 = Done t1 ->
  prepare_lattice fx2 m2 calls2 = Done t2 ->
  let N := IndexSize t1 in
  let pi := index_perm t1 t2 f in
  forall (p : Poly.poly K) (s t : Fock.state), length s = N ->
  PolySem.coef_poly K k0 k1 kadd kmul kopp (poly_ren K pi p) (fock_perm N pi s) (fock_perm N pi t) =
  IndexSem.sgn K kopp (xorb (fock_sign N pi s) (fock_sign N pi t))
               (PolySem.coef_poly K k0 k1 kadd kmul kopp p s t).
Proof. exact IndexPermProofs.sem_permute_poly_relabel. Qed.
Print Assumptions sem_permute_poly_relabel.

(** what U_pi is, independently of the word of transpositions: mode pi(i) of U_pi s is mode i of s ... *)
Theorem fock_perm_nth : forall (N : nat) (pi : nat -> nat) (s : Fock.state) (i : nat),
  perm_on N pi -> length s = N -> i < N ->
  nth (pi i) (fock_perm N pi s) false = nth i s false.
Proof. exact IndexPermProofs.fock_perm_nth. Qed.
Print Assumptions fock_perm_nth.

(** ... and the sign is the parity of the number of pairs of occupied modes whose order pi reverses *)
Theorem fock_sign_inversions : forall (N : nat) (pi : nat -> nat) (s : Fock.state),
  perm_on N pi -> length s = N -> fock_sign N pi s = inv_parity N pi s.
Proof. exact IndexPermProofs.fock_sign_inversions. Qed.
Print Assumptions fock_sign_inversions.

(** the Fock-space matrix (EDSpec.poly_matrix, the specification of the Hamiltonian and operator matrices)
    of the renamed polynomial is P H P^T, P = signed permutation matrix of U_pi *)
Theorem poly_matrix_permuted :
  forall (K : Type) (NO : numops K),
  ring_theory (n0 K NO) (n1 K NO) (nadd K NO) (nmul K NO) (nsub K NO) (nopp K NO) (@eq K) ->
  forall (M : nat) (pi : nat -> nat), perm_on M pi ->
  forall p : list (Poly.monomial * K),
  poly_matrix K NO M (poly_ren K pi p) = pconj K NO (fock_sperm M pi) (poly_matrix K NO M p).
Proof. exact IndexObsProofs.poly_matrix_permuted. Qed.
Print Assumptions poly_matrix_permuted.

Theorem hamiltonian_matrix_relabel :
  forall (K : Type) (NO : numops K),
  ring_theory (n0 K NO) (n1 K NO) (nadd K NO) (nmul K NO) (nsub K NO) (nopp K NO) (@eq K) ->
  forall (fx1 m1 fx2 m2 : bool) (calls1 calls2 : list site) (f g : label -> label) (t1 t2 : table),
  NoDup (labels calls1) ->
  (forall l, In l (labels calls1) -> g (f l) = l) ->
  Permutation (map (rename_site f) calls1) calls2 ->
  harmless fx1 m1 (site_map calls1) -> harmless fx2 m2 (site_map calls2) ->
  prepare_lattice fx1 m1 calls1 = Done t1 ->
  prepare_lattice fx2 m2 calls2 = Done t2 ->
  let N := IndexSize t1 in
  let pi := index_perm t1 t2 f in
  let P := fock_sperm N pi in
  let dim := Nat.pow 2 N in
  forall p : list (Poly.monomial * K),
    poly_matrix K NO N (poly_ren K pi p) = pconj K NO P (poly_matrix K NO N p) /\
    pconj K NO P (poly_matrix K NO N p) =
      mmul K NO dim (mmul K NO dim (Pmat K NO P) (poly_matrix K NO N p)) (transpose K NO dim (Pmat K NO P)) /\
    mmul K NO dim (transpose K NO dim (Pmat K NO P)) (Pmat K NO P) = identity_matrix K NO dim.
Proof. exact IndexObsProofs.hamiltonian_matrix_relabel. Qed.
Print Assumptions hamiltonian_matrix_relabel.

(** any signed permutation Q of the basis, dim x dim matrices: the operator in the eigenbasis is literally the
    same list of rows, (P U)^+ (P O P^T) (P U) = U^+ O U *)
Theorem rotate_permuted :
  forall (K : Type) (NO : numops K),
  ring_theory (n0 K NO) (n1 K NO) (nadd K NO) (nmul K NO) (nsub K NO) (nopp K NO) (@eq K) ->
  forall Q : sperm, sperm_ok Q ->
  (forall x, nconj K NO (nopp K NO x) = nopp K NO (nconj K NO x)) ->
  forall U Om : EDSpec.mat K, wfm K (sp_dim Q) U -> wfm K (sp_dim Q) Om ->
  rotate K NO (sp_dim Q) (prow K NO Q U) (pconj K NO Q Om) = rotate K NO (sp_dim Q) U Om.
Proof. exact IndexObsProofs.rotate_permuted. Qed.
Print Assumptions rotate_permuted.

(** (E, U) exact eigen-system of H  =>  (E, P U) exact eigen-system of P H P^T *)
Theorem eigen_system_permuted :
  forall (K : Type) (NO : numops K),
  ring_theory (n0 K NO) (n1 K NO) (nadd K NO) (nmul K NO) (nsub K NO) (nopp K NO) (@eq K) ->
  forall Q : sperm, sperm_ok Q ->
  forall (H U : EDSpec.mat K) (E : EDSpec.vec K), wfm K (sp_dim Q) H -> wfm K (sp_dim Q) U ->
  eigen_system K NO (sp_dim Q) H U E -> eigen_system K NO (sp_dim Q) (pconj K NO Q H) (prow K NO Q U) E.
Proof. exact IndexObsProofs.eigen_system_permuted. Qed.
Print Assumptions eigen_system_permuted.

(** the certificate of the correspondence checks (EDSpec.residual_HU) is 0 on an exact eigen-system *)
Theorem residual_HU_zero :
  forall (K : Type) (NO : numops K),
  ring_theory (n0 K NO) (n1 K NO) (nadd K NO) (nmul K NO) (nsub K NO) (nopp K NO) (@eq K) ->
  forall (dim : nat) (H U : EDSpec.mat K) (E : EDSpec.vec K),
  length H = dim -> nabs K NO (n0 K NO) = n0 K NO -> eigen_system K NO dim H U E ->
  residual_HU K NO dim H U E = n0 K NO.
Proof. exact IndexObsProofs.residual_HU_zero. Qed.
Print Assumptions residual_HU_zero.

(** PARTIAL -- see the comment at the head of this part for the full statement and what is missing. *)
Theorem observables_relabel_partial :
  forall (K : Type) (NO : numops K),
  ring_theory (n0 K NO) (n1 K NO) (nadd K NO) (nmul K NO) (nsub K NO) (nopp K NO) (@eq K) ->
  (forall x, nconj K NO (nopp K NO x) = nopp K NO (nconj K NO x)) ->
  forall (fx1 m1 fx2 m2 : bool) (calls1 calls2 : list site) (f g : label -> label) (t1 t2 : table),
  NoDup (labels calls1) ->
  (forall l, In l (labels calls1) -> g (f l) = l) ->
  Permutation (map (rename_site f) calls1) calls2 ->
  harmless fx1 m1 (site_map calls1) -> harmless fx2 m2 (site_map calls2) ->
  prepare_lattice fx1 m1 calls1 = Done t1 ->
  prepare_lattice fx2 m2 calls2 = Done t2 ->
  let N := IndexSize t1 in
  let pi := index_perm t1 t2 f in
  let P := fock_sperm N pi in
  let dim := Nat.pow 2 N in
  forall (H : list (Poly.monomial * K)) (U : EDSpec.mat K) (E w : EDSpec.vec K),
  wfm K dim U ->
  let U' := prow K NO P U in
  let C u i := rotate K NO dim u (op_matrix K NO N (Fock.cann i)) in
  let CX u i := rotate K NO dim u (op_matrix K NO N (Fock.cdag i)) in
  (eigen_system K NO dim (poly_matrix K NO N H) U E ->
   eigen_system K NO dim (poly_matrix K NO N (poly_ren K pi H)) U' E) /\
  residual_unitary K NO dim U' = residual_unitary K NO dim U /\
  (forall i j z, gf K NO E w (C U' (pi i)) (CX U' (pi j)) z = gf K NO E w (C U i) (CX U j) z) /\
  (forall i j tau, gf_tau K NO E w (C U' (pi i)) (CX U' (pi j)) tau = gf_tau K NO E w (C U i) (CX U j) tau) /\
  (forall i j, trace_rho K NO w (quad K NO N U' (pi i) (pi j)) = trace_rho K NO w (quad K NO N U i j)) /\
  (forall beta tol a b c d z z0,
     susc K NO beta tol E w (quad K NO N U' (pi a) (pi b)) (quad K NO N U' (pi c) (pi d)) z z0 =
     susc K NO beta tol E w (quad K NO N U a b) (quad K NO N U c d) z z0) /\
  (forall beta tol i j k l z1 z2 z3,
     chi K NO beta tol E w (C U' (pi i)) (C U' (pi j)) (CX U' (pi k)) (CX U' (pi l)) z1 z2 z3 =
     chi K NO beta tol E w (C U i) (C U j) (CX U k) (CX U l) z1 z2 z3).
Proof. exact IndexObsProofs.observables_relabel_partial. Qed.
Print Assumptions observables_relabel_partial.

(** * prepare() called again on the same object (supported since 1fd1f00: "a repeated call starts from scratch")

    Model of the object state across calls: PV.IndexReprepare ([constructed] = the constructor's state,
    [prepare_on] = the three reset statements at the top of prepare followed by the body run on the members it finds,
    [prepare_history] = a sequence of calls on one object).  After any history of calls that return normally the
    object holds the table of a single prepare(m_last) on a fresh object -- hence every theorem above applies to it. *)
Theorem prepare_twice_is_last : forall (fixed m1 m2 : bool) (ss : list site),
  NoDup (labels ss) -> harmless fixed m1 ss ->
  IndexReprepare.prepare_history fixed (m1 :: m2 :: nil) ss IndexReprepare.constructed = prepare fixed m2 ss.
Proof. exact IndexReprepareProofs.prepare_twice_is_last. Qed.
Print Assumptions prepare_twice_is_last.

Theorem prepare_history_is_last : forall (fixed : bool) (ms : list bool) (m : bool) (ss : list site) (t0 : table),
  NoDup (labels ss) -> Forall (fun m' => harmless fixed m' ss) ms ->
  IndexReprepare.prepare_history fixed (ms ++ m :: nil) ss t0 = prepare fixed m ss.
Proof. exact IndexReprepareProofs.prepare_history_is_last. Qed.
Print Assumptions prepare_history_is_last.
