(** C09 about the SOURCE TEXT -- the statements of Properties_C09.v once more, about the definitions of PV.ThermalGen, which
    are the functions of the hand-written model PV.Thermal rebuilt around the expressions that translator/gen_thermal.py
    reads off the C++ on every run (coq/gen/Gen_ThermalWeight.v: the Boltzmann factor of
    DensityMatrixPart::computeUnnormalized; Gen_ThermalAverages.v: the summands of the three occupancy loops, with the
    index order of the eigenvector matrix; Gen_RetainEA.v: the two tests of EnsembleAverage::prepare).
    Statements only; proofs in PV.ThermalGenProofs: each generated expression is shown equal to the hand-written one by a
    closed computation, then the theorem of PV.ThermalProofs / PV.ThermalComplex is transported.  This file stops
    compiling when the source computes exp(-beta E) exp(beta E0), reads H(s,fi) for H(fi,s), drops the diagonal or the
    retention test -- whether or not a numeric run happens to notice.

    [..._src] : PV.ThermalGen.  [Rweight_src beta g e]: the right-hand side of `weights(s) = ...`. *)
Require Import Reals List Arith Bool.
From Coquelicot Require Import Complex.
From PV Require Import Outcome Thermal ThermalSpec ThermalProofs ThermalExamples ThermalTraces ThermalComplex ThermalGen ThermalGenProofs.
From PVgen Require Import Gen_ThermalWeight Gen_ThermalAverages Gen_RetainEA.
Import ListNotations.
Local Open Scope R_scope.

(** the five leaf agreements of C09 in one statement (R for RealType, C for the eigenvectors of the complex build) *)
Theorem source_thermal_leaves_are_model :
  (forall beta g e : R, Rweight_src beta g e = exp (- beta * (e - g))) /\
  (forall (M : nat) (W : nat -> R) (F : nat -> nat) (V : nat -> nat -> R) (s fi : nat),
     gen_occupancy_summand R 0 Rplus Rminus Rmult Rdiv Ropp exp Rabs Rltb INR (popcount M) Nat.testbit W F V s fi =
     W s * INR (popcount M (F fi)) * Rabs (V fi s * V fi s)) /\
  (forall (W : nat -> R) (F : nat -> nat) (V : nat -> nat -> R) (i s fi : nat),
     gen_occupancy_i_summand R 0 Rplus Rminus Rmult Rdiv Ropp exp Rabs Rltb INR (fun _ => 0%nat) Nat.testbit W F V i s fi =
     W s * INR (if Nat.testbit (F fi) i then 1 else 0) * Rabs (V fi s * V fi s)) /\
  (forall (W : nat -> R) (F : nat -> nat) (V : nat -> nat -> R) (i j s fi : nat),
     gen_double_occupancy_summand R 0 Rplus Rminus Rmult Rdiv Ropp exp Rabs Rltb INR (fun _ => 0%nat) Nat.testbit W F V i j s fi =
     W s * INR (if Nat.testbit (F fi) i then 1 else 0) * INR (if Nat.testbit (F fi) j then 1 else 0) * Rabs (V fi s * V fi s)) /\
  (forall (ret : nat -> bool) (Aleft Aright : nat),
     gen_ea_diagonal Aleft Aright = Nat.eqb Aleft Aright /\ gen_ea_retention ret Aleft Aright = ret Aleft).
Proof. exact ThermalGenProofs.source_thermal_leaves_are_model. Qed.
Print Assumptions source_thermal_leaves_are_model.

Theorem source_density_matrix_is_model : forall (beta : R) (H : list Rhpart), Rdm_compute_src beta H = Rdm_compute beta H.
Proof. exact ThermalGenProofs.source_density_matrix_is_model. Qed.
Print Assumptions source_density_matrix_is_model.

Theorem source_averages_are_model : forall (M i j : nat) (H : list Rhpart) (D : list Rdmpart),
  Rdm_average_occupancy_src M H D = Rdm_average_occupancy M H D /\
  Rdm_average_occupancy_i_src M i H D = Rdm_average_occupancy_i M i H D /\
  Rdm_average_double_occupancy_src M i j H D = Rdm_average_double_occupancy M i j H D.
Proof. exact ThermalGenProofs.source_averages_are_model. Qed.
Print Assumptions source_averages_are_model.

Theorem weights_closed_form_src : forall (beta : R) (H : list Rhpart) (D : list Rdmpart),
  Rdm_compute_src beta H = Done D ->
  exists g Z, Rground_energy H = Done g /\ 0 < Z /\ Z = Zsum beta g H /\ length D = length H /\
    forall a s, valid_state H a s -> weight_at D a s = exp (- beta * (energy_at H a s - g)) / Z.
Proof. exact ThermalGenProofs.weights_closed_form_src. Qed.
Print Assumptions weights_closed_form_src.

Theorem weights_nonneg_src : forall (beta : R) (H : list Rhpart) (D : list Rdmpart),
  Rdm_compute_src beta H = Done D -> forall a s, valid_state H a s -> 0 < weight_at D a s.
Proof. exact ThermalGenProofs.weights_nonneg_src. Qed.
Print Assumptions weights_nonneg_src.

Theorem weights_sum_one_src : forall (beta : R) (H : list Rhpart) (D : list Rdmpart),
  Rdm_compute_src beta H = Done D -> total_weight D = 1.
Proof. exact ThermalGenProofs.weights_sum_one_src. Qed.
Print Assumptions weights_sum_one_src.

Theorem partial_Z_is_block_sum_src : forall (beta : R) (H : list Rhpart) (D : list Rdmpart),
  Rdm_compute_src beta H = Done D ->
  (forall dp, In dp D -> dp_zpart R dp = lsum (fun w => w) (dp_weights R dp)) /\ lsum (dp_zpart R) D = 1.
Proof. exact ThermalGenProofs.partial_Z_is_block_sum_src. Qed.
Print Assumptions partial_Z_is_block_sum_src.

Theorem weights_ratio_src : forall (beta : R) (H : list Rhpart) (D : list Rdmpart),
  Rdm_compute_src beta H = Done D ->
  forall a s b t, valid_state H a s -> valid_state H b t ->
    weight_at D a s / weight_at D b t = exp (- beta * (energy_at H a s - energy_at H b t)).
Proof. exact ThermalGenProofs.weights_ratio_src. Qed.
Print Assumptions weights_ratio_src.

Theorem unnormalised_in_unit_interval_src : forall (beta : R) (H : list Rhpart) (g : R),
  0 <= beta -> Rground_energy H = Done g ->
  forall hp e, In hp H -> In e (hp_eig R hp) -> 0 < Rweight_src beta g e <= 1.
Proof. exact ThermalGenProofs.unnormalised_in_unit_interval_src. Qed.
Print Assumptions unnormalised_in_unit_interval_src.

Theorem Z_ge_one_src : forall (beta : R) (H : list Rhpart) (g : R),
  0 <= beta -> Rground_energy H = Done g ->
  1 <= Rdm_Z (Rdm_unnormalized_src beta g H) <= INR (total_states H).
Proof. exact ThermalGenProofs.Z_ge_one_src. Qed.
Print Assumptions Z_ge_one_src.

Theorem weights_le_one_src : forall (beta : R) (H : list Rhpart) (D : list Rdmpart),
  Rdm_compute_src beta H = Done D -> forall dp w, In dp D -> In w (dp_weights R dp) -> w <= 1.
Proof. exact ThermalGenProofs.weights_le_one_src. Qed.
Print Assumptions weights_le_one_src.

Theorem weights_offset_invariant_src : forall (beta c : R) (H : list Rhpart) (D : list Rdmpart),
  Rdm_compute_src beta H = Done D -> Rdm_compute_src beta (map (shift_hpart c) H) = Done D.
Proof. exact ThermalGenProofs.weights_offset_invariant_src. Qed.
Print Assumptions weights_offset_invariant_src.

Theorem occupancy_is_trace_src : forall (fock : list nat) (H : list Rhpart) (D : list Rdmpart),
  NoDup fock -> (forall hp, In hp H -> wf_hpart hp) -> (forall hp, In hp H -> incl (hp_states R hp) fock) ->
  forall M i : nat, (i < M)%nat ->
  Rdm_average_occupancy_i_src M i H D = Done (trace_rho_op fock H D (op_n i)).
Proof. exact ThermalGenProofs.occupancy_is_trace_src. Qed.
Print Assumptions occupancy_is_trace_src.

Theorem total_occupancy_is_trace_src : forall (fock : list nat) (H : list Rhpart) (D : list Rdmpart),
  NoDup fock -> (forall hp, In hp H -> wf_hpart hp) -> (forall hp, In hp H -> incl (hp_states R hp) fock) ->
  forall M : nat, Rdm_average_occupancy_src M H D = trace_rho_op fock H D (op_N M).
Proof. exact ThermalGenProofs.total_occupancy_is_trace_src. Qed.
Print Assumptions total_occupancy_is_trace_src.

Theorem double_occ_is_trace_src : forall (fock : list nat) (H : list Rhpart) (D : list Rdmpart),
  NoDup fock -> (forall hp, In hp H -> wf_hpart hp) -> (forall hp, In hp H -> incl (hp_states R hp) fock) ->
  forall M i j : nat, (i < M)%nat -> (j < M)%nat ->
  Rdm_average_double_occupancy_src M i j H D = Done (trace_rho_op fock H D (op_nn i j)).
Proof. exact ThermalGenProofs.double_occ_is_trace_src. Qed.
Print Assumptions double_occ_is_trace_src.

Theorem ensemble_average_is_trace_src : forall (fock : list nat) (H : list Rhpart) (D : list Rdmpart),
  length D = length H ->
  (forall hd, In hd (combine H D) -> length (dp_weights R (snd hd)) = hp_size R (fst hd)) ->
  forall (A : fieldop R) (O : nat -> nat -> R),
  NoDup (map (op_left R) A) ->
  (forall p, In p A -> (op_left R p < length H)%nat) ->
  (forall p, In p A -> op_left R p = op_right R p ->
     length (op_mat R p) = hp_size R (nth (op_left R p) H dummy_hp) /\
     forall n, (n < hp_size R (nth (op_left R p) H dummy_hp))%nat ->
       coeff R 0 (op_mat R p) n n = expect fock O (nth (op_left R p) H dummy_hp) n) ->
  (forall b, (b < length H)%nat -> (forall p, In p A -> op_left R p = op_right R p -> op_left R p <> b) ->
     forall s, (s < hp_size R (nth b H dummy_hp))%nat -> expect fock O (nth b H dummy_hp) s = 0) ->
  (forall b, (b < length D)%nat -> Ris_retained D b = true) ->
  Rea_prepare_src A D = Done (trace_rho_op fock H D O).
Proof. exact ThermalGenProofs.ensemble_average_is_trace_src. Qed.
Print Assumptions ensemble_average_is_trace_src.

Theorem occupancy_is_trace_complex_src : forall (fock : list nat) (H : list Chpart) (D : list Cdmpart),
  NoDup fock -> (forall hp, In hp H -> wf_hpartK C hp) -> (forall hp, In hp H -> incl (hp_states C hp) fock) ->
  forall M i : nat, (i < M)%nat ->
  Cdm_average_occupancy_i_src M i H D = Done (Ctrace_rho_op fock H D (Cdiag_op (fun f => Cb2 (Nat.testbit f i)))).
Proof. exact ThermalGenProofs.occupancy_is_trace_complex_src. Qed.
Print Assumptions occupancy_is_trace_complex_src.

Theorem total_occupancy_is_trace_complex_src : forall (fock : list nat) (H : list Chpart) (D : list Cdmpart),
  NoDup fock -> (forall hp, In hp H -> wf_hpartK C hp) -> (forall hp, In hp H -> incl (hp_states C hp) fock) ->
  forall M : nat,
  Cdm_average_occupancy_src M H D = Ctrace_rho_op fock H D (Cdiag_op (fun f => CofNat (popcount M f))).
Proof. exact ThermalGenProofs.total_occupancy_is_trace_complex_src. Qed.
Print Assumptions total_occupancy_is_trace_complex_src.

Theorem double_occ_is_trace_complex_src : forall (fock : list nat) (H : list Chpart) (D : list Cdmpart),
  NoDup fock -> (forall hp, In hp H -> wf_hpartK C hp) -> (forall hp, In hp H -> incl (hp_states C hp) fock) ->
  forall M i j : nat, (i < M)%nat -> (j < M)%nat ->
  Cdm_average_double_occupancy_src M i j H D =
  Done (Ctrace_rho_op fock H D (Cdiag_op (fun f => Cmult (Cb2 (Nat.testbit f i)) (Cb2 (Nat.testbit f j))))).
Proof. exact ThermalGenProofs.double_occ_is_trace_complex_src. Qed.
Print Assumptions double_occ_is_trace_complex_src.
