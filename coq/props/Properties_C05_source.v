(** C05 about the SOURCE TEXT -- the statements of Properties_C05.v once more, about the definitions of PV.PolyGen, which are
    the functions of the hand-written model PV.Poly / PV.Fock rebuilt around what translator/gen_operator.py reads off
    include/pomerol/Operator.h, src/pomerol/Operator.cpp, include/pomerol/OperatorPresets.h, src/pomerol/OperatorPresets.cpp on
    every run (coq/gen/Gen_Op*.v, Gen_Preset*.v, Gen_N*.v, Gen_Sz*.v: one file per C++ function).
    Statements only; proofs in PV.PolyGenProofs: each generated piece is shown equal to what the model assumes by a closed
    computation, the interpreters of the generated statement lists are shown equal to Poly.normalize_and_insert / Fock.act_mono,
    then the theorems of PV.NormalizeProofs / PV.AlgebraBasics / PV.AlgebraProofs / PV.CAR are transported.  This file stops
    compiling when the scratch monomial of normalize_and_insert is hoisted out of the loop, operator== loses its size test,
    a shortcut computes another expression, actRight scans another range, a preset class gains a shortcut -- whether or not a
    differential run happens to notice.

    [ksmall n x] stands for std::abs(x) < n * epsilon(); the hypothesis [ring_ok .. (ksmall 100)] says that this test at n = 100
    is the exact zero test of a commutative ring (small dyadic coefficients; see checks/C05.py). *)
Require Import String.
Require Import Bool List Arith ZArith Ring_theory.
From PV Require Import Outcome Fock Poly PolySem PolyShapes AlgebraBasics PolyGen PolyGenProofs.
From PVgen Require Import Gen_OpClass Gen_OpMonoLess Gen_OpEraseZero Gen_OpNormalize Gen_OpEntryEq Gen_OpEq
                          Gen_OpAddAssign Gen_OpSubAssign Gen_OpMulAssign Gen_OpNeg Gen_OpScale Gen_OpAddConst Gen_OpSubConst
                          Gen_OpCommutator Gen_OpAntiCommutator Gen_OpCommutes Gen_OpIsEmpty
                          Gen_OpActMono Gen_OpActPoly Gen_OpMatrixElement
                          Gen_PresetC Gen_PresetCdag Gen_PresetN1 Gen_PresetNoffdiag Gen_PresetClasses
                          Gen_NCtor Gen_NActRight Gen_NMelem2 Gen_NMelem1
                          Gen_SzCtorModes Gen_SzCtorLists Gen_SzTerms Gen_SzMelem1 Gen_SzMelem2 Gen_SzActRight.
Import ListNotations.


(** * 1. What the source text says (one lemma per generated file or group of files): closed computations *)

(** enum op_type {creation, annihilation}; composite_index_t = tuple<op_type, ParticleIndex>; the boost operator bases *)
Theorem gen_class_is_model :
  gen_code_creation = 0 /\
  gen_code_annihilation = 1 /\
  gen_index_fields = ["op_type"%string; "ParticleIndex"%string] /\
  gen_create_annihilate = 0 /\
  gen_operator_bases =
  ["addable"%string; "subtractable"%string; "multipliable"%string; "addable2"%string; "subtractable2"%string;
   "multipliable2"%string].
Proof. exact PolyGenProofs.gen_class_is_model. Qed.
Print Assumptions gen_class_is_model.

Theorem op_compare_src_is_model :
  forall a b : op, op_compare_src a b = op_compare a b.
Proof. exact PolyGenProofs.op_compare_src_is_model. Qed.
Print Assumptions op_compare_src_is_model.

Theorem flip_src_is_model :
  forall o : op, flip_src o = flip_type o.
Proof. exact PolyGenProofs.flip_src_is_model. Qed.
Print Assumptions flip_src_is_model.

Theorem gen_mono_less_is_model :
  forall (s1 s2 : nat) (l12 l21 : bool), gen_mono_less s1 s2 l12 l21 = (if negb (s1 =? s2) then s1 <? s2 else l12).
Proof. exact PolyGenProofs.gen_mono_less_is_model. Qed.
Print Assumptions gen_mono_less_is_model.

Theorem mono_less_src_is_model :
  forall a b : monomial, mono_less_src a b = match mono_compare a b with
                                             | Lt => true
                                             | _ => false
                                             end.
Proof. exact PolyGenProofs.mono_less_src_is_model. Qed.
Print Assumptions mono_less_src_is_model.

Theorem gen_erase_is_model :
  forall (K : Type) (ksmall : nat -> K -> bool) (c : K), gen_erase_test K ksmall c = ksmall 100 c.
Proof. exact PolyGenProofs.gen_erase_is_model. Qed.
Print Assumptions gen_erase_is_model.

Theorem gen_insert_shapes_are_model :
  gen_norm_insert = {| ins_new := InsCoeff; ins_upd := InsPlus; ins_erase := true |} /\
  gen_add_assign_ins = {| ins_new := InsCoeff; ins_upd := InsPlus; ins_erase := true |} /\
  gen_add_assign_over_rhs = true /\
  gen_sub_assign_ins = {| ins_new := InsNegCoeff; ins_upd := InsMinus; ins_erase := true |} /\
  gen_sub_assign_over_rhs = true /\
  gen_add_const_ins = {| ins_new := InsCoeff; ins_upd := InsPlus; ins_erase := true |} /\
  gen_add_const_key = [] /\
  gen_sub_const_ins = {| ins_new := InsNegCoeff; ins_upd := InsMinus; ins_erase := true |} /\ gen_sub_const_key = [].
Proof. exact PolyGenProofs.gen_insert_shapes_are_model. Qed.
Print Assumptions gen_insert_shapes_are_model.

(** normalize_and_insert: guard, nothing in front of `do` (the scratch monomial lives inside the contraction branch), per pass
    is_swapped = false, n = 1 .. size-1, the body statement by statement, while (is_swapped), the final insert *)
Theorem gen_norm_is_model :
  gen_norm_guard = (fun size : nat => 2 <=? size) /\
  gen_norm_call_pre = [] /\
  gen_norm_pass_pre = [NsSetSwapped false] /\
  gen_norm_for_first = (fun _ : nat => 1) /\
  gen_norm_for_cond = (fun n size : nat => n <? size) /\
  gen_norm_body =
    [NsIf (NcEq (OpdAt (fun n _ => n - 1)) (OpdAt (fun n _ => n))) [NsReturn] [];
     NsIf (NcGt (OpdAt (fun n _ => n - 1)) (OpdAt (fun n _ => n)))
       [NsIf (NcEq (OpdAt (fun n _ => n - 1)) (OpdFlipped (OpdAt (fun n _ => n))))
          [NsScratchNew; NsScratchCopy (fun _ _ => 0) (fun n _ => n - 1); NsScratchCopy (fun n _ => n + 1) (fun _ size => size);
           NsRecurse] [];
        NsNegate; NsSwap (fun n _ => n - 1) (fun n _ => n); NsSetSwapped true] []] /\
  gen_norm_again = (fun swapped : bool => swapped) /\
  gen_norm_insert = {| ins_new := InsCoeff; ins_upd := InsPlus; ins_erase := true |}.
Proof. exact PolyGenProofs.gen_norm_is_model. Qed.
Print Assumptions gen_norm_is_model.

(** unary minus, scalar multiple, the loops of operator*=, getCommutator / getAntiCommutator / commutes (no fast path), isEmpty *)
Theorem gen_algebra_is_model :
  (forall (K : Type) (kopp : K -> K) (c : K), gen_neg_coeff K kopp c = kopp c) /\
  (forall (K : Type) (ksmall : nat -> K -> bool) (alpha : K), gen_scale_clear K ksmall alpha = ksmall 100 alpha) /\
  (forall (K : Type) (kmul : K -> K -> K) (c alpha : K), gen_scale_coeff K kmul c alpha = kmul c alpha) /\
  gen_mul_loops = (MoThis, MoRhs) /\
  (forall outer inner : monomial, gen_mul_monomial outer inner = outer ++ inner) /\
  (forall (K : Type) (kmul : K -> K -> K) (kopp : K -> K) (co ci : K), gen_mul_coeff K kmul kopp co ci = kmul co ci) /\
  (forall (P : Type) (mul add sub : P -> P -> P) (neg : P -> P) (this rhs : P),
   gen_commutator P mul add sub neg this rhs = sub (mul this rhs) (mul rhs this) /\
   gen_anticommutator P mul add sub neg this rhs = add (mul this rhs) (mul rhs this)) /\
  (forall (P : Type) (mul add sub : P -> P -> P) (neg : P -> P) (B : Type) (eq0 : P -> P -> B) (this rhs : P),
   gen_commutes P mul add sub neg B eq0 this rhs = eq0 (mul this rhs) (mul rhs this)) /\
  (forall size : nat, gen_is_empty size = (size =? 0)).
Proof. exact PolyGenProofs.gen_algebra_is_model. Qed.
Print Assumptions gen_algebra_is_model.

(** operator== on entries and on Operators: size test first, then element-wise over the LEFT range, tolerance 100 eps *)
Theorem gen_equality_is_model :
  (forall (K B : Type) (band bor : B -> B -> B) (bnot : B -> B) (ksub : K -> K -> K) (size_eq : B)
     (walk : bool -> bool -> B) (walk_rl : B) (close : nat -> K -> B) (cl cr : K),
   gen_entry_eq K B band bor bnot ksub size_eq walk walk_rl close cl cr =
   band (band size_eq (walk true false)) (close 100 (ksub cr cl))) /\
  (forall (B : Type) (band bor : B -> B -> B) (bnot : B -> B) (size_eq : B) (walk : bool -> bool -> B) (walk_rl : B),
   gen_poly_eq B band bor bnot size_eq walk walk_rl = band size_eq (walk true false)).
Proof. exact PolyGenProofs.gen_equality_is_model. Qed.
Print Assumptions gen_equality_is_model.

(** actRight(monomial, ket): last operator first, Pauli test, sign from the occupied modes j < ind, bra[ind] = (op == creation) *)
Theorem gen_act_is_model :
  gen_act_empty_shortcut = true /\
  gen_act_prev_init = 0 /\
  gen_act_sign_vars = 1 /\
  (forall N : nat, gen_act_order N = rev (seq 0 N)) /\ gen_act_body =
    [AsIf (AbOr (AbAnd AbIsCreation (AbBit ApInd)) (AbAnd AbIsAnnihilation (AbNot (AbBit ApInd)))) [AsReturnZero] [];
     AsIf (AbPosLt ApPrev ApInd) [AsScanUp 0 ApPrev ApInd] [AsScanDown 0 ApPrev ApInd];
     AsSetBit ApInd AbIsCreation] /\ gen_act_result_var = 0.
Proof. exact PolyGenProofs.gen_act_is_model. Qed.
Print Assumptions gen_act_is_model.

Theorem gen_actpoly_is_model :
  (forall n : nat, gen_actpoly_range n = seq 0 n) /\
  (forall (K : Type) (ksmall kbig : nat -> K -> bool) (valid : bool) (melem : K),
   gen_actpoly_guard K ksmall kbig valid melem = valid && kbig 1 melem) /\
  (forall (K : Type) (kmul : K -> K -> K) (melem coeff : K), gen_actpoly_term K kmul melem coeff = kmul melem coeff) /\
  (forall (K : Type) (ksmall kbig : nat -> K -> bool) (c : K), gen_actpoly_drop K ksmall kbig c = ksmall 1 c) /\
  (forall (K : Type) (zero : K) (found : option K),
   gen_matrix_element K zero found = match found with
                                     | Some v => v
                                     | None => zero
                                     end).
Proof. exact PolyGenProofs.gen_actpoly_is_model. Qed.
Print Assumptions gen_actpoly_is_model.

Theorem gen_factories_are_model :
  forall (K : Type) (k1 : K) (i j : nat),
  gen_c K k1 i = p_c K k1 i /\
  gen_c_dag K k1 i = p_cdag K k1 i /\ gen_n K k1 i = p_n K k1 i /\ gen_n_offdiag K k1 i j = p_n_offdiag K k1 i j.
Proof. exact PolyGenProofs.gen_factories_are_model. Qed.
Print Assumptions gen_factories_are_model.

(** only N and Sz carry shortcuts; Cdag, C, N_offdiag are the generic Operator of their factory *)
Theorem gen_preset_classes_are_model :
  gen_preset_overrides =
  [("N"%string, ["actRight"%string; "getMatrixElement"%string; "getMatrixElement"%string]);
   ("Sz"%string, ["generateTerms"%string; "actRight"%string; "getMatrixElement"%string; "getMatrixElement"%string]);
   ("Cdag"%string, []); ("C"%string, []); ("N_offdiag"%string, [])] /\
  gen_preset_wraps = [("Cdag"%string, "c_dag"%string); ("C"%string, "c"%string); ("N_offdiag"%string, "n_offdiag"%string)].
Proof. exact PolyGenProofs.gen_preset_classes_are_model. Qed.
Print Assumptions gen_preset_classes_are_model.

Theorem gen_N_is_model :
  (forall M : nat, gen_N_range M = seq 0 M) /\
  (forall (P K : Type) (add sub : P -> P -> P) (scale : P -> K -> P) (n : nat -> P) (khalf : K) (acc : P) (index : nat),
   gen_N_step P K add sub scale n khalf acc index = add acc (n index)) /\
  (forall popcount : nat, gen_N_melem1 popcount = popcount) /\
  (forall (S K : Type) (zero : K) (same : S -> S -> bool) (melem1 : S -> K) (bra ket : S),
   gen_N_melem2 S K zero same melem1 bra ket = (if negb (same bra ket) then zero else melem1 ket)) /\
  (forall (S K : Type) (melem1 : S -> K) (ket : S), gen_N_act_right S K melem1 ket = [(ket, melem1 ket)]).
Proof. exact PolyGenProofs.gen_N_is_model. Qed.
Print Assumptions gen_N_is_model.

Theorem gen_Sz_is_model :
  (forall M : nat, gen_Sz_down_range M = seq 0 M) /\
  (forall (is_up : nat -> bool) (i : nat), gen_Sz_down_keep is_up i = negb (is_up i)) /\
  (forall n_up n_down : nat,
   gen_Sz_modes_throws n_up n_down = negb (n_up =? n_down) /\ gen_Sz_lists_throws n_up n_down = negb (n_up =? n_down)) /\
  (forall n_up n_down : nat, gen_Sz_terms_range n_up n_down = seq 0 n_up) /\
  (forall (P K : Type) (add sub : P -> P -> P) (scale : P -> K -> P) (n : nat -> P) (khalf : K) 
     (up down : nat -> nat) (acc : P) (i : nat),
   gen_Sz_terms_step P K add sub scale n khalf up down acc i =
   sub (add acc (scale (n (up i)) khalf)) (scale (n (down i)) khalf)) /\
  (forall (K : Type) (kadd ksub kmul : K -> K -> K) (kopp : K -> K) (khalf : K) (kofnat : nat -> K)
     (count_up count_down popcount : nat),
   gen_Sz_melem1 K kadd ksub kmul kopp khalf kofnat count_up count_down popcount =
   kmul khalf (ksub (kofnat count_up) (kofnat count_down))) /\
  (forall (S K : Type) (zero : K) (same : S -> S -> bool) (melem1 : S -> K) (bra ket : S),
   gen_Sz_melem2 S K zero same melem1 bra ket = (if negb (same bra ket) then zero else melem1 ket)) /\
  (forall (S K : Type) (melem1 : S -> K) (ket : S), gen_Sz_act_right S K melem1 ket = [(ket, melem1 ket)]).
Proof. exact PolyGenProofs.gen_Sz_is_model. Qed.
Print Assumptions gen_Sz_is_model.


(** * 2. The functions rebuilt from the source text ARE the hand-written model (kzero := |c| < 100 eps) *)

Theorem insert_src_add_is_model :
  forall (K : Type) (kadd ksub : K -> K -> K) (kopp : K -> K) (ksmall : nat -> K -> bool) (m : monomial) 
    (c : K) (p : poly K),
  insert_src K kadd ksub kopp ksmall {| ins_new := InsCoeff; ins_upd := InsPlus; ins_erase := true |} m c p =
  insert K kadd (ksmall 100) m c p.
Proof. exact PolyGenProofs.insert_src_add_is_model. Qed.
Print Assumptions insert_src_add_is_model.

Theorem insert_src_sub_is_model :
  forall (K : Type) (kadd ksub : K -> K -> K) (kopp : K -> K) (ksmall : nat -> K -> bool) (m : monomial) 
    (c : K) (p : poly K),
  insert_src K kadd ksub kopp ksmall {| ins_new := InsNegCoeff; ins_upd := InsMinus; ins_erase := true |} m c p =
  insert_sub K ksub kopp (ksmall 100) m c p.
Proof. exact PolyGenProofs.insert_src_sub_is_model. Qed.
Print Assumptions insert_src_sub_is_model.

(** the interpreter of the generated statement lists is Poly.normalize_and_insert, fuel for fuel *)
Theorem nai_src_is_model :
  forall (K : Type) (kadd ksub : K -> K -> K) (kopp : K -> K) (ksmall : nat -> K -> bool) (fuel : nat),
  (forall (m : monomial) (c : K) (tgt : poly K),
   nai_src K kadd ksub kopp ksmall fuel true (init_ns K m c tgt) =
   normalize_and_insert K kadd kopp (ksmall 100) fuel m c tgt) /\
  (forall s : nstate K,
   nai_src K kadd ksub kopp ksmall fuel false s =
   normalize_and_insert K kadd kopp (ksmall 100) fuel (ns_m K s) (ns_c K s) (ns_tgt K s)).
Proof. exact PolyGenProofs.nai_src_is_model. Qed.
Print Assumptions nai_src_is_model.

Theorem normalize_src_is_model :
  forall (K : Type) (kadd ksub : K -> K -> K) (kopp : K -> K) (ksmall : nat -> K -> bool) (m : monomial) 
    (c : K) (tgt : poly K), normalize_src K kadd ksub kopp ksmall m c tgt = normalize K kadd kopp (ksmall 100) m c tgt.
Proof. exact PolyGenProofs.normalize_src_is_model. Qed.
Print Assumptions normalize_src_is_model.

Theorem padd_src_is_model :
  forall (K : Type) (kadd ksub : K -> K -> K) (kopp : K -> K) (ksmall : nat -> K -> bool) (a b : poly K),
  padd_src K kadd ksub kopp ksmall a b = padd K kadd (ksmall 100) a b.
Proof. exact PolyGenProofs.padd_src_is_model. Qed.
Print Assumptions padd_src_is_model.

Theorem psub_src_is_model :
  forall (K : Type) (kadd ksub : K -> K -> K) (kopp : K -> K) (ksmall : nat -> K -> bool) (a b : poly K),
  psub_src K kadd ksub kopp ksmall a b = psub K ksub kopp (ksmall 100) a b.
Proof. exact PolyGenProofs.psub_src_is_model. Qed.
Print Assumptions psub_src_is_model.

(** operator-= has the guard for an operand that is the object itself (`S -= S`: without it the loop erases the entry it visits) *)
Theorem gen_sub_alias_guard_is_model : gen_sub_assign_alias_guard = true.
Proof. exact PolyGenProofs.gen_sub_alias_guard_is_model. Qed.
Print Assumptions gen_sub_alias_guard_is_model.

(** [psub_assign_src aliased a b]: operator-= as generated, [aliased] = the outcome of the test &op == this *)
Theorem psub_assign_src_distinct :
  forall (K : Type) (kadd ksub : K -> K -> K) (kopp : K -> K) (ksmall : nat -> K -> bool) (a b : poly K),
  psub_assign_src K kadd ksub kopp ksmall false a b = psub K ksub kopp (ksmall 100) a b.
Proof. exact PolyGenProofs.psub_assign_src_distinct. Qed.
Print Assumptions psub_assign_src_distinct.

Theorem psub_assign_src_aliased :
  forall (K : Type) (kadd ksub : K -> K -> K) (kopp : K -> K) (ksmall : nat -> K -> bool) (a b : poly K),
  psub_assign_src K kadd ksub kopp ksmall true a b = [].
Proof. exact PolyGenProofs.psub_assign_src_aliased. Qed.
Print Assumptions psub_assign_src_aliased.

Theorem pneg_src_is_model :
  forall (K : Type) (kopp : K -> K) (a : poly K), pneg_src K kopp a = pneg K kopp a.
Proof. exact PolyGenProofs.pneg_src_is_model. Qed.
Print Assumptions pneg_src_is_model.

Theorem pscale_src_is_model :
  forall (K : Type) (kmul : K -> K -> K) (ksmall : nat -> K -> bool) (alpha : K) (a : poly K),
  pscale_src K kmul ksmall alpha a = pscale K kmul (ksmall 100) alpha a.
Proof. exact PolyGenProofs.pscale_src_is_model. Qed.
Print Assumptions pscale_src_is_model.

Theorem padd_const_src_is_model :
  forall (K : Type) (kadd ksub : K -> K -> K) (kopp : K -> K) (ksmall : nat -> K -> bool) (alpha : K) (a : poly K),
  padd_const_src K kadd ksub kopp ksmall alpha a = padd_const K kadd (ksmall 100) alpha a.
Proof. exact PolyGenProofs.padd_const_src_is_model. Qed.
Print Assumptions padd_const_src_is_model.

Theorem psub_const_src_is_model :
  forall (K : Type) (kadd ksub : K -> K -> K) (kopp : K -> K) (ksmall : nat -> K -> bool) (alpha : K) (a : poly K),
  psub_const_src K kadd ksub kopp ksmall alpha a = psub_const K ksub kopp (ksmall 100) alpha a.
Proof. exact PolyGenProofs.psub_const_src_is_model. Qed.
Print Assumptions psub_const_src_is_model.

Theorem pmul_src_is_model :
  forall (K : Type) (kadd kmul ksub : K -> K -> K) (kopp : K -> K) (ksmall : nat -> K -> bool) (a b : poly K),
  pmul_src K kadd kmul ksub kopp ksmall a b = pmul K kadd kmul kopp (ksmall 100) a b.
Proof. exact PolyGenProofs.pmul_src_is_model. Qed.
Print Assumptions pmul_src_is_model.

Theorem commutator_src_is_model :
  forall (K : Type) (kadd kmul ksub : K -> K -> K) (kopp : K -> K) (ksmall : nat -> K -> bool) (a b : poly K),
  commutator_src K kadd kmul ksub kopp ksmall a b = commutator K kadd kmul ksub kopp (ksmall 100) a b.
Proof. exact PolyGenProofs.commutator_src_is_model. Qed.
Print Assumptions commutator_src_is_model.

Theorem anticommutator_src_is_model :
  forall (K : Type) (kadd kmul ksub : K -> K -> K) (kopp : K -> K) (ksmall : nat -> K -> bool) (a b : poly K),
  anticommutator_src K kadd kmul ksub kopp ksmall a b = anticommutator K kadd kmul kopp (ksmall 100) a b.
Proof. exact PolyGenProofs.anticommutator_src_is_model. Qed.
Print Assumptions anticommutator_src_is_model.

Theorem entry_eq_src_is_model :
  forall (K : Type) (ksub : K -> K -> K) (ksmall : nat -> K -> bool) (l r : monomial * K),
  entry_eq_src K ksub ksmall l r = entry_eq K ksub (ksmall 100) true l r.
Proof. exact PolyGenProofs.entry_eq_src_is_model. Qed.
Print Assumptions entry_eq_src_is_model.

Theorem poly_eq_src_is_model :
  forall (K : Type) (ksub : K -> K -> K) (ksmall : nat -> K -> bool) (a b : poly K),
  poly_eq_src K ksub ksmall a b = poly_eq K ksub (ksmall 100) true a b.
Proof. exact PolyGenProofs.poly_eq_src_is_model. Qed.
Print Assumptions poly_eq_src_is_model.

Theorem commutes_src_is_model :
  forall (K : Type) (kadd kmul ksub : K -> K -> K) (kopp : K -> K) (ksmall : nat -> K -> bool) (a b : poly K),
  commutes_src K kadd kmul ksub kopp ksmall a b = commutes K kadd kmul ksub kopp (ksmall 100) true a b.
Proof. exact PolyGenProofs.commutes_src_is_model. Qed.
Print Assumptions commutes_src_is_model.

Theorem is_empty_src_is_model :
  forall (K : Type) (a : poly K), is_empty_src K a = true <-> a = [].
Proof. exact PolyGenProofs.is_empty_src_is_model. Qed.
Print Assumptions is_empty_src_is_model.

Theorem p_N_src_is_model :
  forall (K : Type) (k1 : K) (kadd kmul ksub : K -> K -> K) (kopp : K -> K) (ksmall : nat -> K -> bool) 
    (khalf : K) (M : nat), p_N_src K k1 kadd kmul ksub kopp ksmall khalf M = p_N K k1 kadd (ksmall 100) M.
Proof. exact PolyGenProofs.p_N_src_is_model. Qed.
Print Assumptions p_N_src_is_model.

Theorem p_Sz_lists_src_is_model :
  forall (K : Type) (k1 : K) (kadd kmul ksub : K -> K -> K) (kopp : K -> K) (ksmall : nat -> K -> bool) 
    (khalf : K) (ups downs : list nat),
  p_Sz_lists_src K k1 kadd kmul ksub kopp ksmall khalf ups downs =
  p_Sz_lists K k1 kadd kmul ksub kopp (ksmall 100) khalf ups downs.
Proof. exact PolyGenProofs.p_Sz_lists_src_is_model. Qed.
Print Assumptions p_Sz_lists_src_is_model.

Theorem p_Sz_src_is_model :
  forall (K : Type) (k1 : K) (kadd kmul ksub : K -> K -> K) (kopp : K -> K) (ksmall : nat -> K -> bool) 
    (khalf : K) (M : nat) (ups : list nat),
  p_Sz_src K k1 kadd kmul ksub kopp ksmall khalf M ups = p_Sz K k1 kadd kmul ksub kopp (ksmall 100) khalf M ups.
Proof. exact PolyGenProofs.p_Sz_src_is_model. Qed.
Print Assumptions p_Sz_src_is_model.

(** the interpreter of the generated loop body of actRight is Fock.act_mono (the Jordan-Wigner action of the specification) *)
Theorem act_mono_src_is_model :
  forall (m : monomial) (ket : state), act_mono_src m ket = act_mono m ket.
Proof. exact PolyGenProofs.act_mono_src_is_model. Qed.
Print Assumptions act_mono_src_is_model.

(** Operator::actRight(ket) is Poly.act_poly followed by dropping the entries below epsilon *)
Theorem act_poly_src_is_model :
  forall (K : Type) (k0 k1 : K) (kadd kmul ksub : K -> K -> K) (kopp : K -> K) (ksmall kbig : nat -> K -> bool),
  ring_ok K k0 k1 kadd kmul ksub kopp (ksmall 100) ->
  kbig 1 k1 = true ->
  kbig 1 (kopp k1) = true ->
  forall (p : poly K) (ket : state),
  act_poly_src K k0 k1 kadd kmul kopp ksmall kbig p ket =
  bind (act_poly K kadd kopp p ket)
    (fun l : list (state * K) => Done (filter (fun e : state * K => negb (ksmall 1 (snd e))) l)).
Proof. exact PolyGenProofs.act_poly_src_is_model. Qed.
Print Assumptions act_poly_src_is_model.


(** * 3. The theorems of Properties_C05.v about the definitions rebuilt from the source text *)

Theorem anticommute_distinct_src :
  forall (a b : op) (s : state),
  op_idx a <> op_idx b ->
  op_idx a < Datatypes.length s ->
  op_idx b < Datatypes.length s ->
  exists r : option (bool * state),
    act_mono_src [a; b] s = Done r /\
    act_mono_src [b; a] s = Done match r with
                                 | Some (sg, u) => Some (negb sg, u)
                                 | None => None
                                 end.
Proof. exact PolyGenProofs.anticommute_distinct_src. Qed.
Print Assumptions anticommute_distinct_src.

Theorem same_op_twice_src :
  forall (o : op) (s : state), op_idx o < Datatypes.length s -> act_mono_src [o; o] s = Done None.
Proof. exact PolyGenProofs.same_op_twice_src. Qed.
Print Assumptions same_op_twice_src.

Theorem car_same_index_src :
  forall (i : nat) (s : state),
  i < Datatypes.length s ->
  act_mono_src [cann i; cdag i] s = Done (Some (false, s)) /\ act_mono_src [cdag i; cann i] s = Done None \/
  act_mono_src [cann i; cdag i] s = Done None /\ act_mono_src [cdag i; cann i] s = Done (Some (false, s)).
Proof. exact PolyGenProofs.car_same_index_src. Qed.
Print Assumptions car_same_index_src.

(** normalize_and_insert adds exactly c * (Jordan-Wigner matrix of the raw monomial) to the target *)
Theorem normalize_sound_src :
  forall (K : Type) (k0 k1 : K) (kadd kmul ksub : K -> K -> K) (kopp : K -> K) (ksmall : nat -> K -> bool),
  ring_ok K k0 k1 kadd kmul ksub kopp (ksmall 100) ->
  forall (M : nat) (m : monomial) (c : K) (tgt tgt' : poly K) (s t : state),
  mono_in_range M m ->
  Datatypes.length s = M ->
  normalize_src K kadd ksub kopp ksmall m c tgt = Done tgt' ->
  coef_poly K k0 k1 kadd kmul kopp tgt' s t =
  kadd (coef_poly K k0 k1 kadd kmul kopp tgt s t) (kmul c (coef_mono K k0 k1 kopp m s t)).
Proof. exact PolyGenProofs.normalize_sound_src. Qed.
Print Assumptions normalize_sound_src.

Theorem normalize_total_src :
  forall (K : Type) (kadd ksub : K -> K -> K) (kopp : K -> K) (ksmall : nat -> K -> bool) (m : monomial) 
    (c : K) (tgt : poly K), exists tgt' : poly K, normalize_src K kadd ksub kopp ksmall m c tgt = Done tgt'.
Proof. exact PolyGenProofs.normalize_total_src. Qed.
Print Assumptions normalize_total_src.

Theorem normalize_wf_src :
  forall (K : Type) (kadd ksub : K -> K -> K) (kopp : K -> K) (ksmall : nat -> K -> bool) (m : monomial) 
    (c : K) (tgt tgt' : poly K),
  poly_sorted K tgt ->
  poly_normal K tgt -> normalize_src K kadd ksub kopp ksmall m c tgt = Done tgt' -> poly_sorted K tgt' /\ poly_normal K tgt'.
Proof. exact PolyGenProofs.normalize_wf_src. Qed.
Print Assumptions normalize_wf_src.

Theorem padd_sound_src :
  forall (K : Type) (k0 k1 : K) (kadd kmul ksub : K -> K -> K) (kopp : K -> K) (ksmall : nat -> K -> bool),
  ring_ok K k0 k1 kadd kmul ksub kopp (ksmall 100) ->
  forall (a b : poly K) (s t : state),
  coef_poly K k0 k1 kadd kmul kopp (padd_src K kadd ksub kopp ksmall a b) s t =
  kadd (coef_poly K k0 k1 kadd kmul kopp a s t) (coef_poly K k0 k1 kadd kmul kopp b s t).
Proof. exact PolyGenProofs.padd_sound_src. Qed.
Print Assumptions padd_sound_src.

Theorem psub_sound_src :
  forall (K : Type) (k0 k1 : K) (kadd kmul ksub : K -> K -> K) (kopp : K -> K) (ksmall : nat -> K -> bool),
  ring_ok K k0 k1 kadd kmul ksub kopp (ksmall 100) ->
  forall (a b : poly K) (s t : state),
  coef_poly K k0 k1 kadd kmul kopp (psub_src K kadd ksub kopp ksmall a b) s t =
  ksub (coef_poly K k0 k1 kadd kmul kopp a s t) (coef_poly K k0 k1 kadd kmul kopp b s t).
Proof. exact PolyGenProofs.psub_sound_src. Qed.
Print Assumptions psub_sound_src.

(** operator-= in every calling situation, `S -= S` included (an aliased operand has the value of *this) *)
Theorem psub_assign_sound_src :
  forall (K : Type) (k0 k1 : K) (kadd kmul ksub : K -> K -> K) (kopp : K -> K) (ksmall : nat -> K -> bool),
  ring_ok K k0 k1 kadd kmul ksub kopp (ksmall 100) ->
  forall (aliased : bool) (a b : poly K) (s t : state),
  (aliased = true -> b = a) ->
  coef_poly K k0 k1 kadd kmul kopp (psub_assign_src K kadd ksub kopp ksmall aliased a b) s t =
  ksub (coef_poly K k0 k1 kadd kmul kopp a s t) (coef_poly K k0 k1 kadd kmul kopp b s t).
Proof. exact PolyGenProofs.psub_assign_sound_src. Qed.
Print Assumptions psub_assign_sound_src.

Theorem pneg_sound_src :
  forall (K : Type) (k0 k1 : K) (kadd kmul ksub : K -> K -> K) (kopp : K -> K) (ksmall : nat -> K -> bool),
  ring_ok K k0 k1 kadd kmul ksub kopp (ksmall 100) ->
  forall (a : poly K) (s t : state),
  coef_poly K k0 k1 kadd kmul kopp (pneg_src K kopp a) s t = kopp (coef_poly K k0 k1 kadd kmul kopp a s t).
Proof. exact PolyGenProofs.pneg_sound_src. Qed.
Print Assumptions pneg_sound_src.

Theorem pscale_sound_src :
  forall (K : Type) (k0 k1 : K) (kadd kmul ksub : K -> K -> K) (kopp : K -> K) (ksmall : nat -> K -> bool),
  ring_ok K k0 k1 kadd kmul ksub kopp (ksmall 100) ->
  forall (alpha : K) (a : poly K) (s t : state),
  coef_poly K k0 k1 kadd kmul kopp (pscale_src K kmul ksmall alpha a) s t =
  kmul alpha (coef_poly K k0 k1 kadd kmul kopp a s t).
Proof. exact PolyGenProofs.pscale_sound_src. Qed.
Print Assumptions pscale_sound_src.

Theorem pmul_total_src :
  forall (K : Type) (kadd kmul ksub : K -> K -> K) (kopp : K -> K) (ksmall : nat -> K -> bool) (a b : poly K),
  exists ab : poly K, pmul_src K kadd kmul ksub kopp ksmall a b = Done ab.
Proof. exact PolyGenProofs.pmul_total_src. Qed.
Print Assumptions pmul_total_src.

(** the matrix of A*B is the product of the matrices *)
Theorem pmul_sound_src :
  forall (K : Type) (k0 k1 : K) (kadd kmul ksub : K -> K -> K) (kopp : K -> K) (ksmall : nat -> K -> bool),
  ring_ok K k0 k1 kadd kmul ksub kopp (ksmall 100) ->
  forall (M : nat) (a b ab : poly K) (s t : state),
  poly_in_range K M a ->
  poly_in_range K M b ->
  Datatypes.length s = M ->
  Datatypes.length t = M ->
  pmul_src K kadd kmul ksub kopp ksmall a b = Done ab ->
  coef_poly K k0 k1 kadd kmul kopp ab s t =
  ksum K k0 kadd (all_states M)
    (fun u : state => kmul (coef_poly K k0 k1 kadd kmul kopp a u t) (coef_poly K k0 k1 kadd kmul kopp b s u)).
Proof. exact PolyGenProofs.pmul_sound_src. Qed.
Print Assumptions pmul_sound_src.

Theorem commutator_sound_src :
  forall (K : Type) (k0 k1 : K) (kadd kmul ksub : K -> K -> K) (kopp : K -> K) (ksmall : nat -> K -> bool),
  ring_ok K k0 k1 kadd kmul ksub kopp (ksmall 100) ->
  forall (M : nat) (a b r : poly K) (s t : state),
  poly_in_range K M a ->
  poly_in_range K M b ->
  Datatypes.length s = M ->
  Datatypes.length t = M ->
  commutator_src K kadd kmul ksub kopp ksmall a b = Done r ->
  coef_poly K k0 k1 kadd kmul kopp r s t =
  ksub
    (ksum K k0 kadd (all_states M)
       (fun u : state => kmul (coef_poly K k0 k1 kadd kmul kopp a u t) (coef_poly K k0 k1 kadd kmul kopp b s u)))
    (ksum K k0 kadd (all_states M)
       (fun u : state => kmul (coef_poly K k0 k1 kadd kmul kopp b u t) (coef_poly K k0 k1 kadd kmul kopp a s u))).
Proof. exact PolyGenProofs.commutator_sound_src. Qed.
Print Assumptions commutator_sound_src.

Theorem anticommutator_sound_src :
  forall (K : Type) (k0 k1 : K) (kadd kmul ksub : K -> K -> K) (kopp : K -> K) (ksmall : nat -> K -> bool),
  ring_ok K k0 k1 kadd kmul ksub kopp (ksmall 100) ->
  forall (M : nat) (a b r : poly K) (s t : state),
  poly_in_range K M a ->
  poly_in_range K M b ->
  Datatypes.length s = M ->
  Datatypes.length t = M ->
  anticommutator_src K kadd kmul ksub kopp ksmall a b = Done r ->
  coef_poly K k0 k1 kadd kmul kopp r s t =
  kadd
    (ksum K k0 kadd (all_states M)
       (fun u : state => kmul (coef_poly K k0 k1 kadd kmul kopp a u t) (coef_poly K k0 k1 kadd kmul kopp b s u)))
    (ksum K k0 kadd (all_states M)
       (fun u : state => kmul (coef_poly K k0 k1 kadd kmul kopp b u t) (coef_poly K k0 k1 kadd kmul kopp a s u))).
Proof. exact PolyGenProofs.anticommutator_sound_src. Qed.
Print Assumptions anticommutator_sound_src.

Theorem mul_assoc_sem_src :
  forall (K : Type) (k0 k1 : K) (kadd kmul ksub : K -> K -> K) (kopp : K -> K) (ksmall : nat -> K -> bool),
  ring_ok K k0 k1 kadd kmul ksub kopp (ksmall 100) ->
  forall (M : nat) (a b c ab bc abc abc' : poly K),
  poly_in_range K M a ->
  poly_in_range K M b ->
  poly_in_range K M c ->
  pmul_src K kadd kmul ksub kopp ksmall a b = Done ab ->
  pmul_src K kadd kmul ksub kopp ksmall ab c = Done abc ->
  pmul_src K kadd kmul ksub kopp ksmall b c = Done bc ->
  pmul_src K kadd kmul ksub kopp ksmall a bc = Done abc' ->
  forall s t : list bool,
  Datatypes.length s = M ->
  Datatypes.length t = M -> coef_poly K k0 k1 kadd kmul kopp abc s t = coef_poly K k0 k1 kadd kmul kopp abc' s t.
Proof. exact PolyGenProofs.mul_assoc_sem_src. Qed.
Print Assumptions mul_assoc_sem_src.

(** {c_i, c^+_j} = delta_ij, {c_i, c_j} = 0, {c^+_i, c^+_j} = 0 as computed by the source's factories, operator* and operator+ *)
Theorem car_poly_src :
  forall (K : Type) (k0 k1 : K) (kadd kmul ksub : K -> K -> K) (kopp : K -> K) (ksmall : nat -> K -> bool),
  ring_ok K k0 k1 kadd kmul ksub kopp (ksmall 100) ->
  k1 <> k0 ->
  forall i j : nat,
  anticommutator_src K kadd kmul ksub kopp ksmall (p_c_src K k1 i) (p_cdag_src K k1 j) =
  Done (if i =? j then [([], k1)] else []) /\
  anticommutator_src K kadd kmul ksub kopp ksmall (p_c_src K k1 i) (p_c_src K k1 j) = Done [] /\
  anticommutator_src K kadd kmul ksub kopp ksmall (p_cdag_src K k1 i) (p_cdag_src K k1 j) = Done [].
Proof. exact PolyGenProofs.car_poly_src. Qed.
Print Assumptions car_poly_src.

Theorem poly_eq_total_src :
  forall (K : Type) (ksub : K -> K -> K) (ksmall : nat -> K -> bool) (a b : poly K),
  exists r : bool, poly_eq_src K ksub ksmall a b = Done r.
Proof. exact PolyGenProofs.poly_eq_total_src. Qed.
Print Assumptions poly_eq_total_src.

Theorem poly_eq_sound_src :
  forall (K : Type) (k0 k1 : K) (kadd kmul ksub : K -> K -> K) (kopp : K -> K) (ksmall : nat -> K -> bool),
  ring_ok K k0 k1 kadd kmul ksub kopp (ksmall 100) ->
  forall a b : poly K,
  poly_eq_src K ksub ksmall a b = Done true ->
  forall s t : state, coef_poly K k0 k1 kadd kmul kopp a s t = coef_poly K k0 k1 kadd kmul kopp b s t.
Proof. exact PolyGenProofs.poly_eq_sound_src. Qed.
Print Assumptions poly_eq_sound_src.

(** completeness of operator== (linear independence of normal-ordered monomials) *)
Theorem poly_eq_complete_src :
  forall (K : Type) (k0 k1 : K) (kadd kmul ksub : K -> K -> K) (kopp : K -> K) (ksmall : nat -> K -> bool),
  ring_ok K k0 k1 kadd kmul ksub kopp (ksmall 100) ->
  k1 <> k0 ->
  forall (M : nat) (a b : poly K),
  poly_sorted K a ->
  poly_sorted K b ->
  poly_normal K a ->
  poly_normal K b ->
  poly_nonzero K k0 a ->
  poly_nonzero K k0 b ->
  poly_in_range K M a ->
  poly_in_range K M b ->
  (forall s t : list bool,
   Datatypes.length s = M ->
   Datatypes.length t = M -> coef_poly K k0 k1 kadd kmul kopp a s t = coef_poly K k0 k1 kadd kmul kopp b s t) ->
  poly_eq_src K ksub ksmall a b = Done true.
Proof. exact PolyGenProofs.poly_eq_complete_src. Qed.
Print Assumptions poly_eq_complete_src.

(** commutes answering true implies commuting matrices *)
Theorem commutes_sound_src :
  forall (K : Type) (k0 k1 : K) (kadd kmul ksub : K -> K -> K) (kopp : K -> K) (ksmall : nat -> K -> bool),
  ring_ok K k0 k1 kadd kmul ksub kopp (ksmall 100) ->
  forall (M : nat) (a b : poly K),
  poly_in_range K M a ->
  poly_in_range K M b ->
  commutes_src K kadd kmul ksub kopp ksmall a b = Done true ->
  forall s t : list bool,
  Datatypes.length s = M ->
  Datatypes.length t = M ->
  ksum K k0 kadd (all_states M)
    (fun u : state => kmul (coef_poly K k0 k1 kadd kmul kopp a u t) (coef_poly K k0 k1 kadd kmul kopp b s u)) =
  ksum K k0 kadd (all_states M)
    (fun u : state => kmul (coef_poly K k0 k1 kadd kmul kopp b u t) (coef_poly K k0 k1 kadd kmul kopp a s u)).
Proof. exact PolyGenProofs.commutes_sound_src. Qed.
Print Assumptions commutes_sound_src.

(** N::getMatrixElement(bra, ket) and N::actRight(ket) equal the generic operator sum_i n_i built by N::N *)
Theorem N_shortcut_sound_src :
  forall (K : Type) (k0 k1 : K) (kadd kmul ksub : K -> K -> K) (kopp : K -> K) (ksmall : nat -> K -> bool) (khalf : K),
  ring_ok K k0 k1 kadd kmul ksub kopp (ksmall 100) ->
  forall (M : nat) (s t : state),
  Datatypes.length s = M ->
  Datatypes.length t = M ->
  coef_poly K k0 k1 kadd kmul kopp (p_N_src K k1 kadd kmul ksub kopp ksmall khalf M) s t = N_melem2_src K k0 k1 kadd t s /\
  N_act_right_src K k0 k1 kadd s =
  [(s, coef_poly K k0 k1 kadd kmul kopp (p_N_src K k1 kadd kmul ksub kopp ksmall khalf M) s s)].
Proof. exact PolyGenProofs.N_shortcut_sound_src. Qed.
Print Assumptions N_shortcut_sound_src.

(** Sz(Nmodes, up): getMatrixElement(bra, ket) and actRight(ket) equal the generic operator built by the constructor *)
Theorem Sz_shortcut_sound_src :
  forall (K : Type) (k0 k1 : K) (kadd kmul ksub : K -> K -> K) (kopp : K -> K) (ksmall : nat -> K -> bool) (khalf : K),
  ring_ok K k0 k1 kadd kmul ksub kopp (ksmall 100) ->
  forall (M : nat) (ups : list nat) (s t : state) (P : poly K),
  Datatypes.length s = M ->
  Forall (fun i : nat => i < M) ups ->
  p_Sz_src K k1 kadd kmul ksub kopp ksmall khalf M ups = Done P ->
  coef_poly K k0 k1 kadd kmul kopp P s t = Sz_melem2_src K k0 k1 kadd kmul ksub kopp khalf ups (sz_down_src M ups) t s /\
  Sz_act_right_src K k0 k1 kadd kmul ksub kopp khalf ups (sz_down_src M ups) s =
  [(s, coef_poly K k0 k1 kadd kmul kopp P s s)].
Proof. exact PolyGenProofs.Sz_shortcut_sound_src. Qed.
Print Assumptions Sz_shortcut_sound_src.

(** Sz(up, down): the same for the two-list constructor *)
Theorem Sz_lists_shortcut_sound_src :
  forall (K : Type) (k0 k1 : K) (kadd kmul ksub : K -> K -> K) (kopp : K -> K) (ksmall : nat -> K -> bool) (khalf : K),
  ring_ok K k0 k1 kadd kmul ksub kopp (ksmall 100) ->
  forall (ups downs : list nat) (s t : state) (P : poly K),
  Forall (fun i : nat => i < Datatypes.length s) ups ->
  Forall (fun i : nat => i < Datatypes.length s) downs ->
  p_Sz_lists_src K k1 kadd kmul ksub kopp ksmall khalf ups downs = Done P ->
  coef_poly K k0 k1 kadd kmul kopp P s t = Sz_melem2_src K k0 k1 kadd kmul ksub kopp khalf ups downs t s /\
  Sz_act_right_src K k0 k1 kadd kmul ksub kopp khalf ups downs s = [(s, coef_poly K k0 k1 kadd kmul kopp P s s)].
Proof. exact PolyGenProofs.Sz_lists_shortcut_sound_src. Qed.
Print Assumptions Sz_lists_shortcut_sound_src.
