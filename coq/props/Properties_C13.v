(** C13 -- 2PGF container honours the exchange symmetries regardless of request history.
    Statements only; proofs are in PV.Container4Proofs.  Model: PV.Container4 (state machine of
    IndexContainer4<TwoParticleGF,TwoParticleGFContainer> + TwoParticleGFContainer on one rank; [fixed = true] is the
    container with the repaired fill, [fixed = false] the container as read on 2026-09-26); tables: PVgen.Gen_Container4
    (translated on every run from src/pomerol/Misc.cpp and include/pomerol/IndexContainer4.h); caller's view
    ("ghost") and abstract chi: PV.Container4Spec.

    Not proved here (named gap): that the directly constructed TwoParticleGF itself satisfies the two exchange
    symmetries (DESIGN.md: chi_swap12 / chi_swap34, needs the Lehmann model of C02 and, for the second one, cyclicity
    of the trace).  They enter below as hypotheses swap12_law / swap34_law on the abstract chi and are checked on
    every run by comparing two directly constructed TwoParticleGF objects (checks/C13.py). *)
Require Import ZArith Bool List.
Import ListNotations.
From PVgen Require Import Gen_Container4.
From PV Require Import Container4 Container4Spec Container4Proofs.
Local Open Scope Z_scope.

(** ** The tables *)

(** permutations4: 24 distinct permutations of 0..3, each with the sign of its parity (complete finite check). *)
Theorem perm_table_correct :
  length permutations4 = 24%nat /\ permutations4_declared_size = 24%nat /\
  NoDup (map fst permutations4) /\ Forall perm_ok permutations4.
Proof. exact Container4Proofs.perm_table_correct. Qed.
Print Assumptions perm_table_correct.

Theorem perm_table_complete : forall p : nat * nat * nat * nat,
  quad_in_range p = true -> quad_distinct p = true -> In p (map fst permutations4).
Proof. exact Container4Proofs.perm_table_complete. Qed.
Print Assumptions perm_table_complete.

(** no read past permutations4, the frequency array or perm[] in set / ElementWithPermFreq::operator() *)
Theorem table_reads_in_bounds :
  (set_owner_perm_index < length permutations4)%nat /\
  Forall (fun a => (snd a < length permutations4)%nat) set_aliases /\
  (forall n1 n2 n3, length (freq_array n1 n2 n3) = 4%nat) /\
  Forall (fun k => (k < 4)%nat) eval_arg_slots /\ length eval_arg_slots = 3%nat.
Proof. exact Container4Proofs.table_reads_in_bounds. Qed.
Print Assumptions table_reads_in_bounds.

(** The alias table of IndexContainer4::set with ElementWithPermFreq::operator() implements
    chi_jikl(w1,w2;w3) = -chi_ijkl(w2,w1;w3), chi_ijlk(w1,w2;w3) = -chi_ijkl(w1,w2;w1+w2-w3) and their composition:
    the owner entry returns chi of its key, each alias entry -- under its index-inequality condition -- returns chi of the alias key. *)
Theorem alias_denotes :
  forall (V : Type) (vneg : V -> V) (vscale : Z -> V -> V) (chi : quad -> triple -> V),
  swap12_law V vneg chi -> swap34_law V vneg chi -> neg_invol V vneg -> scale_law V vneg vscale ->
  (forall q, entry_denotes V vscale chi (perm_at set_owner_perm_index) q q) /\
  (forall req pos idx, In (req, pos, idx) set_aliases ->
     forall q, alias_cond q req = true -> entry_denotes V vscale chi (perm_at idx) q (alias_key q pos)).
Proof. exact Container4Proofs.alias_denotes. Qed.
Print Assumptions alias_denotes.

(** ** Every history *)

(** Both variants of fill, every history of Fill / PrepareAll / ComputeAll / Lookup / PrepareElem / ComputeElem / Eval,
    every quadruple and frequency triple: a value returned by an evaluation is chi of the requested quadruple,
    whether the key is stored or an alias, whatever was filled, requested, prepared or computed before. *)
Theorem eval_sound :
  forall (V : Type) (vneg : V -> V) (vscale : Z -> V -> V) (chi : quad -> triple -> V),
  swap12_law V vneg chi -> swap34_law V vneg chi -> neg_invol V vneg -> scale_law V vneg vscale ->
  forall (fixed : bool) (van : quad -> bool) (nidx : nat) (ops : list cop) (q : quad) (n : triple)
         (sg : Z) (q0 : quad) (t : triple),
  eval_out fixed van nidx (fst (run fixed van nidx ops)) q n = OVal sg q0 t -> vscale sg (chi q0 t) = chi q n.
Proof. exact Container4Proofs.eval_sound. Qed.
Print Assumptions eval_sound.

(** Repaired container, every history: a quadruple the caller has prepared and computed through the container
    (bulk calls or the element obtained on demand: caller's view Computed, see ready_* below) evaluates, without an
    exception and without changing the container, to chi of that quadruple. *)
Theorem container_refines_spec :
  forall (V : Type) (vneg : V -> V) (vscale : Z -> V -> V) (chi : quad -> triple -> V),
  swap12_law V vneg chi -> swap34_law V vneg chi -> neg_invol V vneg -> scale_law V vneg vscale ->
  forall (van : quad -> bool) (nidx : nat) (ops : list cop) (q : quad) (n : triple),
  qfind q (snd (run true van nidx ops)) = Some Computed ->
  exists sg q0 t,
    cstep true van nidx (fst (run true van nidx ops)) (Eval q n) = (fst (run true van nidx ops), OVal sg q0 t) /\
    vscale sg (chi q0 t) = chi q n.
Proof. exact Container4Proofs.container_refines_spec. Qed.
Print Assumptions container_refines_spec.

(** Repaired container: after a bulk computation that returns normally every key the container lists evaluates to chi of that key. *)
Theorem listed_elements_evaluable :
  forall (V : Type) (vneg : V -> V) (vscale : Z -> V -> V) (chi : quad -> triple -> V),
  swap12_law V vneg chi -> swap34_law V vneg chi -> neg_invol V vneg -> scale_law V vneg vscale ->
  forall (van : quad -> bool) (nidx : nat) (ops : list cop) (b : bool) (st' : cstate),
  cstep true van nidx (fst (run true van nidx ops)) (ComputeAll b) = (st', OUnit) ->
  forall q n, isInContainer st' q = true ->
  exists sg q0 t, cstep true van nidx st' (Eval q n) = (st', OVal sg q0 t) /\ vscale sg (chi q0 t) = chi q n.
Proof. exact Container4Proofs.listed_elements_evaluable. Qed.
Print Assumptions listed_elements_evaluable.

(** ... and for both variants when the bulk computation does not split the communicator. *)
Theorem listed_elements_evaluable_nosplit :
  forall (V : Type) (vneg : V -> V) (vscale : Z -> V -> V) (chi : quad -> triple -> V),
  swap12_law V vneg chi -> swap34_law V vneg chi -> neg_invol V vneg -> scale_law V vneg vscale ->
  forall (fixed : bool) (van : quad -> bool) (nidx : nat) (ops : list cop) (st' : cstate),
  cstep fixed van nidx (fst (run fixed van nidx ops)) (ComputeAll false) = (st', OUnit) ->
  forall q n, isInContainer st' q = true ->
  exists sg q0 t, cstep fixed van nidx st' (Eval q n) = (st', OVal sg q0 t) /\ vscale sg (chi q0 t) = chi q n.
Proof. exact Container4Proofs.listed_elements_evaluable_nosplit. Qed.
Print Assumptions listed_elements_evaluable_nosplit.

(** ** How a quadruple becomes "prepared and computed" in the caller's view *)

(** fill / prepareAll list every requested quadruple *)
Theorem requested_are_listed :
  forall (fixed : bool) (van : quad -> bool) (nidx : nat) (ops : list cop) (qs : list quad) (q : quad),
  In q qs -> isInContainer (fst (run fixed van nidx (ops ++ [PrepareAll qs]))) q = true.
Proof. exact Container4Proofs.requested_are_listed. Qed.
Print Assumptions requested_are_listed.

(** repaired container: after any history, computeAll directly after prepareAll returns normally ... *)
Theorem bulk_compute_succeeds :
  forall (van : quad -> bool) (nidx : nat) (ops : list cop) (qs : list quad) (b : bool),
  snd (cstep true van nidx (fst (run true van nidx (ops ++ [PrepareAll qs]))) (ComputeAll b)) = OUnit.
Proof. exact Container4Proofs.bulk_compute_succeeds. Qed.
Print Assumptions bulk_compute_succeeds.

(** repaired container, every history: when every listed quadruple is at least Prepared in the caller's view, computeAll returns normally *)
Theorem bulk_compute_succeeds_general :
  forall (van : quad -> bool) (nidx : nat) (ops : list cop) (b : bool),
  (forall k s, qfind k (snd (run true van nidx ops)) = Some s -> status_leb Prepared s = true) ->
  snd (cstep true van nidx (fst (run true van nidx ops)) (ComputeAll b)) = OUnit.
Proof. exact Container4Proofs.bulk_compute_succeeds_general. Qed.
Print Assumptions bulk_compute_succeeds_general.

(** ... and every listed quadruple is then Computed in the caller's view *)
Theorem ready_after_bulk :
  forall (van : quad -> bool) (nidx : nat) (ops : list cop) (qs : list quad) (b : bool) (q : quad),
  isInContainer (fst (run true van nidx (ops ++ [PrepareAll qs]))) q = true ->
  qfind q (snd (run true van nidx ((ops ++ [PrepareAll qs]) ++ [ComputeAll b]))) = Some Computed.
Proof. exact Container4Proofs.ready_after_bulk. Qed.
Print Assumptions ready_after_bulk.

(** on demand, both variants, after any history: container(q).prepare(); container(q).compute() returns normally and q is Computed *)
Theorem ready_after_on_demand :
  forall (fixed : bool) (van : quad -> bool) (nidx : nat) (ops : list cop) (q : quad),
  snd (cstep fixed van nidx (fst (run fixed van nidx (ops ++ [PrepareElem q]))) (ComputeElem q)) = OUnit /\
  qfind q (snd (run fixed van nidx ((ops ++ [PrepareElem q]) ++ [ComputeElem q]))) = Some Computed.
Proof. exact Container4Proofs.ready_after_on_demand. Qed.
Print Assumptions ready_after_on_demand.

(** the caller's view stays Computed under every call except fill / prepareAll (which discard all elements) *)
Theorem ready_stable :
  forall (fixed : bool) (van : quad -> bool) (nidx : nat) (ops : list cop) (op : cop) (q : quad),
  (forall qs, op <> Fill qs /\ op <> PrepareAll qs) ->
  qfind q (snd (run fixed van nidx ops)) = Some Computed ->
  qfind q (snd (run fixed van nidx (ops ++ [op]))) = Some Computed.
Proof. exact Container4Proofs.ready_stable. Qed.
Print Assumptions ready_stable.

(** no history ever meets a map entry without an element (both variants) *)
Theorem no_dangling :
  forall (fixed : bool) (van : quad -> bool) (nidx : nat) (ops : list cop) (op : cop),
  snd (cstep fixed van nidx (fst (run fixed van nidx ops)) op) <> OThrows Dangling.
Proof. exact Container4Proofs.no_dangling. Qed.
Print Assumptions no_dangling.

(** ** The container as read on 2026-09-26 ([fixed = false]) violates the statements (witnesses by vm_compute;
       replayed on the library by checks/C13.py, which also decides which variant the library currently is) *)

Theorem container_refines_spec_refuted :
  exists (van : quad -> bool) (nidx : nat) (ops : list cop) (q : quad) (n : triple),
    qfind q (snd (run false van nidx ops)) = Some Computed /\
    eval_out false van nidx (fst (run false van nidx ops)) q n = OThrows UncomputedPart.
Proof. exact Container4Proofs.container_refines_spec_refuted. Qed.
Print Assumptions container_refines_spec_refuted.

Theorem listed_elements_evaluable_refuted :
  exists (van : quad -> bool) (nidx : nat) (ops : list cop) (b : bool) (st' : cstate) (q : quad) (n : triple),
    cstep false van nidx (fst (run false van nidx ops)) (ComputeAll b) = (st', OUnit) /\
    isInContainer st' q = true /\
    eval_out false van nidx st' q n = OThrows UncomputedPart.
Proof. exact Container4Proofs.listed_elements_evaluable_refuted. Qed.
Print Assumptions listed_elements_evaluable_refuted.

Theorem bulk_compute_succeeds_refuted :
  exists (van : quad -> bool) (nidx : nat) (ops : list cop) (qs : list quad) (b : bool),
    snd (cstep false van nidx (fst (run false van nidx (ops ++ [PrepareAll qs]))) (ComputeAll b)) = OThrows StatusMismatch.
Proof. exact Container4Proofs.bulk_compute_succeeds_refuted. Qed.
Print Assumptions bulk_compute_succeeds_refuted.
