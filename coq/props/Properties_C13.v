(** C13 -- 2PGF container honours the exchange symmetries regardless of request history.
    Statements only; proofs are in PV.Container4Proofs.  Model: PV.Container4 (state machine of
    IndexContainer4<TwoParticleGF,TwoParticleGFContainer> + TwoParticleGFContainer on one rank; [fixed = true] is the
    container with the repaired fill, [fixed = false] the container as read on 2026-09-26); tables: PVgen.Gen_Container4
    (translated on every run from src/pomerol/Misc.cpp and include/pomerol/IndexContainer4.h); caller's view
    ("ghost") and abstract chi: PV.Container4Spec.

    Not proved here (named gap): that the directly constructed TwoParticleGF itself satisfies the two exchange
    symmetries (DESIGN.md: chi_swap12 / chi_swap34, needs the Lehmann model of C02 and, for the second one, cyclicity
    of the trace).  They enter below as hypotheses swap12_law / swap34_law on the abstract chi and are checked on
    every run by comparing two directly constructed TwoParticleGF objects (checks/C13.py). *)
Require Import ZArith Bool List.
Import ListNotations.
From PVgen Require Import Gen_Container4.
From PV Require Import Container4 Container4Spec Container4Proofs.
Local Open Scope Z_scope.

(** ** The tables *)

(** permutations4: 24 distinct permutations of 0..3, each with the sign of its parity (complete finite check). *)
Theorem perm_table_correct :
  length permutations4 = 24%nat /\ permutations4_declared_size = 24%nat /\
  NoDup (map fst permutations4) /\ Forall perm_ok permutations4.
Proof. exact Container4Proofs.perm_table_correct. Qed.
Print Assumptions perm_table_correct.

Theorem perm_table_complete : forall p : nat * nat * nat * nat,
  quad_in_range p = true -> quad_distinct p = true -> In p (map fst permutations4).
Proof. exact Container4Proofs.perm_table_complete. Qed.
Print Assumptions perm_table_complete.

(** no read past permutations4, the frequency array or perm[] in set / ElementWithPermFreq::operator() *)
Theorem table_reads_in_bounds :
  (set_owner_perm_index < length permutations4)%nat /\
  Forall (fun a => (snd a < length permutations4)%nat) set_aliases /\
  (forall n1 n2 n3, length (freq_array n1 n2 n3) = 4%nat) /\
  Forall (fun k => (k < 4)%nat) eval_arg_slots /\ length eval_arg_slots = 3%nat.
Proof. exact Container4Proofs.table_reads_in_bounds. Qed.
Print Assumptions table_reads_in_bounds.

(** The alias table of IndexContainer4::set with ElementWithPermFreq::operator() implements
    chi_jikl(w1,w2;w3) = -chi_ijkl(w2,w1;w3), chi_ijlk(w1,w2;w3) = -chi_ijkl(w1,w2;w1+w2-w3) and their composition:
    the owner entry returns chi of its key, each alias entry -- under its index-inequality condition -- returns chi of the alias key. *)
Theorem alias_denotes :
  forall (V : Type) (vneg : V -> V) (vscale : Z -> V -> V) (chi : quad -> triple -> V),
  swap12_law V vneg chi -> swap34_law V vneg chi -> neg_invol V vneg -> scale_law V vneg vscale ->
  (forall q, entry_denotes V vscale chi (perm_at set_owner_perm_index) q q) /\
  (forall req pos idx, In (req, pos, idx) set_aliases ->
     forall q, alias_cond q req = true -> entry_denotes V vscale chi (perm_at idx) q (alias_key q pos)).
Proof. exact Container4Proofs.alias_denotes. Qed.
Print Assumptions alias_denotes.

(** ** Every history *)

(** Both variants of fill, every history of Fill / PrepareAll / ComputeAll / Lookup / PrepareElem / ComputeElem / Eval,
    every quadruple and frequency triple: a value returned by an evaluation is chi of the requested quadruple,
    whether the key is stored or an alias, whatever was filled, requested, prepared or computed before. *)
Theorem eval_sound :
  forall (V : Type) (vneg : V -> V) (vscale : Z -> V -> V) (chi : quad -> triple -> V),
  swap12_law V vneg chi -> swap34_law V vneg chi -> neg_invol V vneg -> scale_law V vneg vscale ->
  forall (fixed : bool) (van : quad -> bool) (nidx : nat) (ops : list cop) (q : quad) (n : triple)
         (sg : Z) (q0 : quad) (t : triple),
  eval_out fixed van nidx (fst (run fixed van nidx ops)) q n = OVal sg q0 t -> vscale sg (chi q0 t) = chi q n.
Proof. exact Container4Proofs.eval_sound. Qed.
Print Assumptions eval_sound.

(** Repaired container, every history: a quadruple the caller has prepared and computed through the container
    (bulk calls or the element obtained on demand: caller's view Computed, see ready_* below) evaluates, without an
    exception and without changing the container, to chi of that quadruple. *)
Theorem container_refines_spec :
  forall (V : Type) (vneg : V -> V) (vscale : Z -> V -> V) (chi : quad -> triple -> V),
  swap12_law V vneg chi -> swap34_law V vneg chi -> neg_invol V vneg -> scale_law V vneg vscale ->
  forall (van : quad -> bool) (nidx : nat) (ops : list cop) (q : quad) (n : triple),
  qfind q (snd (run true van nidx ops)) = Some Computed ->
  exists sg q0 t,
    cstep true van nidx (fst (run true van nidx ops)) (Eval q n) = (fst (run true van nidx ops), OVal sg q0 t) /\
    vscale sg (chi q0 t) = chi q n.
Proof. exact Container4Proofs.container_refines_spec. Qed.
Print Assumptions container_refines_spec.

(** Repaired container: after a bulk computation that returns normally every key the container lists evaluates to chi of that key. *)
Theorem listed_elements_evaluable :
  forall (V : Type) (vneg : V -> V) (vscale : Z -> V -> V) (chi : quad -> triple -> V),
  swap12_law V vneg chi -> swap34_law V vneg chi -> neg_invol V vneg -> scale_law V vneg vscale ->
  forall (van : quad -> bool) (nidx : nat) (ops : list cop) (b : bool) (st' : cstate),
  cstep true van nidx (fst (run true van nidx ops)) (ComputeAll b) = (st', OUnit) ->
  forall q n, isInContainer st' q = true ->
  exists sg q0 t, cstep true van nidx st' (Eval q n) = (st', OVal sg q0 t) /\ vscale sg (chi q0 t) = chi q n.
Proof. exact Container4Proofs.listed_elements_evaluable. Qed.
Print Assumptions listed_elements_evaluable.

(** ... and for both variants when the bulk computation does not split the communicator. *)
Theorem listed_elements_evaluable_nosplit :
  forall (V : Type) (vneg : V -> V) (vscale : Z -> V -> V) (chi : quad -> triple -> V),
  swap12_law V vneg chi -> swap34_law V vneg chi -> neg_invol V vneg -> scale_law V vneg vscale ->
  forall (fixed : bool) (van : quad -> bool) (nidx : nat) (ops : list cop) (st' : cstate),
  cstep fixed van nidx (fst (run fixed van nidx ops)) (ComputeAll false) = (st', OUnit) ->
  forall q n, isInContainer st' q = true ->
  exists sg q0 t, cstep fixed van nidx st' (Eval q n) = (st', OVal sg q0 t) /\ vscale sg (chi q0 t) = chi q n.
Proof. exact Container4Proofs.listed_elements_evaluable_nosplit. Qed.
Print Assumptions listed_elements_evaluable_nosplit.

(** ** How a quadruple becomes "prepared and computed" in the caller's view *)

(** fill / prepareAll list every requested quadruple *)
Theorem requested_are_listed :
  forall (fixed : bool) (van : quad -> bool) (nidx : nat) (ops : list cop) (qs : list quad) (q : quad),
  In q qs -> isInContainer (fst (run fixed van nidx (ops ++ [PrepareAll qs]))) q = true.
Proof. exact Container4Proofs.requested_are_listed. Qed.
Print Assumptions requested_are_listed.

(** repaired container: after any history, computeAll directly after prepareAll returns normally ... *)
Theorem bulk_compute_succeeds :
  forall (van : quad -> bool) (nidx : nat) (ops : list cop) (qs : list quad) (b : bool),
  snd (cstep true van nidx (fst (run true van nidx (ops ++ [PrepareAll qs]))) (ComputeAll b)) = OUnit.
Proof. exact Container4Proofs.bulk_compute_succeeds. Qed.
Print Assumptions bulk_compute_succeeds.

(** repaired container, every history: when every listed quadruple is at least Prepared in the caller's view, computeAll returns normally *)
Theorem bulk_compute_succeeds_general :
  forall (van : quad -> bool) (nidx : nat) (ops : list cop) (b : bool),
  (forall k s, qfind k (snd (run true van nidx ops)) = Some s -> status_leb Prepared s = true) ->
  snd (cstep true van nidx (fst (run true van nidx ops)) (ComputeAll b)) = OUnit.
Proof. exact Container4Proofs.bulk_compute_succeeds_general. Qed.
Print Assumptions bulk_compute_succeeds_general.

(** ... and every listed quadruple is then Computed in the caller's view *)
Theorem ready_after_bulk :
  forall (van : quad -> bool) (nidx : nat) (ops : list cop) (qs : list quad) (b : bool) (q : quad),
  isInContainer (fst (run true van nidx (ops ++ [PrepareAll qs]))) q = true ->
  qfind q (snd (run true van nidx ((ops ++ [PrepareAll qs]) ++ [ComputeAll b]))) = Some Computed.
Proof. exact Container4Proofs.ready_after_bulk. Qed.
Print Assumptions ready_after_bulk.

(** on demand, both variants, after any history: container(q).prepare(); container(q).compute() returns normally and q is Computed *)
Theorem ready_after_on_demand :
  forall (fixed : bool) (van : quad -> bool) (nidx : nat) (ops : list cop) (q : quad),
  snd (cstep fixed van nidx (fst (run fixed van nidx (ops ++ [PrepareElem q]))) (ComputeElem q)) = OUnit /\
  qfind q (snd (run fixed van nidx ((ops ++ [PrepareElem q]) ++ [ComputeElem q]))) = Some Computed.
Proof. exact Container4Proofs.ready_after_on_demand. Qed.
Print Assumptions ready_after_on_demand.

(** the caller's view stays Computed under every call except fill / prepareAll (which discard all elements) *)
Theorem ready_stable :
  forall (fixed : bool) (van : quad -> bool) (nidx : nat) (ops : list cop) (op : cop) (q : quad),
  (forall qs, op <> Fill qs /\ op <> PrepareAll qs) ->
  qfind q (snd (run fixed van nidx ops)) = Some Computed ->
  qfind q (snd (run fixed van nidx (ops ++ [op]))) = Some Computed.
Proof. exact Container4Proofs.ready_stable. Qed.
Print Assumptions ready_stable.

(** no history ever meets a map entry without an element (both variants) *)
Theorem no_dangling :
  forall (fixed : bool) (van : quad -> bool) (nidx : nat) (ops : list cop) (op : cop),
  snd (cstep fixed van nidx (fst (run fixed van nidx ops)) op) <> OThrows Dangling.
Proof. exact Container4Proofs.no_dangling. Qed.
Print Assumptions no_dangling.

(** ** The container as read on 2026-09-26 ([fixed = false]) violates the statements (witnesses by vm_compute;
       replayed on the library by checks/C13.py, which also decides which variant the library currently is) *)

Theorem container_refines_spec_refuted :
  exists (van : quad -> bool) (nidx : nat) (ops : list cop) (q : quad) (n : triple),
    qfind q (snd (run false van nidx ops)) = Some Computed /\
    eval_out false van nidx (fst (run false van nidx ops)) q n = OThrows UncomputedPart.
Proof. exact Container4Proofs.container_refines_spec_refuted. Qed.
Print Assumptions container_refines_spec_refuted.

Theorem listed_elements_evaluable_refuted :
  exists (van : quad -> bool) (nidx : nat) (ops : list cop) (b : bool) (st' : cstate) (q : quad) (n : triple),
    cstep false van nidx (fst (run false van nidx ops)) (ComputeAll b) = (st', OUnit) /\
    isInContainer st' q = true /\
    eval_out false van nidx st' q n = OThrows UncomputedPart.
Proof. exact Container4Proofs.listed_elements_evaluable_refuted. Qed.
Print Assumptions listed_elements_evaluable_refuted.

Theorem bulk_compute_succeeds_refuted :
  exists (van : quad -> bool) (nidx : nat) (ops : list cop) (qs : list quad) (b : bool),
    snd (cstep false van nidx (fst (run false van nidx (ops ++ [PrepareAll qs]))) (ComputeAll b)) = OThrows StatusMismatch.
Proof. exact Container4Proofs.bulk_compute_succeeds_refuted. Qed.
Print Assumptions bulk_compute_succeeds_refuted.

(** ** The exchange symmetries of a directly constructed TwoParticleGF, at the level of its specification
       (PV.EDSpec.chi: the documented sum over the six orderings of the first three operators of sign * Lehmann sum
       with the kernel phi, fourth operator at time 0; PV.ChiLehmann relates the library's term lists to it).
       Proofs: PV.ChiSymmetryProofs.  With them the hypotheses swap12_law / swap34_law of the theorems above are
       DISCHARGED for chi := chi_lehmann (PV.ChiSymmetry: EDSpec.chi on eigen-data, frequencies by Matsubara index):
       the first for all data over any commutative ring, the second for regular data over any field
       (PV.ChiSymmetry.regular: no fermionic denominator vanishes, the resonance tests of phi are exact on the
       levels and frequencies that occur, a detected resonance has equal weights).  The general theorems above are
       unchanged. *)
Require Import Ring Field QArith Qcanon.
From PV Require EDSpec GFIdentities.
From PV Require Import ChiSymmetry ChiSymmetryProofs ChiSymmetryContainer ChiSymmetryExamples ChiSymmetryC.

(** First exchange symmetry  chi_jikl(w2,w1;w3) = - chi_ijkl(w1,w2;w3):  every number type whose operations form a
    commutative ring, all energies, weights, operator matrices (any shape), beta, tolerance, all frequencies
    (real, complex, Matsubara or not).  Re-indexing of the sum over the six orderings. *)
Theorem chi_spec_swap12 :
  forall (K : Type) (NO : EDSpec.numops K),
  ring_theory (EDSpec.n0 K NO) (EDSpec.n1 K NO) (EDSpec.nadd K NO) (EDSpec.nmul K NO) (EDSpec.nsub K NO)
              (EDSpec.nopp K NO) (@eq K) ->
  forall (beta tol : K) (E w : list K) (C1 C2 CX3 CX4 : list (list K)) (z1 z2 z3 : K),
  EDSpec.chi K NO beta tol E w C2 C1 CX3 CX4 z2 z1 z3 =
  EDSpec.nopp K NO (EDSpec.chi K NO beta tol E w C1 C2 CX3 CX4 z1 z2 z3).
Proof. exact ChiSymmetryProofs.chi_spec_swap12. Qed.
Print Assumptions chi_spec_swap12.

(** The kernel identity behind the second symmetry (cyclicity of the trace in Lehmann form):
    phi_ijkl(x,y,z) = - phi_lijk(u,x,y) for x + y + z + u = 0, in all four resonance patterns. *)
Theorem phi_cyclic :
  forall (K : Type) (NO : EDSpec.numops K) (kinv : K -> K),
  field_theory (EDSpec.n0 K NO) (EDSpec.n1 K NO) (EDSpec.nadd K NO) (EDSpec.nmul K NO) (EDSpec.nsub K NO)
               (EDSpec.nopp K NO) (EDSpec.ndiv K NO) kinv (@eq K) ->
  (forall x, EDSpec.nabs K NO (EDSpec.nopp K NO x) = EDSpec.nabs K NO x) ->
  forall beta tol Ei Ej Ek El wi wj wk wl x y z u : K,
  EDSpec.nadd K NO (EDSpec.nadd K NO (EDSpec.nadd K NO x y) z) u = EDSpec.n0 K NO ->
  EDSpec.nsub K NO (EDSpec.nadd K NO x Ei) Ej <> EDSpec.n0 K NO ->
  EDSpec.nsub K NO (EDSpec.nadd K NO y Ej) Ek <> EDSpec.n0 K NO ->
  EDSpec.nsub K NO (EDSpec.nadd K NO z Ek) El <> EDSpec.n0 K NO ->
  EDSpec.nsub K NO (EDSpec.nadd K NO u El) Ei <> EDSpec.n0 K NO ->
  res_ok K NO tol x y Ei Ek wi wk -> res_ok K NO tol y z Ej El wj wl ->
  EDSpec.phi K NO beta tol Ei Ej Ek El wi wj wk wl x y z =
  EDSpec.nopp K NO (EDSpec.phi K NO beta tol El Ei Ej Ek wl wi wj wk u x y).
Proof. exact ChiSymmetryProofs.phi_cyclic. Qed.
Print Assumptions phi_cyclic.

(** Second exchange symmetry  chi_ijlk(w1,w2;w1+w2-w3) = - chi_ijkl(w1,w2;w3):  every number type whose operations
    form a field, with |-x| = |x| and an exact "matrix element is non-zero" test; n x n operator matrices; data
    regular at the four frequencies z1, z2, -z3, -(z1+z2-z3).  All energies incl. degenerate ones, all resonance
    patterns, beta arbitrary.  No hypothesis relates the weights to the energies beyond "a detected resonance has
    equal weights": the Boltzmann relation and e^{i w beta} = -1 are already inside the closed form of phi. *)
Theorem chi_spec_swap34 :
  forall (K : Type) (NO : EDSpec.numops K) (kinv : K -> K),
  field_theory (EDSpec.n0 K NO) (EDSpec.n1 K NO) (EDSpec.nadd K NO) (EDSpec.nmul K NO) (EDSpec.nsub K NO)
               (EDSpec.nopp K NO) (EDSpec.ndiv K NO) kinv (@eq K) ->
  (forall x, EDSpec.nabs K NO (EDSpec.nopp K NO x) = EDSpec.nabs K NO x) ->
  (forall x, EDSpec.nre_ltb K NO (EDSpec.n0 K NO) (EDSpec.nabs K NO x) = false -> x = EDSpec.n0 K NO) ->
  forall (n : nat) (beta tol : K) (E w : list K) (C1 C2 CX3 CX4 : list (list K)) (z1 z2 z3 : K),
  square K n C1 -> square K n C2 -> square K n CX3 -> square K n CX4 ->
  regular K NO n tol E w (fset K NO z1 z2 z3) ->
  EDSpec.chi K NO beta tol E w C1 C2 CX4 CX3 z1 z2 (EDSpec.nsub K NO (EDSpec.nadd K NO z1 z2) z3) =
  EDSpec.nopp K NO (EDSpec.chi K NO beta tol E w C1 C2 CX3 CX4 z1 z2 z3).
Proof. exact ChiSymmetryProofs.chi_spec_swap34. Qed.
Print Assumptions chi_spec_swap34.

(** The two laws of PV.Container4Spec for the Lehmann chi. *)
Theorem chi_lehmann_swap12 :
  forall (K : Type) (NO : EDSpec.numops K),
  ring_theory (EDSpec.n0 K NO) (EDSpec.n1 K NO) (EDSpec.nadd K NO) (EDSpec.nmul K NO) (EDSpec.nsub K NO)
              (EDSpec.nopp K NO) (@eq K) ->
  forall D : edata K, swap12_law K (EDSpec.nopp K NO) (chi_lehmann K NO D).
Proof. exact ChiSymmetryProofs.chi_lehmann_swap12. Qed.
Print Assumptions chi_lehmann_swap12.

Theorem chi_lehmann_swap34 :
  forall (K : Type) (NO : EDSpec.numops K) (kinv : K -> K),
  field_theory (EDSpec.n0 K NO) (EDSpec.n1 K NO) (EDSpec.nadd K NO) (EDSpec.nmul K NO) (EDSpec.nsub K NO)
               (EDSpec.nopp K NO) (EDSpec.ndiv K NO) kinv (@eq K) ->
  (forall x, EDSpec.nabs K NO (EDSpec.nopp K NO x) = EDSpec.nabs K NO x) ->
  (forall x, EDSpec.nre_ltb K NO (EDSpec.n0 K NO) (EDSpec.nabs K NO x) = false -> x = EDSpec.n0 K NO) ->
  forall (n : nat) (D : edata K), edata_regular K NO n D ->
  swap34_law K (EDSpec.nopp K NO) (chi_lehmann K NO D).
Proof. exact ChiSymmetryProofs.chi_lehmann_swap34. Qed.
Print Assumptions chi_lehmann_swap34.

(** The container theorems for the Lehmann chi with BOTH symmetries discharged (regular eigen-data). *)
Theorem alias_denotes_lehmann :
  forall (K : Type) (NO : EDSpec.numops K) (kinv : K -> K),
  field_theory (EDSpec.n0 K NO) (EDSpec.n1 K NO) (EDSpec.nadd K NO) (EDSpec.nmul K NO) (EDSpec.nsub K NO)
               (EDSpec.nopp K NO) (EDSpec.ndiv K NO) kinv (@eq K) ->
  (forall x, EDSpec.nabs K NO (EDSpec.nopp K NO x) = EDSpec.nabs K NO x) ->
  (forall x, EDSpec.nre_ltb K NO (EDSpec.n0 K NO) (EDSpec.nabs K NO x) = false -> x = EDSpec.n0 K NO) ->
  forall (n : nat) (D : edata K), edata_regular K NO n D ->
  (forall q, entry_denotes K (kscale K NO) (chi_lehmann K NO D) (perm_at set_owner_perm_index) q q) /\
  (forall req pos idx, In (req, pos, idx) set_aliases ->
     forall q, alias_cond q req = true ->
     entry_denotes K (kscale K NO) (chi_lehmann K NO D) (perm_at idx) q (alias_key q pos)).
Proof. exact ChiSymmetryContainer.alias_denotes_lehmann. Qed.
Print Assumptions alias_denotes_lehmann.

Theorem eval_sound_lehmann :
  forall (K : Type) (NO : EDSpec.numops K) (kinv : K -> K),
  field_theory (EDSpec.n0 K NO) (EDSpec.n1 K NO) (EDSpec.nadd K NO) (EDSpec.nmul K NO) (EDSpec.nsub K NO)
               (EDSpec.nopp K NO) (EDSpec.ndiv K NO) kinv (@eq K) ->
  (forall x, EDSpec.nabs K NO (EDSpec.nopp K NO x) = EDSpec.nabs K NO x) ->
  (forall x, EDSpec.nre_ltb K NO (EDSpec.n0 K NO) (EDSpec.nabs K NO x) = false -> x = EDSpec.n0 K NO) ->
  forall (n : nat) (D : edata K), edata_regular K NO n D ->
  forall (fixed : bool) (van : quad -> bool) (nidx : nat) (ops : list cop) (q : quad) (t : triple)
         (sg : Z) (q0 : quad) (t0 : triple),
  eval_out fixed van nidx (fst (run fixed van nidx ops)) q t = OVal sg q0 t0 ->
  kscale K NO sg (chi_lehmann K NO D q0 t0) = chi_lehmann K NO D q t.
Proof. exact ChiSymmetryContainer.eval_sound_lehmann. Qed.
Print Assumptions eval_sound_lehmann.

Theorem container_refines_spec_lehmann :
  forall (K : Type) (NO : EDSpec.numops K) (kinv : K -> K),
  field_theory (EDSpec.n0 K NO) (EDSpec.n1 K NO) (EDSpec.nadd K NO) (EDSpec.nmul K NO) (EDSpec.nsub K NO)
               (EDSpec.nopp K NO) (EDSpec.ndiv K NO) kinv (@eq K) ->
  (forall x, EDSpec.nabs K NO (EDSpec.nopp K NO x) = EDSpec.nabs K NO x) ->
  (forall x, EDSpec.nre_ltb K NO (EDSpec.n0 K NO) (EDSpec.nabs K NO x) = false -> x = EDSpec.n0 K NO) ->
  forall (n : nat) (D : edata K), edata_regular K NO n D ->
  forall (van : quad -> bool) (nidx : nat) (ops : list cop) (q : quad) (t : triple),
  qfind q (snd (run true van nidx ops)) = Some Computed ->
  exists sg q0 t0,
    cstep true van nidx (fst (run true van nidx ops)) (Eval q t) = (fst (run true van nidx ops), OVal sg q0 t0) /\
    kscale K NO sg (chi_lehmann K NO D q0 t0) = chi_lehmann K NO D q t.
Proof. exact ChiSymmetryContainer.container_refines_spec_lehmann. Qed.
Print Assumptions container_refines_spec_lehmann.

Theorem listed_elements_evaluable_lehmann :
  forall (K : Type) (NO : EDSpec.numops K) (kinv : K -> K),
  field_theory (EDSpec.n0 K NO) (EDSpec.n1 K NO) (EDSpec.nadd K NO) (EDSpec.nmul K NO) (EDSpec.nsub K NO)
               (EDSpec.nopp K NO) (EDSpec.ndiv K NO) kinv (@eq K) ->
  (forall x, EDSpec.nabs K NO (EDSpec.nopp K NO x) = EDSpec.nabs K NO x) ->
  (forall x, EDSpec.nre_ltb K NO (EDSpec.n0 K NO) (EDSpec.nabs K NO x) = false -> x = EDSpec.n0 K NO) ->
  forall (n : nat) (D : edata K), edata_regular K NO n D ->
  forall (van : quad -> bool) (nidx : nat) (ops : list cop) (b : bool) (st' : cstate),
  cstep true van nidx (fst (run true van nidx ops)) (ComputeAll b) = (st', OUnit) ->
  forall q t, isInContainer st' q = true ->
  exists sg q0 t0, cstep true van nidx st' (Eval q t) = (st', OVal sg q0 t0) /\
                   kscale K NO sg (chi_lehmann K NO D q0 t0) = chi_lehmann K NO D q t.
Proof. exact ChiSymmetryContainer.listed_elements_evaluable_lehmann. Qed.
Print Assumptions listed_elements_evaluable_lehmann.

(** ... and with only the first one discharged: commutative ring, ALL eigen-data, no regularity; the second
    symmetry stays a hypothesis, now about the Lehmann chi. *)
Theorem eval_sound_lehmann_swap12_discharged :
  forall (K : Type) (NO : EDSpec.numops K),
  ring_theory (EDSpec.n0 K NO) (EDSpec.n1 K NO) (EDSpec.nadd K NO) (EDSpec.nmul K NO) (EDSpec.nsub K NO)
              (EDSpec.nopp K NO) (@eq K) ->
  forall D : edata K, swap34_law K (EDSpec.nopp K NO) (chi_lehmann K NO D) ->
  forall (fixed : bool) (van : quad -> bool) (nidx : nat) (ops : list cop) (q : quad) (t : triple)
         (sg : Z) (q0 : quad) (t0 : triple),
  eval_out fixed van nidx (fst (run fixed van nidx ops)) q t = OVal sg q0 t0 ->
  kscale K NO sg (chi_lehmann K NO D q0 t0) = chi_lehmann K NO D q t.
Proof. exact ChiSymmetryContainer.eval_sound_lehmann_swap12_discharged. Qed.
Print Assumptions eval_sound_lehmann_swap12_discharged.

(** ** Non-vacuity on exact numbers (PV.ChiSymmetryExamples): canonical rationals, the Hubbard atom (mu = 1, U = 3:
       E = (0,-1,-1,1), weights (2,4,4,1)/11, beta = 1, tolerance 1/1000, c_i / c^+_i = EDSpec.op_matrix on two modes),
       stand-in frequencies 7(2m+1)/2; the regularity hypothesis is decided by an evaluated checker.  The symmetric
       pair of values is non-zero.  Triples: resonant (n1 + n2 = -1, n1 = n3: both resonant branches of phi occur)
       and generic. *)
Theorem swap12_applies :
  chi_lehmann Qc QcNum hub (1, 0, 1, 0)%nat (0, -1, 0)%Z = Qcopp (chi_lehmann Qc QcNum hub (0, 1, 1, 0)%nat (-1, 0, 0)%Z) /\
  this (chi_lehmann Qc QcNum hub (1, 0, 1, 0)%nat (0, -1, 0)%Z) = (57836 # 299475)%Q /\
  this (chi_lehmann Qc QcNum hub (0, 1, 1, 0)%nat (-1, 0, 0)%Z) = (-57836 # 299475)%Q.
Proof. exact ChiSymmetryExamples.swap12_applies. Qed.
Print Assumptions swap12_applies.

Theorem swap34_applies_resonant :
  chi_lehmann Qc QcNum hub (0, 1, 0, 1)%nat (0, -1, -1)%Z = Qcopp (chi_lehmann Qc QcNum hub (0, 1, 1, 0)%nat (0, -1, 0)%Z) /\
  this (chi_lehmann Qc QcNum hub (0, 1, 1, 0)%nat (0, -1, 0)%Z) = (-26816 # 299475)%Q /\
  this (chi_lehmann Qc QcNum hub (0, 1, 0, 1)%nat (0, -1, -1)%Z) = (26816 # 299475)%Q.
Proof. exact ChiSymmetryExamples.swap34_applies_resonant. Qed.
Print Assumptions swap34_applies_resonant.

Theorem swap34_applies_generic :
  chi_lehmann Qc QcNum hub (0, 1, 0, 1)%nat (1, 0, -1)%Z = Qcopp (chi_lehmann Qc QcNum hub (0, 1, 1, 0)%nat (1, 0, 2)%Z) /\
  this (chi_lehmann Qc QcNum hub (0, 1, 1, 0)%nat (1, 0, 2)%Z) = (6372064 # 3527271605)%Q /\
  this (chi_lehmann Qc QcNum hub (0, 1, 0, 1)%nat (1, 0, -1)%Z) = (-6372064 # 3527271605)%Q.
Proof. exact ChiSymmetryExamples.swap34_applies_generic. Qed.
Print Assumptions swap34_applies_generic.

(** ** The regularity hypothesis holds for genuine data (PV.ChiSymmetryC): Coquelicot's complex numbers with the true
       modulus (EDSpec at GFIdentities.CNum), real energies and weights, fermionic Matsubara frequencies
       i (2m+1) pi / beta, a positive tolerance that is at most 2 pi / beta and separates the levels, equal weights on
       equal levels -- at EVERY Matsubara index triple.  Uses the classical real numbers of the standard library
       (see Print Assumptions). *)
Theorem matsubara_edata_regular :
  forall (n : nat) (beta tolr : Rdefinitions.R) (e wr : list Rdefinitions.R),
  Rdefinitions.Rlt (Rdefinitions.IZR 0) beta -> Rdefinitions.Rlt (Rdefinitions.IZR 0) tolr ->
  Rdefinitions.Rle tolr (Rdefinitions.Rdiv (Rdefinitions.Rmult (Rdefinitions.IZR 2) Rtrigo1.PI) beta) ->
  (forall a b, (a < n)%nat -> (b < n)%nat ->
     Rdefinitions.Rlt (Rbasic_fun.Rabs (Rdefinitions.Rminus (nth a e (Rdefinitions.IZR 0)) (nth b e (Rdefinitions.IZR 0)))) tolr ->
     nth a e (Rdefinitions.IZR 0) = nth b e (Rdefinitions.IZR 0) /\
     nth a wr (Rdefinitions.IZR 0) = nth b wr (Rdefinitions.IZR 0)) ->
  forall Cm CXm : nat -> list (list Complex.C),
  (forall i, square Complex.C n (Cm i)) -> (forall i, square Complex.C n (CXm i)) ->
  edata_regular Complex.C GFIdentities.CNum n
    {| ed_beta := Complex.RtoC beta; ed_tol := Complex.RtoC tolr;
       ed_E := map Complex.RtoC e; ed_w := map Complex.RtoC wr; ed_C := Cm; ed_CX := CXm;
       ed_freq := fermi beta |}.
Proof. exact ChiSymmetryC.matsubara_edata_regular. Qed.
Print Assumptions matsubara_edata_regular.

(** The Hubbard atom over C with Gibbs weights e^{-E}/Z, beta = 1, tolerance 1/1000 (PV.ChiSymmetryC.hubC) is regular,
    so for it NO hypothesis about chi is left in the container theorem. *)
Theorem hubC_regular : edata_regular Complex.C GFIdentities.CNum 4%nat hubC.
Proof. exact ChiSymmetryC.hubC_regular. Qed.
Print Assumptions hubC_regular.

Theorem eval_sound_hubC :
  forall (fixed : bool) (van : quad -> bool) (nidx : nat) (ops : list cop) (q : quad) (t : triple)
         (sg : Z) (q0 : quad) (t0 : triple),
  eval_out fixed van nidx (fst (run fixed van nidx ops)) q t = OVal sg q0 t0 ->
  kscale Complex.C GFIdentities.CNum sg (chi_lehmann Complex.C GFIdentities.CNum hubC q0 t0) =
  chi_lehmann Complex.C GFIdentities.CNum hubC q t.
Proof. exact ChiSymmetryC.eval_sound_hubC. Qed.
Print Assumptions eval_sound_hubC.
