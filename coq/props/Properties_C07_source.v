(** C07 -- Symmetry analysis yields a sound partition of Fock space for every lattice:
    the theorems of Properties_C07.v RE-STATED ABOUT THE CONFIGURATION THE SOURCE TEXT OF THIS TREE SELECTS.

    Statements only; proofs in PV.SymmAgreement (from PV.SymmProofs), definitions in PV.SymmConfig.  translator/gen_symm.py reads,
    on every run,
      PVgen.Gen_Symm          the acceptance tests of Symmetrizer::checkSymmetry (in source order / as flags)
      PVgen.Gen_SymmDefault   the condition under which Symmetrizer::compute(bool) constructs and offers S_z
      PVgen.Gen_SymmHash      whether QuantumNumbers::set hashes the ORDERED vector of quantum numbers
      PVgen.Gen_SymmPrepare   the bounds of the loops of Creation/Annihilation/QuadraticOperator::prepare
    and the objects below are the model instantiated with those values:
      [check_symmetry_code]  the three tests, each present iff the source has it
      [symmetrize_code]      Symmetrizer::compute (default / ignored / custom) with that acceptance test and the source's S_z guard
      [sc_compute_code]      StatesClassification::compute with tuples compared in order iff the hash is the ordered one
      [prepare_code]         prepare() of c^+_i, c_i, c^+_i c_j over the range of right blocks its own C++ loop has
      [analyse_code]         the whole documented workflow
    In contrast to Properties_C07.v no variant switch is left: the statements hold for the code as it is, and they type-check
    only while the generated values are the repaired ones ([C07s_source_configuration]); a change of Symmetrizer.cpp,
    Symmetrizer.h or FieldOperator.cpp that alters one of them breaks these obligations.

    Coefficients as in Properties_C07.v: any commutative ring with decidable zero test; [H_block_diagonal] needs no zero divisors;
    statements about prepare() need 1 <> 0.  The hypotheses are satisfiable: SymmProofs.Z_hyps, Qc_hyps (rings),
    SymmAgreement.analyse_code_two_spinless_sites (a lattice, run through [analyse_code]). *)
Require Import Bool List Arith Sorted ZArith.
From PV Require Import Outcome Fock Poly PolySem Symm SymmProofs SymmConfig SymmAgreement.
From PVgen Require Import Gen_Symm Gen_SymmDefault Gen_SymmHash Gen_SymmPrepare.
Import ListNotations.

(** what the source text of this tree says *)
Theorem C07s_source_configuration :
  (gen_checks_commute_H = true /\ gen_checks_commute_n = true /\ gen_checks_uniform_shift = true) /\
  (has_test TestCommuteH gen_tests = gen_checks_commute_H /\ has_test TestCommuteN gen_tests = gen_checks_commute_n /\
   has_test TestUniformShift gen_tests = gen_checks_uniform_shift) /\
  (forall nup n, nup <= n -> gen_sz_guard nup n = Nat.eqb (2 * nup) n) /\
  gen_hash_is_ordered = true /\
  ((forall nb, gen_prepare_cdag_range nb = (0, nb)) /\ (forall nb, gen_prepare_c_range nb = (0, nb)) /\
   (forall nb, gen_prepare_quad_range nb = (0, nb)) /\ gen_prepare_visits_all_blocks = true).
Proof.
  exact (conj source_checkSymmetry_tests (conj source_tests_listed (conj source_sz_guard_is_repaired
          (conj source_hash_is_ordered source_prepare_visits_all_blocks)))).
Qed.

Section C07s.
Variable K : Type.
Variables (k0 k1 : K) (kadd kmul ksub : K -> K -> K) (kopp : K -> K).
Variable kzero : K -> bool.
Variable khalf : K.

Local Notation RING := (ring_ok K k0 k1 kadd kmul ksub kopp kzero).
Local Notation DOMAIN := (forall a b : K, kmul a b = k0 -> a = k0 \/ b = k0).
Local Notation cp := (coef_poly K k0 k1 kadd kmul kopp).
Local Notation in_range := (poly_in_range K).
Local Notation qnf := (qnf K k0 k1 kadd kmul kopp).
Local Notation uniform_shift := (uniform_shift K k0 k1 kadd kmul kopp).
Local Notation cands_in_range mode N :=
  (match mode with SymmCustom _ cands => Forall (in_range N) cands | _ => True end).
Local Notation check_symmetry_code := (check_symmetry_code K k0 k1 kadd kmul ksub kopp kzero).
Local Notation check_symmetry_source_order := (check_symmetry_source_order K k0 k1 kadd kmul ksub kopp kzero).
Local Notation symmetrize_code := (symmetrize_code K k0 k1 kadd kmul ksub kopp kzero khalf).
Local Notation sc_compute_code := (sc_compute_code K k0 kadd ksub kopp kzero).
Local Notation prepare_code := (prepare_code K k1 kadd kopp kzero).
Local Notation analyse_code := (analyse_code K k0 k1 kadd kmul ksub kopp kzero khalf).

(** the configuration of this tree is the hand-written model PV.Symm with both repairs (fixed_sz = shiftfix = true) *)
Theorem C07s_model_variant :
  (forall N H op, check_symmetry_code N H op = check_symmetry K k0 k1 kadd kmul ksub kopp kzero true N H op) /\
  (forall mode spins H, symmetrize_code mode spins H = symmetrize K k0 k1 kadd kmul ksub kopp kzero khalf true true mode spins H) /\
  (forall N ops, sc_compute_code N ops = sc_compute K k0 kadd ksub kopp kzero N ops) /\
  (forall N c o, prepare_code N c o = prepare K kadd kopp kzero N c (fop_poly K k1 o)) /\
  (forall mode spins H, analyse_code mode spins H = analyse K k0 k1 kadd kmul ksub kopp kzero khalf true true mode spins H).
Proof. exact (S_model_variant K k0 k1 kadd kmul ksub kopp kzero khalf). Qed.

(** the order in which checkSymmetry runs its tests in the source does not matter *)
Theorem C07s_test_order_irrelevant : RING -> forall N H op, in_range N op ->
  check_symmetry_source_order N H op = check_symmetry_code N H op.
Proof. exact (S_source_order_irrelevant K k0 k1 kadd kmul ksub kopp kzero). Qed.

(** every state in exactly one block; addresses; order; blocks = classes of equal quantum numbers *)
Theorem C07s_partition_exact : RING -> forall N ops, Forall (in_range N) ops ->
  exists c, sc_compute_code N ops = Done c /\
    let size := Nat.pow 2 N in let nb := numberOfBlocks c in
    (forall s, s < size -> exists b, b < nb /\ getBlockNumber size c s = Done b /\
        forall b', b' < nb -> (In s (nth b' (sc_blocks c) []) <-> b' = b)) /\
    (forall s, s < size -> exists b m,
        getBlockNumber size c s = Done b /\ getInnerState size c s = Done m /\ getFockState c b m = Done s) /\
    (forall b m s, getFockState c b m = Done s ->
        s < size /\ getBlockNumber size c s = Done b /\ getInnerState size c s = Done m) /\
    (forall b, b < nb -> StronglySorted lt (nth b (sc_blocks c) []) /\ nth b (sc_blocks c) [] <> []) /\
    (forall s s', s < size -> s' < size ->
        (getBlockNumber size c s = getBlockNumber size c s' <->
         qnf ops (state_of_nat N s) = qnf ops (state_of_nat N s'))).
Proof. exact (S_partition_exact K k0 k1 kadd kmul ksub kopp kzero). Qed.

(** an operator accepted by the checkSymmetry of this tree is diagonal in the Fock basis *)
Theorem C07s_accepted_is_diagonal : RING -> forall N H Q, in_range N Q ->
  check_symmetry_code N H Q = Done true ->
  forall s t, length s = N -> length t = N -> s <> t -> cp Q s t = k0.
Proof. exact (S_accepted_is_diagonal K k0 k1 kadd kmul ksub kopp kzero). Qed.

(** no matrix element of H between blocks: default, ignored and custom analysis, all lattices *)
Theorem C07s_H_block_diagonal : RING -> DOMAIN -> forall mode spins H sy c,
  in_range (length spins) H -> cands_in_range mode (length spins) ->
  symmetrize_code mode spins H = Done sy -> sc_compute_code (length spins) (sy_ops sy) = Done c ->
  let size := Nat.pow 2 (length spins) in
  forall s t, s < size -> t < size ->
  cp H (state_of_nat (length spins) s) (state_of_nat (length spins) t) <> k0 ->
  exists b, getBlockNumber size c s = Done b /\ getBlockNumber size c t = Done b.
Proof. exact (S_H_block_diagonal K k0 k1 kadd kmul ksub kopp kzero khalf). Qed.

(** EVERY operator the analysis of this tree accepts, in every mode, shifts uniformly under every c^+_i *)
Theorem C07s_accepted_shift_uniformly : RING -> forall mode spins H sy,
  cands_in_range mode (length spins) ->
  symmetrize_code mode spins H = Done sy ->
  Forall (in_range (length spins)) (sy_ops sy) /\ Forall (uniform_shift (length spins)) (sy_ops sy).
Proof. exact (S_accepted_shift_uniformly K k0 k1 kadd kmul ksub kopp kzero khalf). Qed.

(** in particular the default candidates N and S_z *)
Theorem C07s_default_candidates_shift_uniformly : RING -> forall mode spins H sy,
  match mode with SymmCustom _ _ => False | _ => True end ->
  symmetrize_code mode spins H = Done sy ->
  Forall (in_range (length spins)) (sy_ops sy) /\ Forall (uniform_shift (length spins)) (sy_ops sy).
Proof. exact (S_default_candidates_shift_uniformly K k0 k1 kadd kmul ksub kopp kzero khalf). Qed.

(** c_i, c^+_i, c^+_i c_j map a block of the partition this tree produces into one block (different blocks into different
    blocks), and prepare() -- with the loop bounds of the source -- records exactly the occurring block pairs; no hypothesis
    on the accepted operators is left *)
Theorem C07s_single_target : RING -> k1 <> k0 -> forall mode spins H sy c o,
  cands_in_range mode (length spins) -> fop_in_range (length spins) o ->
  symmetrize_code mode spins H = Done sy -> sc_compute_code (length spins) (sy_ops sy) = Done c ->
  let N := length spins in
  let size := Nat.pow 2 N in
  let blk s := nth s (sc_sbi c) 0 in
  (forall s s' sg sg' t t', s < size -> s' < size ->
     act_mono (fop_mono o) (state_of_nat N s) = Done (Some (sg, t)) ->
     act_mono (fop_mono o) (state_of_nat N s') = Done (Some (sg', t')) ->
     (blk s = blk s' <-> blk (nat_of_state t) = blk (nat_of_state t'))) /\
  exists f, prepare_code N c o = Done f /\ fo_bimap f = fo_parts f /\
    forall L R, In (L, R) (fo_bimap f) <->
      (R < numberOfBlocks c /\
       exists s sg t, In s (nth R (sc_blocks c) []) /\
                      act_mono (fop_mono o) (state_of_nat N s) = Done (Some (sg, t)) /\ blk (nat_of_state t) = L).
Proof. exact (S_single_target K k0 k1 kadd kmul ksub kopp kzero khalf). Qed.

(** the analysis of this tree completes without an exception for every lattice, Hamiltonian and mode *)
Theorem C07s_analysis_total : RING -> k1 <> k0 -> forall mode spins H,
  cands_in_range mode (length spins) -> exists a, analyse_code mode spins H = Done a.
Proof. exact (S_analysis_total K k0 k1 kadd kmul ksub kopp kzero khalf). Qed.

End C07s.

Print Assumptions C07s_source_configuration.
Print Assumptions C07s_model_variant.
Print Assumptions C07s_test_order_irrelevant.
Print Assumptions C07s_partition_exact.
Print Assumptions C07s_accepted_is_diagonal.
Print Assumptions C07s_H_block_diagonal.
Print Assumptions C07s_accepted_shift_uniformly.
Print Assumptions C07s_default_candidates_shift_uniformly.
Print Assumptions C07s_single_target.
Print Assumptions C07s_analysis_total.
