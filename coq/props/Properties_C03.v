(** C03 -- Block-wise diagonalisation reproduces the full Hamiltonian's eigen-system.
    Statements only; proofs are in theories/Rotate.v (mathcomp) and theories/HPartProofs.v.

    Proved: the structural part (block assembly, spectrum = multiset of reported eigenvalues, the block filled by
    HamiltonianPart::prepare is the restriction of the full matrix, 1x1 blocks, ground energy, look-up, concatenation).
    NOT proved, certified per run by checks/C03.py: that the pair (eigenvalues, eigenvectors) returned by
    Eigen::SelfAdjointEigenSolver satisfies  H U = U diag(E)  and  U^+ U = 1  up to 1e-10 |H| / 1e-12.
    Trusted mathematics: small residuals imply eigenvalues close to the exact spectrum (Weyl / Bauer-Fike).
    Hence the `_partial` suffix on the theorems whose hypotheses are exactly those residual equations. *)
From mathcomp Require Import all_ssreflect all_algebra.
From PV Require Import Outcome Fock Poly PolySem EDSpec HPart HPartSpec HPartProofs Rotate.
Import GRing.Theory.
Local Open Scope ring_scope.

(** FULL STATEMENT (not provable here: the solver is external code):
      for every Hermitian model and every partition produced by the symmetry analysis, the dumped (E_b, U_b) of all
      blocks assemble to (d, U) with char_poly H = prod_i (X - d_i), U^+ U = 1, H U = U diag(d).
    PROVED: the same conclusion from the per-block equations (which are what the per-run certificate checks). *)
Theorem blocks_diagonalise_full_partial :
  forall (F : fieldType) (conj : {rmorphism F -> F}) (B : finType) (n : nat) (blk eblk : 'I_n -> B)
         (H U : 'M[F]_n) (d : 'rV[F]_n),
  (forall s t, blk s != blk t -> H s t = 0) ->
  (forall s g, blk s != eblk g -> U s g = 0) ->
  (forall s g, blk s = eblk g -> \sum_(t | blk t == eblk g) H s t * U t g = U s g * d 0 g) ->
  H *m U = U *m diag_mx d.
Proof. move=> F conj B n blk eblk H U d; exact: blocks_diagonalise_full. Qed.
Print Assumptions blocks_diagonalise_full_partial.

Theorem blocks_unitary_partial :
  forall (F : fieldType) (conj : {rmorphism F -> F}) (B : finType) (n : nat) (blk eblk : 'I_n -> B) (U : 'M[F]_n),
  (forall s g, blk s != eblk g -> U s g = 0) ->
  (forall g g', eblk g = eblk g' -> \sum_(s | blk s == eblk g) conj (U s g) * U s g' = (g == g')%:R) ->
  unitary conj U.
Proof. move=> F conj B n blk eblk U; exact: blocks_unitary. Qed.
Print Assumptions blocks_unitary_partial.

Theorem similar_same_charpoly_partial :
  forall (F : fieldType) (n : nat) (H U : 'M[F]_n) (d : 'rV[F]_n),
  U \in unitmx -> H *m U = U *m diag_mx d -> char_poly H = \prod_(i < n) ('X - (d 0 i)%:P).
Proof. exact: similar_same_charpoly. Qed.
Print Assumptions similar_same_charpoly_partial.

Theorem blocks_spectrum_partial :
  forall (F : fieldType) (conj : {rmorphism F -> F}), involutive conj ->
  forall (B : finType) (n : nat) (blk eblk : 'I_n -> B) (H U : 'M[F]_n) (d : 'rV[F]_n),
  (forall s t, blk s != blk t -> H s t = 0) ->
  (forall s g, blk s != eblk g -> U s g = 0) ->
  (forall s g, blk s = eblk g -> \sum_(t | blk t == eblk g) H s t * U t g = U s g * d 0 g) ->
  (forall g g', eblk g = eblk g' -> \sum_(s | blk s == eblk g) conj (U s g) * U s g' = (g == g')%:R) ->
  char_poly H = \prod_(i < n) ('X - (d 0 i)%:P).
Proof. move=> F conj conjK B n blk eblk H U d; exact: blocks_spectrum. Qed.
Print Assumptions blocks_spectrum_partial.

Local Close Scope ring_scope.

(** HamiltonianPart::prepare: the block is the restriction of the full Fock-space matrix, no out-of-bounds write *)
Theorem hpart_prepare_is_restriction :
  forall (fb : bool) (K : Type) (NO : numops K) (eps : K),
  (forall x, nadd K NO (n0 K NO) x = x) ->
  (forall x, nadd K NO x (n0 K NO) = x) ->
  (forall x, is_zero K NO eps x = true <-> x = n0 K NO) ->
  forall (S : classification) (p : poly K) (b : nat) (states : list nat),
  wf_class S -> poly_in_range K (sc_M S) p -> List.nth_error (sc_states S) b = Some states ->
  respects K NO (sc_M S) p states ->
  hpart_prepare fb K NO eps S p b = Done (restrict K NO (poly_matrix K NO (sc_M S) p) states states).
Proof. exact HPartProofs.hpart_prepare_is_restriction. Qed.
Print Assumptions hpart_prepare_is_restriction.

(** on a partition that the Hamiltonian does not respect the model (like the code) fills a wrong cell, or writes
    outside the matrix *)
Theorem hpart_unsound_refuted :
  exists (S : classification) (b : nat) (states : list nat),
    wf_class S /\ List.nth_error (sc_states S) b = Some states /\
    exists H, hpart_prepare false BinNums.Z Zops BinInt.Z.one S ex_H b = Done H /\
              H <> restrict BinNums.Z Zops (poly_matrix BinNums.Z Zops 2 ex_H) states states.
Proof. exact HPartProofs.hpart_unsound_refuted. Qed.
Print Assumptions hpart_unsound_refuted.

Theorem one_by_one_block :
  forall (K : Type) (NO : numops K) (kre : K -> K) (h : K) (solver : list K * mat K),
  hpart_compute K NO kre (cons (cons h nil) nil) solver = (cons (kre h) nil, cons (cons (n1 K NO) nil) nil).
Proof. exact HPartProofs.one_by_one_block. Qed.
Print Assumptions one_by_one_block.

Theorem ground_energy_is_min :
  forall (K : Type) (NO : numops K),
  (forall a b, nre_ltb K NO a b = true -> nre_ltb K NO b a = false) ->
  (forall a b c, nre_ltb K NO b a = false -> nre_ltb K NO c b = false -> nre_ltb K NO c a = false) ->
  forall (parts : list (hpart K)) (g : K),
  computeGroundEnergy K NO parts = Done g ->
  (exists p, List.In p parts /\ List.In g (fst p)) /\
  (forall p e, List.In p parts -> List.In e (fst p) -> nre_ltb K NO e g = false).
Proof. exact HPartProofs.ground_energy_is_min. Qed.
Print Assumptions ground_energy_is_min.

Theorem eigenvalue_lookup :
  forall (K : Type) (fb : bool) (S : classification) (parts : list (hpart K)) b states k s part e,
  wf_class S ->
  List.nth_error (sc_states S) b = Some states -> List.nth_error states k = Some s ->
  List.nth_error parts b = Some part -> List.nth_error (fst part) k = Some e ->
  getEigenValue fb K S parts s = Done e.
Proof. exact HPartProofs.eigenvalue_lookup. Qed.
Print Assumptions eigenvalue_lookup.

(** "for any state label": labels outside 0 .. 2^M - 1 must be rejected.  With the test [>=] they are ... *)
Theorem state_label_checked :
  forall (K : Type) (S : classification) (parts : list (hpart K)) q,
  Peano.le (state_size S) q -> getEigenValue true K S parts q = Throws ex_wrong_state.
Proof. exact HPartProofs.state_label_checked. Qed.
Print Assumptions state_label_checked.

(** ... with the test [>] of the code as first read the label 2^M reads one cell past StateBlockIndex.  Which test
    the code has now is established by harness h_c03 on every run. *)
Theorem label_bound_refuted :
  exists (S : classification) (parts : list (hpart BinNums.Z)) (q : nat),
    wf_class S /\ Peano.le (state_size S) q /\
    getBlockNumber false S q = OOB /\ getEigenValue false BinNums.Z S parts q = OOB.
Proof. exact HPartProofs.label_bound_refuted. Qed.
Print Assumptions label_bound_refuted.

Theorem getEigenValues_is_concat :
  forall (K : Type) (S : classification) (parts : list (hpart K)),
  length (List.concat (List.map fst parts)) = state_size S ->
  getEigenValues K S parts = Done (List.concat (List.map fst parts)).
Proof. exact HPartProofs.getEigenValues_is_concat. Qed.
Print Assumptions getEigenValues_is_concat.
