(** C07 -- Symmetry analysis yields a sound partition of Fock space for every lattice.

    Statements only; proofs in PV.SymmProofs, model in PV.Symm (which see for the correspondence with
    Symmetrizer.cpp / StatesClassification.cpp / FieldOperator.cpp and for the modelling assumptions:
    repaired Operator equality, hash injectivity on the occurring quantum-number tuples).

    Coefficients: any commutative ring [K] with a decidable zero test ([ring_ok]); [H_block_diagonal]
    additionally needs a ring without zero divisors; the statements about prepare() need 1 <> 0.
    Instances: integers, exact rationals (SymmProofs.Z_hyps, Qc_hyps).

    The model has two boolean parameters for the two proposed repairs:
      fixed_sz  (offer S_z only when the numbers of up and down indices agree),
      shiftfix  (checkSymmetry also demands [Q, c^+_i] = q_i c^+_i).
    The code as it is corresponds to (false, false).  For it
      - partition_exact, accepted_is_diagonal, H_block_diagonal hold in full;
      - single_target holds for operators that shift uniformly (default candidates, linear forms), the
        full statement over all accepted operators is REFUTED (single_target_refuted);
      - analysis_total is REFUTED (analysis_total_refuted).
    With the repairs the full statements hold (accepted_shift_uniformly_fixed + single_target;
    analysis_total). *)
Require Import Bool List Arith Sorted ZArith.
From PV Require Import Outcome Fock Poly PolySem Symm SymmProofs.
Import ListNotations.

Section C07.
Variable K : Type.
Variables (k0 k1 : K) (kadd kmul ksub : K -> K -> K) (kopp : K -> K).
Variable kzero : K -> bool.
Variable khalf : K.

Local Notation RING := (ring_ok K k0 k1 kadd kmul ksub kopp kzero).
Local Notation DOMAIN := (forall a b : K, kmul a b = k0 -> a = k0 \/ b = k0).
Local Notation cp := (coef_poly K k0 k1 kadd kmul kopp).
Local Notation in_range := (poly_in_range K).
Local Notation check_symmetry := (check_symmetry K k0 k1 kadd kmul ksub kopp kzero).
Local Notation symmetrize := (symmetrize K k0 k1 kadd kmul ksub kopp kzero khalf).
Local Notation sc_compute := (sc_compute K k0 kadd ksub kopp kzero).
Local Notation prepare := (prepare K kadd kopp kzero).
Local Notation analyse := (analyse K k0 k1 kadd kmul ksub kopp kzero khalf).
Local Notation qnf := (qnf K k0 k1 kadd kmul kopp).
Local Notation uniform_shift := (uniform_shift K k0 k1 kadd kmul kopp).
Local Notation cands_in_range mode N :=
  (match mode with SymmCustom _ cands => Forall (in_range N) cands | _ => True end).

(** every state in exactly one block; addresses; order; blocks = classes of equal quantum numbers;
    for ALL numbers of modes and ALL lists of operators with indices in range *)
Theorem C07_partition_exact : RING -> forall N ops, Forall (in_range N) ops ->
  exists c, sc_compute N ops = Done c /\
    let size := Nat.pow 2 N in let nb := numberOfBlocks c in
    (forall s, s < size -> exists b, b < nb /\ getBlockNumber size c s = Done b /\
        forall b', b' < nb -> (In s (nth b' (sc_blocks c) []) <-> b' = b)) /\
    (forall s, s < size -> exists b m,
        getBlockNumber size c s = Done b /\ getInnerState size c s = Done m /\ getFockState c b m = Done s) /\
    (forall b m s, getFockState c b m = Done s ->
        s < size /\ getBlockNumber size c s = Done b /\ getInnerState size c s = Done m) /\
    (forall b, b < nb -> StronglySorted lt (nth b (sc_blocks c) []) /\ nth b (sc_blocks c) [] <> []) /\
    (forall s s', s < size -> s' < size ->
        (getBlockNumber size c s = getBlockNumber size c s' <->
         qnf ops (state_of_nat N s) = qnf ops (state_of_nat N s'))).
Proof. exact (partition_exact K k0 k1 kadd kmul ksub kopp kzero). Qed.

(** an accepted operator is diagonal in the Fock basis *)
Theorem C07_accepted_is_diagonal : RING -> forall sf N H Q, in_range N Q ->
  check_symmetry sf N H Q = Done true ->
  forall s t, length s = N -> length t = N -> s <> t -> cp Q s t = k0.
Proof. exact (accepted_is_diagonal K k0 k1 kadd kmul ksub kopp kzero). Qed.

(** no matrix element of H between blocks: default, ignored and custom analysis, all lattices *)
Theorem C07_H_block_diagonal : RING -> DOMAIN -> forall fz sf mode spins H sy c,
  in_range (length spins) H -> cands_in_range mode (length spins) ->
  symmetrize fz sf mode spins H = Done sy -> sc_compute (length spins) (sy_ops sy) = Done c ->
  let size := Nat.pow 2 (length spins) in
  forall s t, s < size -> t < size ->
  cp H (state_of_nat (length spins) s) (state_of_nat (length spins) t) <> k0 ->
  exists b, getBlockNumber size c s = Done b /\ getBlockNumber size c t = Done b.
Proof. exact (H_block_diagonal K k0 k1 kadd kmul ksub kopp kzero khalf). Qed.

(** c_i, c^+_i, c^+_i c_j map a block into one block (and different blocks into different blocks), and
    prepare() records exactly the occurring block pairs -- when the accepted operators shift uniformly *)
Theorem C07_single_target : RING -> k1 <> k0 -> forall N ops c o,
  Forall (in_range N) ops -> Forall (uniform_shift N) ops -> fop_in_range N o ->
  sc_compute N ops = Done c ->
  let size := Nat.pow 2 N in
  let blk s := nth s (sc_sbi c) 0 in
  (forall s s' sg sg' t t', s < size -> s' < size ->
     act_mono (fop_mono o) (state_of_nat N s) = Done (Some (sg, t)) ->
     act_mono (fop_mono o) (state_of_nat N s') = Done (Some (sg', t')) ->
     (blk s = blk s' <-> blk (nat_of_state t) = blk (nat_of_state t'))) /\
  exists f, prepare N c (fop_poly K k1 o) = Done f /\ fo_bimap f = fo_parts f /\
    forall L R, In (L, R) (fo_bimap f) <->
      (R < numberOfBlocks c /\
       exists s sg t, In s (nth R (sc_blocks c) []) /\
                      act_mono (fop_mono o) (state_of_nat N s) = Done (Some (sg, t)) /\ blk (nat_of_state t) = L).
Proof. exact (single_target K k0 k1 kadd kmul ksub kopp kzero). Qed.

(** the default candidates N and S_z shift uniformly (default and ignored analysis, any lattice) *)
Theorem C07_default_candidates_shift_uniformly : RING -> forall fz sf mode spins H sy,
  match mode with SymmCustom _ _ => False | _ => True end ->
  symmetrize fz sf mode spins H = Done sy ->
  Forall (in_range (length spins)) (sy_ops sy) /\ Forall (uniform_shift (length spins)) (sy_ops sy).
Proof. exact (default_candidates_shift_uniformly K k0 k1 kadd kmul ksub kopp kzero khalf). Qed.

(** so does every operator that is linear in the occupation numbers on the diagonal *)
Theorem C07_linear_candidates_shift_uniformly : RING -> forall N Q c0 terms,
  (forall s, length s = N -> cp Q s s = lin_form K k0 k1 kadd kmul c0 terms s) -> uniform_shift N Q.
Proof. exact (linear_candidates_shift_uniformly K k0 k1 kadd kmul ksub kopp kzero). Qed.

(** with the repaired acceptance test: EVERY accepted operator, in every mode *)
Theorem C07_accepted_shift_uniformly_fixed : RING -> forall fz mode spins H sy,
  cands_in_range mode (length spins) ->
  symmetrize fz true mode spins H = Done sy ->
  Forall (in_range (length spins)) (sy_ops sy) /\ Forall (uniform_shift (length spins)) (sy_ops sy).
Proof. exact (accepted_shift_uniformly_fixed K k0 k1 kadd kmul ksub kopp kzero khalf). Qed.

(** with the S_z repair the analysis completes without an exception for every lattice *)
Theorem C07_analysis_total : RING -> k1 <> k0 -> forall sf mode spins H,
  cands_in_range mode (length spins) -> exists a, analyse true sf mode spins H = Done a.
Proof. exact (analysis_total K k0 k1 kadd kmul ksub kopp kzero khalf). Qed.

(** the code as it is (no S_z repair): the default analysis throws exWrongLabel exactly on the lattices where
    every spin label is up or down but #up <> #down; the ignored and custom analyses always complete *)
Theorem C07_analysis_total_unrepaired : RING -> k1 <> k0 -> forall sf spins H,
  (analyse false sf (SymmDefault K) spins H = Throws 1 <-> sz_defined spins = false) /\
  ((exists a, analyse false sf (SymmDefault K) spins H = Done a) <-> sz_defined spins = true) /\
  (exists a, analyse false sf (SymmIgnore K) spins H = Done a) /\
  (forall cands, Forall (in_range (length spins)) cands -> exists a, analyse false sf (SymmCustom K cands) spins H = Done a).
Proof. exact (analysis_total_unrepaired K k0 k1 kadd kmul ksub kopp kzero khalf). Qed.

End C07.

(** The statements the code as it is violates (faithful model, evaluated at integer coefficients) *)
Open Scope Z_scope.

(** FULL single_target (all accepted integrals of motion): refuted by n_0 n_1 on one Hubbard atom *)
Theorem C07_single_target_refuted :
  exists (H Q : poly Z) (c : qclass Z) (f f' : fieldop),
    poly_in_range Z 2 H /\ poly_in_range Z 2 Q /\
    z_check_symmetry false 2 H Q = Done true /\
    z_symmetrize false false (SymmCustom Z [Q]) [0; 1]%nat H = Done {| sy_ops := [Q]; sy_flags := [true] |} /\
    z_sc_compute 2 [Q] = Done c /\
    nth 0 (sc_sbi c) 0%nat = nth 2 (sc_sbi c) 0%nat /\
    act_mono [cdag 0] (state_of_nat 2 0) = Done (Some (false, state_of_nat 2 1)) /\
    act_mono [cdag 0] (state_of_nat 2 2) = Done (Some (false, state_of_nat 2 3)) /\
    nth 1 (sc_sbi c) 0%nat <> nth 3 (sc_sbi c) 0%nat /\
    z_prepare 2 c (p_cdag Z 1 0) = Done f /\ ~ In (1, 0)%nat (fo_bimap f) /\
    z_prepare 2 c (p_c Z 1 0) = Done f' /\ fo_parts f' = [(0, 0); (0, 1)]%nat /\ fo_bimap f' = [(0, 0)]%nat /\
    fo_fromLeft f' = [(0, 1)]%nat /\
    z_check_symmetry true 2 H Q = Done false.
Proof. exact single_target_refuted. Qed.

(** analysis_total without the repair: refuted by two spinless sites (and by a mixed lattice) *)
Theorem C07_analysis_total_refuted :
  exists (spins : list nat) (H : poly Z),
    poly_in_range Z (length spins) H /\
    z_analyse false false (SymmDefault Z) spins H = Throws 1 /\
    z_analyse false true (SymmDefault Z) spins H = Throws 1 /\
    z_analyse false false (SymmDefault Z) [0; 1; 0]%nat [] = Throws 1.
Proof. exact analysis_total_refuted. Qed.
Close Scope Z_scope.

Print Assumptions C07_partition_exact.
Print Assumptions C07_accepted_is_diagonal.
Print Assumptions C07_H_block_diagonal.
Print Assumptions C07_single_target.
Print Assumptions C07_default_candidates_shift_uniformly.
Print Assumptions C07_linear_candidates_shift_uniformly.
Print Assumptions C07_accepted_shift_uniformly_fixed.
Print Assumptions C07_analysis_total.
Print Assumptions C07_analysis_total_unrepaired.
Print Assumptions C07_single_target_refuted.
Print Assumptions C07_analysis_total_refuted.
