(** C12 -- Wick's theorem: quadratic models give the free propagator and a vanishing vertex.
    Statements only; proofs in PV.WickProofs, PV.WickCase*, PV.WickMain, PV.WickC.

    FULL STATEMENT of the property (NOT proved in this generality):
      for every M, every Hermitian M x M matrix h (real symmetric in the real build), every beta > 0:
        with H = sum_ij h_ij c^+_i c_j, (E, U) an eigen-decomposition of H on the Fock space,
        w = weights beta E, C_i = U^+ c_i U:
          forall i j z,          gf E w C_i C^+_j z = ((z - h)^{-1})_ij                      (1)
          forall i j k l n1 n2 n3, Vertex4::value = chi - chi0 = 0                          (2)
    PROVED here ("_partial"): (1) and (2) for DIAGONAL h = diag(eps_1..eps_M):
      (1) M = 1, 2, 3, all eps, all Boltzmann factors, all z with z <> eps_i  -- as identities of rational
          functions over an arbitrary field (x_i = e^{-beta eps_i} are free field elements);
      (2) M = 2: all sixteen index quadruples, all frequency triples and all levels, in every resonance pattern
          (z1+z2 = 0, z1 = z3, z2 = z3 and combinations) and every level pattern (e1 = e2, e1 + e2 = 0, both,
          neither) -- over an arbitrary field at every "regular" point, and, instantiated at Coquelicot's C,
          for ALL real e1 e2, ALL beta > 0 and ALL triples of fermionic Matsubara numbers.
    MISSING: the step from diagonal h to arbitrary Hermitian h (a unitary change of the single-particle basis
    d_a = sum_i V_ai c_i maps H to diagonal form; G and chi are multilinear in the operators, so (1), (2)
    follow from the diagonal case) and M > 2 for (2) / M > 3 for (1).  That step is covered numerically by
    checks/C12.py (random real symmetric / complex Hermitian h on up to 5 modes, degenerate, zero,
    block-diagonal), not by proof.

    The statements are about the EXECUTABLE SPECIFICATION PV.EDSpec (gf, chi, phi, op_matrix) instantiated at
    [FNum F] for a field setting F whose threshold tests are exact zero tests (PV.Wick), about the
    GENERATED Vertex4::value (PVgen.Gen_Vertex4) and the documented chi0 (PV.Matsubara4Spec.chi0).
    The generic statements need no axioms; the instance over C uses the classical real axioms. *)
Require Import Reals List ZArith Bool Arith.
From Coquelicot Require Import Coquelicot.
From PV Require Import Outcome Fock Poly EDSpec Matsubara4Spec Wick WickProofs WickMain WickC.
From PVgen Require Import Gen_Vertex4.
Import ListNotations.

(** (1) free propagator, M = 1, 2, 3 *)
Theorem free_gf_diag_partial_M1 : forall (F : fsetting) (e1 x1 z : fK F),
  fadd F (f1 F) x1 <> f0 F -> fsub F z e1 <> f0 F ->
  gf (fK F) (FNum F) (energies F [e1]) (gibbs F [x1]) (Cm F 1 0) (CXm F 1 0) z = gfree F [e1] 0 0 z.
Proof. exact WickProofs.free_gf_diag_1. Qed.
Print Assumptions free_gf_diag_partial_M1.

Theorem free_gf_diag_partial_M2 : forall (F : fsetting) (e1 e2 x1 x2 z : fK F) (i j : nat), (i < 2)%nat -> (j < 2)%nat ->
  fadd F (f1 F) x1 <> f0 F -> fadd F (f1 F) x2 <> f0 F -> fsub F z e1 <> f0 F -> fsub F z e2 <> f0 F ->
  gf (fK F) (FNum F) (energies F [e1;e2]) (gibbs F [x1;x2]) (Cm F 2 i) (CXm F 2 j) z = gfree F [e1;e2] i j z.
Proof. exact WickProofs.free_gf_diag_2. Qed.
Print Assumptions free_gf_diag_partial_M2.

Theorem free_gf_diag_partial_M3 : forall (F : fsetting) (e1 e2 e3 x1 x2 x3 z : fK F) (i j : nat), (i < 3)%nat -> (j < 3)%nat ->
  fadd F (f1 F) x1 <> f0 F -> fadd F (f1 F) x2 <> f0 F -> fadd F (f1 F) x3 <> f0 F ->
  fsub F z e1 <> f0 F -> fsub F z e2 <> f0 F -> fsub F z e3 <> f0 F ->
  gf (fK F) (FNum F) (energies F [e1;e2;e3]) (gibbs F [x1;x2;x3]) (Cm F 3 i) (CXm F 3 j) z = gfree F [e1;e2;e3] i j z.
Proof. exact WickProofs.free_gf_diag_3. Qed.
Print Assumptions free_gf_diag_partial_M3.

(** (2) two modes: chi equals the Wick part for every index quadruple at every regular point *)
Theorem free_chi_is_chi0_partial : forall (F : fsetting) (beta e1 e2 x1 x2 z1 z2 z3 : fK F) (i j k l : nat),
  (i < 2)%nat -> (j < 2)%nat -> (k < 2)%nat -> (l < 2)%nat ->
  regular F e1 e2 x1 x2 z1 z2 z3 ->
  chi (fK F) (FNum F) beta (ftol F) (energies F [e1;e2]) (gibbs F [x1;x2])
      (Cm F 2 i) (Cm F 2 j) (CXm F 2 k) (CXm F 2 l) z1 z2 z3 =
  chi0_free F [e1;e2] beta i j k l z1 z2 z3.
Proof. exact WickMain.free_chi_is_chi0. Qed.
Print Assumptions free_chi_is_chi0_partial.

(** ... which is the documented chi0 (doc/gamma4.tex, PV.Matsubara4Spec.chi0) built from the specification's G *)
Theorem free_chi_is_documented_chi0_partial :
  forall (F : fsetting) (zf : Z -> fK F), (forall n m, fsub F (zf n) (zf m) = f0 F -> n = m) ->
  forall (beta e1 e2 x1 x2 : fK F) (i j k l : nat) (n1 n2 n3 : Z),
  (i < 2)%nat -> (j < 2)%nat -> (k < 2)%nat -> (l < 2)%nat ->
  regular F e1 e2 x1 x2 (zf n1) (zf n2) (zf n3) ->
  Chi4 F zf beta e1 e2 x1 x2 i j k l n1 n2 n3 =
  chi0 (fK F) (f0 F) (f1 F) (fmul F) (fsub F) beta
       (Gmn F zf e1 e2 x1 x2 i k) (Gmn F zf e1 e2 x1 x2 j l) (Gmn F zf e1 e2 x1 x2 i l) (Gmn F zf e1 e2 x1 x2 j k) n1 n2 n3.
Proof. exact WickMain.free_chi_is_documented_chi0. Qed.
Print Assumptions free_chi_is_documented_chi0_partial.

(** ... so that the generated Vertex4::value vanishes *)
Theorem free_vertex_zero_partial :
  forall (F : fsetting) (zf : Z -> fK F), (forall n m, fsub F (zf n) (zf m) = f0 F -> n = m) ->
  forall (beta e1 e2 x1 x2 : fK F) (i j k l : nat) (n1 n2 n3 : Z),
  (i < 2)%nat -> (j < 2)%nat -> (k < 2)%nat -> (l < 2)%nat ->
  regular F e1 e2 x1 x2 (zf n1) (zf n2) (zf n3) ->
  vertex_value (fK F) (fadd F) (fsub F) (fmul F) beta (Chi4 F zf beta e1 e2 x1 x2 i j k l)
     (Gmn F zf e1 e2 x1 x2 i k) (Gmn F zf e1 e2 x1 x2 j l) (Gmn F zf e1 e2 x1 x2 i l) (Gmn F zf e1 e2 x1 x2 j k)
     n1 n2 n3 = f0 F.
Proof. exact WickMain.free_vertex_zero. Qed.
Print Assumptions free_vertex_zero_partial.

(** The hypotheses are satisfiable: the setting over C exists and EVERY physical point is regular. *)
Theorem regular_points_exist : forall (e1 e2 beta : R) (n1 n2 n3 : Z), (0 < beta)%R ->
  regular CSetting (RtoC e1) (RtoC e2) (RtoC (exp (- beta * e1))) (RtoC (exp (- beta * e2)))
          (zfC beta n1) (zfC beta n2) (zfC beta n3).
Proof. exact WickC.regular_C. Qed.
Print Assumptions regular_points_exist.

(** Over the complex numbers, without side conditions: all real levels (degenerate, zero, opposite), all beta > 0,
    all index quadruples, all triples of Matsubara numbers (coinciding, n1 + n2 = -1, ...). *)
Theorem free_vertex_zero_C_partial : forall (e1 e2 beta : R) (i j k l : nat) (n1 n2 n3 : Z),
  (0 < beta)%R -> (i < 2)%nat -> (j < 2)%nat -> (k < 2)%nat -> (l < 2)%nat ->
  let x1 := RtoC (exp (- beta * e1)) in
  let x2 := RtoC (exp (- beta * e2)) in
  vertex_value C Cplus Cminus Cmult (RtoC beta)
     (Chi4 CSetting (zfC beta) (RtoC beta) (RtoC e1) (RtoC e2) x1 x2 i j k l)
     (Gmn CSetting (zfC beta) (RtoC e1) (RtoC e2) x1 x2 i k) (Gmn CSetting (zfC beta) (RtoC e1) (RtoC e2) x1 x2 j l)
     (Gmn CSetting (zfC beta) (RtoC e1) (RtoC e2) x1 x2 i l) (Gmn CSetting (zfC beta) (RtoC e1) (RtoC e2) x1 x2 j k)
     n1 n2 n3 = RtoC 0.
Proof. exact WickC.free_vertex_zero_C. Qed.
Print Assumptions free_vertex_zero_C_partial.

Theorem free_gf_diag_C_partial : forall (e1 e2 beta : R) (i j : nat) (n : Z),
  (0 < beta)%R -> (i < 2)%nat -> (j < 2)%nat ->
  Gmn CSetting (zfC beta) (RtoC e1) (RtoC e2) (RtoC (exp (- beta * e1))) (RtoC (exp (- beta * e2))) i j n =
  if Nat.eqb i j then Cdiv (RtoC 1) (Cminus (zfC beta n) (RtoC (nth i [e1; e2] 0%R))) else RtoC 0.
Proof. exact WickC.free_gf_diag_C. Qed.
Print Assumptions free_gf_diag_C_partial.

(** The Gibbs table used above is what the specification's weight function PV.EDSpec.weights computes for this
    model (real ordering of energies, real exponential), for every real e1 e2 and every beta. *)
Theorem weights_is_gibbs_M2 : forall (beta e1 e2 : R),
  weights C CNumR (RtoC beta) (energies CSetting [RtoC e1; RtoC e2]) =
  gibbs CSetting [RtoC (exp (- beta * e1)); RtoC (exp (- beta * e2))].
Proof. exact WickC.weights_is_gibbs_2. Qed.
Print Assumptions weights_is_gibbs_M2.
