(** C12 -- Wick's theorem: quadratic models give the free propagator and a vanishing vertex.
    Statements only; proofs in PV.WickProofs, PV.WickCase*, PV.WickMain, PV.WickC (two modes, round 1) and
    PV.WickAllM, PV.WickAllMChi, PV.WickAllMMain, PV.WickAllMC, PV.WickAllMLin (every number of modes, round 2).

    FULL STATEMENT of the property:
      for every M, every Hermitian M x M matrix h (real symmetric in the real build), every beta > 0:
        with H = sum_ij h_ij c^+_i c_j, (E, U) an eigen-decomposition of H on the Fock space,
        w = weights beta E, C_i = U^+ c_i U:
          forall i j z,          gf E w C_i C^+_j z = ((z - h)^{-1})_ij                      (1)
          forall i j k l n1 n2 n3, Vertex4::value = chi - chi0 = 0                          (2)

    PROVED, part A (second half of this file, names without "_partial"): DIAGONAL h = diag(eps_1..eps_M),
      EVERY number of modes M (induction over the modes; no enumeration of Fock states):
      (1) [free_gf_diag_allM]            G_ij(z) = delta_ij/(z - eps_i), all M, all i j < M, as an identity of
                                         rational functions over an arbitrary field;
      (2) [free_chi_is_chi0_diag_allM], [free_chi_is_documented_chi0_diag_allM], [free_vertex_zero_diag_allM]
                                         chi = documented chi0 and the GENERATED Vertex4::value = 0 for all M >= 1,
                                         ALL index quadruples i j k l < M, all frequency triples in every resonance
                                         pattern and all levels (degenerate, zero, opposite) at every regular point;
          [free_gf_diag_allM_C], [free_vertex_zero_diag_allM_C], [regular_points_exist_allM]
                                         the same over Coquelicot's C for ALL real levels, ALL beta > 0, ALL Matsubara
                                         numbers, without side conditions;
          [weights_is_gibbs_allM]        the Gibbs table of these statements is what EDSpec.weights computes, all M.
    PROVED, part B: ARBITRARY h (any square matrix over a field), in matrix form (mathcomp):
      [resolvent_of_rotated_diagonal]    h = V diag(d) V^-1  =>  (z - h)^-1 = V diag(1/(z - d)) V^-1;
      [lehmann_is_resolvent_any_h]       for operator matrices C_i, CX_i with the canonical anticommutation relations
                                         in a basis where H = sum h_kl CX_k C_l is diagonal (the eigenbasis), normalised
                                         weights and z off the poles, the Lehmann double sum that EDSpec.gf computes
                                         is the matrix inverse of (z - h): statement (1) for every h, any M.
    PROVED earlier ("_partial", first half of this file): (1) M = 1, 2, 3 and (2) M = 2 by enumeration; superseded by
      part A but kept (the M = 2 theorem is the base case of the induction).
    STILL MISSING (decided numerically by checks/C12.py on random real symmetric / complex Hermitian h on up to 5
    modes, degenerate, zero, block-diagonal):
      - the change of representation from the mathcomp matrices of part B to the list-of-rows matrices of
        PV.EDSpec together with an eigen-decomposition certificate that holds EXACTLY (in floating point it holds
        up to the certified residuals), so (1) for non-diagonal h is not a theorem about PV.EDSpec.gf itself;
      - (2) for non-diagonal h (multilinearity of chi under the single-particle rotation, or the two-particle
        equation of motion).

    The statements are about the EXECUTABLE SPECIFICATION PV.EDSpec (gf, chi, phi, op_matrix) instantiated at
    [FNum F] for a field setting F whose threshold tests are exact zero tests (PV.Wick), about the
    GENERATED Vertex4::value (PVgen.Gen_Vertex4) and the documented chi0 (PV.Matsubara4Spec.chi0).
    The generic statements need no axioms; the instances over C use the classical real axioms. *)
Require Import Reals List ZArith Bool Arith.
From Coquelicot Require Import Coquelicot.
From PV Require Import Outcome Fock Poly EDSpec Matsubara4Spec Wick WickProofs WickMain WickC.
From PVgen Require Import Gen_Vertex4.
Import ListNotations.

(** (1) free propagator, M = 1, 2, 3 *)
Theorem free_gf_diag_partial_M1 : forall (F : fsetting) (e1 x1 z : fK F),
  fadd F (f1 F) x1 <> f0 F -> fsub F z e1 <> f0 F ->
  gf (fK F) (FNum F) (energies F [e1]) (gibbs F [x1]) (Cm F 1 0) (CXm F 1 0) z = gfree F [e1] 0 0 z.
Proof. exact WickProofs.free_gf_diag_1. Qed.
Print Assumptions free_gf_diag_partial_M1.

Theorem free_gf_diag_partial_M2 : forall (F : fsetting) (e1 e2 x1 x2 z : fK F) (i j : nat), (i < 2)%nat -> (j < 2)%nat ->
  fadd F (f1 F) x1 <> f0 F -> fadd F (f1 F) x2 <> f0 F -> fsub F z e1 <> f0 F -> fsub F z e2 <> f0 F ->
  gf (fK F) (FNum F) (energies F [e1;e2]) (gibbs F [x1;x2]) (Cm F 2 i) (CXm F 2 j) z = gfree F [e1;e2] i j z.
Proof. exact WickProofs.free_gf_diag_2. Qed.
Print Assumptions free_gf_diag_partial_M2.

Theorem free_gf_diag_partial_M3 : forall (F : fsetting) (e1 e2 e3 x1 x2 x3 z : fK F) (i j : nat), (i < 3)%nat -> (j < 3)%nat ->
  fadd F (f1 F) x1 <> f0 F -> fadd F (f1 F) x2 <> f0 F -> fadd F (f1 F) x3 <> f0 F ->
  fsub F z e1 <> f0 F -> fsub F z e2 <> f0 F -> fsub F z e3 <> f0 F ->
  gf (fK F) (FNum F) (energies F [e1;e2;e3]) (gibbs F [x1;x2;x3]) (Cm F 3 i) (CXm F 3 j) z = gfree F [e1;e2;e3] i j z.
Proof. exact WickProofs.free_gf_diag_3. Qed.
Print Assumptions free_gf_diag_partial_M3.

(** (2) two modes: chi equals the Wick part for every index quadruple at every regular point *)
Theorem free_chi_is_chi0_partial : forall (F : fsetting) (beta e1 e2 x1 x2 z1 z2 z3 : fK F) (i j k l : nat),
  (i < 2)%nat -> (j < 2)%nat -> (k < 2)%nat -> (l < 2)%nat ->
  regular F e1 e2 x1 x2 z1 z2 z3 ->
  chi (fK F) (FNum F) beta (ftol F) (energies F [e1;e2]) (gibbs F [x1;x2])
      (Cm F 2 i) (Cm F 2 j) (CXm F 2 k) (CXm F 2 l) z1 z2 z3 =
  chi0_free F [e1;e2] beta i j k l z1 z2 z3.
Proof. exact WickMain.free_chi_is_chi0. Qed.
Print Assumptions free_chi_is_chi0_partial.

(** ... which is the documented chi0 (doc/gamma4.tex, PV.Matsubara4Spec.chi0) built from the specification's G *)
Theorem free_chi_is_documented_chi0_partial :
  forall (F : fsetting) (zf : Z -> fK F), (forall n m, fsub F (zf n) (zf m) = f0 F -> n = m) ->
  forall (beta e1 e2 x1 x2 : fK F) (i j k l : nat) (n1 n2 n3 : Z),
  (i < 2)%nat -> (j < 2)%nat -> (k < 2)%nat -> (l < 2)%nat ->
  regular F e1 e2 x1 x2 (zf n1) (zf n2) (zf n3) ->
  Chi4 F zf beta e1 e2 x1 x2 i j k l n1 n2 n3 =
  chi0 (fK F) (f0 F) (f1 F) (fmul F) (fsub F) beta
       (Gmn F zf e1 e2 x1 x2 i k) (Gmn F zf e1 e2 x1 x2 j l) (Gmn F zf e1 e2 x1 x2 i l) (Gmn F zf e1 e2 x1 x2 j k) n1 n2 n3.
Proof. exact WickMain.free_chi_is_documented_chi0. Qed.
Print Assumptions free_chi_is_documented_chi0_partial.

(** ... so that the generated Vertex4::value vanishes *)
Theorem free_vertex_zero_partial :
  forall (F : fsetting) (zf : Z -> fK F), (forall n m, fsub F (zf n) (zf m) = f0 F -> n = m) ->
  forall (beta e1 e2 x1 x2 : fK F) (i j k l : nat) (n1 n2 n3 : Z),
  (i < 2)%nat -> (j < 2)%nat -> (k < 2)%nat -> (l < 2)%nat ->
  regular F e1 e2 x1 x2 (zf n1) (zf n2) (zf n3) ->
  vertex_value (fK F) (fadd F) (fsub F) (fmul F) beta (Chi4 F zf beta e1 e2 x1 x2 i j k l)
     (Gmn F zf e1 e2 x1 x2 i k) (Gmn F zf e1 e2 x1 x2 j l) (Gmn F zf e1 e2 x1 x2 i l) (Gmn F zf e1 e2 x1 x2 j k)
     n1 n2 n3 = f0 F.
Proof. exact WickMain.free_vertex_zero. Qed.
Print Assumptions free_vertex_zero_partial.

(** The hypotheses are satisfiable: the setting over C exists and EVERY physical point is regular. *)
Theorem regular_points_exist : forall (e1 e2 beta : R) (n1 n2 n3 : Z), (0 < beta)%R ->
  regular CSetting (RtoC e1) (RtoC e2) (RtoC (exp (- beta * e1))) (RtoC (exp (- beta * e2)))
          (zfC beta n1) (zfC beta n2) (zfC beta n3).
Proof. exact WickC.regular_C. Qed.
Print Assumptions regular_points_exist.

(** Over the complex numbers, without side conditions: all real levels (degenerate, zero, opposite), all beta > 0,
    all index quadruples, all triples of Matsubara numbers (coinciding, n1 + n2 = -1, ...). *)
Theorem free_vertex_zero_C_partial : forall (e1 e2 beta : R) (i j k l : nat) (n1 n2 n3 : Z),
  (0 < beta)%R -> (i < 2)%nat -> (j < 2)%nat -> (k < 2)%nat -> (l < 2)%nat ->
  let x1 := RtoC (exp (- beta * e1)) in
  let x2 := RtoC (exp (- beta * e2)) in
  vertex_value C Cplus Cminus Cmult (RtoC beta)
     (Chi4 CSetting (zfC beta) (RtoC beta) (RtoC e1) (RtoC e2) x1 x2 i j k l)
     (Gmn CSetting (zfC beta) (RtoC e1) (RtoC e2) x1 x2 i k) (Gmn CSetting (zfC beta) (RtoC e1) (RtoC e2) x1 x2 j l)
     (Gmn CSetting (zfC beta) (RtoC e1) (RtoC e2) x1 x2 i l) (Gmn CSetting (zfC beta) (RtoC e1) (RtoC e2) x1 x2 j k)
     n1 n2 n3 = RtoC 0.
Proof. exact WickC.free_vertex_zero_C. Qed.
Print Assumptions free_vertex_zero_C_partial.

Theorem free_gf_diag_C_partial : forall (e1 e2 beta : R) (i j : nat) (n : Z),
  (0 < beta)%R -> (i < 2)%nat -> (j < 2)%nat ->
  Gmn CSetting (zfC beta) (RtoC e1) (RtoC e2) (RtoC (exp (- beta * e1))) (RtoC (exp (- beta * e2))) i j n =
  if Nat.eqb i j then Cdiv (RtoC 1) (Cminus (zfC beta n) (RtoC (nth i [e1; e2] 0%R))) else RtoC 0.
Proof. exact WickC.free_gf_diag_C. Qed.
Print Assumptions free_gf_diag_C_partial.

(** The Gibbs table used above is what the specification's weight function PV.EDSpec.weights computes for this
    model (real ordering of energies, real exponential), for every real e1 e2 and every beta. *)
Theorem weights_is_gibbs_M2 : forall (beta e1 e2 : R),
  weights C CNumR (RtoC beta) (energies CSetting [RtoC e1; RtoC e2]) =
  gibbs CSetting [RtoC (exp (- beta * e1)); RtoC (exp (- beta * e2))].
Proof. exact WickC.weights_is_gibbs_2. Qed.
Print Assumptions weights_is_gibbs_M2.

(** ================================================================================================
    EVERY NUMBER OF MODES (diagonal h): proofs by induction over the modes, PV.WickAllM* *)
From PV Require Import WickAllM WickAllMChi WickAllMMain WickAllMC WickAllMQ.

(** (1) the free propagator for every M.  [energies F eps], [gibbs F xs] are the tables E_s = sum_{i in s} eps_i,
    w_s = prod_{i in s} x_i / prod_i (1 + x_i) over the 2^M Fock states; [Cm F M i], [CXm F M j] the specification's
    Jordan-Wigner matrices of c_i, c^+_j on M modes. *)
Theorem free_gf_diag_allM : forall (F : fsetting) (eps xs : list (fK F)) (z : fK F) (i j : nat),
  length xs = length eps -> (i < length eps)%nat -> (j < length eps)%nat ->
  (forall x, In x xs -> fadd F (f1 F) x <> f0 F) -> (i = j -> fsub F z (nth i eps (f0 F)) <> f0 F) ->
  gf (fK F) (FNum F) (energies F eps) (gibbs F xs) (Cm F (length eps) i) (CXm F (length eps) j) z = gfree F eps i j z.
Proof. exact WickAllM.free_gf_diag_allM. Qed.
Print Assumptions free_gf_diag_allM.

(** (2) every M >= 1, every index quadruple: chi equals the Wick part at every regular point
    ([regularM]: 1 + x_p <> 0 for all modes and Wick.regular for every pair of modes) *)
Theorem free_chi_is_chi0_diag_allM : forall (F : fsetting) (eps xs : list (fK F)) (beta z1 z2 z3 : fK F) (i j k l : nat),
  (1 <= length eps)%nat -> regularM F eps xs z1 z2 z3 ->
  (i < length eps)%nat -> (j < length eps)%nat -> (k < length eps)%nat -> (l < length eps)%nat ->
  chi (fK F) (FNum F) beta (ftol F) (energies F eps) (gibbs F xs)
      (Cm F (length eps) i) (Cm F (length eps) j) (CXm F (length eps) k) (CXm F (length eps) l) z1 z2 z3 =
  chi0_free F eps beta i j k l z1 z2 z3.
Proof. exact WickAllMMain.free_chi_is_chi0_allM. Qed.
Print Assumptions free_chi_is_chi0_diag_allM.

(** two ingredients of independent interest: a quadruple in which some mode q occurs an odd number of times
    (i.e. every quadruple that does not conserve the mode index) has chi = 0 identically ... *)
Theorem chi_nonconserving_zero_allM : forall (F : fsetting) (eps xs : list (fK F)) (i j k l : nat) (beta tol z1 z2 z3 : fK F) (q : nat),
  (i < length eps)%nat -> (j < length eps)%nat -> (k < length eps)%nat -> (l < length eps)%nat ->
  xor4 i j k l q = true ->
  chi (fK F) (FNum F) beta tol (energies F eps) (gibbs F xs)
      (Cm F (length eps) i) (Cm F (length eps) j) (CXm F (length eps) k) (CXm F (length eps) l) z1 z2 z3 = f0 F.
Proof. exact WickAllMChi.chi_odd_zero. Qed.
Print Assumptions chi_nonconserving_zero_allM.

(** ... and a mode p that none of the four operators touches factors out of chi exactly
    ([del p] removes the p-th entry, [dn p i] is the index of mode i once mode p is gone) *)
Theorem chi_spectator_factors_out : forall (F : fsetting) (eps xs : list (fK F)) (p i j k l : nat) (beta tol z1 z2 z3 : fK F),
  length xs = length eps -> (p < length eps)%nat ->
  (i < length eps)%nat -> (j < length eps)%nat -> (k < length eps)%nat -> (l < length eps)%nat ->
  i <> p -> j <> p -> k <> p -> l <> p -> paired i j k l -> (forall x, In x xs -> fadd F (f1 F) x <> f0 F) ->
  chi (fK F) (FNum F) beta tol (energies F eps) (gibbs F xs)
      (Cm F (length eps) i) (Cm F (length eps) j) (CXm F (length eps) k) (CXm F (length eps) l) z1 z2 z3 =
  chi (fK F) (FNum F) beta tol (energies F (del p eps)) (gibbs F (del p xs))
      (Cm F (length (del p eps)) (dn p i)) (Cm F (length (del p eps)) (dn p j))
      (CXm F (length (del p eps)) (dn p k)) (CXm F (length (del p eps)) (dn p l)) z1 z2 z3.
Proof. exact WickAllMChi.chi_remove_spectator. Qed.
Print Assumptions chi_spectator_factors_out.

(** chi is the documented chi0 built from the specification's own G, and the generated Vertex4::value vanishes *)
Theorem free_chi_is_documented_chi0_diag_allM :
  forall (F : fsetting) (zf : Z -> fK F), (forall n m, fsub F (zf n) (zf m) = f0 F -> n = m) ->
  forall (beta : fK F) (eps xs : list (fK F)) (i j k l : nat) (n1 n2 n3 : Z), (1 <= length eps)%nat ->
  (i < length eps)%nat -> (j < length eps)%nat -> (k < length eps)%nat -> (l < length eps)%nat ->
  regularM F eps xs (zf n1) (zf n2) (zf n3) ->
  Chi4M F zf beta eps xs i j k l n1 n2 n3 =
  chi0 (fK F) (f0 F) (f1 F) (fmul F) (fsub F) beta
       (GmnM F zf eps xs i k) (GmnM F zf eps xs j l) (GmnM F zf eps xs i l) (GmnM F zf eps xs j k) n1 n2 n3.
Proof. exact WickAllMMain.free_chi_is_documented_chi0_allM. Qed.
Print Assumptions free_chi_is_documented_chi0_diag_allM.

Theorem free_vertex_zero_diag_allM :
  forall (F : fsetting) (zf : Z -> fK F), (forall n m, fsub F (zf n) (zf m) = f0 F -> n = m) ->
  forall (beta : fK F) (eps xs : list (fK F)) (i j k l : nat) (n1 n2 n3 : Z), (1 <= length eps)%nat ->
  (i < length eps)%nat -> (j < length eps)%nat -> (k < length eps)%nat -> (l < length eps)%nat ->
  regularM F eps xs (zf n1) (zf n2) (zf n3) ->
  vertex_value (fK F) (fadd F) (fsub F) (fmul F) beta (Chi4M F zf beta eps xs i j k l)
     (GmnM F zf eps xs i k) (GmnM F zf eps xs j l) (GmnM F zf eps xs i l) (GmnM F zf eps xs j k) n1 n2 n3 = f0 F.
Proof. exact WickAllMMain.free_vertex_zero_diag_allM. Qed.
Print Assumptions free_vertex_zero_diag_allM.

(** The hypotheses are satisfiable: over C EVERY physical point is regular, for any list of real levels. *)
Theorem regular_points_exist_allM : forall (es : list R) (beta : R) (n1 n2 n3 : Z), (0 < beta)%R ->
  regularM CSetting (levelsC es) (boltzC beta es) (zfC beta n1) (zfC beta n2) (zfC beta n3).
Proof. exact WickAllMC.regularM_C. Qed.
Print Assumptions regular_points_exist_allM.

(** Over the complex numbers, without side conditions: any number of real levels (degenerate, zero, opposite),
    all beta > 0, all index pairs / quadruples, all Matsubara numbers.
    [levelsC es] = map RtoC es, [boltzC beta es] = map (fun e => RtoC (exp (- beta * e))) es. *)
Theorem free_gf_diag_allM_C : forall (es : list R) (beta : R) (i j : nat) (n : Z),
  (0 < beta)%R -> (i < length es)%nat -> (j < length es)%nat ->
  GmnM CSetting (zfC beta) (levelsC es) (boltzC beta es) i j n =
  if Nat.eqb i j then Cdiv (RtoC 1) (Cminus (zfC beta n) (RtoC (nth i es 0%R))) else RtoC 0.
Proof. exact WickAllMC.free_gf_diag_allM_C. Qed.
Print Assumptions free_gf_diag_allM_C.

Theorem free_vertex_zero_diag_allM_C : forall (es : list R) (beta : R) (i j k l : nat) (n1 n2 n3 : Z),
  (0 < beta)%R -> (i < length es)%nat -> (j < length es)%nat -> (k < length es)%nat -> (l < length es)%nat ->
  let eps := levelsC es in let xs := boltzC beta es in
  vertex_value C Cplus Cminus Cmult (RtoC beta)
     (Chi4M CSetting (zfC beta) (RtoC beta) eps xs i j k l)
     (GmnM CSetting (zfC beta) eps xs i k) (GmnM CSetting (zfC beta) eps xs j l)
     (GmnM CSetting (zfC beta) eps xs i l) (GmnM CSetting (zfC beta) eps xs j k) n1 n2 n3 = RtoC 0.
Proof. exact WickAllMC.free_vertex_zero_diag_allM_C. Qed.
Print Assumptions free_vertex_zero_diag_allM_C.

(** The Gibbs table used above is what the specification's weight function PV.EDSpec.weights computes from the
    energy table (real ordering of energies, real exponential), for any number of real levels and every beta. *)
Theorem weights_is_gibbs_allM : forall (beta : R) (es : list R),
  weights C CNumR (RtoC beta) (energies CSetting (levelsC es)) = gibbs CSetting (boltzC beta es).
Proof. exact WickAllMC.weights_is_gibbs_allM. Qed.
Print Assumptions weights_is_gibbs_allM.

(** Non-vacuity by computation (vm_compute on exact rationals, independent of the theorems; PV.WickAllMQ):
    4 modes with levels 1/2, -1/3, 1/2, 0 (16 Fock states): G for all 16 index pairs and chi for ALL 256 index
    quadruples agree with the closed forms at a generic frequency triple and at z1 = z3, z2 = z3, z1 + z2 = 0;
    5 modes (32 Fock states): G for all 25 index pairs. *)
Example computed_M4_G_is_closed_form :
  forallb (fun i => forallb (fun j => same (G4 i j (q 7 5)) (gfree QcSetting eps4 i j (q 7 5))) idx4) idx4 = true.
Proof. exact WickAllMQ.G4_closed_form. Qed.
Example computed_M4_chi_is_chi0_at_z1_eq_z3 : all_quadruples4 (q 3 1) (q 7 5) (q 11 7) (q 7 5) = true.
Proof. exact WickAllMQ.chi4_z1_eq_z3. Qed.
Example computed_M4_chi_is_chi0_generic : all_quadruples4 (q 3 1) (q 7 5) (q 11 7) (q 13 9) = true.
Proof. exact WickAllMQ.chi4_generic. Qed.

(** ================================================================================================
    ARBITRARY single-particle matrix h (mathcomp matrices; PV.WickAllMLin).  Nothing above this line is affected
    by the imports below. *)
From mathcomp Require Import all_ssreflect all_algebra.
From PV Require Import WickAllMLin.
Import GRing.Theory.
Local Open Scope ring_scope.

(** h = V diag(d) W with V W = 1 (W = V^+ for unitary V): (z - h)^-1 = V diag(1/(z - d_a)) W, entrywise
    sum_a V_ia W_aj / (z - d_a) -- the propagator of h is the rotated propagator of its diagonal form *)
Theorem resolvent_of_rotated_diagonal : forall (F : fieldType) (M : nat) (V W : 'M[F]_M) (d : 'rV[F]_M) (z : F),
  V *m W = 1%:M -> (forall a, z - d 0 a != 0) ->
  let h := V *m diag_mx d *m W in
  [/\ z%:M - h \in unitmx,
      invmx (z%:M - h) = V *m diag_mx (\row_a (z - d 0 a)^-1) *m W &
      forall i j, invmx (z%:M - h) i j = \sum_a V i a * W a j / (z - d 0 a)].
Proof.
move=> F M V W d z VW zd h.
have [U E] := WickAllMLin.resolvent_similar_inv VW zd.
by split=> // i j; rewrite E; exact: WickAllMLin.resolvent_entry.
Qed.
Print Assumptions resolvent_of_rotated_diagonal.

(** statement (1) for EVERY h: operators with the canonical anticommutation relations, H = sum h_kl c^+_k c_l diagonal
    with eigenvalues E (i.e. everything expressed in an eigenbasis of H), normalised weights, z off the poles:
    the Lehmann double sum of EDSpec.gf, G_ij = sum_nm (C_i)_nm (CX_j)_mn (w_n + w_m)/(z - (E_m - E_n)), is the inverse
    of z - h *)
Theorem lehmann_is_resolvent_any_h :
  forall (F : fieldType) (M N : nat) (C CX : 'I_M -> 'M[F]_N) (h : 'M[F]_M) (E w : 'rV[F]_N) (z : F),
  (forall i j, C i *m CX j + CX j *m C i = ((i == j)%:R)%:M) ->
  (forall i j, C i *m C j + C j *m C i = 0) ->
  \sum_k \sum_l h k l *: (CX k *m C l) = diag_mx E ->
  \sum_n w 0 n = 1 ->
  (forall n m, z - (E 0 m - E 0 n) != 0) ->
  let G : 'M[F]_M := \matrix_(i, j) \sum_n \sum_m C i n m * CX j m n * (w 0 n + w 0 m) / (z - (E 0 m - E 0 n)) in
  [/\ (z%:M - h) *m G = 1%:M, z%:M - h \in unitmx & G = invmx (z%:M - h)].
Proof.
move=> F M N C CX h E w z car cc Hd wn znz G.
exact: (WickAllMLin.lehmann_is_resolvent car cc Hd wn znz).
Qed.
Print Assumptions lehmann_is_resolvent_any_h.

(** the hypotheses are satisfiable (one mode, c = |0><1|, H = e n, any normalised weights, z off 0, e, -e) *)
Example lehmann_hypotheses_satisfiable : forall (F : fieldType) (e w0 z : F),
  z != 0 -> z - e != 0 -> z + e != 0 ->
  let C := fun _ : 'I_1 => c1 F in let CX := fun _ : 'I_1 => cx1 F in
  let h : 'M[F]_1 := e%:M in
  let E : 'rV[F]_2 := \row_n (if n == 0 then 0 else e) in
  let w : 'rV[F]_2 := \row_n (if n == 0 then w0 else 1 - w0) in
  [/\ forall i j, C i *m CX j + CX j *m C i = ((i == j)%:R)%:M,
      forall i j, C i *m C j + C j *m C i = 0,
      \sum_k \sum_l h k l *: (CX k *m C l) = diag_mx E,
      \sum_n w 0 n = 1 &
      forall n m, z - (E 0 m - E 0 n) != 0].
Proof. exact: WickAllMLin.eom_hypotheses_satisfiable. Qed.
