(** Properties_C07_statics.v -- StatesClassification, Symmetrizer: the only static variable of these files is the scratch combination of Symmetrizer::generateTrivialCombination (overwritten on every call).

    What StatesClassification::compute / getBlockNumber / getInnerState / getFockState(s) and Symmetrizer::compute / checkSymmetry report depends on the object and the arguments only, not on what the process computed
    before or on other objects it holds (a second Hamiltonian, lattice, density matrix of the same size ...).  Statement about the
    list translator/gen_statics.py reads off the source on every run (coq/gen/Gen_StaticsStates.v).  Run side: several models / objects
    per process (C03 same-process stage, C07 / C08 histories, C14 and C20 call histories). *)
Require Import List String.
From PV Require Import StaticsProofsStates.
From PVgen Require Import Gen_StaticsStates.
Import ListNotations.
Local Open Scope string_scope.

Theorem source_states_functions_hold_no_state : gen_statics_states = [("src/pomerol/Symmetrizer.cpp", "static DynamicIndexCombination trivial(N)")].
Proof. exact StaticsProofsStates.gen_statics_states_is_expected. Qed.
Print Assumptions source_states_functions_hold_no_state.
