(** C06 -- Results independent of MPI ranks and OpenMP threads; runs always terminate.
    Statements only.  Model: PV.SplitComm (per-rank sequences of collective calls of mpi_skel::run,
    TwoParticleGF::compute, TwoParticleGFContainer::computeAll_split / _nosplit, Hamiltonian::prepare / compute; where
    tables, term lists and statuses are afterwards; the OpenMP loop of ComputeAndClearWrap::run).  Proofs:
    PV.SplitCommProofs.  Generated fragments: PVgen.Gen_SplitColors (colour arithmetic, shape of the colour-root
    assignment, communicator of the post-loop barrier).

    Reading guide.
    - [fx : fixes] selects the variant of the code (three booleans: barrier on the skeleton's own communicator /
      first rank of a colour is its root / received parts marked Computed).  Theorems carry exactly the flag they
      need as a hypothesis; [all_fixed] is the repaired code, [none_fixed] the original one.  Which variant /repo
      is: props/Properties_C06_current.v (compiles iff the translator sees all three repairs).
    - [col : colouring] gives the colours of ranks and elements.  Everything except the "every colour is
      inhabited" statements holds for ANY colouring, hence for all P.  Two instances: [float_colouring] (what the
      C++ computes, binary64) and [exact_colouring] (the same expressions in exact arithmetic).  They differ from
      P = 18 on ([float_color_neq_exact_18]).
    - [jm] is the outcome of the dispatch rounds (which local rank ran which part): an arbitrary function = any
      timing of the workers.  Where the data theorems need it to name ranks of the communicator ([jm_in_range]),
      that is what C16 final_state provides (dmap s j = Some w with w in the pool).
    - Termination = C16 (every rank leaves the point-to-point dispatch loop, Properties_C16.no_deadlock /
      progress_measure / bounded_work) + the theorems [split_no_deadlock], [nosplit_no_deadlock],
      [hamiltonian_no_deadlock] below (between and after the dispatch loops only collectives are issued, and
      under ANY order in which the communicators proceed no rank is left waiting in a collective).
    - Primitive floats / 63-bit integers appear in [Print Assumptions] of the float statements as kernel
      primitives (the operations of PrimFloat and PrimInt63); they are evaluated by Coq's kernel with the machine's IEEE arithmetic
      and are not axioms of this development.  There are no other assumptions. *)
Require Import List Arith Bool Permutation.
From PVgen Require Import Gen_SplitColors.
From PV Require Import SplitComm SplitCommProofs.
Import ListNotations.

(** The parts of mpi_skel::run / computeAll_split that the model writes out literally have the shape the source
    has now: 2 barriers before the dispatch loop, 1 after the post-loop barrier, 2 broadcasts from ROOT = 0 in
    either branch, 3 broadcasts per part in the distribution loop. *)
Theorem model_shape_matches_code :
  (gen_skel_barriers_before_loop, gen_skel_barriers_after, gen_skel_bcasts_root_branch,
   gen_skel_bcasts_other_branch, gen_skel_root, gen_distribute_bcasts_per_part) = (2, 1, 2, 2, 0, 3).
Proof. exact SplitCommProofs.model_shape_matches_code. Qed.
Print Assumptions model_shape_matches_code.

(* ------------------------------------------------------------------------------------------------------- *)
(** * Collectives match; runs terminate *)

(** computeAll_split, repaired barrier: for every P, colouring, list of components (any length, any vanishing
    pattern, any part counts), purge flag and job maps, all members of every communicator issue the same sequence
    of (kind, root) on it, and no rank issues a collective on a communicator it is not a member of. *)
Theorem collectives_match : forall fx col P comps clear jm, fix_barrier fx = true ->
  SplitComm.collectives_match col P (split_trace fx col P comps clear jm).
Proof. exact SplitCommProofs.collectives_match_split. Qed.
Print Assumptions collectives_match.

(** ... and in the blocking semantics of collectives (every collective synchronises all members -- the most
    demanding reading of MPI), whatever the order in which communicators get to proceed: every reachable state can
    be completed, is either finished or has an enabled step (no deadlock), and no run is longer than the number
    of events. *)
Theorem split_no_deadlock : forall fx col P comps clear jm, fix_barrier fx = true -> 1 <= P ->
  forall pre st, coll_run col P pre (split_trace fx col P comps clear jm) = Some st ->
  completable col P st /\
  (finished P st \/ exists cm st', coll_step col P cm st = Some st') /\
  length pre <= remaining P (split_trace fx col P comps clear jm).
Proof. exact SplitCommProofs.split_no_deadlock. Qed.
Print Assumptions split_no_deadlock.

(** computeAll_nosplit, a single TwoParticleGF::compute, Hamiltonian::prepare / compute on the communicator passed
    in: the same, for ANY variant of the code. *)
Theorem collectives_match_nosplit : forall fx col P comps clear jm,
  SplitComm.collectives_match col P (nosplit_trace fx comps clear jm).
Proof. exact SplitCommProofs.collectives_match_nosplit. Qed.
Print Assumptions collectives_match_nosplit.

Theorem collectives_match_single : forall fx col P c clear jmk,
  SplitComm.collectives_match col P (single_trace fx c clear jmk).
Proof. exact SplitCommProofs.collectives_match_single. Qed.
Print Assumptions collectives_match_single.

Theorem collectives_match_hamiltonian : forall fx col P nblocks jmk,
  SplitComm.collectives_match col P (ham_prepare_trace fx World nblocks jmk) /\
  SplitComm.collectives_match col P (ham_compute_trace fx World nblocks jmk).
Proof. exact SplitCommProofs.collectives_match_hamiltonian. Qed.
Print Assumptions collectives_match_hamiltonian.

Theorem nosplit_no_deadlock : forall fx col P comps clear jm, 1 <= P ->
  forall pre st, coll_run col P pre (nosplit_trace fx comps clear jm) = Some st ->
  completable col P st /\
  (finished P st \/ exists cm st', coll_step col P cm st = Some st') /\
  length pre <= remaining P (nosplit_trace fx comps clear jm).
Proof. exact SplitCommProofs.nosplit_no_deadlock. Qed.
Print Assumptions nosplit_no_deadlock.

Theorem hamiltonian_no_deadlock : forall fx col P nblocks jmk, 1 <= P ->
  let trace := fun r => ham_prepare_trace fx World nblocks jmk r ++ ham_compute_trace fx World nblocks jmk r in
  forall pre st, coll_run col P pre trace = Some st ->
  completable col P st /\
  (finished P st \/ exists cm st', coll_step col P cm st = Some st') /\
  length pre <= remaining P trace.
Proof. exact SplitCommProofs.hamiltonian_no_deadlock. Qed.
Print Assumptions hamiltonian_no_deadlock.

(* ------------------------------------------------------------------------------------------------------- *)
(** * Colours *)

(** Exact arithmetic, every P >= 1, every number of components: every colour 0..ncolors-1 has a rank; rank
    colours are in range; element colours are < ncolors; every colour has an element (ncolors <= ncomponents
    always holds: ncolors = min(P, ncomponents)). *)
Theorem every_colour_nonempty : forall P ncomp, 1 <= P ->
  let col := exact_colouring P ncomp in let nc := ncolors P ncomp in
  (forall c, c < nc -> exists r, r < P /\ pcol col r = c) /\
  (forall r, r < P -> pcol col r < Nat.max 1 nc) /\
  (forall k, k < ncomp -> ecol col k < nc) /\
  (forall c, c < nc -> exists k, k < ncomp /\ ecol col k = c).
Proof. exact SplitCommProofs.every_colour_nonempty_exact. Qed.
Print Assumptions every_colour_nonempty.

(** The colours the C++ computes (binary64), 1 <= P <= 64, every number of components: a complete finite sweep
    over (P, ncolors <= P, p < P) by vm_compute.  BOUND: P <= 64. *)
Theorem every_colour_nonempty_float : forall P ncomp, 1 <= P <= 64 ->
  let col := float_colouring P ncomp in let nc := ncolors P ncomp in
  (forall c, c < nc -> exists r, r < P /\ pcol col r = c) /\
  (forall r, r < P -> pcol col r < Nat.max 1 nc) /\
  (forall k, k < ncomp -> ecol col k < nc) /\
  (forall c, c < nc -> exists k, k < ncomp /\ ecol col k = c).
Proof. exact SplitCommProofs.every_colour_nonempty_float. Qed.
Print Assumptions every_colour_nonempty_float.

(** the executable check the driver prints (colours_ok) means: the colour of every element has a rank *)
Theorem colours_ok_b_spec : forall col P ncomp,
  colours_ok_b col P ncomp = true <-> (forall k, k < ncomp -> exists r, r < P /\ pcol col r = ecol col k).
Proof. exact SplitCommProofs.colours_ok_b_spec. Qed.
Print Assumptions colours_ok_b_spec.

(** The binary64 rank colour equals floor(p*ncolors/P) for P <= 17 (BOUND: complete sweep) ...
    PARTIAL with respect to the planned statement (P <= 64): the full statement
      forall P nc p, 1 <= P <= 64 -> 1 <= nc <= P -> p < P -> fcolN P nc p = ecolN P nc p
    is FALSE, see the next theorem. *)
Theorem float_color_eq_exact_partial : forall P nc p, 1 <= P <= 17 -> 1 <= nc <= P -> p < P ->
  fcolN P nc p = ecolN P nc p.
Proof. exact SplitCommProofs.float_color_eq_exact_17. Qed.
Print Assumptions float_color_eq_exact_partial.

(** ... and differs at P = 18, ncolors = 14, p = 9 (double: 6, exact: 7).  Harmless for C06 (all colours stay
    inhabited), but predictions must use the float expression. *)
Theorem float_color_neq_exact_18 : exists P nc p, p < P /\ 1 <= nc <= P /\ fcolN P nc p <> ecolN P nc p.
Proof. exact SplitCommProofs.float_color_neq_exact_18. Qed.
Print Assumptions float_color_neq_exact_18.

(** the exact-arithmetic rank colour is floor(p*ncolors/P) (characterisation of the generated definition) *)
Theorem exact_colour_is_floor : forall P nc p, 1 <= P -> 1 <= nc -> ecolN P nc p = (p * nc) / P.
Proof. exact SplitCommProofs.exact_color_nat. Qed.
Print Assumptions exact_colour_is_floor.

(* ------------------------------------------------------------------------------------------------------- *)
(** * Where the data is afterwards (computeAll_split) *)

(** Repaired root: the rank that broadcasts component k's table is a member of k's colour, is rank 0 of that
    colour's communicator (where TwoParticleGF::compute reduces to), and is the smallest world rank of the colour. *)
Theorem reduce_root_is_sender : forall fx col P, fix_root fx = true -> forall k,
  (exists r, r < P /\ pcol col r = ecol col k) ->
  let s := sender fx col P k in
  In s (members col P (Colour (ecol col k))) /\
  local_rank col (Colour (ecol col k)) s = 0 /\
  forall q, In q (members col P (Colour (ecol col k))) -> s <= q.
Proof. exact SplitCommProofs.reduce_root_is_sender. Qed.
Print Assumptions reduce_root_is_sender.

(** Repaired root, non-empty frequency list, non-vanishing component with >= 1 part: the table returned by
    computeAll_split is the same on EVERY rank and contains every part exactly once (TData l, l a permutation of
    0..nparts-1) -- the table a single-rank run returns. *)
Theorem tables_all_ranks_sum : forall fx col P comps clear fne jm, fix_root fx = true -> fne = true ->
  forall k c, nth_error comps k = Some c -> vanishing c = false -> 1 <= nparts c ->
  (exists r, r < P /\ pcol col r = ecol col k) ->
  jm_in_range (jm k) (nparts c) (colour_size col P k) ->
  exists l, Permutation l (seq 0 (nparts c)) /\
            forall r, exists st, nth_error (split_state fx col P comps clear fne jm r) k = Some st /\ tab st = TData l.
Proof. exact SplitCommProofs.tables_all_ranks_sum. Qed.
Print Assumptions tables_all_ranks_sum.

(** Repaired status, terms not purged: every component (vanishing or not) can be evaluated on every rank
    (TwoParticleGFPart::operator() does not throw) and every part's term lists are filled there. *)
Theorem terms_and_status_everywhere : forall fx col P comps clear fne jm, fix_status fx = true -> clear = false ->
  forall k c, nth_error comps k = Some c ->
  (exists r, r < P /\ pcol col r = ecol col k) ->
  jm_in_range (jm k) (nparts c) (colour_size col P k) ->
  forall r, exists st, nth_error (split_state fx col P comps clear fne jm r) k = Some st /\
                       evaluable c st = true /\ has_all_terms c st = true.
Proof. exact SplitCommProofs.terms_and_status_everywhere. Qed.
Print Assumptions terms_and_status_everywhere.

(* ------------------------------------------------------------------------------------------------------- *)
(** * Unsplit computation, single compute, Hamiltonian *)

(** computeAll_nosplit / TwoParticleGF::compute on P ranks: rank 0 returns the full sum; every other rank returns
    a table of zeros (boost::mpi::reduce to rank 0, no broadcast -- by design: the interface returns the table on
    the root only). *)
Theorem nosplit_root_has_sum : forall P comps clear fne jm, fne = true ->
  forall k c, nth_error comps k = Some c -> vanishing c = false ->
  jm_in_range (jm k) (nparts c) P ->
  (exists st, nth_error (nosplit_state P comps clear fne jm 0) k = Some st /\ is_full_sum (nparts c) (tab st)) /\
  (forall r, r <> 0 -> exists st, nth_error (nosplit_state P comps clear fne jm r) k = Some st /\ tab st = TData []).
Proof. exact SplitCommProofs.nosplit_root_has_sum. Qed.
Print Assumptions nosplit_root_has_sum.

(** ... while terms and statuses are on every rank when not purged. *)
Theorem nosplit_terms_everywhere : forall P comps clear fne jm, clear = false ->
  forall k c, nth_error comps k = Some c -> jm_in_range (jm k) (nparts c) P ->
  forall r, exists st, nth_error (nosplit_state P comps clear fne jm r) k = Some st /\
                       evaluable c st = true /\ has_all_terms c st = true.
Proof. exact SplitCommProofs.nosplit_terms_everywhere. Qed.
Print Assumptions nosplit_terms_everywhere.

(** Hamiltonian::compute: every rank holds, for every block, the eigenvalues / eigenvectors computed by the one
    rank that diagonalised it; hence identical eigen-data on all ranks. *)
Theorem eigendata_identical : forall P jmk nblocks, jm_in_range jmk nblocks P ->
  forall r p, r < P -> p < nblocks -> ham_block_source P jmk r p = Some (jmk p).
Proof. exact SplitCommProofs.eigendata_identical. Qed.
Print Assumptions eigendata_identical.

(* ------------------------------------------------------------------------------------------------------- *)
(** * Summary for the repaired code *)

(** All of the above for computeAll_split with all three repairs, ALL P >= 1, colours in exact arithmetic:
    collectives match; no deadlock under any order of progress; the sender is rank 0 of its colour's communicator;
    tables are the full sum on every rank; unpurged components evaluate on every rank. *)
Theorem split_repaired_exact : forall P, 1 <= P ->
  forall (comps : list component) (clear fne : bool) (jm : nat -> nat -> nat),
  let fx := all_fixed in
  let col := exact_colouring P (length comps) in
  SplitComm.collectives_match col P (split_trace fx col P comps clear jm) /\
  (forall pre st, coll_run col P pre (split_trace fx col P comps clear jm) = Some st ->
     completable col P st /\ (finished P st \/ exists cm st', coll_step col P cm st = Some st') /\
     length pre <= remaining P (split_trace fx col P comps clear jm)) /\
  forall k c, nth_error comps k = Some c -> jm_in_range (jm k) (nparts c) (colour_size col P k) ->
    (In (sender fx col P k) (members col P (Colour (ecol col k))) /\
     local_rank col (Colour (ecol col k)) (sender fx col P k) = 0) /\
    (vanishing c = false -> 1 <= nparts c -> fne = true ->
       exists l, Permutation l (seq 0 (nparts c)) /\
                 forall r, exists st, nth_error (split_state fx col P comps clear fne jm r) k = Some st /\ tab st = TData l) /\
    (clear = false ->
       forall r, exists st, nth_error (split_state fx col P comps clear fne jm r) k = Some st /\
                            evaluable c st = true /\ has_all_terms c st = true).
Proof. exact SplitCommProofs.split_repaired_exact. Qed.
Print Assumptions split_repaired_exact.

(** The same with the colours the C++ computes, 1 <= P <= 64 (BOUND from the float sweep) ... *)
Theorem split_repaired_float64 : forall P, 1 <= P <= 64 ->
  forall (comps : list component) (clear fne : bool) (jm : nat -> nat -> nat),
  let fx := all_fixed in
  let col := float_colouring P (length comps) in
  SplitComm.collectives_match col P (split_trace fx col P comps clear jm) /\
  (forall pre st, coll_run col P pre (split_trace fx col P comps clear jm) = Some st ->
     completable col P st /\ (finished P st \/ exists cm st', coll_step col P cm st = Some st') /\
     length pre <= remaining P (split_trace fx col P comps clear jm)) /\
  forall k c, nth_error comps k = Some c -> jm_in_range (jm k) (nparts c) (colour_size col P k) ->
    (In (sender fx col P k) (members col P (Colour (ecol col k))) /\
     local_rank col (Colour (ecol col k)) (sender fx col P k) = 0) /\
    (vanishing c = false -> 1 <= nparts c -> fne = true ->
       exists l, Permutation l (seq 0 (nparts c)) /\
                 forall r, exists st, nth_error (split_state fx col P comps clear fne jm r) k = Some st /\ tab st = TData l) /\
    (clear = false ->
       forall r, exists st, nth_error (split_state fx col P comps clear fne jm r) k = Some st /\
                            evaluable c st = true /\ has_all_terms c st = true).
Proof. exact SplitCommProofs.split_repaired_float64. Qed.
Print Assumptions split_repaired_float64.

(** ... and for ANY P with the float colours, given the executable check [colours_ok_b] that the driver evaluates
    for the configuration at hand (line CASE ... colours_ok=1). *)
Theorem split_repaired_float_checked : forall P comps, 1 <= P ->
  colours_ok_b (float_colouring P (length comps)) P (length comps) = true ->
  forall clear fne jm, let col := float_colouring P (length comps) in
  SplitComm.collectives_match col P (split_trace all_fixed col P comps clear jm) /\
  (forall pre st, coll_run col P pre (split_trace all_fixed col P comps clear jm) = Some st ->
     completable col P st /\ (finished P st \/ exists cm st', coll_step col P cm st = Some st') /\
     length pre <= remaining P (split_trace all_fixed col P comps clear jm)) /\
  forall k c, nth_error comps k = Some c -> jm_in_range (jm k) (nparts c) (colour_size col P k) ->
    (vanishing c = false -> 1 <= nparts c -> fne = true ->
       exists l, Permutation l (seq 0 (nparts c)) /\
                 forall r, exists st, nth_error (split_state all_fixed col P comps clear fne jm r) k = Some st /\ tab st = TData l) /\
    (clear = false ->
       forall r, exists st, nth_error (split_state all_fixed col P comps clear fne jm r) k = Some st /\
                            evaluable c st = true /\ has_all_terms c st = true).
Proof. exact SplitCommProofs.split_repaired_float_checked. Qed.
Print Assumptions split_repaired_float_checked.

(* ------------------------------------------------------------------------------------------------------- *)
(** * The original code: counter-examples (each replayed on the real library by checks/C06.py) *)

(** D1: 2 ranks, 3 non-vanishing components: the two ranks issue different sequences on the world communicator
    (MPI_Barrier(MPI_COMM_WORLD) inside mpi_skel::run, once per computed component) ... *)
Theorem collectives_match_refuted : exists P comps clear jm,
  let col := float_colouring P (length comps) in
  ~ SplitComm.collectives_match col P (split_trace none_fixed col P comps clear jm).
Proof. exact SplitCommProofs.collectives_match_refuted. Qed.
Print Assumptions collectives_match_refuted.

(** ... and a state is reachable in which ranks still have collectives to issue and no communicator can proceed. *)
Theorem split_deadlock_refuted : exists P comps clear jm sched,
  let col := float_colouring P (length comps) in
  match coll_run col P sched (split_trace none_fixed col P comps clear jm) with
  | Some st => all_done P st = false /\ forall cm, coll_step col P cm st = None
  | None => False
  end.
Proof. exact SplitCommProofs.split_deadlock_refuted. Qed.
Print Assumptions split_deadlock_refuted.

(** D2: 2 ranks, 1 component: every rank returns a table of zeros (root of the broadcast = last rank of the
    colour, root of the reduction = first). *)
Theorem reduce_root_refuted : exists P comps clear jm,
  let col := float_colouring P (length comps) in
  forall r, r < P -> exists st, nth_error (split_state none_fixed col P comps clear true jm r) 0 = Some st /\
                                tab st = TData [] /\ ~ is_full_sum 1 (tab st).
Proof. exact SplitCommProofs.reduce_root_refuted. Qed.
Print Assumptions reduce_root_refuted.

(** D3: 2 ranks, 2 components, terms kept: a rank holds all terms of the other colour's component but cannot
    evaluate it. *)
Theorem status_refuted : exists P comps jm r k c st,
  let col := float_colouring P (length comps) in
  r < P /\ nth_error comps k = Some c /\
  nth_error (split_state none_fixed col P comps false true jm r) k = Some st /\
  has_all_terms c st = true /\ evaluable c st = false.
Proof. exact SplitCommProofs.status_refuted. Qed.
Print Assumptions status_refuted.

(* ------------------------------------------------------------------------------------------------------- *)
(** * OpenMP threads *)

(** The per-frequency accumulation `data[w] += part(freqs[w])` under `#pragma omp parallel for`: iteration w
    touches cell w only, so schedules that are permutations of each other give the same table ... *)
Theorem omp_schedule_independent : forall (V : Type) (add : V -> V -> V) (val : nat -> V) (s s' : list nat),
  Permutation s s' -> forall d : list V, run_schedule V add val s d = run_schedule V add val s' d.
Proof. exact SplitCommProofs.omp_schedule_independent. Qed.
Print Assumptions omp_schedule_independent.

(** ... in particular every partition of the iterations 0..n-1 into per-thread chunks, executed in any
    interleaving, gives the sequential result ... *)
Theorem omp_any_partition : forall (V : Type) (add : V -> V -> V) (val : nat -> V)
  (chunks : list (list nat)) (sched : list nat) (n : nat) (d : list V),
  Permutation (concat chunks) (seq 0 n) -> Permutation sched (concat chunks) ->
  run_schedule V add val sched d = run_schedule V add val (seq 0 n) d.
Proof. exact SplitCommProofs.omp_any_partition. Qed.
Print Assumptions omp_any_partition.

(** ... also at the grain of individual reads and writes of the shared table: any number of threads, any
    assignment of iterations to threads (each iteration to exactly one), any interleaving of the threads' reads and
    writes; once all threads are done the table is the sequential one.  (The hypothesis is satisfiable for every
    input: [par_run_can_finish].) *)
Theorem omp_interleaving_independent : forall (V : Type) (add : V -> V -> V) (val : nat -> V)
  (chunks : list (list nat)) (d : list V) (choices : list nat),
  NoDup (concat chunks) ->
  threads_done V (snd (par_run V add val choices d chunks)) = true ->
  fst (par_run V add val choices d chunks) = run_schedule V add val (concat chunks) d.
Proof. exact SplitCommProofs.omp_interleaving_independent. Qed.
Print Assumptions omp_interleaving_independent.

Theorem par_run_can_finish : forall (V : Type) (add : V -> V -> V) (val : nat -> V)
  (chunks : list (list nat)) (d : list V),
  exists choices, threads_done V (snd (par_run V add val choices d chunks)) = true.
Proof. exact SplitCommProofs.par_run_can_finish. Qed.
Print Assumptions par_run_can_finish.
