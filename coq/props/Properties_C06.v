(** C06 -- placeholder until SplitCommProofs lands (statements are added with their proofs). *)
From PV Require Import Outcome.
