(** The spine -- an END-TO-END theorem for the single-particle Green's function at the level of the models, composing
    the layers whose theorems are stated separately in Properties_C01 / C03 / C07 / C08 / C09 / C10.
    Statements only; model: PV.Spine (the pipeline [spine_gf]); proofs: PV.SpineSparseProofs (compressed storage of a dense
    matrix: cs_wf, cs_get), PV.SpineLinAlg (entries of list-of-rows products, offsets, regrouping of sums),
    PV.SpinePartition (any partition), PV.SpineOneBlock (the one-block partition), PV.SpineExamples (Hubbard atom on Qc).

    Pipeline (PV.Spine.spine_gf S ED beta i j), for a classification S of the 2^M Fock states and per-block eigen-data ED:
      weights            := Thermal.dm_compute on the blocks                                   (C09's model)
      parts of c_i, c^+_j := HPart.fo_prepare (block pairs) + HPart.fop_dense for every pair, stored as Eigen compressed
                            row-/column-major matrices keeping what HPart.prune keeps          (C10's model; C07's prepare)
      block pairs of G   := the merge walk GFPart.stripes over the two bimap views             (C01/C08)
      terms, value       := GFPart.gf_compute / gf_value                                       (C01's model)
    Right-hand side: EDSpec.gf, the Lehmann double sum on the FULL Fock space, evaluated on the assembled eigenvalues,
    the assembled weights and U^+ c_i U, U^+ c^+_j U with U the assembled eigenvector matrix and c, c^+ the
    Jordan-Wigner matrices EDSpec.op_matrix.

    Number type: any [numops] structure that is a field (field_theory) with conj 0 = 0.  Exact form: the tolerances are
    "0" in the sense of the hypotheses [keep0] (sparseView/prune only drops exact zeros), [rel0] (MatrixElementTolerance
    only drops exact zeros), [cmp0] (the term comparator is total), and +-1 pass the magnitude tests against eps.

    INTER-LAYER HYPOTHESES DISCHARGED (they were hypotheses of C01's gf_blocks_eq_full):
      blocks_sound  -- every stored part is the restriction of the rotated operator to its block pair and the rotated
                       operator vanishes on every other pair: from C10's HPartProofs.fop_dense_entries (rotation
                       formula of the two loops) + SpinePartition.rotated_block_entry (the list-level counterpart of
                       C10's assembled_entry), the bimap views being sorted (C08: prepare_bimap_wf, left/right_view_ksorted),
                       the shapes of the parts, all blocks retained (from Thermal.dm_compute);
      assembled     -- global E, w, U^+ O U assembled from the blocks: by construction (offsets into concatenations).
    For the ONE-BLOCK partition nothing remains; additionally the model's weights are EDSpec.weights (C09) and the block
    filled by HamiltonianPart::prepare is the full Jordan-Wigner matrix of h (C03, evaluated on the example).
    REMAINING for a general partition, as NAMED hypotheses of [spine_gf_partition_partial]:
      partition_ok S      = the conclusion of Properties_C07.C07_partition_exact (every label in exactly one block, blocks
                            duplicate-free, StateBlockIndex consistent) -- stated there for PV.Symm.qclass; missing
                            representation lemma: Symm.qclass (sc_blocks, sc_sbi) -> HPart.classification (sc_states, sc_index);
      op_ok S o pairs     = the conclusion of Properties_C07.C07_single_target / C08_gf_stripes_exact (prepare() records exactly
                            the connected block pairs, no bimap insertion refused, images stay in the recorded left block)
                            -- stated there for Symm.prepare; missing representation lemma: Symm.prepare = HPart.fo_prepare
                            on corresponding classifications.
      eig_ok S ED         = shapes only (one (E_b, U_b) per block, of the block's size).
    NOT needed for the equality (and therefore not assumed): the certificate H_b U_b = U_b diag(E_b), U_b^+ U_b = 1.  It is what
    makes (assembled E, assembled U) an eigen-decomposition of the full Hamiltonian: Properties_C03
    (hpart_prepare_is_restriction, blocks_diagonalise_full_partial, blocks_unitary_partial).
    NOT covered: the route through FieldOperatorContainer (c_i stored as the adjoint of c^+_i: C10 container_copy_is_adjoint).
    UPDATE (Stage 2b / Stage 3, appended at the end of this file): [partition_ok] and [op_ok] are now DISCHARGED from
    C07_partition_exact / C07_single_target for the classification produced by the Symm model ([spine_gf_symmetry_partition]); the
    Hamiltonian layer is connected ([spine_gf_of_hamiltonian]); the ensemble average has its own spine ([spine_ea_partition]). *)
Require Import Bool List Arith ZArith Ring_theory Field_theory.
From PV Require Import Outcome Fock Poly PolySem EDSpec HPart HPartSpec HPartProofs Sparse TermList GFPart GFPartProofs
     Spine SpineSparseProofs SpinePartition SpineOneBlock SpineExamples.
From PV Require Thermal.
From PVgen Require Import Gen_C01.
Import ListNotations.

(** * Stage 1: one block (symmetries ignored).  No inter-layer hypothesis is left. *)
Theorem spine_gf_one_block :
  forall (K : Type) (NO : numops K) (kinv : K -> K),
  field_theory (n0 K NO) (n1 K NO) (nadd K NO) (nmul K NO) (nsub K NO) (nopp K NO) (ndiv K NO) kinv (@eq K) ->
  nconj K NO (n0 K NO) = n0 K NO ->
  forall (fb : bool) (eps : K),
  nre_ltb K NO (nabs K NO (n1 K NO)) eps = false -> nre_ltb K NO (nabs K NO (nopp K NO (n1 K NO))) eps = false ->
  nre_ltb K NO eps (nabs K NO (n1 K NO)) = true -> nre_ltb K NO eps (nabs K NO (nopp K NO (n1 K NO))) = true ->
  forall reference prec : K,
  (forall x, keep_entry K NO reference prec x = false -> x = n0 K NO) ->                                          (* keep0 *)
  forall T : tols K,
  (forall R, gf_relevant K NO (t_matrix_element K T) R = false -> R = n0 K NO) ->                                 (* rel0 *)
  (forall a b, gf_compare K NO (t_compare K T) a b = false -> gf_compare K NO (t_compare K T) b a = true) ->      (* cmp0 *)
  forall (M : nat) (E : list K) (U : mat K),
  length E = Nat.pow 2 M -> square K (Nat.pow 2 M) U ->
  forall i j : nat, i < M -> j < M ->
  forall (fixed lenient : bool) (beta z : K) (parts : list ((nat * nat) * part_out K)),
  spine_gf K NO fb eps reference prec T fixed lenient (one_block M) [(E, U)] beta i j = Done (WDone parts) ->
  gf_value K NO parts z =
  gf K NO E (weights K NO beta E)
     (rotate K NO (Nat.pow 2 M) U (op_matrix K NO M (cann i)))
     (rotate K NO (Nat.pow 2 M) U (op_matrix K NO M (cdag j))) z.
Proof.
  exact (fun K NO kinv Kf => SpineOneBlock.spine_gf_one_block K NO kinv (F_R Kf) (Fdiv_def Kf)).
Qed.
Print Assumptions spine_gf_one_block.

(** with the repaired merge-walk loops ([fixed] = true; PV.Sparse) the one-block pipeline always returns a value, so the
    theorem above is not vacuous for any input of the right shape (for the loops as written, [fixed] = false, returning is
    C17's subject; the theorem holds whenever they return) *)
Theorem spine_gf_one_block_total :
  forall (K : Type) (NO : numops K) (kinv : K -> K),
  field_theory (n0 K NO) (n1 K NO) (nadd K NO) (nmul K NO) (nsub K NO) (nopp K NO) (ndiv K NO) kinv (@eq K) ->
  nconj K NO (n0 K NO) = n0 K NO ->
  forall (fb : bool) (eps : K),
  nre_ltb K NO (nabs K NO (n1 K NO)) eps = false -> nre_ltb K NO (nabs K NO (nopp K NO (n1 K NO))) eps = false ->
  nre_ltb K NO eps (nabs K NO (n1 K NO)) = true -> nre_ltb K NO eps (nabs K NO (nopp K NO (n1 K NO))) = true ->
  forall reference prec : K,
  (forall x, keep_entry K NO reference prec x = false -> x = n0 K NO) ->
  forall (T : tols K) (M : nat) (E : list K) (U : mat K),
  length E = Nat.pow 2 M -> square K (Nat.pow 2 M) U ->
  forall i j : nat, i < M -> j < M ->
  forall (lenient : bool) (beta : K),
  exists parts, spine_gf K NO fb eps reference prec T true lenient (one_block M) [(E, U)] beta i j = Done (WDone parts).
Proof.
  exact (fun K NO kinv Kf => SpineOneBlock.spine_gf_one_block_total K NO kinv (F_R Kf) (Fdiv_def Kf)).
Qed.
Print Assumptions spine_gf_one_block_total.

(** * Stage 2: any partition.
    FULL STATEMENT: the same for every classification S produced by the symmetry analysis (Symm.sc_compute) of a lattice
    whose accepted operators shift uniformly, with no hypothesis on S.
    PROVED: for every S satisfying [partition_ok] and [op_ok] -- the conclusions of C07 transported to PV.HPart's
    representation (see the header for the two missing representation lemmas). *)
Theorem spine_gf_partition_partial :
  forall (K : Type) (NO : numops K) (kinv : K -> K),
  field_theory (n0 K NO) (n1 K NO) (nadd K NO) (nmul K NO) (nsub K NO) (nopp K NO) (ndiv K NO) kinv (@eq K) ->
  nconj K NO (n0 K NO) = n0 K NO ->
  forall (fb : bool) (eps : K),
  nre_ltb K NO (nabs K NO (n1 K NO)) eps = false -> nre_ltb K NO (nabs K NO (nopp K NO (n1 K NO))) eps = false ->
  nre_ltb K NO eps (nabs K NO (n1 K NO)) = true -> nre_ltb K NO eps (nabs K NO (nopp K NO (n1 K NO))) = true ->
  forall reference prec : K,
  (forall x, keep_entry K NO reference prec x = false -> x = n0 K NO) ->
  forall T : tols K,
  (forall R, gf_relevant K NO (t_matrix_element K T) R = false -> R = n0 K NO) ->
  (forall a b, gf_compare K NO (t_compare K T) a b = false -> gf_compare K NO (t_compare K T) b a = true) ->
  forall (S : classification) (ED : eigdata K) (i j : nat) (pairsC pairsCX : list (nat * nat)),
  partition_ok S ->                                       (* C07_partition_exact *)
  eig_ok K S ED ->                                        (* shapes *)
  op_ok K NO fb eps S (FC i) pairsC ->                    (* C07_single_target for c_i *)
  op_ok K NO fb eps S (FCdag j) pairsCX ->                (* C07_single_target for c^+_j *)
  forall (fixed lenient : bool) (beta z : K) (parts : list ((nat * nat) * part_out K)),
  spine_gf K NO fb eps reference prec T fixed lenient S ED beta i j = Done (WDone parts) ->
  exists D, spine_dm K NO beta S ED = Done D /\
    gf_value K NO parts z =
    gf K NO (assembled_E K ED) (assembled_w K D)
       (rotate K NO (state_size S) (assembled_U K NO S ED) (op_matrix K NO (sc_M S) (cann i)))
       (rotate K NO (state_size S) (assembled_U K NO S ED) (op_matrix K NO (sc_M S) (cdag j))) z.
Proof.
  exact (fun K NO kinv Kf => SpinePartition.spine_gf_partition K NO kinv (F_R Kf) (Fdiv_def Kf)).
Qed.
Print Assumptions spine_gf_partition_partial.

Theorem spine_gf_partition_total_partial :
  forall (K : Type) (NO : numops K) (kinv : K -> K),
  field_theory (n0 K NO) (n1 K NO) (nadd K NO) (nmul K NO) (nsub K NO) (nopp K NO) (ndiv K NO) kinv (@eq K) ->
  nconj K NO (n0 K NO) = n0 K NO ->
  forall (fb : bool) (eps : K),
  nre_ltb K NO (nabs K NO (n1 K NO)) eps = false -> nre_ltb K NO (nabs K NO (nopp K NO (n1 K NO))) eps = false ->
  nre_ltb K NO eps (nabs K NO (n1 K NO)) = true -> nre_ltb K NO eps (nabs K NO (nopp K NO (n1 K NO))) = true ->
  forall reference prec : K,
  (forall x, keep_entry K NO reference prec x = false -> x = n0 K NO) ->
  forall (T : tols K) (S : classification) (ED : eigdata K) (i j : nat) (pairsC pairsCX : list (nat * nat)),
  partition_ok S -> eig_ok K S ED -> op_ok K NO fb eps S (FC i) pairsC -> op_ok K NO fb eps S (FCdag j) pairsCX ->
  forall (lenient : bool) (beta : K) D, spine_dm K NO beta S ED = Done D ->
  exists parts, spine_gf K NO fb eps reference prec T true lenient S ED beta i j = Done (WDone parts).
Proof.
  exact (fun K NO kinv Kf => SpinePartition.spine_gf_partition_total K NO kinv (F_R Kf) (Fdiv_def Kf)).
Qed.
Print Assumptions spine_gf_partition_total_partial.

(** the two discharged hypotheses of C01's gf_blocks_eq_full, as statements of their own *)
Theorem spine_rotated_block_entry :
  forall (K : Type) (NO : numops K),
  ring_theory (n0 K NO) (n1 K NO) (nadd K NO) (nmul K NO) (nsub K NO) (nopp K NO) (@eq K) ->
  nconj K NO (n0 K NO) = n0 K NO ->
  forall (S : classification) (ED : eigdata K), partition_ok S -> eig_ok K S ED ->
  forall (o : fop) (L R n m : nat), L < length (sc_states S) -> R < length (sc_states S) -> n < block_size S L -> m < block_size S R ->
  mget K NO (rotate K NO (state_size S) (assembled_U K NO S ED) (poly_matrix K NO (sc_M S) (fop_poly K NO o)))
       (GFFullProofs.off (block_size S) L + n) (GFFullProofs.off (block_size S) R + m) =
  BigSum.bigsum K (n0 K NO) (nadd K NO) (seq 0 (block_size S R)) (rot_term K NO S ED o L R n m).
Proof. exact SpinePartition.rotated_block_entry. Qed.
Print Assumptions spine_rotated_block_entry.

(** the compressed storage of a dense matrix is well-formed and denotes the matrix with the dropped entries set to 0 *)
Theorem cs_row_major_sound :
  forall (K : Type) (NO : numops K),
  ring_theory (n0 K NO) (n1 K NO) (nadd K NO) (nmul K NO) (nsub K NO) (nopp K NO) (@eq K) ->
  forall (keep : K -> bool) (ncols : nat) (D : mat K),
  (forall r, In r D -> length r <= ncols) ->
  cs_wf (cs_row_major K keep ncols D) /\
  forall n m, n < length D -> m < length (nth n D []) ->
    cs_get K NO (cs_row_major K keep ncols D) n m = (if keep (mget K NO D n m) then mget K NO D n m else n0 K NO).
Proof.
  exact (fun K NO Kr keep ncols D H =>
           conj (SpineSparseProofs.cs_row_major_wf K keep ncols D H) (SpineSparseProofs.cs_row_major_get K NO Kr keep ncols D)).
Qed.
Print Assumptions cs_row_major_sound.

(** * Non-vacuity: the Hubbard atom on exact rationals (all hypotheses instantiated; pipeline evaluated by vm_compute) *)
Theorem hubbard_atom_spine :
  exists parts, hub_run = Done (WDone parts) /\
    gf_value Qcanon.Qc QcS parts hub_z =
    gf Qcanon.Qc QcS hub_E (weights Qcanon.Qc QcS (n1 _ QcS) hub_E)
       (rotate Qcanon.Qc QcS 4 hub_U (op_matrix Qcanon.Qc QcS 2 (cann 0)))
       (rotate Qcanon.Qc QcS 4 hub_U (op_matrix Qcanon.Qc QcS 2 (cdag 0))) hub_z.
Proof. exact SpineExamples.hub_spine. Qed.
Print Assumptions hubbard_atom_spine.

Theorem hubbard_atom_value_nonzero :
  hub_value = Qcanon.Q2Qc (QArith_base.Qmake 2%Z 51%positive) /\ hub_value <> n0 _ QcS.
Proof. exact SpineExamples.hub_value_nonzero. Qed.
Print Assumptions hubbard_atom_value_nonzero.

(** the eigen-data of the example are an exact eigen-decomposition of the block filled by HamiltonianPart::prepare,
    which is the Jordan-Wigner matrix of the Hamiltonian polynomial (C03) *)
Theorem hubbard_atom_certificate :
  exists Hb, spine_hblocks Qcanon.Qc QcS true (n0 _ QcS) (one_block 2) hub_h = Done [Hb] /\
    Hb = poly_matrix Qcanon.Qc QcS 2 hub_h /\
    residual_HU Qcanon.Qc QcS 4 Hb hub_U hub_E = n0 _ QcS /\ residual_unitary Qcanon.Qc QcS 4 hub_U = n0 _ QcS.
Proof. exact SpineExamples.hub_certificate. Qed.
Print Assumptions hubbard_atom_certificate.

(** the same atom with the (N, S_z) partition, four blocks of one state: a non-trivial instance of [partition_ok], [eig_ok],
    [op_ok] (proved for it in PV.SpineExamples) to which [spine_gf_partition_partial] is applied; two parts, same value *)
Theorem hubbard_atom_four_blocks_spine :
  exists parts D, hub_run4 = Done (WDone parts) /\ spine_dm Qcanon.Qc QcS (n1 _ QcS) S4 ED4 = Done D /\
    gf_value Qcanon.Qc QcS parts hub_z =
    gf Qcanon.Qc QcS (assembled_E Qcanon.Qc ED4) (assembled_w Qcanon.Qc D)
       (rotate Qcanon.Qc QcS 4 (assembled_U Qcanon.Qc QcS S4 ED4) (op_matrix Qcanon.Qc QcS 2 (cann 0)))
       (rotate Qcanon.Qc QcS 4 (assembled_U Qcanon.Qc QcS S4 ED4) (op_matrix Qcanon.Qc QcS 2 (cdag 0))) hub_z.
Proof. exact SpineExamples.hub_spine4. Qed.
Print Assumptions hubbard_atom_four_blocks_spine.

Theorem hubbard_atom_four_blocks_value :
  hub_value4 = Qcanon.Q2Qc (QArith_base.Qmake 2%Z 51%positive) /\ hub_value4 <> n0 _ QcS /\
  match hub_run4 with Done (WDone parts) => map fst parts = [(0, 1); (2, 3)] | _ => False end /\
  assembled_E Qcanon.Qc ED4 = hub_E /\ assembled_U Qcanon.Qc QcS S4 ED4 = hub_U.
Proof. exact SpineExamples.hub_value4_nonzero. Qed.
Print Assumptions hubbard_atom_four_blocks_value.

(** * Stage 2b: the two remaining inter-layer hypotheses DISCHARGED (PV.SpineBridge, SpineBridgeHam, SpineBridgeMain).

    [bridge N c] is the HPart.classification with the block lists and the StateBlockIndex of the Symm model's classification c
    (the output of Symm.sc_compute = StatesClassification::compute on the quantum numbers of the accepted operators).
      partition_ok (bridge N c)   from Properties_C07.C07_partition_exact        [bridge_partition_ok_from_C07]
      op_ok (bridge N c) o pairs  from Properties_C07.C07_single_target, first conclusion (block equality is preserved and reflected
                                  by c_i, c^+_j, c^+_i c_j when the accepted operators shift uniformly); the pairs HPart.fo_prepare
                                  records are computed ([bridge_fo_prepare_value]) and are those of Symm.prepare
                                  (C07_single_target, second conclusion)           [bridge_op_ok_from_C07, bridge_pairs_are_symm_prepare]
    RESULT: [spine_gf_symmetry_partition] -- no inter-layer hypothesis left; remaining hypotheses: [eig_ok] (shapes of the eigen-data),
    exact tolerances (keep0, rel0, cmp0, +-1 pass the eps tests), field.  The number type KS of the symmetry analysis is independent
    of the number type K of the numerics.
    HAMILTONIAN LAYER (one number type, exact zero tests): C07_H_block_diagonal is transported to EDSpec.poly_matrix
    ([spine_H_block_diagonal]); the blocks of the model of HamiltonianPart::prepare are the restrictions of poly_matrix h
    ([spine_hblocks_are_restrictions], from C03 hpart_prepare_is_restriction); exact per-block certificates for THOSE blocks make the
    assembled (E, U) an exact eigen-system of poly_matrix h ([assembled_eigensystem], the list-level counterpart of C03's mathcomp
    blocks_diagonalise_full_partial / blocks_unitary_partial; [spine_eigensystem_of_hamiltonian]); everything in one statement:
    [spine_gf_of_hamiltonian].
    STILL NOT PROVED (external code): that Eigen's solver returns data satisfying the certificate; it is a hypothesis, checked per
    run by checks/C03.py up to rounding. *)
From PV Require Import SpineBridge SpineBridgeHam SpineBridgeEA SpineBridgeEAProofs SpineBridgeMain SpineBridgeExamples.
From PV Require Symm SymmProofs.

Theorem bridge_partition_ok_from_C07 :
  forall (KS : Type) (s0 s1 : KS) (sadd smul ssub : KS -> KS -> KS) (sopp : KS -> KS) (szero : KS -> bool),
  ring_ok KS s0 s1 sadd smul ssub sopp szero ->
  forall (N : nat) (ops : list (poly KS)) (c : Symm.qclass KS),
  Forall (poly_in_range KS N) ops ->
  Symm.sc_compute KS s0 sadd ssub sopp szero N ops = Done c ->
  partition_ok (bridge N c).
Proof. exact SpineBridge.symm_partition_ok. Qed.
Print Assumptions bridge_partition_ok_from_C07.

Theorem bridge_op_ok_from_C07 :
  forall (KS : Type) (s0 s1 : KS) (sadd smul ssub : KS -> KS -> KS) (sopp : KS -> KS) (szero : KS -> bool),
  ring_ok KS s0 s1 sadd smul ssub sopp szero -> s1 <> s0 ->
  forall (N : nat) (ops : list (poly KS)) (c : Symm.qclass KS),
  Forall (poly_in_range KS N) ops ->
  Symm.sc_compute KS s0 sadd ssub sopp szero N ops = Done c ->
  Forall (SymmProofs.uniform_shift KS s0 s1 sadd smul sopp N) ops ->
  forall (K : Type) (NO : numops K) (fb : bool) (eps : K),
  nre_ltb K NO (nabs K NO (n1 K NO)) eps = false -> nre_ltb K NO (nabs K NO (nopp K NO (n1 K NO))) eps = false ->
  forall o : fop, SymmProofs.fop_in_range N (kind_of o) ->
  op_ok K NO fb eps (bridge N c) o (bridge_pairs (list KS) N c K NO o).
Proof. exact SpineBridge.symm_op_ok. Qed.
Print Assumptions bridge_op_ok_from_C07.

(** FieldOperator::prepare on the bridged classification (HPart's model) records the pairs the Symm model's prepare records *)
Theorem bridge_pairs_are_symm_prepare :
  forall (KS : Type) (s0 s1 : KS) (sadd smul ssub : KS -> KS -> KS) (sopp : KS -> KS) (szero : KS -> bool),
  ring_ok KS s0 s1 sadd smul ssub sopp szero -> s1 <> s0 ->
  forall (N : nat) (ops : list (poly KS)) (c : Symm.qclass KS),
  Forall (poly_in_range KS N) ops ->
  Symm.sc_compute KS s0 sadd ssub sopp szero N ops = Done c ->
  Forall (SymmProofs.uniform_shift KS s0 s1 sadd smul sopp N) ops ->
  forall (K : Type) (NO : numops K) (o : fop), SymmProofs.fop_in_range N (kind_of o) ->
  exists f : Symm.fieldop,
    Symm.prepare KS sadd sopp szero N c (SymmProofs.fop_poly KS s1 (kind_of o)) = Done f /\
    Symm.fo_bimap f = Symm.fo_parts f /\
    forall L R : nat, In (L, R) (Symm.fo_parts f) <-> In (L, R) (bridge_pairs (list KS) N c K NO o).
Proof. exact SpineBridge.bridge_pairs_symm_prepare. Qed.
Print Assumptions bridge_pairs_are_symm_prepare.

(** THE SPINE on the partition produced by the symmetry-analysis model: no inter-layer hypothesis *)
Theorem spine_gf_symmetry_partition :
  forall (KS : Type) (s0 s1 : KS) (sadd smul ssub : KS -> KS -> KS) (sopp : KS -> KS) (szero : KS -> bool),
  ring_ok KS s0 s1 sadd smul ssub sopp szero -> s1 <> s0 ->
  forall (N : nat) (ops : list (poly KS)) (c : Symm.qclass KS),
  Forall (poly_in_range KS N) ops ->
  Symm.sc_compute KS s0 sadd ssub sopp szero N ops = Done c ->
  Forall (SymmProofs.uniform_shift KS s0 s1 sadd smul sopp N) ops ->
  forall (K : Type) (NO : numops K) (kinv : K -> K),
  ring_theory (n0 K NO) (n1 K NO) (nadd K NO) (nmul K NO) (nsub K NO) (nopp K NO) (@eq K) ->
  (forall a b : K, ndiv K NO a b = nmul K NO a (kinv b)) ->
  nconj K NO (n0 K NO) = n0 K NO ->
  forall (fb : bool) (eps : K),
  nre_ltb K NO (nabs K NO (n1 K NO)) eps = false -> nre_ltb K NO (nabs K NO (nopp K NO (n1 K NO))) eps = false ->
  nre_ltb K NO eps (nabs K NO (n1 K NO)) = true -> nre_ltb K NO eps (nabs K NO (nopp K NO (n1 K NO))) = true ->
  forall reference prec : K,
  (forall x : K, keep_entry K NO reference prec x = false -> x = n0 K NO) ->
  forall T : tols K,
  (forall R : K, gf_relevant K NO (t_matrix_element K T) R = false -> R = n0 K NO) ->
  (forall a b : K, gf_compare K NO (t_compare K T) a b = false -> gf_compare K NO (t_compare K T) b a = true) ->
  forall (ED : eigdata K) (i j : nat), i < N -> j < N ->
  eig_ok K (bridge N c) ED ->                                          (* shapes of the per-block eigen-data *)
  forall (fixed lenient : bool) (beta z : K) (parts : list ((nat * nat) * part_out K)),
  spine_gf K NO fb eps reference prec T fixed lenient (bridge N c) ED beta i j = Done (WDone parts) ->
  exists D : list (Thermal.dmpart K),
    spine_dm K NO beta (bridge N c) ED = Done D /\
    gf_value K NO parts z =
    gf K NO (assembled_E K ED) (assembled_w K D)
       (rotate K NO (Nat.pow 2 N) (assembled_U K NO (bridge N c) ED) (op_matrix K NO N (cann i)))
       (rotate K NO (Nat.pow 2 N) (assembled_U K NO (bridge N c) ED) (op_matrix K NO N (cdag j))) z.
Proof. exact SpineBridge.spine_gf_symmetry. Qed.
Print Assumptions spine_gf_symmetry_partition.

(** with the repaired merge-walk loops the pipeline returns on that partition whenever the density matrix does *)
Theorem spine_gf_symmetry_partition_total :
  forall (KS : Type) (s0 s1 : KS) (sadd smul ssub : KS -> KS -> KS) (sopp : KS -> KS) (szero : KS -> bool),
  ring_ok KS s0 s1 sadd smul ssub sopp szero -> s1 <> s0 ->
  forall (N : nat) (ops : list (poly KS)) (c : Symm.qclass KS),
  Forall (poly_in_range KS N) ops ->
  Symm.sc_compute KS s0 sadd ssub sopp szero N ops = Done c ->
  Forall (SymmProofs.uniform_shift KS s0 s1 sadd smul sopp N) ops ->
  forall (K : Type) (NO : numops K) (kinv : K -> K),
  ring_theory (n0 K NO) (n1 K NO) (nadd K NO) (nmul K NO) (nsub K NO) (nopp K NO) (@eq K) ->
  (forall a b : K, ndiv K NO a b = nmul K NO a (kinv b)) ->
  nconj K NO (n0 K NO) = n0 K NO ->
  forall (fb : bool) (eps : K),
  nre_ltb K NO (nabs K NO (n1 K NO)) eps = false -> nre_ltb K NO (nabs K NO (nopp K NO (n1 K NO))) eps = false ->
  nre_ltb K NO eps (nabs K NO (n1 K NO)) = true -> nre_ltb K NO eps (nabs K NO (nopp K NO (n1 K NO))) = true ->
  forall reference prec : K,
  (forall x : K, keep_entry K NO reference prec x = false -> x = n0 K NO) ->
  forall (T : tols K) (ED : eigdata K) (i j : nat), i < N -> j < N -> eig_ok K (bridge N c) ED ->
  forall (lenient : bool) (beta : K) (D : list (Thermal.dmpart K)),
  spine_dm K NO beta (bridge N c) ED = Done D ->
  exists parts, spine_gf K NO fb eps reference prec T true lenient (bridge N c) ED beta i j = Done (WDone parts).
Proof. exact SpineBridge.spine_gf_symmetry_total. Qed.
Print Assumptions spine_gf_symmetry_partition_total.

(** ... on the operators ACCEPTED by the symmetry analysis of a Hamiltonian polynomial h: default and ignored analysis for the
    code as it is, every mode (custom candidates with indices in range) with the repaired acceptance test [sf = true]
    ([mode_uniform]; for custom candidates without the repair C07_single_target_refuted applies) *)
Theorem spine_gf_symmetry_analysis :
  forall (KS : Type) (s0 s1 : KS) (sadd smul ssub : KS -> KS -> KS) (sopp : KS -> KS) (szero : KS -> bool) (shalf : KS),
  ring_ok KS s0 s1 sadd smul ssub sopp szero -> s1 <> s0 ->
  forall (K : Type) (NO : numops K) (kinv : K -> K),
  ring_theory (n0 K NO) (n1 K NO) (nadd K NO) (nmul K NO) (nsub K NO) (nopp K NO) (@eq K) ->
  (forall a b : K, ndiv K NO a b = nmul K NO a (kinv b)) ->
  nconj K NO (n0 K NO) = n0 K NO ->
  forall (fb : bool) (eps : K),
  nre_ltb K NO (nabs K NO (n1 K NO)) eps = false -> nre_ltb K NO (nabs K NO (nopp K NO (n1 K NO))) eps = false ->
  nre_ltb K NO eps (nabs K NO (n1 K NO)) = true -> nre_ltb K NO eps (nabs K NO (nopp K NO (n1 K NO))) = true ->
  forall reference prec : K,
  (forall x : K, keep_entry K NO reference prec x = false -> x = n0 K NO) ->
  forall T : tols K,
  (forall R : K, gf_relevant K NO (t_matrix_element K T) R = false -> R = n0 K NO) ->
  (forall a b : K, gf_compare K NO (t_compare K T) a b = false -> gf_compare K NO (t_compare K T) b a = true) ->
  forall (fz sf : bool) (mode : Symm.symm_mode KS) (spins : list nat) (h : poly KS) (sy : Symm.symm KS),
  mode_uniform KS sf mode (length spins) ->
  Symm.symmetrize KS s0 s1 sadd smul ssub sopp szero shalf fz sf mode spins h = Done sy ->
  exists c, Symm.sc_compute KS s0 sadd ssub sopp szero (length spins) (Symm.sy_ops sy) = Done c /\
    forall (ED : eigdata K) (i j : nat), i < length spins -> j < length spins -> eig_ok K (bridge (length spins) c) ED ->
    forall (fixed lenient : bool) (beta z : K) (parts : list ((nat * nat) * part_out K)),
    spine_gf K NO fb eps reference prec T fixed lenient (bridge (length spins) c) ED beta i j = Done (WDone parts) ->
    exists D, spine_dm K NO beta (bridge (length spins) c) ED = Done D /\
      gf_value K NO parts z =
      gf K NO (assembled_E K ED) (assembled_w K D)
         (rotate K NO (Nat.pow 2 (length spins)) (assembled_U K NO (bridge (length spins) c) ED) (op_matrix K NO (length spins) (cann i)))
         (rotate K NO (Nat.pow 2 (length spins)) (assembled_U K NO (bridge (length spins) c) ED) (op_matrix K NO (length spins) (cdag j))) z.
Proof. exact SpineBridgeMain.spine_gf_symmetry_analysis. Qed.
Print Assumptions spine_gf_symmetry_analysis.

(** * The Hamiltonian layer *)
(** any partition, any matrix H without matrix elements between blocks: exact per-block eigen-systems of the restrictions
    assemble to an exact eigen-system of H  ([eigensystem n H U E]: H U = U diag E and U^+ U = 1, entry by entry) *)
Theorem assembled_eigensystem :
  forall (K : Type) (NO : numops K),
  ring_theory (n0 K NO) (n1 K NO) (nadd K NO) (nmul K NO) (nsub K NO) (nopp K NO) (@eq K) ->
  nconj K NO (n0 K NO) = n0 K NO ->
  forall (S : classification) (ED : eigdata K), partition_ok S -> eig_ok K S ED ->
  forall H : mat K, square K (state_size S) H ->
  (forall s t : nat, s < state_size S -> t < state_size S -> block_of S s <> block_of S t -> mget K NO H s t = n0 K NO) ->
  (forall b : nat, b < length (sc_states S) ->
     eigensystem K NO (block_size S b) (Hblock K NO S H b) (Uof K ED b) (Eof K ED b)) ->
  eigensystem K NO (state_size S) H (assembled_U K NO S ED) (assembled_E K ED).
Proof. exact SpineBridgeHam.assembled_eigensystem. Qed.
Print Assumptions assembled_eigensystem.

(** the two specifications of a matrix element <t|P|s> agree (EDSpec.poly_matrix, the oracle's; PolySem.coef_poly, C05/C07's) *)
Theorem poly_matrix_is_coef_poly :
  forall (K : Type) (NO : numops K),
  ring_theory (n0 K NO) (n1 K NO) (nadd K NO) (nmul K NO) (nsub K NO) (nopp K NO) (@eq K) ->
  forall (M : nat) (p : poly K) (s t : nat), s < Nat.pow 2 M -> t < Nat.pow 2 M ->
  mget K NO (poly_matrix K NO M p) t s =
  coef_poly K (n0 K NO) (n1 K NO) (nadd K NO) (nmul K NO) (nopp K NO) p (state_of_nat M s) (state_of_nat M t).
Proof. exact SpineBridgeHam.poly_matrix_coef. Qed.
Print Assumptions poly_matrix_is_coef_poly.

(** C07_H_block_diagonal for the bridged classification and the Jordan-Wigner matrix *)
Theorem spine_H_block_diagonal :
  forall (K : Type) (NO : numops K) (kzero : K -> bool) (khalf : K),
  ring_theory (n0 K NO) (n1 K NO) (nadd K NO) (nmul K NO) (nsub K NO) (nopp K NO) (@eq K) ->
  (forall x : K, kzero x = true <-> x = n0 K NO) ->
  (forall a b : K, nmul K NO a b = n0 K NO -> a = n0 K NO \/ b = n0 K NO) ->
  forall (fz sf : bool) (mode : Symm.symm_mode K) (spins : list nat) (h : poly K),
  poly_in_range K (length spins) h ->
  match mode with Symm.SymmCustom _ cands => Forall (poly_in_range K (length spins)) cands | _ => True end ->
  forall sy : Symm.symm K,
  Symm.symmetrize K (n0 K NO) (n1 K NO) (nadd K NO) (nmul K NO) (nsub K NO) (nopp K NO) kzero khalf fz sf mode spins h = Done sy ->
  forall c : Symm.qclass K,
  Symm.sc_compute K (n0 K NO) (nadd K NO) (nsub K NO) (nopp K NO) kzero (length spins) (Symm.sy_ops sy) = Done c ->
  forall s t : nat, s < Nat.pow 2 (length spins) -> t < Nat.pow 2 (length spins) ->
  block_of (bridge (length spins) c) s <> block_of (bridge (length spins) c) t ->
  mget K NO (poly_matrix K NO (length spins) h) s t = n0 K NO.
Proof. exact SpineBridgeHam.symm_H_block_diagonal. Qed.
Print Assumptions spine_H_block_diagonal.

(** C03 on that partition: the blocks the model of HamiltonianPart::prepare fills are the restrictions of poly_matrix h *)
Theorem spine_hblocks_are_restrictions :
  forall (K : Type) (NO : numops K) (kzero : K -> bool) (khalf : K),
  ring_theory (n0 K NO) (n1 K NO) (nadd K NO) (nmul K NO) (nsub K NO) (nopp K NO) (@eq K) ->
  (forall x : K, kzero x = true <-> x = n0 K NO) ->
  (forall a b : K, nmul K NO a b = n0 K NO -> a = n0 K NO \/ b = n0 K NO) ->
  forall (fz sf : bool) (mode : Symm.symm_mode K) (spins : list nat) (h : poly K),
  poly_in_range K (length spins) h ->
  match mode with Symm.SymmCustom _ cands => Forall (poly_in_range K (length spins)) cands | _ => True end ->
  forall sy : Symm.symm K,
  Symm.symmetrize K (n0 K NO) (n1 K NO) (nadd K NO) (nmul K NO) (nsub K NO) (nopp K NO) kzero khalf fz sf mode spins h = Done sy ->
  forall c : Symm.qclass K,
  Symm.sc_compute K (n0 K NO) (nadd K NO) (nsub K NO) (nopp K NO) kzero (length spins) (Symm.sy_ops sy) = Done c ->
  forall (fb : bool) (eps : K),
  (forall x : K, is_zero K NO eps x = true <-> x = n0 K NO) ->           (* the zero test of Operator::actRight is exact (C03) *)
  spine_hblocks K NO fb eps (bridge (length spins) c) h =
  Done (map (Hblock K NO (bridge (length spins) c) (poly_matrix K NO (length spins) h))
            (seq 0 (length (sc_states (bridge (length spins) c))))).
Proof. exact SpineBridgeHam.spine_hblocks_symmetry. Qed.
Print Assumptions spine_hblocks_are_restrictions.

Theorem spine_eigensystem_of_hamiltonian :
  forall (K : Type) (NO : numops K) (kzero : K -> bool) (khalf : K),
  ring_theory (n0 K NO) (n1 K NO) (nadd K NO) (nmul K NO) (nsub K NO) (nopp K NO) (@eq K) ->
  (forall x : K, kzero x = true <-> x = n0 K NO) ->
  (forall a b : K, nmul K NO a b = n0 K NO -> a = n0 K NO \/ b = n0 K NO) ->
  forall (fz sf : bool) (mode : Symm.symm_mode K) (spins : list nat) (h : poly K),
  poly_in_range K (length spins) h ->
  match mode with Symm.SymmCustom _ cands => Forall (poly_in_range K (length spins)) cands | _ => True end ->
  forall sy : Symm.symm K,
  Symm.symmetrize K (n0 K NO) (n1 K NO) (nadd K NO) (nmul K NO) (nsub K NO) (nopp K NO) kzero khalf fz sf mode spins h = Done sy ->
  forall c : Symm.qclass K,
  Symm.sc_compute K (n0 K NO) (nadd K NO) (nsub K NO) (nopp K NO) kzero (length spins) (Symm.sy_ops sy) = Done c ->
  forall (fb : bool) (eps : K),
  (forall x : K, is_zero K NO eps x = true <-> x = n0 K NO) ->
  nconj K NO (n0 K NO) = n0 K NO ->
  forall (ED : eigdata K) (Hs : list (mat K)),
  eig_ok K (bridge (length spins) c) ED ->
  spine_hblocks K NO fb eps (bridge (length spins) c) h = Done Hs ->
  (forall b : nat, b < length (sc_states (bridge (length spins) c)) ->
     eigensystem K NO (block_size (bridge (length spins) c) b) (nth b Hs []) (Uof K ED b) (Eof K ED b)) ->
  eigensystem K NO (Nat.pow 2 (length spins)) (poly_matrix K NO (length spins) h)
              (assembled_U K NO (bridge (length spins) c) ED) (assembled_E K ED).
Proof. exact SpineBridgeHam.spine_symmetry_eigensystem. Qed.
Print Assumptions spine_eigensystem_of_hamiltonian.

(** EVERYTHING IN ONE STATEMENT (one number type: a field with exact zero tests): Hamiltonian polynomial -> symmetry analysis ->
    blocks -> certified eigen-data -> G_ij(z) = EDSpec.gf of an exact eigen-decomposition of the Jordan-Wigner matrix of h *)
Theorem spine_gf_of_hamiltonian :
  forall (K : Type) (NO : numops K) (kinv : K -> K),
  field_theory (n0 K NO) (n1 K NO) (nadd K NO) (nmul K NO) (nsub K NO) (nopp K NO) (ndiv K NO) kinv (@eq K) ->
  forall (kzero : K -> bool) (khalf : K),
  (forall x : K, kzero x = true <-> x = n0 K NO) ->
  nconj K NO (n0 K NO) = n0 K NO ->
  forall (fb : bool) (eps : K),
  nre_ltb K NO (nabs K NO (n1 K NO)) eps = false -> nre_ltb K NO (nabs K NO (nopp K NO (n1 K NO))) eps = false ->
  nre_ltb K NO eps (nabs K NO (n1 K NO)) = true -> nre_ltb K NO eps (nabs K NO (nopp K NO (n1 K NO))) = true ->
  (forall x : K, is_zero K NO eps x = true <-> x = n0 K NO) ->
  forall reference prec : K,
  (forall x : K, keep_entry K NO reference prec x = false -> x = n0 K NO) ->
  forall T : tols K,
  (forall R : K, gf_relevant K NO (t_matrix_element K T) R = false -> R = n0 K NO) ->
  (forall a b : K, gf_compare K NO (t_compare K T) a b = false -> gf_compare K NO (t_compare K T) b a = true) ->
  forall (fz sf : bool) (mode : Symm.symm_mode K) (spins : list nat) (h : poly K) (sy : Symm.symm K),
  poly_in_range K (length spins) h ->
  mode_uniform K sf mode (length spins) ->
  Symm.symmetrize K (n0 K NO) (n1 K NO) (nadd K NO) (nmul K NO) (nsub K NO) (nopp K NO) kzero khalf fz sf mode spins h = Done sy ->
  exists c Hs,
    Symm.sc_compute K (n0 K NO) (nadd K NO) (nsub K NO) (nopp K NO) kzero (length spins) (Symm.sy_ops sy) = Done c /\
    spine_hblocks K NO fb eps (bridge (length spins) c) h = Done Hs /\
    forall ED : eigdata K, eig_ok K (bridge (length spins) c) ED ->
    (forall b, b < length (sc_states (bridge (length spins) c)) ->
       eigensystem K NO (block_size (bridge (length spins) c) b) (nth b Hs []) (Uof K ED b) (Eof K ED b)) ->
    eigensystem K NO (Nat.pow 2 (length spins)) (poly_matrix K NO (length spins) h)
                (assembled_U K NO (bridge (length spins) c) ED) (assembled_E K ED) /\
    forall i j : nat, i < length spins -> j < length spins ->
    forall (fixed lenient : bool) (beta z : K) (parts : list ((nat * nat) * part_out K)),
    spine_gf K NO fb eps reference prec T fixed lenient (bridge (length spins) c) ED beta i j = Done (WDone parts) ->
    exists D, spine_dm K NO beta (bridge (length spins) c) ED = Done D /\
      gf_value K NO parts z =
      gf K NO (assembled_E K ED) (assembled_w K D)
         (rotate K NO (Nat.pow 2 (length spins)) (assembled_U K NO (bridge (length spins) c) ED) (op_matrix K NO (length spins) (cann i)))
         (rotate K NO (Nat.pow 2 (length spins)) (assembled_U K NO (bridge (length spins) c) ED) (op_matrix K NO (length spins) (cdag j))) z.
Proof. exact SpineBridgeMain.spine_gf_of_hamiltonian. Qed.
Print Assumptions spine_gf_of_hamiltonian.

(** * Stage 3: the same spine for the ensemble average <c^+_i c_j> (model pipeline PV.SpineBridgeEA.spine_ea: Thermal.dm_compute,
    HPart.fo_prepare / fop_dense for the quadratic operator, Thermal.ea_prepare): the value is Tr(rho U^+ c^+_i c_j U) on the
    full Fock space, and the pipeline always returns when the density matrix does *)
Theorem spine_ea_partition :
  forall (K : Type) (NO : numops K),
  ring_theory (n0 K NO) (n1 K NO) (nadd K NO) (nmul K NO) (nsub K NO) (nopp K NO) (@eq K) ->
  nconj K NO (n0 K NO) = n0 K NO ->
  forall (fb : bool) (eps : K),
  nre_ltb K NO (nabs K NO (n1 K NO)) eps = false -> nre_ltb K NO (nabs K NO (nopp K NO (n1 K NO))) eps = false ->
  nre_ltb K NO eps (nabs K NO (n1 K NO)) = true -> nre_ltb K NO eps (nabs K NO (nopp K NO (n1 K NO))) = true ->
  forall reference prec : K,
  (forall x : K, keep_entry K NO reference prec x = false -> x = n0 K NO) ->
  forall (S : classification) (ED : eigdata K) (i j : nat) (prs : list (nat * nat)),
  partition_ok S -> eig_ok K S ED -> op_ok K NO fb eps S (FQuad i j) prs ->
  forall (beta : K) (D : list (Thermal.dmpart K)), spine_dm K NO beta S ED = Done D ->
  spine_ea K NO fb eps reference prec S ED beta i j =
  Done (trace_rho K NO (assembled_w K D)
          (rotate K NO (state_size S) (assembled_U K NO S ED) (poly_matrix K NO (sc_M S) (p_n_offdiag K (n1 K NO) i j)))).
Proof. exact SpineBridgeEAProofs.spine_ea_partition. Qed.
Print Assumptions spine_ea_partition.

Theorem spine_ea_symmetry_partition :
  forall (KS : Type) (s0 s1 : KS) (sadd smul ssub : KS -> KS -> KS) (sopp : KS -> KS) (szero : KS -> bool),
  ring_ok KS s0 s1 sadd smul ssub sopp szero -> s1 <> s0 ->
  forall (N : nat) (ops : list (poly KS)) (c : Symm.qclass KS),
  Forall (poly_in_range KS N) ops ->
  Symm.sc_compute KS s0 sadd ssub sopp szero N ops = Done c ->
  Forall (SymmProofs.uniform_shift KS s0 s1 sadd smul sopp N) ops ->
  forall (K : Type) (NO : numops K),
  ring_theory (n0 K NO) (n1 K NO) (nadd K NO) (nmul K NO) (nsub K NO) (nopp K NO) (@eq K) ->
  nconj K NO (n0 K NO) = n0 K NO ->
  forall (fb : bool) (eps : K),
  nre_ltb K NO (nabs K NO (n1 K NO)) eps = false -> nre_ltb K NO (nabs K NO (nopp K NO (n1 K NO))) eps = false ->
  nre_ltb K NO eps (nabs K NO (n1 K NO)) = true -> nre_ltb K NO eps (nabs K NO (nopp K NO (n1 K NO))) = true ->
  forall reference prec : K,
  (forall x : K, keep_entry K NO reference prec x = false -> x = n0 K NO) ->
  forall (ED : eigdata K) (i j : nat), i < N -> j < N -> eig_ok K (bridge N c) ED ->
  forall (beta : K) (D : list (Thermal.dmpart K)), spine_dm K NO beta (bridge N c) ED = Done D ->
  spine_ea K NO fb eps reference prec (bridge N c) ED beta i j =
  Done (trace_rho K NO (assembled_w K D)
          (rotate K NO (Nat.pow 2 N) (assembled_U K NO (bridge N c) ED) (poly_matrix K NO N (p_n_offdiag K (n1 K NO) i j)))).
Proof. exact SpineBridgeEAProofs.spine_ea_symmetry. Qed.
Print Assumptions spine_ea_symmetry_partition.

(** * Non-vacuity: the Hubbard atom, partition PRODUCED BY THE SYMMETRY-ANALYSIS MODEL (default mode: N and S_z accepted) *)
Theorem hubbard_atom_symmetry_partition :
  exists sy c, hub_sy_run = Done sy /\ Symm.sy_flags sy = [true; true] /\
    qc_sc_compute 2 (Symm.sy_ops sy) = Done c /\
    Symm.sc_blocks c = [[0]; [1]; [2]; [3]] /\ bridge 2 c = S4.
Proof. exact SpineBridgeExamples.hub_symmetry_partition. Qed.
Print Assumptions hubbard_atom_symmetry_partition.

Theorem hubbard_atom_symmetry_spine :
  exists sy c parts D,
    hub_sy_run = Done sy /\ qc_sc_compute 2 (Symm.sy_ops sy) = Done c /\
    hub_run_symm = Done (WDone parts) /\ spine_dm Qcanon.Qc QcS (n1 _ QcS) (bridge 2 c) ED4 = Done D /\
    gf_value Qcanon.Qc QcS parts hub_z =
    gf Qcanon.Qc QcS (assembled_E Qcanon.Qc ED4) (assembled_w Qcanon.Qc D)
       (rotate Qcanon.Qc QcS 4 (assembled_U Qcanon.Qc QcS (bridge 2 c) ED4) (op_matrix Qcanon.Qc QcS 2 (cann 0)))
       (rotate Qcanon.Qc QcS 4 (assembled_U Qcanon.Qc QcS (bridge 2 c) ED4) (op_matrix Qcanon.Qc QcS 2 (cdag 0))) hub_z.
Proof. exact SpineBridgeExamples.hub_spine_symmetry. Qed.
Print Assumptions hubbard_atom_symmetry_spine.

Theorem hubbard_atom_symmetry_value :
  hub_value_symm = Qcanon.Q2Qc (QArith_base.Qmake 2%Z 51%positive) /\ hub_value_symm <> n0 _ QcS /\
  match hub_run_symm with Done (WDone parts) => map fst parts = [(0, 1); (2, 3)] | _ => False end.
Proof. exact SpineBridgeExamples.hub_value_symm_nonzero. Qed.
Print Assumptions hubbard_atom_symmetry_value.

Theorem hubbard_atom_symmetry_eigensystem :
  exists c, hub_class_run = Done c /\
    spine_hblocks Qcanon.Qc QcS true (n0 _ QcS) (bridge 2 c) hub_h =
      Done (map (Hblock Qcanon.Qc QcS (bridge 2 c) (poly_matrix Qcanon.Qc QcS 2 hub_h)) (seq 0 4)) /\
    (forall b, b < 4 ->
       eigensystem Qcanon.Qc QcS (block_size (bridge 2 c) b) (Hblock Qcanon.Qc QcS (bridge 2 c) (poly_matrix Qcanon.Qc QcS 2 hub_h) b)
                   (Uof Qcanon.Qc ED4 b) (Eof Qcanon.Qc ED4 b)) /\
    eigensystem Qcanon.Qc QcS 4 (poly_matrix Qcanon.Qc QcS 2 hub_h) (assembled_U Qcanon.Qc QcS (bridge 2 c) ED4) (assembled_E Qcanon.Qc ED4) /\
    assembled_E Qcanon.Qc ED4 = hub_E /\ assembled_U Qcanon.Qc QcS (bridge 2 c) ED4 = hub_U.
Proof. exact SpineBridgeExamples.hub_eigensystem_symmetry. Qed.
Print Assumptions hubbard_atom_symmetry_eigensystem.

Theorem hubbard_atom_symmetry_average :
  exists c D, hub_class_run = Done c /\ spine_dm Qcanon.Qc QcS (n1 _ QcS) (bridge 2 c) ED4 = Done D /\
    hub_ea_run = Done (trace_rho Qcanon.Qc QcS (assembled_w Qcanon.Qc D)
                         (rotate Qcanon.Qc QcS 4 (assembled_U Qcanon.Qc QcS (bridge 2 c) ED4)
                            (poly_matrix Qcanon.Qc QcS 2 (p_n_offdiag Qcanon.Qc (n1 _ QcS) 0 0)))) /\
    hub_ea_run = Done (Qcanon.Q2Qc (QArith_base.Qmake 8%Z 17%positive)).
Proof. exact SpineBridgeExamples.hub_ea_symmetry. Qed.
Print Assumptions hubbard_atom_symmetry_average.

(** every hypothesis of [spine_gf_of_hamiltonian] instantiated (rationals with the discrete absolute value, eps = 1/2) *)
Theorem hubbard_atom_gf_of_hamiltonian :
  exists c Hs parts D,
    hub_class_run = Done c /\ spine_hblocks Qcanon.Qc QcD true eps_half (bridge 2 c) hub_h = Done Hs /\
    (forall b, b < 4 -> eigensystem Qcanon.Qc QcD (block_size (bridge 2 c) b) (nth b Hs []) (Uof Qcanon.Qc ED4 b) (Eof Qcanon.Qc ED4 b)) /\
    eigensystem Qcanon.Qc QcD 4 (poly_matrix Qcanon.Qc QcD 2 hub_h) (assembled_U Qcanon.Qc QcD (bridge 2 c) ED4) (assembled_E Qcanon.Qc ED4) /\
    hub_run_D c = Done (WDone parts) /\ spine_dm Qcanon.Qc QcD (n1 _ QcD) (bridge 2 c) ED4 = Done D /\
    gf_value Qcanon.Qc QcD parts hub_z =
    gf Qcanon.Qc QcD (assembled_E Qcanon.Qc ED4) (assembled_w Qcanon.Qc D)
       (rotate Qcanon.Qc QcD 4 (assembled_U Qcanon.Qc QcD (bridge 2 c) ED4) (op_matrix Qcanon.Qc QcD 2 (cann 0)))
       (rotate Qcanon.Qc QcD 4 (assembled_U Qcanon.Qc QcD (bridge 2 c) ED4) (op_matrix Qcanon.Qc QcD 2 (cdag 0))) hub_z /\
    gf_value Qcanon.Qc QcD parts hub_z = Qcanon.Q2Qc (QArith_base.Qmake 2%Z 51%positive).
Proof. exact SpineBridgeExamples.hub_gf_of_hamiltonian. Qed.
Print Assumptions hubbard_atom_gf_of_hamiltonian.

(** * Stage 4: the spine for the dynamical susceptibility chi_AB(z), A = c^+_a c_b, B = c^+_c c_d (C14)
    (PV.SpineSusc: model pipeline [spine_susc]; PV.SpineSuscFull: from the parts to the full Fock space; PV.SpineSuscPartition: any
    partition; PV.SpineSuscBridge: the partition of the symmetry-analysis model, the Hamiltonian layer; PV.SpineSuscExamples).

    Pipeline (PV.SpineSusc.spine_susc S ED beta a b c d):
      weights             := Thermal.dm_compute on the blocks                                              (C09's model)
      parts of A and B    := HPart.fo_prepare + HPart.fop_dense for FQuad a b, FQuad c d, stored as Eigen compressed row-/column-major
                             matrices keeping what HPart.prune keeps                                       (C10's model; C07's prepare)
      block pairs         := Susceptibility::prepare = the merge walk GFPart.stripes over the two bimap views, retention test
                             isRetained(Aleft) || isRetained(Aright) (SuscPart.susc_compute; the model of Properties_C14 / ThermalGen)
      terms, ZeroPoleWeight, value := SuscPart.susc_part_compute / susc_value (zero-pole term  ZeroPoleWeight * beta  added where
                             |z| < 1e-15)                                                                  (C14's model)
    Right-hand side: EDSpec.susc beta tol E w A B z [|z| < 1e-15] on the FULL Fock space with the assembled eigenvalues and weights and
    A = U^+ (c^+_a c_b) U, B = U^+ (c^+_c c_d) U; tol = the part's ReduceResonanceTolerance (a parameter: pairs of states with
    |E_m - E_n| < tol contribute beta A_nm B_mn w_n at the zero test and nothing elsewhere -- W = 0 WITH DEGENERATE STATES INCLUDED,
    for distinct states n <> m too).  Exact form of the other tolerances: MatrixElementTolerance drops exact zeros only, total comparator,
    prune drops exact zeros only.
    INTER-LAYER HYPOTHESES: [blocks_sound] / [assembled] (for two arbitrary operators: [susc_two_ops_blocks_sound]) discharged as in
    Stage 2; [partition_ok], [op_ok] discharged on the bridged symmetry partition as in Stage 2b.  Nothing is left between the layers. *)
From PV Require Import SuscPart SuscPartProofs SpineSusc SpineSuscFull SpineSuscPartition SpineSuscBridge SpineSuscExamples.

(** from the parts to the full space (the C14 counterpart of C01's gf_blocks_eq_full): hypotheses blocks_sound / assembled *)
Theorem susc_blocks_eq_full :
  forall (K : Type) (NO : numops K) (kinv : K -> K),
  ring_theory (n0 K NO) (n1 K NO) (nadd K NO) (nmul K NO) (nsub K NO) (nopp K NO) (@eq K) ->
  (forall a b : K, ndiv K NO a b = nmul K NO a (kinv b)) ->
  forall T : tols K,
  (forall R : K, susc_relevant K NO (t_matrix_element K T) R = false -> R = n0 K NO) ->
  (forall a b : K, susc_compare K NO (t_compare K T) a b = false -> susc_compare K NO (t_compare K T) b a = true) ->
  forall (nb : nat) (dim : nat -> nat) (g : gf_in K) (Af Bf : nat -> nat -> nat -> nat -> K),
  GFFullProofs.blocks_sound K NO nb dim g Af Bf ->
  forall (E w : list K) (Am Bm : list (list K)),
  GFFullProofs.assembled K NO nb dim g Af Bf E w Am Bm ->
  forall (fixed lenient : bool) (beta z : K) (parts : list ((nat * nat) * spart_out K)),
  susc_compute K NO fixed lenient T g = WDone parts ->
  susc_value K NO parts None beta z = susc K NO beta (t_resonance K T) E w Am Bm z (z_is_zero K NO z).
Proof. exact SpineSuscFull.susc_blocks_eq_full. Qed.
Print Assumptions susc_blocks_eq_full.

(** blocks_sound for the data the pipeline hands to Susceptibility, for two ARBITRARY field operators (Stage 2 had c_i, c^+_j) *)
Theorem susc_two_ops_blocks_sound :
  forall (K : Type) (NO : numops K),
  ring_theory (n0 K NO) (n1 K NO) (nadd K NO) (nmul K NO) (nsub K NO) (nopp K NO) (@eq K) ->
  nconj K NO (n0 K NO) = n0 K NO ->
  forall (fb : bool) (eps : K),
  nre_ltb K NO (nabs K NO (n1 K NO)) eps = false -> nre_ltb K NO (nabs K NO (nopp K NO (n1 K NO))) eps = false ->
  nre_ltb K NO eps (nabs K NO (n1 K NO)) = true -> nre_ltb K NO eps (nabs K NO (nopp K NO (n1 K NO))) = true ->
  forall reference prec : K,
  (forall x : K, keep_entry K NO reference prec x = false -> x = n0 K NO) ->
  forall (S : classification) (ED : eigdata K), partition_ok S -> eig_ok K S ED ->
  forall D : list (Thermal.dmpart K), dm_ok K NO S D ->
  forall (oA oB : fop) (prsA prsB : list (nat * nat)),
  op_ok K NO fb eps S oA prsA -> op_ok K NO fb eps S oB prsB ->
  forall aparts bparts : list ((nat * nat) * mat K),
  op_compute K NO fb eps S ED oA = Done aparts -> op_compute K NO fb eps S ED oB = Done bparts ->
  GFFullProofs.blocks_sound K NO (length (sc_states S)) (block_size S)
    (g2_all_retained K NO reference prec S ED D aparts bparts) (Af K NO S ED oA) (Bf K NO S ED oB).
Proof. exact SpineSuscPartition.two_ops_blocks_sound. Qed.
Print Assumptions susc_two_ops_blocks_sound.

(** any partition satisfying C07's conclusions *)
Theorem spine_susc_partition :
  forall (K : Type) (NO : numops K) (kinv : K -> K),
  field_theory (n0 K NO) (n1 K NO) (nadd K NO) (nmul K NO) (nsub K NO) (nopp K NO) (ndiv K NO) kinv (@eq K) ->
  nconj K NO (n0 K NO) = n0 K NO ->
  forall (fb : bool) (eps : K),
  nre_ltb K NO (nabs K NO (n1 K NO)) eps = false -> nre_ltb K NO (nabs K NO (nopp K NO (n1 K NO))) eps = false ->
  nre_ltb K NO eps (nabs K NO (n1 K NO)) = true -> nre_ltb K NO eps (nabs K NO (nopp K NO (n1 K NO))) = true ->
  forall reference prec : K,
  (forall x, keep_entry K NO reference prec x = false -> x = n0 K NO) ->
  forall T : tols K,
  (forall R, susc_relevant K NO (t_matrix_element K T) R = false -> R = n0 K NO) ->
  (forall a b, susc_compare K NO (t_compare K T) a b = false -> susc_compare K NO (t_compare K T) b a = true) ->
  forall (S : classification) (ED : eigdata K) (a b c d : nat) (pairsA pairsB : list (nat * nat)),
  partition_ok S ->                                       (* C07_partition_exact *)
  eig_ok K S ED ->                                        (* shapes *)
  op_ok K NO fb eps S (FQuad a b) pairsA ->               (* C07_single_target for c^+_a c_b *)
  op_ok K NO fb eps S (FQuad c d) pairsB ->               (* C07_single_target for c^+_c c_d *)
  forall (fixed lenient : bool) (beta z : K) (parts : list ((nat * nat) * spart_out K)),
  spine_susc K NO fb eps reference prec T fixed lenient S ED beta a b c d = Done (WDone parts) ->
  exists D, spine_dm K NO beta S ED = Done D /\
    spine_susc_value K NO parts beta z =
    susc K NO beta (t_resonance K T) (assembled_E K ED) (assembled_w K D)
       (rotate K NO (state_size S) (assembled_U K NO S ED) (poly_matrix K NO (sc_M S) (p_n_offdiag K (n1 K NO) a b)))
       (rotate K NO (state_size S) (assembled_U K NO S ED) (poly_matrix K NO (sc_M S) (p_n_offdiag K (n1 K NO) c d)))
       z (z_is_zero K NO z).
Proof.
  exact (fun K NO kinv Kf => SpineSuscPartition.spine_susc_partition K NO kinv (F_R Kf) (Fdiv_def Kf)).
Qed.
Print Assumptions spine_susc_partition.

Theorem spine_susc_partition_total :
  forall (K : Type) (NO : numops K),
  ring_theory (n0 K NO) (n1 K NO) (nadd K NO) (nmul K NO) (nsub K NO) (nopp K NO) (@eq K) ->
  nconj K NO (n0 K NO) = n0 K NO ->
  forall (fb : bool) (eps : K),
  nre_ltb K NO (nabs K NO (n1 K NO)) eps = false -> nre_ltb K NO (nabs K NO (nopp K NO (n1 K NO))) eps = false ->
  nre_ltb K NO eps (nabs K NO (n1 K NO)) = true -> nre_ltb K NO eps (nabs K NO (nopp K NO (n1 K NO))) = true ->
  forall reference prec : K,
  (forall x, keep_entry K NO reference prec x = false -> x = n0 K NO) ->
  forall (T : tols K) (S : classification) (ED : eigdata K) (a b c d : nat) (pairsA pairsB : list (nat * nat)),
  partition_ok S -> eig_ok K S ED -> op_ok K NO fb eps S (FQuad a b) pairsA -> op_ok K NO fb eps S (FQuad c d) pairsB ->
  forall (lenient : bool) (beta : K) D, spine_dm K NO beta S ED = Done D ->
  exists parts, spine_susc K NO fb eps reference prec T true lenient S ED beta a b c d = Done (WDone parts).
Proof. exact SpineSuscPartition.spine_susc_partition_total. Qed.
Print Assumptions spine_susc_partition_total.

(** THE SUSCEPTIBILITY SPINE on the partition produced by the symmetry-analysis model: no inter-layer hypothesis *)
Theorem spine_susc_symmetry_partition :
  forall (KS : Type) (s0 s1 : KS) (sadd smul ssub : KS -> KS -> KS) (sopp : KS -> KS) (szero : KS -> bool),
  ring_ok KS s0 s1 sadd smul ssub sopp szero -> s1 <> s0 ->
  forall (K : Type) (NO : numops K) (kinv : K -> K),
  ring_theory (n0 K NO) (n1 K NO) (nadd K NO) (nmul K NO) (nsub K NO) (nopp K NO) (@eq K) ->
  (forall a b : K, ndiv K NO a b = nmul K NO a (kinv b)) ->
  nconj K NO (n0 K NO) = n0 K NO ->
  forall (fb : bool) (eps : K),
  nre_ltb K NO (nabs K NO (n1 K NO)) eps = false -> nre_ltb K NO (nabs K NO (nopp K NO (n1 K NO))) eps = false ->
  nre_ltb K NO eps (nabs K NO (n1 K NO)) = true -> nre_ltb K NO eps (nabs K NO (nopp K NO (n1 K NO))) = true ->
  forall reference prec : K,
  (forall x : K, keep_entry K NO reference prec x = false -> x = n0 K NO) ->
  forall T : tols K,
  (forall R : K, susc_relevant K NO (t_matrix_element K T) R = false -> R = n0 K NO) ->
  (forall a b : K, susc_compare K NO (t_compare K T) a b = false -> susc_compare K NO (t_compare K T) b a = true) ->
  forall (N : nat) (ops : list (poly KS)) (c : Symm.qclass KS),
  Forall (poly_in_range KS N) ops ->
  Symm.sc_compute KS s0 sadd ssub sopp szero N ops = Done c ->
  Forall (SymmProofs.uniform_shift KS s0 s1 sadd smul sopp N) ops ->
  forall (ED : eigdata K) (a b c' d : nat), a < N -> b < N -> c' < N -> d < N ->
  eig_ok K (bridge N c) ED ->                                          (* shapes of the per-block eigen-data *)
  forall (fixed lenient : bool) (beta z : K) (parts : list ((nat * nat) * spart_out K)),
  spine_susc K NO fb eps reference prec T fixed lenient (bridge N c) ED beta a b c' d = Done (WDone parts) ->
  exists D : list (Thermal.dmpart K),
    spine_dm K NO beta (bridge N c) ED = Done D /\
    spine_susc_value K NO parts beta z =
    susc K NO beta (t_resonance K T) (assembled_E K ED) (assembled_w K D)
       (rotate K NO (Nat.pow 2 N) (assembled_U K NO (bridge N c) ED) (poly_matrix K NO N (p_n_offdiag K (n1 K NO) a b)))
       (rotate K NO (Nat.pow 2 N) (assembled_U K NO (bridge N c) ED) (poly_matrix K NO N (p_n_offdiag K (n1 K NO) c' d)))
       z (z_is_zero K NO z).
Proof. exact SpineSuscBridge.spine_susc_symmetry. Qed.
Print Assumptions spine_susc_symmetry_partition.

Theorem spine_susc_symmetry_partition_total :
  forall (KS : Type) (s0 s1 : KS) (sadd smul ssub : KS -> KS -> KS) (sopp : KS -> KS) (szero : KS -> bool),
  ring_ok KS s0 s1 sadd smul ssub sopp szero -> s1 <> s0 ->
  forall (K : Type) (NO : numops K),
  ring_theory (n0 K NO) (n1 K NO) (nadd K NO) (nmul K NO) (nsub K NO) (nopp K NO) (@eq K) ->
  nconj K NO (n0 K NO) = n0 K NO ->
  forall (fb : bool) (eps : K),
  nre_ltb K NO (nabs K NO (n1 K NO)) eps = false -> nre_ltb K NO (nabs K NO (nopp K NO (n1 K NO))) eps = false ->
  nre_ltb K NO eps (nabs K NO (n1 K NO)) = true -> nre_ltb K NO eps (nabs K NO (nopp K NO (n1 K NO))) = true ->
  forall reference prec : K,
  (forall x : K, keep_entry K NO reference prec x = false -> x = n0 K NO) ->
  forall (T : tols K) (N : nat) (ops : list (poly KS)) (c : Symm.qclass KS),
  Forall (poly_in_range KS N) ops ->
  Symm.sc_compute KS s0 sadd ssub sopp szero N ops = Done c ->
  Forall (SymmProofs.uniform_shift KS s0 s1 sadd smul sopp N) ops ->
  forall (ED : eigdata K) (a b c' d : nat), a < N -> b < N -> c' < N -> d < N -> eig_ok K (bridge N c) ED ->
  forall (lenient : bool) (beta : K) (D : list (Thermal.dmpart K)),
  spine_dm K NO beta (bridge N c) ED = Done D ->
  exists parts, spine_susc K NO fb eps reference prec T true lenient (bridge N c) ED beta a b c' d = Done (WDone parts).
Proof. exact SpineSuscBridge.spine_susc_symmetry_total. Qed.
Print Assumptions spine_susc_symmetry_partition_total.

(** ... on the operators ACCEPTED by the symmetry analysis of a Hamiltonian polynomial h *)
Theorem spine_susc_symmetry_analysis :
  forall (KS : Type) (s0 s1 : KS) (sadd smul ssub : KS -> KS -> KS) (sopp : KS -> KS) (szero : KS -> bool) (shalf : KS),
  ring_ok KS s0 s1 sadd smul ssub sopp szero -> s1 <> s0 ->
  forall (K : Type) (NO : numops K) (kinv : K -> K),
  ring_theory (n0 K NO) (n1 K NO) (nadd K NO) (nmul K NO) (nsub K NO) (nopp K NO) (@eq K) ->
  (forall a b : K, ndiv K NO a b = nmul K NO a (kinv b)) ->
  nconj K NO (n0 K NO) = n0 K NO ->
  forall (fb : bool) (eps : K),
  nre_ltb K NO (nabs K NO (n1 K NO)) eps = false -> nre_ltb K NO (nabs K NO (nopp K NO (n1 K NO))) eps = false ->
  nre_ltb K NO eps (nabs K NO (n1 K NO)) = true -> nre_ltb K NO eps (nabs K NO (nopp K NO (n1 K NO))) = true ->
  forall reference prec : K,
  (forall x : K, keep_entry K NO reference prec x = false -> x = n0 K NO) ->
  forall T : tols K,
  (forall R : K, susc_relevant K NO (t_matrix_element K T) R = false -> R = n0 K NO) ->
  (forall a b : K, susc_compare K NO (t_compare K T) a b = false -> susc_compare K NO (t_compare K T) b a = true) ->
  forall (fz sf : bool) (mode : Symm.symm_mode KS) (spins : list nat) (h : poly KS) (sy : Symm.symm KS),
  mode_uniform KS sf mode (length spins) ->
  Symm.symmetrize KS s0 s1 sadd smul ssub sopp szero shalf fz sf mode spins h = Done sy ->
  exists c, Symm.sc_compute KS s0 sadd ssub sopp szero (length spins) (Symm.sy_ops sy) = Done c /\
    forall (ED : eigdata K) (a b c' d : nat), a < length spins -> b < length spins -> c' < length spins -> d < length spins ->
    eig_ok K (bridge (length spins) c) ED ->
    forall (fixed lenient : bool) (beta z : K) (parts : list ((nat * nat) * spart_out K)),
    spine_susc K NO fb eps reference prec T fixed lenient (bridge (length spins) c) ED beta a b c' d = Done (WDone parts) ->
    exists D, spine_dm K NO beta (bridge (length spins) c) ED = Done D /\
      spine_susc_value K NO parts beta z =
      susc K NO beta (t_resonance K T) (assembled_E K ED) (assembled_w K D)
         (rotate K NO (Nat.pow 2 (length spins)) (assembled_U K NO (bridge (length spins) c) ED)
                 (poly_matrix K NO (length spins) (p_n_offdiag K (n1 K NO) a b)))
         (rotate K NO (Nat.pow 2 (length spins)) (assembled_U K NO (bridge (length spins) c) ED)
                 (poly_matrix K NO (length spins) (p_n_offdiag K (n1 K NO) c' d)))
         z (z_is_zero K NO z).
Proof. exact SpineSuscBridge.spine_susc_symmetry_analysis. Qed.
Print Assumptions spine_susc_symmetry_analysis.

(** from the Hamiltonian polynomial (one number type, exact zero tests): the analysis returns a classification, the model of
    Hamiltonian::prepare the blocks, and for per-block eigen-data satisfying the exact certificate for those blocks the assembled
    (E, U) is an exact eigen-system of poly_matrix h and the pipeline's value is EDSpec.susc of that eigen-system *)
Theorem spine_susc_of_hamiltonian :
  forall (K : Type) (NO : numops K) (kinv : K -> K),
  field_theory (n0 K NO) (n1 K NO) (nadd K NO) (nmul K NO) (nsub K NO) (nopp K NO) (ndiv K NO) kinv (@eq K) ->
  forall (kzero : K -> bool) (khalf : K),
  (forall x : K, kzero x = true <-> x = n0 K NO) ->
  nconj K NO (n0 K NO) = n0 K NO ->
  forall (fb : bool) (eps : K),
  nre_ltb K NO (nabs K NO (n1 K NO)) eps = false -> nre_ltb K NO (nabs K NO (nopp K NO (n1 K NO))) eps = false ->
  nre_ltb K NO eps (nabs K NO (n1 K NO)) = true -> nre_ltb K NO eps (nabs K NO (nopp K NO (n1 K NO))) = true ->
  (forall x : K, is_zero K NO eps x = true <-> x = n0 K NO) ->
  forall reference prec : K,
  (forall x : K, keep_entry K NO reference prec x = false -> x = n0 K NO) ->
  forall T : tols K,
  (forall R : K, susc_relevant K NO (t_matrix_element K T) R = false -> R = n0 K NO) ->
  (forall a b : K, susc_compare K NO (t_compare K T) a b = false -> susc_compare K NO (t_compare K T) b a = true) ->
  forall (fz sf : bool) (mode : Symm.symm_mode K) (spins : list nat) (h : poly K) (sy : Symm.symm K),
  poly_in_range K (length spins) h ->
  mode_uniform K sf mode (length spins) ->
  Symm.symmetrize K (n0 K NO) (n1 K NO) (nadd K NO) (nmul K NO) (nsub K NO) (nopp K NO) kzero khalf fz sf mode spins h = Done sy ->
  exists c Hs,
    Symm.sc_compute K (n0 K NO) (nadd K NO) (nsub K NO) (nopp K NO) kzero (length spins) (Symm.sy_ops sy) = Done c /\
    spine_hblocks K NO fb eps (bridge (length spins) c) h = Done Hs /\
    forall ED : eigdata K, eig_ok K (bridge (length spins) c) ED ->
    (forall b, b < length (sc_states (bridge (length spins) c)) ->
       eigensystem K NO (block_size (bridge (length spins) c) b) (nth b Hs []) (Uof K ED b) (Eof K ED b)) ->
    eigensystem K NO (Nat.pow 2 (length spins)) (poly_matrix K NO (length spins) h)
                (assembled_U K NO (bridge (length spins) c) ED) (assembled_E K ED) /\
    forall a b c' d : nat, a < length spins -> b < length spins -> c' < length spins -> d < length spins ->
    forall (fixed lenient : bool) (beta z : K) (parts : list ((nat * nat) * spart_out K)),
    spine_susc K NO fb eps reference prec T fixed lenient (bridge (length spins) c) ED beta a b c' d = Done (WDone parts) ->
    exists D, spine_dm K NO beta (bridge (length spins) c) ED = Done D /\
      spine_susc_value K NO parts beta z =
      susc K NO beta (t_resonance K T) (assembled_E K ED) (assembled_w K D)
         (rotate K NO (Nat.pow 2 (length spins)) (assembled_U K NO (bridge (length spins) c) ED)
                 (poly_matrix K NO (length spins) (p_n_offdiag K (n1 K NO) a b)))
         (rotate K NO (Nat.pow 2 (length spins)) (assembled_U K NO (bridge (length spins) c) ED)
                 (poly_matrix K NO (length spins) (p_n_offdiag K (n1 K NO) c' d)))
         z (z_is_zero K NO z).
Proof. exact SpineSuscBridge.spine_susc_of_hamiltonian. Qed.
Print Assumptions spine_susc_of_hamiltonian.

(** * Non-vacuity: the spin-flip susceptibility of the Hubbard atom, A = c^+_0 c_1, B = c^+_1 c_0: the only contributing pair of
    states is (|up>, |dn>), two DIFFERENT states of EQUAL energy; partition produced by the symmetry-analysis model *)
Theorem hubbard_atom_susc_symmetry_spine :
  exists sy c parts D,
    hub_sy_run = Done sy /\ qc_sc_compute 2 (Symm.sy_ops sy) = Done c /\
    hub_susc_run_symm = Done (WDone parts) /\ spine_dm Qcanon.Qc QcS (n1 _ QcS) (bridge 2 c) ED4 = Done D /\
    forall z : Qcanon.Qc,
    spine_susc_value Qcanon.Qc QcS parts (n1 _ QcS) z =
    susc Qcanon.Qc QcS (n1 _ QcS) (t_resonance _ T0) (assembled_E Qcanon.Qc ED4) (assembled_w Qcanon.Qc D)
       (rotate Qcanon.Qc QcS 4 (assembled_U Qcanon.Qc QcS (bridge 2 c) ED4) (poly_matrix Qcanon.Qc QcS 2 (p_n_offdiag Qcanon.Qc (n1 _ QcS) 0 1)))
       (rotate Qcanon.Qc QcS 4 (assembled_U Qcanon.Qc QcS (bridge 2 c) ED4) (poly_matrix Qcanon.Qc QcS 2 (p_n_offdiag Qcanon.Qc (n1 _ QcS) 1 0)))
       z (z_is_zero Qcanon.Qc QcS z).
Proof. exact SpineSuscExamples.hub_susc_spine_symmetry. Qed.
Print Assumptions hubbard_atom_susc_symmetry_spine.

(** beta * w_up = 6/17 at z = 0 (the zero test fires), 0 at z = 1/2; one part, block pair (1, 2), NO stored term,
    ZeroPoleWeight = w_up: the whole value is the degenerate zero-pole contribution *)
Theorem hubbard_atom_susc_zero_pole_value :
  hub_susc_value_symm (n0 _ QcS) = Qcanon.Q2Qc (QArith_base.Qmake 6%Z 17%positive) /\ hub_susc_value_symm (n0 _ QcS) <> n0 _ QcS /\
  z_is_zero Qcanon.Qc QcS (n0 _ QcS) = true /\
  hub_susc_value_symm hub_z = n0 _ QcS /\ z_is_zero Qcanon.Qc QcS hub_z = false /\
  match hub_susc_run_symm with
  | Done (WDone parts) => map fst parts = [(1, 2)] /\ map (fun p => so_terms Qcanon.Qc (snd p)) parts = [[]] /\
                          map (fun p => so_zero Qcanon.Qc (snd p)) parts = [Qcanon.Q2Qc (QArith_base.Qmake 6%Z 17%positive)]
  | _ => False
  end.
Proof. exact SpineSuscExamples.hub_susc_value_zero_pole. Qed.
Print Assumptions hubbard_atom_susc_zero_pole_value.

(** every hypothesis of [spine_susc_of_hamiltonian] instantiated (rationals with the discrete absolute value, eps = 1/2) *)
Theorem hubbard_atom_susc_of_hamiltonian :
  exists c Hs parts D,
    hub_class_run = Done c /\ spine_hblocks Qcanon.Qc QcD true eps_half (bridge 2 c) hub_h = Done Hs /\
    (forall b, b < 4 -> eigensystem Qcanon.Qc QcD (block_size (bridge 2 c) b) (nth b Hs []) (Uof Qcanon.Qc ED4 b) (Eof Qcanon.Qc ED4 b)) /\
    eigensystem Qcanon.Qc QcD 4 (poly_matrix Qcanon.Qc QcD 2 hub_h) (assembled_U Qcanon.Qc QcD (bridge 2 c) ED4) (assembled_E Qcanon.Qc ED4) /\
    hub_susc_run_D c = Done (WDone parts) /\ spine_dm Qcanon.Qc QcD (n1 _ QcD) (bridge 2 c) ED4 = Done D /\
    spine_susc_value Qcanon.Qc QcD parts (n1 _ QcD) (n0 _ QcD) =
    susc Qcanon.Qc QcD (n1 _ QcD) eps_half (assembled_E Qcanon.Qc ED4) (assembled_w Qcanon.Qc D)
       (rotate Qcanon.Qc QcD 4 (assembled_U Qcanon.Qc QcD (bridge 2 c) ED4) (poly_matrix Qcanon.Qc QcD 2 (p_n_offdiag Qcanon.Qc (n1 _ QcD) 0 1)))
       (rotate Qcanon.Qc QcD 4 (assembled_U Qcanon.Qc QcD (bridge 2 c) ED4) (poly_matrix Qcanon.Qc QcD 2 (p_n_offdiag Qcanon.Qc (n1 _ QcD) 1 0)))
       (n0 _ QcD) true /\
    spine_susc_value Qcanon.Qc QcD parts (n1 _ QcD) (n0 _ QcD) = Qcanon.Q2Qc (QArith_base.Qmake 6%Z 17%positive).
Proof. exact SpineSuscExamples.hub_susc_of_hamiltonian. Qed.
Print Assumptions hubbard_atom_susc_of_hamiltonian.

(** * Stage 5: the spine for the two-particle Green's function chi_{ijkl}(z1, z2; z3) (C02) -- ONE-BLOCK partition
    (PV.SpineChi: model pipelines; PV.SpineChiPart: one part on dense data; PV.SpineChiTermLists: the term lists;
    PV.SpineChiOneBlock / PV.SpineChiMain: the theorems; PV.SpineChiExamples).

    FULL STATEMENT (not proved): for every classification S with [partition_ok] and [op_ok] for c_i, c_j, c^+_k, c^+_l, the value of
    PV.SpineChi.spine_chi S ED beta i j k l (operators from Spine.op_compute, TwoParticleGF::prepare over CX4's bimap with the six
    permutations, each selecting its own chain of four blocks L0 -> L1 -> L2 -> L3 -> L0) at a regular triple equals
    EDSpec.chi of the assembled eigenvalues / weights and the four operators rotated by the assembled eigenvector matrix.
    PROVED: the one-block partition (symmetries ignored), with NO hypothesis on the neighbouring layers and NO hypothesis on the
    computed term lists ([spine_chi_one_block_partial] = the partial result; [spine_chi_dense_one_block] its dense form):
      pipeline   = Thermal.dm_compute weights; rotated Jordan-Wigner matrices; their compressed row-/column-major views
                   ([smat_rows]/[smat_cols] = what HPart.prune keeps, per outer index in increasing inner index);
                   Chi.gf_prepare (computed: six parts, the permuted operators -- [chi_one_block_prepare]); Chi.part_compute (merge walks,
                   addMultiterm, add_term = the retry loop of the source); Chi.gf_compute without table; Chi.gf_value on demand;
      value      = EDSpec.chi beta tol E w C_i C_j CX_k CX_l z1 z2 z3,  tol = ReduceResonanceTolerance.
    It closes the step named as missing in the header of PV.ChiLehmann ("term lists evaluate to the Lehmann 4-chain sum"):
      [chi_dense_part_emitted]   sum over all visits of the terms handed to the term lists = sign * EDSpec.chi_ordering   (uses
                                 ChiProofs.part_visits_spec and ChiLehmann.multiterm_emitted_value);
      [chi_add_term_loop_value]  the retry loop adds the value of its term, for ANY comparator under abstract exactness hypotheses;
      [chi_termlists_faithful]   hence the two term lists evaluate to the sum of the terms handed to them, when the comparators are exact
                                 on the finite set of pole values ([cmp_exact]) and IsNegligible drops exact zeros only.
    HYPOTHESES that remain (all on the input, none on another layer):
      field with ofZ additive, non-zero on positive integers, ofZ 1 = 1, ofZ(-1) = -1;  exact value tests (prune / nz / coefficient
      guards / negligibility drop exact zeros);  [cmp_exact] for both comparator tolerances on the level differences E_b - E_a
      (boolean checker [cmp_exact_b]);  [chi_regular6]: in each of the six orderings no fermionic denominator vanishes, the code's
      resonance test |y+y'-P-P'| < tol agrees with the specification's |y+y'| < tol && |E-E'| < tol and a non-resonant bosonic
      denominator does not vanish, the weight guard passes (boolean checker [chi_regular6_b]).  RESONANT triples are included.
    DONE towards the full statement:
      (1) rectangular form of [chi_dense_part_emitted] for a chain of four blocks of sizes d0 x d1, d1 x d2, d2 x d3, d3 x d0 with four
          eigenvalue / weight lists: [chi_chain_part_emitted] (with [chi_termlists_faithful], which is stated for any part, this is the
          value of any part TwoParticleGF::prepare can create);
      (4) on the one-block partition the general pipeline SpineChi.spine_chi (operators from Spine.op_compute = the models of
          FieldOperator::prepare / FieldOperatorPart::compute) IS the one-block run: [chi_op_compute_one_block] (op_compute returns the
          single part ((0,0), U^+ O U) as a list of rows), [spine_chi_one_block_op_compute_partial] -- for operators that do not vanish
          identically ([first_tgt] <> None, decidable by evaluation).
    MISSING for the full statement (precise list):
      (2) [chain_ok], the analogue of [op_ok] for chains: for each permutation the parts Chi.gf_prepare creates on
          SpineChi.spine_chi_world are exactly the chains (L0, L1, L2, L3) with (L0,L1), (L1,L2), (L2,L3) recorded for the permuted
          operators and (L3,L0) for c^+_l, each once (Chi.prepare_one against SpinePartition.op_ok: getRightIndex / getLeftIndex on the
          Z-valued copy of fo_bimap; retention test trivially true) -- the block-chain counterpart of GFFullProofs.gf_prepare_spec;
      (3) the full-space 4-fold sum (EDSpec.chi_ordering on the assembled data) splits over block chains into the [chain_sum]s of (1), and
          every chain not created contributes 0 (operators vanish outside their recorded pairs: SpinePartition.rot_term_zero) -- the
          counterpart of GFFullProofs.gf_full_is_blocks / sum_over_pairs, four-fold;
      (5) the Jordan-Wigner fact that c_i, c^+_i with i < M have an image on some basis state ([first_tgt] <> None), a hypothesis of (4). *)
From PV Require Import Chi ChiProofs ChiLehmann SpineChi SpineChiPart SpineChiOneBlock SpineChiTermLists SpineChiMain SpineChiChain
     SpineChiOpCompute SpineChiExamples SpineSuscConnected.
From PVgen Require Import Gen_Multiterm.

(** one part on dense data: the terms handed to the two term lists sum to sign * (Lehmann 4-chain sum of this ordering) *)
Theorem chi_dense_part_emitted :
  forall (K : Type) (NO : numops K),
  field_theory (n0 K NO) (n1 K NO) (nadd K NO) (nmul K NO) (nsub K NO) (nopp K NO) (ndiv K NO) (ChiLehmann.kinv K NO) (@eq K) ->
  forall keepf : K -> bool,
  (forall x : K, keepf x = false -> x = n0 K NO) ->
  forall tl : Chi.tols K,
  (forall x : K, abs_gt K NO x (t_coeff K tl) = false -> x = n0 K NO) ->
  (forall x : K, nre_ltb K NO (n0 K NO) (nabs K NO x) = false -> x = n0 K NO) ->
  forall (n : nat) (E w : list K) (beta : K) (X1 X2 X3 X4 : mat K),
  square K n X1 -> square K n X2 -> square K n X3 -> square K n X4 ->
  forall (perm : nat * nat * nat) (sg : Z) (y1 y2 y3 : K),
  chi_regular K NO tl n E w y1 y2 y3 ->
  ChiLehmann.lsum K NO (spec_visits K (dense_part K NO keepf n E w beta X1 X2 X3 X4 perm sg))
    (fun v => emitted_value K NO tl y1 y2 y3 (visit_emissions K NO tl (dense_part K NO keepf n E w beta X1 X2 X3 X4 perm sg) v)) =
  nmul K NO (signK K NO sg) (chi_ordering K NO beta (t_reduce K tl) E w X1 X2 X3 X4 y1 y2 y3).
Proof. exact SpineChiPart.dense_part_emitted. Qed.
Print Assumptions chi_dense_part_emitted.

(** TermList::add_term as it is in the source (retry loop): adds the value of its term, for any comparator, when a blocking term
    is "the same" as the inserted one, operator+= is additive on such pairs and a negligible sum evaluates to 0 *)
Theorem chi_add_term_loop_value :
  forall (K : Type) (NO : numops K),
  field_theory (n0 K NO) (n1 K NO) (nadd K NO) (nmul K NO) (nsub K NO) (nopp K NO) (ndiv K NO) (ChiLehmann.kinv K NO) (@eq K) ->
  forall (T : Type) (comp : T -> T -> bool) (plus : T -> T -> T) (negl : T -> nat -> bool) (ev : T -> K)
         (Good : T -> Prop) (same : T -> T -> Prop),
  (forall e t : T, Good e -> Good t -> comp e t = false -> comp t e = false -> same e t) ->
  (forall e t : T, Good e -> Good t -> same e t -> Good (plus e t)) ->
  (forall e t : T, Good e -> Good t -> same e t -> ev (plus e t) = nadd K NO (ev e) (ev t)) ->
  (forall (t : T) (d : nat), Good t -> negl t d = true -> ev t = n0 K NO) ->
  forall (fuel : nat) (t : T) (l : list T),
  Forall Good l -> Good t -> length l <= fuel ->
  Forall Good (snd (add_term_loop T comp plus negl fuel t l)) /\
  ChiLehmann.lsum K NO (snd (add_term_loop T comp plus negl fuel t l)) ev = nadd K NO (ChiLehmann.lsum K NO l ev) (ev t).
Proof. exact SpineChiTermLists.add_term_loop_value. Qed.
Print Assumptions chi_add_term_loop_value.

(** the two term lists of a computed part evaluate to the sum of the terms handed to them (the step ChiLehmann names as missing) *)
Theorem chi_termlists_faithful :
  forall (K : Type) (NO : numops K),
  field_theory (n0 K NO) (n1 K NO) (nadd K NO) (nmul K NO) (nsub K NO) (nopp K NO) (ndiv K NO) (ChiLehmann.kinv K NO) (@eq K) ->
  (forall a b : Z, nofZ K NO (a + b)%Z = nadd K NO (nofZ K NO a) (nofZ K NO b)) ->
  (forall z : Z, (0 < z)%Z -> nofZ K NO z <> n0 K NO) ->
  forall (tl : Chi.tols K) (L : list K) (y1 y2 y3 : K),
  cmp_exact K NO (t_cmp_nr K tl) L -> cmp_exact K NO (t_cmp_r K tl) L ->
  (forall (x : K) (d : nat), abs_lt K NO x (ndiv K NO (t_neg_nr K tl) (nofZ K NO (Z.of_nat d))) = true -> x = n0 K NO) ->
  (forall (x : K) (d : nat), abs_lt K NO x (ndiv K NO (t_neg_r K tl) (nofZ K NO (Z.of_nat d))) = true -> x = n0 K NO) ->
  forall (g : nat) (p : part_in K), part_sorted K p ->
  (forall v : visit K, In v (spec_visits K p) ->
     In (nsub K NO (nth (v_i2 K v) (p_E2 K p) (n0 K NO)) (nth (v_i1 K v) (p_E1 K p) (n0 K NO))) L /\
     In (nsub K NO (nth (v_i3 K v) (p_E3 K p) (n0 K NO)) (nth (v_i2 K v) (p_E2 K p) (n0 K NO))) L /\
     In (nsub K NO (nth (v_i4 K v) (p_E4 K p) (n0 K NO)) (nth (v_i3 K v) (p_E3 K p) (n0 K NO))) L) ->
  nadd K NO (list_eval K NO (fun t => nr_eval K NO t y1 y2 y3) (ps_nr K (computed_st K NO g tl p)))
            (list_eval K NO (fun t => r_eval K NO (t_reduce K tl) t y1 y2 y3) (ps_r K (computed_st K NO g tl p))) =
  ChiLehmann.lsum K NO (spec_visits K p) (fun v => emitted_value K NO tl y1 y2 y3 (visit_emissions K NO tl p v)).
Proof. exact SpineChiTermLists.termlists_faithful_exact. Qed.
Print Assumptions chi_termlists_faithful.

(** TwoParticleGF::prepare on one block: six parts with the permuted operators (computed, not assumed) *)
Theorem chi_one_block_prepare :
  forall (K : Type) (NO : numops K) (keepf : K -> bool) (n : nat) (E w : list K) (beta : K) (D1 D2 D3 D4 : mat K),
  Chi.gf_prepare K (world1 K NO keepf n beta E w D1 D2 D3 D4) =
  Done (map (perm_part K NO keepf n E w beta D1 D2 D3 D4) permutations3).
Proof. exact SpineChiOneBlock.one_block_prepare. Qed.
Print Assumptions chi_one_block_prepare.

(** the checkers of the two data hypotheses are sound *)
Theorem chi_cmp_exact_checker :
  forall (K : Type) (NO : numops K) (keq : K -> K -> bool), (forall p q : K, keq p q = true <-> p = q) ->
  forall (tc : K) (L : list K), cmp_exact_b K NO keq tc L = true -> cmp_exact K NO tc L.
Proof. exact SpineChiMain.cmp_exact_b_sound. Qed.
Print Assumptions chi_cmp_exact_checker.

Theorem chi_regular_checker :
  forall (K : Type) (NO : numops K) (keq : K -> K -> bool), (forall p q : K, keq p q = true <-> p = q) ->
  forall (tl : Chi.tols K) (n : nat) (E w : list K) (z1 z2 z3 : K),
  chi_regular6_b K NO keq tl n E w z1 z2 z3 = true -> chi_regular6 K NO tl n E w z1 z2 z3.
Proof. exact SpineChiMain.chi_regular6_b_sound. Qed.
Print Assumptions chi_regular_checker.

(** dense form: four square matrices in the eigenbasis *)
Theorem spine_chi_dense_one_block :
  forall (K : Type) (NO : numops K),
  field_theory (n0 K NO) (n1 K NO) (nadd K NO) (nmul K NO) (nsub K NO) (nopp K NO) (ndiv K NO) (ChiLehmann.kinv K NO) (@eq K) ->
  forall keepf : K -> bool,
  (forall x : K, keepf x = false -> x = n0 K NO) ->
  forall tl : Chi.tols K,
  (forall x : K, abs_gt K NO x (t_coeff K tl) = false -> x = n0 K NO) ->
  (forall x : K, nre_ltb K NO (n0 K NO) (nabs K NO x) = false -> x = n0 K NO) ->
  (forall (x : K) (d : nat), abs_lt K NO x (ndiv K NO (t_neg_nr K tl) (nofZ K NO (Z.of_nat d))) = true -> x = n0 K NO) ->
  (forall (x : K) (d : nat), abs_lt K NO x (ndiv K NO (t_neg_r K tl) (nofZ K NO (Z.of_nat d))) = true -> x = n0 K NO) ->
  nofZ K NO 1%Z = n1 K NO -> nofZ K NO (-1)%Z = nopp K NO (n1 K NO) ->
  (forall a b : Z, nofZ K NO (a + b)%Z = nadd K NO (nofZ K NO a) (nofZ K NO b)) ->
  (forall z : Z, (0 < z)%Z -> nofZ K NO z <> n0 K NO) ->
  forall (g n : nat) (E w : list K) (beta : K),
  cmp_exact K NO (t_cmp_nr K tl) (pole_list K NO n E) -> cmp_exact K NO (t_cmp_r K tl) (pole_list K NO n E) ->
  forall D1 D2 D3 D4 : mat K, square K n D1 -> square K n D2 -> square K n D3 -> square K n D4 ->
  forall (z1 z2 z3 : K) (s : gf_st K),
  chi_regular6 K NO tl n E w z1 z2 z3 ->
  spine_chi_dense K NO keepf g tl n beta E w D1 D2 D3 D4 = Done s ->
  Chi.gf_value K NO tl s z1 z2 z3 = Done (chi K NO beta (t_reduce K tl) E w D1 D2 D3 D4 z1 z2 z3).
Proof. exact SpineChiMain.spine_chi_one_block. Qed.
Print Assumptions spine_chi_dense_one_block.

Theorem spine_chi_dense_one_block_total :
  forall (K : Type) (NO : numops K) (keepf : K -> bool) (tl : Chi.tols K) (g n : nat) (E w : list K) (beta : K) (D1 D2 D3 D4 : mat K),
  exists s : gf_st K, spine_chi_dense K NO keepf g tl n beta E w D1 D2 D3 D4 = Done s.
Proof. exact SpineChiOneBlock.spine_chi_one_block_total. Qed.
Print Assumptions spine_chi_dense_one_block_total.

(** THE PARTIAL RESULT of the full statement: one block, inputs as the other layers produce them (weights from Thermal.dm_compute,
    Jordan-Wigner matrices rotated by U) *)
Theorem spine_chi_one_block_partial :
  forall (K : Type) (NO : numops K),
  field_theory (n0 K NO) (n1 K NO) (nadd K NO) (nmul K NO) (nsub K NO) (nopp K NO) (ndiv K NO) (ChiLehmann.kinv K NO) (@eq K) ->
  forall keepf : K -> bool,
  (forall x : K, keepf x = false -> x = n0 K NO) ->
  forall tl : Chi.tols K,
  (forall x : K, abs_gt K NO x (t_coeff K tl) = false -> x = n0 K NO) ->
  (forall x : K, nre_ltb K NO (n0 K NO) (nabs K NO x) = false -> x = n0 K NO) ->
  (forall (x : K) (d : nat), abs_lt K NO x (ndiv K NO (t_neg_nr K tl) (nofZ K NO (Z.of_nat d))) = true -> x = n0 K NO) ->
  (forall (x : K) (d : nat), abs_lt K NO x (ndiv K NO (t_neg_r K tl) (nofZ K NO (Z.of_nat d))) = true -> x = n0 K NO) ->
  nofZ K NO 1%Z = n1 K NO -> nofZ K NO (-1)%Z = nopp K NO (n1 K NO) ->
  (forall a b : Z, nofZ K NO (a + b)%Z = nadd K NO (nofZ K NO a) (nofZ K NO b)) ->
  (forall z : Z, (0 < z)%Z -> nofZ K NO z <> n0 K NO) ->
  forall (g M : nat) (E : list K) (U : mat K) (beta : K) (i j k l : nat),
  length E = Nat.pow 2 M ->
  cmp_exact K NO (t_cmp_nr K tl) (pole_list K NO (Nat.pow 2 M) E) ->
  cmp_exact K NO (t_cmp_r K tl) (pole_list K NO (Nat.pow 2 M) E) ->
  forall (z1 z2 z3 : K) (s : gf_st K),
  chi_regular6 K NO tl (Nat.pow 2 M) E (weights K NO beta E) z1 z2 z3 ->
  spine_chi_one_block_run K NO keepf g tl M E U beta i j k l = Done s ->
  Chi.gf_value K NO tl s z1 z2 z3 =
  Done (chi K NO beta (t_reduce K tl) E (weights K NO beta E)
          (rotate K NO (Nat.pow 2 M) U (op_matrix K NO M (cann i))) (rotate K NO (Nat.pow 2 M) U (op_matrix K NO M (cann j)))
          (rotate K NO (Nat.pow 2 M) U (op_matrix K NO M (cdag k))) (rotate K NO (Nat.pow 2 M) U (op_matrix K NO M (cdag l)))
          z1 z2 z3).
Proof. exact SpineChiMain.spine_chi_one_block_rotated. Qed.
Print Assumptions spine_chi_one_block_partial.

(** * Non-vacuity: chi_{0110} of the Hubbard atom at the RESONANT triple (z1, z2, z3) = (1/2, 7/2, 1/2) (z1 = z3), rationals with the
    discrete absolute value: every hypothesis of [spine_chi_one_block_partial] discharged (the data hypotheses by their checkers) *)
Theorem hubbard_atom_chi_spine :
  exists s, hub_chi_run = Done s /\
    Chi.gf_value Qcanon.Qc QcD TLD s chi_z1 chi_z2 chi_z3 =
    Done (chi Qcanon.Qc QcD (n1 _ QcD) eps_half hub_E (weights Qcanon.Qc QcD (n1 _ QcD) hub_E)
            (rotate Qcanon.Qc QcD 4 hub_U (op_matrix Qcanon.Qc QcD 2 (cann 0))) (rotate Qcanon.Qc QcD 4 hub_U (op_matrix Qcanon.Qc QcD 2 (cann 1)))
            (rotate Qcanon.Qc QcD 4 hub_U (op_matrix Qcanon.Qc QcD 2 (cdag 1))) (rotate Qcanon.Qc QcD 4 hub_U (op_matrix Qcanon.Qc QcD 2 (cdag 0)))
            chi_z1 chi_z2 chi_z3).
Proof. exact SpineChiExamples.hub_chi_spine. Qed.
Print Assumptions hubbard_atom_chi_spine.

(** value 64/459; six parts; a stored ResonantTerm with non-zero resonant coefficient whose Kronecker test fires at this triple *)
Theorem hubbard_atom_chi_resonant_value :
  hub_chi_value = Qcanon.Q2Qc (QArith_base.Qmake 64%Z 459%positive) /\ hub_chi_value <> n0 _ QcD /\
  nsub _ QcD chi_z1 chi_z3 = n0 _ QcD /\
  match hub_chi_run with
  | Done s => length (g_parts Qcanon.Qc s) = 6 /\ existsb resonant_term_fires (g_parts Qcanon.Qc s) = true
  | _ => False
  end.
Proof. exact SpineChiExamples.hub_chi_value_resonant. Qed.
Print Assumptions hubbard_atom_chi_resonant_value.

(** * Stage 5, continued: items (1) and (4) of the list *)
(** (1) a part on a chain of four blocks *)
Theorem chi_chain_part_emitted :
  forall (K : Type) (NO : numops K),
  field_theory (n0 K NO) (n1 K NO) (nadd K NO) (nmul K NO) (nsub K NO) (nopp K NO) (ndiv K NO) (ChiLehmann.kinv K NO) (@eq K) ->
  forall keepf : K -> bool,
  (forall x : K, keepf x = false -> x = n0 K NO) ->
  forall tl : Chi.tols K,
  (forall x : K, abs_gt K NO x (t_coeff K tl) = false -> x = n0 K NO) ->
  forall (d0 d1 d2 d3 : nat) (E0 E1 E2 E3 w0 w1 w2 w3 : list K) (beta : K) (X1 X2 X3 X4 : mat K),
  shape K d0 d1 X1 -> shape K d1 d2 X2 -> shape K d2 d3 X3 -> shape K d3 d0 X4 ->
  forall (perm : nat * nat * nat) (sg : Z) (blocks : Z * Z * Z * Z) (y1 y2 y3 : K),
  chain_regular K NO tl d0 d1 d2 d3 E0 E1 E2 E3 w0 w1 w2 w3 y1 y2 y3 ->
  ChiLehmann.lsum K NO (spec_visits K (chain_part K NO keepf d0 d2 E0 E1 E2 E3 w0 w1 w2 w3 beta X1 X2 X3 X4 perm sg blocks))
    (fun v => emitted_value K NO tl y1 y2 y3
                (visit_emissions K NO tl (chain_part K NO keepf d0 d2 E0 E1 E2 E3 w0 w1 w2 w3 beta X1 X2 X3 X4 perm sg blocks) v)) =
  nmul K NO (signK K NO sg) (chain_sum K NO tl d0 d1 d2 d3 E0 E1 E2 E3 w0 w1 w2 w3 beta X1 X2 X3 X4 y1 y2 y3).
Proof. exact SpineChiChain.chain_part_emitted. Qed.
Print Assumptions chi_chain_part_emitted.

(** (4) Spine.op_compute on the one-block partition returns the rotated Jordan-Wigner matrix (C10's model against EDSpec.rotate) *)
Theorem chi_op_compute_one_block :
  forall (K : Type) (NO : numops K),
  ring_theory (n0 K NO) (n1 K NO) (nadd K NO) (nmul K NO) (nsub K NO) (nopp K NO) (@eq K) ->
  nconj K NO (n0 K NO) = n0 K NO ->
  forall (fb : bool) (eps : K),
  nre_ltb K NO (nabs K NO (n1 K NO)) eps = false -> nre_ltb K NO (nabs K NO (nopp K NO (n1 K NO))) eps = false ->
  nre_ltb K NO eps (nabs K NO (n1 K NO)) = true -> nre_ltb K NO eps (nabs K NO (nopp K NO (n1 K NO))) = true ->
  forall (M : nat) (E : list K) (U : mat K), length E = Nat.pow 2 M -> square K (Nat.pow 2 M) U ->
  forall o : fop, mono_in_range M (fop_mono o) -> first_tgt K NO M o (seq 0 (Nat.pow 2 M)) <> None ->
  op_compute K NO fb eps (one_block M) [(E, U)] o = Done [((0, 0), rotate K NO (Nat.pow 2 M) U (poly_matrix K NO M (fop_poly K NO o)))].
Proof. exact SpineChiOpCompute.op_compute_one_block. Qed.
Print Assumptions chi_op_compute_one_block.

(** the one-block theorem for the GENERAL pipeline SpineChi.spine_chi (the partial result of the full statement in its own words) *)
Theorem spine_chi_one_block_op_compute_partial :
  forall (K : Type) (NO : numops K),
  field_theory (n0 K NO) (n1 K NO) (nadd K NO) (nmul K NO) (nsub K NO) (nopp K NO) (ndiv K NO) (ChiLehmann.kinv K NO) (@eq K) ->
  nconj K NO (n0 K NO) = n0 K NO ->
  forall (fb : bool) (eps : K),
  nre_ltb K NO (nabs K NO (n1 K NO)) eps = false -> nre_ltb K NO (nabs K NO (nopp K NO (n1 K NO))) eps = false ->
  nre_ltb K NO eps (nabs K NO (n1 K NO)) = true -> nre_ltb K NO eps (nabs K NO (nopp K NO (n1 K NO))) = true ->
  forall keepf : K -> bool,
  (forall x : K, keepf x = false -> x = n0 K NO) ->
  forall tl : Chi.tols K,
  (forall x : K, abs_gt K NO x (t_coeff K tl) = false -> x = n0 K NO) ->
  (forall x : K, nre_ltb K NO (n0 K NO) (nabs K NO x) = false -> x = n0 K NO) ->
  (forall (x : K) (d : nat), abs_lt K NO x (ndiv K NO (t_neg_nr K tl) (nofZ K NO (Z.of_nat d))) = true -> x = n0 K NO) ->
  (forall (x : K) (d : nat), abs_lt K NO x (ndiv K NO (t_neg_r K tl) (nofZ K NO (Z.of_nat d))) = true -> x = n0 K NO) ->
  nofZ K NO 1%Z = n1 K NO -> nofZ K NO (-1)%Z = nopp K NO (n1 K NO) ->
  (forall a b : Z, nofZ K NO (a + b)%Z = nadd K NO (nofZ K NO a) (nofZ K NO b)) ->
  (forall z : Z, (0 < z)%Z -> nofZ K NO z <> n0 K NO) ->
  forall (g M : nat) (E : list K) (U : mat K) (beta : K) (i j k l : nat),
  length E = Nat.pow 2 M -> square K (Nat.pow 2 M) U ->
  i < M -> j < M -> k < M -> l < M ->
  first_tgt K NO M (FC i) (seq 0 (Nat.pow 2 M)) <> None -> first_tgt K NO M (FC j) (seq 0 (Nat.pow 2 M)) <> None ->
  first_tgt K NO M (FCdag k) (seq 0 (Nat.pow 2 M)) <> None -> first_tgt K NO M (FCdag l) (seq 0 (Nat.pow 2 M)) <> None ->
  cmp_exact K NO (t_cmp_nr K tl) (pole_list K NO (Nat.pow 2 M) E) ->
  cmp_exact K NO (t_cmp_r K tl) (pole_list K NO (Nat.pow 2 M) E) ->
  forall (z1 z2 z3 : K) (s : gf_st K),
  chi_regular6 K NO tl (Nat.pow 2 M) E (weights K NO beta E) z1 z2 z3 ->
  spine_chi K NO keepf fb eps g tl (one_block M) [(E, U)] beta i j k l = Done s ->
  Chi.gf_value K NO tl s z1 z2 z3 =
  Done (chi K NO beta (t_reduce K tl) E (weights K NO beta E)
          (rotate K NO (Nat.pow 2 M) U (op_matrix K NO M (cann i))) (rotate K NO (Nat.pow 2 M) U (op_matrix K NO M (cann j)))
          (rotate K NO (Nat.pow 2 M) U (op_matrix K NO M (cdag k))) (rotate K NO (Nat.pow 2 M) U (op_matrix K NO M (cdag l)))
          z1 z2 z3).
Proof. exact SpineChiOpCompute.spine_chi_one_block_op_compute. Qed.
Print Assumptions spine_chi_one_block_op_compute_partial.

(** the Hubbard atom through the general pipeline: the same run *)
Theorem hubbard_atom_chi_general_pipeline : hub_chi_run_general = hub_chi_run.
Proof. exact SpineChiExamples.hub_chi_general_is_run. Qed.
Print Assumptions hubbard_atom_chi_general_pipeline.

(** * Stage 4, continued: the CONNECTED susceptibility (Susceptibility::subtractDisconnected) = the susceptibility spine composed with
    the ensemble-average spine of Stage 3: EDSpec.susc - beta <A><B> where the zero test fires, EDSpec.susc elsewhere *)
Theorem spine_susc_connected_partition :
  forall (K : Type) (NO : numops K) (kinv : K -> K),
  field_theory (n0 K NO) (n1 K NO) (nadd K NO) (nmul K NO) (nsub K NO) (nopp K NO) (ndiv K NO) kinv (@eq K) ->
  nconj K NO (n0 K NO) = n0 K NO ->
  forall (fb : bool) (eps : K),
  nre_ltb K NO (nabs K NO (n1 K NO)) eps = false -> nre_ltb K NO (nabs K NO (nopp K NO (n1 K NO))) eps = false ->
  nre_ltb K NO eps (nabs K NO (n1 K NO)) = true -> nre_ltb K NO eps (nabs K NO (nopp K NO (n1 K NO))) = true ->
  forall reference prec : K,
  (forall x, keep_entry K NO reference prec x = false -> x = n0 K NO) ->
  forall T : GFPart.tols K,
  (forall R, susc_relevant K NO (GFPart.t_matrix_element K T) R = false -> R = n0 K NO) ->
  (forall a b, susc_compare K NO (GFPart.t_compare K T) a b = false -> susc_compare K NO (GFPart.t_compare K T) b a = true) ->
  forall (S : classification) (ED : eigdata K) (a b c d : nat) (pairsA pairsB : list (nat * nat)),
  partition_ok S -> eig_ok K S ED ->
  op_ok K NO fb eps S (FQuad a b) pairsA -> op_ok K NO fb eps S (FQuad c d) pairsB ->
  forall (fixed lenient : bool) (beta z : K) (parts : list ((nat * nat) * spart_out K)),
  spine_susc K NO fb eps reference prec T fixed lenient S ED beta a b c d = Done (WDone parts) ->
  exists D,
    spine_dm K NO beta S ED = Done D /\
    let Am := rotate K NO (state_size S) (assembled_U K NO S ED) (poly_matrix K NO (sc_M S) (p_n_offdiag K (n1 K NO) a b)) in
    let Bm := rotate K NO (state_size S) (assembled_U K NO S ED) (poly_matrix K NO (sc_M S) (p_n_offdiag K (n1 K NO) c d)) in
    let aveA := trace_rho K NO (assembled_w K D) Am in
    let aveB := trace_rho K NO (assembled_w K D) Bm in
    let full := susc K NO beta (GFPart.t_resonance K T) (assembled_E K ED) (assembled_w K D) Am Bm z (z_is_zero K NO z) in
    spine_ea K NO fb eps reference prec S ED beta a b = Done aveA /\
    spine_ea K NO fb eps reference prec S ED beta c d = Done aveB /\
    susc_value K NO parts (Some (aveA, aveB)) beta z =
    if z_is_zero K NO z then nsub K NO full (nmul K NO (nmul K NO aveA aveB) beta) else full.
Proof.
  exact (fun K NO kinv Kf => SpineSuscConnected.spine_susc_connected_partition K NO kinv (F_R Kf) (Fdiv_def Kf)).
Qed.
Print Assumptions spine_susc_connected_partition.

(** [chi_chain_part_emitted] instantiated (the four blocks = the whole space of the atom, ordering c_up, c_dn, c^+_dn, c^+_up) *)
Theorem hubbard_atom_chi_chain_part :
  let p := chain_part Qcanon.Qc QcD kD 4 4 hub_E hub_E hub_E hub_E hub_w hub_w hub_w hub_w (n1 _ QcD)
            (hub_X (cann 0)) (hub_X (cann 1)) (hub_X (cdag 1)) (hub_X (cdag 0)) (0, 1, 2) 1%Z (0, 0, 0, 0)%Z in
  ChiLehmann.lsum Qcanon.Qc QcD (spec_visits Qcanon.Qc p)
    (fun v => emitted_value Qcanon.Qc QcD TLD chi_z1 chi_z2 (nopp _ QcD chi_z3) (visit_emissions Qcanon.Qc QcD TLD p v)) =
  nmul _ QcD (signK Qcanon.Qc QcD 1) hub_chain_sum /\
  hub_chain_sum = Qcanon.Q2Qc (QArith_base.Qmake (-44)%Z 459%positive) /\ hub_chain_sum <> n0 _ QcD.
Proof. exact SpineChiExamples.hub_chain_part. Qed.
Print Assumptions hubbard_atom_chi_chain_part.

(** * Stage 5, completed: the two-particle spine for ANY partition (PV.SpineChiJW, PV.SpineChiPartitionPrep, PV.SpineChiPartition,
    PV.SpineChiBridge, PV.SpineChiPartitionExamples).  The three lemmas listed as MISSING above are proved:
      (5) [chi_first_tgt_c] / [chi_first_tgt_cdag]   c_i maps the label 2^i, c^+_i the vacuum, to a basis state: first_tgt <> None for i < M;
                                                     hence [spine_chi_one_block_general], the one-block theorem for SpineChi.spine_chi
                                                     with no hypothesis on the operators;
      (2) [chi_prepare_chain_ok]                     chain_ok: on the world built from Spine.op_compute's parts, the loop body of
                                                     TwoParticleGF::prepare for the pair (L3, L0) of CX4's bimap and one ordering (A, B, C)
                                                     creates a part iff (L0, L1), (L1, L2), (L2, L3) are recorded for A, B, C, and the part
                                                     is SpineChiChain.chain_part on the stored dense parts, eigenvalues and weights of the
                                                     four blocks; the six iterations are the six orderings ([chi_prepare_six_orderings]);
                                                     the value of such a part is sign * the block sum ([chi_chain_part_value]);
      (3) [chi_ordering_sum_over_chains]             the four-fold regrouping: EDSpec.chi_ordering on the assembled data is the sum over
                                                     CX4's pairs of the block sums of the chains prepare() creates; chains that are not
                                                     recorded contribute 0 (SpinePartition.rot_term_zero).
    RESULT: [spine_chi_partition] (any [partition_ok] S with [op_ok] for c_i, c_j, c^+_k, c^+_l: pipeline value = EDSpec.chi of the
    assembled eigen-data and the rotated Jordan-Wigner operators, at every triple satisfying [chi_regular6] on the assembled data),
    [spine_chi_partition_total] (the pipeline returns), [spine_chi_symmetry_partition] / [spine_chi_symmetry_analysis] (the bridged
    partition of the Symm model: partition_ok / op_ok DISCHARGED from C07), [spine_chi_of_hamiltonian] (everything in one statement).
    HYPOTHESES that remain, all on the input: field with ofZ additive / non-zero on positive integers / ofZ 1 = 1 / ofZ(-1) = -1; exact
    value tests; [cmp_exact] for both comparator tolerances on the level differences of the ASSEMBLED eigenvalues; [chi_regular6];
    [eig_ok] (shapes); for [spine_chi_of_hamiltonian] the exact certificate of the eigen-solver per block.
    NOT covered: the tolerance forms; FieldOperatorContainer's adjoint route; the frequency table filled by compute() (C02's
    table_eq_on_demand relates it to the on-demand value). *)
From PV Require Import SpineChiJW SpineChiPartitionPrep SpineChiPartition SpineChiBridge SpineChiPartitionExamples.

Theorem chi_first_tgt_c :
  forall (K : Type) (NO : numops K) (M i : nat), i < M -> first_tgt K NO M (FC i) (seq 0 (Nat.pow 2 M)) <> None.
Proof. exact SpineChiJW.first_tgt_c. Qed.
Print Assumptions chi_first_tgt_c.

Theorem chi_first_tgt_cdag :
  forall (K : Type) (NO : numops K) (M i : nat), i < M -> first_tgt K NO M (FCdag i) (seq 0 (Nat.pow 2 M)) <> None.
Proof. exact SpineChiJW.first_tgt_cdag. Qed.
Print Assumptions chi_first_tgt_cdag.

(** [spine_chi_one_block_op_compute_partial] without its four hypotheses on the operators *)
Theorem spine_chi_one_block_general :
  forall (K : Type) (NO : numops K),
  field_theory (n0 K NO) (n1 K NO) (nadd K NO) (nmul K NO) (nsub K NO) (nopp K NO) (ndiv K NO) (ChiLehmann.kinv K NO) (@eq K) ->
  nconj K NO (n0 K NO) = n0 K NO ->
  forall (fb : bool) (eps : K),
  nre_ltb K NO (nabs K NO (n1 K NO)) eps = false -> nre_ltb K NO (nabs K NO (nopp K NO (n1 K NO))) eps = false ->
  nre_ltb K NO eps (nabs K NO (n1 K NO)) = true -> nre_ltb K NO eps (nabs K NO (nopp K NO (n1 K NO))) = true ->
  forall keepf : K -> bool,
  (forall x : K, keepf x = false -> x = n0 K NO) ->
  forall tl : Chi.tols K,
  (forall x : K, abs_gt K NO x (t_coeff K tl) = false -> x = n0 K NO) ->
  (forall x : K, nre_ltb K NO (n0 K NO) (nabs K NO x) = false -> x = n0 K NO) ->
  (forall (x : K) (d : nat), abs_lt K NO x (ndiv K NO (t_neg_nr K tl) (nofZ K NO (Z.of_nat d))) = true -> x = n0 K NO) ->
  (forall (x : K) (d : nat), abs_lt K NO x (ndiv K NO (t_neg_r K tl) (nofZ K NO (Z.of_nat d))) = true -> x = n0 K NO) ->
  nofZ K NO 1%Z = n1 K NO -> nofZ K NO (-1)%Z = nopp K NO (n1 K NO) ->
  (forall a b : Z, nofZ K NO (a + b)%Z = nadd K NO (nofZ K NO a) (nofZ K NO b)) ->
  (forall z : Z, (0 < z)%Z -> nofZ K NO z <> n0 K NO) ->
  forall (g M : nat) (E : list K) (U : mat K) (beta : K) (i j k l : nat),
  length E = Nat.pow 2 M -> square K (Nat.pow 2 M) U ->
  i < M -> j < M -> k < M -> l < M ->
  cmp_exact K NO (t_cmp_nr K tl) (pole_list K NO (Nat.pow 2 M) E) ->
  cmp_exact K NO (t_cmp_r K tl) (pole_list K NO (Nat.pow 2 M) E) ->
  forall (z1 z2 z3 : K) (s : gf_st K),
  chi_regular6 K NO tl (Nat.pow 2 M) E (weights K NO beta E) z1 z2 z3 ->
  spine_chi K NO keepf fb eps g tl (one_block M) [(E, U)] beta i j k l = Done s ->
  Chi.gf_value K NO tl s z1 z2 z3 =
  Done (chi K NO beta (t_reduce K tl) E (weights K NO beta E)
          (rotate K NO (Nat.pow 2 M) U (op_matrix K NO M (cann i))) (rotate K NO (Nat.pow 2 M) U (op_matrix K NO M (cann j)))
          (rotate K NO (Nat.pow 2 M) U (op_matrix K NO M (cdag k))) (rotate K NO (Nat.pow 2 M) U (op_matrix K NO M (cdag l)))
          z1 z2 z3).
Proof. exact SpineChiJW.spine_chi_one_block_general. Qed.
Print Assumptions spine_chi_one_block_general.

(** (2) chain_ok.  [opdata] = one field operator as the layers below hand it over: [op_ok] (C07) for its recorded pairs [od_prs] and the
    parts [od_parts] returned by Spine.op_compute (C10); [od_fo] = what TwoParticleGF reads of it (SpineChi.chi_fieldop);
    [prepare_ops] = Chi.prepare_one with the three operators of the ordering made explicit; [chainp] = SpineChiChain.chain_part on the
    stored dense parts, eigenvalues and weights of the blocks L0 .. L3 *)
Theorem chi_prepare_six_orderings :
  forall (K : Type) (w : Chi.world K) (lr : Z * Z),
  map (prepare_one K w lr) (seq 0 6) =
  [ prepare_ops K w (w_C1 K w) (w_C2 K w) (w_CX3 K w) (0, 1, 2) 1%Z lr;
    prepare_ops K w (w_C1 K w) (w_CX3 K w) (w_C2 K w) (0, 2, 1) (-1)%Z lr;
    prepare_ops K w (w_C2 K w) (w_C1 K w) (w_CX3 K w) (1, 0, 2) (-1)%Z lr;
    prepare_ops K w (w_C2 K w) (w_CX3 K w) (w_C1 K w) (1, 2, 0) 1%Z lr;
    prepare_ops K w (w_CX3 K w) (w_C1 K w) (w_C2 K w) (2, 0, 1) 1%Z lr;
    prepare_ops K w (w_CX3 K w) (w_C2 K w) (w_C1 K w) (2, 1, 0) (-1)%Z lr ].
Proof. exact SpineChiPartitionPrep.prepare_one_cases. Qed.
Print Assumptions chi_prepare_six_orderings.

Theorem chi_prepare_chain_ok :
  forall (K : Type) (NO : numops K),
  field_theory (n0 K NO) (n1 K NO) (nadd K NO) (nmul K NO) (nsub K NO) (nopp K NO) (ndiv K NO) (ChiLehmann.kinv K NO) (@eq K) ->
  forall (fb : bool) (eps : K),
  nre_ltb K NO (nabs K NO (n1 K NO)) eps = false -> nre_ltb K NO (nabs K NO (nopp K NO (n1 K NO))) eps = false ->
  nre_ltb K NO eps (nabs K NO (n1 K NO)) = true -> nre_ltb K NO eps (nabs K NO (nopp K NO (n1 K NO))) = true ->
  forall (keepf : K -> bool) (S : classification) (ED : eigdata K),
  partition_ok S -> eig_ok K S ED ->
  forall D : list (Thermal.dmpart K), dm_ok K NO S D ->
  forall (beta : K) (w : Chi.world K) (dA dB dC dX : opdata K NO fb eps S ED) (perm : nat * nat * nat) (sg : Z) (L3 L0 : nat),
  w_E K w = map fst ED -> w_W K w = map (Thermal.dp_weights K) D -> w_ret K w = map (Thermal.dp_retained K) D ->
  w_beta K w = beta -> w_CX4 K w = od_fo K NO fb eps keepf S ED dX ->
  In (L3, L0) (od_prs K NO fb eps S ED dX) ->
  prepare_ops K w (od_fo K NO fb eps keepf S ED dA) (od_fo K NO fb eps keepf S ED dB) (od_fo K NO fb eps keepf S ED dC) perm sg (zp (L3, L0)) =
  Done (match rgt (od_prs K NO fb eps S ED dA) L0, lft (od_prs K NO fb eps S ED dC) L3 with
        | Some L1, Some L2 =>
            if GFFullProofs.memb (L1, L2) (od_prs K NO fb eps S ED dB)
            then Some (chainp K NO fb eps keepf S ED D beta dA dB dC dX perm sg L0 L1 L2 L3) else None
        | _, _ => None
        end).
Proof. exact SpineChiPartitionPrep.prepare_ops_spec. Qed.
Print Assumptions chi_prepare_chain_ok.

(** the value of the part of a recorded chain: sign * the sum of the FULL-SPACE summand over the states of the four blocks ([Qsum]) *)
Theorem chi_chain_part_value :
  forall (K : Type) (NO : numops K),
  field_theory (n0 K NO) (n1 K NO) (nadd K NO) (nmul K NO) (nsub K NO) (nopp K NO) (ndiv K NO) (ChiLehmann.kinv K NO) (@eq K) ->
  nconj K NO (n0 K NO) = n0 K NO ->
  forall (fb : bool) (eps : K),
  nre_ltb K NO (nabs K NO (n1 K NO)) eps = false -> nre_ltb K NO (nabs K NO (nopp K NO (n1 K NO))) eps = false ->
  nre_ltb K NO eps (nabs K NO (n1 K NO)) = true -> nre_ltb K NO eps (nabs K NO (nopp K NO (n1 K NO))) = true ->
  forall keepf : K -> bool,
  (forall x : K, keepf x = false -> x = n0 K NO) ->
  forall (S : classification) (ED : eigdata K),
  partition_ok S -> eig_ok K S ED ->
  forall D : list (Thermal.dmpart K), dm_ok K NO S D ->
  forall (beta : K) (tl : Chi.tols K),
  (forall x : K, abs_gt K NO x (t_coeff K tl) = false -> x = n0 K NO) ->
  (forall (x : K) (d : nat), abs_lt K NO x (ndiv K NO (t_neg_nr K tl) (nofZ K NO (Z.of_nat d))) = true -> x = n0 K NO) ->
  (forall (x : K) (d : nat), abs_lt K NO x (ndiv K NO (t_neg_r K tl) (nofZ K NO (Z.of_nat d))) = true -> x = n0 K NO) ->
  (forall a b : Z, nofZ K NO (a + b)%Z = nadd K NO (nofZ K NO a) (nofZ K NO b)) ->
  (forall z : Z, (0 < z)%Z -> nofZ K NO z <> n0 K NO) ->
  forall g : nat,
  cmp_exact K NO (t_cmp_nr K tl) (pole_list K NO (state_size S) (assembled_E K ED)) ->
  cmp_exact K NO (t_cmp_r K tl) (pole_list K NO (state_size S) (assembled_E K ED)) ->
  forall (dA dB dC dX : opdata K NO fb eps S ED) (perm : nat * nat * nat) (sg : Z) (L0 L1 L2 L3 : nat) (z1 z2 z3 : K),
  In (L0, L1) (od_prs K NO fb eps S ED dA) -> In (L1, L2) (od_prs K NO fb eps S ED dB) ->
  In (L2, L3) (od_prs K NO fb eps S ED dC) -> In (L3, L0) (od_prs K NO fb eps S ED dX) ->
  chi_regular K NO tl (state_size S) (assembled_E K ED) (assembled_w K D)
    (permuted K NO perm z1 z2 z3 0) (permuted K NO perm z1 z2 z3 1) (permuted K NO perm z1 z2 z3 2) ->
  part_val K NO tl (chainp K NO fb eps keepf S ED D beta dA dB dC dX perm sg L0 L1 L2 L3)
    (computed_st K NO g tl (chainp K NO fb eps keepf S ED D beta dA dB dC dX perm sg L0 L1 L2 L3)) (z1, z2, z3) =
  nmul K NO (signK K NO sg)
    (Qsum K NO fb eps S ED D beta tl dA dB dC dX (permuted K NO perm z1 z2 z3 0) (permuted K NO perm z1 z2 z3 1) (permuted K NO perm z1 z2 z3 2)
          L0 L1 L2 L3).
Proof. exact SpineChiPartitionPrep.chainp_value. Qed.
Print Assumptions chi_chain_part_value.

(** (3) the four-fold regrouping ([od_X] = the operator rotated by the assembled eigenvector matrix, on the full space) *)
Theorem chi_ordering_sum_over_chains :
  forall (K : Type) (NO : numops K),
  field_theory (n0 K NO) (n1 K NO) (nadd K NO) (nmul K NO) (nsub K NO) (nopp K NO) (ndiv K NO) (ChiLehmann.kinv K NO) (@eq K) ->
  nconj K NO (n0 K NO) = n0 K NO ->
  forall (fb : bool) (eps : K) (S : classification) (ED : eigdata K),
  partition_ok S -> eig_ok K S ED ->
  forall (D : list (Thermal.dmpart K)) (beta : K) (tl : Chi.tols K),
  (forall x : K, nre_ltb K NO (n0 K NO) (nabs K NO x) = false -> x = n0 K NO) ->
  forall (dA dB dC dX : opdata K NO fb eps S ED) (y1 y2 y3 : K),
  chi_ordering K NO beta (t_reduce K tl) (assembled_E K ED) (assembled_w K D)
    (od_X K NO fb eps S ED dA) (od_X K NO fb eps S ED dB) (od_X K NO fb eps S ED dC) (od_X K NO fb eps S ED dX) y1 y2 y3 =
  ChiLehmann.lsum K NO (od_prs K NO fb eps S ED dX) (fun lr : nat * nat =>
    match rgt (od_prs K NO fb eps S ED dA) (snd lr), lft (od_prs K NO fb eps S ED dC) (fst lr) with
    | Some L1, Some L2 =>
        if GFFullProofs.memb (L1, L2) (od_prs K NO fb eps S ED dB)
        then Qsum K NO fb eps S ED D beta tl dA dB dC dX y1 y2 y3 (snd lr) L1 L2 (fst lr) else n0 K NO
    | _, _ => n0 K NO
    end).
Proof. exact SpineChiPartitionPrep.ordering_sum. Qed.
Print Assumptions chi_ordering_sum_over_chains.

(** THE FULL STATEMENT of Stage 5 *)
Theorem spine_chi_partition :
  forall (K : Type) (NO : numops K),
  field_theory (n0 K NO) (n1 K NO) (nadd K NO) (nmul K NO) (nsub K NO) (nopp K NO) (ndiv K NO) (ChiLehmann.kinv K NO) (@eq K) ->
  nconj K NO (n0 K NO) = n0 K NO ->
  forall (fb : bool) (eps : K),
  nre_ltb K NO (nabs K NO (n1 K NO)) eps = false -> nre_ltb K NO (nabs K NO (nopp K NO (n1 K NO))) eps = false ->
  nre_ltb K NO eps (nabs K NO (n1 K NO)) = true -> nre_ltb K NO eps (nabs K NO (nopp K NO (n1 K NO))) = true ->
  forall keepf : K -> bool,
  (forall x : K, keepf x = false -> x = n0 K NO) ->
  forall tl : Chi.tols K,
  (forall x : K, abs_gt K NO x (t_coeff K tl) = false -> x = n0 K NO) ->
  (forall x : K, nre_ltb K NO (n0 K NO) (nabs K NO x) = false -> x = n0 K NO) ->
  (forall (x : K) (d : nat), abs_lt K NO x (ndiv K NO (t_neg_nr K tl) (nofZ K NO (Z.of_nat d))) = true -> x = n0 K NO) ->
  (forall (x : K) (d : nat), abs_lt K NO x (ndiv K NO (t_neg_r K tl) (nofZ K NO (Z.of_nat d))) = true -> x = n0 K NO) ->
  nofZ K NO 1%Z = n1 K NO -> nofZ K NO (-1)%Z = nopp K NO (n1 K NO) ->
  (forall a b : Z, nofZ K NO (a + b)%Z = nadd K NO (nofZ K NO a) (nofZ K NO b)) ->
  (forall z : Z, (0 < z)%Z -> nofZ K NO z <> n0 K NO) ->
  forall (g : nat) (S : classification) (ED : eigdata K) (beta : K) (i j k l : nat) (prs1 prs2 prs3 prs4 : list (nat * nat)),
  partition_ok S ->                                        (* C07_partition_exact *)
  eig_ok K S ED ->                                         (* shapes *)
  op_ok K NO fb eps S (FC i) prs1 -> op_ok K NO fb eps S (FC j) prs2 ->            (* C07_single_target for c_i, c_j *)
  op_ok K NO fb eps S (FCdag k) prs3 -> op_ok K NO fb eps S (FCdag l) prs4 ->      (*                    for c^+_k, c^+_l *)
  cmp_exact K NO (t_cmp_nr K tl) (pole_list K NO (state_size S) (assembled_E K ED)) ->
  cmp_exact K NO (t_cmp_r K tl) (pole_list K NO (state_size S) (assembled_E K ED)) ->
  forall s : gf_st K,
  spine_chi K NO keepf fb eps g tl S ED beta i j k l = Done s ->
  exists D, spine_dm K NO beta S ED = Done D /\
    forall z1 z2 z3 : K,
    chi_regular6 K NO tl (state_size S) (assembled_E K ED) (assembled_w K D) z1 z2 z3 ->
    Chi.gf_value K NO tl s z1 z2 z3 =
    Done (chi K NO beta (t_reduce K tl) (assembled_E K ED) (assembled_w K D)
            (rotate K NO (state_size S) (assembled_U K NO S ED) (op_matrix K NO (sc_M S) (cann i)))
            (rotate K NO (state_size S) (assembled_U K NO S ED) (op_matrix K NO (sc_M S) (cann j)))
            (rotate K NO (state_size S) (assembled_U K NO S ED) (op_matrix K NO (sc_M S) (cdag k)))
            (rotate K NO (state_size S) (assembled_U K NO S ED) (op_matrix K NO (sc_M S) (cdag l)))
            z1 z2 z3).
Proof. exact SpineChiPartition.spine_chi_partition. Qed.
Print Assumptions spine_chi_partition.

(** the pipeline returns whenever the density matrix does: no part lookup of TwoParticleGF::prepare fails, the merge walks terminate *)
Theorem spine_chi_partition_total :
  forall (K : Type) (NO : numops K),
  field_theory (n0 K NO) (n1 K NO) (nadd K NO) (nmul K NO) (nsub K NO) (nopp K NO) (ndiv K NO) (ChiLehmann.kinv K NO) (@eq K) ->
  forall (fb : bool) (eps : K),
  nre_ltb K NO (nabs K NO (n1 K NO)) eps = false -> nre_ltb K NO (nabs K NO (nopp K NO (n1 K NO))) eps = false ->
  nre_ltb K NO eps (nabs K NO (n1 K NO)) = true -> nre_ltb K NO eps (nabs K NO (nopp K NO (n1 K NO))) = true ->
  forall (keepf : K -> bool) (tl : Chi.tols K) (g : nat) (S : classification) (ED : eigdata K) (beta : K) (i j k l : nat)
         (prs1 prs2 prs3 prs4 : list (nat * nat)),
  partition_ok S -> eig_ok K S ED ->
  op_ok K NO fb eps S (FC i) prs1 -> op_ok K NO fb eps S (FC j) prs2 ->
  op_ok K NO fb eps S (FCdag k) prs3 -> op_ok K NO fb eps S (FCdag l) prs4 ->
  forall D, spine_dm K NO beta S ED = Done D ->
  exists s, spine_chi K NO keepf fb eps g tl S ED beta i j k l = Done s.
Proof. exact SpineChiPartition.spine_chi_partition_total. Qed.
Print Assumptions spine_chi_partition_total.

(** on the partition produced by the symmetry-analysis model: partition_ok / op_ok DISCHARGED (bridge_partition_ok_from_C07, bridge_op_ok_from_C07) *)
Theorem spine_chi_symmetry_partition :
  forall (KS : Type) (s0 s1 : KS) (sadd smul ssub : KS -> KS -> KS) (sopp : KS -> KS) (szero : KS -> bool),
  ring_ok KS s0 s1 sadd smul ssub sopp szero -> s1 <> s0 ->
  forall (K : Type) (NO : numops K),
  field_theory (n0 K NO) (n1 K NO) (nadd K NO) (nmul K NO) (nsub K NO) (nopp K NO) (ndiv K NO) (ChiLehmann.kinv K NO) (@eq K) ->
  nconj K NO (n0 K NO) = n0 K NO ->
  forall (fb : bool) (eps : K),
  nre_ltb K NO (nabs K NO (n1 K NO)) eps = false -> nre_ltb K NO (nabs K NO (nopp K NO (n1 K NO))) eps = false ->
  nre_ltb K NO eps (nabs K NO (n1 K NO)) = true -> nre_ltb K NO eps (nabs K NO (nopp K NO (n1 K NO))) = true ->
  forall keepf : K -> bool,
  (forall x : K, keepf x = false -> x = n0 K NO) ->
  forall tl : Chi.tols K,
  (forall x : K, abs_gt K NO x (t_coeff K tl) = false -> x = n0 K NO) ->
  (forall x : K, nre_ltb K NO (n0 K NO) (nabs K NO x) = false -> x = n0 K NO) ->
  (forall (x : K) (d : nat), abs_lt K NO x (ndiv K NO (t_neg_nr K tl) (nofZ K NO (Z.of_nat d))) = true -> x = n0 K NO) ->
  (forall (x : K) (d : nat), abs_lt K NO x (ndiv K NO (t_neg_r K tl) (nofZ K NO (Z.of_nat d))) = true -> x = n0 K NO) ->
  nofZ K NO 1%Z = n1 K NO -> nofZ K NO (-1)%Z = nopp K NO (n1 K NO) ->
  (forall a b : Z, nofZ K NO (a + b)%Z = nadd K NO (nofZ K NO a) (nofZ K NO b)) ->
  (forall z : Z, (0 < z)%Z -> nofZ K NO z <> n0 K NO) ->
  forall (g N : nat) (ops : list (poly KS)) (c : Symm.qclass KS),
  Forall (poly_in_range KS N) ops ->
  Symm.sc_compute KS s0 sadd ssub sopp szero N ops = Done c ->
  Forall (SymmProofs.uniform_shift KS s0 s1 sadd smul sopp N) ops ->
  forall (ED : eigdata K) (beta : K) (i j k l : nat), i < N -> j < N -> k < N -> l < N ->
  eig_ok K (bridge N c) ED ->
  cmp_exact K NO (t_cmp_nr K tl) (pole_list K NO (Nat.pow 2 N) (assembled_E K ED)) ->
  cmp_exact K NO (t_cmp_r K tl) (pole_list K NO (Nat.pow 2 N) (assembled_E K ED)) ->
  forall s : gf_st K,
  spine_chi K NO keepf fb eps g tl (bridge N c) ED beta i j k l = Done s ->
  exists D, spine_dm K NO beta (bridge N c) ED = Done D /\
    forall z1 z2 z3 : K,
    chi_regular6 K NO tl (Nat.pow 2 N) (assembled_E K ED) (assembled_w K D) z1 z2 z3 ->
    Chi.gf_value K NO tl s z1 z2 z3 =
    Done (chi K NO beta (t_reduce K tl) (assembled_E K ED) (assembled_w K D)
            (rotate K NO (Nat.pow 2 N) (assembled_U K NO (bridge N c) ED) (op_matrix K NO N (cann i)))
            (rotate K NO (Nat.pow 2 N) (assembled_U K NO (bridge N c) ED) (op_matrix K NO N (cann j)))
            (rotate K NO (Nat.pow 2 N) (assembled_U K NO (bridge N c) ED) (op_matrix K NO N (cdag k)))
            (rotate K NO (Nat.pow 2 N) (assembled_U K NO (bridge N c) ED) (op_matrix K NO N (cdag l)))
            z1 z2 z3).
Proof. exact SpineChiBridge.spine_chi_symmetry. Qed.
Print Assumptions spine_chi_symmetry_partition.

Theorem spine_chi_symmetry_partition_total :
  forall (KS : Type) (s0 s1 : KS) (sadd smul ssub : KS -> KS -> KS) (sopp : KS -> KS) (szero : KS -> bool),
  ring_ok KS s0 s1 sadd smul ssub sopp szero -> s1 <> s0 ->
  forall (K : Type) (NO : numops K),
  field_theory (n0 K NO) (n1 K NO) (nadd K NO) (nmul K NO) (nsub K NO) (nopp K NO) (ndiv K NO) (ChiLehmann.kinv K NO) (@eq K) ->
  forall (fb : bool) (eps : K),
  nre_ltb K NO (nabs K NO (n1 K NO)) eps = false -> nre_ltb K NO (nabs K NO (nopp K NO (n1 K NO))) eps = false ->
  nre_ltb K NO eps (nabs K NO (n1 K NO)) = true -> nre_ltb K NO eps (nabs K NO (nopp K NO (n1 K NO))) = true ->
  forall (keepf : K -> bool) (tl : Chi.tols K) (g N : nat) (ops : list (poly KS)) (c : Symm.qclass KS),
  Forall (poly_in_range KS N) ops ->
  Symm.sc_compute KS s0 sadd ssub sopp szero N ops = Done c ->
  Forall (SymmProofs.uniform_shift KS s0 s1 sadd smul sopp N) ops ->
  forall (ED : eigdata K) (beta : K) (i j k l : nat), i < N -> j < N -> k < N -> l < N ->
  eig_ok K (bridge N c) ED ->
  forall D, spine_dm K NO beta (bridge N c) ED = Done D ->
  exists s, spine_chi K NO keepf fb eps g tl (bridge N c) ED beta i j k l = Done s.
Proof. exact SpineChiBridge.spine_chi_symmetry_total. Qed.
Print Assumptions spine_chi_symmetry_partition_total.

(** ... on the operators ACCEPTED by the symmetry analysis of a Hamiltonian polynomial h (as [spine_gf_symmetry_analysis]) *)
Theorem spine_chi_symmetry_analysis :
  forall (KS : Type) (s0 s1 : KS) (sadd smul ssub : KS -> KS -> KS) (sopp : KS -> KS) (szero : KS -> bool) (shalf : KS),
  ring_ok KS s0 s1 sadd smul ssub sopp szero -> s1 <> s0 ->
  forall (K : Type) (NO : numops K),
  field_theory (n0 K NO) (n1 K NO) (nadd K NO) (nmul K NO) (nsub K NO) (nopp K NO) (ndiv K NO) (ChiLehmann.kinv K NO) (@eq K) ->
  nconj K NO (n0 K NO) = n0 K NO ->
  forall (fb : bool) (eps : K),
  nre_ltb K NO (nabs K NO (n1 K NO)) eps = false -> nre_ltb K NO (nabs K NO (nopp K NO (n1 K NO))) eps = false ->
  nre_ltb K NO eps (nabs K NO (n1 K NO)) = true -> nre_ltb K NO eps (nabs K NO (nopp K NO (n1 K NO))) = true ->
  forall keepf : K -> bool,
  (forall x : K, keepf x = false -> x = n0 K NO) ->
  forall tl : Chi.tols K,
  (forall x : K, abs_gt K NO x (t_coeff K tl) = false -> x = n0 K NO) ->
  (forall x : K, nre_ltb K NO (n0 K NO) (nabs K NO x) = false -> x = n0 K NO) ->
  (forall (x : K) (d : nat), abs_lt K NO x (ndiv K NO (t_neg_nr K tl) (nofZ K NO (Z.of_nat d))) = true -> x = n0 K NO) ->
  (forall (x : K) (d : nat), abs_lt K NO x (ndiv K NO (t_neg_r K tl) (nofZ K NO (Z.of_nat d))) = true -> x = n0 K NO) ->
  nofZ K NO 1%Z = n1 K NO -> nofZ K NO (-1)%Z = nopp K NO (n1 K NO) ->
  (forall a b : Z, nofZ K NO (a + b)%Z = nadd K NO (nofZ K NO a) (nofZ K NO b)) ->
  (forall z : Z, (0 < z)%Z -> nofZ K NO z <> n0 K NO) ->
  forall (g : nat) (fz sf : bool) (mode : Symm.symm_mode KS) (spins : list nat) (h : poly KS) (sy : Symm.symm KS),
  mode_uniform KS sf mode (length spins) ->
  Symm.symmetrize KS s0 s1 sadd smul ssub sopp szero shalf fz sf mode spins h = Done sy ->
  exists c, Symm.sc_compute KS s0 sadd ssub sopp szero (length spins) (Symm.sy_ops sy) = Done c /\
    forall (ED : eigdata K) (beta : K) (i j k l : nat), i < length spins -> j < length spins -> k < length spins -> l < length spins ->
    eig_ok K (bridge (length spins) c) ED ->
    cmp_exact K NO (t_cmp_nr K tl) (pole_list K NO (Nat.pow 2 (length spins)) (assembled_E K ED)) ->
    cmp_exact K NO (t_cmp_r K tl) (pole_list K NO (Nat.pow 2 (length spins)) (assembled_E K ED)) ->
    forall s : gf_st K,
    spine_chi K NO keepf fb eps g tl (bridge (length spins) c) ED beta i j k l = Done s ->
    exists D, spine_dm K NO beta (bridge (length spins) c) ED = Done D /\
      forall z1 z2 z3 : K,
      chi_regular6 K NO tl (Nat.pow 2 (length spins)) (assembled_E K ED) (assembled_w K D) z1 z2 z3 ->
      Chi.gf_value K NO tl s z1 z2 z3 =
      Done (chi K NO beta (t_reduce K tl) (assembled_E K ED) (assembled_w K D)
              (rotate K NO (Nat.pow 2 (length spins)) (assembled_U K NO (bridge (length spins) c) ED) (op_matrix K NO (length spins) (cann i)))
              (rotate K NO (Nat.pow 2 (length spins)) (assembled_U K NO (bridge (length spins) c) ED) (op_matrix K NO (length spins) (cann j)))
              (rotate K NO (Nat.pow 2 (length spins)) (assembled_U K NO (bridge (length spins) c) ED) (op_matrix K NO (length spins) (cdag k)))
              (rotate K NO (Nat.pow 2 (length spins)) (assembled_U K NO (bridge (length spins) c) ED) (op_matrix K NO (length spins) (cdag l)))
              z1 z2 z3).
Proof. exact SpineChiBridge.spine_chi_symmetry_analysis. Qed.
Print Assumptions spine_chi_symmetry_analysis.

(** EVERYTHING IN ONE STATEMENT for the two-particle function (one number type: a field with exact zero tests): Hamiltonian polynomial ->
    symmetry analysis -> blocks -> certified eigen-data -> chi_ijkl(z1, z2; z3) = EDSpec.chi of an exact eigen-decomposition of the
    Jordan-Wigner matrix of h *)
Theorem spine_chi_of_hamiltonian :
  forall (K : Type) (NO : numops K),
  field_theory (n0 K NO) (n1 K NO) (nadd K NO) (nmul K NO) (nsub K NO) (nopp K NO) (ndiv K NO) (ChiLehmann.kinv K NO) (@eq K) ->
  forall (kzero : K -> bool) (khalf : K),
  (forall x : K, kzero x = true <-> x = n0 K NO) ->
  nconj K NO (n0 K NO) = n0 K NO ->
  forall (fb : bool) (eps : K),
  nre_ltb K NO (nabs K NO (n1 K NO)) eps = false -> nre_ltb K NO (nabs K NO (nopp K NO (n1 K NO))) eps = false ->
  nre_ltb K NO eps (nabs K NO (n1 K NO)) = true -> nre_ltb K NO eps (nabs K NO (nopp K NO (n1 K NO))) = true ->
  (forall x : K, is_zero K NO eps x = true <-> x = n0 K NO) ->
  forall keepf : K -> bool,
  (forall x : K, keepf x = false -> x = n0 K NO) ->
  forall tl : Chi.tols K,
  (forall x : K, abs_gt K NO x (t_coeff K tl) = false -> x = n0 K NO) ->
  (forall x : K, nre_ltb K NO (n0 K NO) (nabs K NO x) = false -> x = n0 K NO) ->
  (forall (x : K) (d : nat), abs_lt K NO x (ndiv K NO (t_neg_nr K tl) (nofZ K NO (Z.of_nat d))) = true -> x = n0 K NO) ->
  (forall (x : K) (d : nat), abs_lt K NO x (ndiv K NO (t_neg_r K tl) (nofZ K NO (Z.of_nat d))) = true -> x = n0 K NO) ->
  nofZ K NO 1%Z = n1 K NO -> nofZ K NO (-1)%Z = nopp K NO (n1 K NO) ->
  (forall a b : Z, nofZ K NO (a + b)%Z = nadd K NO (nofZ K NO a) (nofZ K NO b)) ->
  (forall z : Z, (0 < z)%Z -> nofZ K NO z <> n0 K NO) ->
  forall (g : nat) (fz sf : bool) (mode : Symm.symm_mode K) (spins : list nat) (h : poly K) (sy : Symm.symm K),
  poly_in_range K (length spins) h ->
  mode_uniform K sf mode (length spins) ->
  Symm.symmetrize K (n0 K NO) (n1 K NO) (nadd K NO) (nmul K NO) (nsub K NO) (nopp K NO) kzero khalf fz sf mode spins h = Done sy ->
  exists c Hs,
    Symm.sc_compute K (n0 K NO) (nadd K NO) (nsub K NO) (nopp K NO) kzero (length spins) (Symm.sy_ops sy) = Done c /\
    spine_hblocks K NO fb eps (bridge (length spins) c) h = Done Hs /\
    forall ED : eigdata K, eig_ok K (bridge (length spins) c) ED ->
    (forall b, b < length (sc_states (bridge (length spins) c)) ->
       eigensystem K NO (block_size (bridge (length spins) c) b) (nth b Hs []) (Uof K ED b) (Eof K ED b)) ->
    eigensystem K NO (Nat.pow 2 (length spins)) (poly_matrix K NO (length spins) h)
                (assembled_U K NO (bridge (length spins) c) ED) (assembled_E K ED) /\
    forall (beta : K) (i j k l : nat), i < length spins -> j < length spins -> k < length spins -> l < length spins ->
    cmp_exact K NO (t_cmp_nr K tl) (pole_list K NO (Nat.pow 2 (length spins)) (assembled_E K ED)) ->
    cmp_exact K NO (t_cmp_r K tl) (pole_list K NO (Nat.pow 2 (length spins)) (assembled_E K ED)) ->
    forall s : gf_st K,
    spine_chi K NO keepf fb eps g tl (bridge (length spins) c) ED beta i j k l = Done s ->
    exists D, spine_dm K NO beta (bridge (length spins) c) ED = Done D /\
      forall z1 z2 z3 : K,
      chi_regular6 K NO tl (Nat.pow 2 (length spins)) (assembled_E K ED) (assembled_w K D) z1 z2 z3 ->
      Chi.gf_value K NO tl s z1 z2 z3 =
      Done (chi K NO beta (t_reduce K tl) (assembled_E K ED) (assembled_w K D)
              (rotate K NO (Nat.pow 2 (length spins)) (assembled_U K NO (bridge (length spins) c) ED) (op_matrix K NO (length spins) (cann i)))
              (rotate K NO (Nat.pow 2 (length spins)) (assembled_U K NO (bridge (length spins) c) ED) (op_matrix K NO (length spins) (cann j)))
              (rotate K NO (Nat.pow 2 (length spins)) (assembled_U K NO (bridge (length spins) c) ED) (op_matrix K NO (length spins) (cdag k)))
              (rotate K NO (Nat.pow 2 (length spins)) (assembled_U K NO (bridge (length spins) c) ED) (op_matrix K NO (length spins) (cdag l)))
              z1 z2 z3).
Proof. exact SpineChiBridge.spine_chi_of_hamiltonian. Qed.
Print Assumptions spine_chi_of_hamiltonian.

(** * Non-vacuity on a non-trivial partition: chi_{0110} of the Hubbard atom at the resonant triple through the PARTITIONED pipeline, the
    (N, S_z) partition computed by the Symm model (hub_sy, hub_c: four blocks of one state); every hypothesis of
    [spine_chi_symmetry_partition] discharged; value 64/459 = the value of the one-block run; six parts on six different chains *)
Theorem hubbard_atom_chi_symmetry_partition :
  exists s D,
    hub_sy_run = Done hub_sy /\ qc_sc_compute 2 (Symm.sy_ops hub_sy) = Done hub_c /\
    Symm.sc_blocks hub_c = [[0]; [1]; [2]; [3]] /\
    hub_chi_run4 = Done s /\ spine_dm Qcanon.Qc QcD (n1 _ QcD) (bridge 2 hub_c) ED4 = Done D /\
    Chi.gf_value Qcanon.Qc QcD TLD s chi_z1 chi_z2 chi_z3 =
    Done (chi Qcanon.Qc QcD (n1 _ QcD) eps_half (assembled_E Qcanon.Qc ED4) (assembled_w Qcanon.Qc D)
            (rotate Qcanon.Qc QcD 4 (assembled_U Qcanon.Qc QcD (bridge 2 hub_c) ED4) (op_matrix Qcanon.Qc QcD 2 (cann 0)))
            (rotate Qcanon.Qc QcD 4 (assembled_U Qcanon.Qc QcD (bridge 2 hub_c) ED4) (op_matrix Qcanon.Qc QcD 2 (cann 1)))
            (rotate Qcanon.Qc QcD 4 (assembled_U Qcanon.Qc QcD (bridge 2 hub_c) ED4) (op_matrix Qcanon.Qc QcD 2 (cdag 1)))
            (rotate Qcanon.Qc QcD 4 (assembled_U Qcanon.Qc QcD (bridge 2 hub_c) ED4) (op_matrix Qcanon.Qc QcD 2 (cdag 0)))
            chi_z1 chi_z2 chi_z3).
Proof. exact SpineChiPartitionExamples.hub_chi_symmetry_spine. Qed.
Print Assumptions hubbard_atom_chi_symmetry_partition.

Theorem hubbard_atom_chi_partition_value :
  hub_chi_value4 = Qcanon.Q2Qc (QArith_base.Qmake 64%Z 459%positive) /\ hub_chi_value4 = hub_chi_value /\ hub_chi_value4 <> n0 _ QcD /\
  match hub_chi_run4 with
  | Done s => map (fun pq => p_blocks Qcanon.Qc (fst pq)) (g_parts Qcanon.Qc s) =
              [(0, 1, 3, 1); (0, 2, 3, 1); (0, 2, 0, 1); (2, 3, 1, 3); (2, 0, 1, 3); (2, 0, 2, 3)]%Z /\
              existsb resonant_term_fires (g_parts Qcanon.Qc s) = true
  | _ => False
  end /\
  assembled_E Qcanon.Qc ED4 = hub_E /\ assembled_U Qcanon.Qc QcD (bridge 2 hub_c) ED4 = hub_U.
Proof. exact SpineChiPartitionExamples.hub_chi_value4_resonant. Qed.
Print Assumptions hubbard_atom_chi_partition_value.

Theorem hubbard_atom_chi_of_hamiltonian :
  exists Hs s D,
    hub_class_run = Done hub_c /\ spine_hblocks Qcanon.Qc QcD true eps_half (bridge 2 hub_c) hub_h = Done Hs /\
    (forall b, b < 4 -> eigensystem Qcanon.Qc QcD (block_size (bridge 2 hub_c) b) (nth b Hs []) (Uof Qcanon.Qc ED4 b) (Eof Qcanon.Qc ED4 b)) /\
    eigensystem Qcanon.Qc QcD 4 (poly_matrix Qcanon.Qc QcD 2 hub_h) (assembled_U Qcanon.Qc QcD (bridge 2 hub_c) ED4) (assembled_E Qcanon.Qc ED4) /\
    hub_chi_run4 = Done s /\ spine_dm Qcanon.Qc QcD (n1 _ QcD) (bridge 2 hub_c) ED4 = Done D /\
    Chi.gf_value Qcanon.Qc QcD TLD s chi_z1 chi_z2 chi_z3 =
    Done (chi Qcanon.Qc QcD (n1 _ QcD) eps_half (assembled_E Qcanon.Qc ED4) (assembled_w Qcanon.Qc D)
            (rotate Qcanon.Qc QcD 4 (assembled_U Qcanon.Qc QcD (bridge 2 hub_c) ED4) (op_matrix Qcanon.Qc QcD 2 (cann 0)))
            (rotate Qcanon.Qc QcD 4 (assembled_U Qcanon.Qc QcD (bridge 2 hub_c) ED4) (op_matrix Qcanon.Qc QcD 2 (cann 1)))
            (rotate Qcanon.Qc QcD 4 (assembled_U Qcanon.Qc QcD (bridge 2 hub_c) ED4) (op_matrix Qcanon.Qc QcD 2 (cdag 1)))
            (rotate Qcanon.Qc QcD 4 (assembled_U Qcanon.Qc QcD (bridge 2 hub_c) ED4) (op_matrix Qcanon.Qc QcD 2 (cdag 0)))
            chi_z1 chi_z2 chi_z3) /\
    Chi.gf_value Qcanon.Qc QcD TLD s chi_z1 chi_z2 chi_z3 = Done (Qcanon.Q2Qc (QArith_base.Qmake 64%Z 459%positive)).
Proof. exact SpineChiPartitionExamples.hub_chi_of_hamiltonian. Qed.
Print Assumptions hubbard_atom_chi_of_hamiltonian.
