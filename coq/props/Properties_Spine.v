(** The spine -- an END-TO-END theorem for the single-particle Green's function at the level of the models, composing
    the layers whose theorems are stated separately in Properties_C01 / C03 / C07 / C08 / C09 / C10.
    Statements only; model: PV.Spine (the pipeline [spine_gf]); proofs: PV.SpineSparseProofs (compressed storage of a dense
    matrix: cs_wf, cs_get), PV.SpineLinAlg (entries of list-of-rows products, offsets, regrouping of sums),
    PV.SpinePartition (any partition), PV.SpineOneBlock (the one-block partition), PV.SpineExamples (Hubbard atom on Qc).

    Pipeline (PV.Spine.spine_gf S ED beta i j), for a classification S of the 2^M Fock states and per-block eigen-data ED:
      weights            := Thermal.dm_compute on the blocks                                   (C09's model)
      parts of c_i, c^+_j := HPart.fo_prepare (block pairs) + HPart.fop_dense for every pair, stored as Eigen compressed
                            row-/column-major matrices keeping what HPart.prune keeps          (C10's model; C07's prepare)
      block pairs of G   := the merge walk GFPart.stripes over the two bimap views             (C01/C08)
      terms, value       := GFPart.gf_compute / gf_value                                       (C01's model)
    Right-hand side: EDSpec.gf, the Lehmann double sum on the FULL Fock space, evaluated on the assembled eigenvalues,
    the assembled weights and U^+ c_i U, U^+ c^+_j U with U the assembled eigenvector matrix and c, c^+ the
    Jordan-Wigner matrices EDSpec.op_matrix.

    Number type: any [numops] structure that is a field (field_theory) with conj 0 = 0.  Exact form: the tolerances are
    "0" in the sense of the hypotheses [keep0] (sparseView/prune only drops exact zeros), [rel0] (MatrixElementTolerance
    only drops exact zeros), [cmp0] (the term comparator is total), and +-1 pass the magnitude tests against eps.

    INTER-LAYER HYPOTHESES DISCHARGED (they were hypotheses of C01's gf_blocks_eq_full):
      blocks_sound  -- every stored part is the restriction of the rotated operator to its block pair and the rotated
                       operator vanishes on every other pair: from C10's HPartProofs.fop_dense_entries (rotation
                       formula of the two loops) + SpinePartition.rotated_block_entry (the list-level counterpart of
                       C10's assembled_entry), the bimap views being sorted (C08: prepare_bimap_wf, left/right_view_ksorted),
                       the shapes of the parts, all blocks retained (from Thermal.dm_compute);
      assembled     -- global E, w, U^+ O U assembled from the blocks: by construction (offsets into concatenations).
    For the ONE-BLOCK partition nothing remains; additionally the model's weights are EDSpec.weights (C09) and the block
    filled by HamiltonianPart::prepare is the full Jordan-Wigner matrix of h (C03, evaluated on the example).
    REMAINING for a general partition, as NAMED hypotheses of [spine_gf_partition_partial]:
      partition_ok S      = the conclusion of Properties_C07.C07_partition_exact (every label in exactly one block, blocks
                            duplicate-free, StateBlockIndex consistent) -- stated there for PV.Symm.qclass; missing
                            representation lemma: Symm.qclass (sc_blocks, sc_sbi) -> HPart.classification (sc_states, sc_index);
      op_ok S o pairs     = the conclusion of Properties_C07.C07_single_target / C08_gf_stripes_exact (prepare() records exactly
                            the connected block pairs, no bimap insertion refused, images stay in the recorded left block)
                            -- stated there for Symm.prepare; missing representation lemma: Symm.prepare = HPart.fo_prepare
                            on corresponding classifications.
      eig_ok S ED         = shapes only (one (E_b, U_b) per block, of the block's size).
    NOT needed for the equality (and therefore not assumed): the certificate H_b U_b = U_b diag(E_b), U_b^+ U_b = 1.  It is what
    makes (assembled E, assembled U) an eigen-decomposition of the full Hamiltonian: Properties_C03
    (hpart_prepare_is_restriction, blocks_diagonalise_full_partial, blocks_unitary_partial).
    NOT covered: the route through FieldOperatorContainer (c_i stored as the adjoint of c^+_i: C10 container_copy_is_adjoint). *)
Require Import Bool List Arith ZArith Ring_theory Field_theory.
From PV Require Import Outcome Fock Poly PolySem EDSpec HPart HPartSpec HPartProofs Sparse TermList GFPart GFPartProofs
     Spine SpineSparseProofs SpinePartition SpineOneBlock SpineExamples.
From PV Require Thermal.
From PVgen Require Import Gen_C01.
Import ListNotations.

(** * Stage 1: one block (symmetries ignored).  No inter-layer hypothesis is left. *)
Theorem spine_gf_one_block :
  forall (K : Type) (NO : numops K) (kinv : K -> K),
  field_theory (n0 K NO) (n1 K NO) (nadd K NO) (nmul K NO) (nsub K NO) (nopp K NO) (ndiv K NO) kinv (@eq K) ->
  nconj K NO (n0 K NO) = n0 K NO ->
  forall (fb : bool) (eps : K),
  nre_ltb K NO (nabs K NO (n1 K NO)) eps = false -> nre_ltb K NO (nabs K NO (nopp K NO (n1 K NO))) eps = false ->
  nre_ltb K NO eps (nabs K NO (n1 K NO)) = true -> nre_ltb K NO eps (nabs K NO (nopp K NO (n1 K NO))) = true ->
  forall reference prec : K,
  (forall x, keep_entry K NO reference prec x = false -> x = n0 K NO) ->                                          (* keep0 *)
  forall T : tols K,
  (forall R, gf_relevant K NO (t_matrix_element K T) R = false -> R = n0 K NO) ->                                 (* rel0 *)
  (forall a b, gf_compare K NO (t_compare K T) a b = false -> gf_compare K NO (t_compare K T) b a = true) ->      (* cmp0 *)
  forall (M : nat) (E : list K) (U : mat K),
  length E = Nat.pow 2 M -> square K (Nat.pow 2 M) U ->
  forall i j : nat, i < M -> j < M ->
  forall (fixed lenient : bool) (beta z : K) (parts : list ((nat * nat) * part_out K)),
  spine_gf K NO fb eps reference prec T fixed lenient (one_block M) [(E, U)] beta i j = Done (WDone parts) ->
  gf_value K NO parts z =
  gf K NO E (weights K NO beta E)
     (rotate K NO (Nat.pow 2 M) U (op_matrix K NO M (cann i)))
     (rotate K NO (Nat.pow 2 M) U (op_matrix K NO M (cdag j))) z.
Proof.
  exact (fun K NO kinv Kf => SpineOneBlock.spine_gf_one_block K NO kinv (F_R Kf) (Fdiv_def Kf)).
Qed.
Print Assumptions spine_gf_one_block.

(** with the repaired merge-walk loops ([fixed] = true; PV.Sparse) the one-block pipeline always returns a value, so the
    theorem above is not vacuous for any input of the right shape (for the loops as written, [fixed] = false, returning is
    C17's subject; the theorem holds whenever they return) *)
Theorem spine_gf_one_block_total :
  forall (K : Type) (NO : numops K) (kinv : K -> K),
  field_theory (n0 K NO) (n1 K NO) (nadd K NO) (nmul K NO) (nsub K NO) (nopp K NO) (ndiv K NO) kinv (@eq K) ->
  nconj K NO (n0 K NO) = n0 K NO ->
  forall (fb : bool) (eps : K),
  nre_ltb K NO (nabs K NO (n1 K NO)) eps = false -> nre_ltb K NO (nabs K NO (nopp K NO (n1 K NO))) eps = false ->
  nre_ltb K NO eps (nabs K NO (n1 K NO)) = true -> nre_ltb K NO eps (nabs K NO (nopp K NO (n1 K NO))) = true ->
  forall reference prec : K,
  (forall x, keep_entry K NO reference prec x = false -> x = n0 K NO) ->
  forall (T : tols K) (M : nat) (E : list K) (U : mat K),
  length E = Nat.pow 2 M -> square K (Nat.pow 2 M) U ->
  forall i j : nat, i < M -> j < M ->
  forall (lenient : bool) (beta : K),
  exists parts, spine_gf K NO fb eps reference prec T true lenient (one_block M) [(E, U)] beta i j = Done (WDone parts).
Proof.
  exact (fun K NO kinv Kf => SpineOneBlock.spine_gf_one_block_total K NO kinv (F_R Kf) (Fdiv_def Kf)).
Qed.
Print Assumptions spine_gf_one_block_total.

(** * Stage 2: any partition.
    FULL STATEMENT: the same for every classification S produced by the symmetry analysis (Symm.sc_compute) of a lattice
    whose accepted operators shift uniformly, with no hypothesis on S.
    PROVED: for every S satisfying [partition_ok] and [op_ok] -- the conclusions of C07 transported to PV.HPart's
    representation (see the header for the two missing representation lemmas). *)
Theorem spine_gf_partition_partial :
  forall (K : Type) (NO : numops K) (kinv : K -> K),
  field_theory (n0 K NO) (n1 K NO) (nadd K NO) (nmul K NO) (nsub K NO) (nopp K NO) (ndiv K NO) kinv (@eq K) ->
  nconj K NO (n0 K NO) = n0 K NO ->
  forall (fb : bool) (eps : K),
  nre_ltb K NO (nabs K NO (n1 K NO)) eps = false -> nre_ltb K NO (nabs K NO (nopp K NO (n1 K NO))) eps = false ->
  nre_ltb K NO eps (nabs K NO (n1 K NO)) = true -> nre_ltb K NO eps (nabs K NO (nopp K NO (n1 K NO))) = true ->
  forall reference prec : K,
  (forall x, keep_entry K NO reference prec x = false -> x = n0 K NO) ->
  forall T : tols K,
  (forall R, gf_relevant K NO (t_matrix_element K T) R = false -> R = n0 K NO) ->
  (forall a b, gf_compare K NO (t_compare K T) a b = false -> gf_compare K NO (t_compare K T) b a = true) ->
  forall (S : classification) (ED : eigdata K) (i j : nat) (pairsC pairsCX : list (nat * nat)),
  partition_ok S ->                                       (* C07_partition_exact *)
  eig_ok K S ED ->                                        (* shapes *)
  op_ok K NO fb eps S (FC i) pairsC ->                    (* C07_single_target for c_i *)
  op_ok K NO fb eps S (FCdag j) pairsCX ->                (* C07_single_target for c^+_j *)
  forall (fixed lenient : bool) (beta z : K) (parts : list ((nat * nat) * part_out K)),
  spine_gf K NO fb eps reference prec T fixed lenient S ED beta i j = Done (WDone parts) ->
  exists D, spine_dm K NO beta S ED = Done D /\
    gf_value K NO parts z =
    gf K NO (assembled_E K ED) (assembled_w K D)
       (rotate K NO (state_size S) (assembled_U K NO S ED) (op_matrix K NO (sc_M S) (cann i)))
       (rotate K NO (state_size S) (assembled_U K NO S ED) (op_matrix K NO (sc_M S) (cdag j))) z.
Proof.
  exact (fun K NO kinv Kf => SpinePartition.spine_gf_partition K NO kinv (F_R Kf) (Fdiv_def Kf)).
Qed.
Print Assumptions spine_gf_partition_partial.

Theorem spine_gf_partition_total_partial :
  forall (K : Type) (NO : numops K) (kinv : K -> K),
  field_theory (n0 K NO) (n1 K NO) (nadd K NO) (nmul K NO) (nsub K NO) (nopp K NO) (ndiv K NO) kinv (@eq K) ->
  nconj K NO (n0 K NO) = n0 K NO ->
  forall (fb : bool) (eps : K),
  nre_ltb K NO (nabs K NO (n1 K NO)) eps = false -> nre_ltb K NO (nabs K NO (nopp K NO (n1 K NO))) eps = false ->
  nre_ltb K NO eps (nabs K NO (n1 K NO)) = true -> nre_ltb K NO eps (nabs K NO (nopp K NO (n1 K NO))) = true ->
  forall reference prec : K,
  (forall x, keep_entry K NO reference prec x = false -> x = n0 K NO) ->
  forall (T : tols K) (S : classification) (ED : eigdata K) (i j : nat) (pairsC pairsCX : list (nat * nat)),
  partition_ok S -> eig_ok K S ED -> op_ok K NO fb eps S (FC i) pairsC -> op_ok K NO fb eps S (FCdag j) pairsCX ->
  forall (lenient : bool) (beta : K) D, spine_dm K NO beta S ED = Done D ->
  exists parts, spine_gf K NO fb eps reference prec T true lenient S ED beta i j = Done (WDone parts).
Proof.
  exact (fun K NO kinv Kf => SpinePartition.spine_gf_partition_total K NO kinv (F_R Kf) (Fdiv_def Kf)).
Qed.
Print Assumptions spine_gf_partition_total_partial.

(** the two discharged hypotheses of C01's gf_blocks_eq_full, as statements of their own *)
Theorem spine_rotated_block_entry :
  forall (K : Type) (NO : numops K),
  ring_theory (n0 K NO) (n1 K NO) (nadd K NO) (nmul K NO) (nsub K NO) (nopp K NO) (@eq K) ->
  nconj K NO (n0 K NO) = n0 K NO ->
  forall (S : classification) (ED : eigdata K), partition_ok S -> eig_ok K S ED ->
  forall (o : fop) (L R n m : nat), L < length (sc_states S) -> R < length (sc_states S) -> n < block_size S L -> m < block_size S R ->
  mget K NO (rotate K NO (state_size S) (assembled_U K NO S ED) (poly_matrix K NO (sc_M S) (fop_poly K NO o)))
       (GFFullProofs.off (block_size S) L + n) (GFFullProofs.off (block_size S) R + m) =
  BigSum.bigsum K (n0 K NO) (nadd K NO) (seq 0 (block_size S R)) (rot_term K NO S ED o L R n m).
Proof. exact SpinePartition.rotated_block_entry. Qed.
Print Assumptions spine_rotated_block_entry.

(** the compressed storage of a dense matrix is well-formed and denotes the matrix with the dropped entries set to 0 *)
Theorem cs_row_major_sound :
  forall (K : Type) (NO : numops K),
  ring_theory (n0 K NO) (n1 K NO) (nadd K NO) (nmul K NO) (nsub K NO) (nopp K NO) (@eq K) ->
  forall (keep : K -> bool) (ncols : nat) (D : mat K),
  (forall r, In r D -> length r <= ncols) ->
  cs_wf (cs_row_major K keep ncols D) /\
  forall n m, n < length D -> m < length (nth n D []) ->
    cs_get K NO (cs_row_major K keep ncols D) n m = (if keep (mget K NO D n m) then mget K NO D n m else n0 K NO).
Proof.
  exact (fun K NO Kr keep ncols D H =>
           conj (SpineSparseProofs.cs_row_major_wf K keep ncols D H) (SpineSparseProofs.cs_row_major_get K NO Kr keep ncols D)).
Qed.
Print Assumptions cs_row_major_sound.

(** * Non-vacuity: the Hubbard atom on exact rationals (all hypotheses instantiated; pipeline evaluated by vm_compute) *)
Theorem hubbard_atom_spine :
  exists parts, hub_run = Done (WDone parts) /\
    gf_value Qcanon.Qc QcS parts hub_z =
    gf Qcanon.Qc QcS hub_E (weights Qcanon.Qc QcS (n1 _ QcS) hub_E)
       (rotate Qcanon.Qc QcS 4 hub_U (op_matrix Qcanon.Qc QcS 2 (cann 0)))
       (rotate Qcanon.Qc QcS 4 hub_U (op_matrix Qcanon.Qc QcS 2 (cdag 0))) hub_z.
Proof. exact SpineExamples.hub_spine. Qed.
Print Assumptions hubbard_atom_spine.

Theorem hubbard_atom_value_nonzero :
  hub_value = Qcanon.Q2Qc (QArith_base.Qmake 2%Z 51%positive) /\ hub_value <> n0 _ QcS.
Proof. exact SpineExamples.hub_value_nonzero. Qed.
Print Assumptions hubbard_atom_value_nonzero.

(** the eigen-data of the example are an exact eigen-decomposition of the block filled by HamiltonianPart::prepare,
    which is the Jordan-Wigner matrix of the Hamiltonian polynomial (C03) *)
Theorem hubbard_atom_certificate :
  exists Hb, spine_hblocks Qcanon.Qc QcS true (n0 _ QcS) (one_block 2) hub_h = Done [Hb] /\
    Hb = poly_matrix Qcanon.Qc QcS 2 hub_h /\
    residual_HU Qcanon.Qc QcS 4 Hb hub_U hub_E = n0 _ QcS /\ residual_unitary Qcanon.Qc QcS 4 hub_U = n0 _ QcS.
Proof. exact SpineExamples.hub_certificate. Qed.
Print Assumptions hubbard_atom_certificate.

(** the same atom with the (N, S_z) partition, four blocks of one state: a non-trivial instance of [partition_ok], [eig_ok],
    [op_ok] (proved for it in PV.SpineExamples) to which [spine_gf_partition_partial] is applied; two parts, same value *)
Theorem hubbard_atom_four_blocks_spine :
  exists parts D, hub_run4 = Done (WDone parts) /\ spine_dm Qcanon.Qc QcS (n1 _ QcS) S4 ED4 = Done D /\
    gf_value Qcanon.Qc QcS parts hub_z =
    gf Qcanon.Qc QcS (assembled_E Qcanon.Qc ED4) (assembled_w Qcanon.Qc D)
       (rotate Qcanon.Qc QcS 4 (assembled_U Qcanon.Qc QcS S4 ED4) (op_matrix Qcanon.Qc QcS 2 (cann 0)))
       (rotate Qcanon.Qc QcS 4 (assembled_U Qcanon.Qc QcS S4 ED4) (op_matrix Qcanon.Qc QcS 2 (cdag 0))) hub_z.
Proof. exact SpineExamples.hub_spine4. Qed.
Print Assumptions hubbard_atom_four_blocks_spine.

Theorem hubbard_atom_four_blocks_value :
  hub_value4 = Qcanon.Q2Qc (QArith_base.Qmake 2%Z 51%positive) /\ hub_value4 <> n0 _ QcS /\
  match hub_run4 with Done (WDone parts) => map fst parts = [(0, 1); (2, 3)] | _ => False end /\
  assembled_E Qcanon.Qc ED4 = hub_E /\ assembled_U Qcanon.Qc QcS S4 ED4 = hub_U.
Proof. exact SpineExamples.hub_value4_nonzero. Qed.
Print Assumptions hubbard_atom_four_blocks_value.
