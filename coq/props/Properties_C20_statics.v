(** Properties_C20_statics.v -- Lattice, LatticePresets: every function of these files is free of static and namespace-scope variables.

    What Lattice::addSite / addTerm / getSite / getTerms / the copy constructor and every preset report depends on the object and the arguments only, not on what the process computed
    before or on other objects it holds (a second Hamiltonian, lattice, density matrix of the same size ...).  Statement about the
    list translator/gen_statics.py reads off the source on every run (coq/gen/Gen_StaticsLattice.v).  Run side: several models / objects
    per process (C03 same-process stage, C07 / C08 histories, C14 and C20 call histories). *)
Require Import List String.
From PV Require Import StaticsProofsLattice.
From PVgen Require Import Gen_StaticsLattice.
Import ListNotations.
Local Open Scope string_scope.

Theorem source_lattice_functions_hold_no_state : gen_statics_lattice = [].
Proof. exact StaticsProofsLattice.gen_statics_lattice_is_expected. Qed.
Print Assumptions source_lattice_functions_hold_no_state.
