
(** val negb : bool -> bool **)

let negb = function
| true -> false
| false -> true

(** val option_map : ('a1 -> 'a2) -> 'a1 option -> 'a2 option **)

let option_map f = function
| Some a -> Some (f a)
| None -> None

(** val fst : ('a1 * 'a2) -> 'a1 **)

let fst = function
| (x, _) -> x

(** val snd : ('a1 * 'a2) -> 'a2 **)

let snd = function
| (_, y) -> y

(** val length : 'a1 list -> int **)

let rec length = function
| [] -> 0
| _ :: l' -> Stdlib.Int.succ (length l')

(** val app : 'a1 list -> 'a1 list -> 'a1 list **)

let rec app l m =
  match l with
  | [] -> m
  | a :: l1 -> a :: (app l1 m)

(** val add : int -> int -> int **)

let rec add = (+)

module Nat =
 struct
  (** val ltb : int -> int -> bool **)

  let ltb n m =
    (<=) (Stdlib.Int.succ n) m

  (** val even : int -> bool **)

  let rec even n =
    (fun fO fS n -> if n=0 then fO () else fS (n-1))
      (fun _ -> true)
      (fun n0 ->
      (fun fO fS n -> if n=0 then fO () else fS (n-1))
        (fun _ -> false)
        (fun n' -> even n')
        n0)
      n

  (** val odd : int -> bool **)

  let odd n =
    negb (even n)

  (** val div2 : int -> int **)

  let rec div2 = fun n -> n/2

  (** val testbit : int -> int -> bool **)

  let rec testbit a n =
    (fun fO fS n -> if n=0 then fO () else fS (n-1))
      (fun _ -> odd a)
      (fun n0 -> testbit (div2 a) n0)
      n
 end

(** val nth : int -> 'a1 list -> 'a1 -> 'a1 **)

let rec nth n l default =
  (fun fO fS n -> if n=0 then fO () else fS (n-1))
    (fun _ -> match l with
              | [] -> default
              | x :: _ -> x)
    (fun m -> match l with
              | [] -> default
              | _ :: t -> nth m t default)
    n

(** val nth_error : 'a1 list -> int -> 'a1 option **)

let rec nth_error l n =
  (fun fO fS n -> if n=0 then fO () else fS (n-1))
    (fun _ -> match l with
              | [] -> None
              | x :: _ -> Some x)
    (fun n0 -> match l with
               | [] -> None
               | _ :: l0 -> nth_error l0 n0)
    n

(** val concat : 'a1 list list -> 'a1 list **)

let rec concat = function
| [] -> []
| x :: l0 -> app x (concat l0)

(** val map : ('a1 -> 'a2) -> 'a1 list -> 'a2 list **)

let rec map f = function
| [] -> []
| a :: t -> (f a) :: (map f t)

(** val flat_map : ('a1 -> 'a2 list) -> 'a1 list -> 'a2 list **)

let rec flat_map f = function
| [] -> []
| x :: t -> app (f x) (flat_map f t)

(** val fold_left : ('a1 -> 'a2 -> 'a1) -> 'a2 list -> 'a1 -> 'a1 **)

let rec fold_left f l a0 =
  match l with
  | [] -> a0
  | b :: t -> fold_left f t (f a0 b)

(** val existsb : ('a1 -> bool) -> 'a1 list -> bool **)

let rec existsb f = function
| [] -> false
| a :: l0 -> (||) (f a) (existsb f l0)

(** val find : ('a1 -> bool) -> 'a1 list -> 'a1 option **)

let rec find f = function
| [] -> None
| x :: tl -> if f x then Some x else find f tl

(** val combine : 'a1 list -> 'a2 list -> ('a1 * 'a2) list **)

let rec combine l l' =
  match l with
  | [] -> []
  | x :: tl ->
    (match l' with
     | [] -> []
     | y :: tl' -> (x, y) :: (combine tl tl'))

(** val seq : int -> int -> int list **)

let rec seq start len =
  (fun fO fS n -> if n=0 then fO () else fS (n-1))
    (fun _ -> [])
    (fun len0 -> start :: (seq (Stdlib.Int.succ start) len0))
    len

(** val abs : Float64.t -> Float64.t **)

let abs = Float64.abs

(** val sqrt : Float64.t -> Float64.t **)

let sqrt = Float64.sqrt

(** val opp : Float64.t -> Float64.t **)

let opp = Float64.opp

(** val eqb : Float64.t -> Float64.t -> bool **)

let eqb = Float64.eq

(** val ltb0 : Float64.t -> Float64.t -> bool **)

let ltb0 = Float64.lt

(** val mul : Float64.t -> Float64.t -> Float64.t **)

let mul = Float64.mul

(** val add0 : Float64.t -> Float64.t -> Float64.t **)

let add0 = Float64.add

(** val sub : Float64.t -> Float64.t -> Float64.t **)

let sub = Float64.sub

(** val div : Float64.t -> Float64.t -> Float64.t **)

let div = Float64.div

type 'a outcome =
| Done of 'a
| OOB
| Uninit
| Throws of int
| OutOfFuel

(** val bind : 'a1 outcome -> ('a1 -> 'a2 outcome) -> 'a2 outcome **)

let bind x f =
  match x with
  | Done a -> f a
  | OOB -> OOB
  | Uninit -> Uninit
  | Throws c -> Throws c
  | OutOfFuel -> OutOfFuel

type fc = Float64.t * Float64.t

(** val fadd : fc -> fc -> fc **)

let fadd a b =
  ((add0 (fst a) (fst b)), (add0 (snd a) (snd b)))

(** val fsub : fc -> fc -> fc **)

let fsub a b =
  ((sub (fst a) (fst b)), (sub (snd a) (snd b)))

(** val fmul : fc -> fc -> fc **)

let fmul a b =
  ((sub (mul (fst a) (fst b)) (mul (snd a) (snd b))),
    (add0 (mul (fst a) (snd b)) (mul (snd a) (fst b))))

(** val fopp : fc -> fc **)

let fopp a =
  ((opp (fst a)), (opp (snd a)))

(** val fabs : fc -> fc **)

let fabs a =
  ((sqrt (add0 (mul (fst a) (fst a)) (mul (snd a) (snd a)))),
    (Float64.of_float (0x0p+0)))

type 'k hpart = { hp_states : int list; hp_eig : 'k list;
                  hp_vec : 'k list list }

(** val min_coeff : ('a1 -> 'a1 -> bool) -> 'a1 list -> 'a1 outcome **)

let min_coeff kltb = function
| [] -> OOB
| x :: t -> Done (fold_left (fun acc y -> if kltb y acc then y else acc) t x)

(** val map_outcome : ('a1 -> 'a2 outcome) -> 'a1 list -> 'a2 list outcome **)

let rec map_outcome f = function
| [] -> Done []
| a :: t ->
  bind (f a) (fun b -> bind (map_outcome f t) (fun bs -> Done (b :: bs)))

(** val ground_energy :
    ('a1 -> 'a1 -> bool) -> 'a1 hpart list -> 'a1 outcome **)

let ground_energy kltb h =
  bind (map_outcome (fun hp -> min_coeff kltb hp.hp_eig) h) (min_coeff kltb)

type 'k dmpart = { dp_weights : 'k list; dp_zpart : 'k; dp_retained : bool }

(** val unnormalized_weight :
    ('a1 -> 'a1 -> 'a1) -> ('a1 -> 'a1 -> 'a1) -> ('a1 -> 'a1) -> ('a1 ->
    'a1) -> 'a1 -> 'a1 -> 'a1 -> 'a1 **)

let unnormalized_weight ksub kmul kopp kexp beta ground e =
  kexp (kmul (kopp beta) (ksub e ground))

(** val compute_unnormalized :
    'a1 -> ('a1 -> 'a1 -> 'a1) -> ('a1 -> 'a1 -> 'a1) -> ('a1 -> 'a1 -> 'a1)
    -> ('a1 -> 'a1) -> ('a1 -> 'a1) -> 'a1 -> 'a1 -> 'a1 hpart -> 'a1 dmpart **)

let compute_unnormalized k0 kadd ksub kmul kopp kexp beta ground hp =
  let w = map (unnormalized_weight ksub kmul kopp kexp beta ground) hp.hp_eig
  in
  { dp_weights = w; dp_zpart = (fold_left kadd w k0); dp_retained = true }

(** val normalize : ('a1 -> 'a1 -> 'a1) -> 'a1 -> 'a1 dmpart -> 'a1 dmpart **)

let normalize kdiv z dp =
  { dp_weights = (map (fun w -> kdiv w z) dp.dp_weights); dp_zpart =
    (kdiv dp.dp_zpart z); dp_retained = dp.dp_retained }

(** val part_average_energy :
    'a1 -> ('a1 -> 'a1 -> 'a1) -> ('a1 -> 'a1 -> 'a1) -> 'a1 hpart -> 'a1
    dmpart -> 'a1 **)

let part_average_energy k0 kadd kmul hp dp =
  fold_left (fun acc we -> kadd acc (kmul (fst we) (snd we)))
    (combine dp.dp_weights hp.hp_eig) k0

(** val col : 'a1 -> 'a1 list list -> int -> 'a1 list **)

let col k0 m s =
  map (fun row -> nth s row k0) m

(** val part_fock_average :
    'a1 -> ('a1 -> 'a1 -> 'a1) -> ('a1 -> 'a1 -> 'a1) -> ('a1 -> 'a1) -> ('a1
    -> int -> 'a1) -> 'a1 hpart -> 'a1 dmpart -> 'a1 **)

let part_fock_average k0 kadd kmul kabs pre hp dp =
  fold_left (fun acc sw ->
    fold_left (fun acc' fv ->
      kadd acc' (kmul (pre (snd sw) (fst fv)) (kabs (kmul (snd fv) (snd fv)))))
      (combine hp.hp_states (col k0 hp.hp_vec (fst sw))) acc)
    (combine (seq 0 (length dp.dp_weights)) dp.dp_weights) k0

(** val popcount_fuel : int -> int -> int **)

let rec popcount_fuel fuel n =
  (fun fO fS n -> if n=0 then fO () else fS (n-1))
    (fun _ -> 0)
    (fun f ->
    add (if Nat.odd n then Stdlib.Int.succ 0 else 0)
      (popcount_fuel f (Nat.div2 n)))
    fuel

(** val popcount : int -> int -> int **)

let popcount =
  popcount_fuel

(** val b2k : (int -> 'a1) -> bool -> 'a1 **)

let b2k kofnat b =
  kofnat (if b then Stdlib.Int.succ 0 else 0)

(** val part_average_occupancy :
    'a1 -> ('a1 -> 'a1 -> 'a1) -> ('a1 -> 'a1 -> 'a1) -> ('a1 -> 'a1) -> (int
    -> 'a1) -> int -> 'a1 hpart -> 'a1 dmpart -> 'a1 **)

let part_average_occupancy k0 kadd kmul kabs kofnat m hp dp =
  part_fock_average k0 kadd kmul kabs (fun w f ->
    kmul w (kofnat (popcount m f))) hp dp

(** val part_average_occupancy_i :
    'a1 -> ('a1 -> 'a1 -> 'a1) -> ('a1 -> 'a1 -> 'a1) -> ('a1 -> 'a1) -> (int
    -> 'a1) -> int -> 'a1 hpart -> 'a1 dmpart -> 'a1 **)

let part_average_occupancy_i k0 kadd kmul kabs kofnat i hp dp =
  part_fock_average k0 kadd kmul kabs (fun w f ->
    kmul w (b2k kofnat (Nat.testbit f i))) hp dp

(** val part_average_double_occupancy :
    'a1 -> ('a1 -> 'a1 -> 'a1) -> ('a1 -> 'a1 -> 'a1) -> ('a1 -> 'a1) -> (int
    -> 'a1) -> int -> int -> 'a1 hpart -> 'a1 dmpart -> 'a1 **)

let part_average_double_occupancy k0 kadd kmul kabs kofnat i j hp dp =
  part_fock_average k0 kadd kmul kabs (fun w f ->
    kmul (kmul w (b2k kofnat (Nat.testbit f i)))
      (b2k kofnat (Nat.testbit f j))) hp dp

(** val truncate : ('a1 -> 'a1 -> bool) -> 'a1 -> 'a1 dmpart -> 'a1 dmpart **)

let truncate kltb tol dp =
  { dp_weights = dp.dp_weights; dp_zpart = dp.dp_zpart; dp_retained =
    (existsb (fun w -> kltb tol w) dp.dp_weights) }

(** val dm_unnormalized :
    'a1 -> ('a1 -> 'a1 -> 'a1) -> ('a1 -> 'a1 -> 'a1) -> ('a1 -> 'a1 -> 'a1)
    -> ('a1 -> 'a1) -> ('a1 -> 'a1) -> 'a1 -> 'a1 -> 'a1 hpart list -> 'a1
    dmpart list **)

let dm_unnormalized k0 kadd ksub kmul kopp kexp beta ground h =
  map (compute_unnormalized k0 kadd ksub kmul kopp kexp beta ground) h

(** val dm_Z : 'a1 -> ('a1 -> 'a1 -> 'a1) -> 'a1 dmpart list -> 'a1 **)

let dm_Z k0 kadd parts =
  fold_left (fun z dp -> kadd z dp.dp_zpart) parts k0

(** val dm_compute :
    'a1 -> ('a1 -> 'a1 -> 'a1) -> ('a1 -> 'a1 -> 'a1) -> ('a1 -> 'a1 -> 'a1)
    -> ('a1 -> 'a1 -> 'a1) -> ('a1 -> 'a1) -> ('a1 -> 'a1) -> ('a1 -> 'a1 ->
    bool) -> 'a1 -> 'a1 hpart list -> 'a1 dmpart list outcome **)

let dm_compute k0 kadd ksub kmul kdiv kopp kexp kltb beta h =
  bind (ground_energy kltb h) (fun g ->
    let parts = dm_unnormalized k0 kadd ksub kmul kopp kexp beta g h in
    Done (map (normalize kdiv (dm_Z k0 kadd parts)) parts))

(** val dm_truncate :
    ('a1 -> 'a1 -> bool) -> 'a1 -> 'a1 dmpart list -> 'a1 dmpart list **)

let dm_truncate kltb tol d =
  map (truncate kltb tol) d

(** val is_retained : 'a1 dmpart list -> int -> bool **)

let is_retained d b =
  nth b (map (fun d0 -> d0.dp_retained) d) false

(** val dm_sum_parts :
    'a1 -> ('a1 -> 'a1 -> 'a1) -> ('a1 hpart -> 'a1 dmpart -> 'a1) -> 'a1
    hpart list -> 'a1 dmpart list -> 'a1 **)

let dm_sum_parts k0 kadd f h d =
  fold_left (fun acc hd -> kadd acc (f (fst hd) (snd hd))) (combine h d) k0

(** val dm_average_energy :
    'a1 -> ('a1 -> 'a1 -> 'a1) -> ('a1 -> 'a1 -> 'a1) -> 'a1 hpart list ->
    'a1 dmpart list -> 'a1 **)

let dm_average_energy k0 kadd kmul =
  dm_sum_parts k0 kadd (part_average_energy k0 kadd kmul)

(** val dm_average_occupancy :
    'a1 -> ('a1 -> 'a1 -> 'a1) -> ('a1 -> 'a1 -> 'a1) -> ('a1 -> 'a1) -> (int
    -> 'a1) -> int -> 'a1 hpart list -> 'a1 dmpart list -> 'a1 **)

let dm_average_occupancy k0 kadd kmul kabs kofnat m =
  dm_sum_parts k0 kadd (part_average_occupancy k0 kadd kmul kabs kofnat m)

(** val dm_average_occupancy_i :
    'a1 -> ('a1 -> 'a1 -> 'a1) -> ('a1 -> 'a1 -> 'a1) -> ('a1 -> 'a1) -> (int
    -> 'a1) -> int -> int -> 'a1 hpart list -> 'a1 dmpart list -> 'a1 outcome **)

let dm_average_occupancy_i k0 kadd kmul kabs kofnat m i h d =
  if Nat.ltb i m
  then Done
         (dm_sum_parts k0 kadd
           (part_average_occupancy_i k0 kadd kmul kabs kofnat i) h d)
  else OOB

(** val dm_average_double_occupancy :
    'a1 -> ('a1 -> 'a1 -> 'a1) -> ('a1 -> 'a1 -> 'a1) -> ('a1 -> 'a1) -> (int
    -> 'a1) -> int -> int -> int -> 'a1 hpart list -> 'a1 dmpart list -> 'a1
    outcome **)

let dm_average_double_occupancy k0 kadd kmul kabs kofnat m i j h d =
  if (&&) (Nat.ltb i m) (Nat.ltb j m)
  then Done
         (dm_sum_parts k0 kadd
           (part_average_double_occupancy k0 kadd kmul kabs kofnat i j) h d)
  else OOB

(** val index_of : int -> int list -> int option **)

let rec index_of x = function
| [] -> None
| y :: t ->
  if (=) y x
  then Some 0
  else option_map (fun x0 -> Stdlib.Int.succ x0) (index_of x t)

(** val find_state : int -> 'a1 hpart list -> int -> (int * int) option **)

let rec find_state st h b =
  match h with
  | [] -> None
  | hp :: t ->
    (match index_of st hp.hp_states with
     | Some inner -> Some (b, inner)
     | None -> find_state st t (Stdlib.Int.succ b))

(** val lookup_state :
    'a1 list list -> 'a1 hpart list -> int -> 'a1 outcome **)

let lookup_state vecs h st =
  match find_state st h 0 with
  | Some p ->
    let (b, inner) = p in
    (match nth_error vecs b with
     | Some v -> (match nth_error v inner with
                  | Some x -> Done x
                  | None -> OOB)
     | None -> OOB)
  | None -> Throws (Stdlib.Int.succ 0)

(** val dm_get_weight :
    'a1 hpart list -> 'a1 dmpart list -> int -> 'a1 outcome **)

let dm_get_weight h d st =
  lookup_state (map (fun d0 -> d0.dp_weights) d) h st

(** val ham_get_eigenvalue : 'a1 hpart list -> int -> 'a1 outcome **)

let ham_get_eigenvalue h st =
  lookup_state (map (fun h0 -> h0.hp_eig) h) h st

(** val ham_get_eigenvalues : 'a1 hpart list -> 'a1 list **)

let ham_get_eigenvalues h =
  concat (map (fun h0 -> h0.hp_eig) h)

type 'k oppart = { op_left : int; op_right : int; op_mat : 'k list list }

type 'k fieldop = 'k oppart list

(** val coeff : 'a1 -> 'a1 list list -> int -> int -> 'a1 **)

let coeff k0 m i j =
  nth j (nth i m []) k0

(** val get_part_from_left : 'a1 fieldop -> int -> 'a1 oppart option **)

let get_part_from_left a l =
  find (fun p -> (=) p.op_left l) a

(** val ea_compute :
    'a1 -> ('a1 -> 'a1 -> 'a1) -> ('a1 -> 'a1 -> 'a1) -> 'a1 oppart -> 'a1
    dmpart -> 'a1 **)

let ea_compute k0 kadd kmul apart dp =
  fold_left (fun acc i ->
    kadd acc (kmul (coeff k0 apart.op_mat i i) (nth i dp.dp_weights k0)))
    (seq 0 (length apart.op_mat)) k0

(** val ea_prepare :
    'a1 -> ('a1 -> 'a1 -> 'a1) -> ('a1 -> 'a1 -> 'a1) -> 'a1 fieldop -> 'a1
    dmpart list -> 'a1 outcome **)

let ea_prepare k0 kadd kmul a d =
  fold_left (fun acc p ->
    bind acc (fun r ->
      if (=) p.op_left p.op_right
      then if is_retained d p.op_left
           then (match get_part_from_left a p.op_left with
                 | Some apart ->
                   (match nth_error d p.op_left with
                    | Some dp ->
                      Done (kadd r (ea_compute k0 kadd kmul apart dp))
                    | None -> OOB)
                 | None -> OOB)
           else Done r
      else Done r)) a (Done k0)

(** val stripe_walk :
    int -> (int -> bool) -> (int * int) list -> (int * int) list ->
    (int * int) list -> (int * int) list outcome **)

let rec stripe_walk fuel ret cl cxr acc =
  match cl with
  | [] -> Done acc
  | p :: cl' ->
    let (cleft, cright) = p in
    (match cxr with
     | [] -> Done acc
     | p0 :: cxr' ->
       let (cXright, cXleft) = p0 in
       ((fun fO fS n -> if n=0 then fO () else fS (n-1))
          (fun _ -> OutOfFuel)
          (fun f ->
          let acc' =
            if (&&) ((=) cleft cXright) ((=) cright cXleft)
            then if (||) (ret cleft) (ret cright)
                 then app acc ((cleft, cright) :: [])
                 else acc
            else acc
          in
          stripe_walk f ret (if (<=) cleft cXright then cl' else cl)
            (if (<=) cXright cleft then cxr' else cxr) acc')
          fuel))

(** val gf_prepare :
    (int -> bool) -> (int * int) list -> (int * int) list -> (int * int) list
    outcome **)

let gf_prepare ret cl cxr =
  stripe_walk (add (length cl) (length cxr)) ret cl cxr []

type bimap = (int * int) list

(** val get_right_index : bimap -> int -> int option **)

let get_right_index bm l =
  option_map snd (find (fun p -> (=) (fst p) l) bm)

(** val get_left_index : bimap -> int -> int option **)

let get_left_index bm r =
  option_map fst (find (fun p -> (=) (snd p) r) bm)

(** val permutations3 : int list list **)

let permutations3 =
  (0 :: ((Stdlib.Int.succ 0) :: ((Stdlib.Int.succ (Stdlib.Int.succ
    0)) :: []))) :: ((0 :: ((Stdlib.Int.succ (Stdlib.Int.succ
    0)) :: ((Stdlib.Int.succ 0) :: []))) :: (((Stdlib.Int.succ
    0) :: (0 :: ((Stdlib.Int.succ (Stdlib.Int.succ
    0)) :: []))) :: (((Stdlib.Int.succ 0) :: ((Stdlib.Int.succ
    (Stdlib.Int.succ 0)) :: (0 :: []))) :: (((Stdlib.Int.succ
    (Stdlib.Int.succ 0)) :: (0 :: ((Stdlib.Int.succ
    0) :: []))) :: (((Stdlib.Int.succ (Stdlib.Int.succ
    0)) :: ((Stdlib.Int.succ 0) :: (0 :: []))) :: [])))))

(** val op_at : bimap list -> int list -> int -> bimap **)

let op_at ops perm pos =
  nth (nth pos perm 0) ops []

type tpgf_part = int * (((int * int) * int) * int)

(** val tpgf_try :
    (int -> bool) -> bimap list -> int -> int list -> int -> int -> tpgf_part
    list **)

let tpgf_try ret ops pn perm l0 l3 =
  match get_left_index (op_at ops perm (Stdlib.Int.succ (Stdlib.Int.succ 0)))
          l3 with
  | Some l2 ->
    (match get_right_index (op_at ops perm 0) l0 with
     | Some l1 ->
       (match get_right_index (op_at ops perm (Stdlib.Int.succ 0)) l1 with
        | Some r ->
          if (=) r l2
          then if (||) ((||) ((||) (ret l0) (ret l1)) (ret l2)) (ret l3)
               then (pn, (((l0, l1), l2), l3)) :: []
               else []
          else []
        | None -> [])
     | None -> [])
  | None -> []

(** val tpgf_prepare :
    (int -> bool) -> bimap list -> (int * int) list -> tpgf_part list **)

let tpgf_prepare ret ops cx4r =
  flat_map (fun o ->
    flat_map (fun pp -> tpgf_try ret ops (fst pp) (snd pp) (fst o) (snd o))
      (combine
        (seq 0 (Stdlib.Int.succ (Stdlib.Int.succ (Stdlib.Int.succ
          (Stdlib.Int.succ (Stdlib.Int.succ (Stdlib.Int.succ 0)))))))
        permutations3)) cx4r

(** val tdiv : fc -> fc -> fc **)

let tdiv a b =
  ((div (fst a) (fst b)), (div (snd a) (fst b)))

(** val tabs : fc -> fc **)

let tabs a =
  if eqb (snd a) (Float64.of_float (0x0p+0))
  then ((abs (fst a)), (Float64.of_float (0x0p+0)))
  else fabs a

(** val nat_to_float : int -> Float64.t **)

let rec nat_to_float n =
  (fun fO fS n -> if n=0 then fO () else fS (n-1))
    (fun _ -> (Float64.of_float (0x0p+0)))
    (fun m -> add0 (nat_to_float m) (Float64.of_float (0x1p+0)))
    n

(** val tofnat : int -> fc **)

let tofnat n =
  ((nat_to_float n), (Float64.of_float (0x0p+0)))

(** val tltb : fc -> fc -> bool **)

let tltb a b =
  ltb0 (fst a) (fst b)

(** val texp : (Float64.t -> Float64.t) -> fc -> fc **)

let texp fexp a =
  ((fexp (fst a)), (Float64.of_float (0x0p+0)))

(** val t0 : fc **)

let t0 =
  ((Float64.of_float (0x0p+0)), (Float64.of_float (0x0p+0)))

(** val t_ground_energy : fc hpart list -> fc outcome **)

let t_ground_energy =
  ground_energy tltb

(** val t_dm_compute :
    (Float64.t -> Float64.t) -> fc -> fc hpart list -> fc dmpart list outcome **)

let t_dm_compute fexp =
  dm_compute t0 fadd fsub fmul tdiv fopp (texp fexp) tltb

(** val t_dm_unnormalized :
    (Float64.t -> Float64.t) -> fc -> fc -> fc hpart list -> fc dmpart list **)

let t_dm_unnormalized fexp =
  dm_unnormalized t0 fadd fsub fmul fopp (texp fexp)

(** val t_dm_truncate : fc -> fc dmpart list -> fc dmpart list **)

let t_dm_truncate =
  dm_truncate tltb

(** val t_is_retained : fc dmpart list -> int -> bool **)

let t_is_retained =
  is_retained

(** val t_dm_average_energy : fc hpart list -> fc dmpart list -> fc **)

let t_dm_average_energy =
  dm_average_energy t0 fadd fmul

(** val t_dm_average_occupancy :
    int -> fc hpart list -> fc dmpart list -> fc **)

let t_dm_average_occupancy =
  dm_average_occupancy t0 fadd fmul tabs tofnat

(** val t_dm_average_occupancy_i :
    int -> int -> fc hpart list -> fc dmpart list -> fc outcome **)

let t_dm_average_occupancy_i =
  dm_average_occupancy_i t0 fadd fmul tabs tofnat

(** val t_dm_average_double_occupancy :
    int -> int -> int -> fc hpart list -> fc dmpart list -> fc outcome **)

let t_dm_average_double_occupancy =
  dm_average_double_occupancy t0 fadd fmul tabs tofnat

(** val t_dm_get_weight :
    fc hpart list -> fc dmpart list -> int -> fc outcome **)

let t_dm_get_weight =
  dm_get_weight

(** val t_ham_get_eigenvalue : fc hpart list -> int -> fc outcome **)

let t_ham_get_eigenvalue =
  ham_get_eigenvalue

(** val t_ham_get_eigenvalues : fc hpart list -> fc list **)

let t_ham_get_eigenvalues =
  ham_get_eigenvalues

(** val t_ea_prepare : fc fieldop -> fc dmpart list -> fc outcome **)

let t_ea_prepare =
  ea_prepare t0 fadd fmul

(** val t_gf_prepare :
    (int -> bool) -> (int * int) list -> (int * int) list -> (int * int) list
    outcome **)

let t_gf_prepare =
  gf_prepare

(** val t_tpgf_prepare :
    (int -> bool) -> bimap list -> (int * int) list -> tpgf_part list **)

let t_tpgf_prepare =
  tpgf_prepare

(** val t_mk_hpart : int list -> fc list -> fc list list -> fc hpart **)

let t_mk_hpart x x0 x1 =
  { hp_states = x; hp_eig = x0; hp_vec = x1 }

(** val t_mk_oppart : int -> int -> fc list list -> fc oppart **)

let t_mk_oppart x x0 x1 =
  { op_left = x; op_right = x0; op_mat = x1 }

(** val t_dp_weights : fc dmpart -> fc list **)

let t_dp_weights d =
  d.dp_weights

(** val t_dp_zpart : fc dmpart -> fc **)

let t_dp_zpart d =
  d.dp_zpart

(** val t_dp_retained : fc dmpart -> bool **)

let t_dp_retained d =
  d.dp_retained
