
(** val negb : bool -> bool **)

let negb = function
| true -> false
| false -> true

(** val fst : ('a1 * 'a2) -> 'a1 **)

let fst = function
| (x, _) -> x

(** val snd : ('a1 * 'a2) -> 'a2 **)

let snd = function
| (_, y) -> y

(** val length : 'a1 list -> int **)

let rec length = function
| [] -> 0
| _ :: l' -> Stdlib.Int.succ (length l')

(** val app : 'a1 list -> 'a1 list -> 'a1 list **)

let rec app l m =
  match l with
  | [] -> m
  | a :: l1 -> a :: (app l1 m)

(** val add : int -> int -> int **)

let rec add = (+)

(** val mul : int -> int -> int **)

let rec mul = ( * )

(** val sub : int -> int -> int **)

let rec sub = fun n m -> Stdlib.max 0 (n-m)

module Nat =
 struct
  (** val ltb : int -> int -> bool **)

  let ltb n m =
    (<=) (Stdlib.Int.succ n) m
 end

(** val map : ('a1 -> 'a2) -> 'a1 list -> 'a2 list **)

let rec map f = function
| [] -> []
| a :: t -> (f a) :: (map f t)

(** val flat_map : ('a1 -> 'a2 list) -> 'a1 list -> 'a2 list **)

let rec flat_map f = function
| [] -> []
| x :: t -> app (f x) (flat_map f t)

(** val fold_left : ('a1 -> 'a2 -> 'a1) -> 'a2 list -> 'a1 -> 'a1 **)

let rec fold_left f l a0 =
  match l with
  | [] -> a0
  | b :: t -> fold_left f t (f a0 b)

(** val existsb : ('a1 -> bool) -> 'a1 list -> bool **)

let rec existsb f = function
| [] -> false
| a :: l0 -> (||) (f a) (existsb f l0)

(** val forallb : ('a1 -> bool) -> 'a1 list -> bool **)

let rec forallb f = function
| [] -> true
| a :: l0 -> (&&) (f a) (forallb f l0)

(** val filter : ('a1 -> bool) -> 'a1 list -> 'a1 list **)

let rec filter f = function
| [] -> []
| x :: l0 -> if f x then x :: (filter f l0) else filter f l0

(** val combine : 'a1 list -> 'a2 list -> ('a1 * 'a2) list **)

let rec combine l l' =
  match l with
  | [] -> []
  | x :: tl ->
    (match l' with
     | [] -> []
     | y :: tl' -> (x, y) :: (combine tl tl'))

(** val seq : int -> int -> int list **)

let rec seq start len =
  (fun fO fS n -> if n=0 then fO () else fS (n-1))
    (fun _ -> [])
    (fun len0 -> start :: (seq (Stdlib.Int.succ start) len0))
    len

type job = int

type wid = int

type wstat =
| Pending
| Work of job
| Finish

type msg =
| MWork of job
| MFinish
| MPend

type cfg = { np : int; ib : bool }

(** val pool : cfg -> wid list **)

let pool c =
  if c.ib
  then seq 0 c.np
  else seq (Stdlib.Int.succ 0) (sub c.np (Stdlib.Int.succ 0))

(** val ranks : cfg -> wid list **)

let ranks c =
  seq 0 c.np

(** val nprocs : cfg -> int **)

let nprocs c =
  length (pool c)

(** val is_worker : cfg -> wid -> bool **)

let is_worker c r =
  (&&) (Nat.ltb r c.np) ((||) c.ib (negb ((=) r 0)))

(** val valid_cfg : cfg -> bool **)

let valid_cfg c =
  negb ((=) (nprocs c) 0)

(** val upd : (int -> 'a1) -> int -> 'a1 -> int -> 'a1 **)

let upd f k v x =
  if (=) x k then v else f x

type sys = { jobstack : job list; wstack : wid list; outst : (wid -> bool);
             wfin : (wid -> bool); dmap : (job -> wid option);
             alljobs : job list; wst : (wid -> wstat);
             chan : (wid -> msg list); pend_older : (wid -> bool);
             exited : (wid -> bool); log : (job * wid) list; err : bool;
             round : int }

type event =
| EOrder of (job * wid) list
| ECheck of wid list * wid list
| ERecv of wid * msg
| ERun of wid * job
| EExit of wid
| EIdle of wid
| ENewRound of job list

(** val order_worker : wid -> job -> sys -> sys **)

let order_worker w j s =
  { jobstack = s.jobstack; wstack = s.wstack; outst = (upd s.outst w true);
    wfin = s.wfin; dmap = (upd s.dmap j (Some w)); alljobs = s.alljobs; wst =
    s.wst; chan = (upd s.chan w (app (s.chan w) ((MWork j) :: [])));
    pend_older = (upd s.pend_older w false); exited = s.exited; log = s.log;
    err = ((||) s.err (s.outst w)); round = s.round }

(** val set_stacks : job list -> wid list -> sys -> sys **)

let set_stacks js ws s =
  { jobstack = js; wstack = ws; outst = s.outst; wfin = s.wfin; dmap =
    s.dmap; alljobs = s.alljobs; wst = s.wst; chan = s.chan; pend_older =
    s.pend_older; exited = s.exited; log = s.log; err = s.err; round =
    s.round }

(** val order_loop : job list -> wid list -> sys -> sys **)

let rec order_loop js ws s =
  match js with
  | [] -> s
  | j :: js' ->
    (match ws with
     | [] -> s
     | w :: ws' ->
       order_loop js' ws' (order_worker w j (set_stacks js' ws' s)))

(** val do_order : sys -> sys **)

let do_order s =
  order_loop s.jobstack s.wstack s

(** val order_pairs : sys -> (job * wid) list **)

let order_pairs s =
  combine s.jobstack s.wstack

(** val is_pend : msg -> bool **)

let is_pend = function
| MPend -> true
| _ -> false

(** val not_pend : msg -> bool **)

let not_pend m =
  negb (is_pend m)

(** val take_first : (msg -> bool) -> msg list -> (msg * msg list) option **)

let rec take_first p = function
| [] -> None
| m :: l' ->
  if p m
  then Some (m, l')
  else (match take_first p l' with
        | Some p0 -> let (x, r) = p0 in Some (x, (m :: r))
        | None -> None)

(** val shared : wid -> bool **)

let shared w =
  (=) w 0

(** val wildcard_posted : sys -> wid -> bool **)

let wildcard_posted s w =
  match s.wst w with
  | Finish -> false
  | _ -> true

(** val wild_match : sys -> wid -> (msg * msg list) option **)

let wild_match s w =
  if shared w
  then if (&&) (s.outst w) (s.pend_older w)
       then (match s.chan w with
             | [] -> None
             | m :: l ->
               (match m with
                | MPend ->
                  (match l with
                   | [] -> None
                   | m0 :: l0 -> Some (m0, (MPend :: l0)))
                | _ -> Some (m, l)))
       else (match s.chan w with
             | [] -> None
             | m :: l -> Some (m, l))
  else take_first not_pend (s.chan w)

(** val pend_match : sys -> wid -> msg list option **)

let pend_match s w =
  if (&&) ((&&) (shared w) (negb (s.pend_older w))) (wildcard_posted s w)
  then (match s.chan w with
        | [] -> None
        | m :: l ->
          (match take_first is_pend l with
           | Some p -> let (_, r) = p in Some (m :: r)
           | None -> None))
  else (match take_first is_pend (s.chan w) with
        | Some p -> let (_, r) = p in Some r
        | None -> None)

(** val see : wid -> sys -> sys option **)

let see w s =
  if s.outst w
  then (match pend_match s w with
        | Some l ->
          Some { jobstack = s.jobstack; wstack = (w :: s.wstack); outst =
            (upd s.outst w false); wfin = s.wfin; dmap = s.dmap; alljobs =
            s.alljobs; wst = s.wst; chan = (upd s.chan w l); pend_older =
            s.pend_older; exited = s.exited; log = s.log; err = s.err;
            round = s.round }
        | None -> None)
  else None

(** val check_loop : wid list -> wid list -> sys -> sys option **)

let rec check_loop ws seen s =
  match ws with
  | [] -> (match seen with
           | [] -> Some s
           | _ :: _ -> None)
  | w :: ws' ->
    (match seen with
     | [] -> Some s
     | w' :: seen' ->
       if (=) w w'
       then (match see w s with
             | Some s' -> check_loop ws' seen' s'
             | None -> None)
       else check_loop ws' seen s)

(** val finish_cond : cfg -> sys -> bool **)

let finish_cond c s =
  match s.jobstack with
  | [] -> (<=) (nprocs c) (length s.wstack)
  | _ :: _ -> false

(** val finish_targets : cfg -> sys -> wid list **)

let finish_targets c s =
  if finish_cond c s then filter (fun w -> negb (s.wfin w)) (pool c) else []

(** val send_finish : wid -> sys -> sys **)

let send_finish w s =
  { jobstack = s.jobstack; wstack = s.wstack; outst = s.outst; wfin =
    (upd s.wfin w true); dmap = s.dmap; alljobs = s.alljobs; wst = s.wst;
    chan = (upd s.chan w (app (s.chan w) (MFinish :: []))); pend_older =
    s.pend_older; exited = s.exited; log = s.log; err = s.err; round =
    s.round }

(** val finish_all : wid list -> sys -> sys **)

let finish_all l s =
  fold_left (fun s0 w -> send_finish w s0) l s

(** val status_of : msg -> wstat **)

let status_of = function
| MWork j -> Work j
| MFinish -> Finish
| MPend -> Pending

(** val do_recv : wid -> msg -> msg list -> sys -> sys **)

let do_recv w m l s =
  { jobstack = s.jobstack; wstack = s.wstack; outst = s.outst; wfin = s.wfin;
    dmap = s.dmap; alljobs = s.alljobs; wst = (upd s.wst w (status_of m));
    chan = (upd s.chan w l); pend_older = (upd s.pend_older w true); exited =
    s.exited; log = s.log; err = s.err; round = s.round }

(** val do_run : wid -> job -> sys -> sys **)

let do_run w j s =
  { jobstack = s.jobstack; wstack = s.wstack; outst = s.outst; wfin = s.wfin;
    dmap = s.dmap; alljobs = s.alljobs; wst = (upd s.wst w Pending); chan =
    (upd s.chan w (app (s.chan w) (MPend :: []))); pend_older = s.pend_older;
    exited = s.exited; log = ((j, w) :: s.log); err = s.err; round = s.round }

(** val loop_done : cfg -> sys -> wid -> bool **)

let loop_done c s r =
  if is_worker c r
  then (match s.wst r with
        | Finish -> true
        | _ -> false)
  else forallb s.wfin (pool c)

(** val do_exit : wid -> sys -> sys **)

let do_exit r s =
  { jobstack = s.jobstack; wstack = s.wstack; outst = s.outst; wfin = s.wfin;
    dmap = s.dmap; alljobs = s.alljobs; wst = s.wst; chan = s.chan;
    pend_older = s.pend_older; exited = (upd s.exited r true); log = s.log;
    err = s.err; round = s.round }

(** val fresh : cfg -> job list -> (wid -> msg list) -> bool -> int -> sys **)

let fresh c js ch e rd =
  { jobstack = js; wstack = (pool c); outst = (fun _ -> false); wfin =
    (fun _ -> false); dmap = (fun _ -> None); alljobs = js; wst = (fun _ ->
    Pending); chan = ch; pend_older = (fun _ -> false); exited = (fun _ ->
    false); log = []; err = e; round = rd }

(** val init : cfg -> job list -> sys **)

let init c js =
  fresh c js (fun _ -> []) false 0

(** val restart : cfg -> sys -> job list -> sys **)

let restart c s js =
  fresh c js s.chan ((||) s.err (existsb s.outst (pool c))) (Stdlib.Int.succ
    s.round)

(** val nodupb : int list -> bool **)

let rec nodupb = function
| [] -> true
| x :: l' -> (&&) (negb (existsb ((=) x) l')) (nodupb l')

(** val list_eqb : int list -> int list -> bool **)

let rec list_eqb a b =
  match a with
  | [] -> (match b with
           | [] -> true
           | _ :: _ -> false)
  | x :: a' ->
    (match b with
     | [] -> false
     | y :: b' -> (&&) ((=) x y) (list_eqb a' b'))

(** val pairs_eqb : (int * int) list -> (int * int) list -> bool **)

let rec pairs_eqb a b =
  match a with
  | [] -> (match b with
           | [] -> true
           | _ :: _ -> false)
  | p :: a' ->
    let (x1, x2) = p in
    (match b with
     | [] -> false
     | p0 :: b' ->
       let (y1, y2) = p0 in
       (&&) ((&&) ((=) x1 y1) ((=) x2 y2)) (pairs_eqb a' b'))

(** val msg_eqb : msg -> msg -> bool **)

let msg_eqb a b =
  match a with
  | MWork i -> (match b with
                | MWork j -> (=) i j
                | _ -> false)
  | MFinish -> (match b with
                | MFinish -> true
                | _ -> false)
  | MPend -> (match b with
              | MPend -> true
              | _ -> false)

(** val step : cfg -> sys -> event -> sys option **)

let step c s = function
| EOrder l ->
  if s.exited 0
  then None
  else (match l with
        | [] -> None
        | _ :: _ ->
          if pairs_eqb l (order_pairs s) then Some (do_order s) else None)
| ECheck (seen, fins) ->
  if s.exited 0
  then None
  else (match seen with
        | [] ->
          (match fins with
           | [] -> None
           | _ :: _ ->
             (match check_loop (pool c) seen s with
              | Some s1 ->
                if list_eqb fins (finish_targets c s1)
                then Some (finish_all fins s1)
                else None
              | None -> None))
        | _ :: _ ->
          (match check_loop (pool c) seen s with
           | Some s1 ->
             if list_eqb fins (finish_targets c s1)
             then Some (finish_all fins s1)
             else None
           | None -> None))
| ERecv (w, m) ->
  if (&&) (is_worker c w) (negb (s.exited w))
  then (match s.wst w with
        | Pending ->
          (match wild_match s w with
           | Some p ->
             let (m', l) = p in
             if msg_eqb m m' then Some (do_recv w m l s) else None
           | None -> None)
        | _ -> None)
  else None
| ERun (w, j) ->
  if (&&) (is_worker c w) (negb (s.exited w))
  then (match s.wst w with
        | Work j' -> if (=) j j' then Some (do_run w j s) else None
        | _ -> None)
  else None
| EExit r ->
  if (&&) ((&&) (Nat.ltb r c.np) (negb (s.exited r))) (loop_done c s r)
  then Some (do_exit r s)
  else None
| EIdle r ->
  if (&&) (Nat.ltb r c.np) (negb (s.exited r)) then Some s else None
| ENewRound js ->
  if (&&) (forallb s.exited (ranks c)) (nodupb js)
  then Some (restart c s js)
  else None

(** val enabled : cfg -> sys -> event -> bool **)

let enabled c s e =
  match step c s e with
  | Some _ -> true
  | None -> false

(** val run : cfg -> sys -> event list -> sys option **)

let rec run c s = function
| [] -> Some s
| e :: t' -> (match step c s e with
              | Some s' -> run c s' t'
              | None -> None)

(** val finalb : cfg -> sys -> bool **)

let finalb c s =
  forallb s.exited (ranks c)

(** val cnt : int -> int list -> int **)

let rec cnt j = function
| [] -> 0
| x :: l' -> add (if (=) x j then Stdlib.Int.succ 0 else 0) (cnt j l')

(** val opt_is : int option -> int -> bool **)

let opt_is o w =
  match o with
  | Some x -> (=) x w
  | None -> false

(** val final_okb : cfg -> sys -> bool **)

let final_okb c s =
  (&&)
    ((&&)
      ((&&)
        ((&&)
          ((&&)
            ((&&)
              ((&&)
                ((&&)
                  ((&&) (finalb c s)
                    (forallb (fun w ->
                      match s.chan w with
                      | [] -> true
                      | _ :: _ -> false) (ranks c)))
                  (negb (existsb s.outst (pool c)))) (negb s.err))
              (match s.jobstack with
               | [] -> true
               | _ :: _ -> false))
            (forallb (fun j ->
              (=) (cnt j (map fst s.log)) (Stdlib.Int.succ 0)) s.alljobs))
          ((=) (length s.log) (length s.alljobs)))
        (forallb (fun jw -> opt_is (s.dmap (fst jw)) (snd jw)) s.log))
      (forallb (fun w -> match s.wst w with
                         | Finish -> true
                         | _ -> false) (pool c))) (forallb s.wfin (pool c))

(** val sublists : 'a1 list -> 'a1 list list **)

let rec sublists = function
| [] -> [] :: []
| x :: l' -> let r = sublists l' in app (map (fun x0 -> x :: x0) r) r

(** val reportable : sys -> wid -> bool **)

let reportable s w =
  (&&) (s.outst w) (match pend_match s w with
                    | Some _ -> true
                    | None -> false)

(** val candidates : cfg -> sys -> event list **)

let candidates c s =
  let ord =
    match order_pairs s with
    | [] -> []
    | p :: l0 -> (EOrder (p :: l0)) :: []
  in
  let chk =
    flat_map (fun seen ->
      match check_loop (pool c) seen s with
      | Some s1 -> (ECheck (seen, (finish_targets c s1))) :: []
      | None -> []) (sublists (filter (reportable s) (pool c)))
  in
  let wk =
    flat_map (fun w ->
      app
        (match wild_match s w with
         | Some p -> let (m, _) = p in (ERecv (w, m)) :: []
         | None -> [])
        (match s.wst w with
         | Pending -> []
         | Work j -> (ERun (w, j)) :: []
         | Finish -> [])) (pool c)
  in
  let ex = map (fun x -> EExit x) (ranks c) in
  filter (enabled c s) (app ord (app chk (app wk ex)))

(** val sumf : (int -> int) -> int list -> int **)

let rec sumf f = function
| [] -> 0
| x :: l' -> add (f x) (sumf f l')

(** val b2n : bool -> int **)

let b2n = function
| true -> Stdlib.Int.succ 0
| false -> 0

(** val msg_w : msg -> int **)

let msg_w = function
| MWork _ -> Stdlib.Int.succ (Stdlib.Int.succ (Stdlib.Int.succ 0))
| MFinish -> Stdlib.Int.succ (Stdlib.Int.succ 0)
| MPend -> Stdlib.Int.succ 0

(** val chan_w : msg list -> int **)

let rec chan_w = function
| [] -> 0
| m :: l' -> add (msg_w m) (chan_w l')

(** val st_w : wstat -> int **)

let st_w = function
| Work _ -> Stdlib.Int.succ (Stdlib.Int.succ 0)
| _ -> 0

(** val link_mu : sys -> wid -> int **)

let link_mu s w =
  add (add (chan_w (s.chan w)) (st_w (s.wst w)))
    (if s.wfin w
     then 0
     else Stdlib.Int.succ (Stdlib.Int.succ (Stdlib.Int.succ 0)))

(** val mu : cfg -> sys -> int **)

let mu c s =
  add
    (add
      (mul (Stdlib.Int.succ (Stdlib.Int.succ (Stdlib.Int.succ
        (Stdlib.Int.succ 0)))) (length s.jobstack))
      (sumf (link_mu s) (pool c)))
    (sumf (fun r -> b2n (negb (s.exited r))) (ranks c))
