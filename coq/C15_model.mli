
type nat =
| O
| S of nat

val fst : ('a1 * 'a2) -> 'a1

val snd : ('a1 * 'a2) -> 'a2

type comparison =
| Eq
| Lt
| Gt

val compOpp : comparison -> comparison

val add : nat -> nat -> nat

type positive =
| XI of positive
| XO of positive
| XH

type z =
| Z0
| Zpos of positive
| Zneg of positive

module Pos :
 sig
  val succ : positive -> positive

  val add : positive -> positive -> positive

  val add_carry : positive -> positive -> positive

  val pred_double : positive -> positive

  val mul : positive -> positive -> positive

  val compare_cont : comparison -> positive -> positive -> comparison

  val compare : positive -> positive -> comparison

  val eqb : positive -> positive -> bool

  val iter_op : ('a1 -> 'a1 -> 'a1) -> positive -> 'a1 -> 'a1

  val to_nat : positive -> nat

  val of_succ_nat : nat -> positive
 end

module Z :
 sig
  val double : z -> z

  val succ_double : z -> z

  val pred_double : z -> z

  val pos_sub : positive -> positive -> z

  val add : z -> z -> z

  val opp : z -> z

  val sub : z -> z -> z

  val mul : z -> z -> z

  val compare : z -> z -> comparison

  val leb : z -> z -> bool

  val ltb : z -> z -> bool

  val geb : z -> z -> bool

  val eqb : z -> z -> bool

  val min : z -> z -> z

  val abs : z -> z

  val to_nat : z -> nat

  val of_nat : nat -> z
 end

val last : 'a1 list -> 'a1 -> 'a1

val map : ('a1 -> 'a2) -> 'a1 list -> 'a2 list

val fold_left : ('a1 -> 'a2 -> 'a1) -> 'a2 list -> 'a1 -> 'a1

val forallb : ('a1 -> bool) -> 'a1 list -> bool

val seq : nat -> nat -> nat list

val mul0 : Float64.t -> Float64.t -> Float64.t

val add0 : Float64.t -> Float64.t -> Float64.t

val sub0 : Float64.t -> Float64.t -> Float64.t

type 'a outcome =
| Done of 'a
| OOB
| Uninit
| Throws of nat
| OutOfFuel

val bind : 'a1 outcome -> ('a1 -> 'a2 outcome) -> 'a2 outcome

val inb : z -> z -> bool

val loop_up :
  nat -> z -> (z -> bool) -> (z -> 'a1 -> 'a1 outcome) -> 'a1 -> 'a1 outcome

val fill_is_empty : z -> bool

val fill_nvalues : z -> z

val fill_noffsets : z -> z

val fill_V_first : z -> z

val fill_V_cond : z -> z -> bool

val fill_bosonic : z -> z -> z

val fill_size : z -> z -> z -> z

val fill_offset : z -> z -> z -> z

val fill_nu_first : z -> z -> z -> z -> z

val fill_nu_cond : z -> z -> z -> z -> z -> bool

val fill_nup_first : z -> z -> z -> z -> z

val fill_nup_cond : z -> z -> z -> z -> z -> bool

val fill_n1 : (z -> z) -> z -> z -> z -> z -> z -> z -> z

val fill_n2 : (z -> z) -> z -> z -> z -> z -> z -> z -> z -> z

val fill_n3 : (z -> z) -> z -> z -> z -> z -> z -> z -> z -> z -> z

val fill_off_reads : z -> z -> z -> z -> z -> z -> z list

val fill_cell : z -> z -> z * z

val fill_src_args : z -> z -> z -> (z * z) * z

val lookup_V : z -> z -> z -> z -> z

val lookup_outer : z -> z -> bool

val lookup_nu : (z -> z) -> z -> z -> z -> z -> z -> z

val lookup_nup : (z -> z) -> z -> z -> z -> z -> z -> z

val lookup_off_reads : z -> z -> z -> z -> z -> z list

val lookup_inner : z -> z -> z -> z -> bool

val lookup_cell : z -> z -> z * z

val lookup_src_args : z -> z -> z -> (z * z) * z

val vertex_value :
  ('a1 -> 'a1 -> 'a1) -> ('a1 -> 'a1 -> 'a1) -> ('a1 -> 'a1 -> 'a1) -> 'a1 ->
  (z -> z -> z -> 'a1) -> (z -> 'a1) -> (z -> 'a1) -> (z -> 'a1) -> (z ->
  'a1) -> z -> z -> z -> 'a1

type 't storage = { nvals : z; noffs : z; dims : (z -> z * z);
                    offs : (z -> z); cells : (z -> z -> z -> 't option) }

val empty_storage : z -> z -> 'a1 storage

val set_dims : 'a1 storage -> z -> z -> z -> 'a1 storage outcome

val set_off : 'a1 storage -> z -> z -> 'a1 storage outcome

val set_cell : 'a1 storage -> z -> z -> z -> 'a1 -> 'a1 storage outcome

val fuelN : z -> nat

val fill_body :
  (((z * z) * z) -> 'a1) -> z -> z -> 'a1 storage -> 'a1 storage outcome

val resize_storage : 'a1 storage -> z -> z -> 'a1 storage

val fill_from :
  (((z * z) * z) -> 'a1) -> 'a1 storage -> z -> 'a1 storage outcome

val fill : (((z * z) * z) -> 'a1) -> z -> 'a1 storage outcome

val refill : (((z * z) * z) -> 'a1) -> z list -> 'a1 storage outcome

val lookup :
  (((z * z) * z) -> 'a1) -> 'a1 storage -> z -> z -> z -> z -> 'a1 outcome

val fill_then_lookup :
  (((z * z) * z) -> 'a1) -> z -> z -> z -> z -> 'a1 outcome

val probe : z -> z -> z -> z -> ((z * z) * z) outcome

val probe_seq : z list -> z -> z -> z -> ((z * z) * z) outcome

val window_cells : z -> z

type cplx = Float64.t * Float64.t

val cadd : cplx -> cplx -> cplx

val csub : cplx -> cplx -> cplx

val cmul : cplx -> cplx -> cplx

val vertex_value_f :
  cplx -> cplx -> cplx -> cplx -> cplx -> cplx -> z -> z -> z -> cplx
