
(** val negb : bool -> bool **)

let negb = function
| true -> false
| false -> true

(** val fst : ('a1 * 'a2) -> 'a1 **)

let fst = function
| (x, _) -> x

(** val snd : ('a1 * 'a2) -> 'a2 **)

let snd = function
| (_, y) -> y

(** val length : 'a1 list -> int **)

let rec length = function
| [] -> 0
| _ :: l' -> Stdlib.Int.succ (length l')

(** val app : 'a1 list -> 'a1 list -> 'a1 list **)

let rec app l m =
  match l with
  | [] -> m
  | a :: l1 -> a :: (app l1 m)

type comparison =
| Eq
| Lt
| Gt

(** val compOpp : comparison -> comparison **)

let compOpp = function
| Eq -> Eq
| Lt -> Gt
| Gt -> Lt

module Coq__1 = struct
 (** val add : int -> int -> int **)let rec add = (+)
end
include Coq__1

type positive =
| XI of positive
| XO of positive
| XH

type z =
| Z0
| Zpos of positive
| Zneg of positive

(** val eqb : bool -> bool -> bool **)

let eqb b1 b2 =
  if b1 then b2 else if b2 then false else true

module Nat =
 struct
  (** val ltb : int -> int -> bool **)

  let ltb n m =
    (<=) (Stdlib.Int.succ n) m
 end

module Pos =
 struct
  (** val succ : positive -> positive **)

  let rec succ = function
  | XI p -> XO (succ p)
  | XO p -> XI p
  | XH -> XO XH

  (** val add : positive -> positive -> positive **)

  let rec add x y =
    match x with
    | XI p ->
      (match y with
       | XI q0 -> XO (add_carry p q0)
       | XO q0 -> XI (add p q0)
       | XH -> XO (succ p))
    | XO p ->
      (match y with
       | XI q0 -> XI (add p q0)
       | XO q0 -> XO (add p q0)
       | XH -> XI p)
    | XH -> (match y with
             | XI q0 -> XO (succ q0)
             | XO q0 -> XI q0
             | XH -> XO XH)

  (** val add_carry : positive -> positive -> positive **)

  and add_carry x y =
    match x with
    | XI p ->
      (match y with
       | XI q0 -> XI (add_carry p q0)
       | XO q0 -> XO (add_carry p q0)
       | XH -> XI (succ p))
    | XO p ->
      (match y with
       | XI q0 -> XO (add_carry p q0)
       | XO q0 -> XI (add p q0)
       | XH -> XO (succ p))
    | XH ->
      (match y with
       | XI q0 -> XI (succ q0)
       | XO q0 -> XO (succ q0)
       | XH -> XI XH)

  (** val pred_double : positive -> positive **)

  let rec pred_double = function
  | XI p -> XI (XO p)
  | XO p -> XI (pred_double p)
  | XH -> XH

  (** val compare_cont : comparison -> positive -> positive -> comparison **)

  let rec compare_cont r x y =
    match x with
    | XI p ->
      (match y with
       | XI q0 -> compare_cont r p q0
       | XO q0 -> compare_cont Gt p q0
       | XH -> Gt)
    | XO p ->
      (match y with
       | XI q0 -> compare_cont Lt p q0
       | XO q0 -> compare_cont r p q0
       | XH -> Gt)
    | XH -> (match y with
             | XH -> r
             | _ -> Lt)

  (** val compare : positive -> positive -> comparison **)

  let compare =
    compare_cont Eq

  (** val eqb : positive -> positive -> bool **)

  let rec eqb p q0 =
    match p with
    | XI p0 -> (match q0 with
                | XI q1 -> eqb p0 q1
                | _ -> false)
    | XO p0 -> (match q0 with
                | XO q1 -> eqb p0 q1
                | _ -> false)
    | XH -> (match q0 with
             | XH -> true
             | _ -> false)

  (** val iter_op : ('a1 -> 'a1 -> 'a1) -> positive -> 'a1 -> 'a1 **)

  let rec iter_op op p a =
    match p with
    | XI p0 -> op a (iter_op op p0 (op a a))
    | XO p0 -> iter_op op p0 (op a a)
    | XH -> a

  (** val to_nat : positive -> int **)

  let to_nat x =
    iter_op Coq__1.add x (Stdlib.Int.succ 0)

  (** val of_succ_nat : int -> positive **)

  let rec of_succ_nat n =
    (fun fO fS n -> if n=0 then fO () else fS (n-1))
      (fun _ -> XH)
      (fun x -> succ (of_succ_nat x))
      n
 end

module Z =
 struct
  (** val double : z -> z **)

  let double = function
  | Z0 -> Z0
  | Zpos p -> Zpos (XO p)
  | Zneg p -> Zneg (XO p)

  (** val succ_double : z -> z **)

  let succ_double = function
  | Z0 -> Zpos XH
  | Zpos p -> Zpos (XI p)
  | Zneg p -> Zneg (Pos.pred_double p)

  (** val pred_double : z -> z **)

  let pred_double = function
  | Z0 -> Zneg XH
  | Zpos p -> Zpos (Pos.pred_double p)
  | Zneg p -> Zneg (XI p)

  (** val pos_sub : positive -> positive -> z **)

  let rec pos_sub x y =
    match x with
    | XI p ->
      (match y with
       | XI q0 -> double (pos_sub p q0)
       | XO q0 -> succ_double (pos_sub p q0)
       | XH -> Zpos (XO p))
    | XO p ->
      (match y with
       | XI q0 -> pred_double (pos_sub p q0)
       | XO q0 -> double (pos_sub p q0)
       | XH -> Zpos (Pos.pred_double p))
    | XH ->
      (match y with
       | XI q0 -> Zneg (XO q0)
       | XO q0 -> Zneg (Pos.pred_double q0)
       | XH -> Z0)

  (** val add : z -> z -> z **)

  let add x y =
    match x with
    | Z0 -> y
    | Zpos x' ->
      (match y with
       | Z0 -> x
       | Zpos y' -> Zpos (Pos.add x' y')
       | Zneg y' -> pos_sub x' y')
    | Zneg x' ->
      (match y with
       | Z0 -> x
       | Zpos y' -> pos_sub y' x'
       | Zneg y' -> Zneg (Pos.add x' y'))

  (** val compare : z -> z -> comparison **)

  let compare x y =
    match x with
    | Z0 -> (match y with
             | Z0 -> Eq
             | Zpos _ -> Lt
             | Zneg _ -> Gt)
    | Zpos x' -> (match y with
                  | Zpos y' -> Pos.compare x' y'
                  | _ -> Gt)
    | Zneg x' ->
      (match y with
       | Zneg y' -> compOpp (Pos.compare x' y')
       | _ -> Lt)

  (** val leb : z -> z -> bool **)

  let leb x y =
    match compare x y with
    | Gt -> false
    | _ -> true

  (** val ltb : z -> z -> bool **)

  let ltb x y =
    match compare x y with
    | Lt -> true
    | _ -> false

  (** val eqb : z -> z -> bool **)

  let eqb x y =
    match x with
    | Z0 -> (match y with
             | Z0 -> true
             | _ -> false)
    | Zpos p -> (match y with
                 | Zpos q0 -> Pos.eqb p q0
                 | _ -> false)
    | Zneg p -> (match y with
                 | Zneg q0 -> Pos.eqb p q0
                 | _ -> false)

  (** val to_nat : z -> int **)

  let to_nat = function
  | Zpos p -> Pos.to_nat p
  | _ -> 0

  (** val of_nat : int -> z **)

  let of_nat n =
    (fun fO fS n -> if n=0 then fO () else fS (n-1))
      (fun _ -> Z0)
      (fun n2 -> Zpos (Pos.of_succ_nat n2))
      n
 end

(** val tl : 'a1 list -> 'a1 list **)

let tl = function
| [] -> []
| _ :: m -> m

(** val nth : int -> 'a1 list -> 'a1 -> 'a1 **)

let rec nth n l default =
  (fun fO fS n -> if n=0 then fO () else fS (n-1))
    (fun _ -> match l with
              | [] -> default
              | x :: _ -> x)
    (fun m -> match l with
              | [] -> default
              | _ :: t -> nth m t default)
    n

(** val nth_error : 'a1 list -> int -> 'a1 option **)

let rec nth_error l n =
  (fun fO fS n -> if n=0 then fO () else fS (n-1))
    (fun _ -> match l with
              | [] -> None
              | x :: _ -> Some x)
    (fun n2 -> match l with
               | [] -> None
               | _ :: l0 -> nth_error l0 n2)
    n

(** val rev : 'a1 list -> 'a1 list **)

let rec rev = function
| [] -> []
| x :: l' -> app (rev l') (x :: [])

(** val concat : 'a1 list list -> 'a1 list **)

let rec concat = function
| [] -> []
| x :: l0 -> app x (concat l0)

(** val map : ('a1 -> 'a2) -> 'a1 list -> 'a2 list **)

let rec map f = function
| [] -> []
| a :: t -> (f a) :: (map f t)

(** val flat_map : ('a1 -> 'a2 list) -> 'a1 list -> 'a2 list **)

let rec flat_map f = function
| [] -> []
| x :: t -> app (f x) (flat_map f t)

(** val fold_left : ('a1 -> 'a2 -> 'a1) -> 'a2 list -> 'a1 -> 'a1 **)

let rec fold_left f l a0 =
  match l with
  | [] -> a0
  | b :: t -> fold_left f t (f a0 b)

(** val fold_right : ('a2 -> 'a1 -> 'a1) -> 'a1 -> 'a2 list -> 'a1 **)

let rec fold_right f a0 = function
| [] -> a0
| b :: t -> f b (fold_right f a0 t)

(** val existsb : ('a1 -> bool) -> 'a1 list -> bool **)

let rec existsb f = function
| [] -> false
| a :: l0 -> (||) (f a) (existsb f l0)

(** val forallb : ('a1 -> bool) -> 'a1 list -> bool **)

let rec forallb f = function
| [] -> true
| a :: l0 -> (&&) (f a) (forallb f l0)

(** val filter : ('a1 -> bool) -> 'a1 list -> 'a1 list **)

let rec filter f = function
| [] -> []
| x :: l0 -> if f x then x :: (filter f l0) else filter f l0

(** val find : ('a1 -> bool) -> 'a1 list -> 'a1 option **)

let rec find f = function
| [] -> None
| x :: tl0 -> if f x then Some x else find f tl0

(** val seq : int -> int -> int list **)

let rec seq start len =
  (fun fO fS n -> if n=0 then fO () else fS (n-1))
    (fun _ -> [])
    (fun len0 -> start :: (seq (Stdlib.Int.succ start) len0))
    len

(** val repeat : 'a1 -> int -> 'a1 list **)

let rec repeat x n =
  (fun fO fS n -> if n=0 then fO () else fS (n-1))
    (fun _ -> [])
    (fun k -> x :: (repeat x k))
    n

type q = { qnum : z; qden : positive }

(** val sqrt : Float64.t -> Float64.t **)

let sqrt = Float64.sqrt

(** val opp : Float64.t -> Float64.t **)

let opp = Float64.opp

(** val ltb0 : Float64.t -> Float64.t -> bool **)

let ltb0 = Float64.lt

(** val mul : Float64.t -> Float64.t -> Float64.t **)

let mul = Float64.mul

(** val add0 : Float64.t -> Float64.t -> Float64.t **)

let add0 = Float64.add

(** val sub : Float64.t -> Float64.t -> Float64.t **)

let sub = Float64.sub

(** val div : Float64.t -> Float64.t -> Float64.t **)

let div = Float64.div

type 'a outcome =
| Done of 'a
| OOB
| Uninit
| Throws of int
| OutOfFuel

(** val bind : 'a1 outcome -> ('a1 -> 'a2 outcome) -> 'a2 outcome **)

let bind x f =
  match x with
  | Done a -> f a
  | OOB -> OOB
  | Uninit -> Uninit
  | Throws c -> Throws c
  | OutOfFuel -> OutOfFuel

type 'k numops = { n0 : 'k; n1 : 'k; nadd : ('k -> 'k -> 'k);
                   nsub : ('k -> 'k -> 'k); nmul : ('k -> 'k -> 'k);
                   ndiv : ('k -> 'k -> 'k); nopp : ('k -> 'k);
                   nconj : ('k -> 'k); nexp : ('k -> 'k);
                   nre_ltb : ('k -> 'k -> bool); nabs : ('k -> 'k);
                   nofZ : (z -> 'k); nI : 'k }

(** val phi :
    'a1 numops -> 'a1 -> 'a1 -> 'a1 -> 'a1 -> 'a1 -> 'a1 -> 'a1 -> 'a1 -> 'a1
    -> 'a1 -> 'a1 -> 'a1 -> 'a1 -> 'a1 **)

let phi nO beta tol ei ej ek el wi wj wk wl z1 z2 z3 =
  let d1 = nO.nsub (nO.nadd z1 ei) ej in
  let d3 = nO.nsub (nO.nadd z3 ek) el in
  let t1 =
    nO.ndiv (nO.nadd wi wl)
      (nO.nmul
        (nO.nmul d1 (nO.nsub (nO.nadd (nO.nadd (nO.nadd z1 z2) z3) ei) el))
        d3)
  in
  let t2 =
    nO.ndiv (nO.nadd wj wk)
      (nO.nmul (nO.nmul d1 (nO.nsub (nO.nadd z2 ej) ek)) d3)
  in
  let r12 =
    if (&&) (nO.nre_ltb (nO.nabs (nO.nadd z1 z2)) tol)
         (nO.nre_ltb (nO.nabs (nO.nsub ei ek)) tol)
    then nO.nmul beta wi
    else nO.ndiv (nO.nsub wk wi) (nO.nsub (nO.nadd (nO.nadd z1 z2) ei) ek)
  in
  let r23 =
    if (&&) (nO.nre_ltb (nO.nabs (nO.nadd z2 z3)) tol)
         (nO.nre_ltb (nO.nabs (nO.nsub ej el)) tol)
    then nO.nmul beta wj
    else nO.ndiv (nO.nsub wl wj) (nO.nsub (nO.nadd (nO.nadd z2 z3) ej) el)
  in
  nO.nsub (nO.nadd (nO.nsub t1 t2) (nO.ndiv r12 (nO.nmul d1 d3)))
    (nO.ndiv r23 (nO.nmul d1 d3))

type fc = Float64.t * Float64.t

(** val fadd : fc -> fc -> fc **)

let fadd a b =
  ((add0 (fst a) (fst b)), (add0 (snd a) (snd b)))

(** val fsub : fc -> fc -> fc **)

let fsub a b =
  ((sub (fst a) (fst b)), (sub (snd a) (snd b)))

(** val fmul : fc -> fc -> fc **)

let fmul a b =
  ((sub (mul (fst a) (fst b)) (mul (snd a) (snd b))),
    (add0 (mul (fst a) (snd b)) (mul (snd a) (fst b))))

(** val fdiv : fc -> fc -> fc **)

let fdiv a b =
  let d = add0 (mul (fst b) (fst b)) (mul (snd b) (snd b)) in
  ((div (add0 (mul (fst a) (fst b)) (mul (snd a) (snd b))) d),
  (div (sub (mul (snd a) (fst b)) (mul (fst a) (snd b))) d))

(** val fopp : fc -> fc **)

let fopp a =
  ((opp (fst a)), (opp (snd a)))

(** val fconj : fc -> fc **)

let fconj a =
  ((fst a), (opp (snd a)))

(** val fabs : fc -> fc **)

let fabs a =
  ((sqrt (add0 (mul (fst a) (fst a)) (mul (snd a) (snd a)))),
    (Float64.of_float (0x0p+0)))

(** val pos_to_float : positive -> Float64.t **)

let rec pos_to_float = function
| XI q0 ->
  add0 (mul (Float64.of_float (0x1p+1)) (pos_to_float q0))
    (Float64.of_float (0x1p+0))
| XO q0 -> mul (Float64.of_float (0x1p+1)) (pos_to_float q0)
| XH -> (Float64.of_float (0x1p+0))

(** val fofZ : z -> fc **)

let fofZ z0 =
  ((match z0 with
    | Z0 -> (Float64.of_float (0x0p+0))
    | Zpos p -> pos_to_float p
    | Zneg p -> opp (pos_to_float p)), (Float64.of_float (0x0p+0)))

(** val fops : (Float64.t -> Float64.t) -> fc numops **)

let fops fexp =
  { n0 = ((Float64.of_float (0x0p+0)), (Float64.of_float (0x0p+0))); n1 =
    ((Float64.of_float (0x1p+0)), (Float64.of_float (0x0p+0))); nadd = fadd;
    nsub = fsub; nmul = fmul; ndiv = fdiv; nopp = fopp; nconj = fconj; nexp =
    (fun a -> ((fexp (fst a)), (Float64.of_float (0x0p+0)))); nre_ltb =
    (fun a b -> ltb0 (fst a) (fst b)); nabs = fabs; nofZ = fofZ; nI =
    ((Float64.of_float (0x0p+0)), (Float64.of_float (0x1p+0))) }

(** val part_nonres_compare_tol : q **)

let part_nonres_compare_tol =
  { qnum = (Zpos XH); qden = (XO (XO (XO (XO (XO (XO (XO (XO (XI (XO (XO (XO
    (XO (XI (XI (XI (XI (XO (XI (XO (XI (XI (XI (XI (XI (XO
    XH)))))))))))))))))))))))))) }

(** val part_nonres_negligible_tol : q **)

let part_nonres_negligible_tol =
  { qnum = (Zpos XH); qden = (XO (XO (XO (XO (XO (XO (XO (XO (XO (XO (XO (XO
    (XO (XO (XO (XO (XI (XO (XO (XO (XO (XO (XI (XI (XI (XI (XI (XI (XO (XI
    (XI (XO (XO (XI (XO (XO (XI (XI (XI (XI (XO (XI (XI (XO (XO (XO (XO (XI
    (XI (XI (XO (XO (XO
    XH))))))))))))))))))))))))))))))))))))))))))))))))))))) }

(** val part_res_compare_tol : q **)

let part_res_compare_tol =
  { qnum = (Zpos XH); qden = (XO (XO (XO (XO (XO (XO (XO (XO (XI (XO (XO (XO
    (XO (XI (XI (XI (XI (XO (XI (XO (XI (XI (XI (XI (XI (XO
    XH)))))))))))))))))))))))))) }

(** val part_res_negligible_tol : q **)

let part_res_negligible_tol =
  { qnum = (Zpos XH); qden = (XO (XO (XO (XO (XO (XO (XO (XO (XO (XO (XO (XO
    (XO (XO (XO (XO (XI (XO (XO (XO (XO (XO (XI (XI (XI (XI (XI (XI (XO (XI
    (XI (XO (XO (XI (XO (XO (XI (XI (XI (XI (XO (XI (XI (XO (XO (XO (XO (XI
    (XI (XI (XO (XO (XO
    XH))))))))))))))))))))))))))))))))))))))))))))))))))))) }

(** val part_ReduceResonanceTolerance : q **)

let part_ReduceResonanceTolerance =
  { qnum = (Zpos XH); qden = (XO (XO (XO (XO (XO (XO (XO (XO (XI (XO (XO (XO
    (XO (XI (XI (XI (XI (XO (XI (XO (XI (XI (XI (XI (XI (XO
    XH)))))))))))))))))))))))))) }

(** val part_CoefficientTolerance : q **)

let part_CoefficientTolerance =
  { qnum = (Zpos XH); qden = (XO (XO (XO (XO (XO (XO (XO (XO (XO (XO (XO (XO
    (XO (XO (XO (XO (XI (XO (XO (XO (XO (XO (XI (XI (XI (XI (XI (XI (XO (XI
    (XI (XO (XO (XI (XO (XO (XI (XI (XI (XI (XO (XI (XI (XO (XO (XO (XO (XI
    (XI (XI (XO (XO (XO
    XH))))))))))))))))))))))))))))))))))))))))))))))))))))) }

(** val gf_ReduceResonanceTolerance : q **)

let gf_ReduceResonanceTolerance =
  { qnum = (Zpos XH); qden = (XO (XO (XO (XO (XO (XO (XO (XO (XI (XO (XO (XO
    (XO (XI (XI (XI (XI (XO (XI (XO (XI (XI (XI (XI (XI (XO
    XH)))))))))))))))))))))))))) }

(** val gf_CoefficientTolerance : q **)

let gf_CoefficientTolerance =
  { qnum = (Zpos XH); qden = (XO (XO (XO (XO (XO (XO (XO (XO (XO (XO (XO (XO
    (XO (XO (XO (XO (XI (XO (XO (XO (XO (XO (XI (XI (XI (XI (XI (XI (XO (XI
    (XI (XO (XO (XI (XO (XO (XI (XI (XI (XI (XO (XI (XI (XO (XO (XO (XO (XI
    (XI (XI (XO (XO (XO
    XH))))))))))))))))))))))))))))))))))))))))))))))))))))) }

(** val prepare_copies_tolerances : bool **)

let prepare_copies_tolerances =
  true

(** val compute_sizes_table_before_vanishing_test : bool **)

let compute_sizes_table_before_vanishing_test =
  true

(** val compute_guards_empty_reduce : bool **)

let compute_guards_empty_reduce =
  true

(** val add_term_retries : bool **)

let add_term_retries =
  true

(** val permutations3 : (((int * int) * int) * z) list **)

let permutations3 =
  (((0, (Stdlib.Int.succ 0)), (Stdlib.Int.succ (Stdlib.Int.succ 0))), (Zpos
    XH)) :: ((((0, (Stdlib.Int.succ (Stdlib.Int.succ 0))), (Stdlib.Int.succ
    0)), (Zneg XH)) :: (((((Stdlib.Int.succ 0), 0), (Stdlib.Int.succ
    (Stdlib.Int.succ 0))), (Zneg XH)) :: (((((Stdlib.Int.succ 0),
    (Stdlib.Int.succ (Stdlib.Int.succ 0))), 0), (Zpos
    XH)) :: (((((Stdlib.Int.succ (Stdlib.Int.succ 0)), 0), (Stdlib.Int.succ
    0)), (Zpos XH)) :: (((((Stdlib.Int.succ (Stdlib.Int.succ 0)),
    (Stdlib.Int.succ 0)), 0), (Zneg XH)) :: [])))))

type 'k emission =
| EmitNonRes of 'k * 'k * 'k * 'k * bool
| EmitRes of 'k * 'k * 'k * 'k * 'k * bool

(** val addMultiterm :
    ('a1 -> 'a1 -> 'a1) -> ('a1 -> 'a1 -> 'a1) -> ('a1 -> 'a1 -> 'a1) -> ('a1
    -> 'a1 -> 'a1) -> ('a1 -> 'a1) -> ('a1 -> 'a1 -> bool) -> ('a1 -> 'a1 ->
    bool) -> ('a1 -> 'a1 -> bool) -> 'a1 -> 'a1 -> 'a1 -> 'a1 -> 'a1 -> 'a1
    -> 'a1 -> 'a1 -> 'a1 -> 'a1 -> 'a1 -> (bool * 'a1 emission) list **)

let addMultiterm kadd ksub kmul _ kopp abs_gt0 _ _ coefficientTolerance coeff0 beta ei ej ek el wi wj wk wl =
  let p1 = ksub ej ei in
  let p2 = ksub ek ej in
  let p3 = ksub el ek in
  let coeffZ2 = kmul (kopp coeff0) (kadd wj wk) in
  let coeffZ4 = kmul coeff0 (kadd wi wl) in
  let coeffZ1Z2Res = kmul (kmul coeff0 beta) wi in
  let coeffZ1Z2NonRes = kmul coeff0 (ksub wk wi) in
  let coeffZ2Z3Res = kmul (kmul (kopp coeff0) beta) wj in
  let coeffZ2Z3NonRes = kmul coeff0 (ksub wj wl) in
  ((abs_gt0 coeffZ2 coefficientTolerance), (EmitNonRes (coeffZ2, p1, p2, p3,
  false))) :: (((abs_gt0 coeffZ4 coefficientTolerance), (EmitNonRes (coeffZ4,
  p1, p2, p3,
  true))) :: ((((||) (abs_gt0 coeffZ1Z2Res coefficientTolerance)
                 (abs_gt0 coeffZ1Z2NonRes coefficientTolerance)), (EmitRes
  (coeffZ1Z2Res, coeffZ1Z2NonRes, p1, p2, p3,
  true))) :: ((((||) (abs_gt0 coeffZ2Z3Res coefficientTolerance)
                 (abs_gt0 coeffZ2Z3NonRes coefficientTolerance)), (EmitRes
  (coeffZ2Z3Res, coeffZ2Z3NonRes, p1, p2, p3, false))) :: [])))

(** val compute_weight_guard :
    ('a1 -> 'a1 -> 'a1) -> ('a1 -> 'a1 -> 'a1) -> ('a1 -> 'a1 -> 'a1) -> ('a1
    -> 'a1 -> 'a1) -> ('a1 -> 'a1) -> ('a1 -> 'a1 -> bool) -> ('a1 -> 'a1 ->
    bool) -> ('a1 -> 'a1 -> bool) -> 'a1 -> 'a1 -> 'a1 -> 'a1 -> 'a1 -> bool **)

let compute_weight_guard kadd _ _ _ _ _ _ real_ge0 coefficientTolerance weight1 weight2 weight3 weight4 =
  real_ge0 (kadd (kadd (kadd weight1 weight2) weight3) weight4)
    coefficientTolerance

(** val compute_matrix_element :
    ('a1 -> 'a1 -> 'a1) -> ('a1 -> 'a1 -> 'a1) -> ('a1 -> 'a1 -> 'a1) -> ('a1
    -> 'a1 -> 'a1) -> ('a1 -> 'a1) -> ('a1 -> 'a1 -> bool) -> ('a1 -> 'a1 ->
    bool) -> ('a1 -> 'a1 -> bool) -> 'a1 -> 'a1 -> 'a1 -> 'a1 -> 'a1 **)

let compute_matrix_element _ _ kmul _ _ _ _ _ v_O3 v_O4 v_O5 v_CX4 =
  kmul (kmul (kmul v_O3 v_O4) v_O5) v_CX4

(** val compute_apply_sign :
    ('a1 -> 'a1 -> 'a1) -> ('a1 -> 'a1 -> 'a1) -> ('a1 -> 'a1 -> 'a1) -> ('a1
    -> 'a1 -> 'a1) -> ('a1 -> 'a1) -> ('a1 -> 'a1 -> bool) -> ('a1 -> 'a1 ->
    bool) -> ('a1 -> 'a1 -> bool) -> 'a1 -> 'a1 -> 'a1 **)

let compute_apply_sign _ _ kmul _ _ _ _ _ =
  kmul

(** val compute_call :
    ('a1 -> 'a1 -> 'a1) -> ('a1 -> 'a1 -> 'a1) -> ('a1 -> 'a1 -> 'a1) -> ('a1
    -> 'a1 -> 'a1) -> ('a1 -> 'a1) -> ('a1 -> 'a1 -> bool) -> ('a1 -> 'a1 ->
    bool) -> ('a1 -> 'a1 -> bool) -> 'a1 -> 'a1 -> 'a1 -> 'a1 -> 'a1 -> 'a1
    -> 'a1 -> 'a1 -> 'a1 -> 'a1 -> 'a1 -> (bool * 'a1 emission) list **)

let compute_call =
  addMultiterm

(** val nonres_eval :
    ('a1 -> 'a1 -> 'a1) -> ('a1 -> 'a1 -> 'a1) -> ('a1 -> 'a1 -> 'a1) -> ('a1
    -> 'a1 -> 'a1) -> ('a1 -> 'a1) -> ('a1 -> 'a1 -> bool) -> ('a1 -> 'a1 ->
    bool) -> ('a1 -> 'a1 -> bool) -> 'a1 -> 'a1 -> 'a1 -> 'a1 -> bool -> 'a1
    -> 'a1 -> 'a1 -> 'a1 **)

let nonres_eval kadd ksub kmul kdiv _ _ _ _ coeff0 p0 p1 p2 isz4 z1 z2 z3 =
  if isz4
  then kdiv coeff0
         (kmul
           (kmul (ksub z1 p0)
             (ksub (ksub (ksub (kadd (kadd z1 z2) z3) p0) p1) p2))
           (ksub z3 p2))
  else kdiv coeff0 (kmul (kmul (ksub z1 p0) (ksub z2 p1)) (ksub z3 p2))

(** val res_diff_z1z2 :
    ('a1 -> 'a1 -> 'a1) -> ('a1 -> 'a1 -> 'a1) -> ('a1 -> 'a1 -> 'a1) -> ('a1
    -> 'a1 -> 'a1) -> ('a1 -> 'a1) -> ('a1 -> 'a1 -> bool) -> ('a1 -> 'a1 ->
    bool) -> ('a1 -> 'a1 -> bool) -> 'a1 -> 'a1 -> 'a1 -> 'a1 -> 'a1 -> 'a1
    -> 'a1 **)

let res_diff_z1z2 kadd ksub _ _ _ _ _ _ p0 p1 _ z1 z2 _ =
  ksub (ksub (kadd z1 z2) p0) p1

(** val res_test_z1z2 :
    ('a1 -> 'a1 -> 'a1) -> ('a1 -> 'a1 -> 'a1) -> ('a1 -> 'a1 -> 'a1) -> ('a1
    -> 'a1 -> 'a1) -> ('a1 -> 'a1) -> ('a1 -> 'a1 -> bool) -> ('a1 -> 'a1 ->
    bool) -> ('a1 -> 'a1 -> bool) -> 'a1 -> 'a1 -> bool **)

let res_test_z1z2 _ _ _ _ _ _ abs_lt0 _ kroneckerSymbolTolerance diff =
  abs_lt0 diff kroneckerSymbolTolerance

(** val res_value_z1z2 :
    ('a1 -> 'a1 -> 'a1) -> ('a1 -> 'a1 -> 'a1) -> ('a1 -> 'a1 -> 'a1) -> ('a1
    -> 'a1 -> 'a1) -> ('a1 -> 'a1) -> ('a1 -> 'a1 -> bool) -> ('a1 -> 'a1 ->
    bool) -> ('a1 -> 'a1 -> bool) -> bool -> 'a1 -> 'a1 -> 'a1 -> 'a1 -> 'a1
    -> 'a1 -> 'a1 -> 'a1 -> 'a1 -> 'a1 **)

let res_value_z1z2 _ ksub kmul kdiv _ _ _ _ resonant resCoeff nonResCoeff p0 _ p2 diff z1 _ z3 =
  kdiv (if resonant then resCoeff else kdiv nonResCoeff diff)
    (kmul (ksub z1 p0) (ksub z3 p2))

(** val res_diff_z2z3 :
    ('a1 -> 'a1 -> 'a1) -> ('a1 -> 'a1 -> 'a1) -> ('a1 -> 'a1 -> 'a1) -> ('a1
    -> 'a1 -> 'a1) -> ('a1 -> 'a1) -> ('a1 -> 'a1 -> bool) -> ('a1 -> 'a1 ->
    bool) -> ('a1 -> 'a1 -> bool) -> 'a1 -> 'a1 -> 'a1 -> 'a1 -> 'a1 -> 'a1
    -> 'a1 **)

let res_diff_z2z3 kadd ksub _ _ _ _ _ _ _ p1 p2 _ z2 z3 =
  ksub (ksub (kadd z2 z3) p1) p2

(** val res_test_z2z3 :
    ('a1 -> 'a1 -> 'a1) -> ('a1 -> 'a1 -> 'a1) -> ('a1 -> 'a1 -> 'a1) -> ('a1
    -> 'a1 -> 'a1) -> ('a1 -> 'a1) -> ('a1 -> 'a1 -> bool) -> ('a1 -> 'a1 ->
    bool) -> ('a1 -> 'a1 -> bool) -> 'a1 -> 'a1 -> bool **)

let res_test_z2z3 _ _ _ _ _ _ abs_lt0 _ kroneckerSymbolTolerance diff =
  abs_lt0 diff kroneckerSymbolTolerance

(** val res_value_z2z3 :
    ('a1 -> 'a1 -> 'a1) -> ('a1 -> 'a1 -> 'a1) -> ('a1 -> 'a1 -> 'a1) -> ('a1
    -> 'a1 -> 'a1) -> ('a1 -> 'a1) -> ('a1 -> 'a1 -> bool) -> ('a1 -> 'a1 ->
    bool) -> ('a1 -> 'a1 -> bool) -> bool -> 'a1 -> 'a1 -> 'a1 -> 'a1 -> 'a1
    -> 'a1 -> 'a1 -> 'a1 -> 'a1 -> 'a1 **)

let res_value_z2z3 _ ksub kmul kdiv _ _ _ _ resonant resCoeff nonResCoeff p0 _ p2 diff z1 _ z3 =
  kdiv (if resonant then resCoeff else kdiv nonResCoeff diff)
    (kmul (ksub z1 p0) (ksub z3 p2))

(** val res_eval_with :
    ('a1 -> 'a1 -> 'a1) -> ('a1 -> 'a1 -> 'a1) -> ('a1 -> 'a1 -> 'a1) -> ('a1
    -> 'a1 -> 'a1) -> ('a1 -> 'a1) -> ('a1 -> 'a1 -> bool) -> ('a1 -> 'a1 ->
    bool) -> ('a1 -> 'a1 -> bool) -> bool -> 'a1 -> 'a1 -> 'a1 -> 'a1 -> 'a1
    -> bool -> 'a1 -> 'a1 -> 'a1 -> 'a1 **)

let res_eval_with kadd ksub kmul kdiv kopp abs_gt0 abs_lt0 real_ge0 resonant resCoeff nonResCoeff p0 p1 p2 isz1z2 z1 z2 z3 =
  if isz1z2
  then res_value_z1z2 kadd ksub kmul kdiv kopp abs_gt0 abs_lt0 real_ge0
         resonant resCoeff nonResCoeff p0 p1 p2
         (res_diff_z1z2 kadd ksub kmul kdiv kopp abs_gt0 abs_lt0 real_ge0 p0
           p1 p2 z1 z2 z3) z1 z2 z3
  else res_value_z2z3 kadd ksub kmul kdiv kopp abs_gt0 abs_lt0 real_ge0
         resonant resCoeff nonResCoeff p0 p1 p2
         (res_diff_z2z3 kadd ksub kmul kdiv kopp abs_gt0 abs_lt0 real_ge0 p0
           p1 p2 z1 z2 z3) z1 z2 z3

(** val res_is_resonant :
    ('a1 -> 'a1 -> 'a1) -> ('a1 -> 'a1 -> 'a1) -> ('a1 -> 'a1 -> 'a1) -> ('a1
    -> 'a1 -> 'a1) -> ('a1 -> 'a1) -> ('a1 -> 'a1 -> bool) -> ('a1 -> 'a1 ->
    bool) -> ('a1 -> 'a1 -> bool) -> 'a1 -> 'a1 -> 'a1 -> 'a1 -> bool -> 'a1
    -> 'a1 -> 'a1 -> bool **)

let res_is_resonant kadd ksub kmul kdiv kopp abs_gt0 abs_lt0 real_ge0 kroneckerSymbolTolerance p0 p1 p2 isz1z2 z1 z2 z3 =
  if isz1z2
  then res_test_z1z2 kadd ksub kmul kdiv kopp abs_gt0 abs_lt0 real_ge0
         kroneckerSymbolTolerance
         (res_diff_z1z2 kadd ksub kmul kdiv kopp abs_gt0 abs_lt0 real_ge0 p0
           p1 p2 z1 z2 z3)
  else res_test_z2z3 kadd ksub kmul kdiv kopp abs_gt0 abs_lt0 real_ge0
         kroneckerSymbolTolerance
         (res_diff_z2z3 kadd ksub kmul kdiv kopp abs_gt0 abs_lt0 real_ge0 p0
           p1 p2 z1 z2 z3)

(** val res_eval :
    ('a1 -> 'a1 -> 'a1) -> ('a1 -> 'a1 -> 'a1) -> ('a1 -> 'a1 -> 'a1) -> ('a1
    -> 'a1 -> 'a1) -> ('a1 -> 'a1) -> ('a1 -> 'a1 -> bool) -> ('a1 -> 'a1 ->
    bool) -> ('a1 -> 'a1 -> bool) -> 'a1 -> 'a1 -> 'a1 -> 'a1 -> 'a1 -> 'a1
    -> bool -> 'a1 -> 'a1 -> 'a1 -> 'a1 **)

let res_eval kadd ksub kmul kdiv kopp abs_gt0 abs_lt0 real_ge0 kroneckerSymbolTolerance resCoeff nonResCoeff p0 p1 p2 isz1z2 z1 z2 z3 =
  res_eval_with kadd ksub kmul kdiv kopp abs_gt0 abs_lt0 real_ge0
    (res_is_resonant kadd ksub kmul kdiv kopp abs_gt0 abs_lt0 real_ge0
      kroneckerSymbolTolerance p0 p1 p2 isz1z2 z1 z2 z3) resCoeff nonResCoeff
    p0 p1 p2 isz1z2 z1 z2 z3

(** val part_frequencies :
    ('a1 -> 'a1 -> 'a1) -> ('a1 -> 'a1 -> 'a1) -> ('a1 -> 'a1 -> 'a1) -> ('a1
    -> 'a1 -> 'a1) -> ('a1 -> 'a1) -> ('a1 -> 'a1 -> bool) -> ('a1 -> 'a1 ->
    bool) -> ('a1 -> 'a1 -> bool) -> 'a1 -> 'a1 -> 'a1 -> 'a1 list **)

let part_frequencies _ _ _ _ kopp _ _ _ z1 z2 z3 =
  z1 :: (z2 :: ((kopp z3) :: []))

(** val part_perm_slots :
    ('a1 -> 'a1 -> 'a1) -> ('a1 -> 'a1 -> 'a1) -> ('a1 -> 'a1 -> 'a1) -> ('a1
    -> 'a1 -> 'a1) -> ('a1 -> 'a1) -> ('a1 -> 'a1 -> bool) -> ('a1 -> 'a1 ->
    bool) -> ('a1 -> 'a1 -> bool) -> int list **)

let part_perm_slots _ _ _ _ _ _ _ _ =
  0 :: ((Stdlib.Int.succ 0) :: ((Stdlib.Int.succ (Stdlib.Int.succ 0)) :: []))

(** val part_value :
    ('a1 -> 'a1 -> 'a1) -> ('a1 -> 'a1 -> 'a1) -> ('a1 -> 'a1 -> 'a1) -> ('a1
    -> 'a1 -> 'a1) -> ('a1 -> 'a1) -> ('a1 -> 'a1 -> bool) -> ('a1 -> 'a1 ->
    bool) -> ('a1 -> 'a1 -> bool) -> ('a1 -> 'a1 -> 'a1 -> 'a1) -> ('a1 ->
    'a1 -> 'a1 -> 'a1 -> 'a1) -> 'a1 -> 'a1 -> 'a1 -> 'a1 -> 'a1 **)

let part_value kadd _ _ _ _ _ _ _ nonResonantTerms resonantTerms reduceResonanceTolerance z1 z2 z3 =
  kadd (nonResonantTerms z1 z2 z3)
    (resonantTerms z1 z2 z3 reduceResonanceTolerance)

(** val split_lower :
    ('a1 -> 'a1 -> bool) -> 'a1 -> 'a1 list -> 'a1 list * 'a1 list **)

let rec split_lower comp t l = match l with
| [] -> ([], [])
| e :: r ->
  if comp e t
  then let (a, b) = split_lower comp t r in ((e :: a), b)
  else ([], l)

(** val split_upper :
    ('a1 -> 'a1 -> bool) -> 'a1 -> 'a1 list -> 'a1 list * 'a1 list **)

let rec split_upper comp t l = match l with
| [] -> ([], [])
| e :: r ->
  if comp t e
  then ([], l)
  else let (a, b) = split_upper comp t r in ((e :: a), b)

(** val set_find : ('a1 -> 'a1 -> bool) -> 'a1 -> 'a1 list -> 'a1 option **)

let set_find comp t l =
  match snd (split_lower comp t l) with
  | [] -> None
  | e :: _ -> if comp t e then None else Some e

type 't ins_res =
| Inserted of 't list
| Blocked of 't list * 't * 't list

(** val set_insert_res :
    ('a1 -> 'a1 -> bool) -> 'a1 -> 'a1 list -> 'a1 ins_res **)

let set_insert_res comp t l =
  let (a, b) = split_upper comp t l in
  (match rev a with
   | [] -> Inserted (t :: b)
   | pred :: ra ->
     if comp pred t
     then Inserted (app a (t :: b))
     else Blocked ((rev ra), pred, b))

(** val set_insert :
    ('a1 -> 'a1 -> bool) -> 'a1 -> 'a1 list -> bool * 'a1 list **)

let set_insert comp t l =
  match set_insert_res comp t l with
  | Inserted l' -> (true, l')
  | Blocked (_, _, _) -> (false, l)

(** val set_erase : ('a1 -> 'a1 -> bool) -> 'a1 -> 'a1 list -> 'a1 list **)

let set_erase comp k l =
  let (a, b) = split_lower comp k l in app a (snd (split_upper comp k b))

(** val add_term_plain :
    ('a1 -> 'a1 -> bool) -> ('a1 -> 'a1 -> 'a1) -> ('a1 -> int -> bool) ->
    'a1 -> 'a1 list -> bool * 'a1 list **)

let add_term_plain comp plus negl t l =
  match set_find comp t l with
  | Some e ->
    let sum = plus e t in
    let l' = set_erase comp e l in
    if negl sum (add (length l') (Stdlib.Int.succ 0))
    then (true, l')
    else set_insert comp sum l'
  | None -> set_insert comp t l

(** val add_term_loop :
    ('a1 -> 'a1 -> bool) -> ('a1 -> 'a1 -> 'a1) -> ('a1 -> int -> bool) ->
    int -> 'a1 -> 'a1 list -> bool * 'a1 list **)

let rec add_term_loop comp plus negl fuel sum l =
  match set_insert_res comp sum l with
  | Inserted l' -> (true, l')
  | Blocked (a, e, b) ->
    let reduced = plus e sum in
    let l' = app a b in
    if negl reduced (add (length l') (Stdlib.Int.succ 0))
    then (true, l')
    else ((fun fO fS n -> if n=0 then fO () else fS (n-1))
            (fun _ -> (false, l'))
            (fun f -> add_term_loop comp plus negl f reduced l')
            fuel)

(** val add_term_gen :
    ('a1 -> 'a1 -> bool) -> ('a1 -> 'a1 -> 'a1) -> ('a1 -> int -> bool) ->
    bool -> 'a1 -> 'a1 list -> bool * 'a1 list **)

let add_term_gen comp plus negl retry t l =
  if retry
  then add_term_loop comp plus negl (length l) t l
  else add_term_plain comp plus negl t l

(** val add_term :
    ('a1 -> 'a1 -> bool) -> ('a1 -> 'a1 -> 'a1) -> ('a1 -> int -> bool) ->
    'a1 -> 'a1 list -> bool * 'a1 list **)

let add_term comp plus negl =
  add_term_gen comp plus negl add_term_retries

(** val abs_gt : 'a1 numops -> 'a1 -> 'a1 -> bool **)

let abs_gt nO x t =
  nO.nre_ltb t (nO.nabs x)

(** val abs_lt : 'a1 numops -> 'a1 -> 'a1 -> bool **)

let abs_lt nO x t =
  nO.nre_ltb (nO.nabs x) t

(** val real_ge : 'a1 numops -> 'a1 -> 'a1 -> bool **)

let real_ge nO a b =
  negb (nO.nre_ltb a b)

(** val ofQ : 'a1 numops -> q -> 'a1 **)

let ofQ nO q0 =
  nO.ndiv (nO.nofZ q0.qnum) (nO.nofZ (Zpos q0.qden))

type 'k tols = { t_cmp_nr : 'k; t_neg_nr : 'k; t_cmp_r : 'k; t_neg_r : 
                 'k; t_reduce : 'k; t_coeff : 'k }

(** val tols_code : 'a1 numops -> 'a1 tols **)

let tols_code nO =
  { t_cmp_nr = (ofQ nO part_nonres_compare_tol); t_neg_nr =
    (ofQ nO part_nonres_negligible_tol); t_cmp_r =
    (ofQ nO part_res_compare_tol); t_neg_r =
    (ofQ nO part_res_negligible_tol); t_reduce =
    (if prepare_copies_tolerances
     then ofQ nO gf_ReduceResonanceTolerance
     else ofQ nO part_ReduceResonanceTolerance); t_coeff =
    (if prepare_copies_tolerances
     then ofQ nO gf_CoefficientTolerance
     else ofQ nO part_CoefficientTolerance) }

type 'k nrterm = { nr_coeff : 'k; nr_p0 : 'k; nr_p1 : 'k; nr_p2 : 'k;
                   nr_isz4 : bool; nr_weight : z }

type 'k rterm = { r_res : 'k; r_nonres : 'k; r_p0 : 'k; r_p1 : 'k; r_p2 : 
                  'k; r_isz1z2 : bool; r_weight : z }

(** val mk_nr : 'a1 -> 'a1 -> 'a1 -> 'a1 -> bool -> 'a1 nrterm **)

let mk_nr c p1 p2 p3 f =
  { nr_coeff = c; nr_p0 = p1; nr_p1 = p2; nr_p2 = p3; nr_isz4 = f;
    nr_weight = (Zpos XH) }

(** val mk_r : 'a1 -> 'a1 -> 'a1 -> 'a1 -> 'a1 -> bool -> 'a1 rterm **)

let mk_r rc nc p1 p2 p3 f =
  { r_res = rc; r_nonres = nc; r_p0 = p1; r_p1 = p2; r_p2 = p3; r_isz1z2 = f;
    r_weight = (Zpos XH) }

(** val real_eq : 'a1 numops -> 'a1 -> 'a1 -> 'a1 -> bool **)

let real_eq nO tol x1 x2 =
  nO.nre_ltb (nO.nabs (nO.nsub x1 x2)) tol

(** val cmp_poles :
    'a1 numops -> 'a1 -> 'a1 -> 'a1 -> 'a1 -> 'a1 -> 'a1 -> 'a1 -> bool **)

let cmp_poles nO tol a0 a1 a2 b0 b1 b2 =
  if negb (real_eq nO tol a0 b0)
  then nO.nre_ltb a0 b0
  else if negb (real_eq nO tol a1 b1)
       then nO.nre_ltb a1 b1
       else real_ge nO (nO.nsub b2 a2) tol

(** val nr_comp : 'a1 numops -> 'a1 -> 'a1 nrterm -> 'a1 nrterm -> bool **)

let nr_comp nO tol t1 t2 =
  if eqb t1.nr_isz4 t2.nr_isz4
  then cmp_poles nO tol t1.nr_p0 t1.nr_p1 t1.nr_p2 t2.nr_p0 t2.nr_p1 t2.nr_p2
  else (&&) (negb t1.nr_isz4) t2.nr_isz4

(** val r_comp : 'a1 numops -> 'a1 -> 'a1 rterm -> 'a1 rterm -> bool **)

let r_comp nO tol t1 t2 =
  if eqb t1.r_isz1z2 t2.r_isz1z2
  then cmp_poles nO tol t1.r_p0 t1.r_p1 t1.r_p2 t2.r_p0 t2.r_p1 t2.r_p2
  else (&&) (negb t1.r_isz1z2) t2.r_isz1z2

(** val wmean : 'a1 numops -> z -> 'a1 -> z -> 'a1 -> 'a1 **)

let wmean nO w1 p1 w2 p2 =
  nO.ndiv (nO.nadd (nO.nmul (nO.nofZ w1) p1) (nO.nmul (nO.nofZ w2) p2))
    (nO.nofZ (Z.add w1 w2))

(** val nr_plus : 'a1 numops -> 'a1 nrterm -> 'a1 nrterm -> 'a1 nrterm **)

let nr_plus nO a b =
  { nr_coeff = (nO.nadd a.nr_coeff b.nr_coeff); nr_p0 =
    (wmean nO a.nr_weight a.nr_p0 b.nr_weight b.nr_p0); nr_p1 =
    (wmean nO a.nr_weight a.nr_p1 b.nr_weight b.nr_p1); nr_p2 =
    (wmean nO a.nr_weight a.nr_p2 b.nr_weight b.nr_p2); nr_isz4 = a.nr_isz4;
    nr_weight = (Z.add a.nr_weight b.nr_weight) }

(** val r_plus : 'a1 numops -> 'a1 rterm -> 'a1 rterm -> 'a1 rterm **)

let r_plus nO a b =
  { r_res = (nO.nadd a.r_res b.r_res); r_nonres =
    (nO.nadd a.r_nonres b.r_nonres); r_p0 =
    (wmean nO a.r_weight a.r_p0 b.r_weight b.r_p0); r_p1 =
    (wmean nO a.r_weight a.r_p1 b.r_weight b.r_p1); r_p2 =
    (wmean nO a.r_weight a.r_p2 b.r_weight b.r_p2); r_isz1z2 = a.r_isz1z2;
    r_weight = (Z.add a.r_weight b.r_weight) }

(** val nr_negl : 'a1 numops -> 'a1 -> 'a1 nrterm -> int -> bool **)

let nr_negl nO tol t d =
  abs_lt nO t.nr_coeff (nO.ndiv tol (nO.nofZ (Z.of_nat d)))

(** val r_negl : 'a1 numops -> 'a1 -> 'a1 rterm -> int -> bool **)

let r_negl nO tol t d =
  (&&) (abs_lt nO t.r_res (nO.ndiv tol (nO.nofZ (Z.of_nat d))))
    (abs_lt nO t.r_nonres (nO.ndiv tol (nO.nofZ (Z.of_nat d))))

(** val nr_eval : 'a1 numops -> 'a1 nrterm -> 'a1 -> 'a1 -> 'a1 -> 'a1 **)

let nr_eval nO t z1 z2 z3 =
  nonres_eval nO.nadd nO.nsub nO.nmul nO.ndiv nO.nopp (abs_gt nO) (abs_lt nO)
    (real_ge nO) t.nr_coeff t.nr_p0 t.nr_p1 t.nr_p2 t.nr_isz4 z1 z2 z3

(** val r_eval :
    'a1 numops -> 'a1 -> 'a1 rterm -> 'a1 -> 'a1 -> 'a1 -> 'a1 **)

let r_eval nO tol t z1 z2 z3 =
  res_eval nO.nadd nO.nsub nO.nmul nO.ndiv nO.nopp (abs_gt nO) (abs_lt nO)
    (real_ge nO) tol t.r_res t.r_nonres t.r_p0 t.r_p1 t.r_p2 t.r_isz1z2 z1 z2
    z3

(** val list_eval : 'a1 numops -> ('a2 -> 'a1) -> 'a2 list -> 'a1 **)

let list_eval nO ev l =
  fold_left (fun acc t -> nO.nadd acc (ev t)) l nO.n0

type 'k slice = (int * 'k) list

type 'k smat = 'k slice list

(** val it_valid : 'a1 slice -> bool **)

let it_valid = function
| [] -> false
| _ :: _ -> true

(** val it_index : int -> 'a1 slice -> int **)

let it_index g = function
| [] -> g
| p :: _ -> let (i, _) = p in i

(** val it_value : 'a1 numops -> 'a1 slice -> 'a1 **)

let it_value nO = function
| [] -> nO.n0
| p :: _ -> let (_, v) = p in v

(** val outer : 'a1 smat -> int -> 'a1 slice **)

let outer m k =
  nth k m []

(** val coeff : 'a1 numops -> 'a1 smat -> int -> int -> 'a1 **)

let coeff nO m k inner =
  match find (fun e -> (=) (fst e) inner) (outer m k) with
  | Some e -> snd e
  | None -> nO.n0

(** val advance : int -> int -> 'a1 slice -> 'a1 slice **)

let rec advance g target it =
  if (&&) (Nat.ltb (it_index g it) target) (it_valid it)
  then (match it with
        | [] -> []
        | _ :: tl0 -> advance g target tl0)
  else it

(** val chase :
    int -> 'a1 slice -> 'a1 slice -> (bool * 'a1 slice) * 'a1 slice **)

let chase g it1 it2 =
  let index1 = it_index g it1 in
  let index2 = it_index g it2 in
  if (=) index1 index2
  then ((true, it1), it2)
  else if Nat.ltb index1 index2
       then ((false, (advance g index2 it1)), it2)
       else ((false, it1), (advance g index1 it2))

(** val walk :
    'a1 numops -> int -> int -> 'a1 slice -> 'a1 slice -> ((int * 'a1) * 'a1)
    list -> ((int * 'a1) * 'a1) list outcome **)

let rec walk nO g fuel ket bra acc =
  if (&&) (it_valid bra) (it_valid ket)
  then ((fun fO fS n -> if n=0 then fO () else fS (n-1))
          (fun _ -> OutOfFuel)
          (fun f ->
          let (p, bra') = chase g ket bra in
          let (b, ket') = p in
          if b
          then walk nO g f (tl ket') (tl bra')
                 (app acc ((((it_index g ket'), (it_value nO ket')),
                   (it_value nO bra')) :: []))
          else walk nO g f ket' bra' acc)
          fuel)
  else Done acc

(** val walk_fuel : 'a1 slice -> 'a1 slice -> int **)

let walk_fuel ket bra =
  Stdlib.Int.succ (add (length ket) (length bra))

type 'k part_in = { p_O1 : 'k smat; p_O2 : 'k smat; p_O3 : 'k smat;
                    p_CX4 : 'k smat; p_E1 : 'k list; p_E2 : 'k list;
                    p_E3 : 'k list; p_E4 : 'k list; p_W1 : 'k list;
                    p_W2 : 'k list; p_W3 : 'k list; p_W4 : 'k list;
                    p_beta : 'k; p_perm : ((int * int) * int); p_sign : 
                    z; p_blocks : (((z * z) * z) * z) }

type 'k visit = { v_i1 : int; v_i2 : int; v_i3 : int; v_i4 : int; v_O1 : 
                  'k; v_O2 : 'k }

(** val visits_13 :
    'a1 numops -> int -> 'a1 part_in -> int -> int -> 'a1 visit list outcome **)

let visits_13 nO g p index1 index3 =
  let bra4 = outer p.p_CX4 index1 in
  let ket4 = outer p.p_O3 index3 in
  bind (walk nO g (walk_fuel ket4 bra4) ket4 bra4 []) (fun m4 ->
    let index4List = map (fun m -> fst (fst m)) m4 in
    (match index4List with
     | [] -> Done []
     | _ :: _ ->
       let bra2 = outer p.p_O2 index3 in
       let ket2 = outer p.p_O1 index1 in
       bind (walk nO g (walk_fuel ket2 bra2) ket2 bra2 []) (fun m2 -> Done
         (concat
           (map (fun m ->
             map (fun index4 -> { v_i1 = index1; v_i2 = (fst (fst m)); v_i3 =
               index3; v_i4 = index4; v_O1 = (snd (fst m)); v_O2 = (snd m) })
               index4List) m2)))))

(** val visits_loop3 :
    'a1 numops -> int -> 'a1 part_in -> int -> int list -> 'a1 visit list
    outcome **)

let rec visits_loop3 nO g p index1 = function
| [] -> Done []
| index3 :: r ->
  bind (visits_13 nO g p index1 index3) (fun a ->
    bind (visits_loop3 nO g p index1 r) (fun b -> Done (app a b)))

(** val visits_loop1 :
    'a1 numops -> int -> 'a1 part_in -> int list -> int list -> 'a1 visit
    list outcome **)

let rec visits_loop1 nO g p i1s i3s =
  match i1s with
  | [] -> Done []
  | index1 :: r ->
    bind (visits_loop3 nO g p index1 i3s) (fun a ->
      bind (visits_loop1 nO g p r i3s) (fun b -> Done (app a b)))

(** val part_visits :
    'a1 numops -> int -> 'a1 part_in -> 'a1 visit list outcome **)

let part_visits nO g p =
  let index1Max = length p.p_CX4 in
  let index3Max = length p.p_O2 in
  visits_loop1 nO g p (seq 0 index1Max) (seq 0 index3Max)

(** val signK : 'a1 numops -> z -> 'a1 **)

let signK nO s =
  nO.nofZ s

(** val visit_emissions :
    'a1 numops -> 'a1 tols -> 'a1 part_in -> 'a1 visit -> (bool * 'a1
    emission) list **)

let visit_emissions nO tl0 p v =
  let e1 = nth v.v_i1 p.p_E1 nO.n0 in
  let e2 = nth v.v_i2 p.p_E2 nO.n0 in
  let e3 = nth v.v_i3 p.p_E3 nO.n0 in
  let e4 = nth v.v_i4 p.p_E4 nO.n0 in
  let w1 = nth v.v_i1 p.p_W1 nO.n0 in
  let w2 = nth v.v_i2 p.p_W2 nO.n0 in
  let w3 = nth v.v_i3 p.p_W3 nO.n0 in
  let w4 = nth v.v_i4 p.p_W4 nO.n0 in
  if compute_weight_guard nO.nadd nO.nsub nO.nmul nO.ndiv nO.nopp (abs_gt nO)
       (abs_lt nO) (real_ge nO) tl0.t_coeff w1 w2 w3 w4
  then let me =
         compute_matrix_element nO.nadd nO.nsub nO.nmul nO.ndiv nO.nopp
           (abs_gt nO) (abs_lt nO) (real_ge nO) v.v_O1 v.v_O2
           (coeff nO p.p_O3 v.v_i3 v.v_i4) (coeff nO p.p_CX4 v.v_i1 v.v_i4)
       in
       let me0 =
         compute_apply_sign nO.nadd nO.nsub nO.nmul nO.ndiv nO.nopp
           (abs_gt nO) (abs_lt nO) (real_ge nO) me (signK nO p.p_sign)
       in
       compute_call nO.nadd nO.nsub nO.nmul nO.ndiv nO.nopp (abs_gt nO)
         (abs_lt nO) (real_ge nO) tl0.t_coeff me0 p.p_beta e1 e2 e3 e4 w1 w2
         w3 w4
  else []

type 'k part_st = { ps_nr : 'k nrterm list; ps_r : 'k rterm list;
                    ps_computed : bool; ps_refused : int }

(** val part_constructed : 'a1 part_st **)

let part_constructed =
  { ps_nr = []; ps_r = []; ps_computed = false; ps_refused = 0 }

(** val emit :
    'a1 numops -> 'a1 tols -> 'a1 part_st -> (bool * 'a1 emission) -> 'a1
    part_st **)

let emit nO tl0 st ge =
  if fst ge
  then (match snd ge with
        | EmitNonRes (c, p1, p2, p3, f) ->
          let (ok, l) =
            add_term (nr_comp nO tl0.t_cmp_nr) (nr_plus nO)
              (nr_negl nO tl0.t_neg_nr) (mk_nr c p1 p2 p3 f) st.ps_nr
          in
          { ps_nr = l; ps_r = st.ps_r; ps_computed = st.ps_computed;
          ps_refused =
          (if ok then st.ps_refused else Stdlib.Int.succ st.ps_refused) }
        | EmitRes (rc, nc, p1, p2, p3, f) ->
          let (ok, l) =
            add_term (r_comp nO tl0.t_cmp_r) (r_plus nO)
              (r_negl nO tl0.t_neg_r) (mk_r rc nc p1 p2 p3 f) st.ps_r
          in
          { ps_nr = st.ps_nr; ps_r = l; ps_computed = st.ps_computed;
          ps_refused =
          (if ok then st.ps_refused else Stdlib.Int.succ st.ps_refused) })
  else st

(** val part_emissions :
    'a1 numops -> int -> 'a1 tols -> 'a1 part_in -> 'a1 emission list outcome **)

let part_emissions nO g tl0 p =
  bind (part_visits nO g p) (fun vs -> Done
    (map snd (filter fst (concat (map (visit_emissions nO tl0 p) vs)))))

(** val sep_pair : 'a1 numops -> 'a1 -> 'a1 -> 'a1 -> bool **)

let sep_pair nO tol x y =
  let d = nO.nabs (nO.nsub x y) in
  (||) (negb (nO.nre_ltb (nO.ndiv tol (nO.nofZ (Zpos (XO (XO XH))))) d))
    (negb (nO.nre_ltb d (nO.nmul (nO.nofZ (Zpos (XO XH))) tol)))

(** val same_val : 'a1 numops -> 'a1 -> 'a1 -> bool **)

let same_val nO x y =
  (&&) (negb (nO.nre_ltb x y)) (negb (nO.nre_ltb y x))

(** val dedup_vals : 'a1 numops -> 'a1 list -> 'a1 list **)

let dedup_vals nO vals =
  fold_left (fun acc x ->
    if existsb (same_val nO x) acc then acc else x :: acc) vals []

(** val separated_b : 'a1 numops -> 'a1 -> 'a1 list -> bool **)

let separated_b nO tol vals =
  let d = dedup_vals nO vals in
  forallb (fun x -> forallb (sep_pair nO tol x) d) d

(** val em_poles :
    'a1 numops -> bool -> bool -> int -> 'a1 emission -> 'a1 list **)

let em_poles nO res flag k = function
| EmitNonRes (_, p1, p2, p3, f) ->
  if (&&) (negb res) (eqb f flag)
  then (nth k (p1 :: (p2 :: (p3 :: []))) nO.n0) :: []
  else []
| EmitRes (_, _, p1, p2, p3, f) ->
  if (&&) res (eqb f flag)
  then (nth k (p1 :: (p2 :: (p3 :: []))) nO.n0) :: []
  else []

(** val emissions_separated_b :
    'a1 numops -> 'a1 tols -> 'a1 emission list -> bool **)

let emissions_separated_b nO tl0 es =
  forallb (fun res ->
    forallb (fun flag ->
      forallb (fun k ->
        separated_b nO (if res then tl0.t_cmp_r else tl0.t_cmp_nr)
          (flat_map (em_poles nO res flag k) es)) (0 :: ((Stdlib.Int.succ
        0) :: ((Stdlib.Int.succ (Stdlib.Int.succ 0)) :: []))))
      (false :: (true :: []))) (false :: (true :: []))

(** val part_compute :
    'a1 numops -> int -> 'a1 tols -> 'a1 part_in -> 'a1 part_st outcome **)

let part_compute nO g tl0 p =
  bind (part_visits nO g p) (fun vs ->
    let st =
      fold_left (fun st v ->
        fold_left (emit nO tl0) (visit_emissions nO tl0 p v) st) vs
        part_constructed
    in
    Done { ps_nr = st.ps_nr; ps_r = st.ps_r; ps_computed = true; ps_refused =
    st.ps_refused })

(** val part_clear : 'a1 part_st -> 'a1 part_st **)

let part_clear st =
  { ps_nr = []; ps_r = []; ps_computed = false; ps_refused = st.ps_refused }

(** val perm_nth : ((int * int) * int) -> int -> int **)

let perm_nth perm slot =
  (fun fO fS n -> if n=0 then fO () else fS (n-1))
    (fun _ -> fst (fst perm))
    (fun n ->
    (fun fO fS n -> if n=0 then fO () else fS (n-1))
      (fun _ -> snd (fst perm))
      (fun _ -> snd perm)
      n)
    slot

(** val permuted :
    'a1 numops -> ((int * int) * int) -> 'a1 -> 'a1 -> 'a1 -> int -> 'a1 **)

let permuted nO perm z1 z2 z3 k =
  nth
    (perm_nth perm
      (nth k
        (part_perm_slots nO.nadd nO.nsub nO.nmul nO.ndiv nO.nopp (abs_gt nO)
          (abs_lt nO) (real_ge nO)) 0))
    (part_frequencies nO.nadd nO.nsub nO.nmul nO.ndiv nO.nopp (abs_gt nO)
      (abs_lt nO) (real_ge nO) z1 z2 z3) nO.n0

(** val part_eval :
    'a1 numops -> 'a1 tols -> 'a1 part_in -> 'a1 part_st -> 'a1 -> 'a1 -> 'a1
    -> 'a1 outcome **)

let part_eval nO tl0 p st z1 z2 z3 =
  let y1 = permuted nO p.p_perm z1 z2 z3 0 in
  let y2 = permuted nO p.p_perm z1 z2 z3 (Stdlib.Int.succ 0) in
  let y3 = permuted nO p.p_perm z1 z2 z3 (Stdlib.Int.succ (Stdlib.Int.succ 0))
  in
  if negb st.ps_computed
  then Throws (Stdlib.Int.succ 0)
  else Done
         (part_value nO.nadd nO.nsub nO.nmul nO.ndiv nO.nopp (abs_gt nO)
           (abs_lt nO) (real_ge nO) (fun a b c ->
           list_eval nO (fun t -> nr_eval nO t a b c) st.ps_nr)
           (fun a b c tol ->
           list_eval nO (fun t -> r_eval nO tol t a b c) st.ps_r)
           tl0.t_reduce y1 y2 y3)

type 'k fieldop = { fo_map : (z * z) list;
                    fo_parts : (z * ('k smat * 'k smat)) list }

type 'k world = { w_E : 'k list list; w_W : 'k list list; w_ret : bool list;
                  w_beta : 'k; w_C1 : 'k fieldop; w_C2 : 'k fieldop;
                  w_CX3 : 'k fieldop; w_CX4 : 'k fieldop }

(** val eRROR_BLOCK : z **)

let eRROR_BLOCK =
  Zneg XH

(** val is_correct : z -> bool **)

let is_correct b =
  Z.leb Z0 b

(** val right_of : 'a1 fieldop -> z -> z **)

let right_of o l =
  match find (fun lr -> Z.eqb (fst lr) l) o.fo_map with
  | Some lr -> snd lr
  | None -> eRROR_BLOCK

(** val left_of : 'a1 fieldop -> z -> z **)

let left_of o r =
  match find (fun lr -> Z.eqb (snd lr) r) o.fo_map with
  | Some lr -> fst lr
  | None -> eRROR_BLOCK

(** val part_of : 'a1 fieldop -> z -> ('a1 smat * 'a1 smat) outcome **)

let part_of o l =
  match find (fun e -> Z.eqb (fst e) l) o.fo_parts with
  | Some e -> Done (snd e)
  | None -> OOB

(** val op_at : 'a1 world -> int -> int -> 'a1 fieldop option **)

let op_at w pn pos =
  match nth_error permutations3 pn with
  | Some p ->
    let (perm, _) = p in
    ((fun fO fS n -> if n=0 then fO () else fS (n-1))
       (fun _ -> Some w.w_C1)
       (fun n ->
       (fun fO fS n -> if n=0 then fO () else fS (n-1))
         (fun _ -> Some w.w_C2)
         (fun n2 ->
         (fun fO fS n -> if n=0 then fO () else fS (n-1))
           (fun _ -> Some w.w_CX3)
           (fun _ -> None)
           n2)
         n)
       (perm_nth perm pos))
  | None -> None

(** val getLeftIndex : 'a1 world -> int -> int -> z -> z **)

let getLeftIndex w pn pos r =
  match op_at w pn pos with
  | Some o -> left_of o r
  | None -> eRROR_BLOCK

(** val getRightIndex : 'a1 world -> int -> int -> z -> z **)

let getRightIndex w pn pos l =
  match op_at w pn pos with
  | Some o -> right_of o l
  | None -> eRROR_BLOCK

(** val blk : 'a1 list -> 'a1 -> z -> 'a1 **)

let blk l d b =
  nth (Z.to_nat b) l d

(** val insert_by_right : (z * z) -> (z * z) list -> (z * z) list **)

let rec insert_by_right x l = match l with
| [] -> x :: []
| y :: r ->
  if Z.ltb (snd x) (snd y) then x :: l else y :: (insert_by_right x r)

(** val right_view : (z * z) list -> (z * z) list **)

let right_view m =
  fold_right insert_by_right [] m

(** val prepare_one :
    'a1 world -> (z * z) -> int -> 'a1 part_in option outcome **)

let prepare_one w lr pn =
  let l0 = snd lr in
  let l3 = fst lr in
  let l2 = getLeftIndex w pn (Stdlib.Int.succ (Stdlib.Int.succ 0)) l3 in
  let l1 = getRightIndex w pn 0 l0 in
  if (&&)
       ((&&) (Z.eqb (getRightIndex w pn (Stdlib.Int.succ 0) l1) l2)
         (is_correct l1)) (is_correct l2)
  then if (||)
            ((||) ((||) (blk w.w_ret false l0) (blk w.w_ret false l1))
              (blk w.w_ret false l2)) (blk w.w_ret false l3)
       then (match op_at w pn 0 with
             | Some o1 ->
               (match op_at w pn (Stdlib.Int.succ 0) with
                | Some o2 ->
                  (match op_at w pn (Stdlib.Int.succ (Stdlib.Int.succ 0)) with
                   | Some o3 ->
                     (match nth_error permutations3 pn with
                      | Some p ->
                        let (perm, sg) = p in
                        bind (part_of o1 l0) (fun m1 ->
                          bind (part_of o2 l1) (fun m2 ->
                            bind (part_of o3 l2) (fun m3 ->
                              bind (part_of w.w_CX4 l3) (fun m4 -> Done (Some
                                { p_O1 = (fst m1); p_O2 = (snd m2); p_O3 =
                                (fst m3); p_CX4 = (snd m4); p_E1 =
                                (blk w.w_E [] l0); p_E2 = (blk w.w_E [] l1);
                                p_E3 = (blk w.w_E [] l2); p_E4 =
                                (blk w.w_E [] l3); p_W1 = (blk w.w_W [] l0);
                                p_W2 = (blk w.w_W [] l1); p_W3 =
                                (blk w.w_W [] l2); p_W4 = (blk w.w_W [] l3);
                                p_beta = w.w_beta; p_perm = perm; p_sign =
                                sg; p_blocks = (((l0, l1), l2), l3) })))))
                      | None -> OOB)
                   | None -> OOB)
                | None -> OOB)
             | None -> OOB)
       else Done None
  else Done None

(** val collect : 'a1 option outcome list -> 'a1 list outcome **)

let rec collect = function
| [] -> Done []
| x :: r ->
  bind x (fun a ->
    bind (collect r) (fun b -> Done
      (match a with
       | Some v -> v :: b
       | None -> b)))

(** val gf_prepare : 'a1 world -> 'a1 part_in list outcome **)

let gf_prepare w =
  collect
    (concat
      (map (fun lr ->
        map (fun pn -> prepare_one w lr pn)
          (seq 0 (Stdlib.Int.succ (Stdlib.Int.succ (Stdlib.Int.succ
            (Stdlib.Int.succ (Stdlib.Int.succ (Stdlib.Int.succ 0))))))))
        (right_view w.w_CX4.fo_map)))

type gf_status =
| Constructed
| Prepared
| Computed

type 'k gf_st = { g_status : gf_status;
                  g_parts : ('k part_in * 'k part_st) list; g_vanishing : 
                  bool }

(** val gf_prepared : 'a1 part_in list -> 'a1 gf_st **)

let gf_prepared ps =
  { g_status = Prepared; g_parts = (map (fun p -> (p, part_constructed)) ps);
    g_vanishing = (match ps with
                   | [] -> true
                   | _ :: _ -> false) }

(** val sum_parts :
    'a1 numops -> 'a1 tols -> ('a1 part_in * 'a1 part_st) list -> 'a1 -> 'a1
    -> 'a1 -> 'a1 -> 'a1 outcome **)

let rec sum_parts nO tl0 ps z1 z2 z3 acc =
  match ps with
  | [] -> Done acc
  | p0 :: r ->
    let (p, st) = p0 in
    bind (part_eval nO tl0 p st z1 z2 z3) (fun v ->
      sum_parts nO tl0 r z1 z2 z3 (nO.nadd acc v))

(** val gf_value :
    'a1 numops -> 'a1 tols -> 'a1 gf_st -> 'a1 -> 'a1 -> 'a1 -> 'a1 outcome **)

let gf_value nO tl0 s z1 z2 z3 =
  if s.g_vanishing
  then Done nO.n0
  else sum_parts nO tl0 s.g_parts z1 z2 z3 nO.n0

(** val accumulate :
    'a1 numops -> 'a1 tols -> 'a1 part_in -> 'a1 part_st ->
    (('a1 * 'a1) * 'a1) list -> 'a1 list -> 'a1 list outcome **)

let rec accumulate nO tl0 p st freqs data =
  match freqs with
  | [] -> Done data
  | f :: fr ->
    (match data with
     | [] -> OOB
     | d :: dr ->
       bind (part_eval nO tl0 p st (fst (fst f)) (snd (fst f)) (snd f))
         (fun v ->
         bind (accumulate nO tl0 p st fr dr) (fun r -> Done
           ((nO.nadd d v) :: r))))

(** val wrap_run :
    'a1 numops -> int -> 'a1 tols -> bool -> bool -> (('a1 * 'a1) * 'a1) list
    -> 'a1 part_in -> 'a1 list -> ('a1 part_st * 'a1 list) outcome **)

let wrap_run nO g tl0 clear fill freqs p data =
  bind (part_compute nO g tl0 p) (fun st ->
    bind (if fill then accumulate nO tl0 p st freqs data else Done data)
      (fun data' -> Done ((if clear then part_clear st else st), data')))

(** val run_parts :
    'a1 numops -> int -> 'a1 tols -> bool -> bool -> (('a1 * 'a1) * 'a1) list
    -> ('a1 part_in * 'a1 part_st) list -> 'a1 list -> (('a1 part_in * 'a1
    part_st) list * 'a1 list) outcome **)

let rec run_parts nO g tl0 clear fill freqs ps data =
  match ps with
  | [] -> Done ([], data)
  | p0 :: r ->
    let (p, _) = p0 in
    bind (wrap_run nO g tl0 clear fill freqs p data) (fun sd ->
      bind (run_parts nO g tl0 clear fill freqs r (snd sd)) (fun rd -> Done
        (((p, (fst sd)) :: (fst rd)), (snd rd))))

(** val gf_compute_gen :
    'a1 numops -> bool -> bool -> int -> 'a1 tols -> bool ->
    (('a1 * 'a1) * 'a1) list -> 'a1 gf_st -> ('a1 list * 'a1 gf_st) outcome **)

let gf_compute_gen nO size_first guard_reduce g tl0 clear freqs s =
  match s.g_status with
  | Constructed -> Throws (Stdlib.Int.succ (Stdlib.Int.succ 0))
  | Prepared ->
    let m_data0 = if size_first then repeat nO.n0 (length freqs) else [] in
    if negb s.g_vanishing
    then let fill = negb ((=) (length freqs) 0) in
         let m_data = repeat nO.n0 (length freqs) in
         bind (run_parts nO g tl0 clear fill freqs s.g_parts m_data)
           (fun pd ->
           if (&&) (negb guard_reduce)
                (match snd pd with
                 | [] -> true
                 | _ :: _ -> false)
           then OOB
           else Done ((snd pd), { g_status = Computed; g_parts = (fst pd);
                  g_vanishing = s.g_vanishing }))
    else Done (m_data0, { g_status = Computed; g_parts = s.g_parts;
           g_vanishing = s.g_vanishing })
  | Computed -> Done ([], s)

(** val gf_compute :
    'a1 numops -> int -> 'a1 tols -> bool -> (('a1 * 'a1) * 'a1) list -> 'a1
    gf_st -> ('a1 list * 'a1 gf_st) outcome **)

let gf_compute nO =
  gf_compute_gen nO compute_sizes_table_before_vanishing_test
    compute_guards_empty_reduce

(** val f_tols : (Float64.t -> Float64.t) -> fc tols **)

let f_tols fexp =
  tols_code (fops fexp)

(** val f_gf_prepare : fc world -> fc part_in list outcome **)

let f_gf_prepare =
  gf_prepare

(** val f_gf_prepared : fc part_in list -> fc gf_st **)

let f_gf_prepared =
  gf_prepared

(** val f_part_compute :
    (Float64.t -> Float64.t) -> int -> fc tols -> fc part_in -> fc part_st
    outcome **)

let f_part_compute fexp =
  part_compute (fops fexp)

(** val f_part_visits :
    (Float64.t -> Float64.t) -> int -> fc part_in -> fc visit list outcome **)

let f_part_visits fexp =
  part_visits (fops fexp)

(** val f_part_emissions :
    (Float64.t -> Float64.t) -> int -> fc tols -> fc part_in -> fc emission
    list outcome **)

let f_part_emissions fexp =
  part_emissions (fops fexp)

(** val f_emissions_separated_b :
    (Float64.t -> Float64.t) -> fc tols -> fc emission list -> bool **)

let f_emissions_separated_b fexp =
  emissions_separated_b (fops fexp)

(** val f_part_eval :
    (Float64.t -> Float64.t) -> fc tols -> fc part_in -> fc part_st -> fc ->
    fc -> fc -> fc outcome **)

let f_part_eval fexp =
  part_eval (fops fexp)

(** val f_gf_compute :
    (Float64.t -> Float64.t) -> int -> fc tols -> bool -> ((fc * fc) * fc)
    list -> fc gf_st -> (fc list * fc gf_st) outcome **)

let f_gf_compute fexp =
  gf_compute (fops fexp)

(** val f_gf_compute_gen :
    (Float64.t -> Float64.t) -> bool -> bool -> int -> fc tols -> bool ->
    ((fc * fc) * fc) list -> fc gf_st -> (fc list * fc gf_st) outcome **)

let f_gf_compute_gen fexp =
  gf_compute_gen (fops fexp)

(** val f_gf_value :
    (Float64.t -> Float64.t) -> fc tols -> fc gf_st -> fc -> fc -> fc -> fc
    outcome **)

let f_gf_value fexp =
  gf_value (fops fexp)

(** val f_phi :
    (Float64.t -> Float64.t) -> fc -> fc -> fc -> fc -> fc -> fc -> fc -> fc
    -> fc -> fc -> fc -> fc -> fc -> fc **)

let f_phi fexp =
  phi (fops fexp)

(** val f_multiterm_value :
    (Float64.t -> Float64.t) -> fc tols -> fc -> fc -> fc -> fc -> fc -> fc
    -> fc -> fc -> fc -> fc -> fc -> fc -> fc -> fc **)

let f_multiterm_value fexp tl0 coeff0 beta ei ej ek el wi wj wk wl z1 z2 z3 =
  let nO = fops fexp in
  fold_left (fun acc ge ->
    if fst ge
    then fadd acc
           (match snd ge with
            | EmitNonRes (c, p1, p2, p3, f) ->
              nr_eval nO (mk_nr c p1 p2 p3 f) z1 z2 z3
            | EmitRes (rc, nc, p1, p2, p3, f) ->
              r_eval nO tl0.t_reduce (mk_r rc nc p1 p2 p3 f) z1 z2 z3)
    else acc)
    (addMultiterm nO.nadd nO.nsub nO.nmul nO.ndiv nO.nopp (abs_gt nO)
      (abs_lt nO) (real_ge nO) tl0.t_coeff coeff0 beta ei ej ek el wi wj wk
      wl) ((Float64.of_float (0x0p+0)), (Float64.of_float (0x0p+0)))
