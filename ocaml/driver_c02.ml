(* Driver of the C02 model (PV.Chi extracted at binary64 complex numbers).
   Reads the dump of harness/h_c02.cpp (records NBLOCKS BLOCK EIG W RET BETA OPMAP OPMAT ... ENDDUMP) followed by the
   same query lines the harness answered, and answers them from the MODEL, printing the same record formats:
     parts i j k l            -> PARTS / PART / NR / RT / ENDPARTS  (+ REFUSED p n when the model's std::set refused insertions,
                                  GDEP when the result depends on the value read past the end of a sparse slice)
     chi i j k l clear nf ..  -> CHI i j k l clear vanishing nparts (tablesize|UB) {ondemand table}  and  AFTER value|throws
     chiz / partz             -> as the harness
     fixedchi ...             -> like chi, with the repaired compute (fixed = true)
     mt Coeff beta Ei Ej Ek El Wi Wj Wk Wl z1 z2 z3 (complex numbers as re,im) -> MT <sum of generated terms> <Coeff*phi>
   Hand-written glue only: parsing, building the [world] record from the dump, printing. *)
open C02_model

let fexp (x : Float64.t) : Float64.t = Float64.of_float (Stdlib.exp (Float64.to_float x))
let fl x = Float64.of_float x
let tf x = Float64.to_float x
let c re im : fc = (fl re, fl im)
let re (z : fc) = tf (fst z)
let im (z : fc) = tf (snd z)
let hc z = Printf.sprintf "%h %h" (re z) (im z)
let hr z = Printf.sprintf "%h" (re z)
let fos = float_of_string
let ios = int_of_string

let rec pos_of_int n = if n = 1 then XH else if n land 1 = 0 then XO (pos_of_int (n lsr 1)) else XI (pos_of_int (n lsr 1))
let z_of_int n = if n = 0 then Z0 else if n > 0 then Zpos (pos_of_int n) else Zneg (pos_of_int (-n))
let rec int_of_pos = function XH -> 1 | XO p -> 2 * int_of_pos p | XI p -> 2 * int_of_pos p + 1
let int_of_z = function Z0 -> 0 | Zpos p -> int_of_pos p | Zneg p -> - (int_of_pos p)

let nblocks = ref 0
let eigs : (int, float array) Hashtbl.t = Hashtbl.create 16
let ws : (int, float array) Hashtbl.t = Hashtbl.create 16
let rets : (int, bool) Hashtbl.t = Hashtbl.create 16
let beta = ref 1.0
(* operator (kind, index) -> bimap pairs, parts (left -> rows, cols, entries) *)
let opmap : (string * int, (int * int) list) Hashtbl.t = Hashtbl.create 16
let opmat : (string * int, (int * (int * int * (int * int * fc) list)) list) Hashtbl.t = Hashtbl.create 16

let tl () = f_tols fexp

let fieldop kind i : fc fieldop =
  let m = try Hashtbl.find opmap (kind, i) with Not_found -> [] in
  let parts = try List.rev (Hashtbl.find opmat (kind, i)) with Not_found -> [] in
  let mk (left, (rows, cols, ents)) =
    let rowm = Array.make rows [] and colm = Array.make cols [] in
    (* entries arrive in row-major order (row, then column, increasing) *)
    List.iter (fun (r, cc, v) -> rowm.(r) <- (cc, v) :: rowm.(r); colm.(cc) <- (r, v) :: colm.(cc)) ents;
    (z_of_int left, (Array.to_list (Array.map List.rev rowm), Array.to_list (Array.map List.rev colm))) in
  { fo_map = List.map (fun (l, r) -> (z_of_int l, z_of_int r)) m; fo_parts = List.map mk parts }

let world i j k l : fc world =
  let per f = List.init !nblocks (fun b -> f b) in
  { w_E = per (fun b -> List.map (fun x -> c x 0.) (Array.to_list (Hashtbl.find eigs b)));
    w_W = per (fun b -> List.map (fun x -> c x 0.) (Array.to_list (Hashtbl.find ws b)));
    w_ret = per (fun b -> try Hashtbl.find rets b with Not_found -> true);
    w_beta = c !beta 0.;
    w_C1 = fieldop "c" i; w_C2 = fieldop "c" j; w_CX3 = fieldop "cdag" k; w_CX4 = fieldop "cdag" l }

let oc_name = function OOB -> "OOB" | Uninit -> "UNINIT" | Throws n -> Printf.sprintf "THROWS%d" n | OutOfFuel -> "FUEL" | Done _ -> "DONE"

let matsubara_f k = c 0. ((Float.pi /. !beta) *. float_of_int (2 * k + 1))

let print_part p (pin : fc part_in) (st : fc part_st) =
  let (((l0, l1), l2), l3) = pin.p_blocks in
  let ((p0, p1), p2) = pin.p_perm in
  Printf.printf "PART %d %d %d %d %d %d %d %d %d %d %d %d\n" p (int_of_z l0) (int_of_z l1) (int_of_z l2) (int_of_z l3)
    p0 p1 p2 (int_of_z pin.p_sign) (List.length st.ps_nr) (List.length st.ps_r) (if st.ps_computed then 2 else 0);
  List.iter (fun (t : fc nrterm) ->
      Printf.printf "NR %d %s %s %s %s %d %d\n" p (hc t.nr_coeff) (hr t.nr_p0) (hr t.nr_p1) (hr t.nr_p2) (if t.nr_isz4 then 1 else 0) (int_of_z t.nr_weight)) st.ps_nr;
  List.iter (fun (t : fc rterm) ->
      Printf.printf "RT %d %s %s %s %s %s %d %d\n" p (hc t.r_res) (hc t.r_nonres) (hr t.r_p0) (hr t.r_p1) (hr t.r_p2) (if t.r_isz1z2 then 1 else 0) (int_of_z t.r_weight)) st.ps_r;
  if st.ps_refused > 0 then Printf.printf "REFUSED %d %d\n" p st.ps_refused

let prepared i j k l =
  match f_gf_prepare (world i j k l) with
  | Done ps -> Some ps
  | o -> Printf.printf "MODEL-OUTCOME prepare %s\n" (oc_name o); None

let freqs_of a start nf = List.init nf (fun f -> ((matsubara_f (ios (a (start + 3 * f))), matsubara_f (ios (a (start + 3 * f + 1)))), matsubara_f (ios (a (start + 3 * f + 2)))))

(* the non-purged computed object, obtained part by part (bypasses the `&m_data[0]` outcome of compute() with no frequencies) *)
let computed_parts g ps =
  List.map (fun p -> match f_part_compute fexp g (tl ()) p with Done st -> (p, st) | o -> failwith ("part_compute " ^ oc_name o)) ps

let chi_query fixed (a : int -> string) =
  let i = ios (a 1) and j = ios (a 2) and k = ios (a 3) and l = ios (a 4) and clear = ios (a 5) <> 0 and nf = ios (a 6) in
  match prepared i j k l with
  | None -> ()
  | Some ps ->
    let s0 = f_gf_prepared ps in
    let fr = freqs_of a 7 nf in
    (* x: prepare + compute(), evaluated on demand; y: prepare + compute(clear, freqs).
       x->compute() passes an empty frequency list, for which the model of the unrepaired code reports the
       undefined `&m_data[0]`; x is therefore assembled part by part here. *)
    let sx = { g_status = Computed; g_parts = computed_parts 0 ps; g_vanishing = (ps = []) } in
    let tag = if fixed then "FIXEDCHI" else "CHI" in
    (match (if fixed then f_gf_compute_gen fexp true true 0 (tl ()) clear fr s0 else f_gf_compute fexp 0 (tl ()) clear fr s0) with
     | Done (table, sy) ->
       Printf.printf "%s %d %d %d %d %d %d %d %d" tag i j k l (if clear then 1 else 0) (if sx.g_vanishing then 1 else 0) (List.length ps) (List.length table);
       List.iteri (fun f ((z1, z2), z3) ->
           (match f_gf_value fexp (tl ()) sx z1 z2 z3 with Done v -> Printf.printf " %s" (hc v) | o -> Printf.printf " %s %s" (oc_name o) (oc_name o));
           (match List.nth_opt table f with Some v -> Printf.printf " %s" (hc v) | None -> print_string " - -")) fr;
       print_newline ();
       (match f_gf_value fexp (tl ()) sy (matsubara_f 0) (matsubara_f 0) (matsubara_f 0) with
        | Done v -> Printf.printf "AFTER value %s\n" (hc v)
        | Throws _ -> print_endline "AFTER throws"
        | o -> Printf.printf "AFTER %s\n" (oc_name o))
     | OOB ->
       (* &m_data[0] on an empty vector: undefined behaviour in the C++ *)
       Printf.printf "%s %d %d %d %d %d %d %d UB\n" tag i j k l (if clear then 1 else 0) (if sx.g_vanishing then 1 else 0) (List.length ps)
     | o -> Printf.printf "MODEL-OUTCOME compute %s\n" (oc_name o))

let handle (t : string array) =
  let a k = t.(k) in
  match a 0 with
  | "shape" -> Printf.printf "SHAPE add_term_retries=%b sizes_table_first=%b guards_empty_reduce=%b\n"
                 add_term_retries compute_sizes_table_before_vanishing_test compute_guards_empty_reduce
  | "NBLOCKS" -> nblocks := ios (a 1)
  | "EIG" -> Hashtbl.replace eigs (ios (a 1)) (Array.init (Array.length t - 2) (fun k -> fos (a (2 + k))))
  | "W" -> Hashtbl.replace ws (ios (a 1)) (Array.init (Array.length t - 2) (fun k -> fos (a (2 + k))))
  | "RET" -> Hashtbl.replace rets (ios (a 1)) (ios (a 2) <> 0)
  | "BETA" -> beta := fos (a 1)
  | "BUILT" -> Hashtbl.reset eigs; Hashtbl.reset ws; Hashtbl.reset rets; Hashtbl.reset opmap; Hashtbl.reset opmat
  | "OPMAP" ->
    let n = ios (a 3) in
    Hashtbl.replace opmap (a 1, ios (a 2)) (List.init n (fun q -> (ios (a (4 + 2 * q)), ios (a (5 + 2 * q)))))
  | "OPMAT" ->
    let key = (a 1, ios (a 2)) in
    let left = ios (a 3) and rows = ios (a 5) and cols = ios (a 6) and nnz = ios (a 7) in
    let ents = List.init nnz (fun q -> (ios (a (8 + 4 * q)), ios (a (9 + 4 * q)), c (fos (a (10 + 4 * q))) (fos (a (11 + 4 * q))))) in
    let old = try Hashtbl.find opmat key with Not_found -> [] in
    Hashtbl.replace opmat key ((left, (rows, cols, ents)) :: old)
  | "parts" ->
    let i = ios (a 1) and j = ios (a 2) and k = ios (a 3) and l = ios (a 4) in
    (match prepared i j k l with
     | None -> ()
     | Some ps ->
       Printf.printf "PARTS %d %d %d %d %d %d\n" i j k l (if ps = [] then 1 else 0) (List.length ps);
       let r0 = computed_parts 0 ps in
       List.iteri (fun p (pin, st) -> print_part p pin st) r0;
       (* does the pole-separation hypothesis of chi_termlist_no_loss hold for the terms of each part? *)
       List.iteri (fun p pin ->
           match f_part_emissions fexp 0 (tl ()) pin with
           | Done es -> Printf.printf "SEP %d %d %d\n" p (if f_emissions_separated_b fexp (tl ()) es then 1 else 0) (List.length es)
           | o -> Printf.printf "MODEL-OUTCOME emissions %s\n" (oc_name o)) ps;
       (* the value returned by index() on an exhausted iterator must not matter *)
       let r1 = computed_parts 1000003 ps in
       if List.map snd r0 <> List.map snd r1 then print_endline "GDEP";
       print_endline "ENDPARTS")
  | "chi" -> chi_query false a
  | "fixedchi" -> chi_query true a
  | "chiz" ->
    let i = ios (a 1) and j = ios (a 2) and k = ios (a 3) and l = ios (a 4) and nz = ios (a 5) in
    (match prepared i j k l with
     | None -> ()
     | Some ps ->
       let s = { g_status = Computed; g_parts = computed_parts 0 ps; g_vanishing = (ps = []) } in
       Printf.printf "CHIZ %d %d %d %d" i j k l;
       for f = 0 to nz - 1 do
         let z q = c (fos (a (6 + 6 * f + 2 * q))) (fos (a (7 + 6 * f + 2 * q))) in
         (match f_gf_value fexp (tl ()) s (z 0) (z 1) (z 2) with Done v -> Printf.printf " %s" (hc v) | o -> Printf.printf " %s %s" (oc_name o) (oc_name o))
       done; print_newline ())
  | "partz" ->
    let i = ios (a 1) and j = ios (a 2) and k = ios (a 3) and l = ios (a 4) in
    let z q = c (fos (a (5 + 2 * q))) (fos (a (6 + 2 * q))) in
    (match prepared i j k l with
     | None -> ()
     | Some ps ->
       Printf.printf "PARTZ %d %d %d %d %d" i j k l (List.length ps);
       List.iter (fun (p, st) -> match f_part_eval fexp (tl ()) p st (z 0) (z 1) (z 2) with Done v -> Printf.printf " %s" (hc v) | o -> Printf.printf " %s %s" (oc_name o) (oc_name o))
         (computed_parts 0 ps);
       print_newline ())
  | "scale" ->
    (* scale i j k l nz {z1re z1im z2re z2im z3re z3im}: magnitudes for the comparison tolerance (tolerance only, no claim):
       S0 = sum over parts, visited quadruples and the four pieces of the multiterm of |piece|, with the weights entering
            a difference counted as |w|+|w'| (cancellation), S1 = the same with every piece multiplied by sum_k 1/|denominator_k|
            (sensitivity to a shift of the poles), S2 = sum of the inverse-denominator products alone (absolute truncation) *)
    let i = ios (a 1) and j = ios (a 2) and k = ios (a 3) and l = ios (a 4) and nz = ios (a 5) in
    (match prepared i j k l with
     | None -> ()
     | Some ps ->
       Printf.printf "SCALE %d %d %d %d" i j k l;
       let no = fops fexp in
       for f = 0 to nz - 1 do
         let z q = c (fos (a (6 + 6 * f + 2 * q))) (fos (a (7 + 6 * f + 2 * q))) in
         let s0 = ref 0. and s1 = ref 0. and s2 = ref 0. in
         List.iter (fun (p : fc part_in) ->
             let zs = [| z 0; z 1; fopp (z 2) |] in
             let ((p0, p1), p2) = p.p_perm in
             let y1 = zs.(p0) and y2 = zs.(p1) and y3 = zs.(p2) in
             let cabs (x : fc) = Stdlib.sqrt (re x *. re x +. im x *. im x) in
             (match f_part_visits fexp 0 p with
              | Done vs ->
                List.iter (fun (v : fc visit) ->
                    let e1 = re (List.nth p.p_E1 v.v_i1) and e2 = re (List.nth p.p_E2 v.v_i2) and e3 = re (List.nth p.p_E3 v.v_i3) and e4 = re (List.nth p.p_E4 v.v_i4) in
                    let w1 = re (List.nth p.p_W1 v.v_i1) and w2 = re (List.nth p.p_W2 v.v_i2) and w3 = re (List.nth p.p_W3 v.v_i3) and w4 = re (List.nth p.p_W4 v.v_i4) in
                    let me = cabs v.v_O1 *. cabs v.v_O2 *. cabs (coeff no p.p_O3 v.v_i3 v.v_i4) *. cabs (coeff no p.p_CX4 v.v_i1 v.v_i4) in
                    let d x e = Float.max 1e-300 (cabs (fsub x (c e 0.))) in
                    let d1 = d y1 (e2 -. e1) and d2 = d y2 (e3 -. e2) and d3 = d y3 (e4 -. e3) in
                    let d4 = d (fadd (fadd y1 y2) y3) (e4 -. e1) in
                    let d12 = cabs (fsub (fadd y1 y2) (c (e3 -. e1) 0.)) and d23 = cabs (fsub (fadd y2 y3) (c (e4 -. e2) 0.)) in
                    let b = !beta in
                    let piece v inv = s0 := !s0 +. me *. v; s1 := !s1 +. me *. v *. inv in
                    piece ((w1 +. w4) /. (d1 *. d4 *. d3)) (1. /. d1 +. 1. /. d4 +. 1. /. d3);
                    piece ((w2 +. w3) /. (d1 *. d2 *. d3)) (1. /. d1 +. 1. /. d2 +. 1. /. d3);
                    (if d12 < 1e-8 then piece (b *. w1 /. (d1 *. d3)) (1. /. d1 +. 1. /. d3)
                     else piece ((w1 +. w3) /. (d12 *. d1 *. d3)) (1. /. d1 +. 1. /. d3 +. 1. /. d12));
                    (if d23 < 1e-8 then piece (b *. w2 /. (d1 *. d3)) (1. /. d1 +. 1. /. d3)
                     else piece ((w2 +. w4) /. (d23 *. d1 *. d3)) (1. /. d1 +. 1. /. d3 +. 1. /. d23));
                    s2 := !s2 +. Float.max 1. me *. (1. /. (d1 *. d4 *. d3) +. 1. /. (d1 *. d2 *. d3)
                                  +. (1. +. 1. /. Float.max 1e-8 d12 +. 1. /. Float.max 1e-8 d23) /. (d1 *. d3))) vs
              | _ -> ())) ps;
         Printf.printf " %h %h %h" !s0 !s1 !s2
       done; print_newline ())
  | "mt" ->
    let cx s = match String.split_on_char ',' s with [r; i] -> c (fos r) (fos i) | [r] -> c (fos r) 0. | _ -> failwith "complex" in
    let v k = cx (a k) in
    let tlz = tl () in
    let m = f_multiterm_value fexp tlz (v 1) (v 2) (v 3) (v 4) (v 5) (v 6) (v 7) (v 8) (v 9) (v 10) (v 11) (v 12) (v 13) in
    let ph = f_phi fexp (v 2) tlz.t_reduce (v 3) (v 4) (v 5) (v 6) (v 7) (v 8) (v 9) (v 10) (v 11) (v 12) (v 13) in
    Printf.printf "MT %s %s\n" (hc m) (hc (fmul (v 1) ph))
  | _ -> ()

let () =
  try
    while true do
      let line = input_line stdin in
      let t = Array.of_list (List.filter (fun s -> s <> "") (String.split_on_char ' ' (String.trim line))) in
      if Array.length t > 0 then begin
        (try handle t with
         | Not_found -> Printf.printf "MODEL-ERROR Not_found %s\n" t.(0)
         | Invalid_argument m | Failure m -> Printf.printf "MODEL-ERROR %s %s\n" m t.(0));
        flush stdout
      end
    done
  with End_of_file -> ()
