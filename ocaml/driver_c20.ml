(* Driver for the C20 model (extracted PV.Lattice at labels = int, amplitudes = Q).

   driver_c20 model <fix_getsite 0|1> <fix_shapecheck 0|1>
       reads the same history text as harness/h_c20.cpp and prints the same canonical blocks
       (amplitudes as reduced fractions p/q instead of hex floats; UB instead of UB-skipped).
   driver_c20 judge
       reads histories in which every call that may change the lattice is followed by what the
       implementation was observed to do:
            <call line>
            obs <exception 0|1> <k>
            T <term>        (k lines: the terms that appeared in the storage during the call)
       and prints for each such call   J ok   or   J <violated clause numbers of Lattice.judge>.
       The site map is the specification's (last addSite per label wins). *)
open C20_model

let rec pos_of_int n = if n = 1 then XH else if n land 1 = 0 then XO (pos_of_int (n lsr 1)) else XI (pos_of_int (n lsr 1))
let z_of_int n = if n = 0 then Z0 else if n > 0 then Zpos (pos_of_int n) else Zneg (pos_of_int (-n))
let rec int_of_pos = function XH -> 1 | XO p -> 2 * int_of_pos p | XI p -> 2 * int_of_pos p + 1
let int_of_z = function Z0 -> 0 | Zpos p -> int_of_pos p | Zneg p -> - (int_of_pos p)

(* "p/q", or a decimal such as -0.25, 2, .5 *)
let q_of_string s =
  match String.index_opt s '/' with
  | Some i -> qred { qnum = z_of_int (int_of_string (String.sub s 0 i));
                     qden = pos_of_int (int_of_string (String.sub s (i+1) (String.length s - i - 1))) }
  | None ->
    let neg = String.length s > 0 && s.[0] = '-' in
    let s' = if neg || (String.length s > 0 && s.[0] = '+') then String.sub s 1 (String.length s - 1) else s in
    let ip, fp = match String.index_opt s' '.' with
      | None -> s', ""
      | Some i -> String.sub s' 0 i, String.sub s' (i+1) (String.length s' - i - 1) in
    let ip = if ip = "" then "0" else ip in
    let den = ref 1 in String.iter (fun _ -> den := !den * 10) fp;
    let num = int_of_string (ip ^ fp) in
    qred { qnum = z_of_int (if neg then - num else num); qden = pos_of_int !den }
let string_of_q q = Printf.sprintf "%d/%d" (int_of_z q.qnum) (int_of_pos q.qden)

(* labels <-> numbers, per history *)
let tbl : (string, int) Hashtbl.t = Hashtbl.create 16
let rev : (int, string) Hashtbl.t = Hashtbl.create 16
let lab s = match Hashtbl.find_opt tbl s with
  | Some n -> n
  | None -> let n = Hashtbl.length tbl in Hashtbl.add tbl s n; Hashtbl.add rev n s; n
let name n = try Hashtbl.find rev n with Not_found -> Printf.sprintf "?%d" n

let join f l = if l = [] then "-" else String.concat "," (List.map f l)
let ser_term (t : qterm) =
  Printf.sprintf "%d %s %s %s %s %s" (List.length t.t_ops)
    (if t.t_ops = [] then "-" else String.concat "" (List.map (fun b -> if b then "1" else "0") t.t_ops))
    (join name t.t_labels) (join string_of_int t.t_orbs) (join string_of_int t.t_spins) (string_of_q t.t_val)

let split_list s = if s = "-" then [] else String.split_on_char ',' s
(* <N> <ops> <labels> <orbitals> <spins> <value> *)
let term_of_tokens = function
  | [_n; ops; ls; os; ss; v] ->
    { t_ops = (if ops = "-" then [] else List.init (String.length ops) (fun i -> ops.[i] = '1'));
      t_labels = List.map lab (split_list ls); t_orbs = List.map int_of_string (split_list os);
      t_spins = List.map int_of_string (split_list ss); t_val = q_of_string v }
  | _ -> failwith "term line"

let i = int_of_string
let v = q_of_string

(* a call of the history as a model operation *)
let op_of_tokens (t : string list) : qop option =
  match t with
  | ["site"; l; a; b] -> Some (AddSite (lab l, i a, i b))
  | "term" :: n :: value :: rest ->
    let n = i n in
    let rec go k r = if k = 0 then [] else match r with
      | o :: l :: a :: b :: r' -> (o <> "0", lab l, i a, i b) :: go (k - 1) r'
      | _ -> failwith "term" in
    let items = go n rest in
    Some (AddTerm { t_ops = List.map (fun (o, _, _, _) -> o) items; t_labels = List.map (fun (_, l, _, _) -> l) items;
                    t_orbs = List.map (fun (_, _, a, _) -> a) items; t_spins = List.map (fun (_, _, _, b) -> b) items;
                    t_val = v value })
  | ["addCoulombS"; l; u; e] -> Some (Preset (PCoulombS (lab l, v u, v e)))
  | ["addCoulombP"; l; u; up; j; e] -> Some (Preset (PCoulombP (lab l, v u, v up, v j, v e)))
  | ["addCoulombP3"; l; u; j; e] -> Some (Preset (PCoulombP3 (lab l, v u, v j, v e)))
  | ["addLevel"; l; e] -> Some (Preset (PLevel (lab l, v e)))
  | ["addMagnetization"; l; m] -> Some (Preset (PMagnetization (lab l, v m)))
  | ["addSzSz"; a; b; j] -> Some (Preset (PSzSz (lab a, lab b, v j)))
  | ["addSS"; a; b; j] -> Some (Preset (PSS (lab a, lab b, v j)))
  | ["addHopping8"; a; b; x; o1; o2; s1; s2] -> Some (Preset (PHopping8 (lab a, lab b, v x, i o1, i o2, i s1, i s2)))
  | ["addHopping7"; a; b; x; o1; o2; s] -> Some (Preset (PHopping7 (lab a, lab b, v x, i o1, i o2, i s)))
  | ["addHopping6"; a; b; x; o1; o2] -> Some (Preset (PHopping6 (lab a, lab b, v x, i o1, i o2)))
  | ["addHopping4"; a; b; x] -> Some (Preset (PHopping4 (lab a, lab b, v x)))
  | ["tHopping7"; a; b; x; o1; o2; s1; s2] -> Some (AddFactoryTerm (FHopping7 (lab a, lab b, v x, i o1, i o2, i s1, i s2)))
  | ["tHopping5"; a; b; x; o; s] -> Some (AddFactoryTerm (FHopping5 (lab a, lab b, v x, i o, i s)))
  | ["tLevel4"; l; x; o; s] -> Some (AddFactoryTerm (FLevel4 (lab l, v x, i o, i s)))
  | ["tNupNdown7"; a; b; x; o1; o2; s1; s2] -> Some (AddFactoryTerm (FNupNdown7 (lab a, lab b, v x, i o1, i o2, i s1, i s2)))
  | ["tNupNdown6"; l; x; o1; o2; s1; s2] -> Some (AddFactoryTerm (FNupNdown6 (lab l, v x, i o1, i o2, i s1, i s2)))
  | ["tNupNdown4"; l; x; o1; o2] -> Some (AddFactoryTerm (FNupNdown4 (lab l, v x, i o1, i o2)))
  | ["tNupNdown5"; l; x; o; s1; s2] -> Some (AddFactoryTerm (FNupNdown5 (lab l, v x, i o, i s1, i s2)))
  | ["tNupNdown3"; l; x; o] -> Some (AddFactoryTerm (fNupNdown3 (lab l) (v x) (i o)))
  | ["tSpinflip6"; l; x; o1; o2; s1; s2] -> Some (AddFactoryTerm (FSpinflip6 (lab l, v x, i o1, i o2, i s1, i s2)))
  | ["tSpinflip4"; l; x; o1; o2] -> Some (AddFactoryTerm (fSpinflip4 (lab l) (v x) (i o1) (i o2)))
  | ["tPairHopping6"; l; x; o1; o2; s1; s2] -> Some (AddFactoryTerm (FPairHopping6 (lab l, v x, i o1, i o2, i s1, i s2)))
  | ["tPairHopping4"; l; x; o1; o2] -> Some (AddFactoryTerm (fPairHopping4 (lab l) (v x) (i o1) (i o2)))
  | ["tSplusSminus4"; a; b; x; o] -> Some (AddFactoryTerm (FSplusSminus4 (lab a, lab b, v x, i o)))
  | ["tSminusSplus4"; a; b; x; o] -> Some (AddFactoryTerm (FSminusSplus4 (lab a, lab b, v x, i o)))
  | ["getSite"; l] -> Some (GetSite (lab l))
  | ["getTerms"; n] -> Some (GetTerms (i n))
  | ["maxOrder"] -> Some MaxOrder
  | ["copy"] -> Some Copy
  | _ -> None

let sorted_sites (st : qstate) = List.sort compare (List.map (fun (l, (a, b)) -> (name l, a, b)) st.sites)
let sorted_terms (st : qstate) = List.sort (fun (a, _) (b, _) -> compare a b) st.terms
let print_dump (st : qstate) =
  List.iter (fun (l, a, b) -> Printf.printf " S %s %d %d\n" l a b) (sorted_sites st);
  Printf.printf " M %d\n" st.maxorder;
  List.iter (fun (_, l) -> List.iter (fun t -> Printf.printf " T %s\n" (ser_term t)) l) (sorted_terms st)

let rec drop n l = if n = 0 then l else match l with [] -> [] | _ :: r -> drop (n - 1) r
let rec is_prefix a b = match a, b with [] , _ -> true | x :: a', y :: b' -> x = y && is_prefix a' b' | _ -> false
let print_delta (a : qstate) (b : qstate) =
  let nonappend = List.exists (fun (n, l) -> match List.assoc_opt n b.terms with
      | None -> true | Some l' -> not (is_prefix l l')) a.terms in
  if nonappend then (print_string " ! nonappend\n"; print_dump b) else begin
    List.iter (fun (n, l') ->
        let from = match List.assoc_opt n a.terms with None -> 0 | Some l -> List.length l in
        List.iter (fun t -> Printf.printf " + %s\n" (ser_term t)) (drop from l')) (sorted_terms b);
    let sa = sorted_sites a and sb = sorted_sites b in
    List.iter (fun (l, x, y) -> if not (List.mem (l, x, y) sa) then Printf.printf " s %s %d %d\n" l x y) sb;
    List.iter (fun (l, _, _) -> if not (List.exists (fun (l', _, _) -> l' = l) sb) then Printf.printf " s %s removed\n" l) sa;
    if a.maxorder <> b.maxorder then Printf.printf " m %d\n" b.maxorder
  end

let tokens line = List.filter (fun w -> w <> "") (String.split_on_char ' ' (String.trim line))

let string_of_exn c = if c = 1 then "exWrongLabel" else if c = 2 then "exWrongIndices" else Printf.sprintf "other:code%d" c

let run_model cfg =
  let r = ref q_rinit in
  (try while true do
      let line = input_line stdin in
      match tokens line with
      | [] -> ()
      | w :: _ when w.[0] = '#' -> ()
      | "history" :: rest ->
        r := q_rinit; Hashtbl.reset tbl; Hashtbl.reset rev;
        Printf.printf "== %s\n" (match rest with x :: _ -> x | [] -> "")
      | ["dump"] -> print_string "@ dump\n"; print_dump !r.cur
      | ["origs"] ->
        Printf.printf "@ origs %d\n" (List.length !r.origs);
        List.iteri (fun k _ -> Printf.printf " O %d unchanged\n" k) !r.origs
      | t ->
        (match (try op_of_tokens t with _ -> None) with
         | None -> print_string "@ unknown-command\n"
         | Some o ->
           let before = !r.cur in
           let (r', res) = q_rstep cfg o !r in
           r := r';
           (match o, res with
            | Copy, _ -> print_string "@ copy same\n"; print_dump r'.cur
            | _, Done ONone -> print_string "@ ok\n"; print_delta before r'.cur
            | _, Done (OSite (a, b)) -> Printf.printf "@ site %d %d\n" a b
            | GetTerms n, Done (OTerms l) ->
              Printf.printf "@ terms %d %d\n" n (List.length l);
              List.iter (fun t -> Printf.printf " T %s\n" (ser_term t)) l
            | _, Done (OTerms _) -> print_string "@ ?\n"
            | _, Done (ONat n) -> Printf.printf "@ maxorder %d\n" n
            | (GetSite _ | GetTerms _ | MaxOrder), Throws c -> Printf.printf "@ %s\n" (string_of_exn c)
            | (GetSite _ | GetTerms _ | MaxOrder), OOB -> print_string "@ UB\n"
            | _, Throws c -> Printf.printf "@ %s\n" (string_of_exn c); print_delta before r'.cur
            | _, OOB -> print_string "@ UB\n"; print_delta before r'.cur
            | _, Uninit -> print_string "@ UNINIT\n"
            | _, OutOfFuel -> print_string "@ FUEL\n"))
    done with End_of_file -> ())

let run_judge () =
  let sites = ref [] in
  (try while true do
      let line = input_line stdin in
      match tokens line with
      | [] -> ()
      | "history" :: rest ->
        sites := []; Hashtbl.reset tbl; Hashtbl.reset rev;
        Printf.printf "== %s\n" (match rest with x :: _ -> x | [] -> "")
      | t ->
        (match (try op_of_tokens t with _ -> None) with
         | None -> print_string "J unknown-command\n"
         | Some o ->
           (* the observation follows *)
           let exn, k = match tokens (input_line stdin) with
             | ["obs"; e; k] -> (e = "1", int_of_string k)
             | _ -> failwith "obs line expected" in
           let delta = List.init k (fun _ -> match tokens (input_line stdin) with
               | "T" :: rest -> term_of_tokens rest
               | _ -> failwith "T line expected") in
           let verdict = q_judge !sites o exn delta in
           (match o with AddSite (l, a, b) -> sites := q_set_site l (a, b) !sites | _ -> ());
           if verdict = [] then print_string "J ok\n"
           else Printf.printf "J %s\n" (String.concat " " (List.map string_of_int verdict)))
    done with End_of_file -> ())

let () =
  match Array.to_list Sys.argv with
  | [_; "model"; a; b] -> run_model { fix_getsite = (a = "1"); fix_shapecheck = (b = "1") }
  | [_; "judge"] -> run_judge ()
  | _ -> prerr_endline "usage: driver_c20 model <fix_getsite> <fix_shapecheck> | judge"; exit 2
