(* C03 / C10 correspondence driver.  Reads records of the h_ed dump (N, HPOLY, NBLOCKS, BLOCK, VEC, EIG, OPMAP,
   OPMAT; hex floats), then commands, and answers them from the extracted Coq model (PV.HPart) and the
   extracted specification (PV.EDSpec / PV.HPartSpec) at binary64 complex numbers.
   Hand-written glue only: parsing, sparse <-> dense conversion, printing.  All mathematics is extracted code.

   commands:  mode fixed|unfixed     which label test the model uses (established by harness h_c03)
              sbi                    MSBI: the model's StateBlockIndex
              hblk                   MHBLK b size entries...            model of HamiltonianPart::prepare
              energies               MGROUND, MESTATE, MEALL, MELABEL, MCOMP b ..., BCERT b resid unit
              ops                    per dumped OPMAT: MMAP, MOPD (model, dense), MOPS (model, pruned, sparse),
                                     MCOPY (container copy of the dumped c^+ part), SOP (specification, dense), BACK, OUTSIDE
              car                    CAR kind max|{c_i,c^+_j}-delta| max|{c_i,c_j}| max|{c^+_i,c^+_j}| *)
open C03_model

let fexp (x : Float64.t) : Float64.t = Float64.of_float (Stdlib.exp (Float64.to_float x))
let fl x = Float64.of_float x
let tf x = Float64.to_float x
let c re im : fc = (fl re, fl im)
let re (z : fc) = tf (fst z)
let im (z : fc) = tf (snd z)
let hc z = Printf.sprintf "%h %h" (re z) (im z)
let fos = float_of_string
let ios = int_of_string

let n = ref 0
let hpoly : (monomial * fc) list ref = ref []
let nblocks = ref 0
let blocks : (int, int list) Hashtbl.t = Hashtbl.create 16
let vecs : (int, fc list list) Hashtbl.t = Hashtbl.create 16
let eigs : (int, fc list) Hashtbl.t = Hashtbl.create 16
let opmaps : (string * int, (int * int) list) Hashtbl.t = Hashtbl.create 16
(* kind, idx, left, right, rows, cols, entries *)
let opmats : (string * int * int * int * int * int * (int * int * fc) list) list ref = ref []
let fixed = ref false

let block_list () = List.init !nblocks (fun b -> try Hashtbl.find blocks b with Not_found -> [])
let classif () = m_classification !n (block_list ())
let bsize b = List.length (Hashtbl.find blocks b)

let show_outcome pr = function
  | Done a -> pr a
  | OOB -> "FAIL OOB"
  | Uninit -> "FAIL Uninit"
  | Throws k -> Printf.sprintf "FAIL Throws%d" k
  | OutOfFuel -> "FAIL OutOfFuel"

let dense_str (m : fc list list) = String.concat " " (List.concat_map (fun r -> List.map hc r) m)
let dense_of_sparse rows cols (es : (int * int * fc) list) : fc list list =
  let a = Array.make_matrix rows cols (c 0. 0.) in
  List.iter (fun (r, k, v) -> if r < rows && k < cols then a.(r).(k) <- v) es;
  Array.to_list (Array.map Array.to_list a)
let sparse_str keep (m : fc list list) =
  let acc = ref [] and cnt = ref 0 in
  List.iteri (fun r row -> List.iteri (fun k v -> if keep v then begin incr cnt; acc := Printf.sprintf "%d %d %s" r k (hc v) :: !acc end) row) m;
  Printf.sprintf "%d %s" !cnt (String.concat " " (List.rev !acc))

let fop_of kind idx =
  match kind with
  | "cdag" | "cdag1" -> FCdag idx
  | "c" | "c1" -> FC idx
  | "quad" -> FQuad (idx / 100, idx mod 100)
  | _ -> failwith ("unknown operator kind " ^ kind)

let tol_ref = c 1e-8 0.       (* MatrixElementTolerance, FieldOperatorPart.cpp:10 *)
let tol_prec = c 1e-12 0.     (* Eigen::NumTraits<double>::dummy_precision() *)

let block_of_label = ref [||]
let prepare_block_of_label () =
  let d = 1 lsl !n in
  let a = Array.make d (-1) in
  Hashtbl.iter (fun b st -> List.iter (fun s -> if s < d then a.(s) <- b) st) blocks;
  block_of_label := a

let parts () : fc hpart list = List.init !nblocks (fun b -> (Hashtbl.find eigs b, Hashtbl.find vecs b))

let handle (t : string array) =
  let a k = t.(k) in
  match a 0 with
  | "N" -> n := ios (a 1); Hashtbl.reset blocks; Hashtbl.reset vecs; Hashtbl.reset eigs; Hashtbl.reset opmaps; opmats := []
  | "HPOLY" ->
    let nt = ios (a 1) in
    let p = ref 2 and acc = ref [] in
    for _ = 1 to nt do
      let coef = c (fos (a !p)) (fos (a (!p + 1))) in
      let len = ios (a (!p + 2)) in
      p := !p + 3;
      let m = ref [] in
      for _ = 1 to len do
        let dag = ios (a !p) and ix = ios (a (!p + 1)) in
        m := (if dag = 1 then cdag ix else cann ix) :: !m; p := !p + 2
      done;
      acc := (List.rev !m, coef) :: !acc
    done;
    hpoly := List.rev !acc
  | "NBLOCKS" -> nblocks := ios (a 1)
  | "BLOCK" -> Hashtbl.replace blocks (ios (a 1)) (List.init (ios (a 2)) (fun k -> ios (a (3 + k))))
  | "VEC" ->
    let b = ios (a 1) and s = ios (a 2) in
    Hashtbl.replace vecs b (List.init s (fun r -> List.init s (fun k -> c (fos (a (3 + 2 * (r * s + k)))) (fos (a (4 + 2 * (r * s + k)))))))
  | "EIG" -> Hashtbl.replace eigs (ios (a 1)) (List.init (Array.length t - 2) (fun k -> c (fos (a (2 + k))) 0.))
  | "OPMAP" ->
    let np = ios (a 3) in
    Hashtbl.replace opmaps (a 1, ios (a 2)) (List.init np (fun k -> (ios (a (4 + 2 * k)), ios (a (5 + 2 * k)))))
  | "OPMAT" ->
    let nnz = ios (a 7) in
    let es = List.init nnz (fun k -> (ios (a (8 + 4 * k)), ios (a (9 + 4 * k)), c (fos (a (10 + 4 * k))) (fos (a (11 + 4 * k))))) in
    opmats := (a 1, ios (a 2), ios (a 3), ios (a 4), ios (a 5), ios (a 6), es) :: !opmats
  | "mode" -> fixed := (a 1 = "fixed")
  | "sbi" ->
    let s = classif () in
    Printf.printf "MSBI %s\n" (String.concat " " (List.map string_of_int s.sc_index))
  | "hblk" ->
    let s = classif () in
    for b = 0 to !nblocks - 1 do
      Printf.printf "MHBLK %d %s\n" b
        (show_outcome (fun m -> Printf.sprintf "%d %s" (List.length m) (dense_str m)) (m_hpart_prepare fexp !fixed s !hpoly b))
    done
  | "energies" ->
    let s = classif () in
    let ps = parts () in
    Printf.printf "MGROUND %s\n" (show_outcome (fun z -> Printf.sprintf "%h" (re z)) (m_ground fexp ps));
    let d = 1 lsl !n in
    Printf.printf "MESTATE %s\n" (String.concat " " (List.init d (fun q ->
      match m_getEigenValue !fixed s ps q with Done z -> Printf.sprintf "%h" (re z) | o -> String.concat ":" (String.split_on_char ' ' (show_outcome (fun _ -> "") o)))));
    Printf.printf "MEALL %s\n" (show_outcome (fun l -> String.concat " " (List.map (fun z -> Printf.sprintf "%h" (re z)) l)) (m_getEigenValues s ps));
    Printf.printf "MELABEL %d %s\n" d (show_outcome (fun z -> Printf.sprintf "%h" (re z)) (m_getEigenValue !fixed s ps d));
    for b = 0 to !nblocks - 1 do
      (match m_hpart_prepare fexp !fixed s !hpoly b with
       | Done h ->
         let sz = List.length h in
         let (e, u) = m_hpart_compute fexp h (Hashtbl.find eigs b, Hashtbl.find vecs b) in
         if sz = 1 then Printf.printf "MCOMP %d %d %s | %s\n" b sz (String.concat " " (List.map (fun z -> Printf.sprintf "%h" (re z)) e)) (dense_str u);
         Printf.printf "BCERT %d %d %h %h\n" b sz (re (s_residual_HU fexp sz h u e)) (re (s_residual_unitary fexp sz u))
       | o -> Printf.printf "BCERT %d %s\n" b (show_outcome (fun _ -> "") o))
    done
  | "ops" ->
    let s = classif () in
    prepare_block_of_label ();
    let seen = Hashtbl.create 16 in
    List.iter (fun (kind, idx, left, right, rows, cols, es) ->
      let o = fop_of kind idx in
      let poly = m_fop_poly fexp o in
      if not (Hashtbl.mem seen (kind, idx)) then begin
        Hashtbl.add seen (kind, idx) ();
        (* block map of the model, ascending in the left index as the bimap iterates *)
        Printf.printf "MMAP %s %d %s\n" kind idx
          (show_outcome (fun ps ->
             let bm = List.sort compare (m_fo_bimap ps) in
             Printf.sprintf "%d %s" (List.length bm) (String.concat " " (List.map (fun (l, r) -> Printf.sprintf "%d %d" l r) bm)))
             (m_fo_prepare fexp !fixed s o));
        let full = s_poly_matrix fexp !n poly in
        let pairs = try Hashtbl.find opmaps (kind, idx) with Not_found -> [] in
        Printf.printf "OUTSIDE %s %d %d\n" kind idx (s_outside fexp full (fun q -> if q < Array.length !block_of_label then !block_of_label.(q) else -1) pairs)
      end;
      let uto = Hashtbl.find vecs left and ufrom = Hashtbl.find vecs right in
      let tos = Hashtbl.find blocks left and froms = Hashtbl.find blocks right in
      let nt = List.length tos and nf = List.length froms in
      (match m_fop_dense fexp !fixed s o right left ufrom uto with
       | Done d ->
         Printf.printf "MOPD %s %d %d %d %d %d %s\n" kind idx left right nt nf (dense_str d);
         Printf.printf "MOPS %s %d %d %d %s\n" kind idx left right (sparse_str (m_keep fexp tol_ref tol_prec) d)
       | oc -> Printf.printf "MOPD %s %d %d %d %s\n" kind idx left right (show_outcome (fun _ -> "") oc));
      let jw = s_restrict fexp (s_poly_matrix fexp !n poly) tos froms in
      let spec = s_rotate_block fexp nt nf uto jw ufrom in
      Printf.printf "SOP %s %d %d %d %d %d %s\n" kind idx left right nt nf (dense_str spec);
      let stored = dense_of_sparse rows cols es in
      let back = s_rotate_back fexp nt nf uto stored ufrom in
      Printf.printf "BACK %s %d %d %d %h\n" kind idx left right (re (s_max_dev fexp jw back));
      if kind = "c" then begin
        (* the container's copy: adjoint of the dumped creation part (right -> left) *)
        match List.find_opt (fun (k, i, l, r, _, _, _) -> k = "cdag" && i = idx && l = right && r = left) !opmats with
        | Some (_, _, _, _, rows', cols', es') ->
          let cd = dense_of_sparse rows' cols' es' in
          (match m_container_copy fexp bsize [(right, left)] [((right, left), cd)] [(left, right)] with
           | Done [(_, Some m)] -> Printf.printf "MCOPY %s %d %d %d %s\n" kind idx left right (sparse_str (fun z -> re z <> 0. || im z <> 0.) m)
           | Done _ -> Printf.printf "MCOPY %s %d %d %d FAIL unassigned\n" kind idx left right
           | oc -> Printf.printf "MCOPY %s %d %d %d %s\n" kind idx left right (show_outcome (fun _ -> "") oc))
        | None -> Printf.printf "MCOPY %s %d %d %d FAIL no-creation-part\n" kind idx left right
      end) (List.rev !opmats)
  | "car" ->
    let sizes = List.init !nblocks bsize in
    let dim = 1 lsl !n in
    List.iter (fun (kc, kx) ->
      let glob kind i =
        s_assemble fexp sizes (List.filter_map (fun (k, ix, l, r, rows, cols, es) ->
          if k = kind && ix = i then Some ((l, r), dense_of_sparse rows cols es) else None) !opmats) in
      let have kind i = List.exists (fun (k, ix, _, _, _, _, _) -> k = kind && ix = i) !opmats in
      let idxs = List.filter (fun i -> have kc i && have kx i) (List.init !n (fun i -> i)) in
      if idxs <> [] then begin
        let cs = List.map (fun i -> (i, glob kc i)) idxs and xs = List.map (fun i -> (i, glob kx i)) idxs in
        let zero = s_scalar fexp dim (c 0. 0.) and one = s_scalar fexp dim (c 1. 0.) in
        let mx = ref 0. and mcc = ref 0. and mxx = ref 0. in
        List.iter (fun (i, ci) -> List.iter (fun (j, xj) ->
          mx := max !mx (re (s_max_dev fexp (s_anticomm fexp dim ci xj) (if i = j then one else zero)))) xs) cs;
        List.iter (fun (i, ci) -> List.iter (fun (j, cj) -> if i <= j then
          mcc := max !mcc (re (s_max_dev fexp (s_anticomm fexp dim ci cj) zero))) cs) cs;
        List.iter (fun (i, xi) -> List.iter (fun (j, xj) -> if i <= j then
          mxx := max !mxx (re (s_max_dev fexp (s_anticomm fexp dim xi xj) zero))) xs) xs;
        Printf.printf "CAR %s %d %h %h %h\n" kc (List.length idxs) !mx !mcc !mxx
      end) [("c", "cdag"); ("c1", "cdag1")]
  | _ -> ()

let () =
  try
    while true do
      let line = input_line stdin in
      let t = Array.of_list (List.filter (fun s -> s <> "") (String.split_on_char ' ' (String.trim line))) in
      if Array.length t > 0 then begin
        (try handle t with
         | Not_found -> Printf.printf "DRIVER-ERROR Not_found %s\n" t.(0)
         | Invalid_argument m | Failure m -> Printf.printf "DRIVER-ERROR %s %s\n" m t.(0));
        flush stdout
      end
    done
  with End_of_file -> ()
