(* Driver for the C06 model (extracted from coq/theories/SplitComm.v + coq/gen/Gen_SplitColors.v).
   Predicts, for one parallel configuration, what every rank does collectively and where the data ends up.

   INPUT  one request per line on stdin (blank lines and lines starting with # are ignored):

     flags
     split   <P> <ncomp> <pattern> <clear:0|1> <nonempty:0|1> <fixflags> [jm=<spec>] [col=float|exact]
     nosplit <P> <ncomp> <pattern> <clear:0|1> <nonempty:0|1> <fixflags> [jm=<spec>]
     ham     <P> <nblocks> <fixflags> [jm=<spec>]

     <pattern>   comma-separated, one token per component, in container order (ncomp tokens; `-` if ncomp = 0):
                   v      vanishing, no parts                       (TwoParticleGF::Vanishing, parts.size() = 0)
                   <n>    not vanishing, n parts (n >= 0)
                   v<n>   vanishing with n parts (cannot be produced by prepare(); accepted for completeness)
                 An element that is already Computed when the call is made (second visit of an aliased element in
                 computeAll_nosplit) behaves like `v` for collectives and for the returned table.
     <nonempty>  1 if the frequency list passed to computeAll is non-empty
     <fixflags>  three characters 0|1: barrier (mpi_skel.hpp:82 on comm), root (first rank of a colour is its root),
                 status (received parts marked Computed);  or the word `code` = what the translator reads off /repo
     jm=<spec>   the job map of every dispatch round = which LOCAL rank of the communicator ran which part:
                   rr (default)  part p on local rank p mod size        0   every part on local rank 0
                   last          every part on the last local rank
                   explicit      k:r0.r1.r2;k':r0...   component k: part 0 on r0, part 1 on r1, ... (others: rr)
                 Tables, evaluability and the matching of collectives do not depend on it (theorems
                 tables_all_ranks_sum, terms_and_status_everywhere, collectives_match_split); only the roots of the
                 per-part broadcasts inside a communicator (tokens b<root> below) do.
     col=        float (default): rank colours evaluated in binary64 exactly as the C++; exact: floor(p*ncolors/P)

   OUTPUT for `flags`:
     FLAGS barrier_on_comm=<b> root_is_first=<b> parts_marked_computed=<b> shape=<before>,<after>,<bc_root>,<bc_other>,<ROOT>,<bc_per_part>

   OUTPUT for split / nosplit (one block, terminated by END):
     CASE <kind> P=<P> ncomp=<n> ncolors=<n> fixes=<bbb> clear=<b> nonempty=<b> colours_ok=<b>
     RANK <r> colour=<c> local=<l> size=<n>                       (split only: colour, local rank in and size of comm_split)
     COMP <k> colour=<c> sender=<s> size=<n> vanishing=<b> parts=<n>   (split only; sender = world rank)
     SEQ <r> <comm> <ops...>        for every rank r and every communicator it issues collectives on, in first-use order;
                                    <comm> = W (the communicator passed in) | C<c> (comm_split of colour c);
                                    ops: B barrier, S split, b<root> broadcast, r<root> reduce; roots are LOCAL ranks
                                    of <comm>.  These are Boost.MPI-level calls (a boost::mpi::broadcast of a serialised
                                    object may be more than one MPI_Bcast underneath).
     TRACE <r> <comm>:<op> ...      the same events of rank r in program order, all communicators interleaved
     COUNT <r> barrier=<n> bcast=<n> reduce=<n> split=<n>
     MATCH <b>                      on every communicator all members issue the same sequence
     RUN completes steps=<n>        the blocking execution of all traces finishes on every rank ...
     RUN deadlock steps=<n> stuck=<r>@<comm>:<op>,...     ... or gets stuck: what every unfinished rank waits in
     STATE <r> <k> table=<T> evaluable=<b> terms=<b> status=<Computed|Prepared> parts=<per part: C|N><+|-> ...>
                                    T = Sum (every part exactly once = the single-rank result) | Zeros | Empty (length 0)
                                      | Absent (no entry in the returned map) | Partial[<parts>] (some parts only);
                                    evaluable: TwoParticleGF::operator() does not throw on rank r;
                                    terms: every part's term lists are filled (evaluation gives the single-rank value);
                                    per part: C = Status Computed, N = not; + = terms present, - = term lists empty
     END

   OUTPUT for ham (Hamiltonian::prepare then ::compute on the communicator passed in):
     CASE ham P=<P> nblocks=<n> fixes=<bbb>
     SEQ <r> W <ops of prepare> | <ops of compute>
     MATCH <b>
     EIG <r> <per block: rank whose diagonalisation the data on r is, or ? if the broadcast root is invalid>
     IDENTICAL <b>                  all ranks hold the same eigen-data
     END

   A malformed request yields one line  ERROR <text>. *)
open C06_model

let b2s b = if b then "1" else "0"
let s2b = function "1" -> true | "0" -> false | s -> failwith ("expected 0|1, got " ^ s)

let comm_s = function World -> "W" | Colour c -> Printf.sprintf "C%d" c
let kind_s = function
  | Barrier -> "B" | Split -> "S"
  | Bcast r -> Printf.sprintf "b%d" r | Reduce r -> Printf.sprintf "r%d" r

let range n = List.init n (fun i -> i)

let parse_fixes = function
  | "code" -> code_fixes
  | s when String.length s = 3 ->
      { fix_barrier = s2b (String.make 1 s.[0]); fix_root = s2b (String.make 1 s.[1]); fix_status = s2b (String.make 1 s.[2]) }
  | s -> failwith ("bad fixflags " ^ s)
let fixes_s f = b2s f.fix_barrier ^ b2s f.fix_root ^ b2s f.fix_status

let parse_pattern ncomp s =
  let toks = if s = "-" || s = "" then [] else String.split_on_char ',' s in
  if List.length toks <> ncomp then failwith "pattern length differs from ncomp";
  List.map (fun t ->
      if t = "v" then { vanishing = true; nparts = 0 }
      else if String.length t > 1 && t.[0] = 'v' then { vanishing = true; nparts = int_of_string (String.sub t 1 (String.length t - 1)) }
      else { vanishing = false; nparts = int_of_string t }) toks

(* options key=value after the positional arguments *)
let opt key args default =
  let pre = key ^ "=" in
  let n = String.length pre in
  match List.find_opt (fun a -> String.length a >= n && String.sub a 0 n = pre) args with
  | Some a -> String.sub a n (String.length a - n)
  | None -> default

(* job map: size k = size of the communicator component k is computed on *)
let make_jm spec (size : int -> int) : int -> int -> int =
  let rr k p = let n = size k in if n = 0 then 0 else p mod n in
  match spec with
  | "rr" -> rr
  | "0" -> (fun _ _ -> 0)
  | "last" -> (fun k _ -> max 0 (size k - 1))
  | s ->
      let tbl = Hashtbl.create 16 in
      List.iter (fun ent ->
          if ent <> "" then
            match String.split_on_char ':' ent with
            | [k; rs] -> List.iteri (fun p r -> Hashtbl.replace tbl (int_of_string k, p) (int_of_string r)) (String.split_on_char '.' rs)
            | _ -> failwith ("bad jm entry " ^ ent)) (String.split_on_char ';' s);
      (fun k p -> match Hashtbl.find_opt tbl (k, p) with Some r -> r | None -> rr k p)

(* tabulate a colouring once (the extracted one recomputes the float expression at every call) *)
let tabulate (col : colouring) p ncomp : colouring =
  let pa = Array.init (max p 1) (fun r -> col.pcol r) and ea = Array.init (max ncomp 1) (fun k -> col.ecol k) in
  { pcol = (fun r -> if r < Array.length pa then pa.(r) else col.pcol r);
    ecol = (fun k -> if k < Array.length ea then ea.(k) else col.ecol k) }

let table_s np = function
  | TAbsent -> "Absent"
  | TEmpty -> "Empty"
  | TData l as t ->
      if is_full_sum_b np t then "Sum"
      else if is_zeros_b t then "Zeros"
      else "Partial[" ^ String.concat "." (List.map string_of_int l) ^ "]"

let print_traces p (trace : int -> event list) =
  List.iter (fun r ->
      let t = trace r in
      let comms = List.fold_left (fun acc (c, _) -> if List.mem c acc then acc else acc @ [c]) [] t in
      List.iter (fun c ->
          Printf.printf "SEQ %d %s %s\n" r (comm_s c) (String.concat " " (List.map kind_s (proj c t)))) comms;
      Printf.printf "TRACE %d %s\n" r (String.concat " " (List.map (fun (c, k) -> comm_s c ^ ":" ^ kind_s k) t));
      let cnt f = List.length (List.filter (fun (_, k) -> f k) t) in
      Printf.printf "COUNT %d barrier=%d bcast=%d reduce=%d split=%d\n" r
        (cnt (function Barrier -> true | _ -> false)) (cnt (function Bcast _ -> true | _ -> false))
        (cnt (function Reduce _ -> true | _ -> false)) (cnt (function Split -> true | _ -> false))) (range p)

let print_run col p trace =
  Printf.printf "MATCH %s\n" (b2s (collectives_match_b col p trace));
  let total = List.fold_left (fun a r -> a + List.length (trace r)) 0 (range p) in
  let ((ok, sched), fin) = coll_exec col p (total + 1) trace in
  if ok then Printf.printf "RUN completes steps=%d\n" (List.length sched)
  else
    Printf.printf "RUN deadlock steps=%d stuck=%s\n" (List.length sched)
      (String.concat "," (List.filter_map (fun r -> match fin r with
           | (c, k) :: _ -> Some (Printf.sprintf "%d@%s:%s" r (comm_s c) (kind_s k)) | [] -> None) (range p)))

let print_states p comps (state : int -> compst list) =
  List.iter (fun r ->
      List.iteri (fun k (c, st) ->
          Printf.printf "STATE %d %d table=%s evaluable=%s terms=%s status=%s parts=%s\n" r k
            (table_s c.nparts st.tab) (b2s (evaluable c st)) (b2s (has_all_terms c st))
            (match st.gstat with GComputed -> "Computed" | GPrepared -> "Prepared")
            (if st.parts = [] then "-" else
               String.concat "" (List.map (fun ps -> (match ps.pstat with PComputed -> "C" | PConstructed -> "N")
                                                     ^ (if ps.terms then "+" else "-")) st.parts)))
        (List.combine comps (state r))) (range p)

let do_container kind args =
  match args with
  | p :: ncomp :: pattern :: clear :: fne :: fx :: rest ->
      let p = int_of_string p and ncomp = int_of_string ncomp in
      if p < 1 then failwith "P must be >= 1";
      let comps = parse_pattern ncomp pattern in
      let clear = s2b clear and fne = s2b fne and fx = parse_fixes fx in
      let split = (kind = "split") in
      let col0 = (match opt "col" rest "float" with
          | "float" -> float_colouring p ncomp | "exact" -> exact_colouring p ncomp | s -> failwith ("bad col " ^ s)) in
      let col = tabulate col0 p ncomp in
      let size k = if split then List.length (members col p (Colour (col.ecol k))) else p in
      let jm = make_jm (opt "jm" rest "rr") size in
      Printf.printf "CASE %s P=%d ncomp=%d ncolors=%d fixes=%s clear=%s nonempty=%s colours_ok=%s\n" kind p ncomp
        (ncolors p ncomp) (fixes_s fx) (b2s clear) (b2s fne) (b2s (colours_ok_b col p ncomp));
      if split then begin
        List.iter (fun r ->
            let c = col.pcol r in
            Printf.printf "RANK %d colour=%d local=%d size=%d\n" r c (local_rank col (Colour c) r)
              (List.length (members col p (Colour c)))) (range p);
        List.iteri (fun k c ->
            Printf.printf "COMP %d colour=%d sender=%d size=%d vanishing=%s parts=%d\n" k (col.ecol k)
              (sender fx col p k) (size k) (b2s c.vanishing) c.nparts) comps
      end;
      let trace = if split then split_trace fx col p comps clear jm else nosplit_trace fx comps clear jm in
      let state = if split then split_state fx col p comps clear fne jm else nosplit_state p comps clear fne jm in
      print_traces p trace;
      print_run col p trace;
      print_states p comps state;
      print_endline "END"
  | _ -> failwith "usage: split|nosplit P ncomp pattern clear nonempty fixflags [jm=..] [col=..]"

let do_ham args =
  match args with
  | p :: nb :: fx :: rest ->
      let p = int_of_string p and nb = int_of_string nb and fx = parse_fixes fx in
      if p < 1 then failwith "P must be >= 1";
      let col = tabulate (float_colouring p 0) p 0 in
      let jm = make_jm (opt "jm" rest "rr") (fun _ -> p) in
      let jmk = jm 0 in
      Printf.printf "CASE ham P=%d nblocks=%d fixes=%s\n" p nb (fixes_s fx);
      let tp = ham_prepare_trace fx World nb jmk and tc = ham_compute_trace fx World nb jmk in
      List.iter (fun r ->
          Printf.printf "SEQ %d W %s | %s\n" r (String.concat " " (List.map kind_s (proj World (tp r))))
            (String.concat " " (List.map kind_s (proj World (tc r))))) (range p);
      Printf.printf "MATCH %s\n" (b2s (collectives_match_b col p (fun r -> tp r @ tc r)));
      let src r = List.map (fun b -> ham_block_source p jmk r b) (range nb) in
      List.iter (fun r ->
          Printf.printf "EIG %d %s\n" r
            (if nb = 0 then "-" else String.concat " " (List.map (function Some w -> string_of_int w | None -> "?") (src r)))) (range p);
      Printf.printf "IDENTICAL %s\n" (b2s (List.for_all (fun r -> src r = src 0 && not (List.mem None (src r))) (range p)));
      print_endline "END"
  | _ -> failwith "usage: ham P nblocks fixflags [jm=..]"

let () =
  try
    while true do
      let line = String.trim (input_line stdin) in
      if line <> "" && line.[0] <> '#' then begin
        (try
           match List.filter (fun s -> s <> "") (String.split_on_char ' ' line) with
           | ["flags"] ->
               Printf.printf "FLAGS barrier_on_comm=%s root_is_first=%s parts_marked_computed=%s shape=%d,%d,%d,%d,%d,%d\n"
                 (b2s gen_skel_barrier_on_comm) (b2s gen_root_is_first) (b2s gen_parts_marked_computed)
                 gen_skel_barriers_before_loop gen_skel_barriers_after gen_skel_bcasts_root_branch
                 gen_skel_bcasts_other_branch gen_skel_root gen_distribute_bcasts_per_part
           | ("split" | "nosplit" as kind) :: args -> do_container kind args
           | "ham" :: args -> do_ham args
           | _ -> failwith "unknown request"
         with Failure m -> Printf.printf "ERROR %s\n" m
            | Invalid_argument m -> Printf.printf "ERROR %s\n" m);
        flush stdout
      end
    done
  with End_of_file -> ()
