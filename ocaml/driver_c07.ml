(* Driver for the C07 model (extracted PV.Symm at K = Q).  Input: cases

     case <id> <fixed_sz 0|1> <shiftfix 0|1> <default|ignore|custom>
     spins <s0> <s1> ...
     hpoly <nterms> { <p/q> <len> { <dag> <idx> } }
     iom <nterms> { ... }                 (custom mode: one line per candidate, in order)
     end

   Output: the records of harness/h_c07.cpp that the model predicts (CASE, CAND flags, SYMM, OPER, NBLOCKS, BLOCK, QN,
   STATE, OP, MAPSTO, ENDCASE), numbers as reduced fractions p/q. *)
open C07_model

let rec pos_of_int n = if n = 1 then XH else if n land 1 = 0 then XO (pos_of_int (n lsr 1)) else XI (pos_of_int (n lsr 1))
let z_of_int n = if n = 0 then Z0 else if n > 0 then Zpos (pos_of_int n) else Zneg (pos_of_int (-n))
let rec int_of_pos = function XH -> 1 | XO p -> 2 * int_of_pos p | XI p -> 2 * int_of_pos p + 1
let int_of_z = function Z0 -> 0 | Zpos p -> int_of_pos p | Zneg p -> - (int_of_pos p)
let q_of_string s =
  match String.index_opt s '/' with
  | None -> qred { qnum = z_of_int (int_of_string s); qden = XH }
  | Some i -> qred { qnum = z_of_int (int_of_string (String.sub s 0 i));
                     qden = pos_of_int (int_of_string (String.sub s (i+1) (String.length s - i - 1))) }
let string_of_q q = Printf.sprintf "%d/%d" (int_of_z q.qnum) (int_of_pos q.qden)
let words l = List.filter (fun w -> w <> "") (String.split_on_char ' ' (String.trim l))

(* polynomial from "<nterms> { coef len { dag idx } }": inserted term by term, so the model's map invariant holds
   whatever order the terms are listed in *)
let parse_poly (t : string list) : q poly =
  let a = Array.of_list t in
  let p = ref 1 and acc = ref [] in
  let nt = int_of_string a.(0) in
  for _ = 1 to nt do
    let c = q_of_string a.(!p) in
    let len = int_of_string a.(!p + 1) in
    p := !p + 2;
    let m = ref [] in
    for _ = 1 to len do
      let dag = a.(!p) = "1" and idx = int_of_string a.(!p + 1) in
      p := !p + 2;
      m := (not dag, idx) :: !m          (* op = (is_annihilation, index) *)
    done;
    acc := q_insert (List.rev !m) c !acc
  done;
  !acc

let print_poly (p : q poly) =
  Printf.printf " %d" (List.length p);
  List.iter (fun (m, c) ->
    Printf.printf " %s %d" (string_of_q c) (List.length m);
    List.iter (fun (ann, i) -> Printf.printf " %d %d" (if ann then 0 else 1) i) m) p

let err_name = function
  | OOB -> "OOB" | Uninit -> "UNINIT" | OutOfFuel -> "FUEL"
  | Throws 1 -> "Operator::exWrongLabel" | Throws 2 -> "StatesClassification::exWrongState"
  | Throws c -> Printf.sprintf "THROWS%d" c
  | Done _ -> "done"

let pairs l = String.concat "" (List.map (fun (a, b) -> Printf.sprintf " %d %d" a b) l)

let dump_fop kind i j n (c : q list sclass) (o : q poly) =
  Printf.printf "MAPSTO %s %d %d" kind i j;
  List.iteri (fun r _ ->
    match q_mapsTo n c o r with
    | Done (Some l) -> Printf.printf " %d:%d" r l
    | Done None -> Printf.printf " %d:-1" r
    | e -> Printf.printf " %d:ERR-%s" r (err_name e)) c.sc_blocks;
  print_newline ();
  match q_prepare n c o with
  | Done f ->
    Printf.printf "OP %s %d %d P %d%s FR %d%s FL %d%s BM %d%s\n" kind i j
      (List.length f.fo_parts) (pairs f.fo_parts)
      (List.length f.fo_fromRight) (pairs (sort_by fst f.fo_fromRight))
      (List.length f.fo_fromLeft) (pairs (sort_by fst f.fo_fromLeft))
      (List.length f.fo_bimap) (pairs (left_view f.fo_bimap))
  | e -> Printf.printf "OP %s %d %d ERR-%s\n" kind i j (err_name e)

let run_case id fixed_sz shiftfix mode spins h ioms =
  Printf.printf "CASE %s\n" id;
  let n = List.length spins in
  let m = match mode with "default" -> SymmDefault | "ignore" -> SymmIgnore | _ -> SymmCustom ioms in
  match q_symmetrize fixed_sz shiftfix m spins h with
  | Done sy ->
    List.iteri (fun k b -> Printf.printf "CAND %d %d\n" k (if b then 1 else 0)) sy.sy_flags;
    Printf.printf "SYMM ok %d\n" (List.length sy.sy_ops);
    List.iteri (fun k p -> Printf.printf "OPER %d" k; print_poly p; print_newline ()) sy.sy_ops;
    (match q_sc_compute n sy.sy_ops with
     | Done c ->
       let nb = numberOfBlocks c in
       Printf.printf "NBLOCKS %d\n" nb;
       List.iteri (fun b l ->
         Printf.printf "BLOCK %d %d" b (List.length l); List.iter (Printf.printf " %d") l; print_newline ()) c.sc_blocks;
       List.iter (fun (b, q) ->
         Printf.printf "QN %d" b; List.iter (fun v -> Printf.printf " %s" (string_of_q v)) q; print_newline ()) c.sc_b2q;
       let size = 1 lsl n in
       for s = 0 to size - 1 do
         (match getBlockNumber size c s, getInnerState size c s, q_qn_of sy.sy_ops (state_of_nat n s) with
          | Done b, Done i, Done q ->
            Printf.printf "STATE %d %d %d" s b i; List.iter (fun v -> Printf.printf " %s" (string_of_q v)) q; print_newline ()
          | e1, e2, e3 -> Printf.printf "STATE %d ERR-%s-%s-%s\n" s (err_name e1) (err_name e2) (err_name e3))
       done;
       for i = 0 to n - 1 do
         dump_fop "cdag" i (-1) n c (q_cdag i);
         dump_fop "c" i (-1) n c (q_c i)
       done;
       for i = 0 to n - 1 do for j = 0 to n - 1 do dump_fop "quad" i j n c (q_n_offdiag i j) done done
     | e -> Printf.printf "THROWS states %s\n" (err_name e))
  | e -> Printf.printf "SYMM throws %s\n" (err_name e)

let () =
  let cur = ref None and spins = ref [] and h = ref [] and ioms = ref [] in
  try
    while true do
      let line = input_line stdin in
      match words line with
      | "case" :: id :: fs :: sf :: mode :: _ -> cur := Some (id, fs = "1", sf = "1", mode); spins := []; h := []; ioms := []
      | "spins" :: r -> spins := List.map int_of_string r
      | "hpoly" :: r -> h := parse_poly r
      | "iom" :: r -> ioms := !ioms @ [parse_poly r]
      | "end" :: _ ->
        (match !cur with
         | Some (id, fs, sf, mode) ->
           (try run_case id fs sf mode !spins !h !ioms with ex -> Printf.printf "DRIVERERR %s\n" (Printexc.to_string ex));
           Printf.printf "ENDCASE %s\n" id; flush stdout
         | None -> ());
        cur := None
      | _ -> ()
    done
  with End_of_file -> ()
