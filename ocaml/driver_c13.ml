(* Driver for the C13 container model.  Reads the same history commands as harness/h_c13.cpp and prints the same
   canonical lines, so that both outputs can be diffed:
     cfg <fixed: 0|1|src> <nidx>        variant of the model (src = what the translator read off the source), IndexSize
     van i j k l                        declare a quadruple as vanishing (prepare() finds no part); default: not vanishing
     hist                               new container; prints "H"
     fill n <4n> | prep n <4n> | compall s | lookup i j k l | prepelem .. | compelem .. | eval i j k l n1 n2 n3
   Output per operation k:
     G k <c>                            caller's view before the operation: for lookup/prepelem/compelem/eval the ghost status of
                                        the quadruple (C|P|X, - = not listed); for compall 1 if every listed quadruple is >= P else 0
     R k UNIT | R k THROWS <text> | R k SYM <sign> i,j,k,l n1 n2 n3 | R k ZERO <sign>
     D k E ... | N ...                  exactly as the harness *)
open C13_model

let rec pos_of_int n = if n = 1 then XH else if n land 1 = 0 then XO (pos_of_int (n lsr 1)) else XI (pos_of_int (n lsr 1))
let z_of_int n = if n = 0 then Z0 else if n > 0 then Zpos (pos_of_int n) else Zneg (pos_of_int (-n))
let rec int_of_pos = function XH -> 1 | XO p -> 2 * int_of_pos p | XI p -> 2 * int_of_pos p + 1
let int_of_z = function Z0 -> 0 | Zpos p -> int_of_pos p | Zneg p -> - (int_of_pos p)

let fixed = ref false
let nidx = ref 0
let vans : (quad, unit) Hashtbl.t = Hashtbl.create 16
let van q = Hashtbl.mem vans q

let st = ref init
let g : gmap ref = ref []
let k = ref 0
let reg : (int, int) Hashtbl.t = Hashtbl.create 16

let id_of e =
  match Hashtbl.find_opt reg e with
  | Some i -> i
  | None -> let i = Hashtbl.length reg in Hashtbl.add reg e i; i

let key (((a, b), c), d) = Printf.sprintf "%d,%d,%d,%d" a b c d
let schar = function Constructed -> 'C' | Prepared -> 'P' | Computed -> 'X'
let status_of e = match nth_error !st.elems e with Some (_, s) -> schar s | None -> '?'

let dump () =
  List.iter (fun (_, (e, _)) -> ignore (id_of e)) !st.emap;
  List.iter (fun (_, e) -> ignore (id_of e)) !st.nontriv;
  let b = Buffer.create 256 in
  Buffer.add_string b (Printf.sprintf "D %d E" !k);
  List.iter (fun (q, (e, ((((p0, p1), p2), p3), s))) ->
      let sg = match int_of_z s with 1 -> "+" | -1 -> "-" | _ -> "?" in
      Buffer.add_string b (Printf.sprintf " %s>%d:%d%d%d%d%s:%c" (key q) (id_of e) p0 p1 p2 p3 sg (status_of e))) !st.emap;
  Buffer.add_string b " | N";
  List.iter (fun (q, e) -> Buffer.add_string b (Printf.sprintf " %s>%d:%c" (key q) (id_of e) (status_of e))) !st.nontriv;
  print_endline (Buffer.contents b)

let exn_text = function
  | StatusMismatch -> "Object status mismatch"
  | UncomputedPart -> "2PGFPart : Calling operator() on uncomputed container, did you purge all the terms when called compute()"
  | Dangling -> "MODEL-DANGLING-ELEMENT"

let rec quads = function
  | a :: b :: c :: d :: r -> (((a, b), c), d) :: quads r
  | [] -> []
  | _ -> failwith "quads"

let ghost_of q = match qfind q !g with Some s -> String.make 1 (schar s) | None -> "-"

let do_op op gline =
  incr k;
  Printf.printf "G %d %s\n" !k gline;
  let (st', o) = cstep !fixed van !nidx !st op in
  g := gstep !g op st' o;
  st := st';
  (match o with
   | OUnit -> Printf.printf "R %d UNIT\n" !k
   | OThrows e -> Printf.printf "R %d THROWS %s\n" !k (exn_text e)
   | OVal (s, q0, ((t1, t2), t3)) -> Printf.printf "R %d SYM %d %s %d %d %d\n" !k (int_of_z s) (key q0) (int_of_z t1) (int_of_z t2) (int_of_z t3)
   | OZero s -> Printf.printf "R %d ZERO %d\n" !k (int_of_z s));
  dump ()

(* command tokens -> operation and the "caller's view before" text *)
let parse_op toks =
  match toks with
  | "fill" :: _ :: r -> Some (Fill (quads (List.map int_of_string r)), "-")
  | "prep" :: _ :: r -> Some (PrepareAll (quads (List.map int_of_string r)), "-")
  | "compall" :: s :: [] ->
    let allprep = List.for_all (fun (_, s) -> s <> Constructed) !g in
    Some (ComputeAll (s <> "0"), (if allprep then "1" else "0"))
  | c :: a :: b :: cc :: d :: r when List.mem c ["lookup"; "prepelem"; "compelem"; "eval"] ->
    let q = (((int_of_string a, int_of_string b), int_of_string cc), int_of_string d) in
    let op = (match c, r with
        | "lookup", [] -> Lookup q
        | "prepelem", [] -> PrepareElem q
        | "compelem", [] -> ComputeElem q
        | "eval", [n1; n2; n3] -> Eval (q, ((z_of_int (int_of_string n1), z_of_int (int_of_string n2)), z_of_int (int_of_string n3)))
        | _ -> failwith "args") in
    Some (op, ghost_of q)
  | _ -> None

let rec split_at n l = if n = 0 then ([], l) else match l with x :: r -> let (a, b) = split_at (n - 1) r in (x :: a, b) | [] -> failwith "split_at"

let () =
  try
    while true do
      let line = String.trim (input_line stdin) in
      let toks = List.filter (fun s -> s <> "") (String.split_on_char ' ' line) in
      match toks with
      | [] -> ()
      | "cfg" :: f :: n :: [] ->
        fixed := (match f with "1" -> true | "0" -> false | _ -> source_says_fixed);
        nidx := int_of_string n;
        Hashtbl.reset vans
      | "van" :: r -> (match quads (List.map int_of_string r) with [q] -> Hashtbl.replace vans q () | _ -> failwith "van")
      | "hist" :: [] -> st := init; g := []; k := 0; Hashtbl.reset reg; print_endline "H"
      | "srcfixed" :: [] -> Printf.printf "SRCFIXED %d\n" (if source_says_fixed then 1 else 0)
      (* caller's view computed from an observed trace of the implementation:
           ghist                                            new history, prints "GH"
           gop <UNIT|THROWS|VAL> <nkeys> <4*nkeys ints> <operation tokens>     observed outcome and keys listed after the call *)
      | "ghist" :: [] -> g := []; k := 0; print_endline "GH"
      | "gop" :: res :: nk :: rest ->
        let (keyints, optoks) = split_at (4 * int_of_string nk) rest in
        let keys = quads (List.map int_of_string keyints) in
        let st' = { emap = List.map (fun q -> (q, (0, bad_perm))) keys; nontriv = []; elems = [] } in
        let o = if res = "THROWS" then OThrows StatusMismatch else OUnit in
        (match parse_op optoks with
         | Some (op, gline) -> incr k; Printf.printf "G %d %s\n" !k gline; g := gstep !g op st' o
         | None -> print_endline ("PARSE-ERROR " ^ line))
      | _ ->
        (match parse_op toks with
         | Some (op, gline) -> do_op op gline
         | None -> print_endline ("PARSE-ERROR " ^ line))
    done
  with End_of_file -> ()
